// Package guardalloc is the allocator handed to nitro's Config.UseMemoryMgmt by the harness.
// Every block is its own anonymous mmap region (never reused within a run); Free checks the
// live map (double / invalid free), poisons the block with 0xDD and, in protect mode,
// mprotects it PROT_NONE so that a later access faults. Poison is re-verified by Check.
package guardalloc

import (
	"fmt"
	"sync"
	"syscall"
	"unsafe"
)

const pageSize = 4096
const poison = 0xDD

type block struct {
	mem  []byte
	size int
	seq  int
}

type Alloc struct {
	mu       sync.Mutex
	live     map[uintptr]*block
	freed    map[uintptr]*block
	Protect  bool
	Allocs   int
	Frees    int
	BadFrees []string // double / invalid frees, in order
	OnFree   func(p unsafe.Pointer)
}

func New(protect bool) *Alloc {
	return &Alloc{live: map[uintptr]*block{}, freed: map[uintptr]*block{}, Protect: protect}
}

func (a *Alloc) Malloc(n int) unsafe.Pointer {
	sz := (n + pageSize - 1) / pageSize * pageSize
	if sz == 0 {
		sz = pageSize
	}
	mem, err := syscall.Mmap(-1, 0, sz, syscall.PROT_READ|syscall.PROT_WRITE, syscall.MAP_ANON|syscall.MAP_PRIVATE)
	if err != nil {
		panic(err)
	}
	// malloc does not promise zeroed memory: a fresh block is filled with a pattern, so that code which relies on
	// zero-filled blocks (as the bundled calloc-based allocator happens to deliver) shows
	for i := 0; i < n && i < len(mem); i++ {
		mem[i] = 0xA5
	}
	a.mu.Lock()
	defer a.mu.Unlock()
	a.Allocs++
	p := uintptr(unsafe.Pointer(&mem[0]))
	a.live[p] = &block{mem: mem, size: n, seq: a.Allocs}
	return unsafe.Pointer(&mem[0])
}

func (a *Alloc) Free(p unsafe.Pointer) {
	if f := a.OnFree; f != nil {
		f(p)
	}
	a.mu.Lock()
	defer a.mu.Unlock()
	a.Frees++
	b, ok := a.live[uintptr(p)]
	if !ok {
		if fb, was := a.freed[uintptr(p)]; was {
			a.BadFrees = append(a.BadFrees, fmt.Sprintf("double-free of block #%d", fb.seq))
		} else {
			a.BadFrees = append(a.BadFrees, "free of a pointer never allocated")
		}
		return
	}
	delete(a.live, uintptr(p))
	a.freed[uintptr(p)] = b
	for i := range b.mem[:b.size] {
		b.mem[i] = poison
	}
	if a.Protect {
		syscall.Mprotect(b.mem, syscall.PROT_NONE)
	}
}

// IsLive reports whether p is the start of a live block.
func (a *Alloc) IsLive(p unsafe.Pointer) bool {
	a.mu.Lock()
	defer a.mu.Unlock()
	_, ok := a.live[uintptr(p)]
	return ok
}

// WasFreed reports whether p is the start of a block that has been freed.
func (a *Alloc) WasFreed(p unsafe.Pointer) bool {
	a.mu.Lock()
	defer a.mu.Unlock()
	_, ok := a.freed[uintptr(p)]
	return ok
}

func (a *Alloc) Live() int {
	a.mu.Lock()
	defer a.mu.Unlock()
	return len(a.live)
}

// PoisonDamaged counts freed blocks whose poison has been overwritten (write after free).
func (a *Alloc) PoisonDamaged() int {
	a.mu.Lock()
	defer a.mu.Unlock()
	if a.Protect {
		return 0
	}
	n := 0
	for _, b := range a.freed {
		for _, c := range b.mem[:b.size] {
			if c != poison {
				n++
				break
			}
		}
	}
	return n
}

// Release unmaps everything (end of a case).
func (a *Alloc) Release() {
	a.mu.Lock()
	defer a.mu.Unlock()
	for _, b := range a.live {
		syscall.Munmap(b.mem)
	}
	for _, b := range a.freed {
		syscall.Munmap(b.mem)
	}
	a.live = map[uintptr]*block{}
	a.freed = map[uintptr]*block{}
}
