// Package sched is the cooperative scheduler of the harness: logical threads are goroutines
// that block at verif yield points until the controller grants them one step, so exactly one
// of them runs at a time and every segment between two yield points is atomic.
package sched

import (
	"bytes"
	"fmt"
	"runtime"
	"strconv"
	"sync"
	"sync/atomic"
	"time"
)

// Goid returns the id of the calling goroutine.
func Goid() int64 {
	var buf [64]byte
	n := runtime.Stack(buf[:], false)
	b := buf[:n]
	b = bytes.TrimPrefix(b, []byte("goroutine "))
	i := bytes.IndexByte(b, ' ')
	id, _ := strconv.ParseInt(string(b[:i]), 10, 64)
	return id
}

// Event is what a thread reports to the controller: it is parked at a point, or its call returned.
type Event struct {
	Point  int    // yield point id (0 when Ret)
	Ret    bool   // the call has returned
	Val    string // return value rendering (when Ret)
	Panic  string // non-empty if the call panicked
	Detail string
}

type Thread struct {
	ID      int
	goid    int64
	cmd     chan func() string
	ev      chan Event
	resume  chan struct{}
	Parked  bool // parked at a yield point inside a call
	Point   int
	Running bool // a call is in progress
	Job     bool // adopted background goroutine
	Name    string
}

type Controller struct {
	mu      sync.Mutex
	threads []*Thread
	byGoid  map[int64]*Thread
	// Steer decides whether a yield (point, obj) from a registered thread is a scheduling point.
	Steer   func(point int, obj uintptr) bool
	Timeout time.Duration
	// Adopt decides whether an unregistered goroutine (a background worker) arriving at this point becomes a
	// new logical thread (a "job"); adopted threads are announced on Arrivals.
	Adopt    func(point int, obj uintptr) bool
	Arrivals chan *Thread
	Adopted  int64 // number of jobs adopted so far (atomic)
}

func NewController() *Controller {
	return &Controller{byGoid: map[int64]*Thread{}, Timeout: 20 * time.Second, Arrivals: make(chan *Thread, 1024)}
}

// AddThread creates a logical thread (a goroutine waiting for calls).
func (c *Controller) AddThread() *Thread {
	t := &Thread{ID: len(c.threads), cmd: make(chan func() string), ev: make(chan Event), resume: make(chan struct{})}
	ready := make(chan struct{})
	go func() {
		t.goid = Goid()
		c.mu.Lock()
		c.byGoid[t.goid] = t
		c.mu.Unlock()
		close(ready)
		for f := range t.cmd {
			t.run(f)
		}
	}()
	<-ready
	c.threads = append(c.threads, t)
	return t
}

func (t *Thread) run(f func() string) {
	defer func() {
		if r := recover(); r != nil {
			t.ev <- Event{Ret: true, Panic: fmt.Sprint(r)}
		}
	}()
	v := f()
	t.ev <- Event{Ret: true, Val: v}
}

func (c *Controller) Thread(i int) *Thread {
	if i < 0 || i >= len(c.threads) {
		return nil
	}
	return c.threads[i]
}

func (c *Controller) NumThreads() int { return len(c.threads) }

// Hook is installed as VerifHook: a registered thread parks here until granted a step.
func (c *Controller) Hook(point int, obj uintptr) {
	if c.Steer != nil && !c.Steer(point, obj) {
		return
	}
	g := Goid()
	c.mu.Lock()
	t := c.byGoid[g]
	c.mu.Unlock()
	if t == nil {
		if c.Adopt == nil || !c.Adopt(point, obj) {
			return // not a logical thread: runs freely
		}
		t = &Thread{ID: -1, goid: g, ev: make(chan Event, 1), resume: make(chan struct{}), Running: true, Parked: true, Point: point, Job: true}
		c.mu.Lock()
		c.byGoid[g] = t
		c.mu.Unlock()
		atomic.AddInt64(&c.Adopted, 1)
		c.Arrivals <- t
		<-t.resume
		return
	}
	t.ev <- Event{Point: point}
	<-t.resume
}

// Detach lets a parked job goroutine run on unsteered (its job is over) and forgets it.
func (c *Controller) Detach(t *Thread) {
	c.mu.Lock()
	delete(c.byGoid, t.goid)
	c.mu.Unlock()
	t.Running = false
	t.Parked = false
	t.resume <- struct{}{}
}

// WaitArrival waits for the next adopted job.
func (c *Controller) WaitArrival() (*Thread, error) {
	select {
	case t := <-c.Arrivals:
		return t, nil
	case <-time.After(c.Timeout):
		return nil, fmt.Errorf("hang: an expected background job did not arrive within %v", c.Timeout)
	}
}

func (c *Controller) wait(t *Thread) (Event, error) {
	select {
	case e := <-t.ev:
		if e.Ret {
			t.Running = false
			t.Parked = false
			t.Point = 0
		} else {
			t.Parked = true
			t.Point = e.Point
		}
		return e, nil
	case <-time.After(c.Timeout):
		return Event{}, fmt.Errorf("hang: thread %d did not reach a yield point within %v (last point %d)", t.ID, c.Timeout, t.Point)
	}
}

// Start makes an idle thread enter a call and run to its first yield point (or to the end).
func (c *Controller) Start(t *Thread, f func() string) (Event, error) {
	if t.Running {
		return Event{}, fmt.Errorf("thread %d busy", t.ID)
	}
	t.Running = true
	t.cmd <- f
	return c.wait(t)
}

// Step grants a parked thread one segment.
func (c *Controller) Step(t *Thread) (Event, error) {
	if !t.Running || !t.Parked {
		return Event{}, fmt.Errorf("thread %d not parked", t.ID)
	}
	t.Parked = false
	t.resume <- struct{}{}
	return c.wait(t)
}

// Drain runs every in-progress call to completion (used at the end of a case), round-robin.
func (c *Controller) Drain(enabled func(t *Thread) bool) error {
	for rounds := 0; rounds < 1000000; rounds++ {
		progress := false
		busy := false
		for _, t := range c.threads {
			if t.Running && t.Parked {
				busy = true
				if enabled == nil || enabled(t) {
					if _, err := c.Step(t); err != nil {
						return err
					}
					progress = true
				}
			}
		}
		if !busy {
			return nil
		}
		if !progress {
			return fmt.Errorf("deadlock while draining")
		}
	}
	return fmt.Errorf("drain did not finish")
}

// Stop ends all thread goroutines (they must be idle).
func (c *Controller) Stop() {
	for _, t := range c.threads {
		if !t.Running {
			close(t.cmd)
		}
	}
}
