module nvharness

go 1.18

require github.com/couchbase/nitro v0.0.0

replace github.com/couchbase/nitro => /repo
