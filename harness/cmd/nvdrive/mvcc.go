package main

import (
	"encoding/binary"
	"errors"
	"fmt"
	"os"
	"regexp"
	"sort"
	"strconv"
	"strings"
	"sync"
	"sync/atomic"
	"time"
	"unsafe"

	"github.com/couchbase/nitro"
	"github.com/couchbase/nitro/skiplist"
	"nvharness/internal/guardalloc"
	"nvharness/internal/sched"
)

// engine mvcc: one goroutine drives a real Nitro instance (see PROTOCOL.md).
type mvccEngine struct {
	links     bool // links=1: live nodes are chained in an application-side NodeList
	nl        *nitro.NodeList
	db        *nitro.Nitro
	kv        bool
	varkeys   bool // cmp=plainv: keys of 1..10 bytes under the default comparator
	mm        bool
	alloc     *guardalloc.Alloc
	writers   []*nitro.Writer
	snaps     []*nitro.Snapshot
	refs      []int // references the script holds on each snapshot (creation + opens + iterators)
	iters     map[string]*mvIter
	handles   map[string]*skiplist.Node
	down      bool
	delta     bool
	nw        int
	bkdir     string         // directory of the last store
	rr        int            // Visitor refresh rate set by cfg rr=<n> (0: default)
	lastSteps int            // file-system steps counted by the last crashload
	old       []*nitro.Nitro // instances replaced by `load`, closed at teardown

	sent, done int64 // gc lists sent by collectDead / finished by the collection workers
}

type mvIter struct {
	it   *nitro.Iterator
	snap int
}

func init() { engines["mvcc"] = func() engine { return &mvccEngine{} } }

var (
	pointByName = map[string]int{}
	nitroPoint  = map[int]string{}
	slPoint     = map[int]string{}
)

func init() {
	for k, v := range nitro.VerifPointNames {
		nitroPoint[k] = v
		pointByName[v] = k
	}
	for k, v := range skiplist.VerifPointNames {
		v = strings.Replace(v, "TRY_LOCK", "TRYLOCK", 1)
		slPoint[k] = v
		pointByName[v] = k
	}
}

func (e *mvccEngine) teardown() {
	if e.db == nil {
		return
	}
	if !e.down {
		for _, it := range e.iters {
			it.it.Close()
		}
		for i, s := range e.snaps {
			for ; e.refs[i] > 0; e.refs[i]-- {
				s.Close()
			}
		}
		boundedClose(e.db.Close)
	}
	nitro.VerifHook = nil
	if e.alloc != nil {
		e.alloc.Release()
	}
	e.db = nil
	if e.bkdir != "" {
		os.RemoveAll(e.bkdir)
	}
}

func (e *mvccEngine) reset() {
	e.teardown()
	*e = mvccEngine{}
}

func (e *mvccEngine) close() { e.teardown() }

// varKey: an order-preserving encoding of VARYING, non-monotone length for the default comparator (whole item,
// bytes.Compare): a constant byte, then the nine decimal digits of k as bytes 1..10 with the trailing zero digits
// dropped (a proper prefix sorts first, and the dropped digit is the smallest one): 119 -> 4 bytes, 120 -> 3, 200 -> 2.
func varKey(k int) []byte {
	d := []byte(fmt.Sprintf("%09d", k%1000000000))
	n := len(d)
	for n > 0 && d[n-1] == '0' {
		n--
	}
	out := []byte{0x40}
	for _, c := range d[:n] {
		out = append(out, c-'0'+1)
	}
	return out
}

func varKeyDecode(b []byte) (int, bool) {
	if len(b) < 1 || len(b) > 10 || b[0] != 0x40 || (len(b) > 1 && b[len(b)-1] == 1) {
		return 0, false
	}
	k := 0
	for i := 1; i < 10; i++ {
		k *= 10
		if i < len(b) {
			if b[i] < 1 || b[i] > 10 {
				return 0, false
			}
			k += int(b[i] - 1)
		}
	}
	return k, true
}

func (e *mvccEngine) item(k, v int) []byte {
	if e.varkeys {
		return varKey(k)
	}
	kb := make([]byte, 8)
	binary.BigEndian.PutUint64(kb, uint64(k))
	if !e.kv {
		return kb
	}
	// the value is encoded on 1 + v%4 bytes, so that items with equal keys differ in length too
	full := make([]byte, 8)
	binary.BigEndian.PutUint64(full, uint64(v))
	vb := full[8-(1+v%4):]
	if uint64(v) >= 1<<(8*uint(len(vb))) {
		vb = full
	}
	return nitro.KVToBytes(kb, vb)
}

func (e *mvccEngine) show(b []byte) string {
	if e.varkeys {
		k, ok := varKeyDecode(b)
		if !ok {
			return "badbytes:" + bytesToHex(b)
		}
		return fmt.Sprintf("%d:0", k)
	}
	if !e.kv {
		if len(b) != 8 {
			return "badbytes:" + bytesToHex(b)
		}
		return fmt.Sprintf("%d:0", binary.BigEndian.Uint64(b))
	}
	k, v := nitro.KVFromBytes(b)
	if len(k) != 8 || len(v) < 1 || len(v) > 8 {
		return "badbytes:" + bytesToHex(b)
	}
	full := make([]byte, 8)
	copy(full[8-len(v):], v)
	return fmt.Sprintf("%d:%d", binary.BigEndian.Uint64(k), binary.BigEndian.Uint64(full))
}

func (e *mvccEngine) keyOf(b []byte) int {
	if e.varkeys {
		k, _ := varKeyDecode(b)
		return k
	}
	if e.kv {
		k, _ := nitro.KVFromBytes(b)
		b = k
	}
	return int(binary.BigEndian.Uint64(b))
}

func (e *mvccEngine) cur(it *nitro.Iterator) string {
	if !it.Valid() {
		return "end"
	}
	return e.show(it.Get())
}

var nodeCountRe = regexp.MustCompile(`"node_count":\s+(-?\d+)`)
var memUsedRe = regexp.MustCompile(`"memory_used":\s+(-?\d+)`)

// walk counts the unmarked and marked nodes reachable at level 0.
func (e *mvccEngine) walk() (live, marked int) {
	s := e.db.VerifStore()
	n, _ := skiplist.VerifNext(s.HeadNode(), 0)
	for n != s.TailNode() && n != nil {
		next, del := skiplist.VerifNext(n, 0)
		if del {
			marked++
		} else {
			live++
		}
		n = next
	}
	return
}

func (e *mvccEngine) gcQuiesce() bool {
	deadline := time.Now().Add(20 * time.Second)
	for time.Now().Before(deadline) {
		_, _, qlen, _, _ := e.db.VerifGCState()
		if qlen == 0 && atomic.LoadInt64(&e.sent) == atomic.LoadInt64(&e.done) {
			return true
		}
		time.Sleep(200 * time.Microsecond)
	}
	return false
}

func (e *mvccEngine) step(toks []string) string {
	if toks[0] == "cfg" {
		if e.db != nil {
			return "bad-op"
		}
		c, _ := argOf(toks, "cmp")
		m, _ := argOf(toks, "mem")
		nw, ok := natArg(toks, "writers")
		if !ok || nw < 1 || nw > 16 || (c != "plain" && c != "kv" && c != "plainv") || (m != "go" && m != "mm") {
			return "bad-op"
		}
		cfg := nitro.DefaultConfig()
		e.kv = c == "kv"
		e.varkeys = c == "plainv"
		if e.kv {
			cfg.SetKeyComparator(nitro.CompareKV)
		}
		e.mm = m == "mm"
		if e.mm {
			e.alloc = guardalloc.New(false)
			cfg.UseMemoryMgmt(e.alloc.Malloc, e.alloc.Free)
		}
		if d, ok := argOf(toks, "delta"); ok && d == "1" {
			cfg.UseDeltaInterleaving()
			e.delta = true
		}
		e.nw = nw
		if l, ok := argOf(toks, "links"); ok && l == "1" {
			e.links = true
			e.nl = nitro.NewNodeList(nil)
		}
		nitro.VerifHook = func(point int, obj unsafe.Pointer) {
			// only the instance under test counts (scratch instances of the backup ops have no workers)
			switch nitroPoint[point] {
			case "COLLECT_SEND":
				if obj == unsafe.Pointer(e.db) {
					atomic.AddInt64(&e.sent, 1)
				}
			case "WORKER_DONE":
				for _, w := range e.writers {
					if obj == unsafe.Pointer(w) {
						atomic.AddInt64(&e.done, 1)
					}
				}
			}
		}
		e.db = nitro.NewWithConfig(cfg)
		if rr, ok := natArg(toks, "rr"); ok {
			// refresh rate of the iterators the Visitor / StoreToDisk use (default 10000: only very large
			// shards ever refresh)
			e.rr = rr
			e.db.VerifSetRefreshRate(rr)
		}
		for i := 0; i < nw; i++ {
			e.writers = append(e.writers, e.db.NewWriter())
		}
		e.iters = map[string]*mvIter{}
		e.handles = map[string]*skiplist.Node{}
		return "ok"
	}
	if e.db == nil || e.down {
		return "bad-op"
	}
	num := func(i int) (int, bool) {
		if i >= len(toks) {
			return 0, false
		}
		return atoi(toks[i])
	}
	wr := func() *nitro.Writer {
		w, ok := num(1)
		if !ok || w >= len(e.writers) {
			return nil
		}
		return e.writers[w]
	}
	snap := func(i int) (int, *nitro.Snapshot) {
		s, ok := num(i)
		if !ok || s < 1 || s > len(e.snaps) {
			return 0, nil
		}
		return s - 1, e.snaps[s-1]
	}
	switch toks[0] {
	case "put":
		w := wr()
		k, ok := num(2)
		v, ok2 := num(3)
		if w == nil || !ok || !ok2 || len(toks) != 4 {
			return "bad-op"
		}
		if !e.kv {
			v = 0
		}
		n := w.Put2(e.item(k, v))
		if n != nil && e.links {
			// the application chains the nodes it owns through their link field (nitro.NodeList), as the node table
			// of an index does
			e.nl.Add(n)
		}
		return fmt.Sprint(n != nil)
	case "del":
		w := wr()
		k, ok := num(2)
		if w == nil || !ok || len(toks) != 3 {
			return "bad-op"
		}
		if e.links {
			// lookup, removal from the application's chain (which leaves the node's own link pointing into the rest
			// of the chain), then DeleteNode: the same answers as Delete
			n := w.GetNode(e.item(k, 0))
			if n == nil {
				return "false"
			}
			e.nl.Remove((*nitro.Item)(n.Item()).Bytes())
			return fmt.Sprint(w.DeleteNode(n))
		}
		return fmt.Sprint(w.Delete(e.item(k, 0)))
	case "get":
		w := wr()
		k, ok := num(2)
		if w == nil || !ok || len(toks) != 3 {
			return "bad-op"
		}
		n := w.GetNode(e.item(k, 0))
		if n == nil {
			return "none"
		}
		s := e.show((*nitro.Item)(n.Item()).Bytes())
		return s[strings.Index(s, ":")+1:]
	case "getnode":
		w := wr()
		k, ok := num(2)
		if w == nil || !ok || len(toks) != 4 {
			return "bad-op"
		}
		n := w.GetNode(e.item(k, 0))
		if n == nil {
			delete(e.handles, toks[3])
			return "none"
		}
		e.handles[toks[3]] = n
		return "found"
	case "delnode":
		w := wr()
		if w == nil || len(toks) != 3 {
			return "bad-op"
		}
		n := e.handles[toks[2]]
		if n == nil {
			return "bad-op"
		}
		if e.links {
			// the application takes the node out of its own chain (by identity) before it gives it up
			var prev *skiplist.Node
			for c := e.nl.Head(); c != nil; prev, c = c, c.GetLink() {
				if c == n {
					if prev == nil {
						e.nl = nitro.NewNodeList(c.GetLink())
					} else {
						prev.SetLink(c.GetLink())
					}
					break
				}
			}
		}
		return fmt.Sprint(w.DeleteNode(n))
	case "snap":
		s, err := e.db.NewSnapshot()
		if err != nil {
			return "err " + err.Error()
		}
		e.snaps = append(e.snaps, s)
		e.refs = append(e.refs, 1)
		sn, _ := s.VerifSnapshot()
		return fmt.Sprintf("sn=%d count=%d", sn, s.Count())
	case "open":
		i, s := snap(1)
		if s == nil {
			return "bad-op"
		}
		ok := s.Open()
		if ok {
			e.refs[i]++
		}
		return fmt.Sprint(ok)
	case "close":
		i, s := snap(1)
		if s == nil || e.refs[i] <= 0 {
			return "bad-op"
		}
		e.refs[i]--
		s.Close()
		return "ok"
	case "count":
		_, s := snap(1)
		if s == nil {
			return "bad-op"
		}
		return fmt.Sprint(s.Count())
	case "items":
		return fmt.Sprint(e.db.ItemsCount())
	case "scan":
		_, s := snap(1)
		if s == nil {
			return "bad-op"
		}
		it := s.NewIterator()
		if it == nil {
			return "nil"
		}
		var out []string
		for it.SeekFirst(); it.Valid(); it.Next() {
			out = append(out, e.show(it.Get()))
			if len(out) > 1000000 {
				return "runaway-scan"
			}
		}
		it.Close()
		return list(out)
	case "it_new":
		i, s := snap(2)
		if s == nil || len(toks) != 3 || e.iters[toks[1]] != nil {
			return "bad-op"
		}
		it := s.NewIterator()
		if it == nil {
			return "nil"
		}
		e.refs[i]++
		e.iters[toks[1]] = &mvIter{it: it, snap: i}
		return "ok"
	case "it_rate", "it_first", "it_seek", "it_next", "it_refresh", "it_close":
		if len(toks) < 2 || e.iters[toks[1]] == nil {
			return "bad-op"
		}
		mi := e.iters[toks[1]]
		switch toks[0] {
		case "it_rate":
			r, ok := num(2)
			if !ok {
				return "bad-op"
			}
			mi.it.SetRefreshRate(r)
			return "ok"
		case "it_first":
			mi.it.SeekFirst()
		case "it_seek":
			k, ok := num(2)
			if !ok {
				return "bad-op"
			}
			mi.it.Seek(e.item(k, 0))
		case "it_next":
			if !mi.it.Valid() {
				return "bad-op"
			}
			mi.it.Next()
		case "it_refresh":
			mi.it.Refresh()
		case "it_close":
			mi.it.Close()
			e.refs[mi.snap]--
			delete(e.iters, toks[1])
			return "ok"
		}
		return e.cur(mi.it)
	case "visit":
		_, s := snap(1)
		shards, ok := natArg(toks, "shards")
		conc, ok2 := natArg(toks, "conc")
		if s == nil || !ok || !ok2 || shards < 1 || conc < 1 {
			return "bad-op"
		}
		fk, hasFail := natArg(toks, "failkey")
		var mu sync.Mutex
		per := map[int][][]byte{}
		done := make(chan error, 1)
		go func() {
			done <- e.db.Visitor(s, func(itm *nitro.Item, shard int) error {
				b := append([]byte{}, itm.Bytes()...)
				if hasFail && e.keyOf(b) == fk {
					return errors.New("callback failed")
				}
				mu.Lock()
				per[shard] = append(per[shard], b)
				mu.Unlock()
				return nil
			}, shards, conc)
		}()
		var err error
		select {
		case err = <-done:
		case <-time.After(20 * time.Second):
			return "hang"
		}
		if hasFail {
			return fmt.Sprintf("err=%v", err != nil)
		}
		var ids []int
		for id := range per {
			ids = append(ids, id)
		}
		sort.Ints(ids)
		part := "ok"
		var all []string
		last := -1
		for _, id := range ids {
			for _, b := range per[id] {
				k := e.keyOf(b)
				if k <= last {
					part = "bad"
				}
				last = k
				all = append(all, e.show(b))
			}
		}
		return fmt.Sprintf("err=%v part=%s items=%s", err != nil, part, list(all))
	case "visitgap":
		// Visitor while a same-epoch Delete of key `delkey` (writer 0) is parked between its mark and its unlink
		// (skiplist yield point DEL_SEARCH): the structure the Visitor takes its pivots from holds a marked node
		_, s := snap(1)
		shards, ok := natArg(toks, "shards")
		conc, ok2 := natArg(toks, "conc")
		dk, ok3 := natArg(toks, "delkey")
		if s == nil || !ok || !ok2 || !ok3 || shards < 1 || conc < 1 {
			return "bad-op"
		}
		parked := make(chan struct{})
		resume := make(chan struct{})
		var once sync.Once
		store := unsafe.Pointer(e.db.VerifStore())
		prev := skiplist.VerifHook
		var delGoid int64
		skiplist.VerifHook = func(point int, obj unsafe.Pointer) {
			if prev != nil {
				prev(point, obj)
			}
			if slPoint[point] == "DEL_SEARCH" && obj == store && sched.Goid() == atomic.LoadInt64(&delGoid) {
				once.Do(func() {
					close(parked)
					<-resume
				})
			}
		}
		delDone := make(chan bool, 1)
		go func() {
			atomic.StoreInt64(&delGoid, sched.Goid())
			delDone <- e.writers[0].Delete(e.item(dk, 0))
		}()
		var delRes bool
		gap := false
		select {
		case <-parked:
			gap = true
		case delRes = <-delDone: // not a same-epoch delete (or key absent): no gap, the delete is simply done
		case <-time.After(10 * time.Second):
			skiplist.VerifHook = prev
			return "hang"
		}
		// GetRangeSplitItems restarts its walk for as long as it meets a marked node, so the Visitor can only get
		// past its pivot computation once the delete goes on: let it spin on the marked node for a moment first
		vch := make(chan string, 1)
		scanMode := len(toks) > 5 && toks[5] == "mode=scan"
		if scanMode {
			// a plain iterator scan of the snapshot runs to its end INSIDE the gap (iterators do not wait for the
			// delete: they help to unlink the marked node), then the delete goes on
			go func() { vch <- e.step([]string{"scan", toks[1]}) }()
		} else {
			go func() { vch <- e.step(append([]string{"visit"}, toks[1:4]...)) }()
		}
		var visitLine string
		if gap && scanMode {
			select {
			case visitLine = <-vch:
			case <-time.After(10 * time.Second):
				visitLine = "hang"
			}
			close(resume)
		} else {
			if gap {
				time.Sleep(2 * time.Millisecond)
				close(resume)
			}
			visitLine = <-vch
		}
		if gap {
			select {
			case delRes = <-delDone:
			case <-time.After(10 * time.Second):
				skiplist.VerifHook = prev
				return "hang"
			}
		}
		skiplist.VerifHook = prev
		return fmt.Sprintf("del=%v %s", delRes, visitLine)
	case "gcwait":
		if !e.gcQuiesce() {
			return "gc-not-quiescent"
		}
		live, marked := e.walk()
		stat := -1
		if m := nodeCountRe.FindStringSubmatch(e.db.DumpStats()); m != nil {
			stat, _ = strconv.Atoi(m[1])
		}
		nodes := fmt.Sprint(live)
		if stat != live || marked != 0 {
			nodes = fmt.Sprintf("%d/stat=%d/marked=%d", live, stat, marked)
		}
		// memory in use of the store must equal what the walk measures (items + nodes of the linked versions)
		var walked int64
		st := e.db.VerifStore()
		for n, _ := skiplist.VerifNext(st.HeadNode(), 0); n != nil && n != st.TailNode(); {
			next, del := skiplist.VerifNext(n, 0)
			if !del {
				walked += int64(st.Size(n))
			}
			n = next
		}
		if m := memUsedRe.FindStringSubmatch(e.db.DumpStats()); m != nil {
			if used, _ := strconv.ParseInt(m[1], 10, 64); used != walked {
				nodes += fmt.Sprintf("/mem=%d/walk=%d", used, walked)
			}
		}
		return fmt.Sprintf("nodes=%s lastgc=%d snaps=%d", nodes, e.db.GetLastGCSn(), len(e.db.GetSnapshots()))
	case "store", "image", "loadimg", "load", "storeload", "crashload", "manifest", "laststeps":
		return e.backupOp(toks)
	case "shutdown":
		for _, r := range e.refs {
			if r > 0 {
				return "bad-op"
			}
		}
		if len(e.iters) > 0 {
			return "bad-op"
		}
		fin := make(chan struct{})
		go func() { e.db.Close(); close(fin) }()
		select {
		case <-fin:
		case <-time.After(20 * time.Second):
			return "hang"
		}
		e.down = true
		if e.alloc == nil {
			return "live=0 badfree=0"
		}
		bad := len(e.alloc.BadFrees) + e.alloc.PoisonDamaged()
		return fmt.Sprintf("live=%d badfree=%d", e.alloc.Live(), bad)
	}
	return "bad-op"
}
