package main

import (
	"encoding/json"
	"fmt"
	"io/ioutil"
	"os"
	"path/filepath"
	"sort"
	"strings"
	"sync"
	"sync/atomic"
	"syscall"
	"time"
	"unsafe"

	"github.com/couchbase/nitro"
	"github.com/couchbase/nitro/skiplist"
	"nvharness/internal/guardalloc"
	"nvharness/internal/sched"
)

// backup operations of engine mvcc (PROTOCOL.md "engine backup")

func (e *mvccEngine) newConfig() (nitro.Config, *guardalloc.Alloc) {
	cfg := nitro.DefaultConfig()
	if e.kv {
		cfg.SetKeyComparator(nitro.CompareKV)
	}
	var a *guardalloc.Alloc
	if e.mm {
		a = guardalloc.New(false)
		cfg.UseMemoryMgmt(a.Malloc, a.Free)
	}
	if e.delta {
		cfg.UseDeltaInterleaving()
	}
	if os.Getenv("NVDEBUG") != "" {
		fmt.Fprintf(os.Stderr, "newConfig kv=%v mm=%v delta=%v\n", e.kv, e.mm, e.delta)
	}
	return cfg, a
}

func freshDir() string {
	d, _ := ioutil.TempDir("", "nvbk")
	return d
}

// readImage renders a backup directory: every file as name=hex (sorted), plus the manifests as Go parses them.
func readImage(dir string) string {
	var toks []string
	var names []string
	filepath.Walk(dir, func(p string, info os.FileInfo, err error) error {
		if err == nil && !info.IsDir() {
			rel, _ := filepath.Rel(dir, p)
			names = append(names, rel)
		}
		return nil
	})
	sort.Strings(names)
	for _, n := range names {
		bs, _ := ioutil.ReadFile(filepath.Join(dir, n))
		toks = append(toks, n+"="+bytesToHex(bs))
	}
	toks = append(toks, manifestTokens(dir)...)
	return strings.Join(toks, " ")
}

func manifestTokens(dir string) []string {
	ver := "absent"
	if bs, err := ioutil.ReadFile(filepath.Join(dir, "nitro.json")); err == nil {
		m := make(map[string]int)
		if json.Unmarshal(bs, &m) != nil {
			ver = "err"
		} else {
			ver = fmt.Sprint(m["version"])
		}
	}
	names := func(p string) string {
		bs, err := ioutil.ReadFile(p)
		if err != nil {
			return "absent"
		}
		var l []string
		if json.Unmarshal(bs, &l) != nil {
			return "err"
		}
		for _, n := range l {
			if n == "" || strings.ContainsAny(n, " ,=") {
				return "err" // not representable on a protocol line; treated like an unparsable manifest
			}
		}
		return list(l)
	}
	sums := func(p string) string {
		bs, err := ioutil.ReadFile(p)
		if err != nil {
			return "absent"
		}
		var l []uint32
		if json.Unmarshal(bs, &l) != nil {
			return "err"
		}
		var o []string
		for _, x := range l {
			o = append(o, fmt.Sprint(x))
		}
		return list(o)
	}
	return []string{"version=" + ver,
		"files=" + names(filepath.Join(dir, "data", "files.json")), "sums=" + sums(filepath.Join(dir, "data", "checksums.json")),
		"dfiles=" + names(filepath.Join(dir, "delta", "files.json")), "dsums=" + sums(filepath.Join(dir, "delta", "checksums.json"))}
}

// loadScratch loads a directory into a fresh instance and renders the outcome.
func (e *mvccEngine) loadScratch(dir string, conc int, withCount bool) string {
	cfg, a := e.newConfig()
	db := nitro.NewWithConfig(cfg)
	type res struct {
		s   *nitro.Snapshot
		err error
	}
	ch := make(chan res, 1)
	go func() {
		s, err := db.LoadFromDisk(dir, conc, nil)
		ch <- res{s, err}
	}()
	var r res
	select {
	case r = <-ch:
	case <-time.After(20 * time.Second):
		return "hang"
	}
	defer func() {
		if a != nil {
			a.Release()
		}
	}()
	if r.err != nil {
		db.Close()
		return "err"
	}
	it := r.s.NewIterator()
	var items []string
	for it.SeekFirst(); it.Valid(); it.Next() {
		items = append(items, e.show(it.Get()))
	}
	it.Close()
	n := r.s.Count()
	r.s.Close()
	db.Close()
	if withCount {
		return fmt.Sprintf("ok count=%d items=%s", n, list(items))
	}
	return "ok items=" + list(items)
}

func (e *mvccEngine) backupOp(toks []string) string {
	snapOf := func() (int, *nitro.Snapshot) {
		if len(toks) < 2 {
			return 0, nil
		}
		s, ok := atoi(toks[1])
		if !ok || s < 1 || s > len(e.snaps) || e.refs[s-1] <= 0 {
			return 0, nil
		}
		return s - 1, e.snaps[s-1]
	}
	conc, okc := natArg(toks, "conc")
	var churn []int
	hasChurn := false
	churnEach := false
	if c, ok := argOf(toks, "churn"); ok {
		hasChurn = true
		if c == "each" {
			// every item is deleted right after the backup has written it (then a snapshot is cut, released and
			// collected): the cursor of the backup always stands on a node that is being reclaimed
			churnEach = true
		} else {
			var okl bool
			if churn, okl = keyList(c); !okl {
				return "bad-op"
			}
		}
	}
	churnAt, _ := argOf(toks, "churnat")
	releaseSnap := -1
	if r, ok := natArg(toks, "release"); ok {
		if r < 1 || r > len(e.snaps) || e.refs[r-1] <= 0 {
			return "bad-op"
		}
		releaseSnap = r - 1
	}
	switch toks[0] {
	case "manifest":
		if len(toks) != 3 {
			return "bad-op"
		}
		bs, ok := hexToBytes(toks[2])
		if !ok {
			return "bad-op"
		}
		d := freshDir()
		defer os.RemoveAll(d)
		os.MkdirAll(filepath.Join(d, "data"), 0755)
		switch toks[1] {
		case "version":
			ioutil.WriteFile(filepath.Join(d, "nitro.json"), bs, 0644)
			return manifestTokens(d)[0]
		case "files":
			ioutil.WriteFile(filepath.Join(d, "data", "files.json"), bs, 0644)
			return manifestTokens(d)[1]
		case "sums":
			ioutil.WriteFile(filepath.Join(d, "data", "checksums.json"), bs, 0644)
			return manifestTokens(d)[2]
		case "dfiles":
			os.MkdirAll(filepath.Join(d, "delta"), 0755)
			ioutil.WriteFile(filepath.Join(d, "delta", "files.json"), bs, 0644)
			return manifestTokens(d)[3]
		case "dsums":
			os.MkdirAll(filepath.Join(d, "delta"), 0755)
			ioutil.WriteFile(filepath.Join(d, "delta", "checksums.json"), bs, 0644)
			return manifestTokens(d)[4]
		}
		return "bad-op"
	case "store":
		i, s := snapOf()
		if s == nil || !okc || conc < 1 {
			return "bad-op"
		}
		if e.bkdir != "" {
			os.RemoveAll(e.bkdir)
		}
		e.bkdir = freshDir()
		if f, _ := argOf(toks, "failopen"); f == "1" {
			// the shard files cannot be created: <dir>/data exists as a regular file
			ioutil.WriteFile(filepath.Join(e.bkdir, "data"), []byte("x"), 0644)
		}
		e.refs[i]--
		cb, finish := e.churnCallback(churn, hasChurn, churnAt == "gc", churnEach)
		cb, finish2 := e.releaseDuringBackup(releaseSnap, cb)
		err := e.db.StoreToDisk(e.bkdir, s, conc, cb)
		finish()
		finish2()
		if err != nil {
			return "err"
		}
		return "ok"
	case "laststeps":
		return fmt.Sprint(e.lastSteps)
	case "image":
		if e.bkdir == "" {
			return "bad-op"
		}
		return readImage(e.bkdir)
	case "loadimg":
		if !okc || conc < 1 {
			return "bad-op"
		}
		dir := freshDir()
		defer os.RemoveAll(dir)
		for _, t := range toks[1:] {
			eq := strings.Index(t, "=")
			if eq < 0 {
				return "bad-op"
			}
			name, val := t[:eq], t[eq+1:]
			if !strings.Contains(name, "/") && !strings.HasSuffix(name, ".json") {
				continue // conc=, version=, files= ... : parse results are for the model
			}
			bs, ok := hexToBytes(val)
			if !ok {
				return "bad-op"
			}
			p := filepath.Join(dir, name)
			os.MkdirAll(filepath.Dir(p), 0755)
			ioutil.WriteFile(p, bs, 0644)
		}
		return e.loadScratch(dir, conc, true)
	case "load":
		if e.bkdir == "" || !okc || conc < 1 || len(e.iters) > 0 {
			return "bad-op"
		}
		for _, r := range e.refs {
			if r > 0 {
				return "bad-op"
			}
		}
		cfg, a := e.newConfig()
		db := nitro.NewWithConfig(cfg)
		if e.rr > 0 {
			db.VerifSetRefreshRate(e.rr)
		}
		// `pre=1`: the writers (and with them the collection and free workers) of the new instance are created
		// BEFORE the restore replaces its store
		var pre []*nitro.Writer
		if p, _ := argOf(toks, "pre"); p == "1" {
			for i := 0; i < e.nw; i++ {
				pre = append(pre, db.NewWriter())
			}
		}
		s, err := db.LoadFromDisk(e.bkdir, conc, nil)
		if err != nil {
			db.Close()
			return "err"
		}
		// the restored instance replaces the current one
		e.db.Close()
		if e.alloc != nil {
			e.alloc.Release()
		}
		e.db, e.alloc = db, a
		if e.links {
			// the application's chain named nodes of the instance that is gone
			e.nl = nitro.NewNodeList(nil)
		}
		atomic.StoreInt64(&e.sent, 0)
		atomic.StoreInt64(&e.done, 0)
		e.writers = pre
		for i := len(pre); i < e.nw; i++ {
			e.writers = append(e.writers, db.NewWriter())
		}
		e.snaps = []*nitro.Snapshot{s}
		e.refs = []int{1}
		e.handles = map[string]*skiplistNode{}
		sn, _ := s.VerifSnapshot()
		return fmt.Sprintf("ok sn=%d count=%d", sn, s.Count())
	case "storeload":
		i, s := snapOf()
		fsize, okf := natArg(toks, "fsize")
		if s == nil || !okc || !okf || conc < 1 {
			return "bad-op"
		}
		dir := freshDir()
		defer os.RemoveAll(dir)
		e.refs[i]--
		err := withFsizeLimit(uint64(fsize), func() error { return e.db.StoreToDisk(dir, s, conc, nil) })
		if err != nil {
			return "err"
		}
		// the backup reported success: it must restore (an unrestorable "successful" backup is the violation)
		if r := e.loadScratch(dir, conc, false); r != "err" {
			return r
		}
		return "ok-but-unrestorable"
	case "crashload":
		i, s := snapOf()
		at, oka := natArg(toks, "at")
		if s == nil || !okc || !oka || conc < 1 {
			return "bad-op"
		}
		dir := freshDir()
		img := freshDir()
		defer os.RemoveAll(dir)
		defer os.RemoveAll(img)
		e.refs[i]--
		var mu sync.Mutex
		n := 0
		taken := false
		of, _ := argOf(toks, "only")
		onlyFs := of == "fs" // count only the steps of StoreToDisk itself, not every item write (large snapshots)
		prev := nitro.VerifHook
		oldBlock := nitro.DiskBlockSize
		nitro.DiskBlockSize = 64 // flush often, so that crash images contain partial shard files
		nitro.VerifHook = func(point int, obj unsafe.Pointer) {
			name := nitroPoint[point]
			if onlyFs && name != "STORE_FS" {
				name = ""
			}
			switch name {
			case "STORE_FS", "FILE_WRITE", "FILE_FLUSH", "FILE_CLOSE":
				mu.Lock()
				if n == at && !taken {
					copyTree(dir, img)
					taken = true
				}
				n++
				mu.Unlock()
			}
			if prev != nil {
				prev(point, obj)
			}
		}
		cb, finish := e.churnCallback(churn, hasChurn, churnAt == "gc", churnEach)
		err := e.db.StoreToDisk(dir, s, conc, cb)
		finish()
		nitro.VerifHook = prev
		nitro.DiskBlockSize = oldBlock
		if err != nil {
			return "store-err"
		}
		e.lastSteps = n
		if !taken {
			return "none"
		}
		return e.loadScratch(img, conc, false)
	}
	return "bad-op"
}

// churnCallback mutates the instance while a backup is running (on the first item callback): deletes keys
// through writer 0, cuts a snapshot, releases it and lets the collector run. finish() performs the churn after
// the store if no callback was made (empty snapshot), so that the script's effect is the same either way.
func (e *mvccEngine) churnCallback(churn []int, has bool, atGC bool, each bool) (nitro.ItemCallback, func()) {
	if !has {
		return nil, func() {}
	}
	if each {
		var mu sync.Mutex
		restore := func() {}
		if e.alloc != nil {
			// user-managed memory: whenever the backup's own goroutine re-enters the access barrier (iterator
			// refresh, next shard) let the free workers finish first, so that everything the barrier has just
			// released is really returned to the allocator (and poisoned) before the backup goes on
			// (the Visitor scans its shards on goroutines of its own, so the hook is not tied to one goroutine)
			var busy int32
			prev := skiplist.VerifHook
			skiplist.VerifHook = func(point int, obj unsafe.Pointer) {
				if prev != nil {
					prev(point, obj)
				}
				if slPoint[point] == "ACQ_LOAD" && atomic.CompareAndSwapInt32(&busy, 0, 1) {
					e.waitFrees()
					atomic.StoreInt32(&busy, 0)
				}
			}
			restore = func() { skiplist.VerifHook = prev }
		}
		cb := func(ent *nitro.ItemEntry) {
			mu.Lock()
			defer mu.Unlock()
			k := e.keyOf(ent.Item().Bytes())
			e.writers[0].Delete(e.item(k, 0))
			cs, _ := e.db.NewSnapshot()
			e.snaps = append(e.snaps, cs)
			e.refs = append(e.refs, 0)
			cs.Close()
			e.gcQuiesce()
		}
		return cb, restore
	}
	churned := false
	doChurn := func() {
		for _, k := range churn {
			e.writers[0].Delete(e.item(k, 0))
		}
		cs, _ := e.db.NewSnapshot()
		e.snaps = append(e.snaps, cs)
		e.refs = append(e.refs, 0)
		cs.Close()
		e.gcQuiesce()
	}
	var mu sync.Mutex
	fire := func() {
		// not sync.Once: the churn itself closes a snapshot and so re-enters the hook that fires it
		mu.Lock()
		first := !churned
		churned = true
		mu.Unlock()
		if first {
			doChurn()
		}
	}
	cb := func(*nitro.ItemEntry) { fire() }
	restore := func() {}
	if atGC {
		// churn at the moment the backup releases the stored snapshot (first GC re-check on the storing
		// goroutine): in delta mode the collection workers must already be logging by then
		me := sched.Goid()
		prev := nitro.VerifHook
		nitro.VerifHook = func(point int, obj unsafe.Pointer) {
			if prev != nil {
				prev(point, obj)
			}
			if nitroPoint[point] == "GC_RECHECK" && sched.Goid() == me {
				fire()
			}
		}
		restore = func() { nitro.VerifHook = prev }
	}
	return cb, func() {
		restore()
		if !churned {
			doChurn()
		}
	}
}

// releaseDuringBackup closes the script's reference on snapshot `rs` in the middle of a backup: at the first
// re-entry of the storing goroutine into the access barrier (iterator refresh or next shard) after at least one
// item has been written, i.e. in the gap in which the backup holds no barrier token. Collection and the free
// workers are awaited, so whatever that snapshot pinned is really gone when the backup goes on.
func (e *mvccEngine) releaseDuringBackup(rs int, cb nitro.ItemCallback) (nitro.ItemCallback, func()) {
	if rs < 0 {
		return cb, func() {}
	}
	var mu sync.Mutex
	seen, done := false, false
	fire := func() {
		mu.Lock()
		first := seen && !done
		if first {
			done = true
		}
		mu.Unlock()
		if first {
			e.refs[rs]--
			e.snaps[rs].Close()
			e.gcQuiesce()
			if e.alloc != nil {
				e.waitFrees()
			}
		}
	}
	prev := skiplist.VerifHook
	skiplist.VerifHook = func(point int, obj unsafe.Pointer) {
		if prev != nil {
			prev(point, obj)
		}
		if slPoint[point] == "ACQ_LOAD" {
			fire()
		}
	}
	wrapped := func(ent *nitro.ItemEntry) {
		mu.Lock()
		seen = true
		mu.Unlock()
		if cb != nil {
			cb(ent)
		}
	}
	return wrapped, func() {
		skiplist.VerifHook = prev
		mu.Lock()
		pending := !done
		done = true
		mu.Unlock()
		if pending {
			e.refs[rs]--
			e.snaps[rs].Close()
			e.gcQuiesce()
		}
	}
}

// waitFrees waits (bounded) until the free workers are idle: nothing queued and the allocator's free count stable.
func (e *mvccEngine) waitFrees() {
	deadline := time.Now().Add(50 * time.Millisecond)
	last, stable := -1, time.Now()
	for time.Now().Before(deadline) {
		_, _, _, fl, _ := e.db.VerifGCState()
		n := e.alloc.Frees
		if n != last || fl != 0 {
			last, stable = n, time.Now()
		} else if time.Since(stable) > 300*time.Microsecond {
			return
		}
		time.Sleep(50 * time.Microsecond)
	}
}

func copyTree(src, dst string) {
	filepath.Walk(src, func(p string, info os.FileInfo, err error) error {
		if err != nil {
			return nil
		}
		rel, _ := filepath.Rel(src, p)
		if info.IsDir() {
			os.MkdirAll(filepath.Join(dst, rel), 0755)
			return nil
		}
		bs, _ := ioutil.ReadFile(p)
		ioutil.WriteFile(filepath.Join(dst, rel), bs, 0644)
		return nil
	})
}

var fsizeMu sync.Mutex

// withFsizeLimit runs f with RLIMIT_FSIZE lowered (writes beyond the limit fail with EFBIG; SIGXFSZ is ignored).
func withFsizeLimit(limit uint64, f func() error) error {
	fsizeMu.Lock()
	defer fsizeMu.Unlock()
	ignoreXFSZ()
	var old syscall.Rlimit
	syscall.Getrlimit(syscall.RLIMIT_FSIZE, &old)
	lim := old
	lim.Cur = limit
	if err := syscall.Setrlimit(syscall.RLIMIT_FSIZE, &lim); err != nil {
		return fmt.Errorf("setrlimit: %v", err)
	}
	defer syscall.Setrlimit(syscall.RLIMIT_FSIZE, &old)
	return f()
}
