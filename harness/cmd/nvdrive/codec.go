package main

import (
	"bytes"
	"fmt"
	"hash/crc32"
	"io/ioutil"
	"os"
	"path/filepath"
	"sync"

	"github.com/couchbase/nitro"
)

// engine codec: the real rawFileWriter / rawFileReader, KVToBytes/KVFromBytes/CompareKV.
type codecEngine struct {
	db    *nitro.Nitro
	dir   string
	items [][]byte
}

func init() { engines["codec"] = func() engine { return &codecEngine{} } }

func (e *codecEngine) reset() {
	if e.db == nil {
		e.db = nitro.New()
		// the default 512 kB bufio buffers make every tiny file operation allocate 1 MB; the framing
		// does not depend on the buffer size (thorough runs also use the default, see `bufsize`)
		nitro.DiskBlockSize = 4096
		e.dir, _ = ioutil.TempDir("", "nvcodec")
	}
	e.items = nil
}

func (e *codecEngine) close() {
	if e.db != nil {
		e.db.Close()
		os.RemoveAll(e.dir)
		e.db = nil
	}
}

func (e *codecEngine) step(toks []string) string {
	switch {
	case toks[0] == "item" && len(toks) == 2:
		b, ok := hexToBytes(toks[1])
		if !ok {
			return "bad-op"
		}
		e.items = append(e.items, b)
		return "ok"
	case toks[0] == "bufsize" && len(toks) == 2:
		n, ok := atoi(toks[1])
		if !ok || n < 16 {
			return "bad-op"
		}
		nitro.DiskBlockSize = n
		return "ok"
	case toks[0] == "write" && len(toks) == 1:
		path := filepath.Join(e.dir, "f")
		os.Remove(path)
		w := e.db.VerifNewFileWriter()
		if err := w.Open(path); err != nil {
			return "err " + err.Error()
		}
		for _, it := range e.items {
			if err := w.WriteItem(e.db.VerifNewItem(it)); err != nil {
				return "err " + err.Error()
			}
		}
		sum := w.Checksum() // as StoreToDisk reads it: before Close appends the terminator
		if err := w.Close(); err != nil {
			return "err " + err.Error()
		}
		bs, _ := ioutil.ReadFile(path)
		return fmt.Sprintf("bytes=%s sum=%d", bytesToHex(bs), sum)
	case toks[0] == "writev0" && len(toks) == 1:
		// there is no v0 writer in the code base any more: the harness frames the old format itself
		var buf bytes.Buffer
		for _, it := range append(append([][]byte{}, e.items...), []byte{}) {
			buf.Write([]byte{byte(len(it) >> 8), byte(len(it))})
			buf.Write(it)
		}
		return "bytes=" + bytesToHex(buf.Bytes())
	case toks[0] == "read" && len(toks) == 3:
		ver, ok := natArg(toks[1:2], "ver")
		bs, ok2 := hexToBytes(toks[2])
		if !ok || !ok2 {
			return "bad-op"
		}
		path := filepath.Join(e.dir, "r")
		ioutil.WriteFile(path, bs, 0644)
		r := e.db.VerifNewFileReader(ver)
		if err := r.Open(path); err != nil {
			return "err " + err.Error()
		}
		defer r.Close()
		var got []string
		for {
			itm, err := r.ReadItem()
			if err != nil {
				return fmt.Sprintf("err n=%d", len(got))
			}
			if itm == nil {
				break
			}
			got = append(got, bytesToHex(itm.Bytes()))
		}
		return fmt.Sprintf("ok n=%d sum=%d items=%s", len(got), r.Checksum(), list(got))
	case toks[0] == "pwrite" && len(toks) == 4:
		// W writers of ONE instance write their own files at the same time, then W readers read them back at the
		// same time: every file must round-trip and the reader's checksum must equal the writer's (what
		// StoreToDisk/LoadFromDisk do with concurrency > 1). Items are a function of (seed, writer, index).
		nw, ok := natArg(toks[1:], "w")
		n, ok2 := natArg(toks[1:], "n")
		seed, ok3 := natArg(toks[1:], "seed")
		if !ok || !ok2 || !ok3 || nw < 1 || nw > 16 || n > 100000 {
			return "bad-op"
		}
		gen := func(w, i int) []byte {
			x := uint64(seed)*2862933555777941757 + uint64(w)*3202034522624059733 + uint64(i)*6364136223846793005 + 1442695040888963407
			x ^= x >> 29
			l := 1 + int(x%uint64(1+(i%7)*97))
			b := make([]byte, l)
			for j := range b {
				x = x*6364136223846793005 + 1442695040888963407
				b[j] = byte(x >> 56)
			}
			return b
		}
		res := make([]string, nw)
		sums := make([]uint32, nw)
		start := make(chan struct{})
		var wg sync.WaitGroup
		for w := 0; w < nw; w++ {
			wg.Add(1)
			go func(w int) {
				defer wg.Done()
				path := filepath.Join(e.dir, fmt.Sprintf("p%d", w))
				os.Remove(path)
				fw := e.db.VerifNewFileWriter()
				if err := fw.Open(path); err != nil {
					res[w] = "err " + err.Error()
					return
				}
				<-start
				for i := 0; i < n; i++ {
					if err := fw.WriteItem(e.db.VerifNewItem(gen(w, i))); err != nil {
						res[w] = "err " + err.Error()
						return
					}
				}
				sums[w] = fw.Checksum()
				if err := fw.Close(); err != nil {
					res[w] = "err " + err.Error()
				}
			}(w)
		}
		close(start)
		wg.Wait()
		start = make(chan struct{})
		for w := 0; w < nw; w++ {
			wg.Add(1)
			go func(w int) {
				defer wg.Done()
				if res[w] != "" {
					return
				}
				fr := e.db.VerifNewFileReader(1)
				if err := fr.Open(filepath.Join(e.dir, fmt.Sprintf("p%d", w))); err != nil {
					res[w] = "err " + err.Error()
					return
				}
				defer fr.Close()
				<-start
				for i := 0; ; i++ {
					itm, err := fr.ReadItem()
					if err != nil {
						res[w] = fmt.Sprintf("mismatch writer=%d item=%d read-error", w, i)
						return
					}
					if itm == nil {
						if i != n {
							res[w] = fmt.Sprintf("mismatch writer=%d items=%d of %d", w, i, n)
						}
						break
					}
					if i >= n || !bytes.Equal(itm.Bytes(), gen(w, i)) {
						res[w] = fmt.Sprintf("mismatch writer=%d item=%d", w, i)
						return
					}
				}
				if res[w] == "" && fr.Checksum() != sums[w] {
					res[w] = fmt.Sprintf("mismatch writer=%d checksum", w)
				}
			}(w)
		}
		close(start)
		wg.Wait()
		for _, r := range res {
			if r != "" {
				return r
			}
		}
		return "ok"
	case toks[0] == "kv" && len(toks) == 3:
		k, ok := hexToBytes(toks[1])
		v, ok2 := hexToBytes(toks[2])
		if !ok || !ok2 {
			return "bad-op"
		}
		enc := nitro.KVToBytes(k, v)
		k2, v2 := nitro.KVFromBytes(enc)
		return fmt.Sprintf("bytes=%s k=%s v=%s", bytesToHex(enc), bytesToHex(k2), bytesToHex(v2))
	case toks[0] == "cmpkv" && len(toks) == 3:
		a, ok := hexToBytes(toks[1])
		b, ok2 := hexToBytes(toks[2])
		if !ok || !ok2 || !kvWellFormed(a) || !kvWellFormed(b) {
			return "bad-op"
		}
		return sgn(nitro.CompareKV(a, b))
	case toks[0] == "cmp" && len(toks) == 3:
		a, ok := hexToBytes(toks[1])
		b, ok2 := hexToBytes(toks[2])
		if !ok || !ok2 {
			return "bad-op"
		}
		return sgn(bytes.Compare(a, b))
	case toks[0] == "crc" && len(toks) == 2:
		a, ok := hexToBytes(toks[1])
		if !ok {
			return "bad-op"
		}
		return fmt.Sprint(crc32.ChecksumIEEE(a))
	}
	return "bad-op"
}

func kvWellFormed(b []byte) bool {
	if len(b) < 2 {
		return false
	}
	return 2+int(b[0])+int(b[1])<<8 <= len(b)
}
