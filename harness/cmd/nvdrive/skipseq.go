package main

import (
	"fmt"
	"strconv"
	"strings"
	"unsafe"

	"github.com/couchbase/nitro/skiplist"
)

// engine skipseq: package skiplist driven by one goroutine, integer items, scripted level requests.

// levelSrc is a rand.Source whose Float32 stream yields `n` draws below p = 0.25 and then one above.
type levelSrc struct{ left int }

func (s *levelSrc) Seed(int64) {}
func (s *levelSrc) Int63() int64 {
	if s.left > 0 {
		s.left--
		return 0 // Float32() == 0 < p
	}
	return 1<<62 | 1<<52 // Float64() is about 0.5 in every math/rand implementation, so Float32() >= p
}

func scripted(n int) func() float32 {
	left := n
	return func() float32 {
		if left > 0 {
			left--
			return 0
		}
		return 0.5
	}
}

type skipSeqEngine struct {
	s         *skiplist.Skiplist
	buf       *skiplist.ActionBuffer
	b         *skiplist.Builder
	segs      map[string]*skiplist.Segment
	segSrc    map[string]*levelSrc
	handles   map[string]*skiplist.Node
	lists     map[string]*skiplist.Skiplist
	mit       *skiplist.MergeIterator
	started   bool
	assembled bool
}

func init() { engines["skipseq"] = func() engine { return &skipSeqEngine{} } }

func (e *skipSeqEngine) reset() {
	*e = skipSeqEngine{}
	e.b = skiplist.NewBuilder()
	e.s = skiplist.New()
	e.buf = e.s.MakeBuf()
	e.segs = map[string]*skiplist.Segment{}
	e.segSrc = map[string]*levelSrc{}
	e.handles = map[string]*skiplist.Node{}
	e.lists = map[string]*skiplist.Skiplist{}
}

func (e *skipSeqEngine) close() {}

func ikey(p unsafe.Pointer) int { return skiplist.IntFromItem(p) }

func walkLevels(s *skiplist.Skiplist, showMarked bool) string {
	lvl := s.VerifLevel()
	var parts []string
	top := -1
	all := make([][]string, lvl+1)
	for l := 0; l <= lvl; l++ {
		n, _ := skiplist.VerifNext(s.HeadNode(), l)
		for n != nil && n != s.TailNode() {
			next, del := skiplist.VerifNext(n, l)
			if !del {
				all[l] = append(all[l], fmt.Sprint(ikey(n.Item())))
			} else if showMarked {
				all[l] = append(all[l], "!"+fmt.Sprint(ikey(n.Item())))
			}
			n = next
			if len(all[l]) > 1000000 {
				return "cycle"
			}
		}
		if len(all[l]) > 0 {
			top = l
		}
	}
	for l := 0; l <= top; l++ {
		parts = append(parts, fmt.Sprintf("L%d=%s", l, list(all[l])))
	}
	if len(parts) == 0 {
		return fmt.Sprintf("lvl=%d L0=.", lvl)
	}
	return fmt.Sprintf("lvl=%d %s", lvl, strings.Join(parts, ";"))
}

func statsLine(s *skiplist.Skiplist, quiescent bool) string {
	dist, soft, allocs, frees, used := s.VerifRawStats()
	// memory in use must equal what a walk of level 0 measures (checked here at quiescence, not modelled: a mismatch
	// is appended to the line, which then never matches the model; while a call is in flight its node can be
	// linked and not yet counted)
	var walked int64
	if n, _ := skiplist.VerifNext(s.HeadNode(), 0); n != nil {
		for cnt := 0; n != nil && n != s.TailNode() && cnt < 10000000; cnt++ {
			next, del := skiplist.VerifNext(n, 0)
			if !del {
				walked += int64(s.Size(n))
			}
			n = next
		}
	}
	memSuffix := ""
	if quiescent && used != walked {
		memSuffix = fmt.Sprintf(" mem=%d/walk=%d", used, walked)
	}
	last := -1
	nodes := int64(0)
	for i, c := range dist {
		nodes += c
		if c != 0 {
			last = i
		}
	}
	var d []string
	for i := 0; i <= last; i++ {
		d = append(d, fmt.Sprint(dist[i]))
	}
	return fmt.Sprintf("nodes=%d soft=%d allocs=%d frees=%d dist=%s", nodes, soft, allocs, frees, list(d)) + memSuffix
}

func keyList(s string) ([]int, bool) {
	if s == "." {
		return nil, true
	}
	var out []int
	for _, t := range strings.Split(s, ",") {
		n, err := strconv.Atoi(t)
		if err != nil || n < 0 {
			return nil, false
		}
		out = append(out, n)
	}
	return out, true
}

func (e *skipSeqEngine) step(toks []string) string {
	num := func(i int) (int, bool) {
		if i >= len(toks) {
			return 0, false
		}
		return atoi(toks[i])
	}
	switch toks[0] {
	case "ins":
		k, ok := num(1)
		l, ok2 := natArg(toks, "lvl")
		if !ok || !ok2 || len(toks) != 3 {
			return "bad-op"
		}
		e.started = true
		_, succ := e.s.Insert2(skiplist.NewIntKeyItem(k), skiplist.CompareInt, nil, e.buf, scripted(l), &e.s.Stats)
		return fmt.Sprint(succ)
	case "del":
		k, ok := num(1)
		if !ok || len(toks) != 2 {
			return "bad-op"
		}
		return fmt.Sprint(e.s.Delete(skiplist.NewIntKeyItem(k), skiplist.CompareInt, e.buf, &e.s.Stats))
	case "look":
		k, ok := num(1)
		if !ok || len(toks) != 2 {
			return "bad-op"
		}
		_, _, found := e.s.Lookup(skiplist.NewIntKeyItem(k), skiplist.CompareInt, e.buf, &e.s.Stats)
		return fmt.Sprint(found)
	case "getnode":
		k, ok := num(1)
		if !ok || len(toks) != 3 {
			return "bad-op"
		}
		_, curr, found := e.s.Lookup(skiplist.NewIntKeyItem(k), skiplist.CompareInt, e.buf, &e.s.Stats)
		if !found {
			delete(e.handles, toks[2])
			return "none"
		}
		e.handles[toks[2]] = curr
		return "found"
	case "delnode":
		if len(toks) != 2 || e.handles[toks[1]] == nil {
			return "bad-op"
		}
		return fmt.Sprint(e.s.DeleteNode(e.handles[toks[1]], skiplist.CompareInt, e.buf, &e.s.Stats))
	case "walk":
		return walkLevels(e.s, true)
	case "stats":
		return statsLine(e.s, true)
	case "iter":
		it := e.s.NewIterator(skiplist.CompareInt, e.buf)
		defer it.Close()
		var out []string
		for it.SeekFirst(); it.Valid(); it.Next() {
			out = append(out, fmt.Sprint(ikey(it.Get())))
			if len(out) > 1000000 {
				return "runaway"
			}
		}
		return list(out)
	case "seek":
		k, ok := num(1)
		if !ok || len(toks) != 2 {
			return "bad-op"
		}
		it := e.s.NewIterator(skiplist.CompareInt, e.buf)
		defer it.Close()
		found := it.Seek(skiplist.NewIntKeyItem(k))
		at := "end"
		if it.Valid() {
			at = fmt.Sprint(ikey(it.Get()))
		}
		return fmt.Sprintf("found=%v at=%s", found, at)
	case "seg_new":
		if len(toks) != 2 || e.segs[toks[1]] != nil || e.assembled || e.started {
			return "bad-op"
		}
		sg := e.b.NewSegment()
		src := &levelSrc{}
		sg.VerifSetRand(src)
		e.segs[toks[1]] = sg
		e.segSrc[toks[1]] = src
		return "ok"
	case "seg_add":
		k, ok := num(2)
		l, ok2 := natArg(toks, "lvl")
		if len(toks) != 4 || !ok || !ok2 || e.segs[toks[1]] == nil || e.assembled {
			return "bad-op"
		}
		e.segSrc[toks[1]].left = l
		e.segs[toks[1]].Add(skiplist.NewIntKeyItem(k))
		return "ok"
	case "assemble":
		if len(toks) != 2 || e.assembled || e.started {
			return "bad-op"
		}
		var segs []*skiplist.Segment
		if toks[1] != "." {
			for _, n := range strings.Split(toks[1], ",") {
				if e.segs[n] == nil {
					return "bad-op"
				}
				segs = append(segs, e.segs[n])
			}
		}
		e.s = e.b.Assemble(segs...)
		e.buf = e.s.MakeBuf()
		e.assembled = true
		return "ok"
	case "list":
		if len(toks) != 3 || e.lists[toks[1]] != nil {
			return "bad-op"
		}
		ks, ok := keyList(toks[2])
		if !ok {
			return "bad-op"
		}
		s := skiplist.New()
		b := s.MakeBuf()
		for i, k := range ks {
			s.Insert2(skiplist.NewIntKeyItem(k), skiplist.CompareInt, nil, b, scripted(i%3), &s.Stats)
		}
		e.lists[toks[1]] = s
		return "ok"
	case "m_new":
		if len(toks) != 2 {
			return "bad-op"
		}
		var its []*skiplist.Iterator
		if toks[1] != "." {
			for _, n := range strings.Split(toks[1], ",") {
				s := e.lists[n]
				if s == nil {
					return "bad-op"
				}
				its = append(its, s.NewIterator(skiplist.CompareInt, s.MakeBuf()))
			}
		}
		e.mit = skiplist.NewMergeIterator(its)
		return "ok"
	case "m_first", "m_seek", "m_next":
		if e.mit == nil {
			return "bad-op"
		}
		pre := ""
		switch toks[0] {
		case "m_first":
			e.mit.SeekFirst()
		case "m_seek":
			k, ok := num(1)
			if !ok {
				return "bad-op"
			}
			pre = fmt.Sprintf("found=%v at=", e.mit.Seek(skiplist.NewIntKeyItem(k)))
		case "m_next":
			if !e.mit.Valid() {
				return "bad-op"
			}
			e.mit.Next()
		}
		if !e.mit.Valid() {
			return pre + "end"
		}
		return pre + fmt.Sprint(ikey(e.mit.Get()))
	}
	return "bad-op"
}
