package main

import (
	"os/signal"
	"sync"
	"syscall"

	"github.com/couchbase/nitro/skiplist"
)

type skiplistNode = skiplist.Node

var xfszOnce sync.Once

func ignoreXFSZ() { xfszOnce.Do(func() { signal.Ignore(syscall.SIGXFSZ) }) }
