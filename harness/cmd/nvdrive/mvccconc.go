package main

import (
	"fmt"
	"sort"
	"strings"
	"sync/atomic"
	"time"
	"unsafe"

	"github.com/couchbase/nitro"
	"github.com/couchbase/nitro/skiplist"
	"nvharness/internal/guardalloc"
	"nvharness/internal/sched"
)

// engine mvccconc: writers, readers, snapshot closes and the collection / free workers of one real Nitro
// instance (user-managed memory) steered at the nitro-level yield points (PROTOCOL.md).
type mvccConcEngine struct {
	mv       *mvccEngine // item encoding helpers and instance
	ctl      *sched.Controller
	nw, nr   int
	held     []int // creation references the script still holds per snapshot
	iters    []map[string]*nitro.Iterator
	valid    []map[string]bool
	jobs     map[string]*sched.Thread
	ngc, nfr int
	expGC    int64
	expFree  int64
	sentJobs int64 // lists handed to background workers so far (collection and free)
	kind     []string
	down     bool
}

func init() { engines["mvccconc"] = func() engine { return &mvccConcEngine{} } }

var mvccConcNitroPoints = map[string]bool{"PUT_INSERT": true, "DEL_NODE_PHYS": true, "DEL_NODE_CAS": true, "DEL_NODE_FLUSH": true, "COLLECT_SEND": true}
var mvccConcJobPoints = map[string]bool{"WORKER_RECV": true, "WORKER_NODE": true, "WORKER_FLUSH": true, "WORKER_DONE": true, "FREE_RECV": true, "FREE_DONE": true}

func (e *mvccConcEngine) teardown() {
	if e.mv == nil {
		return
	}
	if e.ctl != nil {
		// let everything run to completion unsteered
		e.ctl.Steer = func(int, uintptr) bool { return false }
		e.ctl.Adopt = nil
		for _, j := range e.jobs {
			e.ctl.Detach(j)
		}
		e.ctl.Drain(nil)
		e.ctl.Stop()
	}
	nitro.VerifHook = nil
	skiplist.VerifHook = nil
	if !e.down && e.mv.db != nil {
		for _, its := range e.iters {
			for _, it := range its {
				it.Close()
			}
		}
		for i, s := range e.mv.snaps {
			for ; e.held[i] > 0; e.held[i]-- {
				s.Close()
			}
		}
		fin := make(chan struct{})
		go func() { e.mv.db.Close(); close(fin) }()
		select {
		case <-fin:
		case <-time.After(10 * time.Second):
		}
	}
	if e.mv.alloc != nil {
		e.mv.alloc.Release()
	}
	e.mv = nil
}

func (e *mvccConcEngine) reset() {
	e.teardown()
	*e = mvccConcEngine{}
}

func (e *mvccConcEngine) close() { e.teardown() }

// settle waits for the jobs created by the segment that just ended and names them.
func (e *mvccConcEngine) settle() (string, error) {
	var names []string
	for atomic.LoadInt64(&e.expGC) > 0 || atomic.LoadInt64(&e.expFree) > 0 {
		t, err := e.ctl.WaitArrival()
		if err != nil {
			return "", err
		}
		if nitroPoint[t.Point] == "WORKER_RECV" {
			t.Name = fmt.Sprintf("gc%d", e.ngc)
			e.ngc++
			atomic.AddInt64(&e.expGC, -1)
		} else {
			t.Name = fmt.Sprintf("fr%d", e.nfr)
			e.nfr++
			atomic.AddInt64(&e.expFree, -1)
		}
		e.jobs[t.Name] = t
		names = append(names, t.Name)
	}
	// canonical order within one segment: collection jobs in send order, then free jobs
	sort.SliceStable(names, func(i, j int) bool { return names[i][:2] == "gc" && names[j][:2] == "fr" })
	out := ""
	for _, n := range names {
		out += " +" + n
	}
	return out, nil
}

func (e *mvccConcEngine) report(t *sched.Thread, ev sched.Event, err error) string {
	if err != nil {
		return strings.ReplaceAll(err.Error(), "\n", " ")
	}
	var o string
	switch {
	case ev.Panic != "":
		o = "panic " + strings.ReplaceAll(ev.Panic, "\n", " ")
	case ev.Ret:
		o = "ret"
		if ev.Val != "" {
			o += " " + ev.Val
		}
	default:
		if n, ok := nitroPoint[ev.Point]; ok {
			o = "at " + n
		} else {
			o = "at " + slPoint[ev.Point]
		}
	}
	suffix, serr := e.settle()
	if serr != nil {
		return strings.ReplaceAll(serr.Error(), "\n", " ")
	}
	return o + suffix
}

func (e *mvccConcEngine) busyWriters() bool {
	for i := 0; i < e.nw; i++ {
		if e.ctl.Thread(i).Running {
			return true
		}
	}
	return false
}

func (e *mvccConcEngine) step(toks []string) string {
	if toks[0] == "init" {
		nw, ok := natArg(toks, "writers")
		nr, ok2 := natArg(toks, "readers")
		c, _ := argOf(toks, "cmp")
		if !ok || !ok2 || nw < 1 || nw > 8 || nr > 8 || (c != "plain" && c != "kv") || e.mv != nil {
			return "bad-op"
		}
		e.mv = &mvccEngine{kv: c == "kv", mm: true}
		e.mv.alloc = guardalloc.New(false)
		cfg := nitro.DefaultConfig()
		if e.mv.kv {
			cfg.SetKeyComparator(nitro.CompareKV)
		}
		cfg.UseMemoryMgmt(e.mv.alloc.Malloc, e.mv.alloc.Free)
		e.nw, e.nr = nw, nr
		e.jobs = map[string]*sched.Thread{}
		e.ctl = sched.NewController()
		e.mv.db = nitro.NewWithConfig(cfg)
		store := uintptr(unsafe.Pointer(e.mv.db.VerifStore()))
		e.ctl.Steer = func(point int, obj uintptr) bool {
			if n, ok := nitroPoint[point]; ok {
				if n == "FREE_SEND" {
					// Jobs are named in arrival order. Before this list is sent, wait until the receiver of every
					// list sent earlier has parked, so that arrival order = send order even when one segment
					// destructs several sessions.
					deadline := time.Now().Add(10 * time.Second)
					for atomic.LoadInt64(&e.ctl.Adopted) < atomic.LoadInt64(&e.sentJobs) && time.Now().Before(deadline) {
						time.Sleep(20 * time.Microsecond)
					}
					atomic.AddInt64(&e.sentJobs, 1)
					atomic.AddInt64(&e.expFree, 1)
					return false
				}
				return mvccConcNitroPoints[n] || mvccConcJobPoints[n]
			}
			return slPoint[point] == "ITER_NEXT" && obj == store
		}
		e.ctl.Adopt = func(point int, obj uintptr) bool {
			n := nitroPoint[point]
			return n == "WORKER_RECV" || n == "FREE_RECV"
		}
		nitro.VerifHook = func(point int, obj unsafe.Pointer) { e.ctl.Hook(point, uintptr(obj)) }
		skiplist.VerifHook = func(point int, obj unsafe.Pointer) { e.ctl.Hook(point, uintptr(obj)) }
		// nitro starts one collection worker and one free worker per Writer; extra, never used writers make
		// sure a worker is available for every job in flight (they contribute empty garbage lists and zero counts)
		for i := 0; i < nw+24; i++ {
			e.mv.writers = append(e.mv.writers, e.mv.db.NewWriter())
		}
		for i := 0; i < nw+nr; i++ {
			e.ctl.AddThread()
			e.iters = append(e.iters, map[string]*nitro.Iterator{})
			e.valid = append(e.valid, map[string]bool{})
		}
		e.kind = make([]string, nw+nr)
		return "ok"
	}
	if e.mv == nil || e.down {
		return "bad-op"
	}
	mv := e.mv
	switch toks[0] {
	case "snap":
		if len(toks) != 1 || e.busyWriters() {
			return "bad-op"
		}
		s, err := mv.db.NewSnapshot()
		if err != nil {
			return "err"
		}
		mv.snaps = append(mv.snaps, s)
		e.held = append(e.held, 1)
		sn, _ := s.VerifSnapshot()
		return fmt.Sprintf("sn=%d count=%d", sn, s.Count())
	case "start":
		if len(toks) < 3 {
			return "bad-op"
		}
		ti, ok := atoi(toks[1])
		t := e.ctl.Thread(ti)
		if !ok || t == nil || t.Running {
			return "bad-op"
		}
		num := func(i int) (int, bool) {
			if i >= len(toks) {
				return 0, false
			}
			return atoi(toks[i])
		}
		var f func() string
		isWriter := ti < e.nw
		cur := func(name string, it *nitro.Iterator) string {
			if !it.Valid() {
				e.valid[ti][name] = false
				return "end"
			}
			e.valid[ti][name] = true
			return mv.show(it.Get())
		}
		switch toks[2] {
		case "put":
			k, ok := num(3)
			v, ok2 := num(4)
			if !isWriter || !ok || !ok2 || len(toks) != 5 {
				return "bad-op"
			}
			if !mv.kv {
				v = 0
			}
			w := mv.writers[ti]
			f = func() string { return fmt.Sprint(w.Put2(mv.item(k, v)) != nil) }
		case "del":
			k, ok := num(3)
			if !isWriter || !ok || len(toks) != 4 {
				return "bad-op"
			}
			w := mv.writers[ti]
			f = func() string { return fmt.Sprint(w.Delete(mv.item(k, 0))) }
		case "get":
			k, ok := num(3)
			if !isWriter || !ok || len(toks) != 4 {
				return "bad-op"
			}
			w := mv.writers[ti]
			f = func() string {
				n := w.GetNode(mv.item(k, 0))
				if n == nil {
					return "none"
				}
				s := mv.show((*nitro.Item)(n.Item()).Bytes())
				return s[strings.Index(s, ":")+1:]
			}
		case "close":
			s, ok := num(3)
			if !ok || s < 1 || s > len(mv.snaps) || e.held[s-1] <= 0 || len(toks) != 4 {
				return "bad-op"
			}
			e.held[s-1]--
			sn := mv.snaps[s-1]
			f = func() string { sn.Close(); return "" }
		case "it_new":
			s, ok := num(4)
			if isWriter || !ok || s < 1 || s > len(mv.snaps) || len(toks) != 5 || e.iters[ti][toks[3]] != nil {
				return "bad-op"
			}
			name := toks[3]
			sn := mv.snaps[s-1]
			f = func() string {
				it := sn.NewIterator()
				if it == nil {
					return "nil"
				}
				e.iters[ti][name] = it
				return "ok"
			}
		case "it_first", "it_next", "it_close":
			if isWriter || len(toks) != 4 || e.iters[ti][toks[3]] == nil {
				return "bad-op"
			}
			name := toks[3]
			it := e.iters[ti][name]
			switch toks[2] {
			case "it_first":
				f = func() string { it.SeekFirst(); return cur(name, it) }
			case "it_next":
				if !e.valid[ti][name] {
					return "bad-op"
				}
				f = func() string { it.Next(); return cur(name, it) }
			case "it_close":
				f = func() string {
					it.Close()
					delete(e.iters[ti], name)
					delete(e.valid[ti], name)
					return ""
				}
			}
		default:
			return "bad-op"
		}
		e.kind[ti] = toks[2]
		ev, err := e.ctl.Start(t, f)
		if err == nil && !ev.Ret && nitroPoint[ev.Point] == "COLLECT_SEND" {
			// nothing sent yet
		}
		return e.report(t, ev, err)
	case "step":
		if len(toks) != 2 {
			return "bad-op"
		}
		if j, ok := e.jobs[toks[1]]; ok {
			switch nitroPoint[j.Point] {
			case "WORKER_DONE", "FREE_DONE":
				delete(e.jobs, toks[1])
				e.ctl.Detach(j)
				return "ret"
			}
			ev, err := e.ctl.Step(j)
			return e.report(j, ev, err)
		}
		ti, ok := atoi(toks[1])
		t := e.ctl.Thread(ti)
		if !ok || t == nil || !t.Running || !t.Parked {
			return "bad-op"
		}
		if nitroPoint[t.Point] == "COLLECT_SEND" {
			atomic.AddInt64(&e.expGC, 1)
			atomic.AddInt64(&e.sentJobs, 1)
		}
		ev, err := e.ctl.Step(t)
		return e.report(t, ev, err)
	case "state":
		var vs []string
		s := mv.db.VerifStore()
		n, _ := skiplist.VerifNext(s.HeadNode(), 0)
		for n != nil && n != s.TailNode() {
			next, del := skiplist.VerifNext(n, 0)
			if !del {
				itm := (*nitro.Item)(n.Item())
				b, d := nitro.VerifItemSn(itm)
				vs = append(vs, fmt.Sprintf("%s@%d-%d", mv.show(itm.Bytes()), b, d))
			}
			n = next
		}
		var js []string
		for name := range e.jobs {
			js = append(js, name)
		}
		sort.Strings(js)
		return fmt.Sprintf("store=%s lastgc=%d items=%d live=%d jobs=%s", list(vs), mv.db.GetLastGCSn(), mv.db.ItemsCount(), mv.alloc.Live(), list(js))
	case "shutdown":
		if len(e.jobs) > 0 {
			return "bad-op"
		}
		for i := 0; i < e.ctl.NumThreads(); i++ {
			if e.ctl.Thread(i).Running || len(e.iters[i]) > 0 {
				return "bad-op"
			}
		}
		for _, h := range e.held {
			if h > 0 {
				return "bad-op"
			}
		}
		fin := make(chan struct{})
		go func() { mv.db.Close(); close(fin) }()
		select {
		case <-fin:
		case <-time.After(20 * time.Second):
			return "hang"
		}
		e.down = true
		bad := len(mv.alloc.BadFrees) + mv.alloc.PoisonDamaged()
		return fmt.Sprintf("live=%d badfree=%d", mv.alloc.Live(), bad)
	}
	return "bad-op"
}
