package main

import (
	"fmt"
	"strings"
	"unsafe"

	"github.com/couchbase/nitro"
	"nvharness/internal/sched"
)

// engine refcount: logical threads steered through Snapshot.Open/Close and GC/collectDead of a real
// Nitro instance holding `snaps` snapshots with empty garbage lists.
type refcountEngine struct {
	db    *nitro.Nitro
	snaps []*nitro.Snapshot
	held  []int
	ctl   *sched.Controller
	sent  []string
	last  uint32
	kind  []string
	arg   []int
	its   [][]*nitro.Iterator // references taken through NewIterator, per snapshot
}

func init() { engines["refcount"] = func() engine { return &refcountEngine{} } }

var refcountPoints = map[string]bool{"OPEN_LOAD": true, "OPEN_CAS": true, "CLOSE_DEC": true, "CLOSE_RETIRE": true, "CLOSE_RETIRE2": true, "CLOSE_GC": true,
	"GC_TRY_LOCK": true, "GC_UNLOCK": true, "COLLECT_READ": true, "COLLECT_SEND": true, "GC_RECHECK": true}

func (e *refcountEngine) teardown() {
	if e.ctl != nil {
		e.ctl.Drain(nil)
		e.ctl.Stop()
		e.ctl = nil
	}
	nitro.VerifHook = nil
	if e.db != nil {
		for i, s := range e.snaps {
			for _, it := range e.its[i] {
				it.Close()
				e.held[i]--
			}
			for ; e.held[i] > 0; e.held[i]-- {
				s.Close()
			}
		}
		boundedClose(e.db.Close)
		e.db = nil
	}
}

func (e *refcountEngine) reset() {
	e.teardown()
	*e = refcountEngine{}
}

func (e *refcountEngine) close() { e.teardown() }

func (e *refcountEngine) note() {
	if l := e.db.GetLastGCSn(); l != e.last {
		e.last = l
		e.sent = append(e.sent, fmt.Sprint(l))
	}
}

func (e *refcountEngine) report(t *sched.Thread, ev sched.Event, err error) string {
	e.note()
	if err != nil {
		return strings.ReplaceAll(err.Error(), "\n", " ")
	}
	if ev.Panic != "" {
		return "panic"
	}
	if ev.Ret {
		if e.kind[t.ID] == "open" {
			if ev.Val == "true" {
				e.held[e.arg[t.ID]]++
			}
			return "ret " + ev.Val
		}
		return "ret"
	}
	return "at " + nitroPoint[ev.Point]
}

func (e *refcountEngine) step(toks []string) string {
	if toks[0] == "init" {
		n, ok := natArg(toks, "threads")
		k, ok2 := natArg(toks, "snaps")
		if !ok || !ok2 || n < 1 || n > 64 || k < 1 || k > 64 || e.db != nil {
			return "bad-op"
		}
		e.db = nitro.New()
		for i := 0; i < k; i++ {
			s, _ := e.db.NewSnapshot()
			e.snaps = append(e.snaps, s)
			e.held = append(e.held, 1)
			e.its = append(e.its, nil)
		}
		e.ctl = sched.NewController()
		e.ctl.Steer = func(point int, obj uintptr) bool { return refcountPoints[nitroPoint[point]] }
		nitro.VerifHook = func(point int, obj unsafe.Pointer) { e.ctl.Hook(point, uintptr(obj)) }
		for i := 0; i < n; i++ {
			e.ctl.AddThread()
		}
		e.kind = make([]string, n)
		e.arg = make([]int, n)
		return "ok"
	}
	if e.db == nil {
		return "bad-op"
	}
	switch toks[0] {
	case "start":
		if len(toks) < 3 {
			return "bad-op"
		}
		ti, ok := atoi(toks[1])
		t := e.ctl.Thread(ti)
		if !ok || t == nil || t.Running {
			return "bad-op"
		}
		var f func() string
		switch toks[2] {
		case "open", "close":
			if len(toks) != 4 {
				return "bad-op"
			}
			s, ok := atoi(toks[3])
			if !ok || s < 1 || s > len(e.snaps) {
				return "bad-op"
			}
			sn := e.snaps[s-1]
			e.arg[ti] = s - 1
			// odd threads take references through NewIterator and give them back through Iterator.Close
			// (the same protocol steps: NewIterator = Open, Iterator.Close = Snapshot.Close)
			viaIter := ti%2 == 1
			if toks[2] == "open" {
				if viaIter {
					f = func() string {
						it := sn.NewIterator()
						if it != nil {
							e.its[s-1] = append(e.its[s-1], it)
						}
						return fmt.Sprint(it != nil)
					}
				} else {
					f = func() string { return fmt.Sprint(sn.Open()) }
				}
			} else {
				if e.held[s-1] <= 0 {
					return "bad-op"
				}
				e.held[s-1]--
				if n := len(e.its[s-1]); viaIter && n > 0 {
					it := e.its[s-1][n-1]
					e.its[s-1] = e.its[s-1][:n-1]
					f = func() string { it.Close(); return "" }
				} else {
					f = func() string { sn.Close(); return "" }
				}
			}
		case "gc":
			if len(toks) != 3 {
				return "bad-op"
			}
			f = func() string { e.db.GC(); return "" }
		default:
			return "bad-op"
		}
		e.kind[ti] = toks[2]
		ev, err := e.ctl.Start(t, f)
		return e.report(t, ev, err)
	case "step":
		if len(toks) != 2 {
			return "bad-op"
		}
		ti, ok := atoi(toks[1])
		t := e.ctl.Thread(ti)
		if !ok || t == nil || !t.Running || !t.Parked {
			return "bad-op"
		}
		ev, err := e.ctl.Step(t)
		return e.report(t, ev, err)
	case "state":
		var refs, live, ret []string
		for _, s := range e.snaps {
			_, rc := s.VerifSnapshot()
			refs = append(refs, fmt.Sprint(rc))
		}
		for _, s := range e.db.GetSnapshots() {
			sn, _ := s.VerifSnapshot()
			live = append(live, fmt.Sprint(sn))
		}
		for _, sn := range e.db.VerifRetired() {
			ret = append(ret, fmt.Sprint(sn))
		}
		flag, lastgc, _, _, _ := e.db.VerifGCState()
		return fmt.Sprintf("refs=%s live=%s retired=%s lastgc=%d sent=%s flag=%d", list(refs), list(live), list(ret), lastgc, list(e.sent), flag)
	}
	return "bad-op"
}
