// nvdrive runs operation scripts against the real couchbase/nitro code (built from /repo with
// -tags verif) and prints one output line per script line, in the format of /verif/PROTOCOL.md.
package main

import (
	"bufio"
	"fmt"
	"os"
	"strconv"
	"strings"
	"time"
)

type engine interface {
	reset()
	step(toks []string) string
	close()
}

var engines = map[string]func() engine{}

func main() {
	in := bufio.NewReaderSize(os.Stdin, 1<<20)
	if len(os.Args) > 1 {
		f, err := os.Open(os.Args[1])
		if err != nil {
			fmt.Fprintln(os.Stderr, err)
			os.Exit(2)
		}
		in = bufio.NewReaderSize(f, 1<<20)
	}
	out := bufio.NewWriterSize(os.Stdout, 1<<16)
	defer out.Flush()
	var cur engine
	for {
		line, err := in.ReadString('\n')
		if line == "" && err != nil {
			break
		}
		toks := strings.Fields(line)
		if len(toks) == 0 {
			if err != nil {
				break
			}
			continue
		}
		var o string
		switch {
		case toks[0] == "engine" && len(toks) >= 2:
			if cur != nil {
				cur.close()
			}
			if mk, ok := engines[toks[1]]; ok {
				cur = mk()
				cur.reset()
				o = "engine " + toks[1]
			} else {
				cur = nil
				o = "bad-engine " + toks[1]
			}
		case toks[0] == "case" && len(toks) >= 2:
			if cur != nil {
				cur.reset()
			}
			o = "case " + toks[1]
		case strings.HasPrefix(toks[0], "#"):
			o = "#"
		case cur == nil:
			o = "no-engine"
		default:
			o = safeStep(cur, toks)
		}
		out.WriteString(o)
		out.WriteByte('\n')
		out.Flush()
		if err != nil {
			break
		}
	}
	if cur != nil {
		cur.close()
	}
}

// boundedClose runs a shutdown function that may never return on a damaged instance (Nitro.Close waits for the
// live snapshot list to drain) and gives up after a short while: teardown must never hang the harness.
func boundedClose(f func()) {
	done := make(chan struct{})
	go func() {
		defer func() { recover() }()
		f()
		close(done)
	}()
	select {
	case <-done:
	case <-time.After(3 * time.Second):
	}
}

func safeStep(e engine, toks []string) (o string) {
	defer func() {
		if r := recover(); r != nil {
			o = "panic " + strings.ReplaceAll(fmt.Sprint(r), "\n", " ")
		}
	}()
	return e.step(toks)
}

func argOf(toks []string, key string) (string, bool) {
	for _, t := range toks {
		if strings.HasPrefix(t, key+"=") {
			return t[len(key)+1:], true
		}
	}
	return "", false
}

func natArg(toks []string, key string) (int, bool) {
	s, ok := argOf(toks, key)
	if !ok {
		return 0, false
	}
	n, err := strconv.Atoi(s)
	if err != nil || n < 0 {
		return 0, false
	}
	return n, true
}

func atoi(s string) (int, bool) {
	n, err := strconv.Atoi(s)
	if err != nil || n < 0 {
		return 0, false
	}
	return n, true
}

func hexToBytes(s string) ([]byte, bool) {
	if s == "-" {
		return []byte{}, true
	}
	if len(s)%2 != 0 {
		return nil, false
	}
	b := make([]byte, len(s)/2)
	for i := 0; i < len(b); i++ {
		x, ok1 := hexDigit(s[2*i])
		y, ok2 := hexDigit(s[2*i+1])
		if !ok1 || !ok2 {
			return nil, false
		}
		b[i] = byte(x*16 + y)
	}
	return b, true
}

func hexDigit(c byte) (int, bool) {
	switch {
	case c >= '0' && c <= '9':
		return int(c - '0'), true
	case c >= 'a' && c <= 'f':
		return int(c-'a') + 10, true
	}
	return 0, false
}

func bytesToHex(b []byte) string {
	if len(b) == 0 {
		return "-"
	}
	const d = "0123456789abcdef"
	o := make([]byte, 2*len(b))
	for i, c := range b {
		o[2*i] = d[c>>4]
		o[2*i+1] = d[c&15]
	}
	return string(o)
}

func list(l []string) string {
	if len(l) == 0 {
		return "."
	}
	return strings.Join(l, ",")
}

func sgn(i int) string {
	if i < 0 {
		return "-1"
	}
	if i > 0 {
		return "1"
	}
	return "0"
}
