package main

import (
	"encoding/binary"
	"fmt"
	"unsafe"

	"github.com/couchbase/nitro"
	"github.com/couchbase/nitro/nodetable"
	"github.com/couchbase/nitro/skiplist"
)

// engine table: the real nodetable.NodeTable with a scripted hash function.
type tblObj struct {
	key []byte
	id  int
}

type tableEngine struct {
	nt   *nodetable.NodeTable
	hash string
	objs map[int]*tblObj
	ids  map[unsafe.Pointer]int
}

func init() { engines["table"] = func() engine { return &tableEngine{} } }

func tkey(k int) []byte {
	b := make([]byte, 8)
	binary.BigEndian.PutUint64(b, uint64(k))
	return b
}

func (e *tableEngine) reset() {
	e.hash = "id"
	e.objs = map[int]*tblObj{}
	e.ids = map[unsafe.Pointer]int{}
	e.fresh()
}

// fresh creates an empty table (a new case, or a `hash` line: the pointer declarations stay)
func (e *tableEngine) fresh() {
	if e.nt != nil {
		e.nt.Close()
	}
	e.nt = nodetable.New(func(b []byte) uint32 {
		k := binary.BigEndian.Uint64(b)
		switch e.hash {
		case "const":
			return 0
		case "mod2":
			return uint32(k % 2)
		case "mod3":
			return uint32(k % 3)
		case "mod7":
			return uint32(k % 7)
		}
		return uint32(k)
	}, func(p unsafe.Pointer, k []byte) bool {
		return string((*tblObj)(p).key) == string(k)
	})
}

func (e *tableEngine) close() {
	if e.nt != nil {
		e.nt.Close()
		e.nt = nil
	}
}

func (e *tableEngine) pname(p unsafe.Pointer) string {
	if p == nil {
		return "nil"
	}
	if id, ok := e.ids[p]; ok {
		return fmt.Sprint(id)
	}
	return "unknown-pointer"
}

func (e *tableEngine) step(toks []string) string {
	switch {
	case toks[0] == "hash" && len(toks) == 2:
		switch toks[1] {
		case "const", "mod2", "mod3", "mod7", "id":
			e.hash = toks[1]
			e.fresh()
			return "ok"
		}
	case toks[0] == "ptr" && len(toks) == 3:
		p, ok := atoi(toks[1])
		k, ok2 := atoi(toks[2])
		if !ok || !ok2 {
			return "bad-op"
		}
		if _, dup := e.objs[p]; dup {
			return "bad-op"
		}
		o := &tblObj{key: tkey(k), id: p}
		e.objs[p] = o
		e.ids[unsafe.Pointer(o)] = p
		return "ok"
	case toks[0] == "update" && len(toks) == 3:
		k, ok := atoi(toks[1])
		p, ok2 := atoi(toks[2])
		o := e.objs[p]
		if !ok || !ok2 || o == nil || string(o.key) != string(tkey(k)) {
			return "bad-op"
		}
		upd, old := e.nt.Update(tkey(k), unsafe.Pointer(o))
		return fmt.Sprintf("updated=%v old=%s", upd, e.pname(old))
	case toks[0] == "get" && len(toks) == 2:
		k, ok := atoi(toks[1])
		if !ok {
			return "bad-op"
		}
		return e.pname(e.nt.Get(tkey(k)))
	case toks[0] == "remove" && len(toks) == 2:
		k, ok := atoi(toks[1])
		if !ok {
			return "bad-op"
		}
		s, p := e.nt.Remove(tkey(k))
		return fmt.Sprintf("success=%v ptr=%s", s, e.pname(p))
	case toks[0] == "count" && len(toks) == 1:
		return fmt.Sprint(e.nt.ItemsCount())
	case toks[0] == "stats" && len(toks) == 1:
		var f, s, c, m int
		fmt.Sscanf(e.nt.Stats(), "{\n\"FastHTCount\":  %d,\n\"SlowHTCount\":  %d,\n\"Conflicts\":   %d,\n\"MemoryInUse\": %d\n}", &f, &s, &c, &m)
		return fmt.Sprintf("fast=%d slow=%d conflicts=%d", f, s, c)
	}
	return "bad-op"
}

// engine nodelist: the real nitro.NodeList over skiplist nodes carrying nitro items.
type nodelistEngine struct {
	db     *nitro.Nitro
	sl     *skiplist.Skiplist
	l      *nitro.NodeList
	ids    map[*skiplist.Node]int
	nodes  map[int]*skiplist.Node
	inList map[int]bool
}

func init() { engines["nodelist"] = func() engine { return &nodelistEngine{} } }

func (e *nodelistEngine) reset() {
	if e.db == nil {
		e.db = nitro.New()
		e.sl = skiplist.New()
	}
	e.l = nitro.NewNodeList(nil)
	e.ids = map[*skiplist.Node]int{}
	e.nodes = map[int]*skiplist.Node{}
	e.inList = map[int]bool{}
}

func (e *nodelistEngine) close() {
	if e.db != nil {
		e.db.Close()
		e.db = nil
	}
}

func (e *nodelistEngine) nname(n *skiplist.Node) string {
	if n == nil {
		return "nil"
	}
	if id, ok := e.ids[n]; ok {
		return fmt.Sprint(id)
	}
	return "unknown-node"
}

func (e *nodelistEngine) step(toks []string) string {
	switch {
	case toks[0] == "add" && len(toks) == 3:
		id, ok := atoi(toks[1])
		k, ok2 := hexToBytes(toks[2])
		if !ok || !ok2 {
			return "bad-op"
		}
		// a node that has been removed may be added again (the SAME node object, with whatever link it still
		// carries); its key is the one given the first time
		n, known := e.nodes[id]
		if known {
			if e.inList[id] {
				return "bad-op"
			}
			if string((*nitro.Item)(n.Item()).Bytes()) != string(k) {
				return "bad-op"
			}
		} else {
			n = e.sl.NewNode(0)
			n.SetItem(unsafe.Pointer(e.db.VerifNewItem(k)))
			e.nodes[id] = n
			e.ids[n] = id
		}
		e.inList[id] = true
		e.l.Add(n)
		return "ok"
	case toks[0] == "remove" && len(toks) == 2:
		k, ok := hexToBytes(toks[1])
		if !ok {
			return "bad-op"
		}
		rn := e.l.Remove(k)
		if rn != nil {
			e.inList[e.ids[rn]] = false
		}
		return e.nname(rn)
	case toks[0] == "keys" && len(toks) == 1:
		var ks []string
		for _, k := range e.l.Keys() {
			ks = append(ks, bytesToHex(k))
		}
		return list(ks)
	case toks[0] == "head" && len(toks) == 1:
		return e.nname(e.l.Head())
	}
	return "bad-op"
}
