package main

import (
	"fmt"
	"strings"
	"unsafe"

	"github.com/couchbase/nitro/skiplist"
	"nvharness/internal/guardalloc"
	"nvharness/internal/sched"
)

// engine barrier: logical threads steered through the yield points of the real AccessBarrier
// (reached through a memory-managed skiplist whose destructor the harness supplies).
type barrierEngine struct {
	s     *skiplist.Skiplist
	ab    *skiplist.AccessBarrier
	alloc *guardalloc.Alloc
	ctl   *sched.Controller
	toks  [][]*skiplist.BarrierSession // tokens held per thread, acquisition order
	objs  map[unsafe.Pointer]int
	keep  []*int64
	log   []string
	mutex int // thread holding ab's mutex, -1 if free
	kind  []string
}

func init() { engines["barrier"] = func() engine { return &barrierEngine{} } }

func (e *barrierEngine) teardown() {
	if e.ctl != nil {
		e.ctl.Drain(func(t *sched.Thread) bool { return e.enabled(t) })
		e.ctl.Stop()
		e.ctl = nil
	}
	skiplist.VerifHook = nil
	if e.alloc != nil {
		e.alloc.Release()
		e.alloc = nil
	}
}

func (e *barrierEngine) reset() {
	e.teardown()
	*e = barrierEngine{mutex: -1}
}

func (e *barrierEngine) close() { e.teardown() }

func (e *barrierEngine) enabled(t *sched.Thread) bool {
	if t.Running && t.Parked && slPoint[t.Point] == "FL_LOCK" && e.mutex != -1 {
		return false
	}
	return t.Running && t.Parked
}

func (e *barrierEngine) setup(n int) {
	e.alloc = guardalloc.New(false)
	cfg := skiplist.DefaultConfig()
	cfg.UseMemoryMgmt = true
	cfg.Malloc = e.alloc.Malloc
	cfg.Free = e.alloc.Free
	e.objs = map[unsafe.Pointer]int{}
	cfg.BarrierDestructor = func(p unsafe.Pointer) {
		if id, ok := e.objs[p]; ok {
			e.log = append(e.log, fmt.Sprint(id))
		} else {
			e.log = append(e.log, "unknown")
		}
	}
	e.s = skiplist.NewWithConfig(cfg)
	e.ab = e.s.GetAccesBarrier()
	e.ctl = sched.NewController()
	ab := uintptr(unsafe.Pointer(e.ab))
	e.ctl.Steer = func(point int, obj uintptr) bool { return obj == ab && point < 20 }
	skiplist.VerifHook = func(point int, obj unsafe.Pointer) { e.ctl.Hook(point, uintptr(obj)) }
	for i := 0; i < n; i++ {
		e.ctl.AddThread()
	}
	e.toks = make([][]*skiplist.BarrierSession, n)
	e.kind = make([]string, n)
}

func (e *barrierEngine) report(t *sched.Thread, ev sched.Event, err error) string {
	if err != nil {
		return strings.ReplaceAll(err.Error(), "\n", " ")
	}
	if ev.Panic != "" {
		if e.mutex == t.ID {
			e.mutex = -1
		}
		return "panic"
	}
	if ev.Ret {
		if e.mutex == t.ID {
			e.mutex = -1
		}
		return "ret"
	}
	return "at " + slPoint[ev.Point]
}

func (e *barrierEngine) step(toks []string) string {
	if toks[0] == "threads" && len(toks) == 2 {
		n, ok := atoi(toks[1])
		if !ok || n < 1 || n > 64 || e.ctl != nil {
			return "bad-op"
		}
		e.setup(n)
		return "ok"
	}
	if e.ctl == nil {
		return "bad-op"
	}
	switch toks[0] {
	case "start":
		if len(toks) < 3 {
			return "bad-op"
		}
		ti, ok := atoi(toks[1])
		t := e.ctl.Thread(ti)
		if !ok || t == nil || t.Running {
			return "bad-op"
		}
		var f func() string
		switch toks[2] {
		case "acquire":
			if len(toks) != 3 {
				return "bad-op"
			}
			f = func() string {
				bs := e.ab.Acquire()
				e.toks[ti] = append(e.toks[ti], bs)
				return ""
			}
		case "release":
			if len(toks) != 4 {
				return "bad-op"
			}
			i, ok := atoi(toks[3])
			if !ok || i >= len(e.toks[ti]) {
				return "bad-op"
			}
			bs := e.toks[ti][i]
			e.toks[ti] = append(append([]*skiplist.BarrierSession{}, e.toks[ti][:i]...), e.toks[ti][i+1:]...)
			f = func() string { e.ab.Release(bs); return "" }
		case "flush":
			if len(toks) != 4 {
				return "bad-op"
			}
			id, ok := atoi(toks[3])
			if !ok {
				return "bad-op"
			}
			o := new(int64)
			e.keep = append(e.keep, o)
			e.objs[unsafe.Pointer(o)] = id
			f = func() string { e.ab.FlushSession(unsafe.Pointer(o)); return "" }
		default:
			return "bad-op"
		}
		e.kind[ti] = toks[2]
		ev, err := e.ctl.Start(t, f)
		return e.report(t, ev, err)
	case "step":
		if len(toks) != 2 {
			return "bad-op"
		}
		ti, ok := atoi(toks[1])
		t := e.ctl.Thread(ti)
		if !ok || t == nil || !t.Running || !t.Parked {
			return "bad-op"
		}
		if !e.enabled(t) {
			return "blocked"
		}
		if slPoint[t.Point] == "FL_LOCK" {
			e.mutex = ti
		}
		ev, err := e.ctl.Step(t)
		return e.report(t, ev, err)
	case "enabled":
		if len(toks) != 2 {
			return "bad-op"
		}
		ti, ok := atoi(toks[1])
		t := e.ctl.Thread(ti)
		if !ok || t == nil {
			return "bad-op"
		}
		return fmt.Sprint(e.enabled(t))
	case "log":
		return list(e.log)
	case "stats":
		a, f, q, fs := e.ab.GetStats()
		return fmt.Sprintf("allocated=%d freed=%d queued=%d freeseq=%d", a, f, q, fs)
	}
	return "bad-op"
}
