package main

import (
	"fmt"
	"regexp"
	"strconv"
	"strings"
	"sync/atomic"
	"unsafe"

	"github.com/couchbase/nitro/skiplist"
	"nvharness/internal/guardalloc"
	"nvharness/internal/sched"
)

// engine skipconc: logical threads steered through the yield points of package skiplist on one
// shared list (integer items, user-managed memory through the harness allocator).
type skipConcEngine struct {
	s     *skiplist.Skiplist
	alloc *guardalloc.Alloc
	ctl   *sched.Controller
	bufs  []*skiplist.ActionBuffer
	iters []map[string]*skiplist.Iterator
	valid []map[string]bool
	freeing bool  // mem=mmfree
	freed   int64 // nodes freed by the barrier destructor (atomic)
	keep  []unsafe.Pointer // items are referenced from off-heap nodes only: keep them reachable for Go's collector
}

var freesRe = regexp.MustCompile(`frees=(-?\d+)`)

func init() { engines["skipconc"] = func() engine { return &skipConcEngine{} } }

func (e *skipConcEngine) teardown() {
	if e.ctl != nil {
		e.ctl.Drain(nil)
		e.ctl.Stop()
		e.ctl = nil
	}
	skiplist.VerifHook = nil
	if e.alloc != nil {
		e.alloc.Release()
		e.alloc = nil
	}
}

func (e *skipConcEngine) reset() {
	e.teardown()
	*e = skipConcEngine{}
}

func (e *skipConcEngine) close() { e.teardown() }

func (e *skipConcEngine) report(t *sched.Thread, ev sched.Event, err error) string {
	if err != nil {
		return strings.ReplaceAll(err.Error(), "\n", " ")
	}
	if ev.Panic != "" {
		return "panic " + strings.ReplaceAll(ev.Panic, "\n", " ")
	}
	if ev.Ret {
		if ev.Val == "" {
			return "ret"
		}
		return "ret " + ev.Val
	}
	return "at " + slPoint[ev.Point]
}

func (e *skipConcEngine) step(toks []string) string {
	if toks[0] == "threads" && (len(toks) == 2 || (len(toks) == 3 && (toks[2] == "mem=go" || toks[2] == "mem=mm" || toks[2] == "mem=mmfree"))) {
		n, ok := atoi(toks[1])
		if !ok || n < 1 || n > 64 || e.ctl != nil {
			return "bad-op"
		}
		if len(toks) == 3 && toks[2] == "mem=go" {
			// Go-managed memory: no access barrier, iterators carry no session (the list operations are the same)
			e.s = skiplist.New()
		} else {
			// mem=mmfree: like nitro, a node deleted by `delf` is handed to the access barrier (FlushSession) and
			// really freed by the barrier's destructor; freed blocks are mprotected, so any later access faults
			e.freeing = len(toks) == 3 && toks[2] == "mem=mmfree"
			e.alloc = guardalloc.New(e.freeing)
			cfg := skiplist.DefaultConfig()
			cfg.UseMemoryMgmt = true
			cfg.Malloc = e.alloc.Malloc
			cfg.Free = e.alloc.Free
			cfg.BarrierDestructor = func(ref unsafe.Pointer) {
				if e.freeing && ref != nil {
					n := (*skiplist.Node)(ref)
					itm := n.Item()
					e.s.FreeNode(n, &e.s.Stats)
					e.alloc.Free(itm)
					atomic.AddInt64(&e.freed, 1)
				}
			}
			e.s = skiplist.NewWithConfig(cfg)
		}
		e.ctl = sched.NewController()
		sp := uintptr(unsafe.Pointer(e.s))
		e.ctl.Steer = func(point int, obj uintptr) bool { return obj == sp && point >= 20 }
		skiplist.VerifHook = func(point int, obj unsafe.Pointer) { e.ctl.Hook(point, uintptr(obj)) }
		for i := 0; i < n; i++ {
			e.ctl.AddThread()
			e.bufs = append(e.bufs, e.s.MakeBuf())
			e.iters = append(e.iters, map[string]*skiplist.Iterator{})
			e.valid = append(e.valid, map[string]bool{})
		}
		return "ok"
	}
	if e.ctl == nil {
		return "bad-op"
	}
	s := e.s
	switch toks[0] {
	case "start":
		if len(toks) < 4 {
			return "bad-op"
		}
		ti, ok := atoi(toks[1])
		t := e.ctl.Thread(ti)
		if !ok || t == nil || t.Running {
			return "bad-op"
		}
		buf := e.bufs[ti]
		var f func() string
		cur := func(name string, it *skiplist.Iterator) string {
			if !it.Valid() {
				e.valid[ti][name] = false
				return "end"
			}
			e.valid[ti][name] = true
			return fmt.Sprint(ikey(it.Get()))
		}
		switch toks[2] {
		case "ins":
			k, ok := atoi(toks[3])
			l, ok2 := natArg(toks, "lvl")
			if !ok || !ok2 || len(toks) != 5 {
				return "bad-op"
			}
			var itm unsafe.Pointer
			if e.freeing {
				// like a nitro item, the item lives in user-managed memory and is freed together with its node
				itm = e.alloc.Malloc(8)
				*(*int)(itm) = k
			} else {
				itm = skiplist.NewIntKeyItem(k)
				e.keep = append(e.keep, itm)
			}
			f = func() string {
				_, succ := s.Insert2(itm, skiplist.CompareInt, nil, buf, scripted(l), &s.Stats)
				if !succ && e.freeing {
					e.alloc.Free(itm)
				}
				return fmt.Sprint(succ)
			}
		case "del", "look", "delf":
			k, ok := atoi(toks[3])
			if !ok || len(toks) != 4 {
				return "bad-op"
			}
			if toks[2] == "delf" {
				// Delete as nitro does it: the same findPath + deleteNode as Delete (same yield points) under one
				// barrier token, and the deleted node handed to the barrier for reclamation afterwards
				f = func() string {
					ab := s.GetAccesBarrier()
					tok := ab.Acquire()
					_, curr, found := s.Lookup(skiplist.NewIntKeyItem(k), skiplist.CompareInt, buf, &s.Stats)
					done := false
					if found {
						done = s.DeleteNode2(curr, skiplist.CompareInt, buf, &s.Stats)
					}
					ab.Release(tok)
					if done {
						ab.FlushSession(unsafe.Pointer(curr))
					}
					return fmt.Sprint(done)
				}
			} else if toks[2] == "look" && e.freeing {
				f = func() string {
					ab := s.GetAccesBarrier()
					tok := ab.Acquire()
					_, _, found := s.Lookup(skiplist.NewIntKeyItem(k), skiplist.CompareInt, buf, &s.Stats)
					ab.Release(tok)
					return fmt.Sprint(found)
				}
			} else if toks[2] == "del" {
				f = func() string {
					return fmt.Sprint(s.Delete(skiplist.NewIntKeyItem(k), skiplist.CompareInt, buf, &s.Stats))
				}
			} else {
				f = func() string {
					_, _, found := s.Lookup(skiplist.NewIntKeyItem(k), skiplist.CompareInt, buf, &s.Stats)
					return fmt.Sprint(found)
				}
			}
		case "it_first", "it_seek":
			name := toks[3]
			it := e.iters[ti][name]
			var k int
			if toks[2] == "it_seek" {
				var ok bool
				if len(toks) != 5 {
					return "bad-op"
				}
				if k, ok = atoi(toks[4]); !ok {
					return "bad-op"
				}
			} else if len(toks) != 4 {
				return "bad-op"
			}
			seek := toks[2] == "it_seek"
			f = func() string {
				if it == nil {
					it = s.NewIterator(skiplist.CompareInt, s.MakeBuf())
					e.iters[ti][name] = it
				}
				if seek {
					it.Seek(skiplist.NewIntKeyItem(k))
				} else {
					it.SeekFirst()
				}
				return cur(name, it)
			}
		case "it_next":
			name := toks[3]
			it := e.iters[ti][name]
			if it == nil || !e.valid[ti][name] || len(toks) != 4 {
				return "bad-op"
			}
			f = func() string { it.Next(); return cur(name, it) }
		case "it_interval":
			if len(toks) != 5 || e.iters[ti][toks[3]] == nil {
				return "bad-op"
			}
			n, ok := atoi(toks[4])
			if !ok || n < 1 {
				return "bad-op"
			}
			it := e.iters[ti][toks[3]]
			f = func() string { it.SetRefreshInterval(n); return "" }
		case "it_close":
			name := toks[3]
			it := e.iters[ti][name]
			if it == nil || len(toks) != 4 {
				return "bad-op"
			}
			f = func() string {
				it.Close()
				delete(e.iters[ti], name)
				delete(e.valid[ti], name)
				return ""
			}
		default:
			return "bad-op"
		}
		ev, err := e.ctl.Start(t, f)
		return e.report(t, ev, err)
	case "step":
		if len(toks) != 2 {
			return "bad-op"
		}
		ti, ok := atoi(toks[1])
		t := e.ctl.Thread(ti)
		if !ok || t == nil || !t.Running || !t.Parked {
			return "bad-op"
		}
		ev, err := e.ctl.Step(t)
		return e.report(t, ev, err)
	case "walk":
		for i := 0; i < e.ctl.NumThreads(); i++ {
			if e.ctl.Thread(i).Running {
				return "bad-op"
			}
		}
		return walkLevels(s, true)
	case "stats":
		line := statsLine(s)
		if e.freeing {
			// the model does not free: report the frees beyond those the harness itself caused through `delf`
			if m := freesRe.FindStringSubmatch(line); m != nil {
				n, _ := strconv.ParseInt(m[1], 10, 64)
				line = strings.Replace(line, m[0], fmt.Sprintf("frees=%d", n-atomic.LoadInt64(&e.freed)), 1)
			}
		}
		return line
	}
	return "bad-op"
}
