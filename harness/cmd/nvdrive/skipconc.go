package main

import (
	"fmt"
	"regexp"
	"strconv"
	"strings"
	"sync/atomic"
	"unsafe"

	"github.com/couchbase/nitro/skiplist"
	"nvharness/internal/guardalloc"
	"nvharness/internal/sched"
)

// engine skipconc: logical threads steered through the yield points of package skiplist on one
// shared list (integer items, user-managed memory through the harness allocator).
type skipConcEngine struct {
	s         *skiplist.Skiplist
	alloc     *guardalloc.Alloc
	ctl       *sched.Controller
	bufs      []*skiplist.ActionBuffer
	iters     []map[string]*skiplist.Iterator
	valid     []map[string]bool
	base      int  // live blocks right after the list was made (sentinels)
	injecting bool // an injected operation is running (no steering)
	inj       *injection
	freeing   bool             // mem=mmfree
	freed     int64            // nodes freed by the barrier destructor (atomic)
	keep      []unsafe.Pointer // items are referenced from off-heap nodes only: keep them reachable for Go's collector
}

// injection: an operation of another thread to be run at the next late point (see `stepinj`)
type injection struct {
	thread int
	toks   []string
	fired  bool
	result string
}

// simpleOp: ins <k> lvl=<l> | del <k> | delf <k> | look <k>
func simpleOp(toks []string) bool {
	switch toks[0] {
	case "ins":
		if len(toks) != 3 {
			return false
		}
		_, ok := atoi(toks[1])
		_, ok2 := natArg(toks, "lvl")
		return ok && ok2
	case "del", "delf", "look":
		if len(toks) != 2 {
			return false
		}
		_, ok := atoi(toks[1])
		return ok
	}
	return false
}

// late is called at a late point by the goroutine that is running a segment
func (e *skipConcEngine) late(point int, ours bool) {
	inj := e.inj
	if inj == nil || inj.fired || !ours || e.injecting {
		return
	}
	inj.fired = true
	f := e.buildOp(inj.thread, inj.toks)
	if f == nil {
		inj.result = "bad-op"
		return
	}
	e.injecting = true
	defer func() {
		e.injecting = false
		if r := recover(); r != nil {
			inj.result = "panic " + strings.ReplaceAll(fmt.Sprint(r), "\n", " ")
		}
	}()
	if v := f(); v == "" {
		inj.result = "ret"
	} else {
		inj.result = "ret " + v
	}
}

var freesRe = regexp.MustCompile(`frees=(-?\d+)`)

func init() { engines["skipconc"] = func() engine { return &skipConcEngine{} } }

func (e *skipConcEngine) teardown() {
	if e.ctl != nil {
		e.ctl.Drain(nil)
		e.ctl.Stop()
		e.ctl = nil
	}
	skiplist.VerifHook = nil
	if e.alloc != nil {
		e.alloc.Release()
		e.alloc = nil
	}
}

func (e *skipConcEngine) reset() {
	e.teardown()
	*e = skipConcEngine{}
}

func (e *skipConcEngine) close() { e.teardown() }

func (e *skipConcEngine) report(t *sched.Thread, ev sched.Event, err error) string {
	if err != nil {
		return strings.ReplaceAll(err.Error(), "\n", " ")
	}
	if ev.Panic != "" {
		return "panic " + strings.ReplaceAll(ev.Panic, "\n", " ")
	}
	if ev.Ret {
		if ev.Val == "" {
			return "ret"
		}
		return "ret " + ev.Val
	}
	return "at " + slPoint[ev.Point]
}

// buildOp turns `start <t> <op> …` (toks[2:] is the operation) into the call thread ti will make; nil = bad-op.
func (e *skipConcEngine) buildOp(ti int, toks []string) func() string {
	buf := e.bufs[ti]
	s := e.s
	var f func() string
	cur := func(name string, it *skiplist.Iterator) string {
		if !it.Valid() {
			e.valid[ti][name] = false
			return "end"
		}
		e.valid[ti][name] = true
		return fmt.Sprint(ikey(it.Get()))
	}
	switch toks[2] {
	case "ins":
		k, ok := atoi(toks[3])
		l, ok2 := natArg(toks, "lvl")
		if !ok || !ok2 || len(toks) != 5 {
			return nil
		}
		var itm unsafe.Pointer
		if e.freeing {
			// like a nitro item, the item lives in user-managed memory and is freed together with its node
			itm = e.alloc.Malloc(8)
			*(*int)(itm) = k
		} else {
			itm = skiplist.NewIntKeyItem(k)
			e.keep = append(e.keep, itm)
		}
		f = func() string {
			_, succ := s.Insert2(itm, skiplist.CompareInt, nil, buf, scripted(l), &s.Stats)
			if !succ && e.freeing {
				e.alloc.Free(itm)
			}
			return fmt.Sprint(succ)
		}
	case "del", "look", "delf":
		k, ok := atoi(toks[3])
		if !ok || len(toks) != 4 {
			return nil
		}
		if toks[2] == "delf" {
			// Delete as nitro does it: the same findPath + deleteNode as Delete (same yield points) under one
			// barrier token, and the deleted node handed to the barrier for reclamation afterwards
			f = func() string {
				ab := s.GetAccesBarrier()
				tok := ab.Acquire()
				_, curr, found := s.Lookup(skiplist.NewIntKeyItem(k), skiplist.CompareInt, buf, &s.Stats)
				done := false
				if found {
					done = s.DeleteNode2(curr, skiplist.CompareInt, buf, &s.Stats)
				}
				ab.Release(tok)
				if done {
					ab.FlushSession(unsafe.Pointer(curr))
				}
				return fmt.Sprint(done)
			}
		} else if toks[2] == "look" && e.freeing {
			f = func() string {
				ab := s.GetAccesBarrier()
				tok := ab.Acquire()
				_, _, found := s.Lookup(skiplist.NewIntKeyItem(k), skiplist.CompareInt, buf, &s.Stats)
				ab.Release(tok)
				return fmt.Sprint(found)
			}
		} else if toks[2] == "del" {
			f = func() string {
				return fmt.Sprint(s.Delete(skiplist.NewIntKeyItem(k), skiplist.CompareInt, buf, &s.Stats))
			}
		} else {
			f = func() string {
				_, _, found := s.Lookup(skiplist.NewIntKeyItem(k), skiplist.CompareInt, buf, &s.Stats)
				return fmt.Sprint(found)
			}
		}
	case "it_first", "it_seek":
		name := toks[3]
		it := e.iters[ti][name]
		var k int
		if toks[2] == "it_seek" {
			var ok bool
			if len(toks) != 5 {
				return nil
			}
			if k, ok = atoi(toks[4]); !ok {
				return nil
			}
		} else if len(toks) != 4 {
			return nil
		}
		seek := toks[2] == "it_seek"
		f = func() string {
			if it == nil {
				it = s.NewIterator(skiplist.CompareInt, s.MakeBuf())
				e.iters[ti][name] = it
			}
			if seek {
				it.Seek(skiplist.NewIntKeyItem(k))
			} else {
				it.SeekFirst()
			}
			return cur(name, it)
		}
	case "it_next":
		name := toks[3]
		it := e.iters[ti][name]
		if it == nil || !e.valid[ti][name] || len(toks) != 4 {
			return nil
		}
		f = func() string { it.Next(); return cur(name, it) }
	case "it_refresh":
		// the public Refresh(): new session, re-seek of the item under the cursor, old session released
		name := toks[3]
		it := e.iters[ti][name]
		if it == nil || !e.valid[ti][name] || len(toks) != 4 {
			return nil
		}
		f = func() string { it.Refresh(); return cur(name, it) }
	case "it_pause", "it_resume":
		// Pause gives the barrier session back, Resume takes a new one; the cursor is not touched
		name := toks[3]
		it := e.iters[ti][name]
		if it == nil || len(toks) != 4 {
			return nil
		}
		pause := toks[2] == "it_pause"
		f = func() string {
			if pause {
				it.Pause()
			} else {
				it.Resume()
			}
			return ""
		}
	case "it_interval":
		if len(toks) != 5 || e.iters[ti][toks[3]] == nil {
			return nil
		}
		n, ok := atoi(toks[4])
		if !ok || n < 1 {
			return nil
		}
		it := e.iters[ti][toks[3]]
		f = func() string { it.SetRefreshInterval(n); return "" }
	case "it_close":
		name := toks[3]
		it := e.iters[ti][name]
		if it == nil || len(toks) != 4 {
			return nil
		}
		f = func() string {
			it.Close()
			delete(e.iters[ti], name)
			delete(e.valid[ti], name)
			return ""
		}
	default:
		return nil
	}
	return f
}

func (e *skipConcEngine) step(toks []string) string {
	if toks[0] == "threads" && (len(toks) == 2 || (len(toks) == 3 && (toks[2] == "mem=go" || toks[2] == "mem=mm" || toks[2] == "mem=mmfree"))) {
		n, ok := atoi(toks[1])
		if !ok || n < 1 || n > 64 || e.ctl != nil {
			return "bad-op"
		}
		if len(toks) == 3 && toks[2] == "mem=go" {
			// Go-managed memory: no access barrier, iterators carry no session (the list operations are the same)
			e.s = skiplist.New()
		} else {
			// mem=mmfree: like nitro, a node deleted by `delf` is handed to the access barrier (FlushSession) and
			// really freed by the barrier's destructor; freed blocks are mprotected, so any later access faults
			e.freeing = len(toks) == 3 && toks[2] == "mem=mmfree"
			e.alloc = guardalloc.New(e.freeing)
			cfg := skiplist.DefaultConfig()
			cfg.UseMemoryMgmt = true
			cfg.Malloc = e.alloc.Malloc
			cfg.Free = e.alloc.Free
			cfg.BarrierDestructor = func(ref unsafe.Pointer) {
				if e.freeing && ref != nil {
					n := (*skiplist.Node)(ref)
					itm := n.Item()
					e.s.FreeNode(n, &e.s.Stats)
					e.alloc.Free(itm)
					atomic.AddInt64(&e.freed, 1)
				}
			}
			e.s = skiplist.NewWithConfig(cfg)
			e.base = e.alloc.Live()
		}
		e.ctl = sched.NewController()
		sp := uintptr(unsafe.Pointer(e.s))
		e.ctl.Steer = func(point int, obj uintptr) bool { return obj == sp && point >= 20 && point < 40 && !e.injecting }
		skiplist.VerifHook = func(point int, obj unsafe.Pointer) {
			if point >= 40 {
				e.late(point, uintptr(obj) == sp)
				return
			}
			e.ctl.Hook(point, uintptr(obj))
		}
		for i := 0; i < n; i++ {
			e.ctl.AddThread()
			e.bufs = append(e.bufs, e.s.MakeBuf())
			e.iters = append(e.iters, map[string]*skiplist.Iterator{})
			e.valid = append(e.valid, map[string]bool{})
		}
		return "ok"
	}
	if e.ctl == nil {
		return "bad-op"
	}
	s := e.s
	switch toks[0] {
	case "start":
		if len(toks) < 4 {
			return "bad-op"
		}
		ti, ok := atoi(toks[1])
		t := e.ctl.Thread(ti)
		if !ok || t == nil || t.Running {
			return "bad-op"
		}
		f := e.buildOp(ti, toks)
		if f == nil {
			return "bad-op"
		}
		ev, err := e.ctl.Start(t, f)
		return e.report(t, ev, err)
	case "step":
		if len(toks) != 2 {
			return "bad-op"
		}
		ti, ok := atoi(toks[1])
		t := e.ctl.Thread(ti)
		if !ok || t == nil || !t.Running || !t.Parked {
			return "bad-op"
		}
		ev, err := e.ctl.Step(t)
		return e.report(t, ev, err)
	case "stepinj":
		// stepinj <a> <b> <op…>: one segment of thread a; if that segment passes a LATE point (a point after a
		// shared-memory step from which the rest of the segment is local to the goroutine: ITER_HELPED), thread b's
		// whole operation runs right there, unsteered, before a goes on.  The model runs a's segment and then b's
		// operation; the two orders agree exactly when the rest of a's segment is local.
		if len(toks) < 5 {
			return "bad-op"
		}
		ai, ok := atoi(toks[1])
		bi, ok2 := atoi(toks[2])
		a, b := e.ctl.Thread(ai), e.ctl.Thread(bi)
		if !ok || !ok2 || a == nil || b == nil || ai == bi || !a.Running || !a.Parked || b.Running || !simpleOp(toks[3:]) {
			return "bad-op"
		}
		e.inj = &injection{thread: bi, toks: append([]string{"start", toks[2]}, toks[3:]...)}
		ev, err := e.ctl.Step(a)
		inj := e.inj
		e.inj = nil
		out := e.report(a, ev, err)
		if inj.fired {
			return out + " | " + inj.result
		}
		return out + " | noinj"
	case "walk":
		for i := 0; i < e.ctl.NumThreads(); i++ {
			if e.ctl.Thread(i).Running {
				return "bad-op"
			}
		}
		return walkLevels(s, true)
	case "stats":
		idle := true
		for i := 0; i < e.ctl.NumThreads(); i++ {
			if e.ctl.Thread(i).Running {
				idle = false
			}
		}
		line := statsLine(s, idle)
		if e.alloc != nil && idle {
			// the allocator's books: at quiescence the live blocks are the sentinels plus one block per node that
			// was allocated and not freed (and its item, when items live in user-managed memory too); a block that
			// is neither linked nor counted is a leak, appended to the line, which then never matches the model
			_, _, allocs, frees, _ := s.VerifRawStats()
			per := int64(1)
			if e.freeing {
				per = 2
			}
			if got, want := int64(e.alloc.Live()-e.base), (allocs-frees)*per; got != want {
				line += fmt.Sprintf(" blocks=%d/expected=%d", got, want)
			}
		}
		if e.freeing {
			// the model does not free: report the frees beyond those the harness itself caused through `delf`
			if m := freesRe.FindStringSubmatch(line); m != nil {
				n, _ := strconv.ParseInt(m[1], 10, 64)
				line = strings.Replace(line, m[0], fmt.Sprintf("frees=%d", n-atomic.LoadInt64(&e.freed)), 1)
			}
		}
		return line
	}
	return "bad-op"
}
