import NitroVerif.Spec.MapSpec
/-!
  M2 node list: /repo/nodelist.go.  The singly linked list threaded through `skiplist.Node.link`
  is modelled by the list of its nodes from the head, each node being (identity, key bytes of its
  item).  `Add` of a node that is already in the list would make the Go list cyclic; the callers
  never do that and the model (a list) cannot represent it — the driver refuses such a script line.
  `remove` follows the Go loop: walk from the head keeping the nodes already passed (`prev` side),
  unlink the first node whose key is `bytes.Equal` to the argument.
-/
namespace NitroVerif.NodeList
open NitroVerif

abbrev Node := ListSpec.Node

structure NodeList where
  nodes : List Node := []
deriving Repr, DecidableEq

/-- `(*NodeList).Add`: the node becomes the head, linked to the old head -/
def add (l : NodeList) (n : Node) : NodeList := { nodes := n :: l.nodes }

/-- the loop of `(*NodeList).Remove`: `passed` are the nodes before `node` in reverse order
    (`prev` is its head); returns the unlinked node and the list after unlinking -/
def removeLoop (key : List UInt8) : List Node → List Node → Option Nat × List Node
  | passed, [] => (none, passed.reverse)
  | passed, node :: rest =>
    if node.2 = key then (some node.1, passed.reverse ++ rest)
    else removeLoop key (node :: passed) rest

/-- `(*NodeList).Remove` -/
def remove (l : NodeList) (key : List UInt8) : NodeList × Option Nat :=
  let (r, nodes) := removeLoop key [] l.nodes
  ({ nodes := nodes }, r)

/-- `(*NodeList).Keys` -/
def keys (l : NodeList) : List (List UInt8) := l.nodes.map (·.2)

/-- `(*NodeList).Head` -/
def head (l : NodeList) : Option Nat :=
  match l.nodes with
  | [] => none
  | n :: _ => some n.1

def step (l : NodeList) : ListSpec.Op → NodeList × ListSpec.Out
  | .add id key => (add l (id, key), .ok)
  | .remove key => let (l', r) := remove l key; (l', .removed r)
  | .keys => (l, .keys (keys l))
  | .head => (l, .head (head l))

def runFrom (l : NodeList) : List ListSpec.Op → NodeList × List ListSpec.Out
  | [] => (l, [])
  | op :: ops =>
    let (l1, o) := step l op
    let (l2, os) := runFrom l1 ops
    (l2, o :: os)

def run (ops : List ListSpec.Op) : NodeList × List ListSpec.Out := runFrom {} ops

end NitroVerif.NodeList
