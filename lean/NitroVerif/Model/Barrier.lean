import NitroVerif.Gen.Guards
/-!
  M4 — the access barrier of `/repo/skiplist/access_barrier.go`, small-step, for an arbitrary
  number of logical threads (`St.ths : List Th`).

  One program counter per shared-memory step of the source; a thread parked at a pc is *before*
  that step (the names are the yield points of PROTOCOL.md, "engine barrier"):

      ACQ_LOAD  ACQ_ADD                                              Acquire
      REL_DEC  REL_CLOSED  REL_INSERT  REL_TRYLOCK                   Release
      CL_READ  CL_PROC                                               doCleanup (inlined in Release)
      REL_UNLOCK  REL_RECHECK                                        Release (flag drop, re-check loop)
      FL_LOCK  FL_SWAP  FL_TAG  FL_ADD  FL_UNLOCK                    FlushSession

  `Release` is entered from three places and carries its continuation `Cont`:
  the API call (`retRel`, returns to idle), the back-off of `Acquire` (`retAcq`: `goto retry`,
  the thread continues at ACQ_LOAD, the call does not return) and `FlushSession`
  (`retFlush`, continues at FL_UNLOCK, the deferred `ab.Unlock()`).

  Parameter `fixed`: `true` is the code as it is now (after REL_UNLOCK the loop re-checks
  `hasReadySession()` at REL_RECHECK and goes round again), `false` is the original code that
  returns right after REL_UNLOCK.  It exists so that the pre-fix witness of C17 can be stated.

  Every comparison and constant of the Go code is taken from `NitroVerif.Gen`
  (`barrierFlushOffset`, `acquireBackoff`, `releaseIsLast`, `releasePanic`, `closedFirst`,
  `cleanupStop`, `readyHead` (the test of `hasReadySession`), `flushAdd`).

  Abstractions (deliberate, stated):
  * `liveCount` is an unbounded `Int` instead of `int32`; `closed`, seqnos and the statistics are `Nat`.
    The overflow regime is excluded explicitly: `exec` REFUSES (returns `none`) the ACQ_ADD step that
    would make the count of a session that has not been flushed reach `barrierFlushOffset`
    (2^30 - 1 simultaneous accessors of one session).  This is the only refusal that is not a
    protocol precondition.
  * Sessions are never deallocated (Go: garbage collected); a session is named by its index in
    `St.sess`, `cur` is the index `ab.session` points to.
  * `freeq` (a skiplist ordered by `CompareBS`, i.e. by seqno) is a list of session ids sorted by seqno;
    `Insert` of an item whose seqno is already present fails, which in the Go code panics
    (modelled: `panicked`).
  * CL_READ reads the true head of the queue.  On non-first iterations of the cleanup loop the real
    iterator's `Next` may land on a stale successor; this is over-approximated by the additional
    action `Act.stale` (exit the loop as "not ready"), enabled only at `clRead false`.  The theorems hold
    with this action enabled; the driver never takes it.
  * FL_SWAP (LoadPointer + CompareAndSwapPointer of `ab.session`, both under the mutex) is one step;
    the CAS cannot fail because `ab.session` is written only under the mutex.
  * The two panics of `Release` set `panicked`; C16 shows that flag is never set.

  Ghost state (not in the Go code; used only by the statements): `Sess.flushed` (the offset has been
  added), `Th.toks` (session ids of the tokens the thread holds, in acquisition order),
  `St.log` (destructor calls `(seqno, obj)` in call order), `St.tagged` (the objects given to
  `FlushSession`, in FL_TAG order), `St.flStarted` / `St.flDone` (calls of `FlushSession` started /
  returned).
-/
namespace NitroVerif.Barrier
open NitroVerif

structure Sess where
  live : Int := 0
  closed : Nat := 0
  seqno : Nat := 0
  obj : Nat := 0
  flushed : Bool := false   -- ghost
deriving Repr, DecidableEq

namespace Sess
/-- `AddInt32(bs.liveCount, d)` -/
def addLive (x : Sess) (d : Int) : Sess := { x with live := x.live + d }
/-- `AddInt32(&bs.closed, 1)` -/
def incClosed (x : Sess) : Sess := { x with closed := x.closed + 1 }
/-- `bs.objectRef = ref; bs.seqno = ab.activeSeqno` -/
def tag (x : Sess) (obj seqno : Nat) : Sess := { x with obj := obj, seqno := seqno }
/-- `AddInt32(bs.liveCount, barrierFlushOffset+1)`; ghost: the session is now flushed -/
def flush (x : Sess) : Sess := { x with live := x.live + Gen.flushAdd, flushed := true }
end Sess

inductive Cont where
  | retAcq | retRel | retFlush
deriving Repr, DecidableEq

inductive PC where
  | idle
  | acqLoad
  | acqAdd (s : Nat)
  | relDec (s : Nat) (k : Cont)
  | relClosed (s : Nat) (k : Cont)
  | relInsert (s : Nat) (k : Cont)
  | relTryLock (k : Cont)
  | clRead (first : Bool) (k : Cont)
  | clProc (s : Nat) (k : Cont)
  | relUnlock (k : Cont)
  | relRecheck (k : Cont)
  | flLock (obj : Nat)
  | flSwap (obj : Nat)
  | flTag (s : Nat) (obj : Nat)
  | flAdd (s : Nat)
  | flUnlock
deriving Repr, DecidableEq

structure Th where
  pc : PC := .idle
  toks : List Nat := []
deriving Repr, DecidableEq

structure St where
  sess : List Sess := [{}]
  cur : Nat := 0
  activeSeqno : Nat := 0
  freeSeqno : Nat := 0
  freeq : List Nat := []
  flag : Bool := false            -- isDestructorRunning
  mutex : Bool := false
  numAllocated : Nat := 1
  numFreed : Nat := 0
  panicked : Bool := false
  log : List (Nat × Nat) := []    -- ghost: destructor calls (seqno, obj), call order
  tagged : List Nat := []         -- ghost: objects of the flushes, FL_TAG order
  flStarted : Nat := 0            -- ghost
  flDone : Nat := 0               -- ghost
  ths : List Th := []
deriving Repr

inductive Op where
  | acquire | release (i : Nat) | flush (obj : Nat)
deriving Repr, DecidableEq

inductive Act where
  | start (op : Op)
  | step
  | stale        -- proof-only: spurious "not ready" exit of a non-first CL_READ
deriving Repr, DecidableEq

def getS (st : St) (s : Nat) : Sess := st.sess.getD s {}
def setS (st : St) (s : Nat) (x : Sess) : St := { st with sess := st.sess.set s x }
def setT (st : St) (i : Nat) (t : Th) : St := { st with ths := st.ths.set i t }

/-- CL_PROC: `freeSeqno++`, destructor callback on the head's object, `DeleteNode`, `numFreed++` -/
def destruct (st : St) (s : Nat) : St :=
  { st with freeSeqno := st.freeSeqno + 1,
            log := st.log ++ [((getS st s).seqno, (getS st s).obj)],
            freeq := st.freeq.erase s,
            numFreed := st.numFreed + 1 }

/-- FL_TAG, the part outside the session: `ab.activeSeqno++`, `ab.numAllocated++` (ghost: remember the object) -/
def tagGlobals (st : St) (obj : Nat) : St :=
  { st with activeSeqno := st.activeSeqno + 1, numAllocated := st.numAllocated + 1,
            tagged := st.tagged ++ [obj] }

/-- where a `Release` continues when it is done -/
def afterCont (k : Cont) : PC :=
  match k with
  | .retAcq => .acqLoad      -- `goto retry`
  | .retRel => .idle
  | .retFlush => .flUnlock

/-- `freeq.Insert` with `CompareBS`: ordered by seqno, fails on an equal seqno -/
def qinsert (key : Nat → Nat) (s : Nat) : List Nat → Option (List Nat)
  | [] => some [s]
  | x :: xs =>
    if key s < key x then some (s :: x :: xs)
    else if key s = key x then none
    else (qinsert key s xs).map (x :: ·)

/-- the queue head is present and is the next session to destruct (`SeekFirst`, `Valid`, seqno test) -/
def headReady (st : St) : Option Nat :=
  match st.freeq with
  | [] => none
  | s :: _ => if Gen.cleanupStop (getS st s).seqno st.freeSeqno then none else some s

/-- `hasReadySession()`: fresh `SeekFirst`, `Valid`, `bs.seqno == freeSeqno+1` -/
def hasReady (st : St) : Bool :=
  match st.freeq with
  | [] => false
  | s :: _ => Gen.readyHead (getS st s).seqno st.freeSeqno

def execStart (st : St) (t : Th) (op : Op) : Option (St × Th) :=
  match t.pc with
  | .idle =>
    match op with
    | .acquire => some (st, { t with pc := .acqLoad })
    | .release i =>
      match t.toks[i]? with
      | some s => some (st, { pc := .relDec s .retRel, toks := t.toks.eraseIdx i })
      | none => none
    | .flush obj => some ({ st with flStarted := st.flStarted + 1 }, { t with pc := .flLock obj })
  | _ => none

def execStale (st : St) (t : Th) : Option (St × Th) :=
  match t.pc with
  | .clRead false k => some (st, { t with pc := .relUnlock k })
  | _ => none

def execStep (fixed : Bool) (st : St) (t : Th) : Option (St × Th) :=
  match t.pc with
  | .idle => none
  | .acqLoad => some (st, { t with pc := .acqAdd st.cur })
  | .acqAdd s =>
    let x := getS st s
    let v := x.live + 1
    if !x.flushed && decide (Gen.barrierFlushOffset ≤ v) then none   -- excluded regime (2^30 accessors)
    else
      let st1 := setS st s (x.addLive 1)
      if Gen.acquireBackoff v then some (st1, { t with pc := .relDec s .retAcq })
      else some (st1, { pc := .idle, toks := t.toks ++ [s] })
  | .relDec s k =>
    let x := getS st s
    let v := x.live + -1
    let st1 := setS st s (x.addLive (-1))
    if Gen.releaseIsLast v then some (st1, { t with pc := .relClosed s k })
    else if Gen.releasePanic v then some ({ st1 with panicked := true }, t)
    else some (st1, { t with pc := afterCont k })
  | .relClosed s k =>
    let x := getS st s
    let c := x.closed + 1
    let st1 := setS st s x.incClosed
    if Gen.closedFirst (c : Int) then some (st1, { t with pc := .relInsert s k })
    else some (st1, { t with pc := afterCont k })
  | .relInsert s k =>
    match qinsert (fun a => (getS st a).seqno) s st.freeq with
    | some q => some ({ st with freeq := q }, { t with pc := .relTryLock k })
    | none => some ({ st with panicked := true }, t)
  | .relTryLock k =>
    if st.flag then some (st, { t with pc := afterCont k })
    else some ({ st with flag := true }, { t with pc := .clRead true k })
  | .clRead _ k =>
    match headReady st with
    | some s => some (st, { t with pc := .clProc s k })
    | none => some (st, { t with pc := .relUnlock k })
  | .clProc s k =>
    some (destruct st s, { t with pc := .clRead false k })
  | .relUnlock k =>
    some ({ st with flag := false }, { t with pc := if fixed then .relRecheck k else afterCont k })
  | .relRecheck k =>
    if hasReady st then some (st, { t with pc := .relTryLock k })
    else some (st, { t with pc := afterCont k })
  | .flLock obj =>
    if st.mutex then none else some ({ st with mutex := true }, { t with pc := .flSwap obj })
  | .flSwap obj =>
    some ({ st with sess := st.sess ++ [{}], cur := st.sess.length }, { t with pc := .flTag st.cur obj })
  | .flTag s obj =>
    let x := getS st s
    let a := st.activeSeqno + 1
    some (setS (tagGlobals st obj) s (x.tag obj a),
          { t with pc := .flAdd s })
  | .flAdd s =>
    let x := getS st s
    some (setS st s x.flush,
          { t with pc := .relDec s .retFlush })
  | .flUnlock =>
    some ({ st with mutex := false, flDone := st.flDone + 1 }, { t with pc := .idle })

/-- effect of action `a` of a thread whose record is `t`: new shared state (threads untouched)
    and the thread's new record -/
def exec (fixed : Bool) (st : St) (t : Th) : Act → Option (St × Th)
  | .start op => execStart st t op
  | .step => execStep fixed st t
  | .stale => execStale st t

/-- one action of thread `i`; `none` = not enabled / illegal -/
def step (fixed : Bool) (st : St) (i : Nat) (a : Act) : Option St :=
  match st.ths[i]? with
  | none => none
  | some t =>
    match exec fixed st t a with
    | none => none
    | some (st1, t') => some (setT st1 i t')

def run (fixed : Bool) (st : St) : List (Nat × Act) → Option St
  | [] => some st
  | (i, a) :: r =>
    match step fixed st i a with
    | none => none
    | some st' => run fixed st' r

def init (n : Nat) : St := { ths := List.replicate n {} }

/-- reachable from `init n` by some schedule -/
def Reachable (fixed : Bool) (n : Nat) (st : St) : Prop :=
  ∃ sched, run fixed (init n) sched = some st

/-- no call in progress and no token held -/
def quiescent (st : St) : Bool := st.ths.all (fun t => t.pc == .idle && t.toks.isEmpty)

/-- protocol name of the point a thread is parked at (`none`: idle) -/
def pointName : PC → Option String
  | .idle => none
  | .acqLoad => some "ACQ_LOAD"
  | .acqAdd _ => some "ACQ_ADD"
  | .relDec _ _ => some "REL_DEC"
  | .relClosed _ _ => some "REL_CLOSED"
  | .relInsert _ _ => some "REL_INSERT"
  | .relTryLock _ => some "REL_TRYLOCK"
  | .clRead _ _ => some "CL_READ"
  | .clProc _ _ => some "CL_PROC"
  | .relUnlock _ => some "REL_UNLOCK"
  | .relRecheck _ => some "REL_RECHECK"
  | .flLock _ => some "FL_LOCK"
  | .flSwap _ => some "FL_SWAP"
  | .flTag _ _ => some "FL_TAG"
  | .flAdd _ => some "FL_ADD"
  | .flUnlock => some "FL_UNLOCK"

end NitroVerif.Barrier
