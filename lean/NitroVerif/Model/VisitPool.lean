/-!
  The worker pool of `(*Nitro).Visitor` (nitro.go, "Run workers" … "Provide work and wait"):

      errors := make([]error, len(pivotItems)-1)
      wch := make(chan int, len(pivotItems)-1)            -- BUFFERED, capacity = number of shards
      for i := 0; i < concurrency; i++ { wg.Add(1); go func() { defer wg.Done()
          for shard := range wch { … if err := callb(itm, shard); err != nil { errors[shard] = err; return } … } }() }
      for shard := 0; shard < len(pivotItems)-1; shard++ { wch <- shard }
      close(wch)
      wg.Wait()
      for _, err := range errors { if err != nil { return err } }
      return nil

  Parameters of the model: `n` = number of shards (`len(pivotItems)-1`; the dispatcher's loop bound, generated
  `Gen.visitorDispatchBound`), `cap` = capacity of `wch` (generated `Gen.visitorChanCap`; the two generated strings
  are equal — lemma `visitor_channel_holds_every_shard` in Lemmas/MvccGen.lean — i.e. the code has `cap = n`; before
  fix D19, commit 0a8383c, it was `cap = shards`, the REQUESTED number of shards, which can be smaller than `n`),
  `c` = `concurrency` = number of workers, `fails s` = "the callback returns an error on some item of shard `s`".

  Small-step semantics, one action per step, the schedule is the list of actions:
    * `send`     the dispatcher's `wch <- next`: enabled while the buffer holds fewer than `cap` indexes;
    * `recv w`   worker `w`, blocked in `for shard := range wch`, takes the oldest index out of the buffer;
    * `finish w` worker `w` is through with its shard: if the callback failed on it, `errors[shard] = err; return`
                 (the worker has LEFT the pool: deferred `wg.Done()`), otherwise it receives again;
    * `close`    the dispatcher's `close(wch)` after its loop;
    * `exit w`   worker `w` sees the channel closed AND drained (`range` over a closed channel first delivers what
                 is buffered) and returns.
  `final` = the dispatcher gets past `wg.Wait()`.  `result` = what Visitor returns: the first non-nil entry of
  `errors` (as the index of the shard whose error it is), or `none` for `nil`.

  Abstractions: a shard's whole iteration is one `busy` phase ended by `finish` (the shards only read the snapshot,
  each with its own iterator — what they deliver is property C10's other half, `C10_visitor_partition`); the error
  values are abstracted to "set / not set" (`errors : List Bool`); a send that Go hands directly to a waiting
  receiver is `send` followed by `recv` here, which is the same thing for `cap ≥ 1`; with `cap = 0` (an unbuffered
  channel) the model's `send` is never enabled — the theorems need `n ≤ cap`, so `cap = 0` only with `n = 0`, where
  nothing is ever sent.  `log` is a ghost record of which worker completed which shard (in completion order).
-/
namespace NitroVerif.VisitPool

inductive WState where
  | idle                -- blocked in `for shard := range wch`
  | busy (shard : Nat)  -- iterating over a shard
  | done                -- returned (wg.Done)
deriving Repr, DecidableEq

structure State where
  next : Nat                -- the dispatcher is at `wch <- next` (or past its loop when `next = n`)
  chan : List Nat           -- the buffer of `wch`, oldest first
  closed : Bool             -- `close(wch)` executed
  workers : List WState
  errors : List Bool        -- `errors[shard] != nil`
  log : List (Nat × Nat)    -- ghost: (worker, shard) for every shard a worker has been through
deriving Repr, DecidableEq

inductive Action where
  | send
  | recv (w : Nat)
  | finish (w : Nat)
  | close
  | exit (w : Nat)
deriving Repr, DecidableEq

def init (n c : Nat) : State :=
  { next := 0, chan := [], closed := false, workers := List.replicate c .idle,
    errors := List.replicate n false, log := [] }

def step (fails : Nat → Bool) (n cap : Nat) (st : State) : Action → Option State
  | .send =>
    if st.next < n ∧ st.closed = false ∧ st.chan.length < cap then
      some { st with next := st.next + 1, chan := st.chan ++ [st.next] }
    else none
  | .recv w =>
    match st.chan with
    | s :: rest =>
      if st.workers[w]? = some .idle then
        some { st with chan := rest, workers := st.workers.set w (.busy s) }
      else none
    | [] => none
  | .finish w =>
    match st.workers[w]? with
    | some (.busy s) =>
      if fails s then
        some { st with workers := st.workers.set w .done, errors := st.errors.set s true,
                       log := st.log ++ [(w, s)] }
      else
        some { st with workers := st.workers.set w .idle, log := st.log ++ [(w, s)] }
    | _ => none
  | .close =>
    if st.next = n ∧ st.closed = false then some { st with closed := true } else none
  | .exit w =>
    if st.closed = true ∧ st.chan = [] ∧ st.workers[w]? = some .idle then
      some { st with workers := st.workers.set w .done }
    else none

def run (fails : Nat → Bool) (n cap : Nat) : State → List Action → Option State
  | st, [] => some st
  | st, a :: r =>
    match step fails n cap st a with
    | none => none
    | some st' => run fails n cap st' r

/-- Visitor gets past `wg.Wait()`: all indexes sent, channel closed, all workers returned.  (The buffer may still
    hold indexes: nobody is left to take them.) -/
def final (n : Nat) (st : State) : Prop :=
  st.next = n ∧ st.closed = true ∧ ∀ w ∈ st.workers, w = .done

instance (n : Nat) (st : State) : Decidable (final n st) := by unfold final; infer_instance

/-- what Visitor returns after `wg.Wait()`: `some s` = the error recorded for shard `s`, the first non-nil entry
    of `errors`; `none` = `nil` -/
def result (st : State) : Option Nat := st.errors.findIdx? (fun b => b)

/-- the shards some worker has been through -/
def processed (st : State) : List Nat := st.log.map Prod.snd

def weight : WState → Nat
  | .idle => 1
  | .busy _ => 2
  | .done => 0

/-- a bound on the number of steps left -/
def measure (n : Nat) (st : State) : Nat :=
  3 * (n - st.next) + 2 * st.chan.length + (if st.closed then 0 else 1) + (st.workers.map weight).sum

end NitroVerif.VisitPool
