/-
  M6 — the MVCC layer of nitro (`nitro.go`), at the granularity "one skiplist operation = one
  atomic step", driven by one goroutine.  Part 1: the physical store and the comparators.

  Abstractions:
  * keys and values are `Nat`; the configured key comparator (an arbitrary lawful total order on
    byte strings) is `<` on `Nat`, its sign is `keyCmp`.  Under the default comparator the value
    is always 0 (the item is the key); under `CompareKV` equal keys may carry different values.
  * snapshot numbers and counters are unbounded (`Nat`/`Int`), not `uint32`/`int64`.
  * the skiplist is its level-0 list: a `List Ver` in the order of the insert comparator
    (layering assumption: a skiplist operation is atomic and `findPath` returns the level-0
    predecessor/successor of the probe — properties C13/C15).
  * a node is identified by `(key, born)`; node handles additionally remember whether the node
    they point to was removed physically (`gone`).
  Every decision the Go code takes is evaluated through the generated `Gen.*` definitions.
-/
import NitroVerif.Gen.Guards
import NitroVerif.Spec.SetSpec

namespace NitroVerif.Mvcc
open NitroVerif

/-- a physical version (`Item` in a skiplist node): `dead = 0` means alive -/
structure Ver where
  key : Nat
  val : Nat
  born : Nat
  dead : Nat
deriving Repr, DecidableEq, Inhabited

/-- sign of the key comparator -/
def keyCmp (a b : Nat) : Int := if a < b then -1 else if a = b then 0 else 1

/-- `newInsertCompare`, `newIterCompare`, `newExistCompare` applied to two items -/
def insCmp (a b : Ver) : Int := Gen.insertCompare (keyCmp a.key b.key) a.born b.born
def iterCmp (a b : Ver) : Int := Gen.iterCompare (keyCmp a.key b.key)
def existCmp (a b : Ver) : Int := Gen.existCompare (keyCmp a.key b.key) a.dead b.dead

def cmpOf : Gen.CmpKind → Ver → Ver → Int
  | .ins => insCmp
  | .iter => iterCmp
  | .exist => existCmp

/-- `a` is strictly before `b` in the physical order -/
def insLt (a b : Ver) : Bool := decide (insCmp a b < 0)

/-- same skiplist node (versions are identified by key and birth epoch) -/
def sameId (a b : Ver) : Bool := a.key == b.key && a.born == b.born

/-- level 0 of `findPath`: the nodes passed (`preds[0]` is the last of them, the head sentinel if
    there is none) and the rest (`succs[0]` is its first element, the tail sentinel if empty) -/
def findPath (cmp : Ver → Ver → Int) (probe : Ver) : List Ver → List Ver × List Ver
  | [] => ([], [])
  | x :: xs =>
    if Gen.findAdvance (cmp x probe) then
      (x :: (findPath cmp probe xs).1, (findPath cmp probe xs).2)
    else ([], x :: xs)

/-- `findPath`'s result: `succs[0]` when the last comparison was "equal" -/
def foundAt (cmp : Ver → Ver → Int) (probe : Ver) : List Ver → Option Ver
  | [] => none
  | x :: _ => if Gen.findFound (cmp x probe) then some x else none

/-- the search shared by `Insert4` and `Iterator.SeekWithCmp`: exact hit under the insert
    comparator, else exists-comparison of the probe with `preds[0]` (the head compares unequal) -/
def lookup (store : List Ver) (probe : Ver) : Option Ver :=
  match foundAt insCmp probe (findPath insCmp probe store).2 with
  | some x => some x
  | none =>
    match (findPath insCmp probe store).1.getLast? with
    | some p => if existCmp probe p = 0 then some p else none
    | none => none

/-- link the probe between `preds[0]` and `succs[0]` -/
def insertAt (store : List Ver) (probe : Ver) : List Ver :=
  (findPath insCmp probe store).1 ++ probe :: (findPath insCmp probe store).2

/-- the version a node handle `(key, born)` points to, if it is physically present -/
def findId (store : List Ver) (x : Ver) : Option Ver := store.find? (fun v => sameId v x)

/-- skiplist `DeleteNode` -/
def removeId (store : List Ver) (x : Ver) : List Ver := store.filter (fun v => !sameId v x)

/-- `CompareAndSwapUint32(&deadSn, 0, sn)` having succeeded on node `x` -/
def markDead (store : List Ver) (x : Ver) (sn : Nat) : List Ver :=
  store.map (fun v => if sameId v x then { v with dead := sn } else v)

/-- the collection worker unlinking every node of a garbage list -/
def removeAll (store : List Ver) (g : List Ver) : List Ver :=
  store.filter (fun v => !g.any (fun x => sameId v x))

def isAlive (v : Ver) : Bool := v.dead == 0

/-- what a snapshot numbered `sn` sees of a version -/
def visible (sn : Nat) (v : Ver) : Bool := !Gen.skipUnwanted v.born v.dead sn

/-- identity and payload of a version, without its (mutable) death mark -/
def Ver.norm (v : Ver) : Ver := { v with dead := 0 }

/-- ghost: the versions visible at `sn`, in physical order -/
def view (store : List Ver) (sn : Nat) : List Ver := (store.filter (visible sn)).map Ver.norm

def Ver.item (v : Ver) : SetSpec.Item := (v.key, v.val)

/-! ### writers, snapshots, state -/

structure Writer where
  count : Int
  gc : List Ver          -- gchead … gctail, in append order
deriving Repr

inductive SnapSt where
  | live        -- in `m.snapshots`
  | retired     -- in `m.gcsnapshots`
  | collected   -- gclist sent to the collection workers
deriving Repr, DecidableEq

structure Snap where
  sn : Nat
  rc : Int
  count : Int
  gclist : List Ver
  st : SnapSt
  content : List Ver     -- ghost: `view store sn` at creation
deriving Repr

structure Iter where
  sn : Nat
  cur : Option Ver       -- the node under the cursor; `none` = `Valid()` is false
  count : Int
  rate : Int
deriving Repr

structure Handle where
  key : Nat
  born : Nat
  gone : Bool            -- the node was removed physically by a same-epoch delete
deriving Repr

structure State where
  store : List Ver
  currSn : Nat
  lastGCSn : Nat
  itemsCount : Int
  writers : List Writer          -- by writer number; `m.wlist` is this list reversed
  snaps : List Snap              -- every snapshot ever created, in creation order
  iters : List (Nat × Iter)
  handles : List (Nat × Handle)
deriving Repr

def init (nwriters : Nat) : State :=
  { store := [], currSn := 1, lastGCSn := 0, itemsCount := 0,
    writers := List.replicate nwriters ⟨0, []⟩, snaps := [], iters := [], handles := [] }

def findSnap (s : Nat) (l : List Snap) : Option Snap := l.find? (fun x => x.sn == s)

def updSnap (s : Nat) (f : Snap → Snap) (l : List Snap) : List Snap :=
  l.map (fun x => if x.sn = s then f x else x)

def itersOn (s : Nat) (its : List (Nat × Iter)) : Int :=
  ((its.filter (fun p => p.2.sn == s)).length : Nat)

def updWriter (w : Nat) (f : Writer → Writer) (l : List Writer) : List Writer :=
  match l[w]? with
  | some x => l.set w (f x)
  | none => l

/-- probe item of `Put2`/`GetNode`: `bornSn = currSn`, `deadSn = 0` -/
def probe (st : State) (k v : Nat) : Ver := ⟨k, v, st.currSn, 0⟩

/-- `Writer.Put2` -/
def put (st : State) (w k v : Nat) : State × Bool :=
  match lookup st.store (probe st k v) with
  | some _ => (st, false)
  | none =>
    ({ st with store := insertAt st.store (probe st k v),
               writers := updWriter w (fun x => { x with count := x.count + 1 }) st.writers }, true)

/-- `Writer.GetNode` -/
def getNode (st : State) (k : Nat) : Option Ver := lookup st.store (probe st k 0)

def markGone (x : Ver) (hs : List (Nat × Handle)) : List (Nat × Handle) :=
  SetSpec.amap (fun h => if h.key = x.key ∧ h.born = x.born then { h with gone := true } else h) hs

/-- `Writer.DeleteNode` on the node `x` (which is physically present) -/
def deleteNode (st : State) (w : Nat) (x : Ver) : State × Bool :=
  if Gen.sameEpoch x.born st.currSn then
    -- skiplist DeleteNode: succeeds because the node is present
    ({ st with store := removeId st.store x,
               handles := markGone x st.handles,
               writers := updWriter w (fun y => { y with count := y.count - 1 }) st.writers }, true)
  else if x.dead = 0 then
    ({ st with store := markDead st.store x st.currSn,
               writers := updWriter w (fun y => { count := y.count - 1,
                                                  gc := y.gc ++ [{ x with dead := st.currSn }] }) st.writers }, true)
  else (st, false)

/-- `Writer.Delete2`: `GetNode`, then `DeleteNode` -/
def del (st : State) (w k : Nat) : State × Bool :=
  match getNode st k with
  | some x => deleteNode st w x
  | none => (st, false)

/-- `Writer.DeleteNode` through a handle -/
def delHandle (st : State) (w : Nat) (h : Handle) : State × Bool :=
  if h.gone then (st, false)     -- skiplist DeleteNode / the CAS on a node deleted before fails
  else
    match findId st.store ⟨h.key, 0, h.born, 0⟩ with
    | some x => deleteNode st w x
    | none => (st, false)

/-- `NewSnapshot` -/
def newSnapshot (st : State) : State × Snap :=
  let gclist := (st.writers.reverse.map (·.gc)).flatten
  let items := st.itemsCount + (st.writers.map (·.count)).sum
  let snap : Snap := { sn := st.currSn, rc := 1, count := items, gclist := gclist, st := .live,
                       content := view st.store st.currSn }
  ({ st with writers := st.writers.map (fun _ => ⟨0, []⟩), itemsCount := items,
             snaps := st.snaps ++ [snap], currSn := st.currSn + 1 }, snap)

/-- `collectDead` over the retired snapshots in `sn` order; the unlinking done by the collection
    workers is performed at once (sequential engine) -/
def collectDead : List Snap → Nat → List Ver → List Snap × Nat × List Ver
  | [], g, store => ([], g, store)
  | s :: rest, g, store =>
    if s.st = .retired then
      if Gen.gcStop s.sn g then (s :: rest, g, store)
      else
        let r := collectDead rest s.sn (removeAll store s.gclist)
        ({ s with st := .collected } :: r.1, r.2.1, r.2.2)
    else
      let r := collectDead rest g store
      (s :: r.1, r.2.1, r.2.2)

/-- `GC()` (never contended with one goroutine) -/
def gc (st : State) : State :=
  let r := collectDead st.snaps st.lastGCSn st.store
  { st with snaps := r.1, lastGCSn := r.2.1, store := r.2.2 }

/-- `Snapshot.Open` on a snapshot with reference count `rc` -/
def openSnap (st : State) (s : Nat) : State :=
  { st with snaps := updSnap s (fun y => { y with rc := y.rc + 1 }) st.snaps }

/-- `Snapshot.Close` on a snapshot with reference count `rc` -/
def closeSnap (st : State) (s : Nat) (rc : Int) : State :=
  if Gen.closeRetire (rc - 1) then
    gc { st with snaps := updSnap s (fun y => { y with rc := y.rc - 1, st := .retired }) st.snaps }
  else
    { st with snaps := updSnap s (fun y => { y with rc := y.rc - 1 }) st.snaps }

end NitroVerif.Mvcc
