import NitroVerif.Gen.Guards
import NitroVerif.Spec.MapSpec
/-!
  M2 node table: /repo/nodetable/table.go as a pure state machine.

  * `fastHT map[uint32]uint64` and `slowHT map[uint32][]uint64` are association lists
    (`AL.get/set/del`; a missing key reads as Go's zero value via `getD`).
  * Keys, pointers and hashes are unbounded `Nat` (Go: `[]byte`, `unsafe.Pointer`, `uint32`);
    `hash : Key → Nat` and `keyOf : Ptr → Key` are parameters; the table's `keyEqual(p, key)`
    callback is `keyOf p = key`.
  * An encoded pointer (`uint64` with the conflict flag in bit `Gen.ntConflictBit` = 63) is the
    pair `(ptr, conflict)`; `encodePointer`/`decodePointer`/`hasConflictBit` below give the bit
    layout and `Lemmas/TableGen.lean` shows the pair is faithful for pointers `< 2^63` — this is
    ASSUMED of every pointer handed to the table (user-space addresses).  Entries of the slow
    lists carry a conflict flag in the Go code too (false when appended, true when replaced); it
    is never read (`decodePointer` strips it), so slow lists hold plain pointers.
  * The counters are `uint64` in Go; `--` is truncated subtraction here (the invariant shows it
    never happens at 0).
  * `slowHTValues[0]` on an empty slice panics in Go: the model sets `panicked` (the invariant
    shows it never happens).
  * `find` writes its result into the scratch field `nt.res`; the model returns it.
-/
namespace NitroVerif.Table
open NitroVerif

abbrev Key := Nat
abbrev Ptr := Nat
abbrev Hash := Nat

/-- bit layout of table.go encodePointer / decodePointer / hasConflict (64-bit platforms) -/
def encodePointer (p : Nat) (hasConflict : Bool) : Nat :=
  if hasConflict then p ||| (1 <<< Gen.ntConflictBit) else p
def decodePointer (v : Nat) : Nat := v % (1 <<< Gen.ntConflictBit)
def hasConflictBit (v : Nat) : Bool := decide (v >>> Gen.ntConflictBit = 1)

structure Table where
  fastHT : List (Hash × (Ptr × Bool)) := []
  slowHT : List (Hash × List Ptr) := []
  fastHTCount : Nat := 0
  slowHTCount : Nat := 0
  conflicts : Nat := 0
  panicked : Bool := false
deriving Repr, DecidableEq

/-- `ntResult` -/
structure FindResult where
  status : Nat
  hash : Hash
  hasConflict : Bool
  fastHTHasEntry : Bool
  fastHTValue : Ptr
  slowHTValues : List Ptr
  slowHTPos : Nat
deriving Repr, DecidableEq

/-- the `for i, v := range vs { if nt.isEqual(key, v) {…} }` loop: index of the first equal key -/
def slowPos (keyOf : Ptr → Key) (key : Key) : List Ptr → Option Nat
  | [] => none
  | v :: vs => if keyOf v = key then some 0 else (slowPos keyOf key vs).map (· + 1)

/-- `(*NodeTable).find` -/
def find (hash : Key → Hash) (keyOf : Ptr → Key) (t : Table) (key : Key) : FindResult :=
  let h := hash key
  let res0 : FindResult :=
    { status := Gen.ntNotFound, hash := h, hasConflict := false, fastHTHasEntry := false,
      fastHTValue := 0, slowHTValues := [], slowHTPos := 0 }
  match AL.get t.fastHT h with
  | none => res0
  | some (p, c) =>
    let res1 := { res0 with fastHTHasEntry := true, hasConflict := c }
    if keyOf p = key then { res1 with status := Gen.ntFoundInFast, fastHTValue := p }
    else if c then
      match AL.get t.slowHT h with
      | some vs =>
        match slowPos keyOf key vs with
        | some i => { res1 with slowHTPos := i, slowHTValues := vs, status := Gen.ntFoundInSlow }
        | none => res1
      | none => res1
    else res1

/-- `(*NodeTable).Get` -/
def get (hash : Key → Hash) (keyOf : Ptr → Key) (t : Table) (key : Key) : Option Ptr :=
  let res := find hash keyOf t key
  if Gen.ntIsFound res.status then
    if res.status = Gen.ntFoundInFast then some res.fastHTValue
    else res.slowHTValues[res.slowHTPos]?
  else none

/-- `(*NodeTable).Update`: new table, `updated`, `oldPtr` -/
def update (hash : Key → Hash) (keyOf : Ptr → Key) (t : Table) (key : Key) (nptr : Ptr) :
    Table × Bool × Option Ptr :=
  let res := find hash keyOf t key
  if Gen.ntIsFound res.status then
    if res.status = Gen.ntFoundInFast then
      ({ t with fastHT := AL.set t.fastHT res.hash (nptr, res.hasConflict) }, true, some res.fastHTValue)
    else
      -- res.slowHTValues[res.slowHTPos] = …: the slice shares its array with the map's value
      ({ t with slowHT := AL.set t.slowHT res.hash (res.slowHTValues.set res.slowHTPos nptr) },
        true, res.slowHTValues[res.slowHTPos]?)
  else
    let newSlowValue := Gen.ntNewSlowValue res.fastHTHasEntry res.hasConflict
    if Gen.ntInsertSlow res.hasConflict newSlowValue then
      let slowHTValues := (AL.get t.slowHT res.hash).getD [] ++ [nptr]
      let t1 := { t with slowHT := AL.set t.slowHT res.hash slowHTValues }
      let t2 :=
        if newSlowValue then
          { t1 with fastHT := AL.set t1.fastHT res.hash (((AL.get t1.fastHT res.hash).getD (0, false)).1, true)
                    conflicts := t1.conflicts + 1 }
        else t1
      ({ t2 with slowHTCount := t2.slowHTCount + 1 }, false, none)
    else
      ({ t with fastHT := AL.set t.fastHT res.hash (nptr, false), fastHTCount := t.fastHTCount + 1 },
        false, none)

/-- `(*NodeTable).Remove`: new table, `success`, `nptr` -/
def remove (hash : Key → Hash) (keyOf : Ptr → Key) (t : Table) (key : Key) :
    Table × Bool × Option Ptr :=
  let res := find hash keyOf t key
  if Gen.ntIsFound res.status then
    if res.status = Gen.ntFoundInFast then
      if res.hasConflict then
        match (AL.get t.slowHT res.hash).getD [] with
        | [] => ({ t with panicked := true }, true, some res.fastHTValue)   -- index out of range
        | v :: slowHTValues =>
          let t1 := { t with slowHTCount := t.slowHTCount - 1 }
          if slowHTValues.length = 0 then
            ({ t1 with slowHT := AL.del t1.slowHT res.hash, conflicts := t1.conflicts - 1,
                       fastHT := AL.set t1.fastHT res.hash (v, false) }, true, some res.fastHTValue)
          else
            ({ t1 with slowHT := AL.set t1.slowHT res.hash slowHTValues,
                       fastHT := AL.set t1.fastHT res.hash (v, true) }, true, some res.fastHTValue)
      else
        ({ t with fastHT := AL.del t.fastHT res.hash, fastHTCount := t.fastHTCount - 1 },
          true, some res.fastHTValue)
    else
      let nptr := res.slowHTValues[res.slowHTPos]?
      let newSlowValue0 := res.slowHTValues.take res.slowHTPos
      let newSlowValue :=
        if res.slowHTPos + 1 ≠ res.slowHTValues.length then
          newSlowValue0 ++ res.slowHTValues.drop (res.slowHTPos + 1)
        else newSlowValue0
      let t1 := { t with slowHTCount := t.slowHTCount - 1 }
      if newSlowValue.length = 0 then
        ({ t1 with slowHT := AL.del t1.slowHT res.hash,
                   fastHT := AL.set t1.fastHT res.hash (((AL.get t1.fastHT res.hash).getD (0, false)).1, false),
                   conflicts := t1.conflicts - 1 }, true, nptr)
      else
        ({ t1 with slowHT := AL.set t1.slowHT res.hash newSlowValue }, true, nptr)
  else (t, false, none)

/-- `(*NodeTable).ItemsCount` -/
def itemsCount (t : Table) : Nat := t.fastHTCount + t.slowHTCount

/-- one API call, with the output the spec produces for the same call -/
def step (hash : Key → Hash) (keyOf : Ptr → Key) (t : Table) : MapSpec.Op → Table × MapSpec.Out
  | .update k p => let (t', u, o) := update hash keyOf t k p; (t', .updated u o)
  | .get k => (t, .got (get hash keyOf t k))
  | .remove k => let (t', s, p) := remove hash keyOf t k; (t', .removed s p)
  | .count => (t, .count (itemsCount t))

def runFrom (hash : Key → Hash) (keyOf : Ptr → Key) (t : Table) : List MapSpec.Op → Table × List MapSpec.Out
  | [] => (t, [])
  | op :: ops =>
    let (t1, o) := step hash keyOf t op
    let (t2, os) := runFrom hash keyOf t1 ops
    (t2, o :: os)

/-- `nodetable.New` followed by the calls -/
def run (hash : Key → Hash) (keyOf : Ptr → Key) (ops : List MapSpec.Op) : Table × List MapSpec.Out :=
  runFrom hash keyOf {} ops

end NitroVerif.Table
