/-
  M6 small-step — the MVCC layer of nitro (`nitro.go`, `iterator.go`) with its reclamation pipeline
  (garbage lists → collection workers → access barrier → free workers → allocator), steered at the
  yield points of PROTOCOL.md "engine mvccconc":
      PUT_INSERT  DEL_NODE_PHYS  DEL_NODE_CAS  DEL_NODE_FLUSH  COLLECT_SEND
      WORKER_RECV WORKER_NODE WORKER_FLUSH WORKER_DONE  FREE_RECV FREE_DONE   and skiplist ITER_NEXT.
  Everything between two yield points is one atomic segment: every skiplist operation (Insert2,
  DeleteNode, the GetNode lookup), every barrier operation (Acquire, Release, FlushSession with the
  destructor calls it triggers) and every reference-count step is ONE action (C13, C16/C17, C08
  justify this granularity).

  Abstractions (on top of those of `Model/Mvcc.lean`: keys/values are `Nat`, counters unbounded,
  the skiplist is its level-0 list):
  * a node is a version (`Mvcc.Ver`) plus a unique node id; "linked" = member of `store`.
    `unlinked` remembers the memory contents of the nodes that left the store (a `Delete2` parked at
    DEL_NODE_CAS does its compare-and-swap on the item memory whether or not the node is linked).
  * every item and every node is a block named by the node id (`Blk.item n`, `Blk.node n`), plus the
    two sentinels.  `allocd`/`freed` are the allocator's books in call order; a `free` of a block that
    is not live (never allocated, or freed before) is recorded in `bad`, never ignored.
  * the access barrier is abstract: a session has the list of its token holders (the real barrier
    keeps their number: `liveCount` = length of that list, C16 invariant B1), a `flushed` flag and
    the object attached by `FlushSession`.  `acquire` adds a holder to the current (last) session;
    `flush` closes the current session with a list attached and opens a new one; a flushed session
    without holders is terminated; terminated sessions are destructed strictly in session order as
    soon as every earlier one is destructed (`cleanup`, run after every release and flush: C16/C17).
    The destructor of a session with a non-nil list creates a free job.
    A token taken and given back inside one atomic segment on the current session (Insert3,
    GetNode's iterator, the collection worker's DeleteNode) has no effect and is not represented.
  * garbage lists, job lists and session objects are lists of node ids (the code chains the nodes
    through their `link` field; that a node is in at most one list is invariant `Own`).
  * `w.count--` of a winning same-epoch `DeleteNode` is a deferred statement that runs when
    `DeleteNode` returns (after DEL_NODE_FLUSH); `w.count` is private to the writer's goroutine and
    read only by `NewSnapshot`, which requires the writer to be idle, so the model performs the
    decrement in the DEL_NODE_PHYS segment already.
  * delta-file writing (`doDeltaWrite`) is inactive: no backup runs in this engine.
  Every decision of the Go code is evaluated through `Gen.*`.
-/
import NitroVerif.Model.Mvcc

namespace NitroVerif.MvccConc
open NitroVerif
open NitroVerif.Mvcc (Ver insCmp iterCmp existCmp SnapSt)

/-- a skiplist node: the item (a version) and the identity of the node -/
structure Node where
  ver : Ver
  id : Nat
deriving Repr, DecidableEq, Inhabited

/-- blocks handed out by the configured allocator -/
inductive Blk where
  | item (n : Nat)
  | node (n : Nat)
  | head
  | tail
deriving Repr, DecidableEq

structure Writer where
  count : Int
  gc : List Nat            -- gchead … gctail (node ids, append order)
deriving Repr

structure Snap where
  sn : Nat
  rc : Int
  count : Int
  gclist : List Nat
  st : SnapSt
  held : Bool              -- the script still holds the creation reference
deriving Repr

/-- who holds a barrier token: a `Delete2` of thread `t`, or iterator `i` of reader thread `t` -/
inductive Holder where
  | thr (t : Nat)
  | it (t i : Nat)
deriving Repr, DecidableEq

structure Sess where
  holders : List Holder
  flushed : Bool
  list : List Nat          -- the object attached by `FlushSession` (`[]` = nil)
deriving Repr

/-- the node under a cursor: its identity and the (immutable) key and birth epoch of its item -/
structure Cur where
  id : Nat
  key : Nat
  born : Nat
deriving Repr, DecidableEq

structure Iter where
  sn : Nat                 -- snapshot number
  tok : Nat                -- the session of its barrier token
  cur : Option Cur         -- `none`: not positioned / `Valid()` false
deriving Repr

/-- program counters of the logical threads (the yield point a thread is parked before) -/
inductive Pc where
  | idle
  | putInsert (n k v born : Nat)          -- item block `n` allocated, `bornSn` read
  | delPhys (n tok k : Nat)               -- `Delete2(k)`: node `n` found, same epoch; token of session `tok`
  | delFlush (n tok k : Nat)              -- node unlinked by this thread
  | delCas (n tok k : Nat)                -- node found, older epoch
  | collectSend (sn : Nat) (after : Option Nat)   -- collector; `after = some i`: inside `Iterator.Close` of iterator `i`
  | iterNext (i : Nat)                    -- iterator `i` of this thread inside `Next`
deriving Repr, DecidableEq

inductive GcPc where
  | recv | node | flush | done | finished
deriving Repr, DecidableEq

/-- a collection job: the garbage list is `done ++ todo` -/
structure GcJob where
  done : List Nat
  todo : List Nat
  pc : GcPc
deriving Repr

inductive FrPc where
  | recv | done | finished
deriving Repr, DecidableEq

structure FrJob where
  list : List Nat
  pc : FrPc
deriving Repr

structure State where
  store : List Node
  unlinked : List Node
  currSn : Nat
  lastGCSn : Nat
  itemsCount : Int
  writers : List Writer
  snaps : List Snap                    -- creation order; snapshot `s` of the script is `snaps[s-1]`, `sn = s`
  gcFlag : Bool                        -- isGCRunning
  sess : List Sess                     -- index = session id; the last one is the current session
  freeSeq : Nat                        -- sessions `< freeSeq` are destructed
  gcJobs : List GcJob                  -- index = j of `gc<j>`
  frJobs : List FrJob                  -- index = j of `fr<j>`
  threads : List Pc
  iters : List ((Nat × Nat) × Iter)    -- keyed by (thread, name)
  nextId : Nat
  allocd : List Blk
  freed : List Blk
  bad : List Blk
  down : Bool
  fixedIter : Bool                     -- `true`: the code as it is (`Gen.iteratorStoreCmp`); `false`: key-only iterators
deriving Repr

def init (nw nr : Nat) (fixedIter : Bool := true) : State :=
  { store := [], unlinked := [], currSn := 1, lastGCSn := 0, itemsCount := 0,
    writers := List.replicate nw ⟨0, []⟩, snaps := [], gcFlag := false,
    sess := [⟨[], false, []⟩], freeSeq := 0, gcJobs := [], frJobs := [],
    threads := List.replicate (nw + nr) .idle, iters := [], nextId := 0,
    allocd := [.head, .tail], freed := [], bad := [], down := false, fixedIter := fixedIter }

/-! ### yield points, responses -/

inductive Point where
  | PUT_INSERT | DEL_NODE_PHYS | DEL_NODE_CAS | DEL_NODE_FLUSH | COLLECT_SEND
  | WORKER_RECV | WORKER_NODE | WORKER_FLUSH | WORKER_DONE | FREE_RECV | FREE_DONE | ITER_NEXT
deriving Repr, DecidableEq

inductive Val where
  | unit
  | bool (b : Bool)
  | val (v : Option Nat)
  | ok
  | nil
  | item (c : Option (Nat × Nat))
deriving Repr, DecidableEq

inductive Resp where
  | at_ (p : Point)
  | ret (v : Val)
  | snap (sn : Nat) (count : Int)
  | closed (live badfree : Nat)
  | bad                      -- the script violates the protocol / the API contract: nothing happens
  | uaf                      -- the segment dereferences a block that is not live
  | hang                     -- `GC()` would spin: the collector stops but the re-check says "collectable"
deriving Repr, DecidableEq

/-! ### the physical store (level 0), by node -/

def vers (s : List Node) : List Ver := s.map (·.ver)

def findNode (s : List Node) (n : Nat) : Option Node := s.find? (fun x => x.id == n)

/-- skiplist `DeleteNode` having unlinked node `n` -/
def removeNode (s : List Node) (n : Nat) : List Node := s.filter (fun x => x.id != n)

/-- `CompareAndSwapUint32(&deadSn, 0, sn)` having succeeded on node `n` -/
def markDeadNode (s : List Node) (n sn : Nat) : List Node :=
  s.map (fun x => if x.id = n then { x with ver := { x.ver with dead := sn } } else x)

/-- level 0 of `findPath` (as `Mvcc.findPath`, on nodes) -/
def findPathN (cmp : Ver → Ver → Int) (probe : Ver) : List Node → List Node × List Node
  | [] => ([], [])
  | x :: xs =>
    if Gen.findAdvance (cmp x.ver probe) then
      (x :: (findPathN cmp probe xs).1, (findPathN cmp probe xs).2)
    else ([], x :: xs)

def foundAtN (cmp : Ver → Ver → Int) (probe : Ver) : List Node → Option Node
  | [] => none
  | x :: _ => if Gen.findFound (cmp x.ver probe) then some x else none

/-- the search shared by `Insert4` and `Iterator.SeekWithCmp` (as `Mvcc.lookup`, on nodes) -/
def lookupN (store : List Node) (probe : Ver) : Option Node :=
  match foundAtN insCmp probe (findPathN insCmp probe store).2 with
  | some x => some x
  | none =>
    match (findPathN insCmp probe store).1.getLast? with
    | some p => if existCmp probe p.ver = 0 then some p else none
    | none => none

def insertN (store : List Node) (x : Node) : List Node :=
  (findPathN insCmp x.ver store).1 ++ x :: (findPathN insCmp x.ver store).2

/-- the node after linked node `x` on level 0 -/
def succN (store : List Node) (x : Node) : Option Node :=
  store.find? (fun y => Mvcc.insLt x.ver y.ver)

/-- `findPath` from the top with comparator `cmp` for the item `(k, b)`: `succs[0]` -/
def seekN (cmp : Ver → Ver → Int) (store : List Node) (k b : Nat) : Option Node :=
  (findPathN cmp ⟨k, 0, b, 0⟩ store).2.head?

/-! ### small helpers -/

def setPc (σ : State) (t : Nat) (pc : Pc) : State := { σ with threads := σ.threads.set t pc }

def updWriter (w : Nat) (f : Writer → Writer) (l : List Writer) : List Writer :=
  match l[w]? with
  | some x => l.set w (f x)
  | none => l

def updSnap (s : Nat) (f : Snap → Snap) (l : List Snap) : List Snap :=
  l.map (fun x => if x.sn = s then f x else x)

def findSnap (s : Nat) (l : List Snap) : Option Snap := l.find? (fun x => x.sn == s)

def findIter (k : Nat × Nat) (l : List ((Nat × Nat) × Iter)) : Option Iter :=
  (l.find? (fun p => p.1 == k)).map (·.2)

def eraseIter (k : Nat × Nat) (l : List ((Nat × Nat) × Iter)) : List ((Nat × Nat) × Iter) :=
  l.filter (fun p => p.1 != k)

def setIter (k : Nat × Nat) (it : Iter) (l : List ((Nat × Nat) × Iter)) : List ((Nat × Nat) × Iter) :=
  eraseIter k l ++ [(k, it)]

/-! ### the allocator's books -/

def isLive (σ : State) (b : Blk) : Bool := σ.allocd.contains b && !σ.freed.contains b

def alloc (σ : State) (b : Blk) : State := { σ with allocd := σ.allocd ++ [b] }

def free (σ : State) (b : Blk) : State :=
  if isLive σ b then { σ with freed := σ.freed ++ [b] } else { σ with bad := σ.bad ++ [b] }

/-- `freeItem` then `FreeNode` of every node of a list -/
def freeNodes (σ : State) : List Nat → State
  | [] => σ
  | n :: r => freeNodes (free (free σ (.item n)) (.node n)) r

/-! ### the abstract access barrier -/

def Sess.terminated (s : Sess) : Bool := s.flushed && s.holders.isEmpty

/-- the sessions that can be destructed now, in order -/
def readySess (sess : List Sess) (freeSeq : Nat) : List Sess := (sess.drop freeSeq).takeWhile Sess.terminated

/-- the destructor (`newBSDestructor`) hands a non-nil list to the free workers -/
def newFrJobs (ready : List Sess) : List FrJob :=
  (ready.filter (fun s => !s.list.isEmpty)).map (fun s => ⟨s.list, .recv⟩)

/-- destruct every session that is terminated and has no undestructed predecessor -/
def cleanup (σ : State) : State :=
  { σ with freeSeq := σ.freeSeq + (readySess σ.sess σ.freeSeq).length,
           frJobs := σ.frJobs ++ newFrJobs (readySess σ.sess σ.freeSeq) }

/-- the current session -/
def curTok (σ : State) : Nat := σ.sess.length - 1

def acqSess (sess : List Sess) (h : Holder) : List Sess :=
  sess.modify (sess.length - 1) (fun s => { s with holders := s.holders ++ [h] })

def relSess (sess : List Sess) (tok : Nat) (h : Holder) : List Sess :=
  sess.modify tok (fun s => { s with holders := s.holders.erase h })

def flushSess (sess : List Sess) (list : List Nat) : List Sess :=
  sess.modify (sess.length - 1) (fun s => { s with flushed := true, list := list }) ++ [⟨[], false, []⟩]

/-- `Acquire`: a token of the current session (`curTok`) -/
def acquire (σ : State) (h : Holder) : State := { σ with sess := acqSess σ.sess h }

/-- `Release` of the token of session `tok` held by `h` -/
def release (σ : State) (tok : Nat) (h : Holder) : State := cleanup { σ with sess := relSess σ.sess tok h }

/-- `FlushSession(list)` -/
def flush (σ : State) (list : List Nat) : State := cleanup { σ with sess := flushSess σ.sess list }

/-! ### writers -/

def probe (σ : State) (k v : Nat) : Ver := ⟨k, v, σ.currSn, 0⟩

def isWriter (σ : State) (t : Nat) : Bool := decide (t < σ.writers.length)
def isReader (σ : State) (t : Nat) : Bool := decide (σ.writers.length ≤ t) && decide (t < σ.threads.length)
def isIdle (σ : State) (t : Nat) : Bool := σ.threads[t]? == some .idle

/-- `start t put k v`: `newItem`, `bornSn := currSn`, up to PUT_INSERT -/
def startPut (σ : State) (t k v : Nat) : State × Resp :=
  (setPc { (alloc σ (.item σ.nextId)) with nextId := σ.nextId + 1 } t (.putInsert σ.nextId k v σ.currSn),
   .at_ .PUT_INSERT)

/-- PUT_INSERT: `Insert2` (node allocation, search, exists-check, link or free), `count++` or `freeItem` -/
def stepPut (σ : State) (t n k v born : Nat) : State × Resp :=
  if !isLive σ (.item n) then (σ, .uaf) else
  let σ1 := alloc σ (.node n)
  match lookupN σ1.store ⟨k, v, born, 0⟩ with
  | some _ => (setPc (free (free σ1 (.node n)) (.item n)) t .idle, .ret (.bool false))
  | none =>
    (setPc { σ1 with store := insertN σ1.store ⟨⟨k, v, born, 0⟩, n⟩,
                     writers := updWriter t (fun x => { x with count := x.count + 1 }) σ1.writers } t .idle,
     .ret (.bool true))

/-- `start t get k`: `GetNode` -/
def startGet (σ : State) (_t k : Nat) : State × Resp :=
  (σ, .ret (.val ((lookupN σ.store (probe σ k 0)).map (·.ver.val))))

/-- `start t del k`: `Acquire`, `GetNode`, the same-epoch test of `DeleteNode` -/
def startDel (σ : State) (t k : Nat) : State × Resp :=
  match lookupN σ.store (probe σ k 0) with
  | none => (release (acquire σ (.thr t)) (curTok σ) (.thr t), .ret (.bool false))
  | some x =>
    if Gen.sameEpoch x.ver.born σ.currSn then
      (setPc (acquire σ (.thr t)) t (.delPhys x.id (curTok σ) k), .at_ .DEL_NODE_PHYS)
    else (setPc (acquire σ (.thr t)) t (.delCas x.id (curTok σ) k), .at_ .DEL_NODE_CAS)

/-- DEL_NODE_PHYS: skiplist `DeleteNode`; the winner goes on to flush -/
def stepDelPhys (σ : State) (t n tok k : Nat) : State × Resp :=
  if !isLive σ (.node n) then (σ, .uaf) else
  match findNode σ.store n with
  | some x =>
    (setPc { σ with store := removeNode σ.store n, unlinked := σ.unlinked ++ [x],
                    writers := updWriter t (fun y => { y with count := y.count - 1 }) σ.writers }
        t (.delFlush n tok k),
     .at_ .DEL_NODE_FLUSH)
  | none => (setPc (release σ tok (.thr t)) t .idle, .ret (.bool false))

/-- DEL_NODE_FLUSH: `FlushSession(node)`, then `Delete2`'s deferred `Release` -/
def stepDelFlush (σ : State) (t n tok : Nat) : State × Resp :=
  (setPc (release (flush σ [n]) tok (.thr t)) t .idle, .ret (.bool true))

/-- DEL_NODE_CAS: the compare-and-swap on `deadSn`; the winner appends the node to its garbage list -/
def casWin (σ : State) (t n tok : Nat) : State × Resp :=
  (setPc (release { σ with writers := updWriter t (fun y => { count := y.count - 1, gc := y.gc ++ [n] }) σ.writers }
            tok (.thr t)) t .idle,
   .ret (.bool true))

def casLose (σ : State) (t tok : Nat) : State × Resp :=
  (setPc (release σ tok (.thr t)) t .idle, .ret (.bool false))

def stepDelCas (σ : State) (t n tok : Nat) : State × Resp :=
  if !(isLive σ (.item n) && isLive σ (.node n)) then (σ, .uaf) else
  match findNode σ.store n with
  | some x =>
    if x.ver.dead = 0 then casWin { σ with store := markDeadNode σ.store n σ.currSn } t n tok
    else casLose σ t tok
  | none =>
    match findNode σ.unlinked n with
    | some x =>
      if x.ver.dead = 0 then casWin { σ with unlinked := markDeadNode σ.unlinked n σ.currSn } t n tok
      else casLose σ t tok
    | none => casLose σ t tok

/-! ### snapshots, the collector -/

/-- `NewSnapshot` -/
def snap (σ : State) : State × Resp :=
  let gclist := (σ.writers.reverse.map (·.gc)).flatten
  let items := σ.itemsCount + (σ.writers.map (·.count)).sum
  ({ σ with writers := σ.writers.map (fun _ => ⟨0, []⟩), itemsCount := items,
            snaps := σ.snaps ++ [⟨σ.currSn, 1, items, gclist, .live, true⟩], currSn := σ.currSn + 1 },
   .snap σ.currSn items)

/-- head of the retired list (`gcsnapshots` is ordered by `sn`) -/
def retiredHead (snaps : List Snap) : Option Snap := snaps.find? (fun s => s.st == .retired)

/-- `collectDead` at COLLECT_READ: the snapshot it will send next, if any -/
def collectable (σ : State) : Option Snap :=
  match retiredHead σ.snaps with
  | some s => if Gen.gcStop s.sn σ.lastGCSn then none else some s
  | none => none

/-- `hasCollectableSnapshot` -/
def recheck (σ : State) : Bool :=
  match retiredHead σ.snaps with
  | some s => Gen.collectableHead s.sn σ.lastGCSn
  | none => false

/-- the end of `Snapshot.Close` / `Iterator.Close` -/
def finishClose (σ : State) (t : Nat) (after : Option Nat) : State × Resp :=
  match after with
  | none => (setPc σ t .idle, .ret .unit)
  | some i =>
    match findIter (t, i) σ.iters with
    | some it => (setPc (release { σ with iters := eraseIter (t, i) σ.iters } it.tok (.it t i)) t .idle, .ret .unit)
    | none => (setPc σ t .idle, .ret .unit)

/-- the collector holding `isGCRunning`, at COLLECT_READ -/
def collectLoop (σ : State) (t : Nat) (after : Option Nat) : State × Resp :=
  match collectable σ with
  | some s => (setPc { σ with gcFlag := true } t (.collectSend s.sn after), .at_ .COLLECT_SEND)
  | none =>
    -- `collectDead` returns, the flag is dropped, the re-check decides
    if recheck σ then (σ, .hang) else finishClose { σ with gcFlag := false } t after

/-- `GC()`: the try-lock fails when another collector holds the flag -/
def runGC (σ : State) (t : Nat) (after : Option Nat) : State × Resp :=
  if σ.gcFlag then finishClose σ t after else collectLoop σ t after

/-- `Snapshot.Close` on snapshot `s` with reference count `rc` -/
def closeRef (σ : State) (t s : Nat) (rc : Int) (after : Option Nat) : State × Resp :=
  if Gen.closeRetire (rc - 1) then
    runGC { σ with snaps := updSnap s (fun y => { y with rc := y.rc - 1, st := .retired }) σ.snaps } t after
  else
    finishClose { σ with snaps := updSnap s (fun y => { y with rc := y.rc - 1 }) σ.snaps } t after

/-- `start t close s` -/
def startClose (σ : State) (t s : Nat) : State × Resp :=
  match findSnap s σ.snaps with
  | some x =>
    if x.held then
      closeRef { σ with snaps := updSnap s (fun y => { y with held := false }) σ.snaps } t s x.rc none
    else (σ, .bad)
  | none => (σ, .bad)

/-- COLLECT_SEND: `lastGCSn := sn`, the garbage list goes to the workers, the snapshot leaves the
    retired list; then COLLECT_READ again -/
def stepCollect (σ : State) (t sn : Nat) (after : Option Nat) : State × Resp :=
  match findSnap sn σ.snaps with
  | some x =>
    collectLoop { σ with lastGCSn := sn, gcJobs := σ.gcJobs ++ [⟨[], x.gclist, .recv⟩],
                         snaps := updSnap sn (fun y => { y with st := .collected }) σ.snaps } t after
  | none => (σ, .bad)

/-! ### readers -/

/-- `start t it_new i s`: `Snapshot.Open`, skiplist `NewIterator` (= `Acquire`) -/
def itNew (σ : State) (t i s : Nat) : State × Resp :=
  match findSnap s σ.snaps, findIter (t, i) σ.iters with
  | some x, none =>
    if Gen.openRefuse x.rc then (σ, .ret .nil)
    else
      ({ (acquire σ (.it t i)) with
            snaps := updSnap s (fun y => { y with rc := y.rc + 1 }) σ.snaps,
            iters := setIter (t, i) ⟨s, curTok σ, none⟩ σ.iters }, .ret .ok)
  | _, _ => (σ, .bad)

/-- the cursor has landed on `land` (`none` = the tail): `skipUnwanted` decides -/
def landOn (σ : State) (t i : Nat) (it : Iter) (land : Option Node) : State × Resp :=
  match land with
  | none => (setPc { σ with iters := setIter (t, i) { it with cur := none } σ.iters } t .idle, .ret (.item none))
  | some y =>
    if Gen.skipUnwanted y.ver.born y.ver.dead it.sn then
      (setPc { σ with iters := setIter (t, i) { it with cur := some ⟨y.id, y.ver.key, y.ver.born⟩ } σ.iters } t (.iterNext i),
       .at_ .ITER_NEXT)
    else
      (setPc { σ with iters := setIter (t, i) { it with cur := some ⟨y.id, y.ver.key, y.ver.born⟩ } σ.iters } t .idle,
       .ret (.item (some (y.ver.key, y.ver.val))))

/-- `start t it_first i`: `SeekFirst`, `skipUnwanted` -/
def itFirst (σ : State) (t i : Nat) : State × Resp :=
  match findIter (t, i) σ.iters with
  | some it => landOn σ t i it σ.store.head?
  | none => (σ, .bad)

/-- `start t it_next i`: `Next` up to its ITER_NEXT -/
def itNext (σ : State) (t i : Nat) : State × Resp :=
  match findIter (t, i) σ.iters with
  | some it =>
    match it.cur with
    | some _ => (setPc σ t (.iterNext i), .at_ .ITER_NEXT)
    | none => (σ, .bad)
  | none => (σ, .bad)

/-- the comparator the snapshot iterators give their skiplist iterator (`NewIterator`): the insert
    comparator in the code as it is; the key-only comparator before the fix -/
def iterStoreCmp (σ : State) : Ver → Ver → Int :=
  if σ.fixedIter then Mvcc.cmpOf Gen.iteratorStoreCmp else iterCmp

/-- ITER_NEXT: skiplist `Iterator.Next` from the node under the cursor — the successor if that
    node is still linked, else (the unlink attempt `helpDelete` fails on a node unlinked already) a
    fresh `findPath` from the top for the item under the cursor with the iterator's comparator
    (`it.cmp`), landing on `succs[0]` — then `skipUnwanted` -/
def stepIter (σ : State) (t i : Nat) : State × Resp :=
  match findIter (t, i) σ.iters with
  | some it =>
    match it.cur with
    | some c =>
      if !isLive σ (.node c.id) then (σ, .uaf) else
      match findNode σ.store c.id with
      | some x => landOn σ t i it (succN σ.store x)
      | none =>
        if !isLive σ (.item c.id) then (σ, .uaf) else landOn σ t i it (seekN (iterStoreCmp σ) σ.store c.key c.born)
    | none => (σ, .bad)
  | none => (σ, .bad)

/-- `start t it_close i`: `Snapshot.Close` (may collect), then the token goes back -/
def itClose (σ : State) (t i : Nat) : State × Resp :=
  match findIter (t, i) σ.iters with
  | some it =>
    match findSnap it.sn σ.snaps with
    | some x => closeRef σ t it.sn x.rc (some i)
    | none => (σ, .bad)
  | none => (σ, .bad)

/-! ### the API actions and the step of a parked thread -/

def stepThread (σ : State) (t : Nat) : State × Resp :=
  match σ.threads[t]? with
  | some (.putInsert n k v born) => stepPut σ t n k v born
  | some (.delPhys n tok k) => stepDelPhys σ t n tok k
  | some (.delFlush n tok _) => stepDelFlush σ t n tok
  | some (.delCas n tok _) => stepDelCas σ t n tok
  | some (.collectSend sn after) => stepCollect σ t sn after
  | some (.iterNext i) => stepIter σ t i
  | _ => (σ, .bad)

/-! ### jobs -/

def setGc (σ : State) (j : Nat) (job : GcJob) : State := { σ with gcJobs := σ.gcJobs.set j job }
def setFr (σ : State) (j : Nat) (job : FrJob) : State := { σ with frJobs := σ.frJobs.set j job }

/-- the step of collection job `j` -/
def stepGc (σ : State) (j : Nat) : State × Resp :=
  match σ.gcJobs[j]? with
  | some job =>
    match job.pc with
    | .recv =>
      if job.todo.isEmpty then (setGc σ j { job with pc := .flush }, .at_ .WORKER_FLUSH)
      else (setGc σ j { job with pc := .node }, .at_ .WORKER_NODE)
    | .node =>
      match job.todo with
      | n :: r =>
        if !isLive σ (.node n) then (σ, .uaf) else
        let σ1 : State :=
          match findNode σ.store n with
          | some x => { σ with store := removeNode σ.store n, unlinked := σ.unlinked ++ [x] }
          | none => σ         -- skiplist DeleteNode on a node unlinked already fails harmlessly
        if r.isEmpty then (setGc σ1 j ⟨job.done ++ [n], r, .flush⟩, .at_ .WORKER_FLUSH)
        else (setGc σ1 j ⟨job.done ++ [n], r, .node⟩, .at_ .WORKER_NODE)
      | [] => (setGc σ j { job with pc := .flush }, .at_ .WORKER_FLUSH)
    | .flush => (setGc (flush σ (job.done ++ job.todo)) j { job with pc := .done }, .at_ .WORKER_DONE)
    | .done => (setGc σ j { job with pc := .finished }, .ret .unit)
    | .finished => (σ, .bad)
  | none => (σ, .bad)

/-- the step of free job `j` -/
def stepFr (σ : State) (j : Nat) : State × Resp :=
  match σ.frJobs[j]? with
  | some job =>
    match job.pc with
    | .recv => (setFr (freeNodes σ job.list) j { job with pc := .done }, .at_ .FREE_DONE)
    | .done => (setFr σ j { job with pc := .finished }, .ret .unit)
    | .finished => (σ, .bad)
  | none => (σ, .bad)

/-! ### shutdown -/

def gcPending (j : GcJob) : Bool := j.pc != .finished
def frPending (j : FrJob) : Bool := j.pc != .finished

/-- nothing in progress, no job pending, every snapshot and iterator released -/
def quiescent (σ : State) : Bool :=
  σ.threads.all (· == .idle) && !σ.gcJobs.any gcPending && !σ.frJobs.any frPending &&
  σ.iters.isEmpty && σ.snaps.all (fun s => !s.held)

def liveCount (σ : State) : Nat := σ.allocd.length - σ.freed.length

/-- `Nitro.Close()`: every node still linked is freed (item, node), then the sentinels -/
def shutdown (σ : State) : State × Resp :=
  if quiescent σ then
    let σ1 := free (free (freeNodes σ (σ.store.map (·.id))) .head) .tail
    ({ σ1 with down := true }, .closed (liveCount σ1) σ1.bad.length)
  else (σ, .bad)

/-! ### the steered machine -/

inductive Act where
  | snap
  | put (t k v : Nat)
  | del (t k : Nat)
  | get (t k : Nat)
  | close (t s : Nat)
  | itNew (t i s : Nat)
  | itFirst (t i : Nat)
  | itNext (t i : Nat)
  | itClose (t i : Nat)
  | step (t : Nat)
  | gc (j : Nat)
  | fr (j : Nat)
  | shutdown
deriving Repr, DecidableEq

def writersIdle (σ : State) : Bool := (σ.threads.take σ.writers.length).all (· == .idle)

def step (σ : State) (a : Act) : State × Resp :=
  if σ.down then (σ, .bad) else
  match a with
  | .snap => if writersIdle σ then snap σ else (σ, .bad)
  | .put t k v => if isWriter σ t && isIdle σ t then startPut σ t k v else (σ, .bad)
  | .del t k => if isWriter σ t && isIdle σ t then startDel σ t k else (σ, .bad)
  | .get t k => if isWriter σ t && isIdle σ t then startGet σ t k else (σ, .bad)
  | .close t s => if isIdle σ t then startClose σ t s else (σ, .bad)
  | .itNew t i s => if isReader σ t && isIdle σ t then itNew σ t i s else (σ, .bad)
  | .itFirst t i => if isReader σ t && isIdle σ t then itFirst σ t i else (σ, .bad)
  | .itNext t i => if isReader σ t && isIdle σ t then itNext σ t i else (σ, .bad)
  | .itClose t i => if isReader σ t && isIdle σ t then itClose σ t i else (σ, .bad)
  | .step t => stepThread σ t
  | .gc j => stepGc σ j
  | .fr j => stepFr σ j
  | .shutdown => shutdown σ

def run (σ : State) : List Act → State
  | [] => σ
  | a :: as => run (step σ a).1 as

def outs (σ : State) : List Act → List Resp
  | [] => []
  | a :: as => (step σ a).2 :: outs (step σ a).1 as

/-- states reachable from the initial state of an instance with `nw` writers and `nr` readers
    (`fx = true`: the code as it is; `fx = false`: key-only snapshot iterators, the code before the fix) -/
inductive ReachableFx (fx : Bool) (nw nr : Nat) : State → Prop where
  | init : ReachableFx fx nw nr (init nw nr fx)
  | step {σ : State} (a : Act) : ReachableFx fx nw nr σ → ReachableFx fx nw nr (step σ a).1

/-- reachable states of the code as it is -/
abbrev Reachable (nw nr : Nat) : State → Prop := ReachableFx true nw nr

end NitroVerif.MvccConc
