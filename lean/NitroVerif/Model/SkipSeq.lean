import NitroVerif.Gen.Guards
/-!
  M3 `SkipSeq` — the `skiplist` package (`skiplist.go`, `iterator.go`, `builder.go`, `merger.go`,
  `stats.go`, `item.go`) run by ONE goroutine, as a pointer-level heap.

  Representation
  * A node is a record `key / level / next`, `next[l] = (pointer, deleted flag)` exactly like the
    `NodeRef` word that `getNext` / `dcasNext` read and swap.  The heap is the list of all nodes ever
    allocated, a pointer is an index into it.  Index `0` is the nil pointer (a dummy node with no
    links sits there so that every function is total), `1` is `s.head`, `2` is `s.tail`.
  * `findPath` is the Go loop nest flattened into one state machine (`findLoop`) with explicit fuel;
    one unit of fuel = one evaluation of `curr.getNext(i)` at the top of `levelSearch`.  The inner
    `for deleted { helpDelete; re-read }` loop re-enters the same state after a successful
    `helpDelete` (Go re-reads `curr` and `curr.getNext(i)` there as well), `goto retry` restarts from
    `s.head` at the freshly read `s.level`.
  * Every CAS (`dcasNext`, the CAS on `s.level`) is modelled as a compare-and-set on the heap, and the
    failure branches of the Go code are kept (they need fuel, see `stuck`), although one goroutine
    never takes them — that they are not taken is part of what the lemmas prove.
  * `stuck` is set when a fuel-bounded loop runs out of fuel; the theorems show it never happens.

  Abstractions (deliberate)
  * items are integers (`Key.item k`), `CompareInt` is `this - that` on unbounded integers (no int
    wrap-around); `MinItem` / `MaxItem` are `Key.min` / `Key.max` and `compare` treats them as coded;
  * `int32`/`int64` counters are unbounded (`Nat`/`Int`); memory bytes (`usedBytes`) are not modelled;
  * Go-managed memory: `freeNode` is a no-op and `nodeFrees` never moves; the access barrier
    (`Acquire`/`Release`) has no effect in this configuration and is left out;
  * `Insert2` is called with `eqCmp = nil`, `skipFindPath = false`, `dealloc = true`;
  * one `ActionBuffer` per skiplist (kept in the state); entries above the list level are stale in Go
    and are never read there either;
  * the iterator's SMR refresh (`count % smrInterval`, interval `^uint(0)`) never fires and is left out;
  * the merge iterator's `container/heap` is a list of `(iterator index, node)` with extract-min
    (first minimal entry in list order); Go's heap is trusted, equal keys print equal.
-/
namespace NitroVerif.SkipSeq
open NitroVerif

/-! ## items and the sentinel comparison (`item.go`) -/

inductive Key where
  | min
  | item (k : Int)
  | max
deriving DecidableEq, Repr

/-- `CompareInt` on two real items: `int(*thisItem - *thatItem)` -/
def cmpItem : Key → Key → Int
  | .item a, .item b => a - b
  | _, _ => 0

/-- `item.go compare` : the sentinels are decided before the user comparator is called -/
def compare (this that : Key) : Int :=
  if this = .min ∨ that = .max then -1
  else if this = .max ∨ that = .min then 1
  else cmpItem this that

/-! ## nodes and the heap (`node_amd64.go`) -/

structure Node where
  key : Key
  level : Nat
  next : List (Nat × Bool)
deriving Repr

abbrev Heap := List Node

def nilId : Nat := 0
def headId : Nat := 1
def tailId : Nat := 2

/-- `n.getNext(l)` : pointer and deleted flag, read together -/
def getNext (h : Heap) (n l : Nat) : Nat × Bool :=
  match h[n]? with
  | some nd => nd.next.getD l (0, false)
  | none => (0, false)

/-- raw store of a `NodeRef` word -/
def setNext (h : Heap) (n l : Nat) (v : Nat × Bool) : Heap :=
  match h[n]? with
  | some nd => h.set n { nd with next := nd.next.set l v }
  | none => h

def keyOf (h : Heap) (n : Nat) : Key :=
  match h[n]? with
  | some nd => nd.key
  | none => .max

/-- `n.Level()` -/
def levelOf (h : Heap) (n : Nat) : Nat :=
  match h[n]? with
  | some nd => nd.level
  | none => 0

/-- `n.dcasNext(l, prevPtr, newPtr, false, newIsdeleted)` : the expected word is `prevPtr` with the
    flag clear (the Go code ignores `prevIsdeleted` and always passes `false`) -/
def dcasNext (h : Heap) (n l prevPtr newPtr : Nat) (newDel : Bool) : Heap × Bool :=
  if getNext h n l = (prevPtr, false) then (setNext h n l (newPtr, newDel), true) else (h, false)

/-! ## statistics (`stats.go`) -/

structure Stats where
  levelNodesCount : List Int
  softDeletes : Int
  nodeAllocs : Int
  nodeFrees : Int
  readConflicts : Nat
  insertConflicts : Nat
deriving Repr

def Stats.zero : Stats :=
  { levelNodesCount := List.replicate (Gen.maxLevel + 1) 0, softDeletes := 0, nodeAllocs := 0,
    nodeFrees := 0, readConflicts := 0, insertConflicts := 0 }

/-- `AddInt64(&arr[i], v)` -/
def addAt (l : List Int) (i : Nat) (v : Int) : List Int := l.set i (l.getD i 0 + v)

/-- pointwise sum of two distributions (used by `Stats.Merge`) -/
def addDist : List Int → List Int → List Int
  | a :: r, b :: t => (a + b) :: addDist r t
  | r, [] => r
  | [], _ => []

/-- `s.Merge(sts)` : global += partial (the caller resets the partial one) -/
def Stats.merge (s sts : Stats) : Stats :=
  { levelNodesCount := addDist s.levelNodesCount sts.levelNodesCount
    softDeletes := s.softDeletes + sts.softDeletes
    nodeAllocs := s.nodeAllocs + sts.nodeAllocs
    nodeFrees := s.nodeFrees + sts.nodeFrees
    readConflicts := s.readConflicts + sts.readConflicts
    insertConflicts := s.insertConflicts + sts.insertConflicts }

/-! ## the skiplist -/

/-- `ActionBuffer` : `preds` / `succs`, `MaxLevel+1` entries each -/
structure Buf where
  preds : List Nat
  succs : List Nat
deriving Repr

structure SL where
  nodes : Heap
  level : Nat
  stats : Stats
  buf : Buf
  stuck : Bool
deriving Repr

/-- `NewWithConfig` : head and tail of level `MaxLevel`, `head.next[i] = tail`, `tail.next[i] = nil` -/
def SL.init : SL :=
  { nodes := [ { key := .max, level := 0, next := [] },
               { key := .min, level := Gen.maxLevel, next := List.replicate (Gen.maxLevel + 1) (tailId, false) },
               { key := .max, level := Gen.maxLevel, next := List.replicate (Gen.maxLevel + 1) (nilId, false) } ]
    level := 0
    stats := Stats.zero
    buf := { preds := List.replicate (Gen.maxLevel + 1) 0, succs := List.replicate (Gen.maxLevel + 1) 0 }
    stuck := false }

/-- `s.newNode(itm, level)` : a fresh node with `level+1` cleared links -/
def newNode (s : SL) (k : Key) (level : Nat) : SL × Nat :=
  ({ s with nodes := s.nodes ++ [{ key := k, level := level, next := List.replicate (level + 1) (nilId, false) }] },
   s.nodes.length)

/-- `NewLevel(randFn)` with a scripted random function that makes the draw loop run `req` times.
    The CAS on `s.level` is executed against the value just loaded, so with one goroutine it succeeds. -/
def newLevel (s : SL) (req : Nat) : SL × Nat :=
  let nextLevel := Gen.newLevelClamp req
  let level := s.level
  if Gen.newLevelBump nextLevel level then
    ({ s with level := level + 1 }, level + 1)
  else (s, nextLevel)

/-- `helpDelete(level, prev, curr, next, sts)` -/
def helpDelete (s : SL) (level prev curr next : Nat) : SL × Bool :=
  let r := dcasNext s.nodes prev level curr next false
  if Gen.helpAccounts r.2 level then
    ({ s with nodes := r.1,
              stats := { s.stats with
                softDeletes := s.stats.softDeletes - 1,
                levelNodesCount := addAt s.stats.levelNodesCount (levelOf r.1 curr) (-1) } }, r.2)
  else ({ s with nodes := r.1 }, r.2)

def SL.setBuf (s : SL) (i prev curr : Nat) : SL :=
  { s with buf := { preds := s.buf.preds.set i prev, succs := s.buf.succs.set i curr } }

def SL.addReadConflict (s : SL) : SL :=
  { s with stats := { s.stats with readConflicts := s.stats.readConflicts + 1 } }

def SL.addInsertConflict (s : SL) : SL :=
  { s with stats := { s.stats with insertConflicts := s.stats.insertConflicts + 1 } }

/-- The loop nest of `findPath`.  State: level `i`, `prev`, `curr`; result: the final state (with the
    buffer filled) and the last `cmpVal`. -/
def findLoop (k : Key) : Nat → SL → Nat → Nat → Nat → SL × Int
  | 0, s, _, _, _ => ({ s with stuck := true }, 1)
  | f + 1, s, i, prev, curr =>
    let nd := getNext s.nodes curr i                       -- next, deleted := curr.getNext(i)
    if nd.2 then                                           -- for deleted {
      let r := helpDelete s i prev curr nd.1
      if r.2 then
        findLoop k f r.1 i prev (getNext r.1.nodes prev i).1   -- curr, _ = prev.getNext(i); re-read
      else
        let s' := r.1.addReadConflict                      -- goto retry
        findLoop k f s' s'.level headId (getNext s'.nodes headId s'.level).1
    else
      let c := compare (keyOf s.nodes curr) k              -- cmpVal = compare(cmp, curr.Item(), itm)
      if Gen.findAdvance c then findLoop k f s i curr nd.1 -- prev = curr; curr = next
      else
        let s' := s.setBuf i prev curr                     -- buf.preds[i] = prev; buf.succs[i] = curr
        match i with
        | 0 => (s', c)
        | j + 1 => findLoop k f s' j prev (getNext s'.nodes prev j).1   -- i--; curr, _ := prev.getNext(i)

def findFuel (s : SL) : Nat := (s.level + 1) * (s.nodes.length + 3)

/-- `findPath(itm, cmp, buf, sts)` : returns the found node (`0` = nil) -/
def findPath (s : SL) (k : Key) : SL × Nat :=
  let r := findLoop k (findFuel s) s s.level headId (getNext s.nodes headId s.level).1
  (r.1, if Gen.findFound r.2 then r.1.buf.succs.getD 0 0 else nilId)

/-- `Lookup` : `found = findPath(..) != nil` -/
def lookup (s : SL) (k : Key) : SL × Bool :=
  let r := findPath s k
  (r.1, r.2 != nilId)

/-- `for i := 0; i <= itemLevel; i++ { x.setNext(i, buf.succs[i], false) }`; `n` = iterations left -/
def setNexts (x : Nat) : Nat → Nat → SL → SL
  | 0, _, s => s
  | n + 1, i, s => setNexts x n (i + 1) { s with nodes := setNext s.nodes x i (s.buf.succs.getD i 0, false) }

/-- the `for i := 1; i <= itemLevel; i++ { fixThisLevel: for {…} }` part of `Insert4`, up to `finished` -/
def linkUpper (k : Key) (x itemLevel : Nat) : Nat → SL → Nat → SL
  | 0, s, _ => { s with stuck := true }
  | f + 1, s, i =>
    if itemLevel < i then s else
    let nn := getNext s.nodes x i                          -- nodeNext, deleted := x.getNext(i)
    let next := s.buf.succs.getD i 0                       -- next := buf.succs[i]
    if nn.2 then s else                                    -- deleted → finished
    let r1 := if nn.1 != next then dcasNext s.nodes x i nn.1 next false else (s.nodes, true)
    if !r1.2 then { s with nodes := r1.1 } else            -- x.dcasNext failed → finished
    let r2 := dcasNext r1.1 (s.buf.preds.getD i 0) i next x false   -- buf.preds[i].dcasNext(i, next, x)
    let s2 := { s with nodes := r2.1 }
    if r2.2 then
      if (getNext s2.nodes x i).2 then (findPath s2 k).1   -- marked meanwhile: unlink again, finished
      else linkUpper k x itemLevel f s2 (i + 1)            -- break fixThisLevel
    else linkUpper k x itemLevel f (findPath s2 k).1 i     -- s.findPath(..); loop

/-- `Insert4(x, insCmp, nil, buf, itemLevel, false, true, sts)` -/
def insert4 (k : Key) (x itemLevel : Nat) : Nat → SL → SL × Nat × Bool
  | 0, s => ({ s with stuck := true }, nilId, false)
  | f + 1, s =>
    let r := findPath s k
    if r.2 != nilId then (r.1, r.2, false)                 -- found: s.freeNode(x) (no-op); return foundNode, false
    else
      let s2 := setNexts x (itemLevel + 1) 0 r.1
      let c := dcasNext s2.nodes (s2.buf.preds.getD 0 0) 0 (s2.buf.succs.getD 0 0) x false
      if !c.2 then insert4 k x itemLevel f ({ s2 with nodes := c.1 }).addInsertConflict   -- goto retry
      else
        let s3 := linkUpper k x itemLevel (itemLevel + 1 + s2.nodes.length) { s2 with nodes := c.1 } 1
        ({ s3 with stats := { s3.stats with
              nodeAllocs := s3.stats.nodeAllocs + 1,
              levelNodesCount := addAt s3.stats.levelNodesCount itemLevel 1 } }, x, true)

/-- `Insert2(itm, cmp, nil, buf, randFn, sts)` = `NewLevel`, `newNode` (in `Insert3`), `Insert4` -/
def insert2 (s : SL) (k : Key) (req : Nat) : SL × Nat × Bool :=
  let r := newLevel s req
  let a := newNode r.1 k r.2
  insert4 k a.2 r.2 (a.1.nodes.length + 1) a.1

/-- `softDelete(delNode, sts)`; state: level `i`, `marked` -/
def softLoop (d : Nat) : Nat → SL → Nat → Bool → SL × Bool
  | 0, s, _, m => ({ s with stuck := true }, m)
  | f + 1, s, i, m =>
    let nd := getNext s.nodes d i                          -- next, deleted := delNode.getNext(i)
    if nd.2 then
      match i with
      | 0 => (s, m)
      | j + 1 => softLoop d f s j m
    else
      let r := dcasNext s.nodes d i nd.1 nd.1 true         -- delNode.dcasNext(i, next, next, false, true)
      if Gen.softDeleteWins r.2 i then
        softLoop d f { s with nodes := r.1,
                              stats := { s.stats with softDeletes := s.stats.softDeletes + 1 } } i true
      else softLoop d f { s with nodes := r.1 } i m

def softDelete (s : SL) (d : Nat) : SL × Bool :=
  softLoop d (2 * (levelOf s.nodes d + 1)) s (levelOf s.nodes d) false

/-- `deleteNode(n, cmp, buf, sts)` -/
def deleteNode (s : SL) (n : Nat) : SL × Bool :=
  let itm := keyOf s.nodes n
  let r := softDelete s n
  if r.2 then ((findPath r.1 itm).1, true) else (r.1, false)

/-- `Delete(itm, cmp, buf, sts)` -/
def delete (s : SL) (k : Key) : SL × Bool :=
  let r := findPath s k
  if r.2 != nilId then deleteNode r.1 (r.1.buf.succs.getD 0 0) else (r.1, false)

/-! ## iterator (`iterator.go`) -/

structure Iter where
  prev : Nat
  curr : Nat
  valid : Bool
  deleted : Bool
deriving Repr

/-- `NewIterator` -/
def Iter.new : Iter := { prev := nilId, curr := nilId, valid := false, deleted := false }

/-- `SeekFirst` -/
def iterSeekFirst (s : SL) (it : Iter) : Iter :=
  { it with prev := headId, curr := (getNext s.nodes headId 0).1, valid := true }

/-- `Seek(itm)` -/
def iterSeek (s : SL) (it : Iter) (k : Key) : SL × Iter × Bool :=
  let r := findPath s k
  (r.1, { it with valid := true, prev := r.1.buf.preds.getD 0 0, curr := r.1.buf.succs.getD 0 0 }, r.2 != nilId)

/-- `Valid()` (it updates `it.valid`) -/
def iterValid (it : Iter) : Iter × Bool :=
  if it.valid && it.curr == tailId then ({ it with valid := false }, false) else (it, it.valid)

/-- the `retry:` block of `Next()` -/
def iterNextLoop : Nat → SL → Iter → SL × Iter
  | 0, s, it => ({ s with stuck := true }, it)
  | f + 1, s, it =>
    let it := { it with valid := true }
    let nd := getNext s.nodes it.curr 0
    if nd.2 then
      let r := helpDelete s 0 it.prev it.curr nd.1
      if r.2 then (r.1, { it with curr := nd.1 })
      else
        let s1 := r.1.addReadConflict
        let fr := findPath s1 (keyOf s1.nodes it.curr)
        let last := it.curr
        let it' := { it with prev := fr.1.buf.preds.getD 0 0, curr := fr.1.buf.succs.getD 0 0 }
        if fr.2 != nilId && last == it'.curr then iterNextLoop f fr.1 it' else (fr.1, it')
    else (s, { it with prev := it.curr, curr := nd.1 })

/-- `Next()` -/
def iterNext (s : SL) (it : Iter) : SL × Iter :=
  if it.deleted then (s, { it with deleted := false })
  else iterNextLoop (s.nodes.length + 1) s it

/-- `for it.SeekFirst(); it.Valid(); it.Next() { out = append(out, it.Get()) }` given the positioned
    iterator; collects the node under the cursor at every step -/
def scanLoop : Nat → SL → Iter → List Nat → SL × List Nat
  | 0, s, _, acc => ({ s with stuck := true }, acc.reverse)
  | f + 1, s, it, acc =>
    let v := iterValid it
    if v.2 then
      let r := iterNext s v.1
      scanLoop f r.1 r.2 (v.1.curr :: acc)
    else (s, acc.reverse)

/-- a complete scan: the nodes visited, in order -/
def scanAll (s : SL) : SL × List Nat :=
  scanLoop (s.nodes.length + 1) s (iterSeekFirst s Iter.new) []

/-! ## walks (the oracle's view of the structure) -/

/-- follow the level-`l` links from node `n` up to the tail: all nodes met (marked or not), or `none`
    if the tail is not reached within the fuel (nil link or cycle) -/
def walkFrom (h : Heap) (l : Nat) : Nat → Nat → Option (List Nat)
  | 0, _ => none
  | f + 1, n =>
    if n = tailId then some []
    else if n = nilId then none
    else (walkFrom h l f (getNext h n l).1).map (n :: ·)

/-- the level-`l` chain strictly between head and tail -/
def walkLevel (s : SL) (l : Nat) : Option (List Nat) :=
  walkFrom s.nodes l (s.nodes.length + 1) (getNext s.nodes headId l).1

/-- deleted flag of node `n` at level `l` -/
def markedAt (h : Heap) (l n : Nat) : Bool := (getNext h n l).2

/-! ## builder (`builder.go`) -/

/-- `Segment` : per-level `head` / `tail` (0 = nil) and the local statistics -/
structure Segment where
  head : List Nat
  tail : List Nat
  sts : Stats
deriving Repr

/-- `NewSegment` -/
def Segment.new : Segment :=
  { head := List.replicate (Gen.maxLevel + 1) nilId, tail := List.replicate (Gen.maxLevel + 1) nilId,
    sts := Stats.zero }

/-- the `for l := 0; l <= itemLevel; l++` loop of `Segment.Add`; `n` = iterations left -/
def segLink (x : Nat) : Nat → Nat → Heap → Segment → Heap × Segment
  | 0, _, h, seg => (h, seg)
  | n + 1, l, h, seg =>
    let t := seg.tail.getD l nilId
    let h' := if t != nilId then setNext h t l (x, false) else h          -- s.tail[l].setNext(l, x, false)
    let hd := if t != nilId then seg.head else seg.head.set l x            -- else s.head[l] = x
    segLink x n (l + 1) h' { seg with head := hd, tail := seg.tail.set l x }   -- s.tail[l] = x

/-- `Segment.Add(itm)` : `NewLevel` on the shared store, `newNode`, local statistics, linking -/
def segAdd (s : SL) (seg : Segment) (k : Key) (req : Nat) : SL × Segment :=
  let r := newLevel s req
  let a := newNode r.1 k r.2
  let sts := { seg.sts with nodeAllocs := seg.sts.nodeAllocs + 1,
                            levelNodesCount := addAt seg.sts.levelNodesCount r.2 1 }
  let lk := segLink a.2 (r.2 + 1) 0 a.1.nodes { seg with sts := sts }
  ({ a.1 with nodes := lk.1 }, lk.2)

/-- inner `for l := 0; l <= MaxLevel; l++` of `Assemble` for one segment; `n` = iterations left -/
def asmSeg (seg : Segment) : Nat → Nat → Heap → List Nat → List Nat → Heap × List Nat × List Nat
  | 0, _, h, head, tail => (h, head, tail)
  | n + 1, l, h, head, tail =>
    let t := tail.getD l nilId
    let sh := seg.head.getD l nilId
    let st := seg.tail.getD l nilId
    let h' := if t != nilId && sh != nilId then setNext h t l (sh, false) else h
    let head' := if t != nilId && sh != nilId then head
                 else if head.getD l nilId == nilId && sh != nilId then head.set l sh else head
    let tail' := if st != nilId then tail.set l st else tail
    asmSeg seg n (l + 1) h' head' tail'

/-- `for _, seg := range segments` -/
def asmSegs : List Segment → Heap → List Nat → List Nat → Heap × List Nat × List Nat
  | [], h, head, tail => (h, head, tail)
  | seg :: r, h, head, tail =>
    let a := asmSeg seg (Gen.maxLevel + 1) 0 h head tail
    asmSegs r a.1 a.2.1 a.2.2

/-- the second loop of `Assemble`: head and tail sentinels; `n` = iterations left -/
def asmEnds (head tail : List Nat) : Nat → Nat → Heap → Heap
  | 0, _, h => h
  | n + 1, l, h =>
    let hd := head.getD l nilId
    let tl := tail.getD l nilId
    let h1 := if hd != nilId then setNext h headId l (hd, false) else h
    let h2 := if tl != nilId then setNext h1 tl l (tailId, false) else h1
    asmEnds head tail n (l + 1) h2

/-- `b.store.Stats.Merge(&seg.sts)` for every segment -/
def mergeStats : List Segment → Stats → Stats
  | [], st => st
  | seg :: r, st => mergeStats r (st.merge seg.sts)

/-- `Builder.Assemble(segments...)` : the store, and the segments with their statistics reset -/
def assemble (s : SL) (segs : List Segment) : SL × List Segment :=
  let nil33 := List.replicate (Gen.maxLevel + 1) nilId
  let a := asmSegs segs s.nodes nil33 nil33
  let h := asmEnds a.2.1 a.2.2 (Gen.maxLevel + 1) 0 a.1
  ({ s with nodes := h, stats := mergeStats segs s.stats }, segs.map fun g => { g with sts := Stats.zero })

/-! ## merge iterator (`merger.go`) -/

/-- `MergeIterator` over iterators of the skiplists `sls` (iterator `i` runs over `sls[i]`);
    `h` is the heap's content as `(iterator index, node)`, `curr` the node under the cursor -/
structure MergeIt where
  sls : List SL
  iters : List Iter
  h : List (Nat × Nat)
  curr : Option (Nat × Nat)

def slAt (m : MergeIt) (i : Nat) : SL := m.sls.getD i SL.init
def itAt (m : MergeIt) (i : Nat) : Iter := m.iters.getD i Iter.new

/-- key of a heap entry -/
def entryKey (sls : List SL) (e : Nat × Nat) : Key := keyOf (sls.getD e.1 SL.init).nodes e.2

/-- `nodeHeap.Less` : `cmp(h[i].n.Item(), h[j].n.Item()) < 0` -/
def entryLess (sls : List SL) (a b : Nat × Nat) : Bool :=
  decide (compare (entryKey sls a) (entryKey sls b) < 0)

/-- the entry `heap.Pop` returns: a minimal one (here: the first minimal in list order) -/
def minEntry (sls : List SL) : Nat × Nat → List (Nat × Nat) → Nat × Nat
  | m, [] => m
  | m, e :: r => if entryLess sls e m then minEntry sls e r else minEntry sls m r

/-- `NewMergeIterator(iters)` with a fresh `NewIterator` per list -/
def MergeIt.new (sls : List SL) : MergeIt :=
  { sls := sls, iters := sls.map fun _ => Iter.new, h := [], curr := none }

/-- `Next()` -/
def mergeNext (m : MergeIt) : MergeIt :=
  match m.h with
  | [] => { m with curr := none }
  | e :: r =>
    let hi := minEntry m.sls e r                           -- heap.Pop
    let h1 := m.h.erase hi
    let nx := iterNext (slAt m hi.1) (itAt m hi.1)         -- hi.iter.Next()
    let v := iterValid nx.2                                -- hi.iter.Valid()
    { sls := m.sls.set hi.1 nx.1, iters := m.iters.set hi.1 v.1,
      h := if v.2 then h1 ++ [(hi.1, v.1.curr)] else h1,   -- heap.Push
      curr := some hi }

/-- the `for _, it := range mit.iters` loop of `SeekFirst`; `i` = index of the next iterator -/
def mergeSeekFirstLoop : Nat → Nat → MergeIt → MergeIt
  | 0, _, m => m
  | n + 1, i, m =>
    let it := iterSeekFirst (slAt m i) (itAt m i)
    let v := iterValid it
    mergeSeekFirstLoop n (i + 1)
      { m with iters := m.iters.set i v.1, h := if v.2 then m.h ++ [(i, v.1.curr)] else m.h }

/-- `SeekFirst()` -/
def mergeSeekFirst (m : MergeIt) : MergeIt :=
  let m0 := if Gen.mergeSeekFirstResets then { m with h := [] } else m      -- mit.h = mit.h[:0]
  mergeNext (mergeSeekFirstLoop m0.iters.length 0 m0)

/-- the loop of `Seek`; carries `found` -/
def mergeSeekLoop (k : Key) : Nat → Nat → MergeIt → Bool → MergeIt × Bool
  | 0, _, m, fnd => (m, fnd)
  | n + 1, i, m, fnd =>
    let r := iterSeek (slAt m i) (itAt m i) k
    let v := iterValid r.2.1
    mergeSeekLoop k n (i + 1)
      { m with sls := m.sls.set i r.1, iters := m.iters.set i v.1,
               h := if v.2 then m.h ++ [(i, v.1.curr)] else m.h }
      (fnd || r.2.2)

/-- `Seek(itm)` -/
def mergeSeek (m : MergeIt) (k : Key) : MergeIt × Bool :=
  let m0 := if Gen.mergeSeekResets then { m with h := [] } else m
  let r := mergeSeekLoop k m0.iters.length 0 m0 false
  (mergeNext r.1, r.2)

/-- `Valid()` -/
def MergeIt.valid (m : MergeIt) : Bool := m.curr.isSome

/-- key under the cursor -/
def MergeIt.key (m : MergeIt) : Option Key := m.curr.map (entryKey m.sls)

/-! ## the operations of engine `skipseq` on the main list (the part C13/C14 quantify over) -/

inductive Op where
  | ins (k : Int) (lvl : Nat)
  | del (k : Int)
  | look (k : Int)
  | getnode (k : Int) (h : String)
  | delnode (h : String)
  | iter
  | seek (k : Int)
deriving Repr, DecidableEq

inductive Out where
  | bool (b : Bool)                       -- ins, del, look, delnode
  | node (found : Bool)                   -- getnode
  | keys (ks : List Key)                  -- iter
  | seekAt (found : Bool) (pos : Option Key)   -- seek
  | bad                                   -- delnode of an unknown handle
deriving Repr, DecidableEq

/-- the main list and the node handles the script has taken (latest binding first) -/
structure St where
  sl : SL
  handles : List (String × Nat)

def St.init : St := { sl := SL.init, handles := [] }

def lookupHandle (hs : List (String × Nat)) (h : String) : Option Nat :=
  (hs.find? fun e => e.1 == h).map (·.2)

def step (st : St) : Op → St × Out
  | .ins k lvl =>
    let r := insert2 st.sl (.item k) lvl
    ({ st with sl := r.1 }, .bool r.2.2)
  | .del k =>
    let r := delete st.sl (.item k)
    ({ st with sl := r.1 }, .bool r.2)
  | .look k =>
    let r := lookup st.sl (.item k)
    ({ st with sl := r.1 }, .bool r.2)
  | .getnode k h =>
    let r := lookup st.sl (.item k)
    if r.2 then ({ sl := r.1, handles := (h, r.1.buf.succs.getD 0 0) :: st.handles }, .node true)
    else ({ st with sl := r.1 }, .node false)
  | .delnode h =>
    match lookupHandle st.handles h with
    | some n =>
      let r := deleteNode st.sl n
      ({ st with sl := r.1 }, .bool r.2)
    | none => (st, .bad)
  | .iter =>
    let r := scanAll st.sl
    ({ st with sl := r.1 }, .keys (r.2.map (keyOf r.1.nodes)))
  | .seek k =>
    let r := iterSeek st.sl Iter.new (.item k)
    let v := iterValid r.2.1
    ({ st with sl := r.1 }, .seekAt r.2.2 (if v.2 then some (keyOf r.1.nodes v.1.curr) else none))

/-- run a script, collecting the outputs -/
def run : St → List Op → St × List Out
  | st, [] => (st, [])
  | st, op :: ops =>
    let r := step st op
    let t := run r.1 ops
    (t.1, r.2 :: t.2)

end NitroVerif.SkipSeq
