import NitroVerif.Gen.Guards
/-!
  M5 — the lock-free skiplist of /repo/skiplist (skiplist.go, iterator.go, node_amd64.go, item.go)
  at compare-and-swap granularity, any number of threads, as an executable small-step model.

  One `step` of a thread executes, in program order, everything the Go code executes between two
  `verifYield` points (the shared-memory step the thread is parked before, then the reads / thread
  local work up to the next yield point or to the end of the call).

  What is modelled literally
  * `Node.getNext` / `Node.dcasNext`: one word per (node, level) holding successor and delete mark
    (`word?`, `getNext`, `dcas`); every `dcasNext` of the Go code passes `prevIsdeleted = false`,
    so `dcas` expects an unmarked word.
  * `compare` of item.go with the `MinItem` / `MaxItem` sentinels (`compare`), over `CompareInt`.
  * `findPath` (the `retry` on a failed `helpDelete`, the `for deleted` loop with its two re-reads in
    one segment, `cmpVal` kept across levels, `buf.preds/succs`), `helpDelete` and its accounting,
    `NewLevel`, `Insert3/Insert4` (retry after a failed publish, `fixThisLevel`, the check of the recorded
    successor's mark before the upper-level link, the re-check of the node's own mark after it, `finished`), `softDelete`, `deleteNode`, `Delete`, `Lookup`,
    `Iterator.SeekFirst/Seek/Next`.
  * The decisions `Gen.findAdvance`, `Gen.findFound`, `Gen.helpAccounts`, `Gen.softDeleteWins`,
    `Gen.newLevelClamp`, `Gen.newLevelBump`, `Gen.maxLevel` are CALLED, not restated.

  Abstractions (all stated here)
  * Items are natural numbers (`CompareInt` on them is the integer difference); `int32`/`int64`
    counters are unbounded `Int`/`Nat`; node addresses are indices into `heap`.
  * A node that Insert3 allocated but has not yet published is private to its thread (the Go code
    writes its `next` words with plain stores before the publish CAS).  The model keeps it in the
    thread (`item`, `lvl`) and materialises it in the heap AT the successful publish CAS with
    `next[i] = buf.succs[i]`, which is what `x.setNext(i, buf.succs[i], false)` has stored at that
    moment (`buf` is thread-private and not written between those stores and the CAS).  Hence every node
    of `heap` is published; "published n" is `n < heap.length`.  Node ids are never recycled
    (Insert3/Delete hold a barrier token, user-managed memory frees only through the barrier).
  * `tail.next[i] = nil`: the tail has no words (`next = []`); `getNext` of a missing word returns
    `(0, false)`, the value is never used (compare(tail, item) = 1 never advances, never helps).
  * `eqCmp = nil` (Insert2 as the harness calls it), `dealloc` frees the private node — invisible.
  * `Iterator.deleted` is never set in package skiplist.  `it.count` and `it.smrInterval` are modelled
    (`Iter.count`, `Iter.interval`, 0 = the initial `^uint(0)`): at the END of Next, after the cursor moved,
    `count++` and, when `count % interval == 0`, `Refresh()` (ITER_REFRESH, then Seek of the current item).  The public
    `Refresh()` called by the user (`Op.itRefresh`) enters at the same yield point without touching `count`.  The barrier (Acquire/Release) has no yield point here
    and no effect on the list; `usedBytes` is not printed by the protocol and not modelled.
  * Ghost state: `FP.startLen` (heap length when the findPath call started) is written once and never read by
    the model; it only serves to state "published before the search started" in the theorems.
  * `Iterator.Next`'s re-search passes `it.curr.Item()`; the driver refuses `it_next` (and `it_refresh`) unless the
    cursor is on a real item (Valid()), so `itemOfKey` is only applied to `Key.fin`.
-/
namespace NitroVerif.SkipConc
open NitroVerif

/-- item of a node: `MinItem` (head), a user item, `MaxItem` (tail) -/
inductive Key where
  | neg
  | fin (k : Nat)
  | pos
deriving DecidableEq, Repr, Inhabited

structure Node where
  key : Key
  height : Nat
  /-- per level: successor id and delete mark (one CAS word) -/
  next : List (Nat × Bool)
deriving Repr, Inhabited

abbrev Heap := List Node

/-- item.go `compare` on top of `CompareInt` -/
def compare (this that : Key) : Int :=
  if this = .neg ∨ that = .pos then -1
  else if this = .pos ∨ that = .neg then 1
  else match this, that with
    | .fin a, .fin b => (a : Int) - (b : Int)
    | _, _ => 0

def word? (h : Heap) (n l : Nat) : Option (Nat × Bool) :=
  (h[n]?).bind fun nd => nd.next[l]?

/-- `n.getNext(l)` -/
def getNext (h : Heap) (n l : Nat) : Nat × Bool := (word? h n l).getD (0, false)

def keyOf (h : Heap) (n : Nat) : Key :=
  match h[n]? with
  | some nd => nd.key
  | none => .pos

def heightOf (h : Heap) (n : Nat) : Nat :=
  match h[n]? with
  | some nd => nd.height
  | none => 0

def setWord (h : Heap) (n l : Nat) (w : Nat × Bool) : Heap :=
  h.modify n fun nd => { nd with next := nd.next.set l w }

/-- `n.dcasNext(l, expPtr, newPtr, false, newMark)`: every call site expects an UNMARKED word -/
def dcas (h : Heap) (n l expPtr newPtr : Nat) (newMark : Bool) : Heap × Bool :=
  if word? h n l = some (expPtr, false) then (setWord h n l (newPtr, newMark), true) else (h, false)

def itemOfKey : Key → Nat
  | .fin k => k
  | _ => 0

structure Stats where
  /-- levelNodesCount -/
  dist : List Int := List.replicate (Gen.maxLevel + 1) 0
  soft : Int := 0
  allocs : Int := 0
  frees : Int := 0
  readConflicts : Nat := 0
  insertConflicts : Nat := 0
deriving Repr

def addAt (l : List Int) (i : Nat) (d : Int) : List Int := l.set i (l.getD i 0 + d)

structure Shared where
  heap : Heap
  level : Nat := 0
  stats : Stats := {}
  /-- CONFIGURATION, constant along a run: `true` = the code of /repo now; `false` = the code before the fix
      "Insert4 does not link an upper level in front of a deleted successor" (kept so that the pre-fix witness
      can be stated and kernel-checked, see Props/C14c.lean) -/
  fixedSucc : Bool := true
deriving Repr

def headId : Nat := 0
def tailId : Nat := 1

def initHeap : Heap :=
  [ { key := .neg, height := Gen.maxLevel, next := List.replicate (Gen.maxLevel + 1) (tailId, false) },
    { key := .pos, height := Gen.maxLevel, next := [] } ]

def Shared.init : Shared := { heap := initHeap }

/-- what the caller of `findPath` does with the result -/
inductive Cont where
  /-- Insert4: the first search (node not yet published; height `lvl`) -/
  | insFirst (lvl : Nat)
  /-- Insert4: `goto retry` after a failed publish CAS -/
  | insRetry (lvl : Nat)
  /-- Insert4: re-search after a failed link of published node `x` at upper level `i` -/
  | insRelink (x lvl i : Nat)
  /-- Insert4: re-search because the recorded successor `buf.succs[i]` of published node `x` is deleted
      (`continue fixThisLevel`: back to the INS_UP_READ of the same level) -/
  | insSuccDeleted (x lvl i : Nat)
  /-- Insert4: the unlinking search after the post-link re-check saw the mark; then `finished` -/
  | insUnlink (x lvl : Nat)
  /-- Delete: the lookup -/
  | delSearch
  /-- deleteNode: the cleaning search after a won softDelete -/
  | delClean
  | lookup
  /-- Iterator.Next: re-search after a failed helpDelete (`last` = it.curr) -/
  | iterNext (it : Nat)
  | iterSeek (it : Nat)
  /-- Iterator.Refresh (from the end of Next, or called explicitly: `Op.itRefresh`): `it.Seek(current item)`, then the call returns -/
  | iterRefresh (it : Nat)
deriving Repr, DecidableEq

/-- locals of findPath -/
structure FP where
  item : Nat
  cmpVal : Int
  i : Nat
  prev : Nat
  curr : Nat
  cont : Cont
  /-- GHOST (never read by the model): the number of published nodes when this findPath call started -/
  startLen : Nat := 0
deriving Repr

/-- program counter: one constructor per yield point, with the locals of the enclosing Go functions -/
inductive PC where
  | idle
  /-- NEW_LEVEL: `req` = clamped nextLevel, `level` = the value loaded from s.level -/
  | newLevel (item req level : Nat)
  /-- FIND_LEVEL: before `curr, _ := prev.getNext(i)` -/
  | findLevel (fp : FP)
  /-- FIND_NEXT: before `next, deleted := curr.getNext(i)`; `reread`: the point inside `for deleted`,
      before `curr, _ = prev.getNext(i); next, deleted = curr.getNext(i)` -/
  | findNext (fp : FP) (reread : Bool)
  /-- HELP_DELETE inside findPath: before `prev.dcasNext(i, curr, next)` -/
  | helpDelete (fp : FP) (next : Nat)
  /-- INS_PUBLISH -/
  | insPublish (item lvl : Nat)
  /-- INS_UP_READ at level i for published node x -/
  | insUpRead (item x lvl i : Nat)
  /-- INS_UP_LINK: before `buf.preds[i].dcasNext(i, next, x)` -/
  | insUpLink (item x lvl i next : Nat)
  /-- SOFT_MARK: before `delNode.dcasNext(i, next, next, false, true)` -/
  | softMark (item n i next : Nat) (marked : Bool)
  /-- DEL_SEARCH -/
  | delSearch (item : Nat)
  /-- ITER_NEXT -/
  | iterNext (it : Nat)
  /-- HELP_DELETE called from Iterator.Next: before `it.prev.dcasNext(0, it.curr, next)` -/
  | iterHelp (it next : Nat)
  /-- ITER_REFRESH: in Refresh between `Acquire` and `it.Seek(itm)` -/
  | iterRefresh (it : Nat)
deriving Repr

structure Iter where
  prev : Nat
  curr : Nat
  valid : Bool := true
  /-- `it.count`: completed Next calls -/
  count : Nat := 0
  /-- `it.smrInterval`; `0` stands for the initial `^uint(0)` (never refresh), `SetRefreshInterval(n)` stores n ≥ 1 -/
  interval : Nat := 0
deriving Repr

structure Thread where
  pc : PC := .idle
  /-- buf.preds / buf.succs (MaxLevel+1 entries; `0` stands for the initial nil) -/
  preds : List Nat := List.replicate (Gen.maxLevel + 1) 0
  succs : List Nat := List.replicate (Gen.maxLevel + 1) 0
  /-- the iterators of this thread, by script name -/
  iters : List (Nat × Iter) := []
deriving Repr

def Thread.iter? (th : Thread) (it : Nat) : Option Iter :=
  (th.iters.find? fun p => p.1 == it).map (·.2)

def Thread.iter (th : Thread) (it : Nat) : Iter := (th.iter? it).getD { prev := 0, curr := 1 }

def setIter (l : List (Nat × Iter)) (it : Nat) (v : Iter) : List (Nat × Iter) :=
  match l with
  | [] => [(it, v)]
  | p :: r => if p.1 == it then (it, v) :: r else p :: setIter r it v

def Thread.setIter (th : Thread) (it : Nat) (v : Iter) : Thread :=
  { th with iters := SkipConc.setIter th.iters it v }

/-- reposition iterator `it` (count and refresh interval are kept; a new iterator gets the defaults) -/
def Thread.moveIter (th : Thread) (it prev curr : Nat) : Thread :=
  th.setIter it { (th.iter it) with prev := prev, curr := curr, valid := true }

def Thread.pred (th : Thread) (i : Nat) : Nat := th.preds.getD i 0
def Thread.succ (th : Thread) (i : Nat) : Nat := th.succs.getD i 0

/-- output of a positioning operation: the item under the cursor, `end` when `Valid()` is false -/
def showKey : Key → String
  | .fin k => toString k
  | .neg => "min"
  | .pos => "end"

def retKey (h : Heap) (n : Nat) : String := "ret " ++ showKey (keyOf h n)
def retBool (b : Bool) : String := if b then "ret true" else "ret false"

abbrev Res := Shared × Thread × String

/-- entry of findPath: `cmpVal = 1; retry: prev := s.head; level := LoadInt32(&s.level)`, parks at FIND_LEVEL -/
def startFind (sh : Shared) (th : Thread) (item : Nat) (cont : Cont) : Res :=
  (sh, { th with pc := .findLevel { item, cmpVal := 1, i := sh.level, prev := headId, curr := headId, cont,
                                     startLen := sh.heap.length } },
   "at FIND_LEVEL")

/-- Insert4 `finished:` -/
def insFinished (sh : Shared) (th : Thread) (lvl : Nat) : Res :=
  ({ sh with stats := { sh.stats with allocs := sh.stats.allocs + 1, dist := addAt sh.stats.dist lvl 1 } },
   { th with pc := .idle }, retBool true)

/-- softDelete's outer loop from level `i` down: the first level whose word is still unmarked -/
def softScan (h : Heap) (n : Nat) : Nat → Option (Nat × Nat)
  | 0 => let w := getNext h n 0; if w.2 then none else some (0, w.1)
  | i + 1 => let w := getNext h n (i + 1); if w.2 then softScan h n i else some (i + 1, w.1)

/-- softDelete from level `i` on (the read `delNode.getNext(i)` included), then deleteNode's tail -/
def enterSoft (sh : Shared) (th : Thread) (item n i : Nat) (marked : Bool) : Res :=
  match softScan sh.heap n i with
  | some (j, next) => (sh, { th with pc := .softMark item n j next marked }, "at SOFT_MARK")
  | none =>
    if marked then (sh, { th with pc := .delSearch item }, "at DEL_SEARCH")
    else (sh, { th with pc := .idle }, retBool false)

/-- the end of Iterator.Next, the cursor having been moved:
    `it.count++; if it.count%it.smrInterval == 0 { it.Refresh() }`, and of Refresh the part before its yield point:
    `if it.Valid() { currBs := it.bs; itm := it.Get(); it.bs = Acquire(); verifYield(ITER_REFRESH) …`.
    `Valid()` is `curr != tail` (and clears `valid` otherwise); the cursor is never the head, so it is rendered as
    "the node under the cursor carries an item", the same test the driver applies to `it_next`. -/
def afterNext (sh : Shared) (th : Thread) (it : Nat) : Res :=
  let I := th.iter it
  let I1 := { I with count := I.count + 1 }
  if I1.interval != 0 && I1.count % I1.interval == 0 then
    match keyOf sh.heap I1.curr with
    | .fin _ => (sh, { th.setIter it I1 with pc := .iterRefresh it }, "at ITER_REFRESH")
    | _ => (sh, { th.setIter it { I1 with valid := false } with pc := .idle }, retKey sh.heap I1.curr)
  else (sh, { th.setIter it I1 with pc := .idle }, retKey sh.heap I1.curr)

/-- findPath returned (`found` = `foundNode != nil`): the rest of the caller up to its next yield point -/
def finishFind (sh : Shared) (th : Thread) (item : Nat) (found : Bool) : Cont → Res
  | .insFirst lvl | .insRetry lvl =>
    if found then (sh, { th with pc := .idle }, retBool false)
    else (sh, { th with pc := .insPublish item lvl }, "at INS_PUBLISH")
  | .insRelink x lvl i => (sh, { th with pc := .insUpRead item x lvl i }, "at INS_UP_READ")
  | .insSuccDeleted x lvl i => (sh, { th with pc := .insUpRead item x lvl i }, "at INS_UP_READ")
  | .insUnlink _ lvl => insFinished sh th lvl
  | .delSearch =>
    if found then
      let n := th.succ 0
      enterSoft sh th item n (heightOf sh.heap n) false
    else (sh, { th with pc := .idle }, retBool false)
  | .delClean => (sh, { th with pc := .idle }, retBool true)
  | .lookup => (sh, { th with pc := .idle }, retBool found)
  | .iterNext it =>
    let last := (th.iter it).curr
    let th1 := th.moveIter it (th.pred 0) (th.succ 0)
    if found && last == th.succ 0 then (sh, { th1 with pc := .iterNext it }, "at ITER_NEXT")
    else afterNext sh th1 it
  | .iterSeek it =>
    let th1 := th.moveIter it (th.pred 0) (th.succ 0)
    (sh, { th1 with pc := .idle }, retKey sh.heap (th.succ 0))
  | .iterRefresh it =>
    -- Seek inside Refresh; then `Release(currBs)` and Next returns
    let th1 := th.moveIter it (th.pred 0) (th.succ 0)
    (sh, { th1 with pc := .idle }, retKey sh.heap (th.succ 0))

/-- findPath after `next, deleted` have been read for `fp.curr` at level `fp.i` -/
def afterRead (sh : Shared) (th : Thread) (fp : FP) (next : Nat) (deleted : Bool) : Res :=
  if deleted then (sh, { th with pc := .helpDelete fp next }, "at HELP_DELETE")
  else
    let cmpVal := compare (keyOf sh.heap fp.curr) (.fin fp.item)
    if Gen.findAdvance cmpVal then
      (sh, { th with pc := .findNext { fp with cmpVal, prev := fp.curr, curr := next } false }, "at FIND_NEXT")
    else
      let th1 := { th with preds := th.preds.set fp.i fp.prev, succs := th.succs.set fp.i fp.curr }
      match fp.i with
      | i + 1 => (sh, { th1 with pc := .findLevel { fp with cmpVal, i } }, "at FIND_LEVEL")
      | 0 => finishFind sh th1 fp.item (Gen.findFound cmpVal) fp.cont

def stepFindLevel (sh : Shared) (th : Thread) (fp : FP) : Res :=
  let curr := (getNext sh.heap fp.prev fp.i).1
  (sh, { th with pc := .findNext { fp with curr } false }, "at FIND_NEXT")

def stepFindNext (sh : Shared) (th : Thread) (fp : FP) (reread : Bool) : Res :=
  let fp1 := if reread then { fp with curr := (getNext sh.heap fp.prev fp.i).1 } else fp
  let w := getNext sh.heap fp1.curr fp1.i
  afterRead sh th fp1 w.1 w.2

/-- statistics update of helpDelete -/
def helpStats (sh : Shared) (h' : Heap) (ok : Bool) (level curr : Nat) : Shared :=
  if Gen.helpAccounts ok level then
    { sh with heap := h', stats := { sh.stats with soft := sh.stats.soft - 1,
                                                   dist := addAt sh.stats.dist (heightOf h' curr) (-1) } }
  else { sh with heap := h' }

def bumpReadConflicts (sh : Shared) : Shared :=
  { sh with stats := { sh.stats with readConflicts := sh.stats.readConflicts + 1 } }

def stepHelpDelete (sh : Shared) (th : Thread) (fp : FP) (next : Nat) : Res :=
  let r := dcas sh.heap fp.prev fp.i fp.curr next false
  let sh1 := helpStats sh r.1 r.2 fp.i fp.curr
  if r.2 then (sh1, { th with pc := .findNext fp true }, "at FIND_NEXT")
  else
    let sh2 := bumpReadConflicts sh1
    (sh2, { th with pc := .findLevel { fp with prev := headId, i := sh2.level } }, "at FIND_LEVEL")

/-- the node Insert4 publishes: `x.setNext(i, buf.succs[i], false)` for i = 0..itemLevel -/
def newNode (th : Thread) (item lvl : Nat) : Node :=
  { key := .fin item, height := lvl, next := (List.range (lvl + 1)).map fun i => (th.succ i, false) }

def stepInsPublish (sh : Shared) (th : Thread) (item lvl : Nat) : Res :=
  let x := sh.heap.length
  let r := dcas sh.heap (th.pred 0) 0 (th.succ 0) x false
  if r.2 then
    let sh1 := { sh with heap := r.1 ++ [newNode th item lvl] }
    if 1 ≤ lvl then (sh1, { th with pc := .insUpRead item x lvl 1 }, "at INS_UP_READ")
    else insFinished sh1 th lvl
  else
    let sh1 := { sh with stats := { sh.stats with insertConflicts := sh.stats.insertConflicts + 1 } }
    startFind sh1 th item (.insRetry lvl)

/-- Insert4 between the node's own `dcasNext` and the INS_UP_LINK yield: the check of the recorded successor
    (`if _, nextDeleted := next.getNext(i); nextDeleted { s.findPath(..); continue fixThisLevel }`) -/
def insCheckSucc (sh : Shared) (th : Thread) (item x lvl i next : Nat) : Res :=
  if sh.fixedSucc && (getNext sh.heap next i).2 then startFind sh th item (.insSuccDeleted x lvl i)
  else (sh, { th with pc := .insUpLink item x lvl i next }, "at INS_UP_LINK")

def stepInsUpRead (sh : Shared) (th : Thread) (item x lvl i : Nat) : Res :=
  let w := getNext sh.heap x i
  let next := th.succ i
  if w.2 then insFinished sh th lvl
  else if w.1 ≠ next then
    let r := dcas sh.heap x i w.1 next false
    let sh1 := { sh with heap := r.1 }
    if r.2 then insCheckSucc sh1 th item x lvl i next
    else insFinished sh1 th lvl
  else insCheckSucc sh th item x lvl i next

def stepInsUpLink (sh : Shared) (th : Thread) (item x lvl i next : Nat) : Res :=
  let r := dcas sh.heap (th.pred i) i next x false
  let sh1 := { sh with heap := r.1 }
  if r.2 then
    if (getNext sh1.heap x i).2 then startFind sh1 th item (.insUnlink x lvl)
    else if i + 1 ≤ lvl then (sh1, { th with pc := .insUpRead item x lvl (i + 1) }, "at INS_UP_READ")
    else insFinished sh1 th lvl
  else startFind sh1 th item (.insRelink x lvl i)

def stepSoftMark (sh : Shared) (th : Thread) (item n i next : Nat) (marked : Bool) : Res :=
  let r := dcas sh.heap n i next next true
  let wins := Gen.softDeleteWins r.2 i
  let sh1 : Shared :=
    if wins then { sh with heap := r.1, stats := { sh.stats with soft := sh.stats.soft + 1 } }
    else { sh with heap := r.1 }
  enterSoft sh1 th item n i (marked || wins)

def stepNewLevel (sh : Shared) (th : Thread) (item _req level : Nat) : Res :=
  if sh.level = level then startFind { sh with level := level + 1 } th item (.insFirst (level + 1))
  else startFind sh th item (.insFirst level)

def stepIterNext (sh : Shared) (th : Thread) (it : Nat) : Res :=
  let I := th.iter it
  let w := getNext sh.heap I.curr 0
  if w.2 then (sh, { th with pc := .iterHelp it w.1 }, "at HELP_DELETE")
  else afterNext sh (th.moveIter it I.curr w.1) it

def stepIterHelp (sh : Shared) (th : Thread) (it next : Nat) : Res :=
  let I := th.iter it
  let r := dcas sh.heap I.prev 0 I.curr next false
  let sh1 := helpStats sh r.1 r.2 0 I.curr
  if r.2 then afterNext sh1 (th.moveIter it I.prev next) it
  else
    startFind (bumpReadConflicts sh1) th (itemOfKey (keyOf sh1.heap I.curr)) (.iterNext it)

/-- ITER_REFRESH: `it.Seek(itm)` with the item that was under the cursor when Refresh began -/
def stepIterRefresh (sh : Shared) (th : Thread) (it : Nat) : Res :=
  startFind sh th (itemOfKey (keyOf sh.heap (th.iter it).curr)) (.iterRefresh it)

/-- one segment of a thread: from the yield point it is parked at to the next one (or the end of the call) -/
def stepThread (sh : Shared) (th : Thread) : Res :=
  match th.pc with
  | .idle => (sh, th, "bad-op")
  | .newLevel item req level => stepNewLevel sh th item req level
  | .findLevel fp => stepFindLevel sh th fp
  | .findNext fp reread => stepFindNext sh th fp reread
  | .helpDelete fp next => stepHelpDelete sh th fp next
  | .insPublish item lvl => stepInsPublish sh th item lvl
  | .insUpRead item x lvl i => stepInsUpRead sh th item x lvl i
  | .insUpLink item x lvl i next => stepInsUpLink sh th item x lvl i next
  | .softMark item n i next marked => stepSoftMark sh th item n i next marked
  | .delSearch item => startFind sh th item .delClean
  | .iterNext it => stepIterNext sh th it
  | .iterHelp it next => stepIterHelp sh th it next
  | .iterRefresh it => stepIterRefresh sh th it

/-- the API calls of the protocol -/
inductive Op where
  | ins (k lvl : Nat)
  | del (k : Nat)
  | look (k : Nat)
  | itFirst (it : Nat)
  | itSeek (it k : Nat)
  | itNext (it : Nat)
  | itClose (it : Nat)
  /-- `it.SetRefreshInterval(n)`, n ≥ 1 -/
  | itInterval (it n : Nat)
  /-- the PUBLIC `it.Refresh()` called by the user between two Next calls (same precondition as `itNext`: `Valid()`) -/
  | itRefresh (it : Nat)
deriving Repr

/-- `start`: the thread enters the call and runs to its first yield point (no shared write) -/
def startOp (sh : Shared) (th : Thread) : Op → Res
  | .ins k lvl =>
    -- NewLevel: clamp, load s.level, bump test
    let req := Gen.newLevelClamp lvl
    let level := sh.level
    if Gen.newLevelBump req level then (sh, { th with pc := .newLevel k req level }, "at NEW_LEVEL")
    else startFind sh th k (.insFirst req)
  | .del k => startFind sh th k .delSearch
  | .look k => startFind sh th k .lookup
  | .itFirst it =>
    let c := (getNext sh.heap headId 0).1
    (sh, th.moveIter it headId c, retKey sh.heap c)
  | .itSeek it k => startFind sh th k (.iterSeek it)
  | .itNext it =>
    match th.iter? it with
    | some I =>
      match keyOf sh.heap I.curr with
      | .fin _ => (sh, { th with pc := .iterNext it }, "at ITER_NEXT")
      | _ => (sh, th, "bad-op")
    | none => (sh, th, "bad-op")
  | .itClose it =>
    match th.iter? it with
    | some _ => (sh, { th with iters := th.iters.filter fun p => p.1 != it }, "ret")
    | none => (sh, th, "bad-op")
  | .itInterval it n =>
    match th.iter? it with
    | some I => if 1 ≤ n then (sh, th.setIter it { I with interval := n }, "ret") else (sh, th, "bad-op")
    | none => (sh, th, "bad-op")
  | .itRefresh it =>
    -- explicit `Refresh()`: `if it.Valid() { currBs := it.bs; itm := it.Get(); it.bs = Acquire(); verifYield(ITER_REFRESH) …`;
    -- `count` is not touched, nothing shared is written; the rest is `stepIterRefresh` and the Seek
    match th.iter? it with
    | some I =>
      match keyOf sh.heap I.curr with
      | .fin _ => (sh, { th with pc := .iterRefresh it }, "at ITER_REFRESH")
      | _ => (sh, th, "bad-op")
    | none => (sh, th, "bad-op")

structure Sys where
  sh : Shared := Shared.init
  threads : List Thread := []
deriving Repr

def Sys.step (s : Sys) (t : Nat) : Sys × String :=
  match s.threads[t]? with
  | none => (s, "bad-op")
  | some th =>
    match th.pc with
    | .idle => (s, "bad-op")
    | _ =>
      let r := stepThread s.sh th
      ({ sh := r.1, threads := s.threads.set t r.2.1 }, r.2.2)

def isIdle : PC → Bool
  | .idle => true
  | _ => false

def Sys.start (s : Sys) (t : Nat) (op : Op) : Sys × String :=
  match s.threads[t]? with
  | none => (s, "bad-op")
  | some th =>
    if isIdle th.pc then
      let r := startOp s.sh th op
      ({ sh := r.1, threads := s.threads.set t r.2.1 }, r.2.2)
    else (s, "bad-op")

def Sys.quiescent (s : Sys) : Bool := s.threads.all fun th => isIdle th.pc

/-- walk of level `l` from the head: the keys met before the tail (fuel = number of nodes), `true` = marked -/
def walkLevel (h : Heap) (l : Nat) : Nat → Nat → List (Nat × Bool)
  | 0, _ => []
  | fuel + 1, n =>
    match keyOf h n with
    | .fin k => (k, (getNext h n l).2) :: walkLevel h l fuel (getNext h n l).1
    | _ => []

def walk (h : Heap) (l : Nat) : List (Nat × Bool) := walkLevel h l h.length (getNext h headId l).1

end NitroVerif.SkipConc
