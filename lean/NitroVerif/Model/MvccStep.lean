/-
  M6 part 3: the operation alphabet of the sequential engine (`SetSpec.Op`) executed on the model.
  An operation that violates the API contract (unknown writer / snapshot / iterator / handle,
  `Next` on an invalid iterator, closing a reference one does not hold, Visitor on a closed
  snapshot) leaves the state unchanged and yields `Out.bad`.
-/
import NitroVerif.Model.MvccIter

namespace NitroVerif.Mvcc
open NitroVerif SetSpec

/-- take a reference (`NewIterator`: `Open`) and give it back (`Iterator.Close`: `Close`) -/
def withRef (st : State) (s : Nat) (rc : Int) : State := closeSnap (openSnap st s) s (rc + 1)

def setIter (st : State) (i : Nat) (it : Iter) : State × Out :=
  ({ st with iters := aset i it st.iters }, .cursor (it.cur.map Ver.item))

def step (st : State) : Op → State × Out
  | .put w k v =>
    if w < st.writers.length then ((put st w k v).1, .bool (put st w k v).2) else (st, .bad)
  | .del w k =>
    if w < st.writers.length then ((del st w k).1, .bool (del st w k).2) else (st, .bad)
  | .get w k =>
    if w < st.writers.length then (st, .val ((getNode st k).map (·.val))) else (st, .bad)
  | .getnode w k h =>
    if w < st.writers.length then
      match getNode st k with
      | some x => ({ st with handles := aset h ⟨x.key, x.born, false⟩ st.handles }, .found true)
      | none => ({ st with handles := aerase h st.handles }, .found false)
    else (st, .bad)
  | .delnode w h =>
    if w < st.writers.length then
      match alookup h st.handles with
      | some hd => ((delHandle st w hd).1, .bool (delHandle st w hd).2)
      | none => (st, .bad)
    else (st, .bad)
  | .snap => ((newSnapshot st).1, .snap (newSnapshot st).2.sn (newSnapshot st).2.count)
  | .open s =>
    match findSnap s st.snaps with
    | some x => if Gen.openRefuse x.rc then (st, .bool false) else (openSnap st s, .bool true)
    | none => (st, .bad)
  | .close s =>
    match findSnap s st.snaps with
    | some x => if x.rc - itersOn s st.iters > 0 then (closeSnap st s x.rc, .ok) else (st, .bad)
    | none => (st, .bad)
  | .count s =>
    match findSnap s st.snaps with
    | some x => (st, .num x.count)
    | none => (st, .bad)
  | .items => (st, .num st.itemsCount)
  | .scan s rate =>
    match findSnap s st.snaps with
    | some x =>
      if Gen.openRefuse x.rc then (st, .nil)
      else (withRef st s x.rc, .items ((scanAll st.store s rate).map Ver.item))
    | none => (st, .bad)
  | .itNew i s =>
    match findSnap s st.snaps, alookup i st.iters with
    | some x, none =>
      if Gen.openRefuse x.rc then (st, .nil)
      else ({ (openSnap st s) with iters := aset i (newIter s 0) st.iters }, .ok)
    | _, _ => (st, .bad)
  | .itRate i r =>
    match alookup i st.iters with
    | some it => ({ st with iters := aset i { it with rate := r } st.iters }, .ok)
    | none => (st, .bad)
  | .itFirst i =>
    match alookup i st.iters with
    | some it => setIter st i (it.seekFirst st.store)
    | none => (st, .bad)
  | .itSeek i k =>
    match alookup i st.iters with
    | some it => setIter st i (it.seek st.store k)
    | none => (st, .bad)
  | .itNext i =>
    match alookup i st.iters with
    | some it =>
      match it.cur with
      | some _ => setIter st i (it.next st.store)
      | none => (st, .bad)
    | none => (st, .bad)
  | .itRefresh i =>
    match alookup i st.iters with
    | some it => setIter st i (it.refresh st.store)
    | none => (st, .bad)
  | .itClose i =>
    match alookup i st.iters with
    | some it =>
      match findSnap it.sn st.snaps with
      | some x => (closeSnap { st with iters := aerase i st.iters } it.sn x.rc, .ok)
      | none => (st, .bad)
    | none => (st, .bad)
  | .visit s pivots rate fail =>
    match findSnap s st.snaps with
    | some x =>
      if Gen.openRefuse x.rc then (st, .bad)       -- "iterator cannot be nil" panic
      else
        -- the temporary iterator and every shard iterator take a reference and release it
        let r := visitor st.store s rate fail (pivots.map (fun k => ⟨k, 0, 0, 0⟩))
        (withRef st s x.rc,
         if r.2 then .visitErr else .visit (partOk r.1) (r.1.flatten.map Ver.item))
    | none => (st, .bad)

def run (st : State) : List Op → List Out
  | [] => []
  | op :: ops => (step st op).2 :: run (step st op).1 ops

/-- the state after a sequence of operations -/
def run' (st : State) : List Op → State
  | [] => st
  | op :: ops => run' (step st op).1 ops

/-- states reachable from the initial state by operations of the API -/
inductive Reachable (n : Nat) : State → Prop where
  | init : Reachable n (init n)
  | step {st : State} (op : Op) : Reachable n st → Reachable n (step st op).1

end NitroVerif.Mvcc
