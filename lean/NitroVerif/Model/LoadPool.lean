/-!
  The worker pool of LoadFromDisk (nitro.go): `n` shards, `c` worker goroutines, a dispatcher that
  sends the shard indexes `0 … n-1` over the UNBUFFERED channel `wchan`, closes it, and waits for the
  workers (`wg.Wait()`).  A worker receives an index, decodes that shard, and receives again; it
  returns when the channel is closed.

  `exitsOnError`: what a worker does when `ReadItem` fails on its shard.
    * `false` — the code in /repo now: `break loop` leaves the shard's read loop, the worker goes on
      receiving;
    * `true`  — the original code: `return`, the worker is gone.
  A send on an unbuffered channel is a rendezvous: `handoff w` is enabled only when worker `w` is
  waiting to receive.  Which shards fail is a parameter (`fails`).  Small-step semantics, one action
  per step, the schedule is the list of actions.
-/
namespace NitroVerif.LoadPool

inductive WState where
  | idle                -- blocked in `for shard := range wchan`
  | busy (shard : Nat)  -- decoding a shard
  | done                -- returned (wg.Done)
deriving Repr, DecidableEq

structure State where
  next : Nat            -- the dispatcher is at `wchan <- next` (or past its loop when `next = n`)
  closed : Bool         -- `close(wchan)` executed
  workers : List WState
deriving Repr, DecidableEq

inductive Action where
  | handoff (w : Nat)   -- the dispatcher's send meets worker w's receive
  | finish (w : Nat)    -- worker w is through with its shard (end of stream or error)
  | close               -- the dispatcher closes the channel after its loop
  | exit (w : Nat)      -- worker w sees the closed channel and returns
deriving Repr, DecidableEq

def init (c : Nat) : State := { next := 0, closed := false, workers := List.replicate c .idle }

def step (exitsOnError : Bool) (fails : Nat → Bool) (n : Nat) (st : State) : Action → Option State
  | .handoff w =>
    if st.next < n ∧ st.workers[w]? = some .idle then
      some { st with next := st.next + 1, workers := st.workers.set w (.busy st.next) }
    else none
  | .finish w =>
    match st.workers[w]? with
    | some (.busy s) =>
      some { st with workers := st.workers.set w (if exitsOnError && fails s then .done else .idle) }
    | _ => none
  | .close =>
    if st.next = n ∧ st.closed = false then some { st with closed := true } else none
  | .exit w =>
    if st.closed = true ∧ st.workers[w]? = some .idle then
      some { st with workers := st.workers.set w .done }
    else none

def run (exitsOnError : Bool) (fails : Nat → Bool) (n : Nat) : State → List Action → Option State
  | st, [] => some st
  | st, a :: r =>
    match step exitsOnError fails n st a with
    | none => none
    | some st' => run exitsOnError fails n st' r

/-- LoadFromDisk gets past `wg.Wait()`: all shards taken, channel closed, all workers returned -/
def final (n : Nat) (st : State) : Prop :=
  st.next = n ∧ st.closed = true ∧ ∀ w ∈ st.workers, w = .done

instance (n : Nat) (st : State) : Decidable (final n st) := by unfold final; infer_instance

def weight : WState → Nat
  | .idle => 1
  | .busy _ => 2
  | .done => 0

/-- a bound on the number of steps left -/
def measure (n : Nat) (st : State) : Nat :=
  3 * (n - st.next) + (if st.closed then 0 else 1) + (st.workers.map weight).sum

end NitroVerif.LoadPool
