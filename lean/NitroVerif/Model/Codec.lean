import NitroVerif.Gen.Guards
/-!
  M1 Codec: item.go EncodeItem/DecodeItem, KVToBytes/KVFromBytes/CompareKV,
  file.go rawFileWriter/rawFileReader, as pure functions on byte lists.
  `bufio`, `os` and `io.ReadFull` are modelled by "the file is a byte list; a read of n bytes
  either returns the next n bytes or fails because fewer are left".
  Abstractions: lengths are unbounded `Nat`, reduced modulo 256^w exactly where the Go code converts
  (`uint32(l)`, `uint16(klen)`); the byte order and width of every length field come from the
  generated facts (`Gen.encodeBigEndian`, `Gen.encodeLenWidth`, `Gen.decodeBigEndian`,
  `Gen.decodeLenWidthV0/V1`, `Gen.kvLittleEndian`, `Gen.kvLenWidth`).  An item of 2^32 bytes or
  more cannot exist in Go (`Item.dataLen` is a `uint32`); the model would write all its bytes — such
  items are outside the hypotheses of every theorem.
-/
namespace NitroVerif.Codec
open NitroVerif

abbrev Bytes := List UInt8

/-- big-endian encoding of `n` on `w` bytes (value taken modulo 256^w, as a Go conversion does) -/
def beBytes : Nat → Nat → Bytes
  | 0, _ => []
  | w + 1, n => UInt8.ofNat (n / 256 ^ w % 256) :: beBytes w n

/-- big-endian value of a byte list -/
def beVal (bs : Bytes) : Nat := bs.foldl (fun acc b => acc * 256 + b.toNat) 0

/-- little-endian encoding on `w` bytes -/
def leBytes : Nat → Nat → Bytes
  | 0, _ => []
  | w + 1, n => UInt8.ofNat (n % 256) :: leBytes w (n / 256)

def leVal : Bytes → Nat
  | [] => 0
  | b :: r => b.toNat + 256 * leVal r

/-- a length field of `w` bytes in the byte order the Go code uses at that place
    (`big` is one of the generated facts `Gen.encodeBigEndian` / `Gen.decodeBigEndian` /
    `!Gen.kvLittleEndian`) -/
def lenEnc (big : Bool) (w n : Nat) : Bytes := if big then beBytes w n else leBytes w n

/-- value of a length field read in that byte order -/
def lenDec (big : Bool) (bs : Bytes) : Nat := if big then beVal bs else leVal bs

/-- the length field EncodeItem writes (`binary.BigEndian.PutUint32(buf[0:4], uint32(itm.dataLen))`) -/
def encodeLen (n : Nat) : Bytes := lenEnc Gen.encodeBigEndian Gen.encodeLenWidth n

/-- EncodeItem: [len on `encodeLenWidth` bytes][data] -/
def encodeItem (data : Bytes) : Bytes := encodeLen data.length ++ data

/-- per-item checksum of the writer, generic in the hash (crc32 in the driver) -/
def itemSum (h : Bytes → Nat) (lenBytes data : Bytes) : Nat := h lenBytes ^^^ h data

/-- what the writer has put in the file after `WriteItem` of each item and `Close` -/
def writeFile (items : List Bytes) : Bytes :=
  items.flatMap encodeItem ++ encodeItem []

/-- writer checksum as read by StoreToDisk (before Close appends the terminator) -/
def writerChecksum (h : Bytes → Nat) (items : List Bytes) : Nat :=
  items.foldl (fun acc d => acc ^^^ itemSum h (encodeLen d.length) d) 0

inductive Decoded where
  | short                                  -- io.ReadFull failed (EOF / unexpected EOF)
  | terminator (rest : Bytes)              -- length 0: end of stream
  | item (lenBytes data rest : Bytes)
deriving Repr, DecidableEq

def lenWidth (ver : Nat) : Nat := if ver = 0 then Gen.decodeLenWidthV0 else Gen.decodeLenWidthV1

/-- DecodeItem for format version `ver` -/
def decodeItem (ver : Nat) (bs : Bytes) : Decoded :=
  let w := lenWidth ver
  if bs.length < w then .short else
  let lb := bs.take w
  let l := lenDec Gen.decodeBigEndian lb
  let rest := bs.drop w
  if Gen.decodeHasItem l then
    if rest.length < l then .short else .item lb (rest.take l) (rest.drop l)
  else .terminator rest

inductive ReadResult where
  | ok (items : List Bytes) (checksum : Nat) (rest : Bytes)
  | err (itemsBefore : List Bytes)
deriving Repr, DecidableEq

/-- the reader loop of LoadFromDisk: ReadItem until the terminator; `fuel` bounds the recursion
    (every item consumes at least one byte, so `bs.length + 1` always suffices) -/
def readLoop (h : Bytes → Nat) (ver : Nat) : Nat → Bytes → List Bytes → Nat → ReadResult
  | 0, _, acc, _ => .err acc.reverse
  | fuel + 1, bs, acc, sum =>
    match decodeItem ver bs with
    | .short => .err acc.reverse
    | .terminator rest => .ok acc.reverse sum rest
    | .item lb d rest => readLoop h ver fuel rest (d :: acc) (sum ^^^ itemSum h lb d)

def readFile (h : Bytes → Nat) (ver : Nat) (bs : Bytes) : ReadResult :=
  readLoop h ver (bs.length + 1) bs [] 0

/-- v0 writer (older format; model-side only, the code has no v0 writer any more): the length
    field exactly as the v0 branch of DecodeItem reads it -/
def encodeItemV0 (data : Bytes) : Bytes :=
  lenEnc Gen.decodeBigEndian Gen.decodeLenWidthV0 data.length ++ data
def writeFileV0 (items : List Bytes) : Bytes := items.flatMap encodeItemV0 ++ encodeItemV0 []

/-- KVToBytes -/
def kvToBytes (k v : Bytes) : Bytes := lenEnc (!Gen.kvLittleEndian) Gen.kvLenWidth k.length ++ k ++ v

/-- the key length KVFromBytes / CompareKV read from the first `kvLenWidth` bytes -/
def kvKeyLen (bs : Bytes) : Nat := lenDec (!Gen.kvLittleEndian) (bs.take Gen.kvLenWidth)

/-- KVFromBytes (the Go code slices without checks; the model is guarded by `kvWellFormed`) -/
def kvFromBytes (bs : Bytes) : Bytes × Bytes :=
  let klen := kvKeyLen bs
  ((bs.drop Gen.kvLenWidth).take klen, bs.drop (Gen.kvLenWidth + klen))

def kvWellFormed (bs : Bytes) : Bool :=
  decide (Gen.kvLenWidth ≤ bs.length) && decide (Gen.kvLenWidth + kvKeyLen bs ≤ bs.length)

/-- bytes.Compare -/
def cmpBytes : Bytes → Bytes → Int
  | [], [] => 0
  | [], _ :: _ => -1
  | _ :: _, [] => 1
  | a :: as, b :: bs => if a < b then -1 else if b < a then 1 else cmpBytes as bs

/-- CompareKV -/
def compareKV (a b : Bytes) : Int := cmpBytes (kvFromBytes a).1 (kvFromBytes b).1

/-- crc32 (IEEE, reflected, polynomial 0xEDB88320) — used by the driver only; the theorems are
    generic in the hash. -/
def crcByte (crc : UInt32) (b : UInt8) : UInt32 :=
  let c := crc ^^^ b.toUInt32
  let step (c : UInt32) : UInt32 := if c &&& 1 == 1 then (c >>> 1) ^^^ 0xEDB88320 else c >>> 1
  step (step (step (step (step (step (step (step c)))))))

def crc32 (bs : Bytes) : Nat :=
  ((bs.foldl crcByte 0xFFFFFFFF) ^^^ 0xFFFFFFFF).toNat

end NitroVerif.Codec
