import NitroVerif.Gen.Guards
/-!
  Small-step model of the snapshot reference-count protocol and of the collector hand-off
  (`/repo/nitro.go`: `Snapshot.Open`, `Snapshot.Close`, `GC`, `collectDead`,
  `hasCollectableSnapshot`; `NewIterator` = `Open`, `Iterator.Close` = `Snapshot.Close`).

  One program counter per yield point of PROTOCOL.md ("engine refcount"); a `step` performs the one
  shared-memory operation the thread is parked before and runs to the next yield point.

      OPEN_LOAD s      rc := refs s;  `Gen.openRefuse rc` ⇒ return false;  else OPEN_CAS s rc
      OPEN_CAS s rc    fixed code: CAS(refs s, rc, rc+1) — success ⇒ return true, failure ⇒ OPEN_LOAD s
                       (`fixedOpen = false`: the original test-then-add — unconditional increment, return true)
      CLOSE_DEC s      v := refs s − 1 stored;  `Gen.closeRetire v` ⇒ CLOSE_RETIRE s;  else return
      CLOSE_RETIRE s   `snapshots.Delete`: delete s from the live list  → CLOSE_RETIRE2 s
      CLOSE_RETIRE2 s  `gcsnapshots.Insert`: insert s into the dead list (ghost `retired`++)  → CLOSE_GC
                       (between the two steps the snapshot is in neither list)
      CLOSE_GC         call GC()  → GC_TRY_LOCK
      GC_TRY_LOCK      CAS(isGCRunning,0,1) — failure ⇒ return;  success ⇒ COLLECT_READ
      COLLECT_READ     dead list empty, or `Gen.gcStop head.sn lastGCSn` ⇒ GC_UNLOCK;  else COLLECT_SEND head.sn
      COLLECT_SEND s   lastGCSn := s;  gcchan ← s (logged in `sent`);  remove s from the dead list  → COLLECT_READ
      GC_UNLOCK        isGCRunning := 0;  fixed code ⇒ GC_RECHECK (`fixedGC = false`: return)
      GC_RECHECK       hasCollectableSnapshot(): head exists ∧ `Gen.collectableHead head.sn lastGCSn` ⇒ GC_TRY_LOCK;  else return

  Abstractions (deliberate, stated):
  * `refCount` is an unbounded `Int` (Go: int32), snapshot numbers are `Nat` (Go: uint32).
  * The two skiplists (`snapshots`, `gcsnapshots`) are sorted duplicate-free lists of snapshot numbers;
    insertion uses `Gen.compareSnapshot` and refuses a duplicate (as `skiplist.Insert` does);
    deleting an absent element is a no-op.
  * All `k` snapshots exist up front (sn = index + 1 in `snaps`), each with refCount 1 (its creation
    reference) and an empty garbage list; `NewSnapshot` is not part of this model.
  * References are not tied to a thread: a reference that is held (the creation reference, or one
    obtained by an `Open` that returned true) sits in the pool `held s`, and any thread may start a
    `close s` while the pool is not empty.  This is more permissive than per-thread ownership
    (references may be handed between goroutines), so the theorems cover every ownership discipline.
  * The collector's skiplist iterator: after `DeleteNode` the real `iter.Next()` may land on a stale
    successor instead of the true head.  `COLLECT_READ` therefore reads the true head (this is what
    the driver does) **or**, with `Act.step true`, leaves the loop spuriously (proof-only action;
    the re-check of the fixed `GC` then does a fresh `SeekFirst`).  All theorems hold for both.
  * The channel send `gcchan <- gclist` never blocks (the workers are outside this model); what is
    handed over is logged in `sent`.
  Ghost state: `held` (reference pool), `retired` (how many times the snapshot was moved to the dead
  list), `sent`.
-/
namespace NitroVerif.RefCount

structure Cfg where
  /-- `true`: `Open` is the load / compare-and-swap loop (fix f03026a); `false`: test-then-add -/
  fixedOpen : Bool := true
  /-- `true`: `GC` re-checks after dropping the flag (fix 09b4709); `false`: returns after `GC_UNLOCK` -/
  fixedGC : Bool := true
deriving Repr, DecidableEq

structure Snap where
  refs : Int := 1
  /-- ghost: references held and not being closed right now -/
  held : Nat := 1
  /-- ghost: number of times the snapshot was moved to the dead list -/
  retired : Nat := 0
deriving Repr, DecidableEq

inductive PC where
  | idle
  | openLoad (s : Nat)
  | openCas (s : Nat) (rc : Int)
  | closeDec (s : Nat)
  | closeRetire (s : Nat)
  | closeRetire2 (s : Nat)
  | closeGC
  | gcTryLock
  | collectRead
  | collectSend (s : Nat)
  | gcUnlock
  | gcRecheck
deriving Repr, DecidableEq

structure St where
  /-- index `i` is snapshot number `i + 1` -/
  snaps : List Snap := []
  /-- `m.snapshots`: snapshot numbers, ascending -/
  live : List Nat := []
  /-- `m.gcsnapshots`: snapshot numbers, ascending -/
  dead : List Nat := []
  lastGCSn : Nat := 0
  /-- `isGCRunning` -/
  flag : Bool := false
  /-- ghost: snapshot numbers handed to `gcchan`, in order -/
  sent : List Nat := []
  ths : List PC := []
deriving Repr, DecidableEq

inductive Call where
  | opn (s : Nat)   -- `Snapshot.Open` / `NewIterator`
  | cls (s : Nat)   -- `Snapshot.Close` / `Iterator.Close`
  | gc             -- `Nitro.GC`
deriving Repr, DecidableEq

inductive Act where
  | start (c : Call)
  /-- `spur = true` only matters at `COLLECT_READ` (stale iterator: leave the loop) -/
  | step (spur : Bool)
deriving Repr, DecidableEq

/-- what the scheduler observes of a step -/
inductive Ev where
  | parked                      -- the call is still in progress
  | retOpen (s : Nat) (b : Bool) -- `Open` on `s` returned `b`
  | ret                         -- `Close` / `GC` returned
deriving Repr, DecidableEq

def noSnap : Snap := { refs := 0, held := 0, retired := 0 }

def snapAt (l : List Snap) (s : Nat) : Snap :=
  match s with
  | 0 => noSnap
  | n + 1 => l.getD n noSnap

def setAt (l : List Snap) (s : Nat) (x : Snap) : List Snap :=
  match s with
  | 0 => l
  | n + 1 => l.set n x

/-- the record of snapshot number `s` (numbers start at 1) -/
def getS (st : St) (s : Nat) : Snap := snapAt st.snaps s

def setS (st : St) (s : Nat) (x : Snap) : St := { st with snaps := setAt st.snaps s x }

def setT (st : St) (i : Nat) (pc : PC) : St := { st with ths := st.ths.set i pc }

/-- `s` is the number of an existing snapshot -/
def validSn (st : St) (s : Nat) : Bool := decide (1 ≤ s) && decide (s ≤ st.snaps.length)

/-- `skiplist.Insert` with `CompareSnapshot`: ordered, an equal element is refused -/
def dinsert (s : Nat) : List Nat → List Nat
  | [] => [s]
  | x :: xs =>
    let c := Gen.compareSnapshot s x
    if c = 0 then x :: xs
    else if c < 0 then s :: x :: xs
    else x :: dinsert s xs

def step (cfg : Cfg) (st : St) (i : Nat) (a : Act) : Option (St × Ev) :=
  match st.ths[i]? with
  | none => none
  | some pc =>
    match a, pc with
    | .start (.opn s), .idle =>
        if validSn st s then some (setT st i (.openLoad s), .parked) else none
    | .start (.cls s), .idle =>
        let x := getS st s
        if validSn st s && decide (0 < x.held) then
          some (setT (setS st s { x with held := x.held - 1 }) i (.closeDec s), .parked)
        else none
    | .start .gc, .idle => some (setT st i .gcTryLock, .parked)
    | .step _, .openLoad s =>
        let rc := (getS st s).refs
        if Gen.openRefuse rc then some (setT st i .idle, .retOpen s false)
        else some (setT st i (.openCas s rc), .parked)
    | .step _, .openCas s rc =>
        let x := getS st s
        if cfg.fixedOpen then
          if x.refs = rc then
            some (setT (setS st s { x with refs := rc + 1, held := x.held + 1 }) i .idle, .retOpen s true)
          else some (setT st i (.openLoad s), .parked)
        else
          some (setT (setS st s { x with refs := x.refs + 1, held := x.held + 1 }) i .idle, .retOpen s true)
    | .step _, .closeDec s =>
        let x := getS st s
        let v := x.refs - 1
        let st1 := setS st s { x with refs := v }
        if Gen.closeRetire v then some (setT st1 i (.closeRetire s), .parked)
        else some (setT st1 i .idle, .ret)
    | .step _, .closeRetire s =>
        some (setT { st with live := st.live.erase s } i (.closeRetire2 s), .parked)
    | .step _, .closeRetire2 s =>
        let x := getS st s
        let st1 := setS st s { x with retired := x.retired + 1 }
        some (setT { st1 with dead := dinsert s st.dead } i .closeGC, .parked)
    | .step _, .closeGC => some (setT st i .gcTryLock, .parked)
    | .step _, .gcTryLock =>
        if st.flag then some (setT st i .idle, .ret)
        else some (setT { st with flag := true } i .collectRead, .parked)
    | .step spur, .collectRead =>
        if spur then some (setT st i .gcUnlock, .parked)
        else
          match st.dead with
          | [] => some (setT st i .gcUnlock, .parked)
          | s :: _ =>
            if Gen.gcStop s st.lastGCSn then some (setT st i .gcUnlock, .parked)
            else some (setT st i (.collectSend s), .parked)
    | .step _, .collectSend s =>
        some (setT { st with lastGCSn := s, sent := st.sent ++ [s], dead := st.dead.erase s } i .collectRead,
              .parked)
    | .step _, .gcUnlock =>
        if cfg.fixedGC then some (setT { st with flag := false } i .gcRecheck, .parked)
        else some (setT { st with flag := false } i .idle, .ret)
    | .step _, .gcRecheck =>
        match st.dead with
        | [] => some (setT st i .idle, .ret)
        | s :: _ =>
          if Gen.collectableHead s st.lastGCSn then some (setT st i .gcTryLock, .parked)
          else some (setT st i .idle, .ret)
    | _, _ => none

/-- run a schedule; `none` as soon as one action is refused; the events are collected in order -/
def exec (cfg : Cfg) (st : St) : List (Nat × Act) → Option (St × List Ev)
  | [] => some (st, [])
  | (i, a) :: r =>
    match step cfg st i a with
    | none => none
    | some (st1, e) =>
      match exec cfg st1 r with
      | none => none
      | some (st2, es) => some (st2, e :: es)

/-- run a script the way the driver does: a refused action (`bad-op`) leaves the state unchanged -/
def execTol (cfg : Cfg) (st : St) : List (Nat × Act) → St × List (Option Ev)
  | [] => (st, [])
  | (i, a) :: r =>
    match step cfg st i a with
    | none => ((execTol cfg st r).1, none :: (execTol cfg st r).2)
    | some (st1, e) => ((execTol cfg st1 r).1, some e :: (execTol cfg st1 r).2)

def run (cfg : Cfg) (st : St) (sched : List (Nat × Act)) : Option St :=
  (exec cfg st sched).map Prod.fst

/-- `n` idle threads, `k` snapshots, each holding its creation reference, all in the live list -/
def init (n k : Nat) : St :=
  { snaps := List.replicate k {}, live := List.range' 1 k, ths := List.replicate n .idle }

/-- no call in progress -/
def quiescent (st : St) : Bool := st.ths.all (fun pc => pc == .idle)

def refs (st : St) (s : Nat) : Int := (getS st s).refs

/-- yield-point name of a parked thread (`none`: idle) -/
def pointName : PC → Option String
  | .idle => none
  | .openLoad _ => some "OPEN_LOAD"
  | .openCas _ _ => some "OPEN_CAS"
  | .closeDec _ => some "CLOSE_DEC"
  | .closeRetire _ => some "CLOSE_RETIRE"
  | .closeRetire2 _ => some "CLOSE_RETIRE2"
  | .closeGC => some "CLOSE_GC"
  | .gcTryLock => some "GC_TRY_LOCK"
  | .collectRead => some "COLLECT_READ"
  | .collectSend _ => some "COLLECT_SEND"
  | .gcUnlock => some "GC_UNLOCK"
  | .gcRecheck => some "GC_RECHECK"

end NitroVerif.RefCount
