/-
  M6 part 2: snapshot iterators (`iterator.go`) and the Visitor (`nitro.go`).

  The skiplist iterator is a cursor over the physical level-0 list.  The cursor holds the node it
  stands on (a `Ver`); "physical next" is the first node of the store that is greater than the held
  node under the insert comparator, so an unlinked node under the cursor needs no special case
  (layering assumption C15: a forward-only cursor that never skips a node present throughout).
  Loops: `skipUnwanted` recurses structurally over the rest of the store; a full scan takes fuel
  (`store.length + 1` suffices — lemma `scanLoop_eq`).
-/
import NitroVerif.Model.Mvcc

namespace NitroVerif.Mvcc
open NitroVerif

/-- `skipUnwanted`: `rest` is the physical list from the cursor on; returns the node it stops at
    and the incremented step counter -/
def skipList (sn : Nat) : List Ver → Int → Option Ver × Int
  | [], c => (none, c)
  | x :: xs, c => if Gen.skipUnwanted x.born x.dead sn then skipList sn xs (c + 1) else (some x, c)

def Iter.skipFrom (it : Iter) (rest : List Ver) (c : Int) : Iter :=
  { it with cur := (skipList it.sn rest c).1, count := (skipList it.sn rest c).2 }

/-- skiplist `Iterator.Seek` with the iterator (key-only) comparator: `succs[0]` onwards -/
def seekRest (p : Ver) (store : List Ver) : List Ver := (findPath iterCmp p store).2

/-- skiplist `Iterator.Next` from node `v`: the nodes after `v` -/
def afterRest (v : Ver) (store : List Ver) : List Ver := store.dropWhile (fun x => !insLt v x)

/-- `Iterator.SeekFirst` -/
def Iter.seekFirst (store : List Ver) (it : Iter) : Iter := it.skipFrom store it.count

/-- `Iterator.Seek(bs)`: the probe item has `bornSn = deadSn = 0` -/
def Iter.seek (store : List Ver) (k : Nat) (it : Iter) : Iter :=
  it.skipFrom (seekRest ⟨k, 0, 0, 0⟩ store) it.count

/-- `Iterator.Refresh`: if valid, re-seek by the current item, then `skipUnwanted` -/
def Iter.refresh (store : List Ver) (it : Iter) : Iter :=
  match it.cur with
  | some v => it.skipFrom (seekRest v store) it.count
  | none => it

/-- `Iterator.Next` (the caller guarantees `Valid()`) -/
def Iter.next (store : List Ver) (it : Iter) : Iter :=
  match it.cur with
  | some v =>
    let it1 := it.skipFrom (afterRest v store) (it.count + 1)
    if Gen.refreshDue it1.rate it1.count then { (it1.refresh store) with count := 0 } else it1
  | none => it

/-- `for it.SeekFirst(); it.Valid(); it.Next()` collecting the items -/
def scanLoop (store : List Ver) : Nat → Iter → List Ver
  | 0, _ => []
  | fuel + 1, it =>
    match it.cur with
    | some v => v :: scanLoop store fuel (it.next store)
    | none => []

def newIter (sn : Nat) (rate : Int) : Iter := { sn := sn, cur := none, count := 0, rate := rate }

/-- the `scan` operation between `NewIterator` and `Close` -/
def scanAll (store : List Ver) (sn : Nat) (rate : Int) : List Ver :=
  scanLoop store (store.length + 1) ((newIter sn rate).seekFirst store)

/-! ### Visitor -/

/-- `prevItm == nil || m.iterCmp(itm, prevItm) > 0` -/
def pivotBigger (prev : Option Ver) (p : Ver) : Bool :=
  match prev with
  | none => true
  | some q => Gen.visitorPivotKeep (cmpOf Gen.visitorPivotCmp p q)

/-- `endItem != nil && m.iterCmp(item, endItem) >= 0` -/
def endReached (endItem : Option Ver) (v : Ver) : Bool :=
  match endItem with
  | some e => Gen.visitorEndStop (cmpOf Gen.visitorEndCmp v e)
  | none => false

/-- the pivot filter: keep a split item if the temporary iterator seeked to it is valid and it
    is bigger than the previous kept pivot -/
def filterPivots (store : List Ver) (sn : Nat) : Option Ver → List Ver → List Ver
  | _, [] => []
  | prev, p :: ps =>
    if ((newIter sn 0).seek store p.key).cur.isSome && pivotBigger prev p then
      p :: filterPivots store sn (some p) ps
    else filterPivots store sn prev ps

/-- one shard: from the iterator's position while the end item is not reached; the callback
    fails on key `fail`.  Returns the items passed to successful callbacks and the error flag. -/
def shardLoop (store : List Ver) (endItem : Option Ver) (fail : Option Nat) : Nat → Iter → List Ver × Bool
  | 0, _ => ([], false)
  | fuel + 1, it =>
    match it.cur with
    | none => ([], false)
    | some v =>
      if endReached endItem v then ([], false)
      else if fail = some v.key then ([], true)
      else
        let r := shardLoop store endItem fail fuel (it.next store)
        (v :: r.1, r.2)

def runShard (store : List Ver) (sn : Nat) (rate : Int) (fail : Option Nat)
    (start endItem : Option Ver) : List Ver × Bool :=
  let it0 := newIter sn rate
  let it := match start with
    | none => it0.seekFirst store
    | some p => it0.seek store p.key
  shardLoop store endItem fail (store.length + 1) it

/-- shards in shard order: `start` is the start item of the first one, `pivots` the remaining
    (kept) pivots, the last shard has no end item -/
def runShards (store : List Ver) (sn : Nat) (rate : Int) (fail : Option Nat) :
    Option Ver → List Ver → List (List Ver × Bool)
  | start, [] => [runShard store sn rate fail start none]
  | start, p :: ps => runShard store sn rate fail start (some p) :: runShards store sn rate fail (some p) ps

/-- result of `Visitor`: per-shard callback sequences and whether some shard reported an error -/
def visitor (store : List Ver) (sn : Nat) (rate : Int) (fail : Option Nat) (pivots : List Ver) :
    List (List Ver) × Bool :=
  let rs := runShards store sn rate fail none (filterPivots store sn none pivots)
  (rs.map (·.1), rs.any (·.2))

/-- strictly ascending keys -/
def ascending : List Ver → Bool
  | [] => true
  | [_] => true
  | a :: b :: r => decide (a.key < b.key) && ascending (b :: r)

/-- the partition flag the driver reports: the concatenation over the shards is strictly
    ascending (hence every shard is ascending and entirely below the later ones) -/
def partOk (shards : List (List Ver)) : Bool := ascending shards.flatten

end NitroVerif.Mvcc
