import NitroVerif.Model.Backup
/-!
  M7, store side: `StoreToDisk` (nitro.go) as a list of file-system effects in program order, for the
  crash and write-failure properties (C12).

  The effects, in the order the code performs them (`Gen.skeleton_StoreToDisk`; deferred calls run in
  reverse order of their `defer`):
      mkdir data; create data/shard-i (empty) for i = 0 … n-1;
      [delta: mkdir delta; create delta/shard-j for every writer]
      nitro.json;
      the Visitor: appends of bytes to the data shard files — bufio flushes whenever its buffer
        fills (`DiskBlockSize`), so the chunking is arbitrary, and `concurr` goroutines work on
        different shards, so the interleaving across shards is arbitrary; only the order of the bytes
        within one file is fixed [delta: the collectors' appends to the delta files are interleaved
        with them];
      data/files.json; data/checksums.json;
      [delta, deferred: terminate handshake, delta/files.json, delta/checksums.json;
       deferred: Close of every delta writer = remaining buffered bytes + terminator]
      deferred: Close of every data writer, one by one = remaining buffered bytes + terminator.
  `ioutil.WriteFile` of a manifest is not atomic: it creates/truncates the file and then writes; a
  crash in between leaves an empty or cut JSON text, which Go's parser rejects (every proper prefix of
  a JSON array/object text is invalid) — effect `manifestBegin`, which leaves the manifest
  `unparsable`, followed by the effect that completes it.  (encoding/json itself is a parameter.)

  A crash image is `imageAfter p` for a PREFIX `p` of the effect list.  A write failure is modelled
  by a byte budget per file (`RLIMIT_FSIZE`, a full disk): `storeWithBudget`.
-/
namespace NitroVerif.Backup
open NitroVerif NitroVerif.Codec

inductive MF where
  | version | files | sums | dfiles | dsums
deriving Repr, DecidableEq

inductive Effect where
  | mkdirData
  | mkdirDelta
  | createData (i : Nat)                 -- os.OpenFile(O_WRONLY|O_CREATE) of data/shard-i
  | createDelta (j : Nat)
  | appendData (i : Nat) (bs : Bytes)    -- one write(2) on data/shard-i
  | appendDelta (j : Nat) (bs : Bytes)
  | manifestBegin (m : MF)               -- the manifest file exists, its JSON text is incomplete
  | writeVersion (v : Nat)               -- nitro.json complete
  | writeFiles (l : List String)         -- data/files.json complete
  | writeSums (l : List Nat)             -- data/checksums.json complete
  | writeDFiles (l : List String)
  | writeDSums (l : List Nat)
deriving Repr, DecidableEq

/-- create an empty file unless it exists (no O_TRUNC) -/
def createFile (name : String) (fs : List (String × Bytes)) : List (String × Bytes) :=
  match lookup name fs with
  | some _ => fs
  | none => fs ++ [(name, [])]

/-- append to an existing file (a file that was never opened receives nothing) -/
def appendFile (name : String) (bs : Bytes) : List (String × Bytes) → List (String × Bytes)
  | [] => []
  | (n, c) :: r => if n = name then (n, c ++ bs) :: r else (n, c) :: appendFile name bs r

def setManifest (img : Image) : MF → Image
  | .version => { img with version := .unparsable }
  | .files => { img with files := .unparsable }
  | .sums => { img with sums := .unparsable }
  | .dfiles => { img with dfiles := .unparsable }
  | .dsums => { img with dsums := .unparsable }

def applyEffect (img : Image) : Effect → Image
  | .mkdirData => img
  | .mkdirDelta => img
  | .createData i => { img with data := createFile (shardName i) img.data }
  | .createDelta j => { img with delta := createFile (shardName j) img.delta }
  | .appendData i bs => { img with data := appendFile (shardName i) bs img.data }
  | .appendDelta j bs => { img with delta := appendFile (shardName j) bs img.delta }
  | .manifestBegin m => setManifest img m
  | .writeVersion v => { img with version := .parsed v }
  | .writeFiles l => { img with files := .parsed l }
  | .writeSums l => { img with sums := .parsed l }
  | .writeDFiles l => { img with dfiles := .parsed l }
  | .writeDSums l => { img with dsums := .parsed l }

/-- the empty directory StoreToDisk starts in -/
def emptyImage : Image :=
  { version := .absent, files := .absent, sums := .absent, dfiles := .absent, dsums := .absent,
    data := [], delta := [] }

def runEffects (img : Image) (es : List Effect) : Image := es.foldl applyEffect img

def imageAfter (es : List Effect) : Image := runEffects emptyImage es

/-- the bytes the effects append to data shard `i`, in order -/
def appendedData (i : Nat) : List Effect → Bytes
  | [] => []
  | .appendData j bs :: r => if j = i then bs ++ appendedData i r else appendedData i r
  | _ :: r => appendedData i r

/-- an effect that is a write on one of the data shards `0 … n-1` -/
def isDataAppend (n : Nat) : Effect → Prop
  | .appendData i _ => i < n
  | _ => False

def createAll : Nat → List Effect
  | 0 => []
  | n + 1 => createAll n ++ [.createData n]

/-- the effects before the Visitor starts -/
def storeHeader (n ver : Nat) : List Effect :=
  [.mkdirData] ++ createAll n ++ [.manifestBegin .version, .writeVersion ver]

/-- files.json and checksums.json -/
def storeManifests (h : Bytes → Nat) (parts : List (List Bytes)) : List Effect :=
  [.manifestBegin .files, .writeFiles (shardNames parts.length),
   .manifestBegin .sums, .writeSums (parts.map (writerChecksum h))]

/-- **The effect lists of a non-delta StoreToDisk of `parts`**: header; the Visitor's writes `mid`
    (any chunking, any interleaving across shards; what has reached a file is a prefix of its items'
    frames — the terminator is written by Close only); the two manifests; the deferred Closes'
    writes `closes` (any chunking).  Per file, `mid` and `closes` together write exactly
    `writeFile part_i`. -/
structure StoreTrace (h : Bytes → Nat) (parts : List (List Bytes)) (ver : Nat) (es : List Effect) where
  mid : List Effect
  closes : List Effect
  shape : es = storeHeader parts.length ver ++ mid ++ storeManifests h parts ++ closes
  midData : ∀ e ∈ mid, isDataAppend parts.length e
  closesData : ∀ e ∈ closes, isDataAppend parts.length e
  midItems : ∀ i (hi : i < parts.length), appendedData i mid <+: parts[i].flatMap encodeItem
  total : ∀ i (hi : i < parts.length), appendedData i (mid ++ closes) = writeFile parts[i]

/-! ### write failures: a byte budget per file -/

inductive StoreResult where
  | ok
  | err
deriving Repr, DecidableEq

/-- `budget` bytes can be written to each file; a write that does not fit writes what fits and fails
    (RLIMIT_FSIZE / ENOSPC).  `msize m` is the size of manifest `m`'s JSON text. -/
structure Budget where
  bytes : Nat
  msize : MF → Nat

def fileSize (name : String) (fs : List (String × Bytes)) : Nat :=
  match lookup name fs with
  | some c => c.length
  | none => 0

def mfOf : Effect → Option MF
  | .writeVersion _ => some .version
  | .writeFiles _ => some .files
  | .writeSums _ => some .sums
  | .writeDFiles _ => some .dfiles
  | .writeDSums _ => some .dsums
  | _ => none

/-- one effect under the budget: the image it leaves and whether it succeeded -/
def applyBudget (b : Budget) (img : Image) (e : Effect) : Image × Bool :=
  match e with
  | .appendData i bs =>
    let room := b.bytes - fileSize (shardName i) img.data
    if bs.length ≤ room then (applyEffect img e, true)
    else (applyEffect img (.appendData i (bs.take room)), false)
  | .appendDelta j bs =>
    let room := b.bytes - fileSize (shardName j) img.delta
    if bs.length ≤ room then (applyEffect img e, true)
    else (applyEffect img (.appendDelta j (bs.take room)), false)
  | _ =>
    match mfOf e with
    | some m => if b.msize m ≤ b.bytes then (applyEffect img e, true) else (setManifest img m, false)
    | none => (applyEffect img e, true)

/-- run effects until one fails -/
def runUntilFailure (b : Budget) : Image → List Effect → Image × Bool
  | img, [] => (img, true)
  | img, e :: r =>
    match applyBudget b img e with
    | (img', true) => runUntilFailure b img' r
    | (img', false) => (img', false)

/-- run all effects, remembering whether one failed (the deferred Closes all run) -/
def runAll (b : Budget) : Image → List Effect → Image × Bool
  | img, [] => (img, true)
  | img, e :: r =>
    match applyBudget b img e with
    | (img', okE) =>
      match runAll b img' r with
      | (img'', okR) => (img'', okE && okR)

/-- StoreToDisk under a byte budget.  `main` = the effects up to checksums.json, `deferred` = the
    deferred Closes.  The first failing effect of `main` makes the function return its error
    (`if err := w.WriteItem… return err`, `if err = ioutil.WriteFile…`), skipping the rest of
    `main`; the deferred Closes run in any case, and — fixed code — the first error of a `Close`
    (terminator, Flush or fd.Close) becomes the return value if there was none
    (`propagateClose = true`; the original code dropped it: `false`). -/
def storeWithBudget (propagateClose : Bool) (b : Budget) (main deferred : List Effect) :
    StoreResult × Image :=
  match runUntilFailure b emptyImage main with
  | (img, okMain) =>
    match runAll b img deferred with
    | (img', okClose) =>
      (if okMain && (okClose || !propagateClose) then .ok else .err, img')

/-! ### delta-mode stores -/

/-- the bytes the effects append to delta file `j`, in order -/
def appendedDelta (j : Nat) : List Effect → Bytes
  | [] => []
  | .appendDelta k bs :: r => if k = j then bs ++ appendedDelta j r else appendedDelta j r
  | _ :: r => appendedDelta j r

def isDeltaAppend (m : Nat) : Effect → Prop
  | .appendDelta j _ => j < m
  | _ => False

def createAllDelta : Nat → List Effect
  | 0 => []
  | m + 1 => createAllDelta m ++ [.createDelta m]

/-- the effects before the Visitor starts, with delta files -/
def storeHeaderDelta (n m ver : Nat) : List Effect :=
  [.mkdirData] ++ createAll n ++ [.mkdirDelta] ++ createAllDelta m ++
    [.manifestBegin .version, .writeVersion ver]

/-- delta/files.json and delta/checksums.json (written by the deferred terminate step) -/
def deltaManifests (h : Bytes → Nat) (dparts : List (List Bytes)) : List Effect :=
  [.manifestBegin .dfiles, .writeDFiles (shardNames dparts.length),
   .manifestBegin .dsums, .writeDSums (dparts.map (writerChecksum h))]

/-- **The effect lists of a delta-mode StoreToDisk**: header; the Visitor's writes on the data shards
    interleaved with the collectors' writes on the delta files (`mid`); files.json, checksums.json;
    further collector writes until the terminate handshake (`mid2`); the delta manifests; the delta
    writers' Closes (`dcloses`); the data writers' Closes (`closes`) — the order in which the deferred
    functions of StoreToDisk run.  `dparts[j]` = what writer `j` logged. -/
structure StoreTraceDelta (h : Bytes → Nat) (parts dparts : List (List Bytes)) (ver : Nat)
    (es : List Effect) where
  mid : List Effect
  mid2 : List Effect
  dcloses : List Effect
  closes : List Effect
  shape : es = storeHeaderDelta parts.length dparts.length ver ++ mid ++ storeManifests h parts ++ mid2 ++
    deltaManifests h dparts ++ dcloses ++ closes
  midOk : ∀ e ∈ mid, isDataAppend parts.length e ∨ isDeltaAppend dparts.length e
  mid2Ok : ∀ e ∈ mid2, isDeltaAppend dparts.length e
  dclosesOk : ∀ e ∈ dcloses, isDeltaAppend dparts.length e
  closesOk : ∀ e ∈ closes, isDataAppend parts.length e
  midItems : ∀ i (hi : i < parts.length), appendedData i mid <+: parts[i].flatMap encodeItem
  total : ∀ i (hi : i < parts.length), appendedData i (mid ++ closes) = writeFile parts[i]
  dmidItems : ∀ j (hj : j < dparts.length),
    appendedDelta j (mid ++ mid2) <+: dparts[j].flatMap encodeItem
  dtotal : ∀ j (hj : j < dparts.length), appendedDelta j (mid ++ mid2 ++ dcloses) = writeFile dparts[j]

end NitroVerif.Backup
