import NitroVerif.Model.Codec
/-!
  M7 Backup: `LoadFromDisk` (nitro.go) over an abstract image of the backup directory, and the image
  a successful `StoreToDisk` leaves.

  What is modelled, step by step as in LoadFromDisk (the FIXED code in /repo):
    * nitro.json: absent ⇒ version 0; unreadable/unparsable ⇒ error; else `mMap["version"]`;
    * data/files.json: absent or unparsable ⇒ error;
    * data/checksums.json: absent ⇒ shards are not checked (`hasChecksums = false`); unparsable ⇒ error;
      `len(checksums) != len(files)` ⇒ ErrCorruptSnapshot;
    * every listed file is opened in files.json order: one missing ⇒ error;
    * every shard is decoded by the M1 reader `Codec.readFile h ver` (`h` = crc32.ChecksumIEEE,
      generic here); the checksum test is the generated `Gen.checksumMismatch`; a read error or a
      mismatch in any shard ⇒ error (the code tests all checksums first and the read errors second;
      both return an error and the model has a single error value);
    * the restored list is the concatenation of the shards' items in files.json order
      (`Builder.Assemble` of the segments; C18 covers Assemble) — no comparison is made on this path;
    * with delta files (`useDelta`): delta/files.json absent ⇒ no delta files; unparsable ⇒ error;
      delta/checksums.json like the data one (`Gen.deltaChecksumMismatch`); every delta item is
      inserted with `Insert2(itm, insCmp, existCmp)`; restored items have bornSn = deadSn = 0, so
      `insCmp`/`existCmp` are `Gen.insertCompare · 0 0` / `Gen.existCompare · 0 0` of the key comparison;
      the walk is `findPath` on level 0 (`Gen.findAdvance`, `Gen.findFound`), followed by the
      `eqCmp(itm, preds[0])` test of `Insert4`.

  Abstractions (stated, not hidden):
    * encoding/json is a PARAMETER: a manifest is `absent | unparsable | parsed value` (the harness
      passes Go's own parse result).  A read error other than "not exist" is folded into `unparsable`
      for nitro.json and into `absent` for checksums.json, as the code does.
    * the key comparison is a parameter `keyCmp : Bytes → Bytes → Int`.
    * the worker pool (which goroutine decodes which shard) does not influence the outcome in the fixed
      code (a worker that hits an error leaves the shard loop and keeps receiving); the outcome is
      modelled directly and the pool separately in `Model/LoadPool.lean`.  Delta shards are inserted in
      files.json order here; `Props/C05` shows the result does not depend on the interleaving under the
      hypotheses of the round trip.
    * the skiplist is its level-0 list; on a sorted list the tower search finds the same position (C13).
      On an unsorted base list (reachable only through the residual damages of C11) the position of a
      delta item is the level-0 walk.
    * `Count()` of the returned snapshot is the node count of the restored list = `items.length`.
-/
namespace NitroVerif.Backup
open NitroVerif NitroVerif.Codec

/-- what Go's `ioutil.ReadFile` + `json.Unmarshal` made of a manifest file -/
inductive Manifest (α : Type) where
  | absent
  | unparsable
  | parsed (a : α)
deriving Repr, DecidableEq

/-- the image of a backup directory.  `data`/`delta`: file name (relative to `data/`, `delta/`) →
    content; a name that does not occur = the file does not exist. -/
structure Image where
  version : Manifest Nat
  files : Manifest (List String)
  sums : Manifest (List Nat)
  dfiles : Manifest (List String)
  dsums : Manifest (List Nat)
  data : List (String × Bytes)
  delta : List (String × Bytes)
deriving Repr, DecidableEq

inductive Outcome where
  | err
  | ok (items : List Bytes)
deriving Repr, DecidableEq

/-- `Count()` of the snapshot LoadFromDisk returns -/
def Outcome.count : Outcome → Option Nat
  | .err => none
  | .ok items => some items.length

/-- content of the file called `name` (first entry wins; the images built here have distinct names) -/
def lookup (name : String) : List (String × Bytes) → Option Bytes
  | [] => none
  | (n, b) :: r => if n = name then some b else lookup name r

/-- `r.Open(datafile)` for every listed file, in order: `none` as soon as one is missing -/
def openAll (fs : List (String × Bytes)) : List String → Option (List Bytes)
  | [] => some []
  | n :: r =>
    match lookup n fs with
    | none => none
    | some b =>
      match openAll fs r with
      | none => none
      | some bs => some (b :: bs)

/-- nitro.json -/
def versionOf : Manifest Nat → Option Nat
  | .absent => some 0
  | .unparsable => none
  | .parsed v => some v

/-- checksums.json for `n` listed files: `(hasChecksums, checksums)` -/
def sumsOf (m : Manifest (List Nat)) (n : Nat) : Option (Bool × List Nat) :=
  match m with
  | .absent => some (false, List.replicate n 0)
  | .unparsable => none
  | .parsed cs => if cs.length ≠ n then none else some (true, cs)

/-- delta/files.json: a missing file means "no delta files" -/
def dfilesOf : Manifest (List String) → Option (List String)
  | .absent => some []
  | .unparsable => none
  | .parsed fs => some fs

/-- decode every shard and test its checksum (`mismatch stored actual`); `none` = LoadFromDisk
    returns an error -/
def readShards (h : Bytes → Nat) (ver : Nat) (mismatch : Nat → Nat → Bool) :
    List (Nat × Bytes) → Option (List (List Bytes))
  | [] => some []
  | (s, b) :: r =>
    match readFile h ver b with
    | .err _ => none
    | .ok items sum _ =>
      if mismatch s sum then none else
      match readShards h ver mismatch r with
      | none => none
      | some l => some (items :: l)

/-! ### insertion of a delta item (Insert2 on restored items: bornSn = deadSn = 0) -/

/-- `insCmp(curr, itm)` on restored items -/
def insCmp (keyCmp : Bytes → Bytes → Int) (c x : Bytes) : Int := Gen.insertCompare (keyCmp c x) 0 0

/-- `eqCmp(itm, preds[0]) == 0`; `none` = the head node (`compare` returns 1 for MinItem) -/
def predEq (keyCmp : Bytes → Bytes → Int) (x : Bytes) : Option Bytes → Bool
  | none => false
  | some p => decide (Gen.existCompare (keyCmp x p) 0 0 = 0)

/-- findPath on level 0 followed by the tests of Insert4: `none` = rejected (an equal item exists),
    `some l` = the list with `x` linked in -/
def insertAux (keyCmp : Bytes → Bytes → Int) (x : Bytes) : Option Bytes → List Bytes → Option (List Bytes)
  | pred, [] => if predEq keyCmp x pred then none else some [x]
  | pred, c :: r =>
    if Gen.findAdvance (insCmp keyCmp c x) then
      match insertAux keyCmp x (some c) r with
      | none => none
      | some l => some (c :: l)
    else if Gen.findFound (insCmp keyCmp c x) then none
    else if predEq keyCmp x pred then none
    else some (x :: c :: r)

/-- one delta item: inserted, or dropped (`DeltaRestoreFailed++`) -/
def deltaInsert (keyCmp : Bytes → Bytes → Int) (l : List Bytes) (x : Bytes) : List Bytes :=
  match insertAux keyCmp x none l with
  | none => l
  | some l' => l'

def insertAll (keyCmp : Bytes → Bytes → Int) (base : List Bytes) (ds : List Bytes) : List Bytes :=
  ds.foldl (deltaInsert keyCmp) base

/-! ### LoadFromDisk -/

/-- the data part: version, manifests, shard files → the shards' item lists -/
def loadShards (h : Bytes → Nat) (ver : Nat) (mismatch : Bool → Nat → Nat → Bool)
    (files : List String) (sums : Manifest (List Nat)) (fs : List (String × Bytes)) :
    Option (List (List Bytes)) :=
  match sumsOf sums files.length with
  | none => none
  | some (has, cs) =>
    match openAll fs files with
    | none => none
    | some contents => readShards h ver (mismatch has) (cs.zip contents)

/-- LoadFromDisk.  `useDelta` = `Config.useDeltaFiles` of the loading instance. -/
def load (h : Bytes → Nat) (keyCmp : Bytes → Bytes → Int) (useDelta : Bool) (img : Image) : Outcome :=
  match versionOf img.version with
  | none => .err
  | some ver =>
    match img.files with
    | .absent => .err
    | .unparsable => .err
    | .parsed files =>
      match loadShards h ver Gen.checksumMismatch files img.sums img.data with
      | none => .err
      | some shards =>
        if !useDelta then .ok shards.flatten else
        match dfilesOf img.dfiles with
        | none => .err
        | some dfiles =>
          match loadShards h ver Gen.deltaChecksumMismatch dfiles img.dsums img.delta with
          | none => .err
          | some dshards => .ok (insertAll keyCmp shards.flatten dshards.flatten)

/-! ### the image a successful StoreToDisk leaves -/

/-- `fmt.Sprintf("shard-%d", i)` -/
def shardName (i : Nat) : String := "shard-" ++ Nat.repr i

def shardNames (n : Nat) : List String := (List.range n).map shardName

/-- a directory holding `shard-(k+i)` with content `cs[i]` -/
def filesOf : Nat → List Bytes → List (String × Bytes)
  | _, [] => []
  | k, c :: r => (shardName k, c) :: filesOf (k + 1) r

/-- the shard files of a completed store: `shard-(k+i)` holds `writeFile part_i` -/
def shardFiles (k : Nat) (parts : List (List Bytes)) : List (String × Bytes) :=
  filesOf k (parts.map writeFile)

/-- the directory without the file `name` -/
def removeFile (name : String) (fs : List (String × Bytes)) : List (String × Bytes) :=
  fs.filter (fun p => p.1 ≠ name)

/-- non-delta StoreToDisk: `parts` is the partition of the snapshot content the Visitor made
    (C10: `parts.flatten = content`); `ver` is the constant `version` of nitro.go -/
def storeImage (h : Bytes → Nat) (parts : List (List Bytes)) (ver : Nat := 1) : Image :=
  { version := .parsed ver
    files := .parsed (shardNames parts.length)
    sums := .parsed (parts.map (writerChecksum h))
    dfiles := .absent
    dsums := .absent
    data := shardFiles 0 parts
    delta := [] }

/-- StoreToDisk with `useDeltaFiles`: additionally one delta file per writer, `dparts[j]` = the
    versions writer `j`'s collector logged while the backup ran -/
def storeImageDelta (h : Bytes → Nat) (parts dparts : List (List Bytes)) (ver : Nat := 1) : Image :=
  { storeImage h parts ver with
    dfiles := .parsed (shardNames dparts.length)
    dsums := .parsed (dparts.map (writerChecksum h))
    delta := shardFiles 0 dparts }

/-- LoadFromDisk never hangs or panics in the model: `load` is a total function, so it has a value
    on every image (the pool is in `Model/LoadPool.lean`). -/
theorem load_terminates (h : Bytes → Nat) (keyCmp : Bytes → Bytes → Int) (useDelta : Bool) (img : Image) :
    ∃ o, load h keyCmp useDelta img = o := ⟨_, rfl⟩

end NitroVerif.Backup
