import NitroVerif.Model.SkipConc
/-!
  M5F — the lock-free skiplist at compare-and-swap granularity (M5, `Model/SkipConc.lean`, UNCHANGED and wrapped)
  with REAL RECLAMATION, as the Go harness engine `skipconc` runs it with `mem=mmfree`:

  * every call runs under one token of the access barrier: `Insert`, `Delete`, `Lookup` and `delf`
    (= `Acquire; Lookup; DeleteNode2; Release; FlushSession(node)` when DeleteNode2 said `true`) take a token at
    the entry of the call and give it back when the call returns; an iterator takes a token when it is created
    (`NewIterator`), exchanges it in `Refresh` (`it.bs = Acquire()` before ITER_REFRESH, `Release(currBs)` after the
    Seek) and gives it back in `Close`;
  * the barrier's destructor frees node and item: the node id joins `freed`.

  The access barrier is abstract, as in `Model/MvccConc.lean` (C16/C17 justify it): a session has the list of its
  token holders, a `flushed` flag and the nodes attached by `FlushSession`; `acquire` adds a holder to the current
  (last) session; `flush` closes the current session with the node attached and opens a new one; a flushed session
  without holders is terminated; terminated sessions are destructed strictly in session order, eagerly (`cleanup`,
  run after every release and flush).  Acquire / Release / FlushSession have no yield point in this engine: they run
  inside the segment that reaches them (`start` for the entry, the last `step` of the call for the exit).

  `derefs s t` lists the nodes whose memory (a `next` word, the level, the item) the segment that thread `t` is about
  to run reads or CASes; `uaf s t` says that one of them has been freed.

  Not modelled: `Iterator.Pause/Resume` (finding C15-D24 is about them; M5 of this project copy has no such
  operations); the dereferences of the `start` segments (`SeekFirst` reads `head.next[0]` and the item of the first
  node in the segment that took the iterator's token).
-/
namespace NitroVerif.SkipFree
open NitroVerif NitroVerif.SkipConc

/-- who holds a barrier token: the current call of thread `t`, or iterator `i` of thread `t` -/
inductive Holder where
  | thr (t : Nat)
  | it (t i : Nat)
deriving Repr, DecidableEq

structure Sess where
  holders : List Holder := []
  flushed : Bool := false
  /-- the object attached by `FlushSession` (`[]` = nil) -/
  list : List Nat := []
deriving Repr

/-- the API calls: those of M5 and `delf` (Delete as nitro does it, the node handed to the barrier) -/
inductive Op where
  | base (op : SkipConc.Op)
  | delf (k : Nat)
deriving Repr

/-- what the wrapper remembers about the current call of a thread -/
structure Call where
  /-- the session of the token taken at the entry of the call (`ins`, `del`, `look`, `delf`) -/
  tok : Option Nat := none
  /-- the call is a `delf` -/
  delf : Bool := false
  /-- `curr` of the harness closure: the node `Lookup` returned and `DeleteNode2` works on -/
  node : Option Nat := none
  /-- a `Refresh` in progress: the iterator and `currBs`, the session of the token to release when Seek is done -/
  refresh : Option (Nat × Option Nat) := none
deriving Repr

structure Sys where
  base : SkipConc.Sys := {}
  /-- index = session id; the last one is the current session -/
  sess : List Sess := [({} : Sess)]
  /-- sessions `< freeSeq` are destructed -/
  freeSeq : Nat := 0
  /-- the nodes freed by the destructor, in order -/
  freed : List Nat := []
  calls : List Call := []
  /-- the session of the token of iterator (thread, name) -/
  itTok : List ((Nat × Nat) × Nat) := []
deriving Repr

def Sys.init (n : Nat) : Sys :=
  { base := { sh := Shared.init, threads := List.replicate n {} }, calls := List.replicate n {} }

/-! ### the abstract access barrier -/

def Sess.terminated (s : Sess) : Bool := s.flushed && s.holders.isEmpty

/-- the sessions that can be destructed now, in order -/
def readySess (sess : List Sess) (freeSeq : Nat) : List Sess := (sess.drop freeSeq).takeWhile Sess.terminated

/-- the nodes attached to a list of sessions -/
def attached (l : List Sess) : List Nat := l.flatMap (·.list)

/-- destruct every session that is terminated and has no undestructed predecessor: its nodes are freed -/
def cleanup (s : Sys) : Sys :=
  { s with freeSeq := s.freeSeq + (readySess s.sess s.freeSeq).length,
           freed := s.freed ++ attached (readySess s.sess s.freeSeq) }

def curTok (s : Sys) : Nat := s.sess.length - 1

def acqSess (sess : List Sess) (h : Holder) : List Sess :=
  sess.modify (sess.length - 1) (fun x => { x with holders := x.holders ++ [h] })

def relSess (sess : List Sess) (tok : Nat) (h : Holder) : List Sess :=
  sess.modify tok (fun x => { x with holders := x.holders.erase h })

def flushSess (sess : List Sess) (list : List Nat) : List Sess :=
  sess.modify (sess.length - 1) (fun x => { x with flushed := true, list := list }) ++ [({} : Sess)]

/-- `Acquire`: a token of the current session (`curTok`) -/
def acquire (s : Sys) (h : Holder) : Sys := { s with sess := acqSess s.sess h }

/-- `Release` of the token of session `tok` held by `h` -/
def release (s : Sys) (tok : Nat) (h : Holder) : Sys := cleanup { s with sess := relSess s.sess tok h }

/-- `FlushSession(list)` -/
def flush (s : Sys) (list : List Nat) : Sys := cleanup { s with sess := flushSess s.sess list }

def iterTok (s : Sys) (t i : Nat) : Option Nat := (s.itTok.find? fun p => p.1 == (t, i)).map (·.2)

def setIterTok (s : Sys) (t i tok : Nat) : Sys :=
  { s with itTok := (s.itTok.filter fun p => p.1 != (t, i)) ++ [((t, i), tok)] }

def dropIterTok (s : Sys) (t i : Nat) : Sys := { s with itTok := s.itTok.filter fun p => p.1 != (t, i) }

/-! ### calls -/

def pcOf (s : Sys) (t : Nat) : PC := (s.base.threads.getD t {}).pc

def callOf (s : Sys) (t : Nat) : Call := s.calls.getD t {}

/-- the thread is in the cleaning phase of deleteNode: softDelete reported `true` (DEL_SEARCH, the search after it) -/
def inClean : PC → Bool
  | .delSearch _ => true
  | .findLevel fp | .findNext fp _ | .helpDelete fp _ => fp.cont == .delClean
  | _ => false

/-- the node a thread parked at SOFT_MARK works on -/
def markNode : PC → Option Nat
  | .softMark _ n _ _ _ => some n
  | _ => none

def refreshIter : PC → Option Nat
  | .iterRefresh it => some it
  | _ => none

/-- `Release(currBs)` at the end of a Refresh -/
def relRefresh (s : Sys) (t : Nat) (c : Call) : Sys :=
  match c.refresh with
  | some (it, some old) => release s old (.it t it)
  | _ => s

/-- `Release(tok)` at the end of `ins`, `del`, `look`, `delf` -/
def relCall (s : Sys) (t : Nat) (c : Call) : Sys :=
  match c.tok with
  | some tok => release s tok (.thr t)
  | none => s

/-- `if done { FlushSession(curr) }` of `delf`: DeleteNode2 said `true` iff it returns from the cleaning search -/
def flushCall (s : Sys) (c : Call) (pre : PC) : Sys :=
  if c.delf && inClean pre then
    match c.node with
    | some n => flush s [n]
    | none => s
  else s

/-- `curr` of the closure after a segment that ends at program counter `post` -/
def nodeAfter (c : Call) (post : PC) : Option Nat :=
  match markNode post with
  | some n => some n
  | none => c.node

/-- bookkeeping after thread `t` ran a segment of M5 (`pre` = the program counter it started from; `s.base` is the
    M5 state after the segment):
    * arriving at SOFT_MARK: the closure's `curr` is the node found;
    * arriving at ITER_REFRESH: `currBs := it.bs; it.bs = Acquire()` happened in this segment;
    * the call returned: `Release(currBs)` of a Refresh, `Release(tok)` of the call, and for a `delf` whose
      DeleteNode2 said `true` (it returns from the cleaning search) `FlushSession(curr)`. -/
def settle (s : Sys) (t : Nat) (pre : PC) : Sys :=
  let post := pcOf s t
  let c := callOf s t
  let c1 : Call := { c with node := nodeAfter c post }
  match refreshIter post with
  | some it =>
    -- not idle
    let s2 := setIterTok (acquire s (.it t it)) t it (curTok s)
    { s2 with calls := s2.calls.set t { c1 with refresh := some (it, iterTok s t it) } }
  | none =>
    if isIdle post then
      let s5 := flushCall (relCall (relRefresh s t c1) t c1) c1 pre
      { s5 with calls := s5.calls.set t {} }
    else { s with calls := s.calls.set t c1 }

/-- the M5 operation behind an operation -/
def Op.toBase : Op → SkipConc.Op
  | .base op => op
  | .delf k => .del k

def Op.isDelf : Op → Bool
  | .delf _ => true
  | _ => false

/-- the barrier step at the entry of a call, before the M5 `start` -/
def enter (s : Sys) (t : Nat) : Op → Sys
  | .delf _ | .base (.ins _ _) | .base (.del _) | .base (.look _) =>
    { acquire s (.thr t) with calls := s.calls.set t { tok := some (curTok s) } }
  | .base (.itFirst it) | .base (.itSeek it _) =>
    -- `NewIterator` (only if the harness has no iterator of that name): `it.bs = Acquire()`
    match iterTok s t it with
    | some _ => s
    | none => setIterTok (acquire s (.it t it)) t it (curTok s)
  | .base (.itClose it) =>
    match iterTok s t it with
    | some tok => dropIterTok (release s tok (.it t it)) t it
    | none => s
  | .base (.itNext _) | .base (.itInterval _ _) | .base (.itRefresh _) => s

/-- is the operation accepted by M5 (the thread exists and is idle; iterator operations: the iterator exists and,
    for Next / Refresh, stands on an item)?  A refused operation changes nothing. -/
def accepted (s : Sys) (t : Nat) (op : Op) : Bool :=
  match s.base.threads[t]? with
  | none => false
  | some th =>
    isIdle th.pc &&
    match op with
    | .base (.itNext it) | .base (.itRefresh it) =>
      (match th.iter? it with
       | some I => (match keyOf s.base.sh.heap I.curr with | .fin _ => true | _ => false)
       | none => false)
    | .base (.itClose it) => (th.iter? it).isSome
    | .base (.itInterval it n) => (th.iter? it).isSome && decide (1 ≤ n)
    | _ => true

/-- `start t op`: the entry of a call up to its first yield point (or to its end, when it has none) -/
def Sys.start (s : Sys) (t : Nat) (op : Op) : Sys :=
  if accepted s t op then
    let s1 := enter s t op
    let s2 := { s1 with calls := s1.calls.set t { (callOf s1 t) with delf := op.isDelf },
                        base := (s1.base.start t op.toBase).1 }
    settle s2 t .idle
  else s

/-- `step t`: one segment of M5 and the barrier steps it reaches -/
def Sys.step (s : Sys) (t : Nat) : Sys :=
  match s.base.threads[t]? with
  | none => s
  | some th =>
    if isIdle th.pc then s
    else settle { s with base := (s.base.step t).1 } t th.pc

/-- what the harness can do -/
inductive Action where
  | start (t : Nat) (op : Op)
  | step (t : Nat)
deriving Repr

def Sys.act (s : Sys) : Action → Sys
  | .start t op => s.start t op
  | .step t => s.step t

def Sys.run (s : Sys) (as : List Action) : Sys := as.foldl Sys.act s

/-! ### dereferences -/

/-- the node whose ITEM a search started by an iterator compares against in every `compare` (`it.curr.Item()`,
    read before the search began and kept as a pointer) -/
def probeNode (th : Thread) : Cont → List Nat
  | .iterNext it | .iterRefresh it => [(th.iter it).curr]
  | _ => []

/-- the nodes whose memory the segment from program counter `th.pc` reads or CASes
    (skiplist.go findPath / helpDelete / Insert4 / softDelete, iterator.go Next) -/
def derefsThread (sh : Shared) (th : Thread) : List Nat :=
  let h := sh.heap
  match th.pc with
  | .idle => []
  | .newLevel _ _ _ => []
  -- `curr, _ := prev.getNext(i)`
  | .findLevel fp => [fp.prev]
  -- (`curr, _ = prev.getNext(i)`;) `next, deleted := curr.getNext(i)`; unless deleted: `compare(cmp, curr.Item(), itm)`;
  -- what the callers do with `succs[0] = curr` at the end (`delNode.getNext`, `Level()`, `Get()`) is the same node
  | .findNext fp reread =>
    let c := if reread then (getNext h fp.prev fp.i).1 else fp.curr
    (if reread then [fp.prev, c] else [c]) ++ (if (getNext h c fp.i).2 then [] else probeNode th fp.cont)
  -- `prev.dcasNext(level, curr, next)`; `curr.Level()` for the accounting
  | .helpDelete fp next =>
    if Gen.helpAccounts (dcas h fp.prev fp.i fp.curr next false).2 fp.i then [fp.prev, fp.curr] else [fp.prev]
  -- `buf.preds[0].dcasNext(0, buf.succs[0], x)` (x is still private)
  | .insPublish _ _ => [th.pred 0]
  -- `x.getNext(i)`, `x.dcasNext(..)`, `next.getNext(i)` of the recorded successor
  | .insUpRead _ x _ i =>
    if (getNext h x i).2 then [x] else if sh.fixedSucc then [x, th.succ i] else [x]
  -- `buf.preds[i].dcasNext(i, next, x)`, then `x.getNext(i)`
  | .insUpLink _ x _ i next =>
    if (dcas h (th.pred i) i next x false).2 then [th.pred i, x] else [th.pred i]
  -- `delNode.dcasNext(i, next, next, false, true)`, `delNode.getNext(..)`
  | .softMark _ n _ _ _ => [n]
  | .delSearch _ => []
  -- `it.curr.getNext(0)`; not deleted: the cursor moves to `next`, whose item is read (`Get()` in Refresh / by the caller)
  | .iterNext it =>
    let I := th.iter it
    let w := getNext h I.curr 0
    if w.2 then [I.curr] else [I.curr, w.1]
  -- `it.prev.dcasNext(0, it.curr, next)`, `curr.Level()` / `it.curr.Item()`; swapped: the cursor moves to `next`
  | .iterHelp it next =>
    let I := th.iter it
    if (dcas h I.prev 0 I.curr next false).2 then [I.prev, I.curr, next] else [I.prev, I.curr]
  -- `it.Seek(itm)`: `itm` was read before the yield point
  | .iterRefresh _ => []

/-- the nodes the segment thread `t` is about to run dereferences -/
def derefs (s : Sys) (t : Nat) : List Nat :=
  match s.base.threads[t]? with
  | some th => derefsThread s.base.sh th
  | none => []

/-- USE AFTER FREE: the next segment of thread `t` touches a freed node -/
def uaf (s : Sys) (t : Nat) : Bool := (derefs s t).any fun n => s.freed.contains n

end NitroVerif.SkipFree
