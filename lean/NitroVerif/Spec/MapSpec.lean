/-!
  Abstract specifications for C20.

  * `AL β`: association lists over `Nat` keys (`get` / `set` / `del`), used both as the spec map
    `Key → Ptr` and, in the model, as the image of Go's `map[uint32]…` (iteration order is never
    observed, only lookups, so the order of the list is irrelevant).
  * `MapSpec`: the node table seen from outside — a map from keys to pointers with
    Update / Get / Remove / ItemsCount.
  * `ListSpec`: the node list seen from outside — a list with Add at the head, Remove of the first
    node with an equal key, Keys in list order and Head.
-/
namespace NitroVerif

/-! ### association lists -/
namespace AL

/-- lookup of the first entry with key `k` -/
def get {β : Type} : List (Nat × β) → Nat → Option β
  | [], _ => none
  | (k', v) :: r, k => if k' = k then some v else get r k

/-- replace the entry of `k` if there is one, else append a new entry -/
def set {β : Type} : List (Nat × β) → Nat → β → List (Nat × β)
  | [], k, v => [(k, v)]
  | (k', v') :: r, k, v => if k' = k then (k, v) :: r else (k', v') :: set r k v

/-- delete the (first) entry of `k` -/
def del {β : Type} : List (Nat × β) → Nat → List (Nat × β)
  | [], _ => []
  | (k', v') :: r, k => if k' = k then r else (k', v') :: del r k

def keys {β : Type} (m : List (Nat × β)) : List Nat := m.map (·.1)

end AL

/-! ### the node table as a map -/
namespace MapSpec

inductive Op where
  | update (k p : Nat)
  | get (k : Nat)
  | remove (k : Nat)
  | count
deriving Repr, DecidableEq

inductive Out where
  | updated (updated : Bool) (old : Option Nat)
  | got (p : Option Nat)
  | removed (success : Bool) (p : Option Nat)
  | count (n : Nat)
deriving Repr, DecidableEq

abbrev Map := List (Nat × Nat)

def step (m : Map) : Op → Map × Out
  | .update k p => (AL.set m k p, .updated (AL.get m k).isSome (AL.get m k))
  | .get k => (m, .got (AL.get m k))
  | .remove k => (AL.del m k, .removed (AL.get m k).isSome (AL.get m k))
  | .count => (m, .count m.length)

/-- run from a given map, collecting the outputs -/
def runFrom (m : Map) : List Op → Map × List Out
  | [] => (m, [])
  | op :: ops =>
    let (m1, o) := step m op
    let (m2, os) := runFrom m1 ops
    (m2, o :: os)

def run (ops : List Op) : Map × List Out := runFrom [] ops

end MapSpec

/-! ### the node list as a list -/
namespace ListSpec

/-- a node: its identity and the key bytes of its item -/
abbrev Node := Nat × List UInt8

inductive Op where
  | add (id : Nat) (key : List UInt8)
  | remove (key : List UInt8)
  | keys
  | head
deriving Repr, DecidableEq

inductive Out where
  | ok
  | removed (id : Option Nat)
  | keys (ks : List (List UInt8))
  | head (id : Option Nat)
deriving Repr, DecidableEq

def step (l : List Node) : Op → List Node × Out
  | .add id key => ((id, key) :: l, .ok)
  | .remove key => (l.eraseP (fun n => n.2 == key), .removed ((l.find? (fun n => n.2 == key)).map (·.1)))
  | .keys => (l, .keys (l.map (·.2)))
  | .head => (l, .head (l.head?.map (·.1)))

def runFrom (l : List Node) : List Op → List Node × List Out
  | [] => (l, [])
  | op :: ops =>
    let (l1, o) := step l op
    let (l2, os) := runFrom l1 ops
    (l2, o :: os)

def run (ops : List Op) : List Node × List Out := runFrom [] ops

end ListSpec
end NitroVerif
