import NitroVerif.Model.RefCount
/-!
  Vocabulary of the C08 / C06-hand-off statements over the `RefCount` model (core only).
-/
namespace NitroVerif.RefCount

/-- number of threads parked before the decrement of snapshot `s` (each carries one reference
    it took from the pool when its `Close` started) -/
def closing (st : St) (s : Nat) : Nat := st.ths.countP (fun pc => pc == .closeDec s)

/-- number of threads whose decrement reached zero and that are parked before deleting `s` from the
    live list (`CLOSE_RETIRE s`) -/
def retiring (st : St) (s : Nat) : Nat := st.ths.countP (fun pc => pc == .closeRetire s)

/-- number of threads that deleted `s` from the live list and are parked before inserting it into
    the dead list (`CLOSE_RETIRE2 s`): `s` is in neither list -/
def retiring2 (st : St) (s : Nat) : Nat := st.ths.countP (fun pc => pc == .closeRetire2 s)

/-- references on `s` that are held and not being closed right now (ghost pool) -/
def held (st : St) (s : Nat) : Nat := (getS st s).held

/-- how many times `s` was moved to the dead list (ghost) -/
def retiredCount (st : St) (s : Nat) : Nat := (getS st s).retired

/-- the protocol as repaired in /repo -/
def fixedCfg : Cfg := { fixedOpen := true, fixedGC := true }

end NitroVerif.RefCount
