/-
  Specification of the MVCC layer (C01 C02 C09 C10): a set of items keyed by the key, plus the
  recorded contents of the snapshots.  Core Lean only.

  Abstractions (shared with `Model/Mvcc.lean`): keys and values are `Nat` (the key comparator of
  the real store is an arbitrary lawful total order on byte strings; here it is `<` on `Nat`),
  counters are unbounded.  Iterators, node handles, writers and snapshots are named by numbers.

  The operation alphabet `Op` and the observations `Out` are shared by the model and the
  specification, so that "the model refines the specification" is an equality of output lists.
-/
namespace NitroVerif.SetSpec

/-- an item as the user sees it: key and value -/
abbrev Item := Nat × Nat

/-- operations of the sequential API (one goroutine, any writer per operation) -/
inductive Op where
  | put (w k v : Nat)
  | del (w k : Nat)
  | get (w k : Nat)
  | getnode (w k h : Nat)
  | delnode (w h : Nat)
  | snap
  | open (s : Nat)
  | close (s : Nat)
  | count (s : Nat)
  | items
  | scan (s : Nat) (rate : Int)
  | itNew (i s : Nat)
  | itRate (i : Nat) (r : Int)
  | itFirst (i : Nat)
  | itSeek (i k : Nat)
  | itNext (i : Nat)
  | itRefresh (i : Nat)
  | itClose (i : Nat)
  /-- Visitor on snapshot `s`; `pivots` are the keys of the split items handed out by the skiplist
      (arbitrary), `rate` the configured refresh rate, `fail` the key on which the callback fails -/
  | visit (s : Nat) (pivots : List Nat) (rate : Int) (fail : Option Nat)
deriving Repr, DecidableEq

/-- observations -/
inductive Out where
  | bool (b : Bool)
  | val (v : Option Nat)
  | found (b : Bool)
  | snap (sn : Nat) (count : Int)
  | ok
  | num (n : Int)
  | items (l : List Item)
  | nil
  | cursor (c : Option Item)
  | visit (part : Bool) (l : List Item)
  | visitErr
  | bad
deriving Repr, DecidableEq

/-! association lists named by numbers (used by the model as well) -/
def alookup {α : Type} (n : Nat) : List (Nat × α) → Option α
  | [] => none
  | (m, a) :: r => if m = n then some a else alookup n r

def aerase {α : Type} (n : Nat) (l : List (Nat × α)) : List (Nat × α) :=
  l.filter (fun p => p.1 != n)

/-- replace the entry named `n` in place, or append it -/
def aset {α : Type} (n : Nat) (a : α) : List (Nat × α) → List (Nat × α)
  | [] => [(n, a)]
  | (m, b) :: r => if m = n then (n, a) :: r else (m, b) :: aset n a r

def amap {α : Type} (f : α → α) (l : List (Nat × α)) : List (Nat × α) :=
  l.map (fun p => (p.1, f p.2))

/-- an alive item: key, value and the epoch (current snapshot number) in which it was inserted.
    `(key, epoch)` names the instance a node handle refers to. -/
structure Entry where
  key : Nat
  val : Nat
  epoch : Nat
deriving Repr, DecidableEq

structure Snap where
  sn : Nat
  rc : Int
  content : List Item
deriving Repr

structure Iter where
  sn : Nat
  cur : Option Item
deriving Repr

structure Handle where
  key : Nat
  epoch : Nat
  valid : Bool
deriving Repr

structure State where
  nwriters : Nat
  alive : List Entry        -- sorted by key, keys distinct
  epoch : Nat
  items : Int               -- ItemsCount as of the last snapshot
  snaps : List Snap         -- in creation order
  iters : List (Nat × Iter)
  handles : List (Nat × Handle)
deriving Repr

def init (nwriters : Nat) : State :=
  { nwriters := nwriters, alive := [], epoch := 1, items := 0, snaps := [], iters := [], handles := [] }

def findKey (k : Nat) (l : List Entry) : Option Entry := l.find? (fun e => e.key == k)

/-- insertion keeping the list sorted by key -/
def ins (e : Entry) : List Entry → List Entry
  | [] => [e]
  | x :: xs => if x.key < e.key then x :: ins e xs else e :: x :: xs

def removeKey (k : Nat) (l : List Entry) : List Entry := l.filter (fun e => e.key != k)

/-- removing an instance invalidates every handle to it -/
def invalidate (k ep : Nat) (hs : List (Nat × Handle)) : List (Nat × Handle) :=
  amap (fun h => if h.key = k ∧ h.epoch = ep then { h with valid := false } else h) hs

def findSnap (s : Nat) (l : List Snap) : Option Snap := l.find? (fun x => x.sn == s)

def updSnap (s : Nat) (f : Snap → Snap) (l : List Snap) : List Snap :=
  l.map (fun x => if x.sn = s then f x else x)

/-- number of iterators standing on snapshot `s` (each owns one reference) -/
def itersOn (s : Nat) (its : List (Nat × Iter)) : Int :=
  ((its.filter (fun p => p.2.sn == s)).length : Nat)

def contentOf (st : State) (s : Nat) : List Item :=
  match findSnap s st.snaps with
  | some x => x.content
  | none => []

def seekIn (k : Nat) (c : List Item) : Option Item := c.find? (fun x => decide (k ≤ x.1))
def nextIn (k : Nat) (c : List Item) : Option Item := c.find? (fun x => decide (k < x.1))

def delEntry (st : State) (e : Entry) : State :=
  { st with alive := removeKey e.key st.alive, handles := invalidate e.key e.epoch st.handles }

def step (st : State) : Op → State × Out
  | .put w k v =>
    if w < st.nwriters then
      match findKey k st.alive with
      | some _ => (st, .bool false)
      | none => ({ st with alive := ins ⟨k, v, st.epoch⟩ st.alive }, .bool true)
    else (st, .bad)
  | .del w k =>
    if w < st.nwriters then
      match findKey k st.alive with
      | some e => (delEntry st e, .bool true)
      | none => (st, .bool false)
    else (st, .bad)
  | .get w k =>
    if w < st.nwriters then (st, .val ((findKey k st.alive).map (·.val))) else (st, .bad)
  | .getnode w k h =>
    if w < st.nwriters then
      match findKey k st.alive with
      | some e => ({ st with handles := aset h ⟨k, e.epoch, true⟩ st.handles }, .found true)
      | none => ({ st with handles := aerase h st.handles }, .found false)
    else (st, .bad)
  | .delnode w h =>
    if w < st.nwriters then
      match alookup h st.handles with
      | some hd =>
        if hd.valid then (delEntry st ⟨hd.key, 0, hd.epoch⟩, .bool true) else (st, .bool false)
      | none => (st, .bad)
    else (st, .bad)
  | .snap =>
    let content : List Item := st.alive.map (fun e => (e.key, e.val))
    ({ st with snaps := st.snaps ++ [⟨st.epoch, 1, content⟩], items := (content.length : Nat),
               epoch := st.epoch + 1 },
     .snap st.epoch (content.length : Nat))
  | .open s =>
    match findSnap s st.snaps with
    | some x =>
      if x.rc = 0 then (st, .bool false)
      else ({ st with snaps := updSnap s (fun y => { y with rc := y.rc + 1 }) st.snaps }, .bool true)
    | none => (st, .bad)
  | .close s =>
    match findSnap s st.snaps with
    | some x =>
      -- contract: only a reference held by the user (not one owned by an iterator) may be closed
      if x.rc - itersOn s st.iters > 0 then
        ({ st with snaps := updSnap s (fun y => { y with rc := y.rc - 1 }) st.snaps }, .ok)
      else (st, .bad)
    | none => (st, .bad)
  | .count s =>
    match findSnap s st.snaps with
    | some x => (st, .num (x.content.length : Nat))
    | none => (st, .bad)
  | .items => (st, .num st.items)
  | .scan s _ =>
    match findSnap s st.snaps with
    | some x => if x.rc = 0 then (st, .nil) else (st, .items x.content)
    | none => (st, .bad)
  | .itNew i s =>
    match findSnap s st.snaps, alookup i st.iters with
    | some x, none =>
      if x.rc = 0 then (st, .nil)
      else ({ st with snaps := updSnap s (fun y => { y with rc := y.rc + 1 }) st.snaps,
                      iters := aset i ⟨s, none⟩ st.iters }, .ok)
    | _, _ => (st, .bad)
  | .itRate i _ =>
    match alookup i st.iters with
    | some _ => (st, .ok)
    | none => (st, .bad)
  | .itFirst i =>
    match alookup i st.iters with
    | some it =>
      let c := (contentOf st it.sn).head?
      ({ st with iters := aset i { it with cur := c } st.iters }, .cursor c)
    | none => (st, .bad)
  | .itSeek i k =>
    match alookup i st.iters with
    | some it =>
      let c := seekIn k (contentOf st it.sn)
      ({ st with iters := aset i { it with cur := c } st.iters }, .cursor c)
    | none => (st, .bad)
  | .itNext i =>
    match alookup i st.iters with
    | some it =>
      match it.cur with
      | some x =>
        let c := nextIn x.1 (contentOf st it.sn)
        ({ st with iters := aset i { it with cur := c } st.iters }, .cursor c)
      | none => (st, .bad)
    | none => (st, .bad)
  | .itRefresh i =>
    match alookup i st.iters with
    | some it => (st, .cursor it.cur)       -- the position does not change
    | none => (st, .bad)
  | .itClose i =>
    match alookup i st.iters with
    | some it =>
      ({ st with snaps := updSnap it.sn (fun y => { y with rc := y.rc - 1 }) st.snaps,
                 iters := aerase i st.iters }, .ok)
    | none => (st, .bad)
  | .visit s _ _ fail =>
    match findSnap s st.snaps with
    | some x =>
      if x.rc = 0 then (st, .bad)       -- Visitor panics when NewIterator returns nil
      else
        match fail with
        | some fk => if x.content.any (fun it => it.1 == fk) then (st, .visitErr) else (st, .visit true x.content)
        | none => (st, .visit true x.content)
    | none => (st, .bad)

def run (st : State) : List Op → List Out
  | [] => []
  | op :: ops => (step st op).2 :: run (step st op).1 ops

end NitroVerif.SetSpec
