import NitroVerif.Model.SkipSeq
/-!
  Specification side of C13/C18: an ordered set of integers as a strictly ascending list, the sorted
  merge of ascending lists, and the specification machine for the operations of engine `skipseq`
  (it only borrows the `Op`/`Out` vocabulary from the model file).

  Node handles in the specification carry no pointer: a handle remembers the key of the node it was
  taken on and whether that very node is still in the set.  Deleting a key kills every live handle on
  it (they all denote the one node that carried the key); re-inserting the key creates a new node, so
  dead handles stay dead — "a given node is deleted successfully by exactly one caller".
-/
namespace NitroVerif.OrdSet

/-- insertion into an ascending list without duplicates -/
def insert (x : Int) : List Int → List Int
  | [] => [x]
  | y :: r => if x < y then x :: y :: r else if x = y then y :: r else y :: insert x r

/-- removal of a key -/
def delete (x : Int) (l : List Int) : List Int := l.filter (· ≠ x)

def member (x : Int) (l : List Int) : Bool := l.contains x

/-- smallest element `≥ x` of an ascending list -/
def seekGE (x : Int) (l : List Int) : Option Int := l.find? (x ≤ ·)

/-- sorted merge of two ascending lists, duplicates kept -/
def merge : List Int → List Int → List Int
  | [], ys => ys
  | xs, [] => xs
  | x :: xs, y :: ys => if x ≤ y then x :: merge xs (y :: ys) else y :: merge (x :: xs) ys

/-- sorted multiset union of several ascending lists -/
def mergeAll : List (List Int) → List Int
  | [] => []
  | l :: r => merge l (mergeAll r)

/-- strictly ascending -/
def Asc (l : List Int) : Prop := l.Pairwise (· < ·)

/-- ascending, duplicates allowed -/
def AscLe (l : List Int) : Prop := l.Pairwise (· ≤ ·)

/-! ## specification machine -/
open NitroVerif.SkipSeq

structure SpecSt where
  set : List Int
  handles : List (String × Int × Bool)

def SpecSt.init : SpecSt := { set := [], handles := [] }

/-- every live handle on key `k` dies -/
def kill (k : Int) (hs : List (String × Int × Bool)) : List (String × Int × Bool) :=
  hs.map fun e => if e.2.1 = k then (e.1, e.2.1, false) else e

def findHandle (hs : List (String × Int × Bool)) (h : String) : Option (Int × Bool) :=
  (hs.find? fun e => e.1 == h).map (·.2)

def specStep (st : SpecSt) : Op → SpecSt × Out
  | .ins k _ =>
    if member k st.set then (st, .bool false) else ({ st with set := insert k st.set }, .bool true)
  | .del k =>
    if member k st.set then ({ set := delete k st.set, handles := kill k st.handles }, .bool true)
    else (st, .bool false)
  | .look k => (st, .bool (member k st.set))
  | .getnode k h =>
    if member k st.set then ({ st with handles := (h, k, true) :: st.handles }, .node true)
    else (st, .node false)
  | .delnode h =>
    match findHandle st.handles h with
    | some (k, live) =>
      if live then ({ set := delete k st.set, handles := kill k st.handles }, .bool true)
      else (st, .bool false)
    | none => (st, .bad)
  | .iter => (st, .keys (st.set.map Key.item))
  | .seek k => (st, .seekAt (member k st.set) ((seekGE k st.set).map Key.item))

def specRun : SpecSt → List Op → SpecSt × List Out
  | st, [] => (st, [])
  | st, op :: ops =>
    let r := specStep st op
    let t := specRun r.1 ops
    (t.1, r.2 :: t.2)

end NitroVerif.OrdSet
