import NitroVerif.Lemmas.SkipConcStatStep
/-!
  Statistics of M5, part 2: every segment, as an event of the level-0 core together with its effect on the counters.
-/
namespace NitroVerif.SkipConc
open NitroVerif

/-- the result of a segment: an event of the level-0 core and the matching change of the counters -/
def GoodS (sh : Shared) (th : Thread) (r : Res) : Prop :=
  ∃ ev, HStep sh.heap ev r.1.heap ∧ StatRel sh th r ev

theorem quiet_same {sh : Shared} {th : Thread} {r : Res} (h1 : r.1.stats = sh.stats)
    (h2 : pendIns r.2.1.pc = pendIns th.pc) : QuietOrFin sh.stats th.pc r :=
  .inl ⟨by rw [h1]; exact StQuiet.refl _, h2⟩

theorem stepHelpDelete_goodS {sh : Shared} {th : Thread} (fp : FP) (next : Nat) (hT : TInv sh.heap th)
    (hpc : th.pc = .helpDelete fp next) : GoodS sh th (stepHelpDelete sh th fp next) := by
  have hp := hT.2.2
  rw [hpc] at hp
  unfold stepHelpDelete
  simp only []
  by_cases hs : (dcas sh.heap fp.prev fp.i fp.curr next false).2 = true
  · simp only [hs, if_true]
    have hheap := dcas_ok_heap _ _ _ _ _ _ hs
    have hw := (dcas_ok_iff ..).mp hs
    by_cases hi : fp.i = 0
    · refine ⟨.unlink fp.curr, ?_, ?_, ?_⟩
      · simp only [helpStats_heap]
        rw [hheap, hi]
        exact .unlink (by rw [← hi]; exact hw) (by rw [← hi]; exact hp.2)
      · simp only [helpStats_heap, hi]
        exact helpStats_stats_yes ..
      · rw [hpc]; rfl
    · refine ⟨.upper, ?_, ?_⟩
      · simp only [helpStats_heap]
        rw [hheap]
        exact .upper _ (by omega) hw
      · refine quiet_same ?_ (by rw [hpc]; rfl)
        exact helpStats_stats_no _ _ _ _ _ (fun c => hi c.2)
  · have hf : (dcas sh.heap fp.prev fp.i fp.curr next false).2 = false := by simpa using hs
    simp only [hf, Bool.false_eq_true, if_false]
    refine ⟨.none, ?_, ?_⟩
    · simp only [bumpReadConflicts, helpStats_heap]
      rw [dcas_fail _ _ _ _ _ _ hf]; exact .none
    · refine .inl ⟨?_, by rw [hpc]; rfl⟩
      simp only [bumpReadConflicts]
      rw [helpStats_stats_no _ _ _ _ _ (fun c => by simp at c)]
      exact ⟨rfl, rfl, rfl, rfl⟩

theorem stepInsPublish_goodS {sh : Shared} {th : Thread} (item lvl : Nat) (hT : TInv sh.heap th)
    (hpc : th.pc = .insPublish item lvl) : GoodS sh th (stepInsPublish sh th item lvl) := by
  have hp := hT.2.2
  rw [hpc] at hp
  unfold stepInsPublish
  simp only []
  split
  · rename_i hs
    have hw := (dcas_ok_iff ..).mp hs
    have hst : HStep sh.heap (.publish sh.heap.length item)
        (setWord sh.heap (th.pred 0) 0 (sh.heap.length, false) ++ [newNode th item lvl]) :=
      .publish item (newNode th item lvl) hw (newNode_next0 ..) rfl hp.1 hp.2.1
    have hh : heightOf (setWord sh.heap (th.pred 0) 0 (sh.heap.length, false) ++ [newNode th item lvl])
        sh.heap.length = lvl := by
      have := heightOf_append_new (setWord sh.heap (th.pred 0) 0 (sh.heap.length, false)) (newNode th item lvl)
      rw [length_setWord] at this
      rw [this]; rfl
    rw [dcas_ok_heap _ _ _ _ _ _ hs]
    split
    · refine ⟨.publish sh.heap.length item, hst, by rw [hpc]; rfl, .inl ⟨StQuiet.refl _, ?_⟩⟩
      show some lvl = some _
      rw [hh]
    · refine ⟨.publish sh.heap.length item, hst, by rw [hpc]; rfl, .inr ⟨?_, rfl⟩⟩
      simp only [insFinished]
      rw [hh]
      exact ⟨rfl, rfl, rfl, rfl⟩
  · exact ⟨.none, .none, .inl ⟨⟨rfl, rfl, rfl, rfl⟩, by rw [hpc]; rfl⟩⟩

theorem stepInsUpRead_goodS {sh : Shared} {th : Thread} (item x lvl i : Nat) (hT : TInv sh.heap th)
    (hpc : th.pc = .insUpRead item x lvl i) : GoodS sh th (stepInsUpRead sh th item x lvl i) := by
  have hp := hT.2.2
  rw [hpc] at hp
  have hfin : ∀ sh1 : Shared, sh1.stats = sh.stats →
      QuietOrFin sh.stats th.pc (insFinished sh1 th lvl) := by
    intro sh1 h1
    refine .inr ⟨lvl, by rw [hpc]; rfl, rfl, ?_⟩
    simp only [insFinished, h1]
    exact ⟨rfl, rfl, rfl, rfl⟩
  have hchk : ∀ sh1 : Shared, sh1.stats = sh.stats → ∀ next,
      QuietOrFin sh.stats th.pc (insCheckSucc sh1 th item x lvl i next) := by
    intro sh1 h1 next
    refine .inl ⟨?_, ?_⟩
    · rw [insCheckSucc_sh, h1]; exact StQuiet.refl _
    · rw [pendIns_insCheckSucc, hpc]; rfl
  unfold stepInsUpRead
  simp only []
  split
  · exact ⟨.none, .none, hfin sh rfl⟩
  · split
    · obtain ⟨ev, h1, h2⟩ := dcas_upper sh.heap x i (getNext sh.heap x i).1 (th.succ i) false hp.2.2.1
      split
      · refine ⟨ev, by rw [insCheckSucc_heap]; exact h1, ?_⟩
        rcases h2 with rfl | rfl <;>
          exact hchk { sh with heap := (dcas sh.heap x i (getNext sh.heap x i).1 (th.succ i) false).1 } rfl _
      · refine ⟨ev, h1, ?_⟩
        rcases h2 with rfl | rfl <;>
          exact hfin { sh with heap := (dcas sh.heap x i (getNext sh.heap x i).1 (th.succ i) false).1 } rfl
    · exact ⟨.none, by rw [insCheckSucc_heap]; exact .none, hchk sh rfl _⟩

theorem stepInsUpLink_goodS {sh : Shared} {th : Thread} (item x lvl i next : Nat) (hT : TInv sh.heap th)
    (hpc : th.pc = .insUpLink item x lvl i next) : GoodS sh th (stepInsUpLink sh th item x lvl i next) := by
  have hp := hT.2.2
  rw [hpc] at hp
  obtain ⟨ev, h1, h2⟩ := dcas_upper sh.heap (th.pred i) i next x false hp.2.2.1
  have hq : ∀ r : Res, r.1.stats = sh.stats → pendIns r.2.1.pc = some lvl → StatRel sh th r ev := by
    intro r e1 e2
    have : QuietOrFin sh.stats th.pc r := quiet_same e1 (by rw [e2, hpc]; rfl)
    rcases h2 with rfl | rfl <;> exact this
  unfold stepInsUpLink
  simp only []
  split
  · split
    · exact ⟨ev, h1, hq _ rfl rfl⟩
    · split
      · exact ⟨ev, h1, hq _ rfl rfl⟩
      · refine ⟨ev, h1, ?_⟩
        have : QuietOrFin sh.stats th.pc
            (insFinished { sh with heap := (dcas sh.heap (th.pred i) i next x false).1 } th lvl) :=
          .inr ⟨lvl, by rw [hpc]; rfl, rfl, rfl, rfl, rfl, rfl⟩
        rcases h2 with rfl | rfl <;> exact this
  · exact ⟨ev, h1, hq _ rfl rfl⟩

theorem stepSoftMark_goodS {sh : Shared} {th : Thread} (item n i next : Nat) (marked : Bool)
    (hL : TL sh.heap sh.level th)
    (hpc : th.pc = .softMark item n i next marked) : GoodS sh th (stepSoftMark sh th item n i next marked) := by
  have hk := hL.2
  rw [hpc] at hk
  unfold stepSoftMark
  simp only []
  by_cases hs : (dcas sh.heap n i next next true).2 = true
  · have hheap := dcas_ok_heap _ _ _ _ _ _ hs
    have hw := (dcas_ok_iff ..).mp hs
    by_cases hi : i = 0
    · subst hi
      have hwins : Gen.softDeleteWins (dcas sh.heap n 0 next next true).2 0 = true :=
        (softDeleteWins_iff _ _).mpr ⟨hs, rfl⟩
      simp only [hwins, if_true]
      refine ⟨.mark n, ?_, ?_, ?_, ⟨item, hk⟩⟩
      · rw [enterSoft_sh]; simp only [hheap]; exact .mark hw
      · rw [enterSoft_sh]; exact ⟨rfl, rfl, rfl, rfl⟩
      · rw [pendIns_enterSoft, hpc]; rfl
    · have hwins : Gen.softDeleteWins (dcas sh.heap n i next next true).2 i = false := by
        cases hh : Gen.softDeleteWins (dcas sh.heap n i next next true).2 i
        · rfl
        · exact absurd ((softDeleteWins_iff _ _).mp hh).2 hi
      simp only [hwins, Bool.false_eq_true, if_false]
      refine ⟨.upper, ?_, ?_⟩
      · rw [enterSoft_sh]; simp only [hheap]; exact .upper _ (by omega) hw
      · refine quiet_same ?_ ?_
        · rw [enterSoft_sh]
        · rw [pendIns_enterSoft, hpc]; rfl
  · have hf : (dcas sh.heap n i next next true).2 = false := by simpa using hs
    have hwins : Gen.softDeleteWins (dcas sh.heap n i next next true).2 i = false := by
      cases hh : Gen.softDeleteWins (dcas sh.heap n i next next true).2 i
      · rfl
      · have := ((softDeleteWins_iff _ _).mp hh).1
        rw [hf] at this; simp at this
    simp only [hwins, Bool.false_eq_true, if_false]
    refine ⟨.none, ?_, ?_⟩
    · rw [enterSoft_sh]; simp only [dcas_fail _ _ _ _ _ _ hf]; exact .none
    · refine quiet_same ?_ ?_
      · rw [enterSoft_sh]
      · rw [pendIns_enterSoft, hpc]; rfl

theorem stepIterHelp_goodS {sh : Shared} {th : Thread} (it next : Nat) (hT : TInv sh.heap th)
    (hpc : th.pc = .iterHelp it next) : GoodS sh th (stepIterHelp sh th it next) := by
  have hp := hT.2.2
  rw [hpc] at hp
  simp only [PCInv] at hp
  unfold stepIterHelp
  simp only []
  by_cases hs : (dcas sh.heap (th.iter it).prev 0 (th.iter it).curr next false).2 = true
  · simp only [hs, if_true]
    have hheap := dcas_ok_heap _ _ _ _ _ _ hs
    have hw := (dcas_ok_iff ..).mp hs
    refine ⟨.unlink (th.iter it).curr, ?_, ?_, ?_⟩
    · rw [afterNext_sh]; simp only [helpStats_heap]
      rw [hheap]; exact .unlink hw hp.1
    · rw [afterNext_sh]; simp only [helpStats_heap]
      exact helpStats_stats_yes ..
    · rw [pendIns_afterNext, hpc]; rfl
  · have hf : (dcas sh.heap (th.iter it).prev 0 (th.iter it).curr next false).2 = false := by simpa using hs
    simp only [hf, Bool.false_eq_true, if_false]
    refine ⟨.none, ?_, ?_⟩
    · simp only [startFind_sh, bumpReadConflicts, helpStats_heap]
      rw [dcas_fail _ _ _ _ _ _ hf]; exact .none
    · refine .inl ⟨?_, by rw [hpc]; rfl⟩
      simp only [startFind_sh, bumpReadConflicts]
      rw [helpStats_stats_no _ _ _ _ _ (fun c => by simp at c)]
      exact ⟨rfl, rfl, rfl, rfl⟩

/-- every segment: an event of the level-0 core and the matching change of the counters -/
theorem stepThread_goodS {sh : Shared} {th : Thread} (hT : TInv sh.heap th) (hL : TL sh.heap sh.level th) :
    GoodS sh th (stepThread sh th) := by
  unfold stepThread
  split
  · exact ⟨.none, .none, quiet_same rfl rfl⟩
  · rename_i hpc
    refine ⟨.none, ?_, ?_⟩
    · unfold stepNewLevel; split <;> exact .none
    · refine quiet_same ?_ ?_
      · unfold stepNewLevel; split <;> rfl
      · rw [hpc]; unfold stepNewLevel; split <;> rfl
  · rename_i hpc
    exact ⟨.none, .none, quiet_same rfl (by rw [hpc]; rfl)⟩
  · rename_i fp rr hpc
    refine ⟨.none, by unfold stepFindNext; rw [afterRead_heap]; exact .none, ?_⟩
    unfold stepFindNext
    generalize hfp1 : (if rr = true then { fp with curr := (getNext sh.heap fp.prev fp.i).1 } else fp) = fp1
    have hc : fp1.cont = fp.cont := by rw [← hfp1]; split <;> rfl
    simp only []
    rcases afterRead_stat sh th fp1 (getNext sh.heap fp1.curr fp1.i).1 (getNext sh.heap fp1.curr fp1.i).2 with
      ⟨h1, h2⟩ | ⟨lvl, h1, h2, h3⟩
    · exact .inl ⟨h1, by rw [h2, hc, hpc]; rfl⟩
    · exact .inr ⟨lvl, by rw [hpc]; show contLvl fp.cont = some lvl; rw [← hc]; exact h1, h2, h3⟩
  · rename_i hpc; exact stepHelpDelete_goodS _ _ hT hpc
  · rename_i hpc; exact stepInsPublish_goodS _ _ hT hpc
  · rename_i hpc; exact stepInsUpRead_goodS _ _ _ _ hT hpc
  · rename_i hpc; exact stepInsUpLink_goodS _ _ _ _ _ hT hpc
  · rename_i hpc; exact stepSoftMark_goodS _ _ _ _ _ hL hpc
  · rename_i hpc
    exact ⟨.none, .none, quiet_same rfl (by rw [hpc]; rfl)⟩
  · rename_i it hpc
    refine ⟨.none, ?_, ?_⟩
    · unfold stepIterNext; simp only []
      split
      · exact .none
      · rw [afterNext_sh]; exact .none
    · unfold stepIterNext; simp only []
      split
      · exact quiet_same rfl (by rw [hpc]; rfl)
      · exact quiet_same (by rw [afterNext_sh]) (by rw [pendIns_afterNext, hpc]; rfl)
  · rename_i hpc; exact stepIterHelp_goodS _ _ hT hpc
  · rename_i hpc
    exact ⟨.none, .none, quiet_same rfl (by rw [hpc]; rfl)⟩

end NitroVerif.SkipConc
