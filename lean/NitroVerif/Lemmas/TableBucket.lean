import NitroVerif.Model.Table
/-!
  One bucket of the node table (the fast entry followed by the slow list of one hash value) as a
  plain list of pointers: first-match lookup / replace / erase, and how the index loop of `find`
  (`slowPos`) relates to them.
-/
namespace NitroVerif.Table
open NitroVerif

section
variable (keyOf : Ptr → Key)

/-- first pointer of the bucket whose key is `key` -/
def lookupB (key : Key) : List Ptr → Option Ptr
  | [] => none
  | v :: vs => if keyOf v = key then some v else lookupB key vs

/-- replace the first pointer whose key is `key` -/
def replaceFirst (key : Key) (np : Ptr) : List Ptr → List Ptr
  | [] => []
  | v :: vs => if keyOf v = key then np :: vs else v :: replaceFirst key np vs

/-- erase the first pointer whose key is `key` -/
def eraseFirst (key : Key) : List Ptr → List Ptr
  | [] => []
  | v :: vs => if keyOf v = key then vs else v :: eraseFirst key vs

/-- what Update does to the bucket of `hash key` -/
def updateB (key : Key) (np : Ptr) (b : List Ptr) : List Ptr :=
  if (lookupB keyOf key b).isSome then replaceFirst keyOf key np b else b ++ [np]

/-! ### `slowPos` against the list functions -/

theorem slowPos_some {key : Key} {vs : List Ptr} {i : Nat} (h : slowPos keyOf key vs = some i) :
    vs[i]? = lookupB keyOf key vs ∧ (lookupB keyOf key vs).isSome ∧ i < vs.length ∧
    (∀ np, vs.set i np = replaceFirst keyOf key np vs) ∧
    vs.take i ++ vs.drop (i + 1) = eraseFirst keyOf key vs := by
  induction vs generalizing i with
  | nil => simp [slowPos] at h
  | cons v vs ih =>
    simp only [slowPos] at h
    by_cases hv : keyOf v = key
    · simp only [hv, if_true, Option.some.injEq] at h
      subst h
      simp [lookupB, replaceFirst, eraseFirst, hv]
    · simp only [hv, if_false, Option.map_eq_some_iff] at h
      obtain ⟨j, hj, rfl⟩ := h
      obtain ⟨h1, h2, h3, h4, h5⟩ := ih hj
      simp only [lookupB, replaceFirst, eraseFirst, hv, if_false]
      refine ⟨by simpa using h1, h2, by simp; omega, fun np => by simp [h4 np], ?_⟩
      simp [← h5]

theorem slowPos_none {key : Key} {vs : List Ptr} (h : slowPos keyOf key vs = none) :
    lookupB keyOf key vs = none := by
  induction vs with
  | nil => rfl
  | cons v vs ih =>
    simp only [slowPos] at h
    by_cases hv : keyOf v = key
    · simp [hv] at h
    · simp only [hv, if_false, Option.map_eq_none_iff] at h
      simp [lookupB, hv, ih h]

/-! ### first-match functions -/

theorem lookupB_some {key : Key} {b : List Ptr} {p : Ptr} (h : lookupB keyOf key b = some p) :
    p ∈ b ∧ keyOf p = key := by
  induction b with
  | nil => simp [lookupB] at h
  | cons v vs ih =>
    simp only [lookupB] at h
    by_cases hv : keyOf v = key
    · simp only [hv, if_true, Option.some.injEq] at h; subst h; simp [hv]
    · simp only [hv, if_false] at h
      have := ih h
      exact ⟨List.mem_cons_of_mem _ this.1, this.2⟩

theorem lookupB_none_iff {key : Key} {b : List Ptr} :
    lookupB keyOf key b = none ↔ key ∉ b.map keyOf := by
  induction b with
  | nil => simp [lookupB]
  | cons v vs ih =>
    simp only [lookupB, List.map_cons, List.mem_cons, not_or]
    by_cases hv : keyOf v = key
    · simp [hv]
    · simp only [hv, if_false, ih]
      exact ⟨fun h => ⟨fun e => hv e.symm, h⟩, fun h => h.2⟩

theorem map_replaceFirst {key : Key} {np : Ptr} (hnp : keyOf np = key) (b : List Ptr) :
    (replaceFirst keyOf key np b).map keyOf = b.map keyOf := by
  induction b with
  | nil => rfl
  | cons v vs ih =>
    simp only [replaceFirst]
    by_cases hv : keyOf v = key
    · simp [hv, hnp]
    · simp [hv, ih]

theorem mem_replaceFirst {key : Key} {np : Ptr} {b : List Ptr} {x : Ptr}
    (h : x ∈ replaceFirst keyOf key np b) : x = np ∨ x ∈ b := by
  induction b with
  | nil => simp [replaceFirst] at h
  | cons v vs ih =>
    simp only [replaceFirst] at h
    by_cases hv : keyOf v = key
    · simp only [hv, if_true, List.mem_cons] at h
      rcases h with h | h
      · exact Or.inl h
      · exact Or.inr (List.mem_cons_of_mem _ h)
    · simp only [hv, if_false, List.mem_cons] at h
      rcases h with h | h
      · exact Or.inr (by simp [h])
      · rcases ih h with h | h
        · exact Or.inl h
        · exact Or.inr (List.mem_cons_of_mem _ h)

theorem lookupB_replaceFirst {key : Key} {np : Ptr} (hnp : keyOf np = key) (b : List Ptr)
    (hfound : (lookupB keyOf key b).isSome) (k' : Key) :
    lookupB keyOf k' (replaceFirst keyOf key np b)
      = if k' = key then some np else lookupB keyOf k' b := by
  induction b with
  | nil => simp [lookupB] at hfound
  | cons v vs ih =>
    simp only [lookupB] at hfound
    simp only [replaceFirst]
    by_cases hv : keyOf v = key
    · simp only [hv, if_true, lookupB, hnp]
      by_cases hk : k' = key
      · simp [hk]
      · have : ¬ key = k' := fun e => hk e.symm
        simp [hk, this]
    · simp only [hv, if_false] at hfound
      simp only [hv, if_false, lookupB, ih hfound]
      by_cases hk : k' = key
      · subst hk; simp [hv]
      · simp [hk]

theorem lookupB_append_new {key : Key} {np : Ptr} (hnp : keyOf np = key) (b : List Ptr)
    (hnot : lookupB keyOf key b = none) (k' : Key) :
    lookupB keyOf k' (b ++ [np]) = if k' = key then some np else lookupB keyOf k' b := by
  induction b with
  | nil =>
    simp only [List.nil_append, lookupB, hnp]
    by_cases hk : k' = key
    · simp [hk]
    · have : ¬ key = k' := fun e => hk e.symm
      simp [hk, this]
  | cons v vs ih =>
    simp only [lookupB] at hnot
    by_cases hv : keyOf v = key
    · simp [hv] at hnot
    · simp only [hv, if_false] at hnot
      simp only [List.cons_append, lookupB, ih hnot]
      by_cases hk : k' = key
      · subst hk; simp [hv]
      · simp [hk]

theorem lookupB_updateB {key : Key} {np : Ptr} (hnp : keyOf np = key) (b : List Ptr) (k' : Key) :
    lookupB keyOf k' (updateB keyOf key np b)
      = if k' = key then some np else lookupB keyOf k' b := by
  unfold updateB
  split
  · rename_i h; exact lookupB_replaceFirst keyOf hnp b h k'
  · rename_i h
    apply lookupB_append_new keyOf hnp b
    cases hl : lookupB keyOf key b with
    | none => rfl
    | some x => simp [hl] at h

theorem eraseFirst_sublist (key : Key) (b : List Ptr) : (eraseFirst keyOf key b).Sublist b := by
  induction b with
  | nil => simp [eraseFirst]
  | cons v vs ih =>
    simp only [eraseFirst]
    by_cases hv : keyOf v = key
    · simp [hv]
    · simp only [hv, if_false]; exact List.Sublist.cons_cons _ ih

theorem lookupB_eraseFirst {key : Key} (b : List Ptr) (hn : (b.map keyOf).Nodup) (k' : Key) :
    lookupB keyOf k' (eraseFirst keyOf key b) = if k' = key then none else lookupB keyOf k' b := by
  induction b with
  | nil => simp [eraseFirst, lookupB]
  | cons v vs ih =>
    simp only [List.map_cons, List.nodup_cons] at hn
    simp only [eraseFirst]
    by_cases hv : keyOf v = key
    · simp only [hv, if_true, lookupB]
      by_cases hk : k' = key
      · subst hk
        simp only [if_true]
        rw [lookupB_none_iff]; rw [← hv]; exact hn.1
      · have : ¬ key = k' := fun e => hk e.symm
        simp [hk, this]
    · simp only [hv, if_false, lookupB, ih hn.2]
      by_cases hk : k' = key
      · subst hk; simp [hv]
      · simp [hk]

theorem eraseFirst_of_none {key : Key} {b : List Ptr} (h : lookupB keyOf key b = none) :
    eraseFirst keyOf key b = b := by
  induction b with
  | nil => rfl
  | cons v vs ih =>
    simp only [lookupB] at h
    by_cases hv : keyOf v = key
    · simp [hv] at h
    · simp only [hv, if_false] at h
      simp [eraseFirst, hv, ih h]

theorem length_eraseFirst {key : Key} {b : List Ptr} (h : (lookupB keyOf key b).isSome) :
    (eraseFirst keyOf key b).length + 1 = b.length := by
  induction b with
  | nil => simp [lookupB] at h
  | cons v vs ih =>
    simp only [lookupB] at h
    by_cases hv : keyOf v = key
    · simp [eraseFirst, hv]
    · simp only [hv, if_false] at h
      simp [eraseFirst, hv, ih h]

end
end NitroVerif.Table
