/-
  Facts about the specification itself: snapshot contents never change, refresh rates and
  explicit `Refresh` calls are not observable; and the frame rule for iterators of the model.
-/
import NitroVerif.Lemmas.MvccSimIter

namespace NitroVerif.Mvcc
open NitroVerif SetSpec

/-! ### snapshot contents are fixed at creation -/

theorem spec_updSnap_keeps {s : Nat} {f : SetSpec.Snap → SetSpec.Snap}
    (hf : ∀ y, (f y).sn = y.sn ∧ (f y).content = y.content) {l : List SetSpec.Snap} {x : SetSpec.Snap}
    (hx : x ∈ l) : ∃ x' ∈ SetSpec.updSnap s f l, x'.sn = x.sn ∧ x'.content = x.content := by
  refine ⟨if x.sn = s then f x else x, List.mem_map.mpr ⟨x, hx, rfl⟩, ?_⟩
  split
  · exact hf x
  · exact ⟨rfl, rfl⟩

theorem spec_content_stable (st : SetSpec.State) (op : Op) {x : SetSpec.Snap} (hx : x ∈ st.snaps) :
    ∃ x' ∈ (SetSpec.step st op).1.snaps, x'.sn = x.sn ∧ x'.content = x.content := by
  have hsame : ∃ x' ∈ st.snaps, x'.sn = x.sn ∧ x'.content = x.content := ⟨x, hx, rfl, rfl⟩
  have hupd : ∀ (s : Nat) (d : Int), ∃ x' ∈ SetSpec.updSnap s (fun y => { y with rc := y.rc + d }) st.snaps,
      x'.sn = x.sn ∧ x'.content = x.content :=
    fun s d => spec_updSnap_keeps (s := s) (f := fun y => { y with rc := y.rc + d }) (fun _ => ⟨rfl, rfl⟩) hx
  have hupd' : ∀ (s : Nat), ∃ x' ∈ SetSpec.updSnap s (fun y => { y with rc := y.rc - 1 }) st.snaps,
      x'.sn = x.sn ∧ x'.content = x.content :=
    fun s => spec_updSnap_keeps (s := s) (f := fun y => { y with rc := y.rc - 1 }) (fun _ => ⟨rfl, rfl⟩) hx
  cases op <;> simp only [SetSpec.step, delEntry] <;> (repeat' split) <;>
    first
    | exact hsame
    | exact hupd _ 1
    | exact hupd' _
    | exact ⟨x, List.mem_append_left _ hx, rfl, rfl⟩

/-- on the model: every snapshot keeps its number and its content (as items) across any operation -/
theorem model_content_fixed {σ : State} (h : Inv σ) (op : Op) {s : Snap} (hs : s ∈ σ.snaps) :
    ∃ s' ∈ (step σ op).1.snaps, s'.sn = s.sn ∧ s'.content.map Ver.item = s.content.map Ver.item := by
  have hx : absSnap s ∈ (abs σ).snaps := List.mem_map.mpr ⟨s, hs, rfl⟩
  obtain ⟨x', hx', h1, h2⟩ := spec_content_stable (abs σ) op hx
  rw [step_refines h op] at hx'
  obtain ⟨s', hs', rfl⟩ := List.mem_map.mp hx'
  exact ⟨s', hs', h1, h2⟩

/-! ### the refresh rate is not observable -/

/-- change every refresh rate occurring in an operation -/
def rerate (f : Int → Int) : Op → Op
  | .scan s r => .scan s (f r)
  | .itRate i r => .itRate i (f r)
  | .visit s p r fl => .visit s p (f r) fl
  | op => op

theorem spec_step_rerate (f : Int → Int) (st : SetSpec.State) (op : Op) :
    SetSpec.step st (rerate f op) = SetSpec.step st op := by
  cases op <;> rfl

theorem spec_run_rerate (f : Int → Int) : ∀ (ops : List Op) (st : SetSpec.State),
    SetSpec.run st (ops.map (rerate f)) = SetSpec.run st ops
  | [], _ => rfl
  | op :: ops, st => by
    simp only [List.map_cons, SetSpec.run, spec_step_rerate, spec_run_rerate f ops]

/-! ### explicit `Refresh` calls are not observable -/

def isRefresh : Op → Bool
  | .itRefresh _ => true
  | _ => false

/-- the outputs of the operations that are not `Refresh` calls -/
def dropRefreshOut : List Op → List Out → List Out
  | op :: ops, o :: os => if isRefresh op then dropRefreshOut ops os else o :: dropRefreshOut ops os
  | _, _ => []

theorem spec_refresh_state (st : SetSpec.State) (i : Nat) : (SetSpec.step st (.itRefresh i)).1 = st := by
  simp only [SetSpec.step]; split <;> rfl

theorem spec_run_dropRefresh : ∀ (ops : List Op) (st : SetSpec.State),
    SetSpec.run st (ops.filter (fun op => !isRefresh op)) = dropRefreshOut ops (SetSpec.run st ops)
  | [], _ => rfl
  | op :: ops, st => by
    cases hop : isRefresh op
    · simp only [List.filter_cons, hop, Bool.not_false, if_true, SetSpec.run, dropRefreshOut,
        Bool.false_eq_true, if_false]
      rw [spec_run_dropRefresh ops]
    · cases op <;> simp [isRefresh] at hop
      rename_i i
      simp only [List.filter_cons, isRefresh, Bool.not_true, Bool.false_eq_true, if_false, SetSpec.run,
        dropRefreshOut, if_true, spec_refresh_state]
      exact spec_run_dropRefresh ops st

/-! ### frame rule: operations that do not name an iterator leave it alone -/

def namesIter (i : Nat) : Op → Bool
  | .itNew j _ => j == i
  | .itRate j _ => j == i
  | .itFirst j => j == i
  | .itSeek j _ => j == i
  | .itNext j => j == i
  | .itRefresh j => j == i
  | .itClose j => j == i
  | _ => false

theorem alookup_aset_ne {α : Type} {i j : Nat} (h : j ≠ i) (a : α) : ∀ (l : List (Nat × α)),
    alookup i (aset j a l) = alookup i l
  | [] => by simp [aset, alookup, h]
  | (m, b) :: r => by
    by_cases hm : m = j
    · subst hm; simp [aset, alookup, h]
    · by_cases hmi : m = i
      · subst hmi
        have hmj : ¬ m = j := hm
        simp [aset, hmj, alookup]
      · simp [aset, hm, alookup, hmi, alookup_aset_ne h a r]

theorem alookup_aerase_ne {α : Type} {i j : Nat} (h : j ≠ i) : ∀ (l : List (Nat × α)),
    alookup i (aerase j l) = alookup i l
  | [] => rfl
  | (m, b) :: r => by
    have ih := alookup_aerase_ne h r
    unfold aerase at ih ⊢
    rw [List.filter_cons]
    by_cases hm : m = j
    · subst hm
      simp only [bne_self_eq_false, Bool.false_eq_true, if_false, ih]
      simp [alookup, h]
    · have : ((m, b).1 != j) = true := by simp; exact hm
      simp only [this, if_true, alookup, ih]

theorem closeSnap_iters (σ : State) (s : Nat) (rc : Int) : (closeSnap σ s rc).iters = σ.iters := by
  unfold closeSnap gc; split <;> rfl

theorem deleteNode_iters (σ : State) (w : Nat) (x : Ver) : (deleteNode σ w x).1.iters = σ.iters := by
  unfold deleteNode; split
  · rfl
  · split <;> rfl

theorem step_frame (σ : State) (i : Nat) (op : Op) (hn : namesIter i op = false) :
    alookup i (step σ op).1.iters = alookup i σ.iters := by
  cases op with
  | put w k v => simp only [step, put]; (repeat' split) <;> rfl
  | del w k =>
    simp only [step, del]; (repeat' split) <;> first | rfl | simp only [deleteNode_iters]
  | get w k => simp only [step]; (repeat' split) <;> rfl
  | getnode w k h => simp only [step]; (repeat' split) <;> rfl
  | delnode w h =>
    simp only [step, delHandle]; (repeat' split) <;> first | rfl | simp only [deleteNode_iters]
  | snap => rfl
  | «open» s => simp only [step]; (repeat' split) <;> rfl
  | close s => simp only [step]; (repeat' split) <;> first | rfl | simp only [closeSnap_iters]
  | count s => simp only [step]; (repeat' split) <;> rfl
  | items => rfl
  | scan s r =>
    simp only [step, withRef]; (repeat' split) <;> first | rfl | (simp only [closeSnap_iters]; rfl)
  | visit s p r fl =>
    simp only [step, withRef]; (repeat' split) <;> first | rfl | (simp only [closeSnap_iters]; rfl)
  | itNew j s =>
    have hj : j ≠ i := by simpa [namesIter] using hn
    simp only [step]; (repeat' split) <;> first | rfl | exact alookup_aset_ne hj _ _
  | itRate j r =>
    have hj : j ≠ i := by simpa [namesIter] using hn
    simp only [step]; (repeat' split) <;> first | rfl | exact alookup_aset_ne hj _ _
  | itFirst j =>
    have hj : j ≠ i := by simpa [namesIter] using hn
    simp only [step, setIter]; (repeat' split) <;> first | rfl | exact alookup_aset_ne hj _ _
  | itSeek j k =>
    have hj : j ≠ i := by simpa [namesIter] using hn
    simp only [step, setIter]; (repeat' split) <;> first | rfl | exact alookup_aset_ne hj _ _
  | itNext j =>
    have hj : j ≠ i := by simpa [namesIter] using hn
    simp only [step, setIter]; (repeat' split) <;> first | rfl | exact alookup_aset_ne hj _ _
  | itRefresh j =>
    have hj : j ≠ i := by simpa [namesIter] using hn
    simp only [step, setIter]; (repeat' split) <;> first | rfl | exact alookup_aset_ne hj _ _
  | itClose j =>
    have hj : j ≠ i := by simpa [namesIter] using hn
    simp only [step]; (repeat' split) <;>
      first | rfl | (simp only [closeSnap_iters]; exact alookup_aerase_ne hj _)

end NitroVerif.Mvcc
