/-
  Refinement, iterator operations and the Visitor.
-/
import NitroVerif.Lemmas.MvccSimSnap

namespace NitroVerif.Mvcc
open NitroVerif SetSpec

theorem findSnap_of_mem {snaps : List Snap} (hinc : snaps.Pairwise (fun a b => a.sn < b.sn)) {x : Snap}
    (hx : x ∈ snaps) : findSnap x.sn snaps = some x := by
  cases h : findSnap x.sn snaps with
  | none => exact absurd rfl (findSnap_none h x hx)
  | some y =>
    have ⟨hy, hys⟩ := findSnap_some h
    rw [snap_unique hinc hy hx hys]

def absIt (it : Iter) : SetSpec.Iter := ⟨it.sn, it.cur.map Ver.item⟩

theorem alookup_iters (σ : State) (i : Nat) :
    alookup i (abs σ).iters = (alookup i σ.iters).map absIt :=
  alookup_map absIter absIter_fst i σ.iters

theorem abs_setIter (σ : State) (i : Nat) (it' : Iter) :
    abs (setIter σ i it').1 = { abs σ with iters := aset i (absIt it') (abs σ).iters } := by
  unfold setIter
  apply state_ext <;> try rfl
  simp only [abs]
  exact map_aset absIter absIter_fst i it' σ.iters

/-- everything known about a registered iterator, in the form the refinement needs -/
theorem iter_ctx' {σ : State} (h : Inv σ) {i : Nat} {it : Iter} (hi : alookup i σ.iters = some it) :
    ∃ x, findSnap it.sn σ.snaps = some x ∧ x.rc ≠ 0 ∧
      contentOf (abs σ) it.sn = (vis σ.store it.sn).map Ver.item ∧
      ∀ v, it.cur = some v → ∃ v' ∈ vis σ.store it.sn, v'.key = v.key ∧ v'.born = v.born ∧ v'.val = v.val := by
  obtain ⟨s, hs, hsn, hrc, hview, hc⟩ := iter_ctx h hi
  have hf : findSnap it.sn σ.snaps = some s := by rw [← hsn]; exact findSnap_of_mem h.snaps.inc hs
  refine ⟨s, hf, by omega, ?_, ?_⟩
  · rw [contentOf_abs hf, content_items h hf (by omega)]
  · intro v hv
    exact of_norm_mem_view (by rw [hview]; exact hc v hv)

theorem sim_itNew {σ : State} (_h : Inv σ) (i s : Nat) : Refines σ (.itNew i s) := by
  unfold Refines
  simp only [SetSpec.step, step]
  have hf : SetSpec.findSnap s (abs σ).snaps = (findSnap s σ.snaps).map absSnap := findSnap_abs s σ.snaps
  rw [hf, alookup_iters]
  cases hx : findSnap s σ.snaps with
  | none => rfl
  | some x =>
    cases hi : alookup i σ.iters with
    | some it => rfl
    | none =>
      simp only [Option.map, rc_abs]
      by_cases hrc : x.rc = 0
      · have ho : Gen.openRefuse 0 = true := (openRefuse_iff 0).mpr rfl
        simp [hrc, ho]
      · have : Gen.openRefuse x.rc = false := by
          cases ho : Gen.openRefuse x.rc
          · rfl
          · exact absurd ((openRefuse_iff _).mp ho) hrc
        simp only [hrc, this, if_false, Bool.false_eq_true]
        refine Prod.ext (state_ext rfl rfl rfl rfl ?_ ?_ rfl) rfl
        · simp only [abs, openSnap]
          exact (updSnap_abs s _ _ (fun _ => rfl) σ.snaps).symm
        · simp only [abs, openSnap]
          exact (map_aset absIter absIter_fst i (newIter s 0) σ.iters).symm

theorem alookup_absIt {σ : State} {i : Nat} {it : Iter} (hi : alookup i σ.iters = some it) :
    alookup i (σ.iters.map absIter) = some (absIt it) := by
  have := alookup_iters σ i
  simp only [abs] at this
  rw [this, hi]; rfl

theorem sim_itRate {σ : State} (_h : Inv σ) (i : Nat) (r : Int) : Refines σ (.itRate i r) := by
  unfold Refines
  simp only [SetSpec.step, step]
  rw [alookup_iters]
  cases hi : alookup i σ.iters with
  | none => rfl
  | some it =>
    simp only [Option.map]
    refine Prod.ext (state_ext rfl rfl rfl rfl rfl ?_ rfl) rfl
    simp only [abs]
    rw [map_aset absIter absIter_fst i { it with rate := r } σ.iters]
    exact (aset_same (alookup_absIt hi)).symm

theorem sim_itFirst {σ : State} (h : Inv σ) (i : Nat) : Refines σ (.itFirst i) := by
  unfold Refines
  simp only [SetSpec.step, step]
  rw [alookup_iters]
  cases hi : alookup i σ.iters with
  | none => rfl
  | some it =>
    obtain ⟨x, _, _, hcont, _⟩ := iter_ctx' h hi
    simp only [Option.map, absIt]
    rw [abs_setIter, hcont]
    have : (it.seekFirst σ.store).cur.map Ver.item = ((vis σ.store it.sn).map Ver.item).head? := by
      rw [seekFirst_cur, List.head?_map]
    simp only [setIter, absIt, this, seekFirst_sn]

theorem sim_itSeek {σ : State} (h : Inv σ) (i k : Nat) : Refines σ (.itSeek i k) := by
  unfold Refines
  simp only [SetSpec.step, step]
  rw [alookup_iters]
  cases hi : alookup i σ.iters with
  | none => rfl
  | some it =>
    obtain ⟨x, _, _, hcont, _⟩ := iter_ctx' h hi
    simp only [Option.map, absIt]
    rw [abs_setIter, hcont]
    have : (it.seek σ.store k).cur.map Ver.item = seekIn k ((vis σ.store it.sn).map Ver.item) := by
      rw [seek_cur h.sorted]; unfold seekIn; rw [List.find?_map]; rfl
    simp only [setIter, absIt, this, seek_sn]

theorem sim_itNext {σ : State} (h : Inv σ) (i : Nat) : Refines σ (.itNext i) := by
  unfold Refines
  simp only [SetSpec.step, step]
  rw [alookup_iters]
  cases hi : alookup i σ.iters with
  | none => rfl
  | some it =>
    obtain ⟨x, _, _, hcont, hcur⟩ := iter_ctx' h hi
    simp only [Option.map_some, absIt]
    cases hc : it.cur with
    | none => rfl
    | some v =>
      obtain ⟨v', hv', hk, hb, _⟩ := hcur v hc
      simp only [Option.map_some]
      rw [abs_setIter, hcont]
      have : (it.next σ.store).cur.map Ver.item = nextIn v.item.1 ((vis σ.store it.sn).map Ver.item) := by
        rw [next_cur h.sorted h.chains hc hv' hk hb]; unfold nextIn; rw [List.find?_map]; rfl
      simp only [setIter, absIt, next_sn]
      rw [this]

theorem sim_itRefresh {σ : State} (h : Inv σ) (i : Nat) : Refines σ (.itRefresh i) := by
  unfold Refines
  simp only [SetSpec.step, step]
  rw [alookup_iters]
  cases hi : alookup i σ.iters with
  | none => rfl
  | some it =>
    obtain ⟨x, _, _, _, hcur⟩ := iter_ctx' h hi
    simp only [Option.map]
    rw [abs_setIter]
    have : (it.refresh σ.store).cur.map Ver.item = it.cur.map Ver.item := by
      cases hc : it.cur with
      | none => unfold Iter.refresh; rw [hc]; simp only; rw [hc]
      | some v =>
        obtain ⟨v', hv', hk, _, hval⟩ := hcur v hc
        rw [refresh_cur h.sorted h.chains hc hv' hk]
        simp [Ver.item, hk, hval]
    have hsame : absIt (it.refresh σ.store) = absIt it := by
      simp only [absIt, this, refresh_sn]
    simp only [setIter, this, hsame]
    refine Prod.ext ?_ rfl
    simp only
    apply state_ext <;> try rfl
    exact (aset_same (alookup_absIt hi)).symm

theorem sim_itClose {σ : State} (h : Inv σ) (i : Nat) : Refines σ (.itClose i) := by
  unfold Refines
  simp only [SetSpec.step, step]
  rw [alookup_iters]
  cases hi : alookup i σ.iters with
  | none => rfl
  | some it =>
    obtain ⟨x, hx, _, _, _⟩ := iter_ctx' h hi
    have hm := alookup_mem hi
    have ⟨hxm, hxs⟩ := findSnap_some hx
    simp only [Option.map, hx, absIt]
    have := abs_closeSnap h hx (aerase i σ.iters)
      (fun p hp => h.iters.snap p (mem_aerase.mp hp).1)
      (by
        have h1 := itersOn_aerase_lt hm hxs.symm
        have h2 := h.iters.refs x hxm
        rw [hxs] at h2 h1
        omega)
      (fun n _ => itersOn_aerase_le n i σ.iters)
    refine Prod.ext ?_ rfl
    simp only
    rw [this]
    apply state_ext <;> try rfl
    simp only [abs]
    exact (map_aerase absIter absIter_fst i σ.iters).symm

/-! ### Visitor -/

theorem any_key_iff (l : List Ver) (fk : Nat) :
    (l.map Ver.item).any (fun it => it.1 == fk) = true ↔ ∃ v ∈ l, v.key = fk := by
  simp [List.any_eq_true, Ver.item]

theorem sim_visit {σ : State} (h : Inv σ) (s : Nat) (pivots : List Nat) (rate : Int) (fail : Option Nat) :
    Refines σ (.visit s pivots rate fail) := by
  unfold Refines
  simp only [SetSpec.step, step]
  have hf : SetSpec.findSnap s (abs σ).snaps = (findSnap s σ.snaps).map absSnap := findSnap_abs s σ.snaps
  rw [hf]
  cases hx : findSnap s σ.snaps with
  | none => rfl
  | some x =>
    simp only [Option.map, rc_abs]
    by_cases hrc : x.rc = 0
    · have ho : Gen.openRefuse 0 = true := (openRefuse_iff 0).mpr rfl
      simp [hrc, ho]
    · have : Gen.openRefuse x.rc = false := by
        cases ho : Gen.openRefuse x.rc
        · rfl
        · exact absurd ((openRefuse_iff _).mp ho) hrc
      simp only [hrc, this, if_false, Bool.false_eq_true]
      rw [withRef_eq σ s hrc]
      have hci := content_items h hx hrc
      simp only [absSnap, hci]
      have hpo := filterPivots_ok σ.store s (pivots.map (fun k => (⟨k, 0, 0, 0⟩ : Ver))) none
      have hks := vis_keySorted h.sorted h.chains s
      -- no failing callback is hit: all shards deliver their range
      have hok : (∀ v ∈ vis σ.store s, fail ≠ some v.key) →
          (if (visitor σ.store s rate fail (pivots.map (fun k => ⟨k, 0, 0, 0⟩))).2 = true then Out.visitErr
           else Out.visit (partOk (visitor σ.store s rate fail (pivots.map (fun k => ⟨k, 0, 0, 0⟩))).1)
             ((visitor σ.store s rate fail (pivots.map (fun k => ⟨k, 0, 0, 0⟩))).1.flatten.map Ver.item)) =
          Out.visit true ((vis σ.store s).map Ver.item) := by
        intro hnf
        have ⟨h1, h2⟩ := runShards_ok h.sorted h.chains s rate fail hnf _ none hpo
        simp only [visitor, h2, Bool.false_eq_true, if_false, partOk, h1, fromStart]
        rw [ascending_of_keySorted hks]
      cases fail with
      | none =>
        refine Prod.ext rfl ?_
        simp only
        exact (hok (fun _ _ => by simp)).symm
      | some fk =>
        simp only
        by_cases hany : ((vis σ.store s).map Ver.item).any (fun it => it.1 == fk) = true
        · simp only [hany, if_true]
          refine Prod.ext rfl ?_
          simp only
          have hex := (any_key_iff _ fk).mp hany
          have := runShards_err h.sorted h.chains s rate fk _ none hpo (by simpa [fromStart] using hex)
          simp only [visitor, this, if_true]
        · simp only [hany]
          refine Prod.ext rfl ?_
          simp only
          refine (hok ?_).symm
          intro v hv hfk
          apply hany
          exact (any_key_iff _ fk).mpr ⟨v, hv, by simpa using hfk.symm⟩

/-! ### the refinement step -/

theorem step_refines {σ : State} (h : Inv σ) (op : Op) : Refines σ op := by
  cases op with
  | put w k v => exact sim_put h w k v
  | del w k => exact sim_del h w k
  | get w k => exact sim_get h w k
  | getnode w k hn => exact sim_getnode h w k hn
  | delnode w hn => exact sim_delnode h w hn
  | snap => exact sim_snap h
  | «open» s => exact sim_open h s
  | close s => exact sim_close h s
  | count s => exact sim_count h s
  | items => exact sim_items
  | scan s rate => exact sim_scan h s rate
  | itNew i s => exact sim_itNew h i s
  | itRate i r => exact sim_itRate h i r
  | itFirst i => exact sim_itFirst h i
  | itSeek i k => exact sim_itSeek h i k
  | itNext i => exact sim_itNext h i
  | itRefresh i => exact sim_itRefresh h i
  | itClose i => exact sim_itClose h i
  | visit s pivots rate fail => exact sim_visit h s pivots rate fail

/-- the model's outputs are the specification's outputs, for every operation sequence -/
theorem run_refines : ∀ (ops : List Op) {σ : State}, Inv σ → run σ ops = SetSpec.run (abs σ) ops
  | [], _, _ => rfl
  | op :: ops, σ, h => by
    have hs := step_refines h op
    unfold Refines at hs
    simp only [run, SetSpec.run, hs]
    rw [run_refines ops (inv_step h op)]

end NitroVerif.Mvcc
