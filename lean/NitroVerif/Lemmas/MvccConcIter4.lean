/-
  Which actions can change the record of a given iterator, and how the ITER_NEXT step moves its cursor.
-/
import NitroVerif.Lemmas.MvccConcIter3

namespace NitroVerif.MvccConc
open NitroVerif
open NitroVerif.Mvcc (Ver Sorted Chains vlt)

/-! ### lookups in the iterator table -/

theorem findIter_erase (k k' : Nat × Nat) (l : List ((Nat × Nat) × Iter)) :
    findIter k (eraseIter k' l) = if k' = k then none else findIter k l := by
  unfold findIter eraseIter
  rw [List.find?_filter]
  by_cases he : k' = k
  · subst he
    simp only [if_true, Option.map_eq_none_iff]
    apply List.find?_eq_none.mpr
    intro p _; simp
  · simp only [he, if_false]
    congr 1
    apply Mvcc.find?_congr'
    intro p _
    by_cases hp : p.1 = k
    · have : k ≠ k' := fun h => he h.symm
      simp [hp, this]
    · simp [hp]

theorem findIter_set (k k' : Nat × Nat) (it : Iter) (l : List ((Nat × Nat) × Iter)) :
    findIter k (setIter k' it l) = if k' = k then some it else findIter k l := by
  unfold setIter
  have h1 := findIter_erase k k' l
  unfold findIter at h1 ⊢
  rw [List.find?_append]
  by_cases he : k' = k
  · subst he
    simp only [if_true] at h1 ⊢
    have hnone : (eraseIter k' l).find? (fun p => p.1 == k') = none := by
      cases hf : (eraseIter k' l).find? (fun p => p.1 == k') with
      | none => rfl
      | some p => rw [hf] at h1; simp at h1
    rw [hnone]; simp
  · simp only [he, if_false] at h1 ⊢
    cases hf : (eraseIter k' l).find? (fun p => p.1 == k) with
    | some p => rw [hf] at h1; simp only [Option.some_or]; exact h1
    | none =>
      rw [hf] at h1
      simp only [Option.none_or, List.find?_cons, List.find?_nil]
      have : (k' == k) = false := by simp [he]
      simp only [this]
      exact h1

/-- the cursor of iterator `i` of thread `t` -/
def curOf (σ : State) (t i : Nat) : Option Cur := (findIter (t, i) σ.iters).bind (·.cur)

/-! ### finer shapes -/

def IErase (σ σ' : State) (t : Nat) : Prop := σ'.iters = σ.iters ∨ ∃ i, σ'.iters = eraseIter (t, i) σ.iters

theorem IErase.pre {σ σ1 σ' : State} {t : Nat} (h : IErase σ1 σ' t) (hi : σ1.iters = σ.iters) : IErase σ σ' t := by
  rcases h with h | ⟨i, h⟩
  · exact Or.inl (by rw [h, hi])
  · exact Or.inr ⟨i, by rw [h, hi]⟩

theorem ier_finishClose (σ : State) (t : Nat) (after : Option Nat) : IErase σ (finishClose σ t after).1 t := by
  unfold finishClose
  cases after with
  | none => exact Or.inl rfl
  | some i => simp only; split; exact Or.inr ⟨i, rfl⟩; exact Or.inl rfl

theorem ier_collectLoop (σ : State) (t : Nat) (after : Option Nat) : IErase σ (collectLoop σ t after).1 t := by
  unfold collectLoop
  split
  · exact Or.inl rfl
  · split
    · exact Or.inl rfl
    · exact (ier_finishClose { σ with gcFlag := false } t after).pre rfl

theorem ier_closeRef (σ : State) (t s : Nat) (rc : Int) (after : Option Nat) :
    IErase σ (closeRef σ t s rc after).1 t := by
  unfold closeRef runGC
  split
  · split
    · exact (ier_finishClose _ t after).pre rfl
    · exact (ier_collectLoop _ t after).pre rfl
  · exact (ier_finishClose _ t after).pre rfl

theorem ier_startClose (σ : State) (t s : Nat) : IErase σ (startClose σ t s).1 t := by
  unfold startClose
  split
  · split
    · exact (ier_closeRef _ t s _ none).pre rfl
    · exact Or.inl rfl
  · exact Or.inl rfl

theorem ier_itClose (σ : State) (t i : Nat) : IErase σ (itClose σ t i).1 t := by
  unfold itClose
  split
  · split
    · exact ier_closeRef _ _ _ _ _
    · exact Or.inl rfl
  · exact Or.inl rfl

theorem ier_stepCollect (σ : State) (t sn : Nat) (after : Option Nat) : IErase σ (stepCollect σ t sn after).1 t := by
  unfold stepCollect
  split
  · exact (ier_collectLoop _ t after).pre rfl
  · exact Or.inl rfl

/-- after an erase the record of `(t, i)` is unchanged or gone -/
theorem curOf_of_erase {σ σ' : State} {t' : Nat} (h : IErase σ σ' t') (t i : Nat) :
    findIter (t, i) σ'.iters = findIter (t, i) σ.iters ∨ curOf σ' t i = none := by
  rcases h with h | ⟨i', h⟩
  · exact Or.inl (by rw [h])
  · rw [h]
    unfold curOf
    rw [h, findIter_erase]
    by_cases he : (t', i') = (t, i)
    · right; simp [he]
    · left; simp [he]

/-- the landing of a cursor changes the record of that iterator only -/
theorem findIter_landOn (σ : State) (t' i' : Nat) (it : Iter) (land : Option Node) (t i : Nat)
    (hne : (t', i') ≠ (t, i)) : findIter (t, i) (landOn σ t' i' it land).1.iters = findIter (t, i) σ.iters := by
  unfold landOn
  cases land with
  | none => show findIter (t, i) (setIter (t', i') _ σ.iters) = _; rw [findIter_set]; simp [hne]
  | some y =>
    simp only
    split
    · show findIter (t, i) (setIter (t', i') _ σ.iters) = _; rw [findIter_set]; simp [hne]
    · show findIter (t, i) (setIter (t', i') _ σ.iters) = _; rw [findIter_set]; simp [hne]

theorem findIter_stepIter_other (σ : State) (t' i' t i : Nat) (hne : (t', i') ≠ (t, i)) :
    findIter (t, i) (stepIter σ t' i').1.iters = findIter (t, i) σ.iters := by
  unfold stepIter
  split
  · split
    · split
      · rfl
      · split
        · exact findIter_landOn _ _ _ _ _ _ _ hne
        · split
          · rfl
          · exact findIter_landOn _ _ _ _ _ _ _ hne
    · rfl
  · rfl

theorem findIter_itFirst_other (σ : State) (t' i' t i : Nat) (hne : (t', i') ≠ (t, i)) :
    findIter (t, i) (itFirst σ t' i').1.iters = findIter (t, i) σ.iters := by
  unfold itFirst
  split
  · exact findIter_landOn _ _ _ _ _ _ _ hne
  · rfl

theorem curOf_itNew (σ : State) (t' i' s t i : Nat) :
    findIter (t, i) (itNew σ t' i' s).1.iters = findIter (t, i) σ.iters ∨ curOf (itNew σ t' i' s).1 t i = none := by
  unfold itNew
  split
  · split
    · exact Or.inl rfl
    · show findIter (t, i) (setIter (t', i') _ σ.iters) = _ ∨ _
      by_cases he : (t', i') = (t, i)
      · right
        show (findIter (t, i) (setIter (t', i') _ σ.iters)).bind (·.cur) = none
        rw [findIter_set]; simp [he]
      · left; rw [findIter_set]; simp [he]
  · exact Or.inl rfl

/-- which actions can touch the record of iterator `(t, i)`: only its own `it_first` and its own
    ITER_NEXT steps can give it a cursor -/
theorem record_step {σ : State} (hd : σ.down = false) (a : Act) (t i : Nat) :
    findIter (t, i) (step σ a).1.iters = findIter (t, i) σ.iters ∨ curOf (step σ a).1 t i = none ∨
      a = .itFirst t i ∨ (a = .step t ∧ σ.threads[t]? = some (.iterNext i)) := by
  rw [step_eq_of_not_down hd]
  cases a with
  | snap => simp only; split <;> exact Or.inl rfl
  | put t' k v => simp only; split <;> exact Or.inl rfl
  | del t' k =>
    simp only; split
    · unfold startDel; split
      · exact Or.inl rfl
      · split <;> exact Or.inl rfl
    · exact Or.inl rfl
  | get t' k => simp only; split <;> exact Or.inl rfl
  | close t' s =>
    simp only; split
    · rcases curOf_of_erase (ier_startClose σ t' s) t i with h | h
      · exact Or.inl h
      · exact Or.inr (Or.inl h)
    · exact Or.inl rfl
  | itNew t' i' s =>
    simp only; split
    · rcases curOf_itNew σ t' i' s t i with h | h
      · exact Or.inl h
      · exact Or.inr (Or.inl h)
    · exact Or.inl rfl
  | itFirst t' i' =>
    simp only; split
    · by_cases he : (t', i') = (t, i)
      · injection he with h1 h2; subst h1; subst h2; exact Or.inr (Or.inr (Or.inl rfl))
      · exact Or.inl (findIter_itFirst_other σ t' i' t i he)
    · exact Or.inl rfl
  | itNext t' i' =>
    simp only; split
    · unfold itNext; split
      · split <;> exact Or.inl rfl
      · exact Or.inl rfl
    · exact Or.inl rfl
  | itClose t' i' =>
    simp only; split
    · rcases curOf_of_erase (ier_itClose σ t' i') t i with h | h
      · exact Or.inl h
      · exact Or.inr (Or.inl h)
    · exact Or.inl rfl
  | step t' =>
    simp only
    unfold stepThread
    split
    · unfold stepPut; split
      · exact Or.inl rfl
      · simp only [alloc_store]
        split <;> exact Or.inl (by simp)
    · unfold stepDelPhys; split
      · exact Or.inl rfl
      · split <;> exact Or.inl rfl
    · exact Or.inl rfl
    · unfold stepDelCas casWin casLose; split
      · exact Or.inl rfl
      · split
        · split <;> exact Or.inl rfl
        · split
          · split <;> exact Or.inl rfl
          · exact Or.inl rfl
    · rename_i sn after hg
      rcases curOf_of_erase (ier_stepCollect σ t' sn after) t i with h | h
      · exact Or.inl h
      · exact Or.inr (Or.inl h)
    · rename_i i' hg
      by_cases he : (t', i') = (t, i)
      · injection he with h1 h2; subst h1; subst h2
        exact Or.inr (Or.inr (Or.inr ⟨rfl, hg⟩))
      · exact Or.inl (findIter_stepIter_other σ t' i' t i he)
    · exact Or.inl rfl
  | gc j =>
    simp only
    unfold stepGc
    split
    · split
      · split <;> exact Or.inl rfl
      · split
        · split
          · exact Or.inl rfl
          · split <;> (simp only; split <;> exact Or.inl rfl)
        · exact Or.inl rfl
      · exact Or.inl (by simp)
      · exact Or.inl rfl
      · exact Or.inl rfl
    · exact Or.inl rfl
  | fr j =>
    simp only
    unfold stepFr
    split
    · split
      · exact Or.inl (by simp)
      · exact Or.inl rfl
      · exact Or.inl rfl
    · exact Or.inl rfl
  | shutdown =>
    simp only
    unfold shutdown
    split
    · exact Or.inl (by simp)
    · exact Or.inl rfl

end NitroVerif.MvccConc
