/-
  C01 along concurrent histories (part 6): a whole scan.  What a reader has been handed so far is, at every
  moment, the part of its snapshot's view at or below its cursor; when the scan has answered `end` it is
  the whole view.
-/
import NitroVerif.Lemmas.MvccConcView5

namespace NitroVerif.MvccConc
open NitroVerif
open NitroVerif.Mvcc (Ver Sorted Chains vlt visible)

/-! ### what a reader is handed, with values -/

/-- the version action `a` hands to the user of iterator `(t, i)`, if any: key and value as answered
    (`ret <k:v>`), birth epoch of the node the cursor then stands on -/
def deliveredVerBy (σ : State) (a : Act) (t i : Nat) : Option Ver :=
  if mine σ a t i then
    match (step σ a).2 with
    | .ret (.item (some kv)) => (curOf (step σ a).1 t i).map (fun c => ⟨kv.1, kv.2, c.born, 0⟩)
    | _ => none
  else none

/-- the versions handed out by iterator `(t, i)` along a schedule -/
def deliveredVers (t i : Nat) : State → List Act → List Ver
  | _, [] => []
  | σ, a :: as => (deliveredVerBy σ a t i).toList ++ deliveredVers t i (step σ a).1 as

/-- action `a` answers `end` to the user of iterator `(t, i)` -/
def endedBy (σ : State) (a : Act) (t i : Nat) : Bool :=
  mine σ a t i && ((step σ a).2 == .ret (.item none))

/-- the scan of iterator `(t, i)` has answered `end` somewhere along the schedule -/
def scanEnded (t i : Nat) : State → List Act → Bool
  | _, [] => false
  | σ, a :: as => endedBy σ a t i || scanEnded t i (step σ a).1 as

/-- what a landing hands to the reader of snapshot `sn` -/
def landVer (sn : Nat) : Option Node → Option Ver
  | none => none
  | some y => if visible sn y.ver then some y.ver.norm else none

theorem landOn_resp (σ : State) (t i : Nat) (it : Iter) (land : Option Node) :
    (landOn σ t i it land).2 =
      match land with
      | none => .ret (.item none)
      | some y =>
        if Gen.skipUnwanted y.ver.born y.ver.dead it.sn then .at_ .ITER_NEXT
        else .ret (.item (some (y.ver.key, y.ver.val))) := by
  unfold landOn
  cases land with
  | none => rfl
  | some y => simp only; split <;> rfl

theorem findIter_landOn_self (σ : State) (t i : Nat) (it : Iter) (land : Option Node) :
    findIter (t, i) (landOn σ t i it land).1.iters = some { it with cur := land.map curAt } := by
  unfold landOn
  cases land with
  | none => show findIter (t, i) (setIter (t, i) _ σ.iters) = _; rw [findIter_set]; simp
  | some y =>
    simp only
    split
    · show findIter (t, i) (setIter (t, i) _ σ.iters) = _; rw [findIter_set]; simp [curAt]
    · show findIter (t, i) (setIter (t, i) _ σ.iters) = _; rw [findIter_set]; simp [curAt]

theorem landOn_threads (σ : State) (t i : Nat) (it : Iter) (land : Option Node) :
    ∃ pc' : Pc, pc'.closes = none ∧ (landOn σ t i it land).1.threads = σ.threads.set t pc' := by
  unfold landOn
  cases land with
  | none => exact ⟨.idle, rfl, rfl⟩
  | some y =>
    simp only
    split
    · exact ⟨.iterNext i, rfl, rfl⟩
    · exact ⟨.idle, rfl, rfl⟩

theorem delivered_landOn {σ : State} {a : Act} {t i : Nat} {it : Iter} {land : Option Node}
    (hm : mine σ a t i = true) (he : step σ a = landOn σ t i it land) :
    deliveredVerBy σ a t i = landVer it.sn land ∧ endedBy σ a t i = land.isNone := by
  unfold deliveredVerBy endedBy
  rw [if_pos hm, hm, he, landOn_resp]
  have hcur : curOf (landOn σ t i it land).1 t i = land.map curAt := by
    unfold curOf; rw [findIter_landOn_self]; rfl
  rw [hcur]
  cases land with
  | none => simp [landVer]
  | some y =>
    simp only [Option.map_some, Option.isNone_some, Bool.true_and, landVer]
    unfold visible
    cases hsk : Gen.skipUnwanted y.ver.born y.ver.dead it.sn
    · simp [curAt, Mvcc.Ver.norm]
    · simp

theorem delivered_noitem {σ : State} {a : Act} {t i : Nat} (h : NoItem (step σ a).2) :
    deliveredVerBy σ a t i = none ∧ endedBy σ a t i = false := by
  unfold deliveredVerBy endedBy
  refine ⟨?_, ?_⟩
  · split
    · split
      · rename_i kv hresp; exact absurd hresp (h _)
      · rfl
    · rfl
  · cases hr : ((step σ a).2 == Resp.ret (Val.item none))
    · simp
    · exact absurd (by simpa using hr) (h none)

theorem delivered_not_mine {σ : State} {a : Act} {t i : Nat} (h : mine σ a t i = false) :
    deliveredVerBy σ a t i = none ∧ endedBy σ a t i = false := by
  unfold deliveredVerBy endedBy
  simp [h]

/-! ### the tail of a Close, seen from another iterator -/

def TailOrSame (σ σ' : State) (t : Nat) (after : Option Nat) : Prop :=
  (σ'.threads = σ.threads ∧ σ'.iters = σ.iters) ∨ TailThr σ σ' t after

theorem tos_startClose (σ : State) (t s : Nat) : TailOrSame σ (startClose σ t s).1 t none := by
  unfold startClose
  cases hf : findSnap s σ.snaps with
  | none => exact Or.inl ⟨rfl, rfl⟩
  | some x =>
    simp only
    split
    · obtain ⟨f, _, _, h⟩ := closeRef_shape
        { σ with snaps := updSnap s (fun y => { y with held := false }) σ.snaps } t s x.rc none
      exact Or.inr h
    · exact Or.inl ⟨rfl, rfl⟩

theorem tos_itClose (σ : State) (t i : Nat) : TailOrSame σ (itClose σ t i).1 t (some i) := by
  unfold itClose
  cases hfi : findIter (t, i) σ.iters with
  | none => exact Or.inl ⟨rfl, rfl⟩
  | some it =>
    simp only
    cases hf : findSnap it.sn σ.snaps with
    | none => exact Or.inl ⟨rfl, rfl⟩
    | some x =>
      obtain ⟨f, _, _, h⟩ := closeRef_shape σ t it.sn x.rc (some i)
      exact Or.inr h

theorem tos_stepCollect (σ : State) (t sn : Nat) (after : Option Nat) :
    TailOrSame σ (stepCollect σ t sn after).1 t after := by
  unfold stepCollect
  split
  · rename_i x _
    exact Or.inr (tail_collectLoop
      { σ with lastGCSn := sn, gcJobs := σ.gcJobs ++ [⟨[], x.gclist, .recv⟩]
               snaps := updSnap sn (fun y => { y with st := .collected }) σ.snaps } t after).2
  · exact Or.inl ⟨rfl, rfl⟩

/-- the tail of a Close of thread `t'` touches neither the record of iterator `(t, i)` nor its status,
    unless it is the Close of that iterator -/
theorem scan_tail {σ σ' : State} {t' : Nat} {after : Option Nat} {pc0 : Pc} {t i : Nat}
    (h : TailOrSame σ σ' t' after) (ht : σ.threads[t']? = some pc0)
    (hc : pc0.closes = none ∨ pc0.closes = after) (hne : t' = t → after ≠ some i) :
    findIter (t, i) σ'.iters = findIter (t, i) σ.iters ∧ closingB σ'.threads (t, i) = closingB σ.threads (t, i) := by
  have hk : after ≠ some (t, i).2 ∨ (t, i).1 ≠ t' := by
    by_cases e : t' = t
    · exact Or.inl (hne e)
    · exact Or.inr (fun e' => e e'.symm)
  rcases h with ⟨h1, h2⟩ | ⟨h1, h2⟩ | ⟨s, h1, h2⟩
  · rw [h1, h2]; exact ⟨rfl, rfl⟩
  · rw [h1, h2]
    refine ⟨?_, closing_other (after := after) ht hc (Or.inl rfl) hk⟩
    cases after with
    | none => rfl
    | some j =>
      simp only
      rw [findIter_erase]
      have : ¬ ((t', j) = (t, i)) := by
        intro e; injection e with e1 e2
        exact hne e1 (by rw [e2])
      simp [this]
  · rw [h1, h2]
    exact ⟨rfl, closing_other (after := after) ht hc (Or.inr (by cases after <;> rfl)) hk⟩

theorem itNew_other {σ : State} {t' i' s t i : Nat} {it : Iter} (hf : findIter (t, i) σ.iters = some it) :
    findIter (t, i) (itNew σ t' i' s).1.iters = some it ∧ (itNew σ t' i' s).1.threads = σ.threads := by
  unfold itNew
  split
  · rename_i x hfs hfi
    split
    · exact ⟨hf, rfl⟩
    · refine ⟨?_, rfl⟩
      show findIter (t, i) (setIter (t', i') _ σ.iters) = _
      rw [findIter_set]
      have : ¬ ((t', i') = (t, i)) := by
        intro e; rw [e] at hfi; rw [hfi] at hf; cases hf
      simp [this, hf]
  · exact ⟨hf, rfl⟩

theorem closing_landOn {σ : State} {t' i' : Nat} {it : Iter} {land : Option Node} {pc0 : Pc}
    (ht : σ.threads[t']? = some pc0) (hc : pc0.closes = none) (k : Nat × Nat) :
    closingB (landOn σ t' i' it land).1.threads k = closingB σ.threads k := by
  obtain ⟨pc', hpc, hthr⟩ := landOn_threads σ t' i' it land
  rw [hthr]
  exact closingB_set_same ht (by rw [hpc, hc]) k

theorem closing_itFirst {σ : State} {t' i' : Nat} {pc0 : Pc} (ht : σ.threads[t']? = some pc0)
    (hc : pc0.closes = none) (k : Nat × Nat) :
    closingB (itFirst σ t' i').1.threads k = closingB σ.threads k := by
  unfold itFirst
  split
  · exact closing_landOn ht hc k
  · rfl

theorem closing_stepIter {σ : State} {t' i' : Nat} {pc0 : Pc} (ht : σ.threads[t']? = some pc0)
    (hc : pc0.closes = none) (k : Nat × Nat) :
    closingB (stepIter σ t' i').1.threads k = closingB σ.threads k := by
  unfold stepIter
  split
  · split
    · split
      · rfl
      · split
        · exact closing_landOn ht hc k
        · split
          · rfl
          · exact closing_landOn ht hc k
    · rfl
  · rfl

/-! ### the scan invariant -/

/-- iterator `(t, i)` is open on snapshot `sn`, has not begun its `Close`, stands at `cur`, and its snapshot
    sees `V` -/
structure Scanning (σ : State) (t i sn : Nat) (cur : Option Cur) (V : List Ver) : Prop where
  it_ex : ∃ it, findIter (t, i) σ.iters = some it ∧ it.sn = sn ∧ it.cur = cur
  view : viewOf σ sn = V
  open_ : closingB σ.threads (t, i) = false

theorem Scanning.keep {σ σ' : State} {t i sn : Nat} {cur : Option Cur} {V : List Ver} (hs : Scanning σ t i sn cur V)
    (hf : findIter (t, i) σ'.iters = findIter (t, i) σ.iters)
    (hc : closingB σ'.threads (t, i) = closingB σ.threads (t, i)) (hv : viewOf σ' sn = viewOf σ sn) :
    Scanning σ' t i sn cur V :=
  ⟨by rw [hf]; exact hs.it_ex, by rw [hv]; exact hs.view, by rw [hc]; exact hs.open_⟩

/-- the landing of the iterator's own cursor -/
theorem scan_land {σ : State} {t i : Nat} {it : Iter} {land : Option Node} {pc0 : Pc} {a : Act}
    (hf : findIter (t, i) σ.iters = some it) (ht : σ.threads[t]? = some pc0) (hc : pc0.closes = none)
    (hm : mine σ a t i = true) (he : step σ a = landOn σ t i it land) :
    Scanning (step σ a).1 t i it.sn (land.map curAt) (viewOf σ it.sn) ∧
      (endedBy σ a t i = true → land.map curAt = none) := by
  refine ⟨⟨?_, ?_, ?_⟩, ?_⟩
  · rw [he]; exact ⟨_, findIter_landOn_self σ t i it land, rfl, rfl⟩
  · rw [he]; exact viewOf_congr (mild_landOn σ t i it land).1 it.sn
  · rw [he, closing_landOn ht hc]
    rw [closingB_eq (k := (t, i)) ht, hc]; rfl
  · intro hend
    rw [(delivered_landOn hm he).2] at hend
    cases land with
    | none => rfl
    | some y => cases hend

theorem upTo_advance {σ : State} {sn : Nat} {c : Cur} {land : Option Node}
    (h : AdvanceSpec σ.store sn c land) :
    upTo (viewOf σ sn) (land.map curAt) = upTo (viewOf σ sn) (some c) ++ (landVer sn land).toList := by
  cases land with
  | none =>
    show viewOf σ sn = _
    rw [upTo_viewOf_some, viewOf_eq]
    have h' : σ.store.filter _ = σ.store.filter _ := h
    rw [h']; simp [landVer]
  | some y =>
    show upTo (viewOf σ sn) (some (curAt y)) = _
    rw [upTo_viewOf_some, upTo_viewOf_some]
    have h' : σ.store.filter _ = σ.store.filter _ ++ _ := h
    rw [h', List.map_append]
    by_cases hv : visible sn y.ver = true
    · simp [landVer, hv]
    · simp [landVer, hv]

theorem upTo_first {σ : State} {sn : Nat} {land : Option Node} (h : FirstSpec σ.store sn land) :
    upTo (viewOf σ sn) (land.map curAt) = (landVer sn land).toList := by
  cases land with
  | none =>
    show viewOf σ sn = _
    rw [viewOf_eq]
    have h' : σ.store.filter _ = [] := h
    rw [h']; simp [landVer]
  | some y =>
    show upTo (viewOf σ sn) (some (curAt y)) = _
    rw [upTo_viewOf_some]
    have h' : σ.store.filter _ = _ := h
    rw [h']
    by_cases hv : visible sn y.ver = true
    · simp [landVer, hv]
    · simp [landVer, hv]

/-- one action of anybody during a scan -/
theorem scan_step {nw nr : Nat} {σ : State} (hr : Reachable nw nr σ) {t i sn : Nat} {cur : Option Cur}
    {V : List Ver} (hs : Scanning σ t i sn cur V) (a : Act) (h1 : a ≠ .itFirst t i) (h2 : a ≠ .itClose t i) :
    ∃ cur', Scanning (step σ a).1 t i sn cur' V ∧
      upTo V cur' = upTo V cur ++ (deliveredVerBy σ a t i).toList ∧
      (cur = none → cur' = none) ∧ (endedBy σ a t i = true → cur' = none) := by
  have keep : (findIter (t, i) (step σ a).1.iters = findIter (t, i) σ.iters) →
      (closingB (step σ a).1.threads (t, i) = closingB σ.threads (t, i)) →
      (viewOf (step σ a).1 sn = viewOf σ sn) →
      (deliveredVerBy σ a t i = none ∧ endedBy σ a t i = false) →
      ∃ cur', Scanning (step σ a).1 t i sn cur' V ∧
        upTo V cur' = upTo V cur ++ (deliveredVerBy σ a t i).toList ∧
        (cur = none → cur' = none) ∧ (endedBy σ a t i = true → cur' = none) := by
    intro e1 e2 e3 e4
    refine ⟨cur, hs.keep e1 e2 e3, by rw [e4.1]; simp, fun h => h, ?_⟩
    intro h; rw [e4.2] at h; cases h
  by_cases hd : σ.down = true
  · have hst := step_down hd a
    exact keep (by rw [hst]) (by rw [hst]) (by rw [hst])
      (delivered_noitem (by rw [hst]; intro c h; cases h))
  have hd0 : σ.down = false := by simpa using hd
  have hi := inv_reachable hr hd0
  have hk := iterInv_reachable hr
  have hv := vinv_reachable hr
  have hfx : σ.fixedIter = true := fixedIter_reachable hr
  obtain ⟨it, hf, hsn, hcur⟩ := hs.it_ex
  have hm := findIter_some hf
  have hopen : openSn σ sn := by rw [← hsn]; exact open_of_iter hv hm hs.open_
  rcases step_cases hi hd0 a with ⟨hq, hni⟩ | ⟨ha, _, he⟩ | ⟨t', s, ha, ht, he⟩ | ⟨t', i', s, ha, ht, he⟩ |
      ⟨t', i', ha, ht, he⟩ | ⟨t', i', ha, ht, he⟩ | ⟨t', sn', after, ha, ht, he⟩ | ⟨t', i', ha, ht, he⟩
  · -- a quiet action
    refine keep (by rw [hq.1.2.2.2]) ?_ (view_qstep hi hv hq hopen) (delivered_noitem hni)
    rcases hq.2.1 with h | ⟨t', pc0, pc', hg, h, h0, hp⟩
    · rw [h]
    · rw [h]
      exact closingB_set_same hg (by rw [closes_of_not_coll h0, closes_of_not_coll hp]) _
  · -- NewSnapshot
    refine keep (by rw [he]; rfl) (by rw [he]; rfl) (by rw [he]; exact viewOf_congr rfl sn)
      (delivered_not_mine (by rw [ha]; rfl))
  · -- Snapshot.Close
    have := scan_tail (t := t) (i := i) (tos_startClose σ t' s) ht (Or.inl rfl) (by intro _ h; cases h)
    refine keep (by rw [he]; exact this.1) (by rw [he]; exact this.2)
      (by rw [he]; exact viewOf_congr (mild_startClose σ t' s).1 sn) (delivered_not_mine (by rw [ha]; rfl))
  · -- NewIterator
    have := itNew_other (t' := t') (i' := i') (s := s) hf
    refine keep (by rw [he, this.1, hf]) (by rw [he, this.2])
      (by rw [he]; exact viewOf_congr (mild_itNew σ t' i' s).1 sn) (delivered_not_mine (by rw [ha]; rfl))
  · -- another iterator's SeekFirst
    have hne : (t', i') ≠ (t, i) := by
      intro e; injection e with e1 e2; subst e1; subst e2; exact h1 ha
    refine keep (by rw [he]; exact findIter_itFirst_other σ t' i' t i hne)
      (by rw [he]; exact closing_itFirst ht rfl _)
      (by rw [he]; exact viewOf_congr (mild_itFirst σ t' i').1 sn) (delivered_not_mine ?_)
    rw [ha]
    show (t' == t && i' == i) = false
    cases e1 : t' == t <;> cases e2 : i' == i <;> simp_all
  · -- another iterator's Close
    have hne : (t', i') ≠ (t, i) := by
      intro e; injection e with e1 e2; subst e1; subst e2; exact h2 ha
    have := scan_tail (t := t) (i := i) (tos_itClose σ t' i') ht (Or.inl rfl) (by
      intro e h; injection h with h; exact hne (by rw [e, h]))
    refine keep (by rw [he]; exact this.1) (by rw [he]; exact this.2)
      (by rw [he]; exact viewOf_congr (mild_itClose σ t' i').1 sn) (delivered_not_mine (by rw [ha]; rfl))
  · -- COLLECT_SEND
    have := scan_tail (t := t) (i := i) (tos_stepCollect σ t' sn' after) ht
      (Or.inr (by cases after <;> rfl)) (by
        intro e h
        have hop := hs.open_
        rw [closingB_eq (k := (t, i)) (by rw [← e]; exact ht), h] at hop
        simp [Pc.closes] at hop)
    refine keep (by rw [he]; exact this.1) (by rw [he]; exact this.2)
      (by rw [he]; exact viewOf_congr (mild_stepCollect σ t' sn' after).1 sn) (delivered_not_mine ?_)
    rw [ha]
    show (t' == t && σ.threads[t]? == some (.iterNext i)) = false
    by_cases e : t' = t
    · rw [← e, ht]; simp
    · simp [e]
  · -- ITER_NEXT
    by_cases hown : (t', i') = (t, i)
    · injection hown with e1 e2; subst e1; subst e2
      have hmine : mine σ a t' i' = true := by
        rw [ha]; show (t' == t' && σ.threads[t']? == some (.iterNext i')) = true
        rw [ht]; simp
      cases hcc : it.cur with
      | none =>
        have hbad : stepIter σ t' i' = (σ, .bad) := by
          unfold stepIter; rw [hf]; simp only; rw [hcc]
        exact keep (by rw [he, hbad]) (by rw [he, hbad]) (by rw [he, hbad])
          (delivered_noitem (by rw [he, hbad]; intro c h; cases h))
      | some c =>
        rcases stepIter_land hi hk hfx hf hcc with huaf | ⟨land, hl, hspec⟩
        · exact keep (by rw [he, huaf]) (by rw [he, huaf]) (by rw [he, huaf])
            (delivered_noitem (by rw [he, huaf]; intro c h; cases h))
        · have hcs : cur = some c := by rw [← hcur, hcc]
          subst hcs
          have hel : step σ a = landOn σ t' i' it land := by rw [he, hl]
          obtain ⟨hsc, hend⟩ := scan_land hf ht rfl hmine hel
          rw [hsn] at hsc hspec
          rw [hs.view] at hsc
          refine ⟨land.map curAt, hsc, ?_, (by intro h; cases h), hend⟩
          rw [(delivered_landOn hmine hel).1, ← hs.view, hsn]
          exact upTo_advance hspec
    · refine keep (by rw [he]; exact findIter_stepIter_other σ t' i' t i hown)
        (by rw [he]; exact closing_stepIter ht rfl _)
        (by rw [he]; exact viewOf_congr (mild_stepIter σ t' i').1 sn) (delivered_not_mine ?_)
      rw [ha]
      show (t' == t && σ.threads[t]? == some (.iterNext i)) = false
      by_cases e : t' = t
      · rw [← e, ht]
        have : i' ≠ i := fun e' => hown (by rw [e, e'])
        simp [this]
      · simp [e]

/-- an accepted `it_first` starts a scan -/
theorem scan_first {nw nr : Nat} {σ : State} (hr : Reachable nw nr σ) {t i : Nat}
    (hacc : (step σ (.itFirst t i)).2 ≠ .bad) :
    ∃ it cur', findIter (t, i) σ.iters = some it ∧
      Scanning (step σ (.itFirst t i)).1 t i it.sn cur' (viewOf σ it.sn) ∧
      upTo (viewOf σ it.sn) cur' = (deliveredVerBy σ (.itFirst t i) t i).toList ∧
      (endedBy σ (.itFirst t i) t i = true → cur' = none) := by
  by_cases hd : σ.down = true
  · exact absurd (by rw [step_down hd]) hacc
  have hd0 : σ.down = false := by simpa using hd
  have hi := inv_reachable hr hd0
  have hst := step_eq_of_not_down hd0 (.itFirst t i)
  simp only at hst
  by_cases hok : (isReader σ t && isIdle σ t) = true
  · rw [if_pos hok] at hst
    have hidle : σ.threads[t]? = some .idle := isIdle_spec (by simp at hok; exact hok.2)
    cases hf : findIter (t, i) σ.iters with
    | none =>
      exfalso; apply hacc; rw [hst]; unfold itFirst; rw [hf]
    | some it =>
      have hel : step σ (.itFirst t i) = landOn σ t i it σ.store.head? := by
        rw [hst]; unfold itFirst; rw [hf]
      have hmine : mine σ (.itFirst t i) t i = true := by simp [mine]
      obtain ⟨hsc, hend⟩ := scan_land hf hidle rfl hmine hel
      refine ⟨it, σ.store.head?.map curAt, rfl, hsc, ?_, hend⟩
      rw [(delivered_landOn hmine hel).1]
      exact upTo_first (first_land (pairwise_nodes hi.store.sorted) it.sn)
  · rw [if_neg hok] at hst
    exact absurd (by rw [hst]) hacc

/-- a whole stretch of a scan -/
theorem scan_run {nw nr : Nat} {t i sn : Nat} {V : List Ver} : ∀ (sched : List Act) {σ : State} {cur : Option Cur},
    Reachable nw nr σ → Scanning σ t i sn cur V → Act.itFirst t i ∉ sched → Act.itClose t i ∉ sched →
    ∃ cur', Scanning (run σ sched) t i sn cur' V ∧
      upTo V cur' = upTo V cur ++ deliveredVers t i σ sched ∧
      ((cur = none ∨ scanEnded t i σ sched = true) → cur' = none)
  | [], σ, cur, _, hs, _, _ => ⟨cur, hs, by simp [deliveredVers], by
      rintro (h | h)
      · exact h
      · cases h⟩
  | a :: as, σ, cur, hr, hs, hn1, hn2 => by
    have ha1 : a ≠ .itFirst t i := fun h => hn1 (h ▸ List.mem_cons_self)
    have ha2 : a ≠ .itClose t i := fun h => hn2 (h ▸ List.mem_cons_self)
    obtain ⟨c1, hs1, hu1, hk1, he1⟩ := scan_step hr hs a ha1 ha2
    obtain ⟨c2, hs2, hu2, hk2⟩ := scan_run as (ReachableFx.step a hr) hs1
      (fun h => hn1 (List.mem_cons_of_mem _ h)) (fun h => hn2 (List.mem_cons_of_mem _ h))
    refine ⟨c2, hs2, ?_, ?_⟩
    · rw [hu2, hu1]; simp [deliveredVers]
    · intro h
      apply hk2
      rcases h with h | h
      · exact Or.inl (hk1 h)
      · simp only [scanEnded, Bool.or_eq_true] at h
        rcases h with h | h
        · exact Or.inl (he1 h)
        · exact Or.inr h

end NitroVerif.MvccConc
