import NitroVerif.Lemmas.SkipConcQuietMark
/-!
  Quiescence of M5, part 6: the `walk` the driver prints IS the chain (`PathL`) of that level, and what a quiescent
  state is.
-/
namespace NitroVerif.SkipConc
open NitroVerif

/-- what `walk` prints for a list of nodes: item and level-`l` mark -/
def walkOf (h : Heap) (l : Nat) (ns : List Nat) : List (Nat × Bool) :=
  ns.map fun x => (itemOfKey (keyOf h x), (getNext h x l).2)

theorem walkLevel_path {h : Heap} (H : HInv h) {l a c : Nat} {ns : List Nat} (p : PathL h l a ns c) (hc : c = 1)
    (hk : ∀ x ∈ ns, ∃ k, keyOf h x = .fin k) : ∀ fuel, ns.length ≤ fuel → walkLevel h l fuel a = walkOf h l ns := by
  induction p with
  | nil =>
    intro fuel _
    subst hc
    cases fuel with
    | zero => rfl
    | succ f => simp [walkLevel, H.tailKey, walkOf]
  | @cons a b c ns m hw p ih =>
    intro fuel hf
    cases fuel with
    | zero => simp at hf
    | succ f =>
      obtain ⟨k, hka⟩ := hk a (by simp)
      have hg : getNext h a l = (b, m) := getNext_of_word hw
      simp only [walkLevel, hka, hg, walkOf, List.map_cons, itemOfKey]
      have := ih hc (fun x hx => hk x (by simp [hx])) f (by simpa using hf)
      rw [this]; rfl

/-- the printed walk of a level is the chain of that level without the head -/
theorem walk_eq_path {h : Heap} (H : HInv h) {l : Nat} {ns : List Nat} (p : PathL h l 0 (0 :: ns) 1)
    (hs : (0 :: ns).Pairwise (fun a b => Key.lt (keyOf h a) (keyOf h b))) (hlen : ns.length ≤ h.length) :
    walk h l = walkOf h l ns := by
  cases p with
  | @cons _ b _ _ m hw p' =>
    have hg : getNext h headId l = (b, m) := getNext_of_word hw
    unfold walk
    rw [hg]
    refine walkLevel_path H p' rfl (fun x hx => ?_) _ hlen
    obtain ⟨_, _, hwx⟩ := p'.mem hx
    obtain ⟨w, hwx⟩ := Option.isSome_iff_exists.mp hwx
    have hx0 : x ≠ 0 := by
      intro e
      have := (List.pairwise_cons.mp hs).1 x hx
      rw [e] at this; exact Key.lt_irrefl _ this
    have hx1 : x ≠ 1 := by
      intro e; rw [e, H.tailNoWord] at hwx; simp at hwx
    exact H.finKey x (by omega) (word?_lt hwx)

theorem quiescent_idle {s : Sys} (hq : s.quiescent = true) {t : Nat} {th : Thread} (hth : s.threads[t]? = some th) :
    isIdle th.pc = true := by
  unfold Sys.quiescent at hq
  exact List.all_eq_true.mp hq th (List.mem_of_getElem? hth)

end NitroVerif.SkipConc
