/-
  `NewSnapshot` preserves the invariant.
-/
import NitroVerif.Lemmas.MvccInvDel

namespace NitroVerif.Mvcc
open NitroVerif SetSpec

theorem sum_reset (l : List Writer) : ((l.map (fun _ => (⟨0, []⟩ : Writer))).map (·.count)).sum = 0 := by
  induction l with
  | nil => rfl
  | cons x xs ih => simp at ih ⊢; exact ih

theorem inGc_reset (l : List Writer) (g : Ver) : ¬ InGc (l.map (fun _ => (⟨0, []⟩ : Writer))) g := by
  rintro ⟨w, hw, hg⟩
  obtain ⟨_, _, rfl⟩ := List.mem_map.mp hw
  simp at hg

theorem mem_gclist_iff (l : List Writer) (g : Ver) :
    g ∈ (l.reverse.map (·.gc)).flatten ↔ InGc l g := by
  unfold InGc
  simp only [List.mem_flatten, List.mem_map, List.mem_reverse]
  constructor
  · rintro ⟨_, ⟨w, hw, rfl⟩, hg⟩; exact ⟨w, hw, hg⟩
  · rintro ⟨w, hw, hg⟩; exact ⟨w.gc, ⟨w, hw, rfl⟩, hg⟩

theorem mem_gclist_iff' (l : List Writer) (g : Ver) :
    g ∈ ((l.map (·.gc)).reverse).flatten ↔ InGc l g := by
  rw [← List.map_reverse]; exact mem_gclist_iff l g

/-- at the current snapshot number exactly the alive versions are visible -/
theorem visible_cur_iff_alive {cur : Nat} {s : List Ver} (hc : Chains cur s) :
    s.filter (visible cur) = s.filter isAlive := by
  apply List.filter_congr
  intro v hv
  have h1 := hc.1 v hv
  have h2 := visible_iff cur v
  have h3 : isAlive v = true ↔ v.dead = 0 := by simp [isAlive]
  rw [Bool.eq_iff_iff, h2, h3]
  omega

theorem itersOn_zero {iters : List (Nat × Iter)} {n : Nat} (h : ∀ p ∈ iters, p.2.sn ≠ n) :
    itersOn n iters = 0 := by
  unfold itersOn
  have : iters.filter (fun p => p.2.sn == n) = [] := by
    apply List.filter_eq_nil_iff.mpr
    intro p hp; simp; exact h p hp
  simp [this]

theorem inv_newSnapshot {σ : State} (h : Inv σ) : Inv (newSnapshot σ).1 := by
  have hcur : 0 < σ.currSn := by have := h.snaps.gclt; omega
  unfold newSnapshot
  simp only
  refine ⟨h.sorted, chains_mono (Nat.le_succ _) h.chains, ?_, ?_, ?_, ?_, ?_, ?_⟩
  all_goals dsimp only
  · have h1 := h.count
    unfold CountInv at h1 ⊢
    rw [sum_reset]; omega
  · have hs := h.snaps
    refine ⟨?_, ?_, ?_, ?_, by have := hs.gclt; omega, ?_, ?_, ?_⟩
    · intro s hsm
      rcases List.mem_append.mp hsm with h1 | h1
      · have := hs.lt s h1; omega
      · simp at h1; subst h1; simp; omega
    · intro n hn0 hn
      by_cases hlt : n < σ.currSn
      · obtain ⟨s, hsm, hsn⟩ := hs.all n hn0 hlt
        exact ⟨s, List.mem_append_left _ hsm, hsn⟩
      · exact ⟨_, List.mem_append_right _ (List.mem_singleton.mpr rfl), by simp; omega⟩
    · apply List.pairwise_append.mpr
      refine ⟨hs.inc, List.pairwise_singleton _ _, ?_⟩
      intro a ha b hb
      simp at hb; subst hb
      exact (hs.lt a ha).2
    · intro s hsm
      rcases List.mem_append.mp hsm with h1 | h1
      · exact hs.rc s h1
      · simp at h1; subst h1; simp
    · intro s hsm
      rcases List.mem_append.mp hsm with h1 | h1
      · exact hs.coll s h1
      · simp at h1; subst h1; simp; exact hs.gclt
    · intro s hsm hsn
      rcases List.mem_append.mp hsm with h1 | h1
      · exact hs.front s h1 hsn
      · simp at h1; subst h1; rfl
    · intro s hsm
      rcases List.mem_append.mp hsm with h1 | h1
      · exact hs.cnt s h1
      · simp at h1; subst h1
        simp only [view, List.length_map]
        rw [visible_cur_iff_alive h.chains]
        exact h.count
  · intro s hsm hrc
    rcases List.mem_append.mp hsm with h1 | h1
    · exact h.view s h1 hrc
    · simp at h1; subst h1; rfl
  · have hg := h.garb
    refine ⟨?_, ?_, ?_, ?_, hg.exact, ?_, ?_⟩
    · intro v hv hd
      have := h.chains.1 v hv
      omega
    · intro v hv hd hlt
      by_cases hc : v.dead < σ.currSn
      · obtain ⟨s, hsm, hsn, hgx⟩ := hg.sgc v hv hd hc
        exact ⟨s, List.mem_append_left _ hsm, hsn, hgx⟩
      · have hdc : v.dead = σ.currSn := by omega
        obtain ⟨g, hg1, hg2⟩ := hg.wgc v hv hdc
        refine ⟨_, List.mem_append_right _ (List.mem_singleton.mpr rfl), by simp; omega, g, ?_, hg2⟩
        exact (mem_gclist_iff _ g).mpr hg1
    · intro g hgin; exact absurd hgin (inGc_reset _ g)
    · intro s hsm hst g hgm
      rcases List.mem_append.mp hsm with h1 | h1
      · exact hg.ssound s h1 hst g hgm
      · simp at h1; subst h1
        simp only at hgm ⊢
        exact hg.wsound g ((mem_gclist_iff' _ g).mp hgm)
    · intro g hgin; exact absurd hgin (inGc_reset _ g)
    · intro s hsm hst g hgm
      rcases List.mem_append.mp hsm with h1 | h1
      · exact hg.spres s h1 hst g hgm
      · simp at h1; subst h1
        simp only at hgm
        exact hg.wpres g ((mem_gclist_iff' _ g).mp hgm)
  · have hi := h.iters
    refine ⟨?_, ?_⟩
    · intro p hp
      obtain ⟨s, hsm, hsn, hc⟩ := hi.snap p hp
      exact ⟨s, List.mem_append_left _ hsm, hsn, hc⟩
    · intro s hsm
      rcases List.mem_append.mp hsm with h1 | h1
      · exact hi.refs s h1
      · simp at h1; subst h1
        simp only
        rw [itersOn_zero]
        · omega
        · intro p hp
          obtain ⟨s, hsm, hsn, _⟩ := hi.snap p hp
          have := (h.snaps.lt s hsm).2; omega
  · intro p hp hgone
    rcases h.handles p hp hgone with h1 | ⟨v, hv, hk⟩
    · exact Or.inl (by omega)
    · have := (h.chains.1 v hv).1
      exact Or.inl (by omega)

end NitroVerif.Mvcc
