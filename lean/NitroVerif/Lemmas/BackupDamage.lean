import NitroVerif.Lemmas.Backup
/-!
  Lemmas for C11: `load` on an image whose files.json lists `shard-0 … shard-(n-1)` in closed form,
  removal of files, inversion of a successful shard read, and what a version-0 reader makes of a
  file written with the 4-byte framing.
-/
namespace NitroVerif.Backup
open NitroVerif NitroVerif.Codec NitroVerif.Backup.GenLemmas NitroVerif.Codec.GenLemmas

/-! ### removing a file -/

theorem lookup_removeFile_self (name : String) (fs : List (String × Bytes)) :
    lookup name (removeFile name fs) = none := by
  induction fs with
  | nil => rfl
  | cons p r ih =>
    obtain ⟨n, b⟩ := p
    simp only [removeFile, List.filter_cons] at ih ⊢
    split
    · rename_i hn
      simp only [lookup]
      rw [if_neg (by simpa using hn)]
      exact ih
    · exact ih

theorem lookup_removeFile_ne {name n : String} (h : n ≠ name) (fs : List (String × Bytes)) :
    lookup n (removeFile name fs) = lookup n fs := by
  induction fs with
  | nil => rfl
  | cons p r ih =>
    obtain ⟨m, b⟩ := p
    simp only [removeFile, List.filter_cons] at ih ⊢
    split
    · simp only [lookup]
      rw [ih]
    · rename_i hm
      have hmn : m = name := by simpa using hm
      simp only [lookup]
      rw [if_neg (by rw [hmn]; exact fun e => h e.symm)]
      exact ih

/-! ### lists that differ, differ at an index -/

theorem exists_getElem_ne {α : Type} {l₁ l₂ : List α} (hlen : l₁.length = l₂.length) (hne : l₁ ≠ l₂) :
    ∃ i, ∃ (h1 : i < l₁.length) (h2 : i < l₂.length), l₁[i] ≠ l₂[i] := by
  apply Classical.byContradiction
  intro hno
  apply hne
  apply List.ext_getElem hlen
  intro i h1 h2
  apply Classical.byContradiction
  intro hd
  exact hno ⟨i, h1, h2, hd⟩

/-! ### one shard: inversion -/

theorem shardResult_some {h : Bytes → Nat} {ver : Nat} {mm : Nat → Nat → Bool} {s : Nat} {b : Bytes}
    {items : List Bytes} (hr : shardResult h ver mm (s, b) = some items) :
    ∃ sum rest, readFile h ver b = .ok items sum rest ∧ mm s sum = false := by
  unfold shardResult at hr
  simp only at hr
  cases hf : readFile h ver b with
  | err before => rw [hf] at hr; cases hr
  | ok its sum rest =>
    rw [hf] at hr
    simp only at hr
    by_cases hm : mm s sum = true
    · simp [hm] at hr
    · simp only [hm, Bool.false_eq_true, if_false, Option.some.injEq] at hr
      subst hr
      exact ⟨sum, rest, rfl, by simpa using hm⟩

theorem shardResult_of_read {h : Bytes → Nat} {ver : Nat} {mm : Nat → Nat → Bool} {s : Nat} {b : Bytes}
    {items : List Bytes} {sum : Nat} {rest : Bytes} (hr : readFile h ver b = .ok items sum rest) :
    shardResult h ver mm (s, b) = if mm s sum then none else some items := by
  unfold shardResult
  simp only [hr]

/-! ### `load` in closed form when files.json lists `shard-0 … shard-(n-1)` -/

theorem load_canonical (h : Bytes → Nat) (cmp : Bytes → Bytes → Int) (img : Image) (cs : List Bytes)
    (hfiles : img.files = .parsed (shardNames cs.length))
    (hdata : ∀ i, i < cs.length → lookup (shardName i) img.data = cs[i]?) :
    load h cmp false img =
      match versionOf img.version with
      | none => .err
      | some ver =>
        match sumsOf img.sums cs.length with
        | none => .err
        | some (has, ss) =>
          match allSome ((ss.zip cs).map (shardResult h ver (Gen.checksumMismatch has))) with
          | none => .err
          | some l => .ok l.flatten := by
  unfold load
  cases versionOf img.version with
  | none => rfl
  | some ver =>
    simp only [hfiles]
    rw [loadShards_canonical h ver Gen.checksumMismatch img.sums img.data cs hdata]
    cases sumsOf img.sums cs.length with
    | none => rfl
    | some p =>
      obtain ⟨has, ss⟩ := p
      simp only
      cases allSome ((ss.zip cs).map (shardResult h ver (Gen.checksumMismatch has))) with
      | none => rfl
      | some l => simp

/-- index-wise reading of a successful pass over the shards -/
theorem allSome_shards_inv {h : Bytes → Nat} {ver : Nat} {mm : Nat → Nat → Bool} {ss : List Nat}
    {cs : List Bytes} {l : List (List Bytes)} (hlen : ss.length = cs.length)
    (hr : allSome ((ss.zip cs).map (shardResult h ver mm)) = some l) :
    l.length = cs.length ∧
    ∀ i (hc : i < cs.length) (hs : i < ss.length) (hl : i < l.length),
      ∃ sum rest, readFile h ver cs[i] = .ok l[i] sum rest ∧ mm ss[i] sum = false := by
  obtain ⟨hl, hall⟩ := allSome_map_inv _ _ _ hr
  have hz : (ss.zip cs).length = cs.length := by simp; omega
  refine ⟨by omega, fun i hc hs hli => ?_⟩
  have := hall i (by omega) hli
  have hzi : (ss.zip cs)[i]'(by omega) = (ss[i], cs[i]) := by simp
  rw [hzi] at this
  exact shardResult_some this

/-! ### a version-0 reader over a file written with 4-byte lengths -/

theorem beBytes_four (n : Nat) : beBytes 4 n = beBytes 2 (n / 65536) ++ beBytes 2 n := by
  have e1 : n / 256 ^ 3 % 256 = n / 65536 / 256 ^ 1 % 256 := by omega
  have e2 : n / 256 ^ 2 % 256 = n / 65536 / 256 ^ 0 % 256 := by omega
  simp [beBytes, e1, e2]

/-- a 2-byte zero length ends the stream at once -/
theorem readFile_v0_zero_head (h : Bytes → Nat) (tail : Bytes) :
    readFile h 0 (beBytes 2 0 ++ tail) = .ok [] 0 tail := by
  unfold readFile
  simp only [List.length_append, length_beBytes]
  unfold readLoop
  rw [decodeItem_terminator lenWidth_zero]
  rfl

/-- every written file whose first item (if any) is shorter than 2^16 bytes starts with two zero
    bytes -/
theorem writeFile_small_head (part : List Bytes) (rest : Bytes)
    (hsmall : ∀ d ∈ part.head?, d.length < 2 ^ 16) :
    ∃ tail, writeFile part ++ rest = beBytes 2 0 ++ tail := by
  cases part with
  | nil =>
    refine ⟨beBytes 2 0 ++ rest, ?_⟩
    simp [writeFile, encodeItem, encodeLen_eq, beBytes_four]
  | cons d ds =>
    have hd : d.length < 2 ^ 16 := hsmall d (by simp)
    have h0 : d.length / 65536 = 0 := by omega
    refine ⟨beBytes 2 d.length ++ d ++ (ds.flatMap encodeItem ++ encodeItem [] ++ rest), ?_⟩
    simp [writeFile, encodeItem, encodeLen_eq, beBytes_four, h0, List.append_assoc]

/-- with items shorter than 2^16 bytes a version-0 reader sees an EMPTY shard with checksum 0 in
    every written file -/
theorem readFile_v0_small (h : Bytes → Nat) (part : List Bytes) (rest : Bytes)
    (hsmall : ∀ d ∈ part.head?, d.length < 2 ^ 16) :
    ∃ tail, readFile h 0 (writeFile part ++ rest) = .ok [] 0 tail := by
  obtain ⟨tail, ht⟩ := writeFile_small_head part rest hsmall
  exact ⟨tail, by rw [ht, readFile_v0_zero_head]⟩

/-- the items the loop has accumulated stay at the front of its result -/
theorem readLoop_acc_prefix (h : Bytes → Nat) (ver fuel : Nat) (bs : Bytes) (acc : List Bytes) (s : Nat)
    (items : List Bytes) (sum : Nat) (rest : Bytes)
    (hr : readLoop h ver fuel bs acc s = .ok items sum rest) : acc.reverse <+: items := by
  induction fuel generalizing bs acc s with
  | zero => simp [readLoop] at hr
  | succ n ih =>
    unfold readLoop at hr
    cases hd : decodeItem ver bs with
    | short => rw [hd] at hr; simp at hr
    | terminator r =>
      rw [hd] at hr
      simp only [ReadResult.ok.injEq] at hr
      rw [← hr.1]
      exact List.prefix_refl _
    | item lb d r =>
      rw [hd] at hr
      have := ih _ _ _ hr
      rw [List.reverse_cons] at this
      exact (List.prefix_append _ _).trans this

/-- a version-0 reader never returns the items of a non-empty part written with 4-byte lengths:
    it fails, or sees an empty shard, or its first item has another length -/
theorem readFile_v0_ne (h : Bytes → Nat) (part : List Bytes) (hp : ValidItems part) (hne : part ≠ [])
    (rest : Bytes) (items : List Bytes) (sum : Nat) (r : Bytes)
    (hr : readFile h 0 (writeFile part ++ rest) = .ok items sum r) : items ≠ part := by
  cases part with
  | nil => exact absurd rfl hne
  | cons d ds =>
    have hd := hp d List.mem_cons_self
    by_cases h0 : d.length / 65536 = 0
    · obtain ⟨tail, ht⟩ := readFile_v0_small h (d :: ds) rest (by intro x hx; simp at hx; subst hx; omega)
      rw [ht] at hr
      simp only [ReadResult.ok.injEq] at hr
      rw [← hr.1]; simp
    · -- the first two bytes announce an item of `hi` bytes, `0 < hi < |d|`
      have hhi : d.length / 65536 < 256 ^ 2 := by omega
      have hlt : d.length / 65536 < d.length := Nat.div_lt_self hd.1 (by decide)
      have hshape : writeFile (d :: ds) ++ rest
          = beBytes 2 (d.length / 65536) ++
            (beBytes 2 d.length ++ d ++ (ds.flatMap encodeItem ++ encodeItem [] ++ rest)) := by
        simp [writeFile, encodeItem, encodeLen_eq, beBytes_four, List.append_assoc]
      rw [hshape] at hr
      generalize beBytes 2 d.length ++ d ++ (ds.flatMap encodeItem ++ encodeItem [] ++ rest) = tail at hr
      unfold readFile at hr
      unfold readLoop at hr
      have htake : (beBytes 2 (d.length / 65536) ++ tail).take 2 = beBytes 2 (d.length / 65536) :=
        List.take_left' (length_beBytes _ _)
      have hdrop : (beBytes 2 (d.length / 65536) ++ tail).drop 2 = tail :=
        List.drop_left' (length_beBytes _ _)
      have hval : beVal (beBytes 2 (d.length / 65536)) = d.length / 65536 := beVal_beBytes_of_lt hhi
      have hitem : Gen.decodeHasItem (d.length / 65536) = true := (decodeHasItem_iff _).2 (by omega)
      have hdec : decodeItem 0 (beBytes 2 (d.length / 65536) ++ tail) =
          if tail.length < d.length / 65536 then .short
          else .item (beBytes 2 (d.length / 65536)) (tail.take (d.length / 65536))
                 (tail.drop (d.length / 65536)) := by
        unfold decodeItem
        simp only [lenWidth_zero, htake, hdrop, lenDec_decode, hval, hitem, List.length_append,
          length_beBytes, if_true]
        rw [if_neg (by omega)]
      rw [hdec] at hr
      by_cases hshort : tail.length < d.length / 65536
      · rw [if_pos hshort] at hr; simp at hr
      · rw [if_neg hshort] at hr
        simp only at hr
        have hpre := readLoop_acc_prefix h 0 _ _ _ _ _ _ _ hr
        simp only [List.reverse_cons, List.reverse_nil, List.nil_append] at hpre
        intro he
        rw [he] at hpre
        obtain ⟨t, ht⟩ := hpre
        simp only [List.cons_append, List.nil_append, List.cons.injEq] at ht
        have := congrArg List.length ht.1
        rw [List.length_take] at this
        omega

/-- an empty part is read as the same empty list by a version-0 reader -/
theorem readFile_v0_empty (h : Bytes → Nat) (rest : Bytes) :
    ∃ tail, readFile h 0 (writeFile [] ++ rest) = .ok [] 0 tail :=
  readFile_v0_small h [] rest (by simp)

/-! ### the data part decides first -/

/-- an error in the data part is an error whatever the delta configuration of the loader -/
theorem load_err_of_base_err {h : Bytes → Nat} {cmp : Bytes → Bytes → Int} {img : Image}
    (he : load h cmp false img = .err) (useDelta : Bool) : load h cmp useDelta img = .err := by
  unfold load at he ⊢
  cases hv : versionOf img.version with
  | none => rfl
  | some ver =>
    rw [hv] at he
    simp only at he ⊢
    cases hf : img.files with
    | absent => rfl
    | unparsable => rfl
    | parsed files =>
      rw [hf] at he
      simp only at he ⊢
      cases hs : loadShards h ver Gen.checksumMismatch files img.sums img.data with
      | none => rfl
      | some shards =>
        rw [hs] at he
        simp at he

/-- `load` with delta files once the data part has loaded -/
theorem load_delta_of_base {h : Bytes → Nat} {cmp : Bytes → Bytes → Int} {img : Image} {ver : Nat}
    {files : List String} {shards : List (List Bytes)}
    (hv : versionOf img.version = some ver) (hf : img.files = .parsed files)
    (hs : loadShards h ver Gen.checksumMismatch files img.sums img.data = some shards) :
    load h cmp true img =
      match dfilesOf img.dfiles with
      | none => .err
      | some dfiles =>
        match loadShards h ver Gen.deltaChecksumMismatch dfiles img.dsums img.delta with
        | none => .err
        | some dshards => .ok (insertAll cmp shards.flatten dshards.flatten) := by
  unfold load
  rw [hv]
  simp only [hf, hs, Bool.not_true, Bool.false_eq_true, if_false]
  cases dfilesOf img.dfiles with
  | none => rfl
  | some dfiles =>
    simp only
    cases loadShards h ver Gen.deltaChecksumMismatch dfiles img.dsums img.delta <;> rfl

end NitroVerif.Backup
