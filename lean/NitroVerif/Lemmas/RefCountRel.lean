import NitroVerif.Lemmas.RefCountBase
/-!
  The step function of the `RefCount` model as a relation, one constructor per branch, with the
  generated guards already replaced by their characterisations (`Lemmas/RefCountGen.lean`).
  `step_sound` is the only place where `step` is unfolded for the invariant proofs.
-/
namespace NitroVerif.RefCount

inductive Step (cfg : Cfg) (st : St) (i : Nat) : Act → St → Ev → Prop
  | startOpen (s : Nat) (hi : st.ths[i]? = some .idle) (h1 : 1 ≤ s) (h2 : s ≤ st.snaps.length) :
      Step cfg st i (.start (.opn s)) (setT st i (.openLoad s)) .parked
  | startClose (s : Nat) (hi : st.ths[i]? = some .idle) (h1 : 1 ≤ s) (h2 : s ≤ st.snaps.length)
      (hh : 0 < (getS st s).held) :
      Step cfg st i (.start (.cls s))
        (setT (setS st s { getS st s with held := (getS st s).held - 1 }) i (.closeDec s)) .parked
  | startGc (hi : st.ths[i]? = some .idle) :
      Step cfg st i (.start .gc) (setT st i .gcTryLock) .parked
  | loadRefuse (b : Bool) (s : Nat) (hi : st.ths[i]? = some (.openLoad s))
      (hz : (getS st s).refs = 0) :
      Step cfg st i (.step b) (setT st i .idle) (.retOpen s false)
  | loadOk (b : Bool) (s : Nat) (hi : st.ths[i]? = some (.openLoad s))
      (hnz : (getS st s).refs ≠ 0) :
      Step cfg st i (.step b) (setT st i (.openCas s (getS st s).refs)) .parked
  | casOk (b : Bool) (s : Nat) (rc : Int) (hi : st.ths[i]? = some (.openCas s rc))
      (hf : cfg.fixedOpen = true) (he : (getS st s).refs = rc) :
      Step cfg st i (.step b)
        (setT (setS st s { getS st s with refs := rc + 1, held := (getS st s).held + 1 }) i .idle)
        (.retOpen s true)
  | casFail (b : Bool) (s : Nat) (rc : Int) (hi : st.ths[i]? = some (.openCas s rc))
      (hf : cfg.fixedOpen = true) (hne : (getS st s).refs ≠ rc) :
      Step cfg st i (.step b) (setT st i (.openLoad s)) .parked
  | addUnfixed (b : Bool) (s : Nat) (rc : Int) (hi : st.ths[i]? = some (.openCas s rc))
      (hf : cfg.fixedOpen = false) :
      Step cfg st i (.step b)
        (setT (setS st s { getS st s with refs := (getS st s).refs + 1,
                                          held := (getS st s).held + 1 }) i .idle)
        (.retOpen s true)
  | decRetire (b : Bool) (s : Nat) (hi : st.ths[i]? = some (.closeDec s))
      (hz : (getS st s).refs - 1 = 0) :
      Step cfg st i (.step b)
        (setT (setS st s { getS st s with refs := (getS st s).refs - 1 }) i (.closeRetire s)) .parked
  | decRet (b : Bool) (s : Nat) (hi : st.ths[i]? = some (.closeDec s))
      (hnz : (getS st s).refs - 1 ≠ 0) :
      Step cfg st i (.step b)
        (setT (setS st s { getS st s with refs := (getS st s).refs - 1 }) i .idle) .ret
  | retire (b : Bool) (s : Nat) (hi : st.ths[i]? = some (.closeRetire s)) :
      Step cfg st i (.step b) (setT { st with live := st.live.erase s } i (.closeRetire2 s)) .parked
  | retire2 (b : Bool) (s : Nat) (hi : st.ths[i]? = some (.closeRetire2 s)) :
      Step cfg st i (.step b)
        (setT { setS st s { getS st s with retired := (getS st s).retired + 1 } with
                  dead := dinsert s st.dead } i .closeGC) .parked
  | closeGC (b : Bool) (hi : st.ths[i]? = some .closeGC) :
      Step cfg st i (.step b) (setT st i .gcTryLock) .parked
  | tryLockFail (b : Bool) (hi : st.ths[i]? = some .gcTryLock) (hf : st.flag = true) :
      Step cfg st i (.step b) (setT st i .idle) .ret
  | tryLockOk (b : Bool) (hi : st.ths[i]? = some .gcTryLock) (hf : st.flag = false) :
      Step cfg st i (.step b) (setT { st with flag := true } i .collectRead) .parked
  | readSpurious (hi : st.ths[i]? = some .collectRead) :
      Step cfg st i (.step true) (setT st i .gcUnlock) .parked
  | readEmpty (hi : st.ths[i]? = some .collectRead) (hd : st.dead = []) :
      Step cfg st i (.step false) (setT st i .gcUnlock) .parked
  | readStop (s : Nat) (tl : List Nat) (hi : st.ths[i]? = some .collectRead)
      (hd : st.dead = s :: tl) (hne : s ≠ st.lastGCSn + 1) :
      Step cfg st i (.step false) (setT st i .gcUnlock) .parked
  | readNext (s : Nat) (tl : List Nat) (hi : st.ths[i]? = some .collectRead)
      (hd : st.dead = s :: tl) (he : s = st.lastGCSn + 1) :
      Step cfg st i (.step false) (setT st i (.collectSend s)) .parked
  | send (b : Bool) (s : Nat) (hi : st.ths[i]? = some (.collectSend s)) :
      Step cfg st i (.step b)
        (setT { st with lastGCSn := s, sent := st.sent ++ [s], dead := st.dead.erase s } i .collectRead)
        .parked
  | unlockFixed (b : Bool) (hi : st.ths[i]? = some .gcUnlock) (hg : cfg.fixedGC = true) :
      Step cfg st i (.step b) (setT { st with flag := false } i .gcRecheck) .parked
  | unlockUnfixed (b : Bool) (hi : st.ths[i]? = some .gcUnlock) (hg : cfg.fixedGC = false) :
      Step cfg st i (.step b) (setT { st with flag := false } i .idle) .ret
  | recheckEmpty (b : Bool) (hi : st.ths[i]? = some .gcRecheck) (hd : st.dead = []) :
      Step cfg st i (.step b) (setT st i .idle) .ret
  | recheckAgain (b : Bool) (s : Nat) (tl : List Nat) (hi : st.ths[i]? = some .gcRecheck)
      (hd : st.dead = s :: tl) (he : s = st.lastGCSn + 1) :
      Step cfg st i (.step b) (setT st i .gcTryLock) .parked
  | recheckDone (b : Bool) (s : Nat) (tl : List Nat) (hi : st.ths[i]? = some .gcRecheck)
      (hd : st.dead = s :: tl) (hne : s ≠ st.lastGCSn + 1) :
      Step cfg st i (.step b) (setT st i .idle) .ret

theorem validSn_iff (st : St) (s : Nat) : validSn st s = true ↔ 1 ≤ s ∧ s ≤ st.snaps.length := by
  simp [validSn]

theorem step_sound {cfg : Cfg} {st st' : St} {i : Nat} {a : Act} {ev : Ev}
    (hs : step cfg st i a = some (st', ev)) : Step cfg st i a st' ev := by
  unfold step at hs
  split at hs
  · simp at hs
  · rename_i pc hi
    split at hs
    · -- start open
      split at hs
      · rename_i hv; rw [validSn_iff] at hv
        simp at hs; obtain ⟨rfl, rfl⟩ := hs
        exact .startOpen _ hi hv.1 hv.2
      · simp at hs
    · -- start close
      simp only at hs
      split at hs
      · rename_i hv
        simp only [Bool.and_eq_true, validSn_iff, decide_eq_true_eq] at hv
        simp at hs; obtain ⟨rfl, rfl⟩ := hs
        exact .startClose _ hi hv.1.1 hv.1.2 hv.2
      · simp at hs
    · simp at hs; obtain ⟨rfl, rfl⟩ := hs; exact .startGc hi
    · -- OPEN_LOAD
      simp only at hs
      split at hs
      · rename_i hz; rw [openRefuse_iff] at hz
        simp at hs; obtain ⟨rfl, rfl⟩ := hs
        exact .loadRefuse _ _ hi hz
      · rename_i hz; rw [openRefuse_iff] at hz
        simp at hs; obtain ⟨rfl, rfl⟩ := hs
        exact .loadOk _ _ hi hz
    · -- OPEN_CAS
      simp only at hs
      split at hs
      · rename_i hf
        split at hs
        · rename_i he
          simp at hs; obtain ⟨rfl, rfl⟩ := hs
          exact .casOk _ _ _ hi hf he
        · rename_i hne
          simp at hs; obtain ⟨rfl, rfl⟩ := hs
          exact .casFail _ _ _ hi hf hne
      · rename_i hf
        simp at hs; obtain ⟨rfl, rfl⟩ := hs
        exact .addUnfixed _ _ _ hi (by simpa using hf)
    · -- CLOSE_DEC
      simp only at hs
      split at hs
      · rename_i hz; rw [closeRetire_iff] at hz
        simp at hs; obtain ⟨rfl, rfl⟩ := hs
        exact .decRetire _ _ hi hz
      · rename_i hz; rw [closeRetire_iff] at hz
        simp at hs; obtain ⟨rfl, rfl⟩ := hs
        exact .decRet _ _ hi hz
    · simp at hs; obtain ⟨rfl, rfl⟩ := hs; exact .retire _ _ hi
    · simp at hs; obtain ⟨rfl, rfl⟩ := hs; exact .retire2 _ _ hi
    · simp at hs; obtain ⟨rfl, rfl⟩ := hs; exact .closeGC _ hi
    · -- GC_TRY_LOCK
      split at hs
      · rename_i hf
        simp at hs; obtain ⟨rfl, rfl⟩ := hs
        exact .tryLockFail _ hi hf
      · rename_i hf
        simp at hs; obtain ⟨rfl, rfl⟩ := hs
        exact .tryLockOk _ hi (by simpa using hf)
    · -- COLLECT_READ
      split at hs
      · rename_i hsp; subst hsp
        simp at hs; obtain ⟨rfl, rfl⟩ := hs
        exact .readSpurious hi
      · rename_i hsp
        have hsp' : ‹Bool› = false := by simpa using hsp
        subst hsp'
        split at hs
        · rename_i hd
          simp at hs; obtain ⟨rfl, rfl⟩ := hs
          exact .readEmpty hi hd
        · rename_i s tl hd
          split at hs
          · rename_i hz; rw [gcStop_iff] at hz
            simp at hs; obtain ⟨rfl, rfl⟩ := hs
            exact .readStop s tl hi hd hz
          · rename_i hz
            have hz' : Gen.gcStop s st.lastGCSn = false := by simpa using hz
            rw [gcStop_false_iff] at hz'
            simp at hs; obtain ⟨rfl, rfl⟩ := hs
            exact .readNext s tl hi hd hz'
    · simp at hs; obtain ⟨rfl, rfl⟩ := hs; exact .send _ _ hi
    · -- GC_UNLOCK
      split at hs
      · rename_i hg
        simp at hs; obtain ⟨rfl, rfl⟩ := hs
        exact .unlockFixed _ hi hg
      · rename_i hg
        simp at hs; obtain ⟨rfl, rfl⟩ := hs
        exact .unlockUnfixed _ hi (by simpa using hg)
    · -- GC_RECHECK
      split at hs
      · rename_i hd
        simp at hs; obtain ⟨rfl, rfl⟩ := hs
        exact .recheckEmpty _ hi hd
      · rename_i s tl hd
        split at hs
        · rename_i hz; rw [collectableHead_iff] at hz
          simp at hs; obtain ⟨rfl, rfl⟩ := hs
          exact .recheckAgain _ s tl hi hd hz
        · rename_i hz
          have hz' : ¬ s = st.lastGCSn + 1 := fun e => hz ((collectableHead_iff _ _).mpr e)
          simp at hs; obtain ⟨rfl, rfl⟩ := hs
          exact .recheckDone _ s tl hi hd hz'
    · simp at hs

/-- the relation says no more than the function -/
theorem step_complete {cfg : Cfg} {st st' : St} {i : Nat} {a : Act} {ev : Ev}
    (hs : Step cfg st i a st' ev) : step cfg st i a = some (st', ev) := by
  cases hs <;> simp_all [step, validSn, openRefuse_iff, closeRetire_iff, gcStop_iff,
    collectableHead_iff]

/-- a script with refused actions reaches the same state as the script without them -/
theorem execTol_reach (cfg : Cfg) (sched : List (Nat × Act)) (st : St) :
    ∃ sched' evs, exec cfg st sched' = some ((execTol cfg st sched).1, evs) := by
  induction sched generalizing st with
  | nil => exact ⟨[], [], rfl⟩
  | cons x r ih =>
    obtain ⟨i, a⟩ := x
    cases hstep : step cfg st i a with
    | none =>
      obtain ⟨sched', evs, h⟩ := ih st
      refine ⟨sched', evs, ?_⟩
      simp only [execTol, hstep]; exact h
    | some p =>
      obtain ⟨st1, e⟩ := p
      obtain ⟨sched', evs, h⟩ := ih st1
      refine ⟨(i, a) :: sched', e :: evs, ?_⟩
      simp only [execTol, exec, hstep, h]

end NitroVerif.RefCount
