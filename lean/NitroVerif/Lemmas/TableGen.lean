import NitroVerif.Model.Table
/-!
  Characterisation of the generated node-table facts (nodetable/table.go).  The table proofs use
  these named lemmas only (never unfold `Gen.*`).
-/
namespace NitroVerif.Table.GenLemmas
open NitroVerif NitroVerif.Table

/-- `res.status&ntFoundMask == ntFoundMask` holds for both "found" statuses … -/
theorem ntIsFound_fast : Gen.ntIsFound Gen.ntFoundInFast = true := by decide
theorem ntIsFound_slow : Gen.ntIsFound Gen.ntFoundInSlow = true := by decide
/-- … and fails for `ntNotFound` -/
theorem ntIsFound_notFound : Gen.ntIsFound Gen.ntNotFound = false := by decide
/-- the two "found" statuses are told apart by `res.status == ntFoundInFast` -/
theorem ntFoundInSlow_ne_fast : Gen.ntFoundInSlow ≠ Gen.ntFoundInFast := by decide

/-- Update: `newSlowValue := res.fastHTHasEntry && !res.hasConflict` -/
theorem ntNewSlowValue_eq (hasEntry conflict : Bool) :
    Gen.ntNewSlowValue hasEntry conflict = (hasEntry && !conflict) := rfl
/-- Update: the key goes to the slow table iff `res.hasConflict || newSlowValue` -/
theorem ntInsertSlow_eq (conflict newSlow : Bool) :
    Gen.ntInsertSlow conflict newSlow = (conflict || newSlow) := rfl
/-- combined: a new key goes to the slow table iff the fast table has an entry for its hash -/
theorem ntInsertSlow_newSlow (hasEntry conflict : Bool) (h : conflict = true → hasEntry = true) :
    Gen.ntInsertSlow conflict (Gen.ntNewSlowValue hasEntry conflict) = hasEntry := by
  rw [ntNewSlowValue_eq, ntInsertSlow_eq]
  cases hasEntry <;> cases conflict <;> simp at h ⊢

/-- the conflict flag is bit 63 -/
theorem ntConflictBit_eq : Gen.ntConflictBit = 63 := rfl

/-- For pointers below 2^63 (assumed of all pointers given to the table) the tagged `uint64` and
    the pair (pointer, flag) of the model carry the same information:
    `decodePointer (encodePointer p c) = p` and `hasConflict (encodePointer p c) = c`,
    and the encoded value fits 64 bits. -/
theorem encodePointer_faithful (p : Nat) (c : Bool) (hp : p < 2 ^ 63) :
    decodePointer (encodePointer p c) = p ∧ hasConflictBit (encodePointer p c) = c ∧
    encodePointer p c < 2 ^ 64 := by
  have hor : p ||| 2 ^ 63 = 2 ^ 63 + p := by
    have := Nat.two_pow_add_eq_or_of_lt hp 1
    simp at this
    rw [Nat.or_comm]; exact this.symm
  unfold decodePointer hasConflictBit encodePointer
  rw [ntConflictBit_eq, Nat.one_shiftLeft]
  cases c with
  | false =>
    simp only [Bool.false_eq_true, if_false, Nat.shiftRight_eq_div_pow]
    refine ⟨Nat.mod_eq_of_lt hp, ?_, by omega⟩
    simp; omega
  | true =>
    simp only [if_true, Nat.shiftRight_eq_div_pow]
    rw [hor]
    refine ⟨by omega, ?_, by omega⟩
    simp; omega

end NitroVerif.Table.GenLemmas
