/-
  The invariant is preserved by the steps DEL_NODE_PHYS, DEL_NODE_FLUSH and DEL_NODE_CAS.
-/
import NitroVerif.Lemmas.MvccConcStepD

namespace NitroVerif.MvccConc
open NitroVerif
open NitroVerif.Mvcc (Ver isAlive Sorted Chains)

/-! ### DEL_NODE_PHYS -/

theorem inv_stepDelPhys {σ : State} {t n tok k : Nat} (h : Inv σ) (ht : σ.threads[t]? = some (.delPhys n tok k)) :
    Inv (stepDelPhys σ t n tok k).1 := by
  unfold stepDelPhys
  split
  · exact h
  · cases hf : findNode σ.store n with
    | none =>
      exact inv_release_thr h ht rfl rfl (by intros; simp) (by intros; simp)
    | some x =>
      simp only
      have ⟨hx, hid⟩ := findNode_some hf
      have hst := h.store
      have ⟨hw, hnlt, hnres, hnode⟩ := h.pc.phys t n tok k ht
      have ⟨hxk, hxb⟩ := hnode x hx hid
      have hxd : x.ver.dead = 0 := by
        have := (hst.chains.1 x.ver (List.mem_map.mpr ⟨x, hx, rfl⟩)).2
        cases hd : x.ver.dead with
        | zero => rfl
        | succ d => have := this (by omega); omega
      have hgarb0 : garbC σ.writers σ.snaps σ.gcJobs n = 0 := by
        cases hc : garbC σ.writers σ.snaps σ.gcJobs n with
        | zero => rfl
        | succ c =>
          obtain ⟨y, hy, hyid, _, hyb⟩ := h.garb.linked n (by omega)
          have := id_unique hst.ids hy hx (by omega)
          subst this; omega
      have hnp : ∀ n' k' v' b', Pc.delFlush n tok k ≠ Pc.putInsert n' k' v' b' := by intros; simp
      have hnp0 : ∀ n' k' v' b', Pc.delPhys n tok k ≠ Pc.putInsert n' k' v' b' := by intros; simp
      refine Inv.mk' (store := removeNode σ.store n) (unl := σ.unlinked ++ [x]) (cur := σ.currSn)
        (items := σ.itemsCount) (writers := updWriter t (fun y => { y with count := y.count - 1 }) σ.writers)
        (snaps := σ.snaps) (threads := σ.threads.set t (.delFlush n tok k))
        (nextId := σ.nextId) (gcFlag := σ.gcFlag) (gcJobs := σ.gcJobs) (sess := σ.sess) (fs := σ.freeSeq)
        (frJobs := σ.frJobs) (iters := σ.iters) (allocd := σ.allocd) (freed := σ.freed) (bad := σ.bad)
        rfl rfl rfl rfl rfl rfl rfl rfl rfl rfl rfl rfl rfl rfl rfl rfl rfl ?_ ?_ ?_ ?_
        (h.tok.set_tok_same ht rfl) ?_
      · -- store
        refine (hst.remove hf ?_).set_not_put t hnp
        have := alive_removeNode hst.ids hf
        simp only [hxd, if_true] at this
        rw [sum_updWriter (-1) (fun _ => by simp; omega) hw]
        have hc := hst.cnt
        omega
      · -- pc
        have hpc := h.pc
        rw [updWriter_length]
        have hnr : ∀ m, reserved (σ.threads.set t (.delFlush n tok k)) m → reserved σ.threads m :=
          fun m hm => reserved_set_of_not_put hnp hm
        refine ⟨by rw [List.length_set]; exact hpc.len, ?_, ?_, ?_, ?_, ?_, ?_⟩
        · intro t' m k' v' b hg
          rcases get_set_cases hg with ⟨_, he⟩ | ⟨_, hg'⟩
          · cases he
          · exact hpc.put t' m k' v' b hg'
        · intro t' m tk k' hg
          rcases get_set_cases hg with ⟨_, he⟩ | ⟨_, hg'⟩
          · cases he
          · have := hpc.phys t' m tk k' hg'
            exact ⟨this.1, this.2.1, fun hm => this.2.2.1 (hnr m hm),
              fun y hy => this.2.2.2 y (mem_removeNode.mp hy).1⟩
        · intro t' m tk k' hg
          rcases get_set_cases hg with ⟨_, he⟩ | ⟨_, hg'⟩
          · cases he
          · have := hpc.cas t' m tk k' hg'
            refine ⟨this.1, this.2.1, fun hm => this.2.2.1 (hnr m hm),
              fun y hy => this.2.2.2.1 y (mem_removeNode.mp hy).1, ?_⟩
            intro y hy hym
            rcases List.mem_append.mp hy with hy | hy
            · exact this.2.2.2.2 y hy hym
            · simp at hy; subst hy
              have := (this.2.2.2.1 y hx hym).2
              omega
        · intro t' m tk k' hg
          rcases get_set_cases hg with ⟨he1, _⟩ | ⟨_, hg'⟩
          · exact he1 ▸ hw
          · exact hpc.fl t' m tk k' hg'
        · intro t' sn a hg
          rcases get_set_cases hg with ⟨_, he⟩ | ⟨_, hg'⟩
          · cases he
          · exact hpc.coll t' sn a hg'
        · intro t1 t2 s1 a1 s2 a2 h1 h2
          rcases get_set_cases h1 with ⟨_, he⟩ | ⟨_, h1'⟩
          · cases he
          · rcases get_set_cases h2 with ⟨_, he⟩ | ⟨_, h2'⟩
            · cases he
            · exact hpc.excl t1 t2 s1 a1 s2 a2 h1' h2'
      · -- garb
        have hg : ∀ m, garbC (updWriter t (fun y => { y with count := y.count - 1 }) σ.writers) σ.snaps σ.gcJobs m =
            garbC σ.writers σ.snaps σ.gcJobs m := by
          intro m; unfold garbC
          rw [garbW_updWriter_same (w := t) (f := fun y => { y with count := y.count - 1 }) (fun _ => rfl) σ.writers]
        refine ⟨fun m => by rw [hg]; exact h.garb.le m, ?_, h.garb.jobs⟩
        intro m hm
        rw [hg] at hm
        have hne : m ≠ n := by intro he; subst he; omega
        obtain ⟨y, hy, hym, h1⟩ := h.garb.linked m hm
        exact ⟨y, mem_removeNode.mpr ⟨hy, by omega⟩, hym, h1⟩
      · -- own
        refine h.own.congr ?_ (reserved_set_iff ht hnp0 hnp)
        intro m
        unfold ownC
        have h1 := count_storeIds_removeNode hst.ids hf m
        have h2 := thrOwned_set ht (.delFlush n tok k) m
        simp only [pcOwn, List.count_nil, List.count_cons] at h2
        split at h1 <;> simp_all <;> omega
      · -- prot
        have hfl : Pc.delFlush n tok k ∈ σ.threads.set t (.delFlush n tok k) :=
          List.mem_of_getElem? (get_set_self ht)
        have hP : ∀ m tk, Prot σ.threads σ.store σ.gcJobs σ.sess m tk →
            Prot (σ.threads.set t (.delFlush n tok k)) (removeNode σ.store n) σ.gcJobs σ.sess m tk := by
          intro m tk hpr
          refine hpr.mono ?_ ?_ (fun h => Or.inr (Or.inr (Or.inl h)))
            (fun i s h1 h2 h3 => Or.inr (Or.inr (Or.inr ⟨i, s, h1, h2, h3⟩)))
          · intro hm
            by_cases hmn : m = n
            · subst hmn; exact Or.inr (Or.inl ⟨tok, k, hfl⟩)
            · exact Or.inl (mem_storeIds_removeNode hm hmn)
          · intro tk' k' hm
            exact Or.inr (Or.inl ⟨tk', k', delFlush_mem_set ht (by intros; simp) hm⟩)
        refine ⟨?_, ?_, fun key it c hm hc => hP _ _ (h.prot.it key it c hm hc)⟩
        · intro t' m tk k' hg
          rcases get_set_cases hg with ⟨_, he⟩ | ⟨_, hg'⟩
          · cases he
          · exact hP _ _ (h.prot.phys t' m tk k' hg')
        · intro t' m tk k' hg
          rcases get_set_cases hg with ⟨_, he⟩ | ⟨_, hg'⟩
          · cases he
          · exact hP _ _ (h.prot.cas t' m tk k' hg')

/-! ### DEL_NODE_FLUSH -/

theorem inv_stepDelFlush {σ : State} {t n tok k : Nat} (h : Inv σ) (ht : σ.threads[t]? = some (.delFlush n tok k)) :
    Inv (stepDelFlush σ t n tok).1 := by
  unfold stepDelFlush
  have hidle : Pc.plain .idle := by simp [Pc.plain]
  have hnp0 : ∀ n' k' v' b', Pc.delFlush n tok k ≠ Pc.putInsert n' k' v' b' := by intros; simp
  -- the sessions after the flush, before the release
  have hpre1 := (h.tok.toTokPre.flush [n]).cleanup
  -- abbreviations
  refine Inv.mk' (store := σ.store) (unl := σ.unlinked) (cur := σ.currSn) (items := σ.itemsCount)
    (writers := σ.writers) (snaps := σ.snaps) (threads := σ.threads.set t .idle)
    (nextId := σ.nextId) (gcFlag := σ.gcFlag) (gcJobs := σ.gcJobs)
    (sess := relSess (flushSess σ.sess [n]) tok (.thr t))
    (fs := (σ.freeSeq + (readySess (flushSess σ.sess [n]) σ.freeSeq).length) +
      (readySess (relSess (flushSess σ.sess [n]) tok (.thr t))
        (σ.freeSeq + (readySess (flushSess σ.sess [n]) σ.freeSeq).length)).length)
    (frJobs := (σ.frJobs ++ newFrJobs (readySess (flushSess σ.sess [n]) σ.freeSeq)) ++
      newFrJobs (readySess (relSess (flushSess σ.sess [n]) tok (.thr t))
        (σ.freeSeq + (readySess (flushSess σ.sess [n]) σ.freeSeq).length)))
    (iters := σ.iters) (allocd := σ.allocd) (freed := σ.freed) (bad := σ.bad)
    rfl rfl rfl rfl rfl rfl rfl rfl rfl rfl rfl rfl rfl rfl rfl rfl rfl
    (h.store.set_not_put t hidle.not_put) (h.pc.set_plain t hidle) h.garb ?_ ?_ ?_
  · -- own
    refine h.own.congr ?_ (reserved_set_iff ht hnp0 hidle.not_put)
    intro m
    unfold ownC
    rw [sessfr_release, sessfr_flush h.tok.toTokPre]
    have h2 := thrOwned_set ht .idle m
    simp only [pcOwn, List.count_nil, List.count_cons] at h2
    simp only [List.count_cons, List.count_nil]
    split at h2 <;> simp_all <;> omega
  · -- tok
    have hpre : TokPre (σ.threads.set t .idle) (relSess (flushSess σ.sess [n]) tok (.thr t)) σ.iters
        (σ.freeSeq + (readySess (flushSess σ.sess [n]) σ.freeSeq).length) := by
      refine hpre1.toTokPre.release ?_ (fun t' j it hm => ⟨hm, by simp⟩) h.tok.keys ?_ ?_
      · intro t' pc tk hg htk
        rcases get_set_cases hg with ⟨_, he⟩ | ⟨hne, hg'⟩
        · subst he; simp [Pc.tok] at htk
        · exact ⟨hg', by intro he; injection he with h1; exact hne h1.symm⟩
      · intro i hd hne hc
        cases hd with
        | it t' j => exact hc
        | thr t' =>
          obtain ⟨pc, hpc, htk⟩ := hc
          have hne' : t ≠ t' := fun he => hne (by rw [he])
          exact ⟨pc, by rw [get_set_ne _ hne']; exact hpc, htk⟩
      · rintro i ⟨pc, hpc, htk⟩
        rw [ht] at hpc; injection hpc with h1; subst h1
        simp [Pc.tok] at htk; exact htk.symm
    exact hpre.cleanup
  · -- prot
    obtain ⟨c, _, hci, _, _⟩ := h.tok.toTokPre.last
    obtain ⟨c', hc', _, _, hcl'⟩ := flushSess_get_of [n] hci
    have hP : ∀ m tk, tk < σ.sess.length → Prot σ.threads σ.store σ.gcJobs σ.sess m tk →
        Prot (σ.threads.set t .idle) σ.store σ.gcJobs (relSess (flushSess σ.sess [n]) tok (.thr t)) m tk := by
      intro m tk htk hpr
      refine hpr.mono (fun h => Or.inl h) ?_ (fun h => Or.inr (Or.inr (Or.inl h))) ?_
      · intro tk' k' hm
        obtain ⟨t', ht'⟩ := mem_iff_get.mp hm
        by_cases he : t = t'
        · subst he
          rw [ht] at ht'; injection ht' with h1; injection h1 with h2 h3 h4; subst h2
          refine Or.inr (Or.inr (Or.inr ⟨σ.sess.length - 1, _, by omega, relSess_get_of tok (.thr t) hc', ?_⟩))
          simp only; rw [hcl' rfl]; simp
        · exact Or.inr (Or.inl ⟨tk', k', mem_set_of_ne ht' he⟩)
      · intro i s h1 h2 h3
        obtain ⟨s', hs', hm'⟩ := flushSess_list_mono h.tok.toTokPre [n] m i s h2 h3
        exact Or.inr (Or.inr (Or.inr ⟨i, _, h1, relSess_get_of tok (.thr t) hs', hm'⟩))
    have htokT : ∀ (t' : Nat) (pc : Pc) (tk : Nat), σ.threads[t']? = some pc → pc.tok = some tk →
        tk < σ.sess.length := by
      intro t' pc tk hg htk
      obtain ⟨s, hs, _⟩ := h.tok.thr t' pc tk hg htk
      exact (List.getElem?_eq_some_iff.mp hs).1
    refine ⟨?_, ?_, ?_⟩
    · intro t' m tk k' hg
      rcases get_set_cases hg with ⟨_, he⟩ | ⟨_, hg'⟩
      · cases he
      · exact hP m tk (htokT t' _ tk hg' rfl) (h.prot.phys t' m tk k' hg')
    · intro t' m tk k' hg
      rcases get_set_cases hg with ⟨_, he⟩ | ⟨_, hg'⟩
      · cases he
      · exact hP m tk (htokT t' _ tk hg' rfl) (h.prot.cas t' m tk k' hg')
    · intro key it c hm' hc
      obtain ⟨s, hs, _⟩ := h.tok.it key.1 key.2 it hm'
      exact hP c.id it.tok (List.getElem?_eq_some_iff.mp hs).1 (h.prot.it key it c hm' hc)

end NitroVerif.MvccConc
