import NitroVerif.Lemmas.TableGen
import NitroVerif.Lemmas.TableAL
import NitroVerif.Lemmas.TableBucket
/-!
  The node table against its buckets: the structural invariant of the two Go maps and the three
  counters, what `find` returns, and the effect of Update / Remove on the bucket of the key's hash
  (and on nothing else).
-/
namespace NitroVerif.Table
open NitroVerif NitroVerif.Table.GenLemmas

/-- the bucket described by a fast entry and a slow entry -/
def bucketOf (fe : Option (Ptr × Bool)) (se : Option (List Ptr)) : List Ptr :=
  match fe with
  | none => []
  | some (p, _) => p :: se.getD []

/-- all pointers stored under hash `h`: the fast entry, then the slow list -/
def bucket (t : Table) (h : Hash) : List Ptr := bucketOf (AL.get t.fastHT h) (AL.get t.slowHT h)

/-- structural invariant of the representation -/
structure SInv (t : Table) : Prop where
  notPanicked : t.panicked = false
  fastNodup : (AL.keys t.fastHT).Nodup
  slowNodup : (AL.keys t.slowHT).Nodup
  /-- a slow list exists only under a fast entry -/
  slowNeedsFast : ∀ h, AL.get t.fastHT h = none → AL.get t.slowHT h = none
  /-- conflict bit set ⇔ the hash has a slow list -/
  conflictIff : ∀ h p c, AL.get t.fastHT h = some (p, c) → (c = true ↔ (AL.get t.slowHT h).isSome)
  /-- slow lists in the map are non-empty (empty ones are deleted) -/
  slowNonempty : ∀ h vs, AL.get t.slowHT h = some vs → vs ≠ []
  fastCount : t.fastHTCount = t.fastHT.length
  slowCount : t.slowHTCount = AL.total t.slowHT
  conflictCount : t.conflicts = t.slowHT.length

theorem SInv_empty : SInv {} := by
  constructor <;> simp [AL.keys, AL.get, AL.total]

/-- rebuild the invariant after a change confined to the entries of one hash value -/
theorem SInv.local {t t' : Table} (hI : SInv t) (h : Hash)
    (fe : Option (Ptr × Bool)) (se : Option (List Ptr))
    (hfast : ∀ h', AL.get t'.fastHT h' = if h' = h then fe else AL.get t.fastHT h')
    (hslow : ∀ h', AL.get t'.slowHT h' = if h' = h then se else AL.get t.slowHT h')
    (hfn : (AL.keys t'.fastHT).Nodup) (hsn : (AL.keys t'.slowHT).Nodup)
    (hp : t'.panicked = false)
    (h1 : fe = none → se = none)
    (h2 : ∀ p c, fe = some (p, c) → (c = true ↔ se.isSome))
    (h3 : ∀ vs, se = some vs → vs ≠ [])
    (hc1 : t'.fastHTCount = t'.fastHT.length) (hc2 : t'.slowHTCount = AL.total t'.slowHT)
    (hc3 : t'.conflicts = t'.slowHT.length) : SInv t' := by
  refine ⟨hp, hfn, hsn, ?_, ?_, ?_, hc1, hc2, hc3⟩
  · intro h'
    rw [hfast, hslow]
    by_cases e : h' = h
    · simp only [e, if_true]; exact h1
    · simp only [e, if_false]; exact hI.slowNeedsFast h'
  · intro h' p c
    rw [hfast, hslow]
    by_cases e : h' = h
    · simp only [e, if_true]; exact h2 p c
    · simp only [e, if_false]; exact hI.conflictIff h' p c
  · intro h' vs
    rw [hslow]
    by_cases e : h' = h
    · simp only [e, if_true]; exact h3 vs
    · simp only [e, if_false]; exact hI.slowNonempty h' vs

theorem bucket_local {t t' : Table} (h : Hash)
    (fe : Option (Ptr × Bool)) (se : Option (List Ptr))
    (hfast : ∀ h', AL.get t'.fastHT h' = if h' = h then fe else AL.get t.fastHT h')
    (hslow : ∀ h', AL.get t'.slowHT h' = if h' = h then se else AL.get t.slowHT h') (h' : Hash) :
    bucket t' h' = if h' = h then bucketOf fe se else bucket t h' := by
  unfold bucket
  rw [hfast, hslow]
  by_cases e : h' = h <;> simp [e]

/-- `AL.get` of an unchanged map, in the shape `SInv.local` wants -/
theorem get_same {β : Type} (m : List (Nat × β)) (h : Nat) (h' : Nat) :
    AL.get m h' = if h' = h then AL.get m h else AL.get m h' := by
  by_cases e : h' = h <;> simp [e]

section
variable (hash : Key → Hash) (keyOf : Ptr → Key)

/-! ### what `find` returns -/

theorem find_noEntry {t : Table} {key : Key} (hf : AL.get t.fastHT (hash key) = none) :
    find hash keyOf t key =
      { status := Gen.ntNotFound, hash := hash key, hasConflict := false, fastHTHasEntry := false,
        fastHTValue := 0, slowHTValues := [], slowHTPos := 0 } := by
  simp [find, hf]

theorem find_inFast {t : Table} {key : Key} {p : Ptr} {c : Bool}
    (hf : AL.get t.fastHT (hash key) = some (p, c)) (hk : keyOf p = key) :
    find hash keyOf t key =
      { status := Gen.ntFoundInFast, hash := hash key, hasConflict := c, fastHTHasEntry := true,
        fastHTValue := p, slowHTValues := [], slowHTPos := 0 } := by
  simp [find, hf, hk]

theorem find_inSlow {t : Table} {key : Key} {p : Ptr} {vs : List Ptr} {i : Nat}
    (hf : AL.get t.fastHT (hash key) = some (p, true)) (hk : keyOf p ≠ key)
    (hs : AL.get t.slowHT (hash key) = some vs) (hi : slowPos keyOf key vs = some i) :
    find hash keyOf t key =
      { status := Gen.ntFoundInSlow, hash := hash key, hasConflict := true, fastHTHasEntry := true,
        fastHTValue := 0, slowHTValues := vs, slowHTPos := i } := by
  simp [find, hf, hk, hs, hi]

theorem find_missSlow {t : Table} {key : Key} {p : Ptr} {vs : List Ptr}
    (hf : AL.get t.fastHT (hash key) = some (p, true)) (hk : keyOf p ≠ key)
    (hs : AL.get t.slowHT (hash key) = some vs) (hi : slowPos keyOf key vs = none) :
    find hash keyOf t key =
      { status := Gen.ntNotFound, hash := hash key, hasConflict := true, fastHTHasEntry := true,
        fastHTValue := 0, slowHTValues := [], slowHTPos := 0 } := by
  simp [find, hf, hk, hs, hi]

theorem find_missNoConflict {t : Table} {key : Key} {p : Ptr}
    (hf : AL.get t.fastHT (hash key) = some (p, false)) (hk : keyOf p ≠ key) :
    find hash keyOf t key =
      { status := Gen.ntNotFound, hash := hash key, hasConflict := false, fastHTHasEntry := true,
        fastHTValue := 0, slowHTValues := [], slowHTPos := 0 } := by
  simp [find, hf, hk]

/-- the five situations `find` distinguishes, under the invariant -/
inductive FindCase (t : Table) (key : Key) : Prop where
  | noEntry (hf : AL.get t.fastHT (hash key) = none) (hs : AL.get t.slowHT (hash key) = none)
  | inFast (p : Ptr) (c : Bool) (hf : AL.get t.fastHT (hash key) = some (p, c)) (hk : keyOf p = key)
  | inSlow (p : Ptr) (vs : List Ptr) (i : Nat) (hf : AL.get t.fastHT (hash key) = some (p, true))
      (hk : keyOf p ≠ key) (hs : AL.get t.slowHT (hash key) = some vs)
      (hi : slowPos keyOf key vs = some i)
  | missSlow (p : Ptr) (vs : List Ptr) (hf : AL.get t.fastHT (hash key) = some (p, true))
      (hk : keyOf p ≠ key) (hs : AL.get t.slowHT (hash key) = some vs)
      (hi : slowPos keyOf key vs = none)
  | missNoConflict (p : Ptr) (hf : AL.get t.fastHT (hash key) = some (p, false))
      (hk : keyOf p ≠ key) (hs : AL.get t.slowHT (hash key) = none)

theorem findCase {t : Table} (hI : SInv t) (key : Key) : FindCase hash keyOf t key := by
  cases hf : AL.get t.fastHT (hash key) with
  | none => exact .noEntry hf (hI.slowNeedsFast _ hf)
  | some e =>
    obtain ⟨p, c⟩ := e
    by_cases hk : keyOf p = key
    · exact .inFast p c hf hk
    · have hc := hI.conflictIff _ p c hf
      cases c with
      | false =>
        refine .missNoConflict p hf hk ?_
        cases hs : AL.get t.slowHT (hash key) with
        | none => rfl
        | some vs => simp [hs] at hc
      | true =>
        cases hs : AL.get t.slowHT (hash key) with
        | none => simp [hs] at hc
        | some vs =>
          cases hi : slowPos keyOf key vs with
          | none => exact .missSlow p vs hf hk hs hi
          | some i => exact .inSlow p vs i hf hk hs hi

end
end NitroVerif.Table
