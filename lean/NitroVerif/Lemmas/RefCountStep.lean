import NitroVerif.Lemmas.RefCountInv
/-!
  Preservation of `Inv` by the steps that have a shared-memory effect.
-/
namespace NitroVerif.RefCount

theorem getS_setT (st : St) (i : Nat) (pc : PC) (s : Nat) : getS (setT st i pc) s = getS st s := rfl

theorem getS_setS (st : St) (a s : Nat) (x : Snap) (h1 : 1 ≤ a) (h2 : a ≤ st.snaps.length) :
    getS (setS st a x) s = if a = s then x else getS st s := by
  unfold getS setS; exact snapAt_setAt _ _ _ _ h1 h2

/-- thread `i` moves from `pc` to `pc'` and rewrites the count / pool of snapshot `s`
    (its `retired` ghost is unchanged) -/
theorem inv_setS_setT {cfg : Cfg} {st : St} {i : Nat} {pc pc' : PC} {s : Nat} {x' : Snap}
    (h : Inv cfg st) (hi : st.ths[i]? = some pc) (h1 : 1 ≤ s) (h2 : s ≤ st.snaps.length)
    (hr : x'.retired = (getS st s).retired) (hok : PCok st pc')
    (hcount : x'.refs = (x'.held : Int) + (cnt (uDec s) (st.ths.set i pc') : Int))
    (hdec : ∀ s', s' ≠ s → uDec s' pc' = uDec s' pc)
    (hretire : x'.retired + cnt (uRet s) (st.ths.set i pc') + cnt (uRet2 s) st.ths =
      if x'.refs = 0 then 1 else 0)
    (hret : ∀ s', s' ≠ s → uRet s' pc' = uRet s' pc)
    (hret2 : ∀ s', uRet2 s' pc' = uRet2 s' pc)
    (hcrit : uCrit pc' = uCrit pc) (hresp : uResp pc ≤ uResp pc') :
    Inv cfg (setT (setS st s x') i pc') := by
  have hc2 : ∀ s', cnt (uRet2 s') (st.ths.set i pc') = cnt (uRet2 s') st.ths := by
    intro s'
    have e := cnt_set (uRet2 s') st.ths i pc pc' hi
    rw [hret2] at e; omega
  have hlen : (setT (setS st s x') i pc').snaps.length = st.snaps.length := by simp [setT, setS]
  have hget : ∀ s', getS (setT (setS st s x') i pc') s' = if s = s' then x' else getS st s' :=
    fun s' => by rw [getS_setT, getS_setS _ _ _ _ h1 h2]
  constructor
  · intro s' h1' h2'
    rw [hget]
    show _ = _ + (cnt (uDec s') (st.ths.set i pc') : Int)
    by_cases e : s = s'
    · subst e; simpa using hcount
    · have := h.count s' h1' (by omega)
      have e2 := cnt_set (uDec s') st.ths i pc pc' hi
      rw [hdec s' (fun a => e a.symm)] at e2
      simp only [e, if_false]; omega
  · intro s' h1' h2'
    rw [hget]
    show _ + cnt (uRet s') (st.ths.set i pc') + cnt (uRet2 s') (st.ths.set i pc') = _
    rw [hc2]
    by_cases e : s = s'
    · subst e; simpa using hretire
    · have := h.retire s' h1' (by omega)
      have e2 := cnt_set (uRet s') st.ths i pc pc' hi
      rw [hret s' (fun a => e a.symm)] at e2
      simp only [e, if_false]; omega
  · intro j pcj hj
    rcases set_getElem?_cases hj with ⟨_, rfl⟩ | ⟨_, hj'⟩
    · exact PCok_mono hlen (fun _ _ a b => ⟨a, b⟩) hok
    · exact PCok_mono hlen (fun _ _ a b => ⟨a, b⟩) (h.pcs j pcj hj')
  · intro s' h1' h2'
    rw [hget]
    have := h.place s' h1' (by omega)
    by_cases e : s = s'
    · subst e; simp only [if_true]; rw [hr]; exact this
    · simp only [e, if_false]; exact this
  · intro s'
    rw [hget, hlen]
    show _ ↔ (_ ∧ _ ∧ _ ∧ cnt (uRet2 s') (st.ths.set i pc') = 0)
    rw [hc2]
    have := h.live_iff s'
    by_cases e : s = s'
    · subst e; simp only [if_true]; rw [hr]; exact this
    · simp only [e, if_false]; exact this
  · intro s' hs'; rw [hlen]; exact h.dead_valid s' hs'
  · rw [hlen]; exact h.gc_le
  · exact h.dead_sorted
  · exact h.live_sorted
  · exact h.sent
  · have := h.excl
    have e := cnt_set uCrit st.ths i pc pc' hi
    rw [hcrit] at e
    show cnt uCrit (st.ths.set i pc') = if st.flag then 1 else 0
    omega
  · intro hg hm
    have e := cnt_set uResp st.ths i pc pc' hi
    have := h.resp hg hm
    show 1 ≤ cnt uResp (st.ths.set i pc')
    omega

/-- `start t close s` -/
theorem inv_startClose {cfg : Cfg} {st : St} {i s : Nat} (h : Inv cfg st)
    (hi : st.ths[i]? = some .idle) (h1 : 1 ≤ s) (h2 : s ≤ st.snaps.length)
    (hh : 0 < (getS st s).held) :
    Inv cfg (setT (setS st s { getS st s with held := (getS st s).held - 1 }) i (.closeDec s)) := by
  refine inv_setS_setT (pc' := .closeDec s) (x' := { getS st s with held := (getS st s).held - 1 })
    h hi h1 h2 rfl (show PCok st (.closeDec s) from ⟨h1, h2⟩) ?_ ?_ ?_ ?_ ?_ ?_ ?_
  · have := h.count s h1 h2
    have e := cnt_set (uDec s) st.ths i .idle (.closeDec s) hi
    simp [uDec] at e
    show (getS st s).refs = (((getS st s).held - 1 : Nat) : Int) + _
    omega
  · intro s' hs'; simp [uDec]; omega
  · have := h.retire s h1 h2
    have e := cnt_set (uRet s) st.ths i .idle (.closeDec s) hi
    simp [uRet] at e
    show (getS st s).retired + _ + _ = if (getS st s).refs = 0 then 1 else 0
    omega
  · intro s' _; simp [uRet]
  · intro s'; rfl
  · simp [uCrit]
  · simp [uResp]

/-- successful compare-and-swap of `Open` -/
theorem inv_openCasOk {cfg : Cfg} {st : St} {i s : Nat} {rc : Int} (h : Inv cfg st)
    (hi : st.ths[i]? = some (.openCas s rc)) (hrc : (getS st s).refs = rc) :
    Inv cfg (setT (setS st s { getS st s with refs := rc + 1, held := (getS st s).held + 1 }) i .idle) := by
  obtain ⟨h1, h2, hpos⟩ := h.pcs i _ hi
  refine inv_setS_setT (pc' := .idle)
    (x' := { getS st s with refs := rc + 1, held := (getS st s).held + 1 })
    h hi h1 h2 rfl (show PCok st .idle from trivial) ?_ ?_ ?_ ?_ ?_ ?_ ?_
  · have := h.count s h1 h2
    have e := cnt_set (uDec s) st.ths i _ .idle hi
    simp [uDec] at e
    show rc + 1 = (((getS st s).held + 1 : Nat) : Int) + _
    omega
  · intro s' _; simp [uDec]
  · have := h.retire s h1 h2
    have e := cnt_set (uRet s) st.ths i _ .idle hi
    simp [uRet] at e
    show (getS st s).retired + _ + _ = if rc + 1 = 0 then 1 else 0
    rw [hrc] at this
    have a : ¬ rc = 0 := by omega
    have b : ¬ rc + 1 = 0 := by omega
    simp only [a, b, if_false] at this ⊢
    omega
  · intro s' _; simp [uRet]
  · intro s'; rfl
  · simp [uCrit]
  · simp [uResp]

/-- the decrement of `Close` -/
theorem inv_closeDec {cfg : Cfg} {st : St} {i s : Nat} (h : Inv cfg st)
    (hi : st.ths[i]? = some (.closeDec s)) :
    Inv cfg (setT (setS st s { getS st s with refs := (getS st s).refs - 1 }) i
      (if Gen.closeRetire ((getS st s).refs - 1) then .closeRetire s else .idle)) := by
  obtain ⟨h1, h2⟩ := h.pcs i _ hi
  have hc := h.count s h1 h2
  have hr := h.retire s h1 h2
  have hpos : 1 ≤ cnt (uDec s) st.ths := by
    have := cnt_ge (uDec s) st.ths i _ hi; simpa [uDec] using this
  have hne : ¬ (getS st s).refs = 0 := by omega
  simp only [hne, if_false] at hr
  by_cases hz : Gen.closeRetire ((getS st s).refs - 1) = true
  · simp only [hz, if_true]
    rw [closeRetire_iff] at hz
    refine inv_setS_setT (pc' := .closeRetire s)
      (x' := { getS st s with refs := (getS st s).refs - 1 })
      h hi h1 h2 rfl (show PCok st (.closeRetire s) from ⟨h1, h2⟩) ?_ ?_ ?_ ?_ ?_ ?_ ?_
    · have e := cnt_set (uDec s) st.ths i _ (.closeRetire s) hi
      simp [uDec] at e
      show (getS st s).refs - 1 = ((getS st s).held : Int) + _
      omega
    · intro s' hs'; simp [uDec]; omega
    · have e := cnt_set (uRet s) st.ths i (.closeDec s) (.closeRetire s) hi
      simp [uRet] at e
      show (getS st s).retired + _ + _ = if (getS st s).refs - 1 = 0 then 1 else 0
      simp only [hz, if_true]; omega
    · intro s' hs'; simp [uRet]; omega
    · intro s'; rfl
    · simp [uCrit]
    · simp [uResp]
  · simp only [hz]
    rw [closeRetire_iff] at hz
    refine inv_setS_setT (pc' := .idle)
      (x' := { getS st s with refs := (getS st s).refs - 1 })
      h hi h1 h2 rfl (show PCok st .idle from trivial) ?_ ?_ ?_ ?_ ?_ ?_ ?_
    · have e := cnt_set (uDec s) st.ths i _ .idle hi
      simp [uDec] at e
      show (getS st s).refs - 1 = ((getS st s).held : Int) + _
      omega
    · intro s' hs'; simp [uDec]; omega
    · have e := cnt_set (uRet s) st.ths i (.closeDec s) .idle hi
      simp [uRet] at e
      show (getS st s).retired + _ + _ = if (getS st s).refs - 1 = 0 then 1 else 0
      simp only [hz, if_false]; omega
    · intro s' _; simp [uRet]
    · intro s'; rfl
    · simp [uCrit]
    · simp [uResp]

end NitroVerif.RefCount
