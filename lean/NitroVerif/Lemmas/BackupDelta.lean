import NitroVerif.Model.Backup
import NitroVerif.Lemmas.BackupGen
import NitroVerif.Lemmas.CodecKV
/-!
  Insertion of delta items into the restored list (`Insert2` of LoadFromDisk's delta part):
  on a list strictly sorted by the key comparison an item whose key is present is rejected, any other
  item is linked at its sorted position.  `KeyOrder` is what the theorems need of the comparison;
  `bytes.Compare` and `CompareKV` satisfy it.
-/
namespace NitroVerif.Backup
open NitroVerif NitroVerif.Codec NitroVerif.Backup.GenLemmas

/-- a three-way comparison that is a total preorder (keys may compare equal without the byte strings
    being equal, as with CompareKV) -/
structure KeyOrder (cmp : Bytes → Bytes → Int) : Prop where
  swap : ∀ a b, cmp a b < 0 ↔ 0 < cmp b a
  le_trans : ∀ a b c, cmp a b ≤ 0 → cmp b c ≤ 0 → cmp a c ≤ 0

namespace KeyOrder
variable {cmp : Bytes → Bytes → Int} (ko : KeyOrder cmp)
include ko

theorem refl (a : Bytes) : cmp a a = 0 := by
  have := ko.swap a a; omega

theorem eq_symm {a b : Bytes} (h : cmp a b = 0) : cmp b a = 0 := by
  have h1 := ko.swap a b; have h2 := ko.swap b a; omega

theorem lt_of_lt_of_eq {a b c : Bytes} (h1 : cmp a b < 0) (h2 : cmp b c = 0) : cmp a c < 0 := by
  have t1 := ko.le_trans a b c (by omega) (by omega)
  have s1 := ko.swap a c; have s2 := ko.swap c a; have s3 := ko.swap a b
  by_cases h0 : cmp a c = 0
  · have t2 := ko.le_trans b c a (by omega) (by omega)
    omega
  · omega

theorem lt_of_eq_of_lt {a b c : Bytes} (h1 : cmp a b = 0) (h2 : cmp b c < 0) : cmp a c < 0 := by
  have t1 := ko.le_trans a b c (by omega) (by omega)
  have s1 := ko.swap a c; have s2 := ko.swap c a; have s3 := ko.swap b c
  by_cases h0 : cmp a c = 0
  · have t2 := ko.le_trans c a b (by omega) (by omega)
    omega
  · omega

theorem lt_trans {a b c : Bytes} (h1 : cmp a b < 0) (h2 : cmp b c < 0) : cmp a c < 0 := by
  have t1 := ko.le_trans a b c (by omega) (by omega)
  have s1 := ko.swap a c; have s2 := ko.swap c a; have s3 := ko.swap b c
  by_cases h0 : cmp a c = 0
  · have t2 := ko.le_trans c a b (by omega) (by omega)
    omega
  · omega

theorem lt_asymm {a b : Bytes} (h1 : cmp a b < 0) : ¬ cmp b a < 0 := by
  have := ko.swap a b; omega

end KeyOrder

/-- bytes.Compare is such an order -/
theorem keyOrder_cmpBytes : KeyOrder cmpBytes where
  swap a b := by have := cmpBytes_antisymm a b; omega
  le_trans a b c h1 h2 := by
    by_cases e1 : cmpBytes a b = 0
    · rw [(cmpBytes_eq_zero_iff a b).1 e1]; exact h2
    · by_cases e2 : cmpBytes b c = 0
      · rw [← (cmpBytes_eq_zero_iff b c).1 e2]; exact h1
      · have := @cmpBytes_trans a b c (by omega) (by omega); omega

/-- a comparison of extracted keys inherits the order (CompareKV = bytes.Compare of the key parts) -/
theorem keyOrder_comap {cmp : Bytes → Bytes → Int} (ko : KeyOrder cmp) (key : Bytes → Bytes) :
    KeyOrder (fun a b => cmp (key a) (key b)) where
  swap _ _ := ko.swap _ _
  le_trans _ _ _ := ko.le_trans _ _ _

theorem keyOrder_compareKV : KeyOrder compareKV :=
  keyOrder_comap keyOrder_cmpBytes (fun a => (kvFromBytes a).1)

/-! ### the walk of `insertAux`, free of generated definitions -/

theorem insCmp_eq (cmp : Bytes → Bytes → Int) (c x : Bytes) : insCmp cmp c x = cmp c x := by
  unfold insCmp; exact insertCompare_restored _

theorem predEq_some (cmp : Bytes → Bytes → Int) (x p : Bytes) :
    predEq cmp x (some p) = decide (cmp x p = 0) := by
  simp [predEq, existCompare_restored]

theorem insertAux_nil (cmp : Bytes → Bytes → Int) (x : Bytes) (pred : Option Bytes) :
    insertAux cmp x pred [] = if predEq cmp x pred then none else some [x] := rfl

theorem insertAux_cons (cmp : Bytes → Bytes → Int) (x : Bytes) (pred : Option Bytes) (c : Bytes)
    (r : List Bytes) :
    insertAux cmp x pred (c :: r) =
      if cmp c x < 0 then (insertAux cmp x (some c) r).map (c :: ·)
      else if cmp c x = 0 then none
      else if predEq cmp x pred then none
      else some (x :: c :: r) := by
  have ha : Gen.findAdvance (insCmp cmp c x) = decide (cmp c x < 0) := by
    rw [insCmp_eq, Bool.eq_iff_iff, findAdvance_iff]; simp
  have hf : Gen.findFound (insCmp cmp c x) = decide (cmp c x = 0) := by
    rw [insCmp_eq, Bool.eq_iff_iff, findFound_iff]; simp
  rw [insertAux, ha, hf]
  by_cases h1 : cmp c x < 0
  · simp only [h1, decide_true, if_true]
    cases insertAux cmp x (some c) r <;> rfl
  · by_cases h2 : cmp c x = 0
    · simp [h2]
    · simp [h1, h2]

/-- the predecessor test of Insert4 never fires after a correct walk: the predecessor is smaller -/
def PredOk (cmp : Bytes → Bytes → Int) (x : Bytes) : Option Bytes → Prop
  | none => True
  | some p => cmp p x < 0

theorem predEq_false {cmp : Bytes → Bytes → Int} (ko : KeyOrder cmp) {x : Bytes} {pred : Option Bytes}
    (h : PredOk cmp x pred) : predEq cmp x pred = false := by
  cases pred with
  | none => rfl
  | some p =>
    rw [predEq_some]
    have := ko.swap p x
    simp only [PredOk] at h
    simp; omega

/-- a key that is present is rejected -/
theorem insertAux_reject {cmp : Bytes → Bytes → Int} (ko : KeyOrder cmp) (x : Bytes)
    (l : List Bytes) (hs : l.Pairwise (fun a b => cmp a b < 0)) (pred : Option Bytes)
    (c : Bytes) (hc : c ∈ l) (heq : cmp x c = 0) : insertAux cmp x pred l = none := by
  induction l generalizing pred with
  | nil => cases hc
  | cons c' r ih =>
    rw [insertAux_cons]
    have hs' := List.pairwise_cons.1 hs
    by_cases h1 : cmp c' x < 0
    · rw [if_pos h1]
      rcases List.mem_cons.1 hc with rfl | hcr
      · have := ko.eq_symm heq; omega
      · rw [ih hs'.2 (some c') hcr]; rfl
    · rw [if_neg h1]
      by_cases h2 : cmp c' x = 0
      · rw [if_pos h2]
      · exfalso
        have hx : cmp x c' < 0 := by have := ko.swap x c'; omega
        rcases List.mem_cons.1 hc with rfl | hcr
        · omega
        · have := ko.lt_trans hx (hs'.1 c hcr); omega

/-- a key that is absent is linked in at its sorted position -/
theorem insertAux_accept {cmp : Bytes → Bytes → Int} (ko : KeyOrder cmp) (x : Bytes)
    (l : List Bytes) (hs : l.Pairwise (fun a b => cmp a b < 0)) (pred : Option Bytes)
    (hp : PredOk cmp x pred) (hne : ∀ c ∈ l, cmp x c ≠ 0) :
    ∃ l', insertAux cmp x pred l = some l' ∧ l'.Pairwise (fun a b => cmp a b < 0) ∧
      ∀ y, y ∈ l' ↔ y = x ∨ y ∈ l := by
  induction l generalizing pred with
  | nil =>
    refine ⟨[x], ?_, by simp, by simp⟩
    rw [insertAux_nil, predEq_false ko hp]; rfl
  | cons c r ih =>
    rw [insertAux_cons]
    have hs' := List.pairwise_cons.1 hs
    have hcx : cmp c x ≠ 0 := fun h => hne c List.mem_cons_self (ko.eq_symm h)
    by_cases h1 : cmp c x < 0
    · rw [if_pos h1]
      obtain ⟨l', hl', hsort, hmem⟩ := ih hs'.2 (some c) h1
        (fun d hd => hne d (List.mem_cons_of_mem _ hd))
      refine ⟨c :: l', by rw [hl']; rfl, ?_, ?_⟩
      · refine List.pairwise_cons.2 ⟨fun y hy => ?_, hsort⟩
        rcases (hmem y).1 hy with rfl | hyr
        · exact h1
        · exact hs'.1 y hyr
      · intro y
        simp only [List.mem_cons, hmem]
        constructor
        · rintro (h | h | h)
          · exact Or.inr (Or.inl h)
          · exact Or.inl h
          · exact Or.inr (Or.inr h)
        · rintro (h | h | h)
          · exact Or.inr (Or.inl h)
          · exact Or.inl h
          · exact Or.inr (Or.inr h)
    · rw [if_neg h1, if_neg hcx, predEq_false ko hp]
      have hx : cmp x c < 0 := by have := ko.swap x c; omega
      refine ⟨x :: c :: r, rfl, ?_, by simp⟩
      refine List.pairwise_cons.2 ⟨fun y hy => ?_, hs⟩
      rcases List.mem_cons.1 hy with rfl | hyr
      · exact hx
      · exact ko.lt_trans hx (hs'.1 y hyr)

/-! ### strictly sorted lists are determined by their members -/

theorem eq_of_sorted_of_mem_iff {cmp : Bytes → Bytes → Int} (ko : KeyOrder cmp)
    (l₁ l₂ : List Bytes) (h₁ : l₁.Pairwise (fun a b => cmp a b < 0))
    (h₂ : l₂.Pairwise (fun a b => cmp a b < 0)) (hm : ∀ y, y ∈ l₁ ↔ y ∈ l₂) : l₁ = l₂ := by
  induction l₁ generalizing l₂ with
  | nil =>
    cases l₂ with
    | nil => rfl
    | cons b r => exact absurd ((hm b).2 List.mem_cons_self) (by simp)
  | cons a r₁ ih =>
    cases l₂ with
    | nil => exact absurd ((hm a).1 List.mem_cons_self) (by simp)
    | cons b r₂ =>
      have p₁ := List.pairwise_cons.1 h₁
      have p₂ := List.pairwise_cons.1 h₂
      have hab : a = b := by
        by_cases hab : a = b
        · exact hab
        · exfalso
          have ha : a ∈ r₂ := by
            rcases List.mem_cons.1 ((hm a).1 List.mem_cons_self) with h | h
            · exact absurd h hab
            · exact h
          have hb : b ∈ r₁ := by
            rcases List.mem_cons.1 ((hm b).2 List.mem_cons_self) with h | h
            · exact absurd h.symm hab
            · exact h
          exact ko.lt_asymm (p₁.1 b hb) (p₂.1 a ha)
      subst hab
      congr 1
      apply ih r₂ p₁.2 p₂.2
      intro y
      have irr : ∀ z, cmp a z < 0 → z ≠ a := fun z hz he => by
        rw [he, ko.refl a] at hz; omega
      constructor
      · intro hy
        rcases List.mem_cons.1 ((hm y).1 (List.mem_cons_of_mem _ hy)) with h | h
        · exact absurd h (irr y (p₁.1 y hy))
        · exact h
      · intro hy
        rcases List.mem_cons.1 ((hm y).2 (List.mem_cons_of_mem _ hy)) with h | h
        · exact absurd h (irr y (p₂.1 y hy))
        · exact h

/-! ### the fold over the delta items -/

/-- what `deltaInsert` does to a sorted list -/
theorem deltaInsert_sorted {cmp : Bytes → Bytes → Int} (ko : KeyOrder cmp) (l : List Bytes)
    (hs : l.Pairwise (fun a b => cmp a b < 0)) (x : Bytes) :
    ((∃ c ∈ l, cmp x c = 0) ∧ deltaInsert cmp l x = l) ∨
    ((∀ c ∈ l, cmp x c ≠ 0) ∧ (deltaInsert cmp l x).Pairwise (fun a b => cmp a b < 0) ∧
      ∀ y, y ∈ deltaInsert cmp l x ↔ y = x ∨ y ∈ l) := by
  by_cases hex : ∃ c ∈ l, cmp x c = 0
  · obtain ⟨c, hc, heq⟩ := hex
    left
    refine ⟨⟨c, hc, heq⟩, ?_⟩
    unfold deltaInsert
    rw [insertAux_reject ko x l hs none c hc heq]
  · right
    have hne : ∀ c ∈ l, cmp x c ≠ 0 := fun c hc he => hex ⟨c, hc, he⟩
    obtain ⟨l', hl', hsort, hmem⟩ := insertAux_accept ko x l hs none trivial hne
    refine ⟨hne, ?_⟩
    unfold deltaInsert
    rw [hl']
    exact ⟨hsort, hmem⟩

/-- The delta fold restores the content: `base` = what the shard files delivered (a sorted part of
    the content), every delta item is an item of the content or has the key of an item the shards
    delivered, and every item of the content came through a shard or a delta file. -/
theorem insertAll_eq_content {cmp : Bytes → Bytes → Int} (ko : KeyOrder cmp)
    (content base ds : List Bytes)
    (hc : content.Pairwise (fun a b => cmp a b < 0))
    (hb : base.Pairwise (fun a b => cmp a b < 0)) (hbc : ∀ y ∈ base, y ∈ content)
    (hds : ∀ x ∈ ds, x ∈ content ∨ ∃ c ∈ base, cmp x c = 0)
    (hall : ∀ y ∈ content, y ∈ base ∨ y ∈ ds) :
    insertAll cmp base ds = content := by
  -- invariant of the fold
  have key : ∀ (ds : List Bytes) (l : List Bytes),
      l.Pairwise (fun a b => cmp a b < 0) → (∀ y ∈ l, y ∈ content) → (∀ y ∈ base, y ∈ l) →
      (∀ x ∈ ds, x ∈ content ∨ ∃ c ∈ base, cmp x c = 0) →
      (insertAll cmp l ds).Pairwise (fun a b => cmp a b < 0) ∧
      (∀ y ∈ insertAll cmp l ds, y ∈ content) ∧
      (∀ y ∈ l, y ∈ insertAll cmp l ds) ∧
      (∀ x ∈ ds, x ∈ content → x ∈ insertAll cmp l ds) := by
    intro ds
    induction ds with
    | nil => intro l hs hlc _ _; exact ⟨hs, hlc, fun y hy => hy, by simp⟩
    | cons x r ih =>
      intro l hs hlc hbl hx
      have hxr : ∀ z ∈ r, z ∈ content ∨ ∃ c ∈ base, cmp z c = 0 :=
        fun z hz => hx z (List.mem_cons_of_mem _ hz)
      show (insertAll cmp (deltaInsert cmp l x) r).Pairwise _ ∧ _
      change _ ∧ (∀ y ∈ insertAll cmp (deltaInsert cmp l x) r, y ∈ content) ∧
        (∀ y ∈ l, y ∈ insertAll cmp (deltaInsert cmp l x) r) ∧
        (∀ z ∈ x :: r, z ∈ content → z ∈ insertAll cmp (deltaInsert cmp l x) r)
      rcases deltaInsert_sorted ko l hs x with ⟨⟨c, hcl, heq⟩, hsame⟩ | ⟨hne, hsort, hmem⟩
      · -- rejected: the list is unchanged
        rw [hsame]
        obtain ⟨i1, i2, i3, i4⟩ := ih l hs hlc hbl hxr
        refine ⟨i1, i2, i3, ?_⟩
        intro z hz hzc
        rcases List.mem_cons.1 hz with rfl | hzr
        · -- the equal-key item of the list is `z` itself: the content has distinct keys
          have hcc := hlc c hcl
          have : c = z := by
            by_cases he : c = z
            · exact he
            · exfalso
              rcases List.pairwise_iff_getElem.1 hc with hp
              obtain ⟨i, hi, rfl⟩ := List.getElem_of_mem hcc
              obtain ⟨j, hj, rfl⟩ := List.getElem_of_mem hzc
              rcases Nat.lt_trichotomy i j with hij | hij | hij
              · have := hp i j hi hj hij
                have := ko.swap content[i] content[j]; omega
              · subst hij; exact he rfl
              · have := hp j i hj hi hij; omega
          rw [← this]; exact i3 c hcl
        · exact i4 z hzr hzc
      · -- inserted
        have hx' := hx x List.mem_cons_self
        have hxc : x ∈ content := by
          rcases hx' with h | ⟨c, hcb, heq⟩
          · exact h
          · exact absurd heq (hne c (hbl c hcb))
        obtain ⟨i1, i2, i3, i4⟩ := ih (deltaInsert cmp l x) hsort
          (fun y hy => by
            rcases (hmem y).1 hy with rfl | h
            · exact hxc
            · exact hlc y h)
          (fun y hy => (hmem y).2 (Or.inr (hbl y hy))) hxr
        refine ⟨i1, i2, fun y hy => i3 y ((hmem y).2 (Or.inr hy)), ?_⟩
        intro z hz hzc
        rcases List.mem_cons.1 hz with rfl | hzr
        · exact i3 z ((hmem z).2 (Or.inl rfl))
        · exact i4 z hzr hzc
  obtain ⟨i1, i2, i3, i4⟩ := key ds base hb hbc (fun y hy => hy) hds
  apply eq_of_sorted_of_mem_iff ko _ _ i1 hc
  intro y
  constructor
  · exact i2 y
  · intro hy
    rcases hall y hy with h | h
    · exact i3 y h
    · exact i4 y h hy

end NitroVerif.Backup
