import NitroVerif.Lemmas.SkipConcLevelsPath
/-!
  Quiescence of M5, part 1: facts about the chains of ALL levels (0 included) used by the charging argument:
  a search position from which a linked node is reachable keeps reaching it until the node is unlinked
  (`ReachL.keepT`), a node enters a chain only by its inserter's link (or its publication, level 0)
  (`LStep.onChain_back`), and a level-0 mark is new only in the `mark0` event (`LStep.marked0_back`).
-/
namespace NitroVerif.SkipConc
open NitroVerif

/-- strict ascent along the edges of the chain of any level (level 0: H5 of the core; index levels: `LvInv`) -/
theorem chain_edges_sorted {h : Heap} (H : HInv h) (L : LvInv h) (l : Nat) :
    ∀ n p m, ReachL h l 0 n → word? h n l = some (p, m) → Key.lt (keyOf h n) (keyOf h p) := by
  intro n p m hn hw
  cases l with
  | zero => exact H.h5 _ _ _ hw
  | succ l => exact L.sorted _ _ _ _ (by omega) hn hw

/-- strict ascent along the chain of any level -/
theorem chain_key {h : Heap} (H : HInv h) (L : LvInv h) {l a b : Nat} (ha : OnChain h l a) (r : ReachL h l a b) :
    a = b ∨ Key.lt (keyOf h a) (keyOf h b) := by
  induction r with
  | refl => exact .inl rfl
  | step hw _ ih =>
    have h1 := chain_edges_sorted H L _ _ _ _ ha hw
    rcases ih (ReachL.snoc ha hw) with rfl | h2
    · exact .inr h1
    · exact .inr (Key.lt_trans h1 h2)

/-- of two nodes on a chain the one with the smaller key comes first -/
theorem reach_of_chain_lt {h : Heap} (H : HInv h) (L : LvInv h) {l c d : Nat} (hc : OnChain h l c)
    (hd : OnChain h l d) (hk : Key.lt (keyOf h c) (keyOf h d)) : ReachL h l c d := by
  rcases ReachL.det hc hd with r | r
  · exact r
  · rcases chain_key H L hd r with e | l'
    · subst e; exact absurd hk (Key.lt_irrefl _)
    · exact absurd hk (Key.lt_asymm l')

/-- marking is top-down, so a node that is unmarked at a level is unmarked at every lower level -/
theorem unmarkedAt_down {h : Heap} (H : HInv h) {l l' a : Nat} (hu : unmarkedAt h l a) (hle : l' ≤ l) :
    unmarkedAt h l' a := by
  obtain ⟨p, hp⟩ := hu
  have ha := word?_lt hp
  have ha1 : a ≠ 1 := by
    intro e; rw [e, H.tailNoWord] at hp; simp at hp
  have hs := H.full a l' ha ha1 (Nat.le_trans hle (H.wordLevel _ _ _ hp))
  obtain ⟨⟨q, m⟩, hq⟩ := Option.isSome_iff_exists.mp hs
  cases m with
  | false => exact ⟨q, hq⟩
  | true => have := H.h4 _ _ _ _ _ _ hq hle hp; simp at this

/-- a node that is unmarked at a level is on the chain of every level at which a word points to it or above which
    it has been reached; in particular an unmarked node a search stands on at level `i` is on every chain `≤ i` -/
theorem onChain_of_Lk {h : Heap} (H : HInv h) (R : ReachInv h) {c i j : Nat} (k : Lk h c i) (hu : unmarkedAt h i c)
    (hj : j ≤ i) : OnChain h j c := by
  have huj := unmarkedAt_down H hu hj
  cases j with
  | zero => exact reachL_zero_iff.mpr (R.2 c huj)
  | succ j => exact k _ (by omega) hj huj

theorem reachL_succ {h : Heap} {l a n : Nat} (r : ReachL h l a n) (hne : a ≠ n) : ReachL h l (getNext h a l).1 n := by
  cases r with
  | refl => exact absurd rfl hne
  | step hw r' => rw [getNext_of_word hw]; exact r'

/-- after the unlink of `curr` at level `l` from a predecessor that is on the chain, `curr` is off that chain -/
theorem unlink_off_chain {h h' : Heap} (H : HInv h) (L : LvInv h) (H' : HInv h') (L' : LvInv h') {l prev curr next : Nat}
    (hh : h' = setWord h prev l (next, false)) (hp : word? h prev l = some (curr, false))
    (hc : word? h curr l = some (next, true)) (hpc : OnChain h l prev) : ¬ OnChain h' l curr := by
  intro hcc
  have hne : curr ≠ prev := by
    intro e; rw [e, hp] at hc; simp at hc
  have hk : ∀ a, keyOf h' a = keyOf h a := by intro a; rw [hh]; exact keyOf_setWord ..
  have k1 : Key.lt (keyOf h prev) (keyOf h curr) := chain_edges_sorted H L _ _ _ _ hpc hp
  have k2 : Key.lt (keyOf h curr) (keyOf h next) := chain_edges_sorted H L _ _ _ _ (hpc.snoc hp) hc
  have hpc' : OnChain h' l prev := by rw [hh]; exact unlink_reachL hp hc hpc (fun e => hne e.symm)
  have hwp' : word? h' prev l = some (next, false) := by rw [hh, word?_setWord_same hp]; simp
  rcases ReachL.det hpc' hcc with r | r
  · cases r with
    | refl => exact hne rfl
    | step hw r' =>
      rw [hwp'] at hw; simp at hw
      obtain ⟨rfl, _⟩ := hw
      rcases chain_key H' L' (hpc'.snoc hwp') r' with e | l'
      · rw [e] at k2; exact Key.lt_irrefl _ k2
      · rw [hk, hk] at l'; exact Key.lt_asymm k2 l'
  · rcases chain_key H' L' hcc r with e | l'
    · exact hne e
    · rw [hk, hk] at l'; exact Key.lt_asymm k1 l'

/-! ### the publish CAS on level 0 -/

theorem publish_reach0 {h : Heap} {p c : Nat} (nd : Node) (hw : word? h p 0 = some (c, false))
    (hn0 : nd.next[0]? = some (c, false)) {a d : Nat} (r : ReachL h 0 a d) :
    ReachL (setWord h p 0 (h.length, false) ++ [nd]) 0 a d := by
  have hp := word?_lt hw
  refine r.mono (fun a b m hab => ?_)
  by_cases ha : a = p
  · subst ha; rw [hw] at hab; simp at hab
    rw [← hab.1]
    exact .step (b := h.length) (m := false) (by rw [word0_publish h hw]; simp)
      (.single (by rw [word0_publish h hw, if_neg (by omega), if_pos rfl]; exact hn0))
  · have hal := word?_lt hab
    exact .single (by rw [word0_publish h hw, if_neg ha, if_neg (by omega)]; exact hab)

theorem publish_reach0_back {h : Heap} (H : HInv h) {p c : Nat} (nd : Node) (hw : word? h p 0 = some (c, false))
    (hn0 : nd.next[0]? = some (c, false)) {a d : Nat}
    (r : ReachL (setWord h p 0 (h.length, false) ++ [nd]) 0 a d) :
    (a < h.length → d = h.length ∨ ReachL h 0 a d) ∧ (a = h.length → d = h.length ∨ ReachL h 0 c d) := by
  have hp := word?_lt hw
  induction r with
  | refl a =>
    refine ⟨fun _ => .inr (.refl _), fun e => .inl e⟩
  | @step a b d m hab _ ih =>
    rw [word0_publish h hw] at hab
    constructor
    · intro ha
      by_cases hap : a = p
      · subst hap
        simp at hab
        rcases ih.2 hab.1.symm with e | r
        · exact .inl e
        · exact .inr (.step hw r)
      · rw [if_neg hap, if_neg (by omega)] at hab
        rcases ih.1 (H.closed _ _ _ _ hab) with e | r
        · exact .inl e
        · exact .inr (.step hab r)
    · intro ha
      subst ha
      rw [if_neg (by omega), if_pos rfl, hn0] at hab
      simp at hab
      rw [← hab.1] at ih
      exact ih.1 (H.closed _ _ _ _ hw)

/-! ### a node enters a chain only by its inserter -/

theorem LStep.onChain_back {h h' : Heap} {ev : LEv} (H : HInv h) (s : LStep h ev h') {j d : Nat}
    (r : OnChain h' j d) : OnChain h j d ∨ ev = .link d j ∨ d = h.length := by
  cases s with
  | none => exact .inl r
  | @unlink l1 prev curr next hp hc kprev =>
    by_cases e : j = l1
    · subst e; exact .inl (unlink_reachL_back hp hc r)
    · exact .inl ((reachL_setWord_level _ e).mp r)
  | @mark l1 a e hl1 hw => exact .inl ((reachL_setWord_mark hw).mp r)
  | @mark0 a e hw => exact .inl ((reachL_setWord_mark hw).mp r)
  | @own l1 x old s1 hl1 hx0 hw hux hs =>
    by_cases e : j = l1
    · subst e
      refine .inl ((reachL_off (fun a ha => ?_) (hux.not_onChain hx0)).mp r)
      rw [word?_setWord_same hw, if_neg ha]
    · exact .inl ((reachL_setWord_level _ e).mp r)
  | @link l1 pred x next m hl1 hp hx kp k1 k2 kx =>
    by_cases e : j = l1
    · subst e
      have hne : x ≠ pred := by intro e; subst e; exact Key.lt_irrefl _ k1
      rcases link_reachL_back hp hx hne r with r1 | ⟨_, e2⟩
      · exact .inl r1
      · subst e2; exact .inr (.inl rfl)
    · exact .inl ((reachL_setWord_level _ e).mp r)
  | @publish p c nd hw hn0 hnd hnm =>
    have h0 : 0 < h.length := by have := H.len; omega
    cases j with
    | zero =>
      rcases (publish_reach0_back H nd hw hn0 r).1 h0 with e | r1
      · exact .inr (.inr e)
      · exact .inl r1
    | succ j =>
      rw [setWord_append h nd (word?_lt hw)] at r
      have r1 := (reachL_setWord_level _ (by omega)).mp r
      exact .inl ((reachL_grow (fun a ha => word?_append_lt h nd ha _) (fun a q m hw => H.closed _ _ _ _ hw) h0).mp r1)

/-- a level-0 mark is new only in the `mark0` event of that node -/
theorem LStep.marked0_back {h h' : Heap} {ev : LEv} (s : LStep h ev h') {d : Nat} (hm : marked0 h' d) :
    marked0 h d ∨ ev = .mark0 d := by
  obtain ⟨q, hq⟩ := hm
  cases s with
  | none => exact .inl ⟨q, hq⟩
  | @unlink l1 prev curr next hp hc kprev =>
    rw [word?_setWord] at hq
    by_cases hc1 : d = prev ∧ 0 = l1 ∧ (word? h prev l1).isSome
    · rw [if_pos hc1] at hq; simp at hq
    · rw [if_neg hc1] at hq; exact .inl ⟨q, hq⟩
  | @mark l1 a e hl1 hw =>
    rw [word?_setWord_level _ (by omega)] at hq; exact .inl ⟨q, hq⟩
  | @mark0 a e hw =>
    by_cases hda : d = a
    · subst hda; exact .inr rfl
    · rw [word?_setWord_same hw, if_neg hda] at hq; exact .inl ⟨q, hq⟩
  | @own l1 x old s1 hl1 hx0 hw hux hs =>
    rw [word?_setWord_level _ (by omega)] at hq; exact .inl ⟨q, hq⟩
  | @link l1 pred x next m hl1 hp hx kp k1 k2 kx =>
    rw [word?_setWord_level _ (by omega)] at hq; exact .inl ⟨q, hq⟩
  | @publish p c nd hw hn0 hnd hnm =>
    rw [word0_publish h hw] at hq
    by_cases hdp : d = p
    · rw [if_pos hdp] at hq; simp at hq
    · rw [if_neg hdp] at hq
      by_cases hdl : d = h.length
      · rw [if_pos hdl, hn0] at hq; simp at hq
      · rw [if_neg hdl] at hq; exact .inl ⟨q, hq⟩

/-! ### a search position keeps reaching a linked node -/

theorem ReachL.keepT {h h' : Heap} {ev : LEv} (H : HInv h) (R : ReachInv h) (L : LvInv h) (H' : HInv h')
    (L' : LvInv h') (s : LStep h ev h') {j a d : Nat} (ka : Lk h a j) (r : ReachL h j a d)
    (hd : OnChain h' j d) : ReachL h' j a d := by
  cases s with
  | none => exact r
  | @unlink l1 prev curr next hp hc kprev =>
    by_cases e : j = l1
    · subst e
      have hpc : OnChain h j prev := by
        cases j with
        | zero => exact reachL_zero_iff.mpr (R.2 prev ⟨curr, hp⟩)
        | succ j => exact kprev _ (by omega) (Nat.le_refl _) ⟨curr, hp⟩
      refine unlink_reachL hp hc r ?_
      intro e2
      subst e2
      exact unlink_off_chain H L H' L' rfl hp hc hpc hd
    · exact (reachL_setWord_level _ e).mpr r
  | @mark l1 a1 e hl1 hw => exact (reachL_setWord_mark hw).mpr r
  | @mark0 a1 e hw => exact (reachL_setWord_mark hw).mpr r
  | @own l1 x old s1 hl1 hx0 hw hux hs =>
    by_cases e : j = l1
    · subst e
      have hoff : ¬ ReachL h j a x := by
        intro rx
        rcases ReachL.last rx with e1 | ⟨b, m, hb⟩
        · subst e1
          exact hux.not_onChain hx0 (ka j hl1 (Nat.le_refl _) ⟨old, hw⟩)
        · exact hux b j x m (Nat.le_refl _) hb rfl
      refine (reachL_off (fun b hb => ?_) hoff).mpr r
      rw [word?_setWord_same hw, if_neg hb]
    · exact (reachL_setWord_level _ e).mpr r
  | @link l1 pred x next m hl1 hp hx kp k1 k2 kx =>
    by_cases e : j = l1
    · subst e
      refine link_reachL hp hx ?_ r
      intro e; subst e; exact Key.lt_irrefl _ k1
    · exact (reachL_setWord_level _ e).mpr r
  | @publish p c nd hw hn0 hnd hnm =>
    cases j with
    | zero => exact publish_reach0 nd hw hn0 r
    | succ j =>
      rw [setWord_append h nd (word?_lt hw)]
      refine (reachL_setWord_level _ (by omega)).mpr ?_
      exact r.mono (fun b q m hb => .single (by rw [word?_append_lt h nd (word?_lt hb)]; exact hb))

end NitroVerif.SkipConc
