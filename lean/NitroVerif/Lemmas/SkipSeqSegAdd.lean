import NitroVerif.Lemmas.SkipSeqAssemble
/-!
  `Segment.Add`: appending a freshly allocated node to the per-level chains of a segment.  The
  linking loop is the inner loop of `Assemble` for a one-node segment, restricted to the levels the
  node has.
-/
namespace NitroVerif.SkipSeq
open NitroVerif

/-- the one-node segment `[x]` of height `ht`, as `Assemble` would see it -/
def oneSeg (x ht : Nat) : Segment :=
  { head := (List.range (Gen.maxLevel + 1)).map fun l => if l ≤ ht then x else nilId
    tail := (List.range (Gen.maxLevel + 1)).map fun l => if l ≤ ht then x else nilId
    sts := Stats.zero }

theorem oneSeg_getD (x ht l : Nat) (hl : l ≤ Gen.maxLevel) :
    (oneSeg x ht).head.getD l nilId = (if l ≤ ht then x else nilId) ∧
    (oneSeg x ht).tail.getD l nilId = (if l ≤ ht then x else nilId) := by
  have : l < Gen.maxLevel + 1 := by omega
  simp [oneSeg, List.getD_eq_getElem?_getD, List.getElem?_map, List.getElem?_range, this]

theorem LL_single (h : Heap) (x l : Nat) : LL h [x] l = if l ≤ levelOf h x then [x] else [] := by
  rw [LL_cons]; simp [LL]

theorem oneSeg_ok (h : Heap) (x : Nat) : SegOK h (oneSeg x (levelOf h x)) [x] := by
  refine ⟨by simp [oneSeg], by simp [oneSeg], ?_, ?_⟩
  · intro l hl
    rw [(oneSeg_getD x _ l hl).1, (oneSeg_getD x _ l hl).2, LL_single]
    by_cases h1 : l ≤ levelOf h x <;> simp [h1]
  · intro l _
    rw [LL_single]
    by_cases h1 : l ≤ levelOf h x <;> simp [h1]

/-- one iteration of the linking loop of `Segment.Add` -/
theorem segLink_step {h0 h : Heap} {seg : Segment} {xs : List Nat} {x l : Nat}
    (hnd : (xs ++ [x]).Nodup) (hlo : ∀ y ∈ xs ++ [x], 3 ≤ y)
    (hslot : ∀ y ∈ xs, nextLen h0 y = levelOf h0 y + 1) (hl : l ≤ Gen.maxLevel) (hlx : l ≤ levelOf h0 x)
    (inv : AsmInv h0 h (CfMid h0 xs [x] l) seg.head seg.tail xs) :
    AsmInv h0
      (if seg.tail.getD l nilId != nilId then setNext h (seg.tail.getD l nilId) l (x, false) else h)
      (CfMid h0 xs [x] (l + 1))
      (if seg.tail.getD l nilId != nilId then seg.head else seg.head.set l x)
      (seg.tail.set l x) xs := by
  have hx3 : 3 ≤ x := hlo x (by simp)
  have hxne : (x != nilId) = true := by simp [nilId]; omega
  have key := asmSeg_step (oneSeg_ok h0 x) hnd hlo hslot hl inv
  rw [(oneSeg_getD x _ l hl).1, (oneSeg_getD x _ l hl).2, if_pos hlx] at key
  simp only [hxne, Bool.and_true, if_true] at key
  -- when the tail entry is nil the chain is empty, so the head entry is nil as well
  have hhead : (seg.tail.getD l nilId != nilId) = false → (seg.head.getD l nilId == nilId) = true := by
    intro ht
    have he := inv.ends l hl
    have hC : CfMid h0 xs [x] l l = LL h0 xs l := by simp [CfMid]
    rw [hC] at he
    have hlo' : ∀ y ∈ LL h0 xs l, 3 ≤ y := fun y hy => hlo y (List.mem_append_left _ (mem_LL.mp hy).1)
    have h1 := getD_getLast?_ne_nil hlo'
    rw [← he.2, ht] at h1
    have hnil : LL h0 xs l = [] := by
      cases hc : LL h0 xs l with
      | nil => rfl
      | cons a r => rw [hc] at h1; simp at h1
    rw [he.1, hnil]; simp
  by_cases ht : (seg.tail.getD l nilId != nilId) = true
  · simp only [ht, if_true] at key ⊢
    exact key
  · have ht' : (seg.tail.getD l nilId != nilId) = false := by simpa using ht
    have := hhead ht'
    simp only [ht', Bool.false_eq_true, if_false, this, if_true] at key ⊢
    exact key

theorem segLink_spec {h0 : Heap} {xs : List Nat} {x : Nat}
    (hnd : (xs ++ [x]).Nodup) (hlo : ∀ y ∈ xs ++ [x], 3 ≤ y)
    (hslot : ∀ y ∈ xs, nextLen h0 y = levelOf h0 y + 1) (hxl : levelOf h0 x ≤ Gen.maxLevel) :
    ∀ (n l : Nat) (h : Heap) (seg : Segment), l + n = levelOf h0 x + 1 →
      AsmInv h0 h (CfMid h0 xs [x] l) seg.head seg.tail xs →
      AsmInv h0 (segLink x n l h seg).1 (fun l' => LL h0 (xs ++ [x]) l')
        (segLink x n l h seg).2.head (segLink x n l h seg).2.tail xs ∧
      (segLink x n l h seg).2.sts = seg.sts := by
  intro n
  induction n with
  | zero =>
    intro l h seg hl inv
    simp only [segLink]
    refine ⟨?_, trivial⟩
    apply inv.congr
    intro l' _
    simp only [CfMid]
    by_cases h1 : l' < l
    · simp [h1]
    · have : ¬ l' ≤ levelOf h0 x := by omega
      simp [h1, LL_append, LL_single, this]
  | succ n ih =>
    intro l h seg hl inv
    simp only [segLink]
    have := ih (l + 1) _ { seg with head := if seg.tail.getD l nilId != nilId then seg.head else seg.head.set l x,
                                    tail := seg.tail.set l x } (by omega)
      (segLink_step hnd hlo hslot (by omega) (by omega) inv)
    exact this

end NitroVerif.SkipSeq

namespace NitroVerif.SkipSeq
open NitroVerif

theorem allNodes_mid (L1 : List (Segment × List Nat)) (e : Segment × List Nat) (L2 : List (Segment × List Nat)) :
    allNodes (L1 ++ e :: L2) = allNodes L1 ++ (e.2 ++ allNodes L2) := by
  simp [allNodes]

theorem mem_allNodes {segs : List (Segment × List Nat)} {n : Nat} :
    n ∈ allNodes segs ↔ ∃ e ∈ segs, n ∈ e.2 := by
  simp only [allNodes, List.mem_flatten, List.mem_map]
  constructor
  · rintro ⟨l, ⟨e, he, rfl⟩, hn⟩; exact ⟨e, he, hn⟩
  · rintro ⟨e, he, hn⟩; exact ⟨e.2, ⟨e, he, rfl⟩, hn⟩

/-- `Segment.Add` keeps the build state consistent; the new node is the next heap cell -/
theorem segAdd_ok {s : SL} {L1 L2 : List (Segment × List Nat)} {seg : Segment} {xs : List Nat}
    (b : BuildOK s (L1 ++ (seg, xs) :: L2)) (k : Int) (req : Nat) :
    BuildOK (segAdd s seg (.item k) req).1
      (L1 ++ ((segAdd s seg (.item k) req).2, xs ++ [s.nodes.length]) :: L2) ∧
    (segAdd s seg (.item k) req).1.nodes.length = s.nodes.length + 1 ∧
    ikey (segAdd s seg (.item k) req).1.nodes s.nodes.length = k ∧
    (∀ n, n < s.nodes.length → ikey (segAdd s seg (.item k) req).1.nodes n = ikey s.nodes n) := by
  have hr := b.rep
  have hnl := newLevel_spec s req hr.lvl
  rcases hs1 : newLevel s req with ⟨s1, ht⟩
  rw [hs1] at hnl
  simp only at hnl
  rcases hnl with ⟨e1, e2, e3, e4, e5, e6, e7, e8⟩
  have hmem : (seg, xs) ∈ L1 ++ (seg, xs) :: L2 := by simp
  have hxsAll : ∀ y ∈ xs, y ∈ allNodes (L1 ++ (seg, xs) :: L2) := fun y hy => mem_allNodes.mpr ⟨_, hmem, hy⟩
  -- the heap after allocation
  generalize hnd : ({ key := Key.item k, level := ht, next := List.replicate (ht + 1) (nilId, false) } : Node) = nd
  have hndk : nd.key = .item k := by rw [← hnd]
  have hndl : nd.level = ht := by rw [← hnd]
  have hndn : nd.next.length = ht + 1 := by rw [← hnd]; simp
  let h0 := s.nodes ++ [nd]
  let x := s.nodes.length
  have hold : ∀ n, n < s.nodes.length → keyOf h0 n = keyOf s.nodes n ∧ levelOf h0 n = levelOf s.nodes n ∧
      nextLen h0 n = nextLen s.nodes n ∧ ∀ l, getNext h0 n l = getNext s.nodes n l :=
    fun n hn => ⟨keyOf_append_old hn, levelOf_append_old hn, nextLen_append_old hn, fun l => getNext_append_old hn l⟩
  have hxlvl : levelOf h0 x = ht := by rw [← hndl]; exact levelOf_append_new _ _
  have hxkey : keyOf h0 x = .item k := by rw [← hndk]; exact keyOf_append_new _ _
  have hxlen : nextLen h0 x = ht + 1 := by rw [← hndn]; exact nextLen_append_new _ _
  have hx3 : 3 ≤ x := hr.base.len
  have hxnot : ∀ y ∈ allNodes (L1 ++ (seg, xs) :: L2), y ≠ x := fun y hy e => by
    have := b.hi y hy; omega
  have hso := b.segok _ hmem
  have hLLold : ∀ (ys : List Nat), (∀ y ∈ ys, y < s.nodes.length) → ∀ l, LL h0 ys l = LL s.nodes ys l :=
    fun ys hys l => LL_congr l (fun n hn => (hold n (hys n hn)).2.1)
  have hxsLt : ∀ y ∈ xs, y < s.nodes.length := fun y hy => b.hi y (hxsAll y hy)
  -- the segment's chains, seen in the new heap
  obtain ⟨sts', hsts⟩ : ∃ sts' : Stats, sts' = { seg.sts with nodeAllocs := seg.sts.nodeAllocs + 1, levelNodesCount := addAt seg.sts.levelNodesCount ht 1 } := ⟨_, rfl⟩
  have inv0 : AsmInv h0 h0 (CfMid h0 xs [x] 0) ({ seg with sts := sts' } : Segment).head
      ({ seg with sts := sts' } : Segment).tail xs := by
    refine ⟨hso.hlen, hso.tlen, ?_, ?_, rfl, fun _ => rfl, fun _ => rfl, fun _ => rfl, fun _ _ _ => rfl⟩
    · intro l hl
      have : CfMid h0 xs [x] 0 l = LL s.nodes xs l := by simp [CfMid, hLLold xs hxsLt l]
      rw [this]; exact hso.ends l hl
    · intro l hl
      have : CfMid h0 xs [x] 0 l = LL s.nodes xs l := by simp [CfMid, hLLold xs hxsLt l]
      rw [this, path_congr (h := s.nodes) (mk := nomk)]
      · exact hso.paths l hl
      · intro a ha; exact ⟨(hold a (hxsLt a (mem_LL.mp ha).1)).2.2.2 l, rfl⟩
  have hndx : (xs ++ [x]).Nodup := by
    rw [List.nodup_append]
    refine ⟨?_, by simp, ?_⟩
    · have := b.nodup; rw [allNodes_mid] at this
      exact (List.nodup_append.mp (List.nodup_append.mp this).2.1).1
    · intro a ha c hc; simp at hc; subst hc; exact hxnot a (hxsAll a ha)
  have hlox : ∀ y ∈ xs ++ [x], 3 ≤ y := by
    intro y hy
    rcases List.mem_append.mp hy with h1 | h1
    · exact b.lo y (hxsAll y h1)
    · simp at h1; rw [h1]; exact hx3
  have hslx : ∀ y ∈ xs, nextLen h0 y = levelOf h0 y + 1 := fun y hy => by
    rw [(hold y (hxsLt y hy)).2.2.1, (hold y (hxsLt y hy)).2.1]; exact b.slots y (hxsAll y hy)
  have hspec := segLink_spec hndx hlox hslx (by rw [hxlvl]; omega) (ht + 1) 0 h0 { seg with sts := sts' }
    (by rw [hxlvl]; omega) inv0
  have hres : segAdd s seg (.item k) req =
      ({ s1 with nodes := (segLink x (ht + 1) 0 h0 { seg with sts := sts' }).1 },
       (segLink x (ht + 1) 0 h0 { seg with sts := sts' }).2) := by
    unfold segAdd
    rw [hs1, hsts]
    simp only [newNode, e1, hnd]
    rfl
  generalize hlk : segLink x (ht + 1) 0 h0 { seg with sts := sts' } = lk at hspec hres
  rcases hspec with ⟨inv, hstsF⟩
  rw [hres]
  simp only
  -- facts about old nodes in the final heap
  have holdF : ∀ n, n < s.nodes.length → keyOf lk.1 n = keyOf s.nodes n ∧ levelOf lk.1 n = levelOf s.nodes n ∧
      nextLen lk.1 n = nextLen s.nodes n :=
    fun n hn => ⟨(inv.key n).trans (hold n hn).1, (inv.lvl n).trans (hold n hn).2.1,
      (inv.nlen n).trans (hold n hn).2.2.1⟩
  have hnextF : ∀ n, n < s.nodes.length → n ∉ xs → ∀ l, getNext lk.1 n l = getNext s.nodes n l :=
    fun n hn hnx l => (inv.frame n l hnx).trans ((hold n hn).2.2.2 l)
  have hlenF : lk.1.length = s.nodes.length + 1 := by rw [inv.len]; simp [h0]
  have hikF : ∀ n, n < s.nodes.length → ikey lk.1 n = ikey s.nodes n := fun n hn => ikey_congr (holdF n hn).1
  have hmemNew : ∀ n, n ∈ allNodes (L1 ++ (lk.2, xs ++ [x]) :: L2) ↔
      (n ∈ allNodes (L1 ++ (seg, xs) :: L2) ∨ n = x) := by
    intro n
    rw [allNodes_mid, allNodes_mid]
    simp only [List.mem_append, List.mem_singleton]
    constructor
    · rintro (h1 | (h1 | h1) | h1)
      · exact Or.inl (Or.inl h1)
      · exact Or.inl (Or.inr (Or.inl h1))
      · exact Or.inr h1
      · exact Or.inl (Or.inr (Or.inr h1))
    · rintro ((h1 | h1 | h1) | h1)
      · exact Or.inl h1
      · exact Or.inr (Or.inl (Or.inl h1))
      · exact Or.inr (Or.inr h1)
      · exact Or.inr (Or.inl (Or.inr h1))
  have hxF : keyOf lk.1 x = .item k ∧ levelOf lk.1 x = ht ∧ nextLen lk.1 x = ht + 1 :=
    ⟨(inv.key x).trans hxkey, (inv.lvl x).trans hxlvl, (inv.nlen x).trans hxlen⟩
  refine ⟨⟨?_, ?_, ?_, ?_, ?_, ?_, ?_, ?_, ?_, ?_⟩, hlenF, ikey_of_keyOf hxF.1, hikF⟩
  · -- the store is still an empty skiplist
    apply hr.congr (s' := { s1 with nodes := lk.1 }) (by simp only; rw [hlenF]; omega) _ (by simp only; exact e5)
      (by simp only; exact e7) (by simp only; exact e2) (by simp only; rw [e3]) (by simp only; rw [e3])
      (by simp only; exact e4)
    intro n hn
    have hlt : n < s.nodes.length := hr.lt_length hn
    have hnx : n ∉ xs := by
      intro hm
      have := b.lo n (hxsAll n hm)
      rcases hn with h1 | h1 | h1
      · simp at h1
      · rw [h1] at this; simp [headId] at this
      · rw [h1] at this; simp [tailId] at this
    exact ⟨(holdF n hlt).1, (holdF n hlt).2.1, (holdF n hlt).2.2, hnextF n hlt hnx⟩
  · -- every segment is still consistent
    intro e he
    simp only
    rcases List.mem_append.mp he with h1 | h1
    · -- a segment before
      have hin : e ∈ L1 ++ (seg, xs) :: L2 := List.mem_append_left _ h1
      have hok := b.segok e hin
      have hlt : ∀ y ∈ e.2, y < s.nodes.length := fun y hy => b.hi y (mem_allNodes.mpr ⟨e, hin, hy⟩)
      have hdisj : ∀ y ∈ e.2, y ∉ xs := by
        intro y hy hyx
        have := b.nodup; rw [allNodes_mid] at this
        exact (List.nodup_append.mp this).2.2 y (mem_allNodes.mpr ⟨e, h1, hy⟩) y
          (List.mem_append_left _ hyx) rfl
      have hLL : ∀ l, LL lk.1 e.2 l = LL s.nodes e.2 l := fun l => LL_congr l (fun n hn => (holdF n (hlt n hn)).2.1)
      refine ⟨hok.hlen, hok.tlen, fun l hl => by rw [hLL]; exact hok.ends l hl, fun l hl => ?_⟩
      rw [hLL, path_congr (h := s.nodes) (mk := nomk)]
      · exact hok.paths l hl
      · intro a ha
        have ham := (mem_LL.mp ha).1
        exact ⟨hnextF a (hlt a ham) (hdisj a ham) l, rfl⟩
    · rcases List.mem_cons.mp h1 with h2 | h2
      · -- the segment that received the node
        subst h2
        simp only
        have hLL : ∀ l, LL lk.1 (xs ++ [x]) l = LL h0 (xs ++ [x]) l := fun l => LL_congr l (fun n _ => inv.lvl n)
        exact ⟨inv.hlen, inv.tlen, fun l hl => by rw [hLL]; exact inv.ends l hl,
          fun l hl => by rw [hLL]; exact inv.paths l hl⟩
      · -- a segment after
        have hin : e ∈ L1 ++ (seg, xs) :: L2 := List.mem_append_right _ (List.mem_cons_of_mem _ h2)
        have hok := b.segok e hin
        have hlt : ∀ y ∈ e.2, y < s.nodes.length := fun y hy => b.hi y (mem_allNodes.mpr ⟨e, hin, hy⟩)
        have hdisj : ∀ y ∈ e.2, y ∉ xs := by
          intro y hy hyx
          have := b.nodup; rw [allNodes_mid] at this
          have h3 := (List.nodup_append.mp this).2.1
          exact (List.nodup_append.mp h3).2.2 y hyx y (mem_allNodes.mpr ⟨e, h2, hy⟩) rfl
        have hLL : ∀ l, LL lk.1 e.2 l = LL s.nodes e.2 l := fun l => LL_congr l (fun n hn => (holdF n (hlt n hn)).2.1)
        refine ⟨hok.hlen, hok.tlen, fun l hl => by rw [hLL]; exact hok.ends l hl, fun l hl => ?_⟩
        rw [hLL, path_congr (h := s.nodes) (mk := nomk)]
        · exact hok.paths l hl
        · intro a ha
          have ham := (mem_LL.mp ha).1
          exact ⟨hnextF a (hlt a ham) (hdisj a ham) l, rfl⟩
  · -- all nodes distinct
    have hn0 := b.nodup
    rw [allNodes_mid] at hn0 ⊢
    have a1 := List.nodup_append.mp hn0
    have a2 := List.nodup_append.mp a1.2.1
    simp only
    rw [List.nodup_append]
    refine ⟨a1.1, ?_, ?_⟩
    · rw [List.nodup_append]
      refine ⟨hndx, a2.2.1, ?_⟩
      intro a ha c hc
      rcases List.mem_append.mp ha with h1 | h1
      · exact a2.2.2 a h1 c hc
      · simp at h1; subst h1
        intro e
        exact hxnot c (by rw [allNodes_mid]; exact List.mem_append_right _ (List.mem_append_right _ hc)) e.symm
    · intro a ha c hc
      rcases List.mem_append.mp hc with h1 | h1
      · rcases List.mem_append.mp h1 with h2 | h2
        · exact a1.2.2 a ha c (List.mem_append_left _ h2)
        · simp at h2; subst h2
          intro e
          exact hxnot a (by rw [allNodes_mid]; exact List.mem_append_left _ ha) e
      · exact a1.2.2 a ha c (List.mem_append_right _ h1)
  · intro y hy
    rcases (hmemNew y).mp hy with h1 | h1
    · exact b.lo y h1
    · rw [h1]; exact hx3
  · intro y hy
    simp only; rw [hlenF]
    rcases (hmemNew y).mp hy with h1 | h1
    · have := b.hi y h1; omega
    · rw [h1]; omega
  · intro y hy
    simp only
    rcases (hmemNew y).mp hy with h1 | h1
    · rw [(holdF y (b.hi y h1)).2.2, (holdF y (b.hi y h1)).2.1]; exact b.slots y h1
    · rw [h1, hxF.2.2, hxF.2.1]
  · intro y hy
    simp only
    rcases (hmemNew y).mp hy with h1 | h1
    · rw [(holdF y (b.hi y h1)).1, hikF y (b.hi y h1)]; exact b.keys y h1
    · rw [h1, hxF.1, ikey_of_keyOf hxF.1]
  · intro y hy
    simp only
    rcases (hmemNew y).mp hy with h1 | h1
    · rw [(holdF y (b.hi y h1)).2.1]; have := b.lvls y h1; omega
    · rw [h1, hxF.2.1]; exact e8
  · simp only
    rw [hlenF, allNodes_mid]
    have := b.size
    rw [allNodes_mid] at this
    simp at this ⊢
    omega
  · intro e he
    simp only
    have hcase : e = (lk.2, xs ++ [x]) ∨ (e ∈ L1 ++ (seg, xs) :: L2 ∧ e ≠ (seg, xs) ∨ e ∈ L1 ∨ e ∈ L2) := by
      rcases List.mem_append.mp he with h1 | h1
      · exact Or.inr (Or.inr (Or.inl h1))
      · rcases List.mem_cons.mp h1 with h2 | h2
        · exact Or.inl h2
        · exact Or.inr (Or.inr (Or.inr h2))
    rcases hcase with h1 | h1
    · subst h1
      simp only
      have hst := b.stats _ hmem
      have hstsF' : lk.2.sts = sts' := hstsF
      refine ⟨?_, ?_, ?_, ?_, ?_⟩
      · rw [hstsF', hsts]; simp only; rw [length_addAt]; exact hst.len
      · intro g hg
        rw [hstsF', hsts]; simp only
        rw [getD_addAt _ _ _ _ (by rw [hst.len]; omega), hst.dist g hg, cntLevel_append,
          cntLevel_congr g (fun n hn => (holdF n (hxsLt n hn)).2.1)]
        have hcx : cntLevel lk.1 [x] g = if ht = g then 1 else 0 := by
          rw [cntLevel_cons, hxF.2.1]; simp [cntLevel]
        rw [hcx]
        by_cases hgh : ht = g
        · simp [hgh]
        · simp [hgh]
      · rw [hstsF', hsts]; exact hst.soft
      · rw [hstsF', hsts]; exact hst.frees
      · rw [hstsF', hsts]; simp only; rw [hst.allocs]; simp
    · have hin : e ∈ L1 ++ (seg, xs) :: L2 := by
        rcases h1 with h1 | h1 | h1
        · exact h1.1
        · exact List.mem_append_left _ h1
        · exact List.mem_append_right _ (List.mem_cons_of_mem _ h1)
      have hst := b.stats e hin
      have hlt : ∀ y ∈ e.2, y < s.nodes.length := fun y hy => b.hi y (mem_allNodes.mpr ⟨e, hin, hy⟩)
      exact ⟨hst.len, fun g hg => by
        rw [cntLevel_congr g (fun n hn => (holdF n (hlt n hn)).2.1)]; exact hst.dist g hg,
        hst.soft, hst.frees, hst.allocs⟩

end NitroVerif.SkipSeq
