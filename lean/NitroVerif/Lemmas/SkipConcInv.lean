import NitroVerif.Lemmas.SkipConcHeap
/-!
  The invariant of the M5 model: heap part `HInv` (closure, H5 at level 0, H4, …) and thread-local part `TInv`
  (every id held in a thread's locals is a published node, `key prev < item`, the recorded marked word at
  HELP_DELETE, top-down marking at SOFT_MARK, `key preds[0] < item < key succs[0]` at INS_PUBLISH), and the
  preservation of `HInv` by the three kinds of writes (unmarked overwrite, mark, publish).
-/
namespace NitroVerif.SkipConc

/-- heap invariant -/
structure HInv (h : Heap) : Prop where
  len : 2 ≤ h.length
  headKey : keyOf h 0 = .neg
  tailKey : keyOf h 1 = .pos
  /-- every other node carries a user item -/
  finKey : ∀ n, 2 ≤ n → n < h.length → ∃ k, keyOf h n = .fin k
  /-- the tail has no successor words (`tail.next[i] = nil`) -/
  tailNoWord : ∀ l, word? h 1 l = none
  /-- every node but the tail has a level-0 word -/
  word0 : ∀ n, n < h.length → n ≠ 1 → (word? h n 0).isSome
  /-- the head is a full-height node -/
  headHeight : heightOf h 0 = Gen.maxLevel
  /-- every node but the tail has all words up to its height -/
  full : ∀ n l, n < h.length → n ≠ 1 → l ≤ heightOf h n → (word? h n l).isSome
  /-- a node linked at level `l` has that level (or is the tail) -/
  hl : ∀ n l p m, word? h n l = some (p, m) → p = 1 ∨ (word? h p l).isSome
  /-- words exist only up to the node's height -/
  wordLevel : ∀ n l w, word? h n l = some w → l ≤ heightOf h n
  /-- successors are published nodes -/
  closed : ∀ n l p m, word? h n l = some (p, m) → p < h.length
  /-- H5 (forward), level 0: the successor has a strictly larger key -/
  h5 : ∀ n p m, word? h n 0 = some (p, m) → Key.lt (keyOf h n) (keyOf h p)
  /-- H4: marking is top-down -/
  h4 : ∀ n l l' p p' m, word? h n l = some (p, true) → l ≤ l' → word? h n l' = some (p', m) → m = true

theorem HInv.lt_of_word {h : Heap} (H : HInv h) {n l p : Nat} {m : Bool} (hw : word? h n l = some (p, m)) :
    p < h.length := H.closed n l p m hw

/-- `getNext` returns a published node -/
theorem HInv.getNext_lt {h : Heap} (H : HInv h) (n l : Nat) : (getNext h n l).1 < h.length := by
  unfold getNext
  cases hw : word? h n l with
  | none => simp; have := H.len; omega
  | some w => obtain ⟨p, m⟩ := w; simp; exact H.lt_of_word hw

/-! ### the three kinds of writes preserve `HInv` -/

/-- overwrite of an unmarked word by an unmarked word (unlink, publish link, upper link, the node's own dcas) -/
theorem HInv.setUnmarked {h : Heap} (H : HInv h) {n l e p : Nat} (hw : word? h n l = some (e, false))
    (hp : p < h.length) (hk : l = 0 → Key.lt (keyOf h n) (keyOf h p))
    (hpl : p = 1 ∨ (word? h p l).isSome) :
    HInv (setWord h n l (p, false)) where
  len := by rw [length_setWord]; exact H.len
  headKey := by rw [keyOf_setWord]; exact H.headKey
  tailKey := by rw [keyOf_setWord]; exact H.tailKey
  headHeight := by rw [heightOf_setWord]; exact H.headHeight
  full n' l' hl1 hn1 hle := by
    rw [length_setWord] at hl1
    rw [heightOf_setWord] at hle
    rw [(Ext.setWord hw (p, false)).dom n' l' hl1]
    exact H.full n' l' hl1 hn1 hle
  hl n' l' q m hw' := by
    have hex : ∀ a b, (word? (setWord h n l (p, false)) a b).isSome = (word? h a b).isSome := by
      intro a b
      rw [word?_setWord]
      split
      · rename_i hc; obtain ⟨rfl, rfl, hs⟩ := hc; simp [hs]
      · rfl
    rw [hex]
    rw [word?_setWord] at hw'
    by_cases hc : n' = n ∧ l' = l ∧ (word? h n l).isSome
    · rw [if_pos hc] at hw'; simp at hw'; obtain ⟨rfl, rfl⟩ := hw'
      obtain ⟨_, rfl, _⟩ := hc; exact hpl
    · rw [if_neg hc] at hw'; exact H.hl _ _ _ _ hw'
  finKey n' h2 hl := by rw [keyOf_setWord]; rw [length_setWord] at hl; exact H.finKey n' h2 hl
  tailNoWord l' := by
    rw [word?_setWord]
    by_cases hc : 1 = n ∧ l' = l ∧ (word? h n l).isSome
    · obtain ⟨rfl, rfl, _⟩ := hc; rw [H.tailNoWord] at hw; simp at hw
    · rw [if_neg hc]; exact H.tailNoWord l'
  word0 n' hl hn1 := by
    rw [length_setWord] at hl
    rw [word?_setWord]
    split
    · rfl
    · exact H.word0 n' hl hn1
  wordLevel n' l' w hw' := by
    rw [heightOf_setWord]
    rw [word?_setWord] at hw'
    by_cases hc : n' = n ∧ l' = l ∧ (word? h n l).isSome
    · obtain ⟨rfl, rfl, _⟩ := hc; exact H.wordLevel _ _ _ hw
    · rw [if_neg hc] at hw'; exact H.wordLevel _ _ _ hw'
  closed n' l' q m hw' := by
    rw [length_setWord]
    rw [word?_setWord] at hw'
    by_cases hc : n' = n ∧ l' = l ∧ (word? h n l).isSome
    · rw [if_pos hc] at hw'; simp at hw'; obtain ⟨rfl, rfl⟩ := hw'; exact hp
    · rw [if_neg hc] at hw'; exact H.closed _ _ _ _ hw'
  h5 n' q m hw' := by
    rw [keyOf_setWord, keyOf_setWord]
    rw [word?_setWord] at hw'
    by_cases hc : n' = n ∧ 0 = l ∧ (word? h n l).isSome
    · rw [if_pos hc] at hw'; simp at hw'; obtain ⟨rfl, rfl⟩ := hw'
      obtain ⟨rfl, hl, _⟩ := hc; exact hk hl.symm
    · rw [if_neg hc] at hw'; exact H.h5 _ _ _ hw'
  h4 n' l1 l2 q q' m hw1 hle hw2 := by
    rw [word?_setWord] at hw1 hw2
    by_cases hc1 : n' = n ∧ l1 = l ∧ (word? h n l).isSome
    · rw [if_pos hc1] at hw1; simp at hw1
    · rw [if_neg hc1] at hw1
      by_cases hc2 : n' = n ∧ l2 = l ∧ (word? h n l).isSome
      · obtain ⟨rfl, rfl, _⟩ := hc2
        have := H.h4 _ _ _ _ _ _ hw1 hle hw; simp at this
      · rw [if_neg hc2] at hw2; exact H.h4 _ _ _ _ _ _ hw1 hle hw2

/-- the mark CAS of softDelete at level `l`, all higher words being marked already -/
theorem HInv.setMark {h : Heap} (H : HInv h) {n l e : Nat} (hw : word? h n l = some (e, false))
    (hup : ∀ l' p m, l < l' → word? h n l' = some (p, m) → m = true) :
    HInv (setWord h n l (e, true)) where
  len := by rw [length_setWord]; exact H.len
  headKey := by rw [keyOf_setWord]; exact H.headKey
  tailKey := by rw [keyOf_setWord]; exact H.tailKey
  headHeight := by rw [heightOf_setWord]; exact H.headHeight
  full n' l' hl1 hn1 hle := by
    rw [length_setWord] at hl1
    rw [heightOf_setWord] at hle
    rw [(Ext.setWord hw (e, true)).dom n' l' hl1]
    exact H.full n' l' hl1 hn1 hle
  hl n' l' q m hw' := by
    have hex : ∀ a b, (word? (setWord h n l (e, true)) a b).isSome = (word? h a b).isSome := by
      intro a b
      rw [word?_setWord]
      split
      · rename_i hc; obtain ⟨rfl, rfl, hs⟩ := hc; simp [hs]
      · rfl
    rw [hex]
    rw [word?_setWord] at hw'
    by_cases hc : n' = n ∧ l' = l ∧ (word? h n l).isSome
    · rw [if_pos hc] at hw'; simp at hw'; obtain ⟨rfl, rfl⟩ := hw'
      obtain ⟨rfl, rfl, _⟩ := hc; exact H.hl _ _ _ _ hw
    · rw [if_neg hc] at hw'; exact H.hl _ _ _ _ hw'
  finKey n' h2 hl := by rw [keyOf_setWord]; rw [length_setWord] at hl; exact H.finKey n' h2 hl
  tailNoWord l' := by
    rw [word?_setWord]
    by_cases hc : 1 = n ∧ l' = l ∧ (word? h n l).isSome
    · obtain ⟨rfl, rfl, _⟩ := hc; rw [H.tailNoWord] at hw; simp at hw
    · rw [if_neg hc]; exact H.tailNoWord l'
  word0 n' hl hn1 := by
    rw [length_setWord] at hl
    rw [word?_setWord]
    split
    · rfl
    · exact H.word0 n' hl hn1
  wordLevel n' l' w hw' := by
    rw [heightOf_setWord]
    rw [word?_setWord] at hw'
    by_cases hc : n' = n ∧ l' = l ∧ (word? h n l).isSome
    · obtain ⟨rfl, rfl, _⟩ := hc; exact H.wordLevel _ _ _ hw
    · rw [if_neg hc] at hw'; exact H.wordLevel _ _ _ hw'
  closed n' l' q m hw' := by
    rw [length_setWord]
    rw [word?_setWord] at hw'
    by_cases hc : n' = n ∧ l' = l ∧ (word? h n l).isSome
    · rw [if_pos hc] at hw'; simp at hw'; obtain ⟨rfl, rfl⟩ := hw'; exact H.closed _ _ _ _ hw
    · rw [if_neg hc] at hw'; exact H.closed _ _ _ _ hw'
  h5 n' q m hw' := by
    rw [keyOf_setWord, keyOf_setWord]
    rw [word?_setWord] at hw'
    by_cases hc : n' = n ∧ 0 = l ∧ (word? h n l).isSome
    · rw [if_pos hc] at hw'; simp at hw'; obtain ⟨rfl, rfl⟩ := hw'
      obtain ⟨rfl, rfl, _⟩ := hc; exact H.h5 _ _ _ hw
    · rw [if_neg hc] at hw'; exact H.h5 _ _ _ hw'
  h4 n' l1 l2 q q' m hw1 hle hw2 := by
    rw [word?_setWord] at hw1 hw2
    by_cases hc2 : n' = n ∧ l2 = l ∧ (word? h n l).isSome
    · rw [if_pos hc2] at hw2; simp at hw2; exact hw2.2
    · rw [if_neg hc2] at hw2
      by_cases hc1 : n' = n ∧ l1 = l ∧ (word? h n l).isSome
      · obtain ⟨rfl, rfl, hs⟩ := hc1
        have hne : l1 ≠ l2 := by
          intro e; subst e; exact hc2 ⟨rfl, rfl, hs⟩
        exact hup l2 q' m (by omega) hw2
      · rw [if_neg hc1] at hw1; exact H.h4 _ _ _ _ _ _ hw1 hle hw2

/-- a fresh node whose words are unmarked and point to published nodes, the level-0 one to a larger key -/
theorem HInv.append {h : Heap} (H : HInv h) (x : Node) (k : Nat) (hk : x.key = .fin k)
    (hlen : ∀ (l : Nat) w, x.next[l]? = some w → l ≤ x.height)
    (hcl : ∀ (l : Nat) p m, x.next[l]? = some (p, m) → p < h.length ∧ m = false)
    (h0 : ∀ p m, x.next[0]? = some (p, m) → Key.lt (.fin k) (keyOf h p))
    (h00 : (x.next[0]?).isSome)
    (hfull : ∀ l, l ≤ x.height → (x.next[l]?).isSome)
    (hhl : ∀ (l : Nat) p m, x.next[l]? = some (p, m) → p = 1 ∨ (word? h p l).isSome) :
    HInv (h ++ [x]) where
  len := by simp; have := H.len; omega
  headKey := by rw [keyOf_append_lt h x (by have := H.len; omega)]; exact H.headKey
  tailKey := by rw [keyOf_append_lt h x (by have := H.len; omega)]; exact H.tailKey
  headHeight := by rw [heightOf_append_lt h x (by have := H.len; omega)]; exact H.headHeight
  full n l hl1 hn1 hle := by
    by_cases hn : n < h.length
    · rw [word?_append_lt h x hn]; rw [heightOf_append_lt h x hn] at hle; exact H.full n l hn hn1 hle
    · have : n = h.length := by simp at hl1; omega
      subst this; rw [word?_append_new]; rw [heightOf_append_new] at hle; exact hfull l hle
  hl n l p m hw := by
    by_cases hn : n < h.length
    · rw [word?_append_lt h x hn] at hw
      rw [word?_append_lt h x (H.lt_of_word hw)]
      exact H.hl _ _ _ _ hw
    · have hl1 := word?_lt hw
      have : n = h.length := by simp at hl1; omega
      subst this; rw [word?_append_new] at hw
      rw [word?_append_lt h x (hcl _ _ _ hw).1]
      exact hhl _ _ _ hw
  finKey n h2 hl := by
    by_cases hn : n < h.length
    · rw [keyOf_append_lt h x hn]; exact H.finKey n h2 hn
    · have : n = h.length := by simp at hl; omega
      subst this; rw [keyOf_append_new]; exact ⟨k, hk⟩
  tailNoWord l := by rw [word?_append_lt h x (by have := H.len; omega)]; exact H.tailNoWord l
  word0 n hl hn1 := by
    by_cases hn : n < h.length
    · rw [word?_append_lt h x hn]; exact H.word0 n hn hn1
    · have : n = h.length := by simp at hl; omega
      subst this; rw [word?_append_new]; exact h00
  wordLevel n l w hw := by
    by_cases hn : n < h.length
    · rw [word?_append_lt h x hn] at hw; rw [heightOf_append_lt h x hn]; exact H.wordLevel _ _ _ hw
    · have hl := word?_lt hw
      have : n = h.length := by simp at hl; omega
      subst this; rw [word?_append_new] at hw; rw [heightOf_append_new]; exact hlen _ _ hw
  closed n l p m hw := by
    by_cases hn : n < h.length
    · rw [word?_append_lt h x hn] at hw
      have := H.closed _ _ _ _ hw
      simp; omega
    · have hl := word?_lt hw
      have : n = h.length := by simp at hl; omega
      subst this; rw [word?_append_new] at hw
      have := hcl _ _ _ hw
      simp; omega
  h5 n p m hw := by
    by_cases hn : n < h.length
    · rw [word?_append_lt h x hn] at hw
      rw [keyOf_append_lt h x hn, keyOf_append_lt h x (H.lt_of_word hw)]
      exact H.h5 _ _ _ hw
    · have hl := word?_lt hw
      have : n = h.length := by simp at hl; omega
      subst this; rw [word?_append_new] at hw
      rw [keyOf_append_new, keyOf_append_lt h x (hcl _ _ _ hw).1, hk]
      exact h0 _ _ hw
  h4 n l l' p p' m hw1 hle hw2 := by
    by_cases hn : n < h.length
    · rw [word?_append_lt h x hn] at hw1 hw2; exact H.h4 _ _ _ _ _ _ hw1 hle hw2
    · have hl := word?_lt hw1
      have : n = h.length := by simp at hl; omega
      subst this; rw [word?_append_new] at hw1
      have := (hcl _ _ _ hw1).2; simp at this

theorem setWord_append (h : Heap) (x : Node) {n : Nat} (hn : n < h.length) (l : Nat) (w : Nat × Bool) :
    setWord h n l w ++ [x] = setWord (h ++ [x]) n l w := by
  unfold setWord
  apply List.ext_getElem?
  intro i
  by_cases hi : i < h.length
  · rw [List.getElem?_append_left (by simpa using hi)]
    simp [List.getElem?_modify, List.getElem?_append_left hi]
  · have hge : h.length ≤ i := by omega
    rw [List.getElem?_append_right (by simpa using hge)]
    simp [List.getElem?_modify]
    rw [List.getElem?_append_right hge]
    have : ¬ n = i := by omega
    simp [this]

end NitroVerif.SkipConc
