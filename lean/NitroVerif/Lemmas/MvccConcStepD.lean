/-
  The invariant is preserved by `start t del k` and by the steps of `Delete2`:
  DEL_NODE_PHYS, DEL_NODE_FLUSH, DEL_NODE_CAS.
-/
import NitroVerif.Lemmas.MvccConcStepW
import NitroVerif.Lemmas.MvccSimStore

namespace NitroVerif.MvccConc
open NitroVerif
open NitroVerif.Mvcc (Ver isAlive Sorted Chains)

/-- the lookup of `GetNode` finds the alive version of the key -/
theorem lookupN_spec {store : List Node} {cur : Nat} (hs : Sorted (vers store)) (hc : Chains cur (vers store))
    {k v : Nat} {x : Node} (h : lookupN store ⟨k, v, cur, 0⟩ = some x) :
    x ∈ store ∧ x.ver.key = k ∧ x.ver.dead = 0 := by
  have hm := lookupN_mem h
  have h1 : Mvcc.lookup (vers store) ⟨k, v, cur, 0⟩ = some x.ver := by rw [← lookupN_map, h]; rfl
  rw [Mvcc.lookup_eq_aliveOf hs hc] at h1
  have := Mvcc.aliveOf_some h1
  exact ⟨hm, this.2.1, this.2.2⟩

/-! ### a `Delete2` gives its token back -/

theorem inv_release_thr {σ : State} {t tok : Nat} {pc0 : Pc} (h : Inv σ) (ht : σ.threads[t]? = some pc0)
    (htok : pc0.tok = some tok) (hown0 : pcOwn pc0 = []) (hnf : ∀ n tk k, pc0 ≠ Pc.delFlush n tk k)
    (hnp : ∀ n k v b, pc0 ≠ Pc.putInsert n k v b) : Inv (setPc (release σ tok (.thr t)) t .idle) := by
  have hidle : Pc.plain .idle := by simp [Pc.plain]
  refine Inv.mk' (store := σ.store) (unl := σ.unlinked) (cur := σ.currSn) (items := σ.itemsCount)
    (writers := σ.writers) (snaps := σ.snaps) (threads := σ.threads.set t .idle)
    (nextId := σ.nextId) (gcFlag := σ.gcFlag) (gcJobs := σ.gcJobs) (sess := relSess σ.sess tok (.thr t))
    (fs := σ.freeSeq + (readySess (relSess σ.sess tok (.thr t)) σ.freeSeq).length)
    (frJobs := σ.frJobs ++ newFrJobs (readySess (relSess σ.sess tok (.thr t)) σ.freeSeq))
    (iters := σ.iters) (allocd := σ.allocd) (freed := σ.freed) (bad := σ.bad)
    rfl rfl rfl rfl rfl rfl rfl rfl rfl rfl rfl rfl rfl rfl rfl rfl rfl
    (h.store.set_not_put t hidle.not_put) (h.pc.set_plain t hidle) h.garb ?_ ?_ ?_
  · refine h.own.congr ?_ (reserved_set_iff ht hnp hidle.not_put)
    intro n
    rw [← ownC_set_same (pc' := .idle) ht (by rw [hown0]; rfl) n]
    unfold ownC; rw [sessfr_release]
  · have hpre : TokPre (σ.threads.set t .idle) (relSess σ.sess tok (.thr t)) σ.iters σ.freeSeq := by
      refine h.tok.toTokPre.release ?_ (fun t' j it hm => ⟨hm, by simp⟩) h.tok.keys ?_ ?_
      · intro t' pc tk hg htk
        rcases get_set_cases hg with ⟨_, he⟩ | ⟨hne, hg'⟩
        · subst he; simp [Pc.tok] at htk
        · exact ⟨hg', by intro he; injection he with h1; exact hne h1.symm⟩
      · intro i hd hne hc
        cases hd with
        | it t' j => exact hc
        | thr t' =>
          obtain ⟨pc, hpc, htk⟩ := hc
          have hne' : t ≠ t' := fun he => hne (by rw [he])
          exact ⟨pc, by rw [get_set_ne _ hne']; exact hpc, htk⟩
      · rintro i ⟨pc, hpc, htk⟩
        rw [ht] at hpc; injection hpc with h1; subst h1
        rw [htok] at htk; injection htk with h2; exact h2.symm
    exact hpre.cleanup
  · exact (h.prot.sess_mono (fun n => relSess_list_mono σ.sess _ _ n)).set_plain ht hnf hidle.not_phys hidle.not_cas

/-! ### start -/

theorem erase_append_self {h : Holder} {l : List Holder} (hn : h ∉ l) : (l ++ [h]).erase h = l := by
  rw [List.erase_append_right _ hn]; simp

theorem relSess_acqSess {sess : List Sess} {h : Holder} {c : Sess} (hc : sess[sess.length - 1]? = some c)
    (hn : h ∉ c.holders) : relSess (acqSess sess h) (sess.length - 1) h = sess := by
  apply List.ext_getElem?
  intro i
  cases hs : sess[i]? with
  | none =>
    have : sess.length ≤ i := List.getElem?_eq_none_iff.mp hs
    exact List.getElem?_eq_none_iff.mpr (by rw [relSess_length, acqSess_length]; exact this)
  | some s =>
    rw [relSess_get_of _ _ (acqSess_get_of h hs)]
    by_cases he : sess.length - 1 = i
    · subst he
      rw [hc] at hs; injection hs with h1; subst h1
      simp [erase_append_self hn]
    · simp [he]

theorem readySess_nil {sess : List Sess} {fs : Nat} (hfix : ∀ s : Sess, sess[fs]? = some s → s.terminated = false) :
    readySess sess fs = [] := by
  unfold readySess
  cases hd : sess.drop fs with
  | nil => rfl
  | cons s r =>
    have : sess[fs]? = some s := by
      have := List.getElem?_drop (xs := sess) (i := fs) (j := 0)
      rw [hd] at this; simpa using this.symm
    simp [List.takeWhile_cons, hfix s this]

theorem startDel_none_state {σ : State} {t k : Nat} (h : Inv σ) (ht : σ.threads[t]? = some .idle)
    (hl : lookupN σ.store (probe σ k 0) = none) : (startDel σ t k).1 = σ := by
  unfold startDel
  simp only [hl]
  obtain ⟨c, _, hci, _, _⟩ := h.tok.toTokPre.last
  have hn : Holder.thr t ∉ c.holders := by
    intro hm
    obtain ⟨pc, hpc, htk⟩ := (h.tok.conv _ c hci).2 _ hm
    rw [ht] at hpc; injection hpc with h1; subst h1; simp [Pc.tok] at htk
  have hsess : relSess (acqSess σ.sess (.thr t)) (curTok σ) (.thr t) = σ.sess := relSess_acqSess hci hn
  unfold release cleanup
  simp only [acquire_sess', hsess, acquire_freeSeq, acquire_frJobs, readySess_nil h.tok.fix]
  cases σ; simp [newFrJobs, acquire]

theorem inv_startDel {σ : State} {t k : Nat} (h : Inv σ) (ht : σ.threads[t]? = some .idle)
    (hw : t < σ.writers.length) : Inv (startDel σ t k).1 := by
  cases hl : lookupN σ.store (probe σ k 0) with
  | none => rw [startDel_none_state h ht hl]; exact h
  | some x =>
    unfold startDel
    simp only [hl]
    have hidle : Pc.plain .idle := by simp [Pc.plain]
    have hst := h.store
    have ⟨hxm, hxk, hxd⟩ := lookupN_spec hst.sorted hst.chains hl
    have hxid := hst.id_lt x hxm
    have hbound := (hst.chains.1 x.ver (List.mem_map.mpr ⟨x, hxm, rfl⟩)).1
    -- common part for both program counters
    have key : ∀ pc' : Pc, pc'.tok = some (curTok σ) → pcOwn pc' = [] →
        (∀ n k v b, pc' ≠ Pc.putInsert n k v b) →
        (∀ sn a, pc' ≠ Pc.collectSend sn a) →
        ((∃ tk k', pc' = Pc.delPhys x.id tk k') ∨ (∃ tk k', pc' = Pc.delCas x.id tk k')) →
        PcInv (σ.threads.set t pc') σ.writers.length σ.currSn σ.store σ.unlinked σ.nextId σ.gcFlag σ.snaps →
        Inv (setPc (acquire σ (.thr t)) t pc') := by
      intro pc' htok hown' hnp hnc hkind hpcinv
      refine Inv.mk' (store := σ.store) (unl := σ.unlinked) (cur := σ.currSn) (items := σ.itemsCount)
        (writers := σ.writers) (snaps := σ.snaps) (threads := σ.threads.set t pc')
        (nextId := σ.nextId) (gcFlag := σ.gcFlag) (gcJobs := σ.gcJobs) (sess := acqSess σ.sess (.thr t))
        (fs := σ.freeSeq) (frJobs := σ.frJobs) (iters := σ.iters) (allocd := σ.allocd) (freed := σ.freed)
        (bad := σ.bad) rfl rfl rfl rfl rfl rfl rfl rfl rfl rfl rfl rfl rfl rfl rfl rfl rfl
        (h.store.set_not_put t hnp) hpcinv h.garb ?_ ?_ ?_
      · refine h.own.congr ?_ (reserved_set_iff ht hidle.not_put hnp)
        intro n
        rw [← ownC_set_same (pc' := pc') ht (by rw [hown']; rfl) n]
        unfold ownC; rw [sessfr_acquire]
      · refine h.tok.acquire ?_ (fun t' j it hm => Or.inl hm) h.tok.keys ?_ ?_ ?_
        · intro t' pc tk hg htk
          rcases get_set_cases hg with ⟨he1, he2⟩ | ⟨_, hg'⟩
          · subst he2; subst he1
            rw [htok] at htk; injection htk with h1
            exact Or.inr ⟨rfl, h1.symm⟩
          · exact Or.inl hg'
        · intro i hd hc
          cases hd with
          | it t' j => exact hc
          | thr t' =>
            obtain ⟨pc, hpc, htk⟩ := hc
            by_cases hne : t = t'
            · subst hne; rw [ht] at hpc; injection hpc with h1; subst h1; simp [Pc.tok] at htk
            · exact ⟨pc, by rw [get_set_ne _ hne]; exact hpc, htk⟩
        · exact ⟨pc', get_set_self ht, htok⟩
        · rintro i ⟨pc, hpc, htk⟩
          rw [ht] at hpc; injection hpc with h1; subst h1; simp [Pc.tok] at htk
      · have hp0 := h.prot.sess_mono (fun n => acqSess_list_mono σ.sess (.thr t) n)
        have hx : x.id ∈ storeIds σ.store := List.mem_map.mpr ⟨x, hxm, rfl⟩
        have hPm : ∀ m tok, Prot σ.threads σ.store σ.gcJobs (acqSess σ.sess (.thr t)) m tok →
            Prot (σ.threads.set t pc') σ.store σ.gcJobs (acqSess σ.sess (.thr t)) m tok :=
          fun m tok hpr => hpr.threads_mono (fun tk k hm => delFlush_mem_set ht hidle.not_flush hm)
        refine ⟨?_, ?_, fun key it c hm hc => hPm _ _ (hp0.it key it c hm hc)⟩
        · intro t' n tok k' hg
          rcases get_set_cases hg with ⟨_, he⟩ | ⟨_, hg'⟩
          · rcases hkind with ⟨tk, k2, h2⟩ | ⟨tk, k2, h2⟩
            · rw [h2] at he; injection he with h3; subst h3; exact Or.inl hx
            · rw [h2] at he; cases he
          · exact hPm _ _ (hp0.phys t' n tok k' hg')
        · intro t' n tok k' hg
          rcases get_set_cases hg with ⟨_, he⟩ | ⟨_, hg'⟩
          · rcases hkind with ⟨tk, k2, h2⟩ | ⟨tk, k2, h2⟩
            · rw [h2] at he; cases he
            · rw [h2] at he; injection he with h3; subst h3; exact Or.inl hx
          · exact hPm _ _ (hp0.cas t' n tok k' hg')
    -- the thread table part of `PcInv` for a new del pc
    have hpc := h.pc
    have hpcbase : ∀ pc' : Pc, (∀ n k v b, pc' ≠ Pc.putInsert n k v b) → (∀ sn a, pc' ≠ Pc.collectSend sn a) →
        (∀ n tk k', pc' ≠ Pc.delFlush n tk k') →
        (∀ n tok k', pc' = Pc.delPhys n tok k' → n < σ.nextId ∧ ¬ reserved σ.threads n ∧
            ∀ y ∈ σ.store, y.id = n → y.ver.key = k' ∧ y.ver.born = σ.currSn) →
        (∀ n tok k', pc' = Pc.delCas n tok k' → n < σ.nextId ∧ ¬ reserved σ.threads n ∧
            (∀ y ∈ σ.store, y.id = n → y.ver.key = k' ∧ y.ver.born < σ.currSn) ∧
            (∀ y ∈ σ.unlinked, y.id = n → y.ver.dead ≠ 0)) →
        PcInv (σ.threads.set t pc') σ.writers.length σ.currSn σ.store σ.unlinked σ.nextId σ.gcFlag σ.snaps := by
      intro pc' hnp hnc hnfl hph hcs
      have hnr : ∀ n, reserved (σ.threads.set t pc') n → reserved σ.threads n :=
        fun n hn => reserved_set_of_not_put hnp hn
      refine ⟨by rw [List.length_set]; exact hpc.len, ?_, ?_, ?_, ?_, ?_, ?_⟩
      · intro t' n k' v' b hg
        rcases get_set_cases hg with ⟨_, he⟩ | ⟨_, hg'⟩
        · exact absurd he.symm (hnp n k' v' b)
        · exact hpc.put t' n k' v' b hg'
      · intro t' n tok k' hg
        rcases get_set_cases hg with ⟨he1, he⟩ | ⟨_, hg'⟩
        · have := hph n tok k' he.symm
          exact ⟨he1 ▸ hw, this.1, fun hn => this.2.1 (hnr n hn), this.2.2⟩
        · have := hpc.phys t' n tok k' hg'
          exact ⟨this.1, this.2.1, fun hn => this.2.2.1 (hnr n hn), this.2.2.2⟩
      · intro t' n tok k' hg
        rcases get_set_cases hg with ⟨he1, he⟩ | ⟨_, hg'⟩
        · have := hcs n tok k' he.symm
          exact ⟨he1 ▸ hw, this.1, fun hn => this.2.1 (hnr n hn), this.2.2⟩
        · have := hpc.cas t' n tok k' hg'
          exact ⟨this.1, this.2.1, fun hn => this.2.2.1 (hnr n hn), this.2.2.2⟩
      · intro t' n tok k' hg
        rcases get_set_cases hg with ⟨_, he⟩ | ⟨_, hg'⟩
        · exact absurd he.symm (hnfl n tok k')
        · exact hpc.fl t' n tok k' hg'
      · intro t' sn a hg
        rcases get_set_cases hg with ⟨_, he⟩ | ⟨_, hg'⟩
        · exact absurd he.symm (hnc sn a)
        · exact hpc.coll t' sn a hg'
      · intro t1 t2 s1 a1 s2 a2 h1 h2
        rcases get_set_cases h1 with ⟨_, he⟩ | ⟨_, h1'⟩
        · exact absurd he.symm (hnc s1 a1)
        · rcases get_set_cases h2 with ⟨_, he⟩ | ⟨_, h2'⟩
          · exact absurd he.symm (hnc s2 a2)
          · exact hpc.excl t1 t2 s1 a1 s2 a2 h1' h2'
    have huniq : ∀ y ∈ σ.store, y.id = x.id → y = x := fun y hy he => id_unique hst.ids hy hxm he
    split
    · -- same epoch
      rename_i hse
      have hborn : x.ver.born = σ.currSn := (Mvcc.sameEpoch_iff _ _).mp hse
      refine key _ rfl rfl (by intros; simp) (by intros; simp) (Or.inl ⟨_, _, rfl⟩) ?_
      refine hpcbase _ (by intros; simp) (by intros; simp) (by intros; simp) ?_ (by intros _ _ _ he; cases he)
      intro n tok k' he
      injection he with h1 h2 h3; subst h1; subst h3
      exact ⟨hxid.1, hxid.2, fun y hy hyid => by rw [huniq y hy hyid]; exact ⟨hxk, hborn⟩⟩
    · rename_i hse
      have hborn : x.ver.born ≠ σ.currSn := fun he => hse ((Mvcc.sameEpoch_iff _ _).mpr he)
      refine key _ rfl rfl (by intros; simp) (by intros; simp) (Or.inr ⟨_, _, rfl⟩) ?_
      refine hpcbase _ (by intros; simp) (by intros; simp) (by intros; simp) (by intros _ _ _ he; cases he) ?_
      intro n tok k' he
      injection he with h1 h2 h3; subst h1; subst h3
      refine ⟨hxid.1, hxid.2, fun y hy hyid => by rw [huniq y hy hyid]; exact ⟨hxk, by omega⟩, ?_⟩
      intro y hy hyid
      exfalso
      exact (hst.unl y hy).1 (hyid ▸ List.mem_map.mpr ⟨x, hxm, rfl⟩)

end NitroVerif.MvccConc
