import NitroVerif.Lemmas.SkipConcSearch
/-!
  Index levels of M5, part 1: reachability along the level-`l` successor words (`ReachL`, marks ignored), the
  predicates the level invariant is made of, and how reachability behaves under each kind of heap write.

  * `OnChain h l n`: `n` is reachable from the head along level-`l` words.
  * `unmarkedAt h l n`: `n` has an unmarked word at level `l`.
  * `Unlinked h n l`: no word of a level `≥ l` points to `n` (the node has not been linked at level `l` or above).
  * `Lk h c j`: at every level `1 ≤ l ≤ j` at which `c` is unmarked, `c` is on the chain (what a search knows about a
    node it has read from a level-`j` word).
-/
namespace NitroVerif.SkipConc
open NitroVerif

/-- reachability along level-`l` successor words (marks ignored) -/
inductive ReachL (h : Heap) (l : Nat) : Nat → Nat → Prop
  | refl (a : Nat) : ReachL h l a a
  | step {a b c : Nat} {m : Bool} : word? h a l = some (b, m) → ReachL h l b c → ReachL h l a c

theorem ReachL.trans {h : Heap} {l a b c : Nat} (r1 : ReachL h l a b) (r2 : ReachL h l b c) : ReachL h l a c := by
  induction r1 with
  | refl => exact r2
  | step hw _ ih => exact .step hw (ih r2)

theorem ReachL.single {h : Heap} {l a b : Nat} {m : Bool} (hw : word? h a l = some (b, m)) : ReachL h l a b :=
  .step hw (.refl b)

theorem ReachL.snoc {h : Heap} {l a b c : Nat} {m : Bool} (r : ReachL h l a b) (hw : word? h b l = some (c, m)) :
    ReachL h l a c := r.trans (.single hw)

/-- the successor word is a function, so two nodes reachable from one node are comparable -/
theorem ReachL.det {h : Heap} {l a b c : Nat} (r1 : ReachL h l a b) (r2 : ReachL h l a c) :
    ReachL h l b c ∨ ReachL h l c b := by
  induction r1 with
  | refl => exact .inl r2
  | step hw r ih =>
    cases r2 with
    | refl => exact .inr (.step hw r)
    | step hw' r' =>
      rw [hw] at hw'; simp at hw'
      obtain ⟨rfl, _⟩ := hw'
      exact ih r'

/-- edge simulation -/
theorem ReachL.mono {h h' : Heap} {l : Nat} (he : ∀ a b m, word? h a l = some (b, m) → ReachL h' l a b) {a c : Nat}
    (r : ReachL h l a c) : ReachL h' l a c := by
  induction r with
  | refl => exact .refl _
  | step hw _ ih => exact (he _ _ _ hw).trans ih

/-- the last edge of a non-trivial path -/
theorem ReachL.last {h : Heap} {l a c : Nat} (r : ReachL h l a c) : a = c ∨ ∃ b m, word? h b l = some (c, m) := by
  induction r with
  | refl => exact .inl rfl
  | @step a b c m hw _ ih =>
    rcases ih with e | ih
    · subst e; exact .inr ⟨a, m, hw⟩
    · exact .inr ih

/-- level 0 is the `Reach` of the level-0 core -/
theorem reachL_zero_iff {h : Heap} {a b : Nat} : ReachL h 0 a b ↔ Reach h a b := by
  constructor
  · intro r
    induction r with
    | refl => exact .refl _
    | step hw _ ih => exact .step hw ih
  · intro r
    induction r with
    | refl => exact .refl _
    | step hw _ ih => exact .step hw ih

def OnChain (h : Heap) (l n : Nat) : Prop := ReachL h l 0 n

def unmarkedAt (h : Heap) (l n : Nat) : Prop := ∃ p, word? h n l = some (p, false)

def markedAt (h : Heap) (l n : Nat) : Prop := ∃ p, word? h n l = some (p, true)

/-- no word of a level `≥ l` points to `n` -/
def Unlinked (h : Heap) (n l : Nat) : Prop := ∀ a l' q m, l ≤ l' → word? h a l' = some (q, m) → q ≠ n

/-- at every upper level `≤ j` at which `c` is unmarked, `c` is on the chain -/
def Lk (h : Heap) (c j : Nat) : Prop := ∀ l, 1 ≤ l → l ≤ j → unmarkedAt h l c → OnChain h l c

theorem Lk.mono {h : Heap} {c j j' : Nat} (k : Lk h c j) (hj : j' ≤ j) : Lk h c j' :=
  fun l h1 h2 hu => k l h1 (Nat.le_trans h2 hj) hu

theorem Lk_head (h : Heap) (j : Nat) : Lk h 0 j := fun _ _ _ _ => .refl _

theorem Lk_tail {h : Heap} (H : HInv h) (j : Nat) : Lk h 1 j := by
  intro l _ _ hu
  obtain ⟨p, hp⟩ := hu
  rw [H.tailNoWord] at hp; simp at hp

/-- the invariant of the index levels (heap part) -/
structure LvInv (h : Heap) : Prop where
  /-- the tail is reachable from the head on every level -/
  tail : ∀ l, 1 ≤ l → l ≤ Gen.maxLevel → ReachL h l 0 1
  /-- keys strictly increase along the chain of every level -/
  sorted : ∀ l n p m, 1 ≤ l → OnChain h l n → word? h n l = some (p, m) → Key.lt (keyOf h n) (keyOf h p)
  /-- a node that is unmarked at a level is on the chain of that level, or has never been linked there or above -/
  chain : ∀ l n, 1 ≤ l → unmarkedAt h l n → OnChain h l n ∨ Unlinked h n l

/-- a node some word of level `l'` points to is on the chain of every level `≤ l'` at which it is unmarked -/
theorem LvInv.pointed {h : Heap} (L : LvInv h) {a l' c : Nat} {m : Bool} (hw : word? h a l' = some (c, m)) :
    Lk h c l' := by
  intro l h1 h2 hu
  rcases L.chain l c h1 hu with r | u
  · exact r
  · exact absurd rfl (u a l' c m h2 hw)

theorem LvInv.getNext_Lk {h : Heap} (L : LvInv h) (n l : Nat) : Lk h (getNext h n l).1 l := by
  unfold getNext
  cases hw : word? h n l with
  | none => exact Lk_head h l
  | some w => obtain ⟨p, m⟩ := w; exact L.pointed hw

/-- a node on a chain other than the head has a word of that level pointing to it -/
theorem OnChain.pointed {h : Heap} {l n : Nat} (r : OnChain h l n) (hn : n ≠ 0) :
    ∃ b m, word? h b l = some (n, m) := by
  rcases ReachL.last r with e | e
  · exact absurd e.symm hn
  · exact e

theorem Unlinked.not_onChain {h : Heap} {n l : Nat} (u : Unlinked h n l) (hn : n ≠ 0) : ¬ OnChain h l n := by
  intro r
  obtain ⟨b, m, hw⟩ := r.pointed hn
  exact u b l n m (Nat.le_refl _) hw rfl

/-- strict ascent along the chain -/
theorem LvInv.key {h : Heap} (L : LvInv h) {l a b : Nat} (hl : 1 ≤ l) (ha : OnChain h l a) (r : ReachL h l a b) :
    a = b ∨ Key.lt (keyOf h a) (keyOf h b) := by
  induction r with
  | refl => exact .inl rfl
  | step hw _ ih =>
    have h1 := L.sorted _ _ _ _ hl ha hw
    rcases ih (ReachL.snoc ha hw) with rfl | h2
    · exact .inr h1
    · exact .inr (Key.lt_trans h1 h2)

/-! ### reachability under writes -/

/-- if the successor part of every level-`l` word is the same, reachability is the same -/
theorem ReachL.congr {h h' : Heap} {l : Nat}
    (he : ∀ a, (word? h' a l).map (·.1) = (word? h a l).map (·.1)) {a c : Nat} (r : ReachL h l a c) :
    ReachL h' l a c := by
  refine r.mono (fun a b m hab => ?_)
  have := he a
  rw [hab] at this
  cases hw : word? h' a l with
  | none => rw [hw] at this; simp at this
  | some w =>
    obtain ⟨q, m'⟩ := w
    rw [hw] at this; simp at this
    subst this
    exact .single hw

theorem word?_setWord_level {h : Heap} {n l : Nat} (w : Nat × Bool) {l0 : Nat} (hne : l0 ≠ l) (a : Nat) :
    word? (setWord h n l w) a l0 = word? h a l0 := by
  rw [word?_setWord]
  have : ¬ (a = n ∧ l0 = l ∧ (word? h n l).isSome) := fun c => hne c.2.1
  rw [if_neg this]

theorem word?_setWord_same {h : Heap} {n l e : Nat} {m : Bool} (hw : word? h n l = some (e, m)) (w : Nat × Bool)
    (a : Nat) : word? (setWord h n l w) a l = if a = n then some w else word? h a l := by
  rw [word?_setWord]
  simp [hw]

/-- a write at another level does not change level-`l0` reachability -/
theorem reachL_setWord_level {h : Heap} {n l : Nat} (w : Nat × Bool) {l0 : Nat} (hne : l0 ≠ l) {a c : Nat} :
    ReachL (setWord h n l w) l0 a c ↔ ReachL h l0 a c := by
  constructor
  · exact ReachL.congr (fun a => by rw [word?_setWord_level w hne])
  · exact ReachL.congr (fun a => by rw [word?_setWord_level w hne])

/-- a write that keeps the successor (a mark) does not change reachability -/
theorem reachL_setWord_mark {h : Heap} {n l e : Nat} {m m' : Bool} (hw : word? h n l = some (e, m)) {l0 a c : Nat} :
    ReachL (setWord h n l (e, m')) l0 a c ↔ ReachL h l0 a c := by
  by_cases hne : l0 = l
  · subst hne
    constructor
    · refine ReachL.congr (fun a => ?_)
      rw [word?_setWord_same hw]
      by_cases ha : a = n
      · subst ha; simp [hw]
      · simp [ha]
    · refine ReachL.congr (fun a => ?_)
      rw [word?_setWord_same hw]
      by_cases ha : a = n
      · subst ha; simp [hw]
      · simp [ha]
  · exact reachL_setWord_level _ hne

/-- unlink, forward: every node but the unlinked one stays reachable -/
theorem unlink_reachL {h : Heap} {l prev curr next : Nat} (hp : word? h prev l = some (curr, false))
    (hc : word? h curr l = some (next, true)) {a n : Nat} (r : ReachL h l a n) (hn : n ≠ curr) :
    ReachL (setWord h prev l (next, false)) l a n := by
  have hne : curr ≠ prev := by
    intro e; rw [e, hp] at hc; simp at hc
  induction r with
  | refl => exact .refl _
  | @step a b c m hw r ih =>
    have ih := ih hn
    by_cases ha : a = prev
    · subst ha
      rw [hp] at hw; simp at hw
      obtain ⟨rfl, _⟩ := hw
      cases ih with
      | refl => exact absurd rfl hn
      | step hw' r' =>
        rw [word?_setWord_same hp, if_neg hne, hc] at hw'
        simp at hw'
        obtain ⟨rfl, _⟩ := hw'
        exact .step (m := false) (by rw [word?_setWord_same hp]; simp) r'
    · exact .step (by rw [word?_setWord_same hp, if_neg ha]; exact hw) ih

/-- unlink, backward: what is reachable afterwards was reachable before -/
theorem unlink_reachL_back {h : Heap} {l prev curr next : Nat} (hp : word? h prev l = some (curr, false))
    (hc : word? h curr l = some (next, true)) {a n : Nat} (r : ReachL (setWord h prev l (next, false)) l a n) :
    ReachL h l a n := by
  refine r.mono (fun a b m hab => ?_)
  rw [word?_setWord_same hp] at hab
  by_cases ha : a = prev
  · subst ha; simp at hab
    rw [← hab.1]
    exact .step hp (.single hc)
  · rw [if_neg ha] at hab; exact .single hab

/-- link, forward -/
theorem link_reachL {h : Heap} {l pred x next : Nat} {m0 m : Bool} (hp : word? h pred l = some (next, m0))
    (hx : word? h x l = some (next, m)) (hne : x ≠ pred) {a c : Nat} (r : ReachL h l a c) :
    ReachL (setWord h pred l (x, false)) l a c := by
  refine r.mono (fun a b m' hab => ?_)
  by_cases ha : a = pred
  · subst ha
    rw [hp] at hab; simp at hab
    rw [← hab.1]
    exact .step (b := x) (m := false) (by rw [word?_setWord_same hp]; simp)
      (.single (by rw [word?_setWord_same hp, if_neg hne]; exact hx))
  · exact .single (by rw [word?_setWord_same hp, if_neg ha]; exact hab)

/-- link, backward: a node reachable afterwards was reachable before, or it is the linked node -/
theorem link_reachL_back {h : Heap} {l pred x next : Nat} {m0 m : Bool} (hp : word? h pred l = some (next, m0))
    (hx : word? h x l = some (next, m)) (hne : x ≠ pred) {a c : Nat}
    (r : ReachL (setWord h pred l (x, false)) l a c) :
    ReachL h l a c ∨ (ReachL h l a pred ∧ c = x) := by
  induction r with
  | refl => exact .inl (.refl _)
  | @step a b c m' hw r ih =>
    rw [word?_setWord_same hp] at hw
    by_cases ha : a = pred
    · subst ha
      simp at hw
      obtain ⟨rfl, _⟩ := hw
      rcases ih with r1 | ⟨_, e⟩
      · cases r1 with
        | refl => exact .inr ⟨.refl _, rfl⟩
        | step hw1 r2 =>
          rw [hx] at hw1; simp at hw1
          obtain ⟨rfl, _⟩ := hw1
          exact .inl (.step hp r2)
      · exact .inr ⟨.refl _, e⟩
    · rw [if_neg ha] at hw
      rcases ih with r1 | ⟨r1, e⟩
      · exact .inl (.step hw r1)
      · exact .inr ⟨.step hw r1, e⟩

/-- a write to a node that is not reachable from `a0` does not change what is reachable from `a0` -/
theorem reachL_off {h h' : Heap} {l x a0 : Nat} (he : ∀ a, a ≠ x → word? h' a l = word? h a l)
    (hx : ¬ ReachL h l a0 x) {c : Nat} : ReachL h' l a0 c ↔ ReachL h l a0 c := by
  constructor
  · intro r
    have key : ∀ a c, ReachL h' l a c → ReachL h l a0 a → ReachL h l a c := by
      intro a c r
      induction r with
      | refl => intro _; exact .refl _
      | @step a b c m hw _ ih =>
        intro ha
        have hax : a ≠ x := by intro e; subst e; exact hx ha
        rw [he a hax] at hw
        exact .step hw (ih (ha.snoc hw))
    exact key a0 c r (.refl _)
  · intro r
    have key : ∀ a c, ReachL h l a c → ReachL h l a0 a → ReachL h' l a c := by
      intro a c r
      induction r with
      | refl => intro _; exact .refl _
      | @step a b c m hw _ ih =>
        intro ha
        have hax : a ≠ x := by intro e; subst e; exact hx ha
        exact .step (by rw [he a hax]; exact hw) (ih (ha.snoc hw))
    exact key a0 c r (.refl _)

/-- growing the heap by a node nobody points to does not change what is reachable from an old node -/
theorem reachL_grow {h h' : Heap} {l : Nat} (he : ∀ a, a < h.length → word? h' a l = word? h a l)
    (hcl : ∀ a q m, word? h a l = some (q, m) → q < h.length) {a c : Nat} (ha : a < h.length) :
    ReachL h' l a c ↔ ReachL h l a c := by
  constructor
  · intro r
    induction r with
    | refl => exact .refl _
    | @step a b c m hw _ ih =>
      rw [he a ha] at hw
      exact .step hw (ih (hcl _ _ _ hw))
  · intro r
    induction r with
    | refl => exact .refl _
    | @step a b c m hw _ ih =>
      exact .step (by rw [he a ha]; exact hw) (ih (hcl _ _ _ hw))

end NitroVerif.SkipConc
