import NitroVerif.Lemmas.BarrierAbsM4
/-!
  Forward simulation, per action: every action of a thread of M4 in a state satisfying `Inv` is, for the
  abstraction `absOf`, the abstract action `absAct` names (or a stutter) — unless it is a late grant
  (`lateGrant`), which adds a holder to the closed session `cur - 1` (`exec_lateGrant`).
-/
namespace NitroVerif.Barrier
open NitroVerif NitroVerif.AbsBarrier
set_option linter.unusedSimpArgs false
set_option linter.unusedVariables false

set_option hygiene false in
/-- a stutter step that leaves `cur`, `tagged`, `freeSeqno`, `log` alone -/
macro "abs_stutter" : tactic => `(tactic|
  (simp only [Sim, absAct, hpc]
   exact absOf_same rfl ht rfl rfl rfl rfl (by intro s; simp [heldT, hpc]) (by simp [hpc])))

theorem execStart_sim {st st1 : St} {i : Nat} {t t' : Th} {op : Op} (h : Inv st)
    (ht : st.ths[i]? = some t) (he : execStart st t op = some (st1, t')) :
    Sim st t (.start op) (setT st1 i t') := by
  unfold execStart at he
  split at he
  · rename_i hpc
    split at he
    · simp at he; obtain ⟨rfl, rfl⟩ := he
      simp only [Sim, absAct]
      exact absOf_same rfl ht rfl rfl rfl rfl (by intro s; simp [heldT, hpc]) (by simp [hpc])
    · split at he
      · rename_i s hj
        simp at he; obtain ⟨rfl, rfl⟩ := he
        simp only [Sim, absAct]
        refine absOf_same rfl ht rfl rfl rfl rfl ?_ (by simp [hpc])
        intro x
        have := count_eraseIdx t.toks _ s x hj
        simp only [heldT, hpc]
        by_cases e : s = x <;> simp [e] at this ⊢ <;> omega
      · simp at he
    · simp at he; obtain ⟨rfl, rfl⟩ := he
      simp only [Sim, absAct]
      exact absOf_same rfl ht rfl rfl rfl rfl (by intro s; simp [heldT, hpc]) (by simp [hpc])
  · simp at he

theorem execStale_sim {st st1 : St} {i : Nat} {t t' : Th} (h : Inv st)
    (ht : st.ths[i]? = some t) (he : execStale st t = some (st1, t')) :
    Sim st t .stale (setT st1 i t') := by
  unfold execStale at he
  split at he
  · rename_i k hpc
    simp at he; obtain ⟨rfl, rfl⟩ := he
    simp only [Sim, absAct]
    exact absOf_same rfl ht rfl rfl rfl rfl (by intro s; simp [heldT, hpc]) (by simp [hpc])
  · simp at he

theorem execStep_sim {fixed : Bool} {st st1 : St} {i : Nat} {t t' : Th} (h : Inv st)
    (ht : st.ths[i]? = some t) (he : execStep fixed st t = some (st1, t'))
    (hlate : lateGrant st t .step = false) : Sim st t .step (setT st1 i t') := by
  unfold execStep at he
  split at he
  · simp at he
  · rename_i hpc
    simp at he; obtain ⟨rfl, rfl⟩ := he
    abs_stutter
  · rename_i s hpc
    simp only [] at he
    split at he
    · simp at he
    · rename_i hreg
      split at he
      · rename_i hb
        simp at he; obtain ⟨rfl, rfl⟩ := he
        have hg : grants st s = false := by simp [grants, hb]
        simp only [Sim, absAct, hpc, hg]
        exact absOf_same rfl ht rfl rfl rfl rfl (by intro x; simp [heldT, hpc]) (by simp [hpc])
      · rename_i hb
        simp at he; obtain ⟨rfl, rfl⟩ := he
        have hg : grants st s = true := by
          simp only [grants]; simp only [Bool.not_eq_true] at hreg hb; simp [hreg, hb]
        have hs : s = st.cur := by
          simp only [lateGrant, hpc, hg] at hlate
          simpa using hlate
        subst hs
        simp only [Sim, absAct, hpc, hg, if_true, AbsBarrier.step]
        rw [absOf_grant ht hpc]
  · rename_i s k hpc
    simp only [] at he
    cases k with
    | retRel =>
      simp only [Sim, absAct, hpc]
      split at he
      · simp at he; obtain ⟨rfl, rfl⟩ := he
        exact absOf_rel h rfl ht hpc rfl rfl rfl rfl rfl (by intro x; simp) (by simp)
      · rename_i hv
        split at he
        · rename_i hp
          exact (leaf_relDec_nopanic h ht hpc hv hp).elim
        · simp at he; obtain ⟨rfl, rfl⟩ := he
          exact absOf_rel h rfl ht hpc rfl rfl rfl rfl rfl (by intro x; simp) (by simp)
    | retAcq =>
      split at he
      · simp at he; obtain ⟨rfl, rfl⟩ := he; abs_stutter
      · rename_i hv
        split at he
        · rename_i hp
          exact (leaf_relDec_nopanic h ht hpc hv hp).elim
        · simp at he; obtain ⟨rfl, rfl⟩ := he; abs_stutter
    | retFlush =>
      split at he
      · simp at he; obtain ⟨rfl, rfl⟩ := he; abs_stutter
      · rename_i hv
        split at he
        · rename_i hp
          exact (leaf_relDec_nopanic h ht hpc hv hp).elim
        · simp at he; obtain ⟨rfl, rfl⟩ := he; abs_stutter
  · rename_i s k hpc
    simp only [] at he
    split at he
    · simp at he; obtain ⟨rfl, rfl⟩ := he; abs_stutter
    · simp at he; obtain ⟨rfl, rfl⟩ := he; abs_stutter
  · rename_i s k hpc
    obtain ⟨q, hq, _⟩ := leaf_relInsert (i := i) h ht hpc
    rw [hq] at he
    simp at he; obtain ⟨rfl, rfl⟩ := he; abs_stutter
  · rename_i k hpc
    split at he
    · simp at he; obtain ⟨rfl, rfl⟩ := he; abs_stutter
    · simp at he; obtain ⟨rfl, rfl⟩ := he; abs_stutter
  · rename_i b k hpc
    split at he
    · simp at he; obtain ⟨rfl, rfl⟩ := he; abs_stutter
    · simp at he; obtain ⟨rfl, rfl⟩ := he; abs_stutter
  · rename_i s k hpc
    simp at he; obtain ⟨rfl, rfl⟩ := he
    simp only [Sim, absAct, hpc]
    exact absOf_proc h ht hpc
  · rename_i k hpc
    simp at he; obtain ⟨rfl, rfl⟩ := he
    cases fixed <;> abs_stutter
  · rename_i k hpc
    split at he
    · simp at he; obtain ⟨rfl, rfl⟩ := he; abs_stutter
    · simp at he; obtain ⟨rfl, rfl⟩ := he; abs_stutter
  · rename_i obj hpc
    split at he
    · simp at he
    · simp at he; obtain ⟨rfl, rfl⟩ := he; abs_stutter
  · rename_i obj hpc
    simp at he; obtain ⟨rfl, rfl⟩ := he
    simp only [Sim, absAct, hpc, AbsBarrier.step]
    rw [absOf_swap h ht hpc]
  · rename_i s obj hpc
    simp at he; obtain ⟨rfl, rfl⟩ := he
    simp only [Sim, absAct, hpc]
    exact absOf_tag h ht hpc
  · rename_i s hpc
    simp at he; obtain ⟨rfl, rfl⟩ := he; abs_stutter
  · rename_i hpc
    simp at he; obtain ⟨rfl, rfl⟩ := he; abs_stutter

theorem exec_sim {fixed : Bool} {st st1 : St} {i : Nat} {t t' : Th} {a : Barrier.Act} (h : Inv st)
    (ht : st.ths[i]? = some t) (he : exec fixed st t a = some (st1, t'))
    (hlate : lateGrant st t a = false) : Sim st t a (setT st1 i t') := by
  cases a with
  | start op => exact execStart_sim h ht he
  | step => exact execStep_sim h ht he hlate
  | stale => exact execStale_sim h ht he

/-- the late grant: the session is `cur - 1`, its flusher is between FL_SWAP and FL_ADD, and the
    abstraction gains a holder in that (abstractly closed) session -/
theorem exec_lateGrant {fixed : Bool} {st st1 : St} {i : Nat} {t t' : Th} {a : Barrier.Act} (h : Inv st)
    (ht : st.ths[i]? = some t) (he : exec fixed st t a = some (st1, t'))
    (hlate : lateGrant st t a = true) :
    ∃ s, t.pc = .acqAdd s ∧ s + 1 = st.cur ∧ cnt (onPc (pcPend s)) st = 1 ∧
      absOf (setT st1 i t') = acqAt (absOf st) s := by
  cases a with
  | start op => simp [lateGrant] at hlate
  | stale => simp [lateGrant] at hlate
  | step =>
    simp only [lateGrant] at hlate
    split at hlate
    · rename_i s hpc
      simp only [Bool.and_eq_true, decide_eq_true_eq] at hlate
      obtain ⟨hg, hne⟩ := hlate
      simp only [grants, Bool.and_eq_true, Bool.not_eq_true'] at hg
      simp only [exec, execStep, hpc, hg.1, hg.2] at he
      simp at he; obtain ⟨rfl, rfl⟩ := he
      have hs0 : s < st.sess.length := ref_lt h ht s (by simp [barsimp, hpc])
      have hb := hg.2
      have hb' : ¬ Gen.acquireBackoff ((getS st s).live + 1) = true := by simp [hb]
      rw [acquireBackoff_iff, off_val] at hb'
      have hc0 := h.count s hs0
      have hle := b2n_le (getS st s).flushed
      have hnf : b2n (getS st s).flushed = 0 := by omega
      have hp := (h.pend s hs0).2 hne
      have hpc' := h.pendcur s
      refine ⟨s, hpc, by omega, by omega, ?_⟩
      exact absOf_grant_any ht hpc
    · simp at hlate

end NitroVerif.Barrier
