import NitroVerif.Lemmas.SkipConcLevelsSys
/-!
  Index levels of M5, part 9: the invariant `InvL` of the whole system and its preservation along every run.
-/
namespace NitroVerif.SkipConc
open NitroVerif

/-- the invariant of the whole system, index levels included -/
structure InvL (s : Sys) : Prop where
  base : InvR s
  /-- the configuration: the code of /repo as it is now -/
  fixed : s.sh.fixedSucc = true
  lv : LvInv s.sh.heap
  threads : ∀ (t : Nat) (th : Thread), s.threads[t]? = some th → TL s.sh.heap s.sh.level th
  /-- two threads never link the same node into the index levels -/
  uniq : ∀ (t t' : Nat) (th th' : Thread) (x : Nat), t ≠ t' → s.threads[t]? = some th → s.threads[t']? = some th' →
    insNode th.pc = some x → insNode th'.pc ≠ some x

theorem getElem?_set_cases {α : Type} {l : List α} {i j : Nat} {a b : α} (h : (l.set i a)[j]? = some b) :
    (i = j ∧ b = a) ∨ (i ≠ j ∧ l[j]? = some b) := by
  rw [List.getElem?_set] at h
  split at h
  · rename_i e
    split at h
    · simp at h; exact .inl ⟨e, h.symm⟩
    · simp at h
  · rename_i e; exact .inr ⟨e, h⟩

theorem LvInv_init : LvInv initHeap where
  tail l _ h2 := .single (m := false) (by rw [word?_init_head]; simp [tailId]; omega)
  sorted l n p m _ _ hw := by
    obtain ⟨rfl, _, rfl, _⟩ := word?_init hw
    simp [keyOf, initHeap, Key.lt]
  chain l n _ hu := by
    obtain ⟨p, hp⟩ := hu
    obtain ⟨rfl, _⟩ := word?_init hp
    exact .inl (.refl _)

theorem TL_fresh (h : Heap) (lv : Nat) : TL h lv {} := by
  have hz : ∀ i, (List.replicate (Gen.maxLevel + 1) 0).getD i 0 = 0 := by
    intro i; simp [List.getD, List.getElem?_replicate]; split <;> simp
  refine ⟨⟨by simp, by simp, fun j => ?_⟩, trivial⟩
  show Lk h ((List.replicate (Gen.maxLevel + 1) 0).getD j 0) j ∧ Lk h ((List.replicate (Gen.maxLevel + 1) 0).getD j 0) j
  rw [hz]; exact ⟨Lk_head _ _, Lk_head _ _⟩

theorem InvL_init (n : Nat) : InvL (Sys.init n) where
  base := InvR_init n
  fixed := rfl
  lv := LvInv_init
  threads t th hth := by
    simp only [Sys.init, Sys.initWith, List.getElem?_replicate] at hth
    split at hth
    · simp at hth; rw [← hth]; exact TL_fresh _ _
    · simp at hth
  uniq t t' th th' x _ hth _ hx := by
    simp only [Sys.init, Sys.initWith, List.getElem?_replicate] at hth
    split at hth
    · simp at hth; rw [← hth] at hx; simp [insNode] at hx
    · simp at hth

theorem start_invL {s : Sys} (hI : InvL s) (t : Nat) (op : Op) : InvL (s.start t op).1 := by
  have hR' := act_invR hI.base (.start t op)
  simp only [Sys.act] at hR'
  cases hth : s.threads[t]? with
  | none => rw [Sys.start_none hth]; exact hI
  | some th =>
    cases hidle : isIdle th.pc with
    | false => rw [Sys.start_busy hth hidle]; exact hI
    | true =>
      have hid := (isIdle_iff _).mp hidle
      rw [Sys.start_idle hth hidle] at hR' ⊢
      refine ⟨hR', ?_, ?_, ?_, ?_⟩
      · simp only [startOp_fixed]; exact hI.fixed
      · simp only [startOp_heap]; exact hI.lv
      · intro t2 th2 h2
        simp only [startOp_heap, startOp_level] at h2 ⊢
        rcases getElem?_set_cases h2 with ⟨_, rfl⟩ | ⟨_, h3⟩
        · exact startOp_tl op (hI.threads t th hth) hid
        · exact hI.threads t2 th2 h3
      · intro a b tha thb x hab ha hb hx
        simp only [] at ha hb
        rcases getElem?_set_cases ha with ⟨_, rfl⟩ | ⟨hta, ha'⟩
        · rw [insNode_startOp _ _ _ hid] at hx; simp at hx
        · rcases getElem?_set_cases hb with ⟨_, rfl⟩ | ⟨htb, hb'⟩
          · rw [insNode_startOp _ _ _ hid]; simp
          · exact hI.uniq a b tha thb x hab ha' hb' hx

theorem step_invL {s : Sys} (hI : InvL s) (t : Nat) : InvL (s.step t).1 := by
  have hR' := act_invR hI.base (.step t)
  simp only [Sys.act] at hR'
  cases hth : s.threads[t]? with
  | none => rw [Sys.step_none hth]; exact hI
  | some th =>
    by_cases hidle : th.pc = .idle
    · rw [Sys.step_idle hth hidle]; exact hI
    · have hInv := hI.base.1
      have hTof : ∀ t2 th2, s.threads[t2]? = some th2 → TInv s.sh.heap th2 := fun t2 th2 h2 =>
        hInv.2 th2 (List.mem_of_getElem? h2)
      have hT := hTof t th hth
      have hL := hI.threads t th hth
      have hgood := stepThread_good hInv.1 hInv.3 hT
      have hlevel := (stepThread_level hInv.3 hT).2
      obtain ⟨ev, hst, hev, hnew⟩ := stepThread_goodL hInv.1 hI.base.2 hI.lv hI.fixed hT hL
      rw [Sys.step_busy hth hidle] at hR' ⊢
      refine ⟨hR', ?_, hst.lvInv hInv.1 hI.lv, ?_, ?_⟩
      · simp only [stepThread_fixed]; exact hI.fixed
      · intro t2 th2 h2
        simp only [] at h2 ⊢
        rcases getElem?_set_cases h2 with ⟨_, rfl⟩ | ⟨hne, h3⟩
        · exact hnew
        · refine (hI.threads t2 th2 h3).keep hInv.1 hgood.2.1 hst hlevel (hTof t2 th2 h3) ?_
          intro x c
          exact hI.uniq t t2 th th2 x hne hth h3 (hev.insNode c)
      · intro a b tha thb x hab ha hb hx
        simp only [] at ha hb
        rcases getElem?_set_cases ha with ⟨hta, rfl⟩ | ⟨hta, ha'⟩
        · rcases getElem?_set_cases hb with ⟨htb, _⟩ | ⟨htb, hb'⟩
          · exact absurd (hta.symm.trans htb) hab
          · rcases insNode_stepThread hx with h1 | h1
            · exact hI.uniq t b th thb x htb hth hb' h1
            · intro c
              have := insNode_lt (hTof b thb hb') c
              omega
        · rcases getElem?_set_cases hb with ⟨htb, rfl⟩ | ⟨htb, hb'⟩
          · intro c
            rcases insNode_stepThread c with h1 | h1
            · exact hI.uniq a t tha th x hta.symm ha' hth hx h1
            · have := insNode_lt (hTof a tha ha') hx
              omega
          · exact hI.uniq a b tha thb x hab ha' hb' hx

theorem act_invL {s : Sys} (hI : InvL s) (a : Action) : InvL (s.act a) := by
  cases a with
  | start t op => exact start_invL hI t op
  | step t => exact step_invL hI t

/-- along every run of any number of threads the invariant of the index levels holds -/
theorem run_invL {s : Sys} (hI : InvL s) (as : List Action) : InvL (s.run as) := by
  induction as generalizing s with
  | nil => exact hI
  | cons a r ih => exact ih (act_invL hI a)

end NitroVerif.SkipConc
