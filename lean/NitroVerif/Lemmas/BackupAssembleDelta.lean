import NitroVerif.Lemmas.BackupDelta
import NitroVerif.Lemmas.BackupAssembleRep
import NitroVerif.Lemmas.SkipSeqSpec
/-!
  The delta part of `LoadFromDisk` seen from both models: M7 inserts a delta item with the level-0
  walk `insertAux` (`Insert2` on restored items); M3 runs `Insert2` on the pointer heap, which C13
  shows to behave as `OrdSet.insert` guarded by `member`.  When the byte comparison of the loading
  instance agrees with the integer key of M3 on the items at hand (`KeyAgreesOn`), the two coincide item by item.
-/
namespace NitroVerif.Backup
open NitroVerif NitroVerif.Codec NitroVerif.OrdSet NitroVerif.SkipSeq

/-- on the items that satisfy `P` (the items at hand: the decoded data and delta items) the key
    comparison `keyCmp` of the loading instance is the comparison of the integer keys `key`.
    (Relative to `P` on purpose: `bytes.Compare` on ALL byte strings does not embed into the integers,
    on fixed-width keys it does.) -/
structure KeyAgreesOn (keyCmp : Bytes → Bytes → Int) (key : Bytes → Int) (P : Bytes → Prop) : Prop where
  lt : ∀ a b, P a → P b → (keyCmp a b < 0 ↔ key a < key b)
  eq : ∀ a b, P a → P b → (keyCmp a b = 0 ↔ key a = key b)

theorem predEq_false_of_key {keyCmp : Bytes → Bytes → Int} {key : Bytes → Int} {P : Bytes → Prop}
    (ka : KeyAgreesOn keyCmp key P) {x : Bytes} (hx : P x) {pred : Option Bytes}
    (hp : ∀ p, pred = some p → P p ∧ key p < key x) :
    predEq keyCmp x pred = false := by
  cases pred with
  | none => rfl
  | some p =>
    rw [predEq_some]
    have h1 := hp p rfl
    have h2 := ka.eq x p hx h1.1
    simp; omega

/-- the level-0 walk of M7 against `OrdSet`: a present key is rejected, an absent one is linked at
    the place `OrdSet.insert` puts it -/
theorem insertAux_key {keyCmp : Bytes → Bytes → Int} {key : Bytes → Int} {P : Bytes → Prop}
    (ka : KeyAgreesOn keyCmp key P) (x : Bytes) (hx : P x) : ∀ (l : List Bytes) (pred : Option Bytes),
    (∀ y ∈ l, P y) → Asc (l.map key) → (∀ p, pred = some p → P p ∧ key p < key x) →
    (key x ∈ l.map key → insertAux keyCmp x pred l = none) ∧
    (key x ∉ l.map key → ∃ l', insertAux keyCmp x pred l = some l' ∧
        l'.map key = OrdSet.insert (key x) (l.map key) ∧ ∀ y ∈ l', P y) := by
  intro l
  induction l with
  | nil =>
    intro pred _ _ hp
    refine ⟨by simp, fun _ => ⟨[x], ?_, by simp [OrdSet.insert], by simpa using hx⟩⟩
    rw [insertAux_nil, predEq_false_of_key ka hx hp]; rfl
  | cons c r ih =>
    intro pred hP hasc hp
    have hc : P c := hP c (by simp)
    have hPr : ∀ y ∈ r, P y := fun y hy => hP y (List.mem_cons_of_mem _ hy)
    have hasc' := List.pairwise_cons.mp (show ((key c) :: r.map key).Pairwise (· < ·) from hasc)
    rw [insertAux_cons]
    by_cases h1 : keyCmp c x < 0
    · have hlt : key c < key x := (ka.lt c x hc hx).mp h1
      rw [if_pos h1]
      rcases ih (some c) hPr hasc'.2 (fun p hp' => by cases hp'; exact ⟨hc, hlt⟩) with ⟨i1, i2⟩
      constructor
      · intro hm
        have : key x ∈ r.map key := by
          rw [List.map_cons] at hm
          rcases List.mem_cons.mp hm with e | e
          · omega
          · exact e
        rw [i1 this]; rfl
      · intro hm
        have hnr : key x ∉ r.map key := fun h => hm (by simp only [List.map_cons]; exact List.mem_cons_of_mem _ h)
        rcases i2 hnr with ⟨l', e1, e2, e3⟩
        refine ⟨c :: l', by rw [e1]; rfl, ?_, ?_⟩
        · simp only [List.map_cons, OrdSet.insert, e2]
          rw [if_neg (by omega), if_neg (by omega)]
        · intro y hy
          rcases List.mem_cons.mp hy with e | e
          · rw [e]; exact hc
          · exact e3 y e
    · rw [if_neg h1]
      by_cases h2 : keyCmp c x = 0
      · have he : key c = key x := (ka.eq c x hc hx).mp h2
        rw [if_pos h2]
        exact ⟨fun _ => rfl, fun hm => absurd (by simp [he]) hm⟩
      · have hgt : key x < key c := by
          have := ka.lt c x hc hx; have := ka.eq c x hc hx; omega
        rw [if_neg h2, predEq_false_of_key ka hx hp]
        constructor
        · intro hm
          exfalso
          rw [List.map_cons] at hm
          rcases List.mem_cons.mp hm with e | e
          · omega
          · have := hasc'.1 (key x) e; omega
        · intro _
          refine ⟨x :: c :: r, rfl, ?_, ?_⟩
          · simp only [List.map_cons, OrdSet.insert]
            rw [if_pos hgt]
          · intro y hy
            rcases List.mem_cons.mp hy with e | e
            · rw [e]; exact hx
            · exact hP y e

theorem insert_length_of_not_mem : ∀ (k : Int) (s : List Int), k ∉ s →
    (OrdSet.insert k s).length = s.length + 1 := by
  intro k s
  induction s with
  | nil => intro _; rfl
  | cons y r ih =>
    intro hk
    have hky : k ≠ y := fun e => hk (by simp [e])
    have hkr : k ∉ r := fun e => hk (List.mem_cons_of_mem _ e)
    unfold OrdSet.insert
    by_cases h1 : k < y
    · simp [h1]
    · simp [h1, hky, ih hkr]

/-- one delta item: M7's `deltaInsert` is the `ins` step of the ordered-set specification -/
theorem deltaInsert_key {keyCmp : Bytes → Bytes → Int} {key : Bytes → Int} {P : Bytes → Prop}
    (ka : KeyAgreesOn keyCmp key P) (l : List Bytes) (hP : ∀ y ∈ l, P y) (hasc : Asc (l.map key))
    (x : Bytes) (hx : P x) :
    (deltaInsert keyCmp l x).map key
      = (if member (key x) (l.map key) then l.map key else OrdSet.insert (key x) (l.map key)) ∧
    Asc ((deltaInsert keyCmp l x).map key) ∧ (∀ y ∈ deltaInsert keyCmp l x, P y) ∧
    (deltaInsert keyCmp l x).length = (if member (key x) (l.map key) then l.length else l.length + 1) := by
  rcases insertAux_key ka x hx l none hP hasc (fun p hp => by cases hp) with ⟨i1, i2⟩
  unfold deltaInsert
  by_cases hm : key x ∈ l.map key
  · rw [i1 hm, if_pos ((member_iff _ _).mpr hm), if_pos ((member_iff _ _).mpr hm)]
    exact ⟨rfl, hasc, hP, rfl⟩
  · rcases i2 hm with ⟨l', e1, e2, e3⟩
    have hnm : ¬ member (key x) (l.map key) = true := fun h => hm ((member_iff _ _).mp h)
    rw [e1, if_neg hnm, if_neg hnm]
    refine ⟨e2, by rw [e2]; exact insert_asc hasc, e3, ?_⟩
    have hl : (l'.map key).length = (OrdSet.insert (key x) (l.map key)).length := by rw [e2]
    rw [insert_length_of_not_mem _ _ hm] at hl
    simpa using hl

/-- the `Insert` calls that apply the delta items `ds`, one call per item, any level requests -/
inductive DeltaOps (key : Bytes → Int) : List Bytes → List Op → Prop
  | nil : DeltaOps key [] []
  | cons (x : Bytes) (lvl : Nat) {ds : List Bytes} {ops : List Op} :
      DeltaOps key ds ops → DeltaOps key (x :: ds) (Op.ins (key x) lvl :: ops)

/-- the whole delta: M7's `insertAll` is the specification run of the `Insert` calls, which leaves the
    handle table alone; a call succeeds iff the key was not there -/
theorem insertAll_key {keyCmp : Bytes → Bytes → Int} {key : Bytes → Int} {P : Bytes → Prop}
    (ka : KeyAgreesOn keyCmp key P) {ds : List Bytes} {ops : List Op} (hd : DeltaOps key ds ops) :
    ∀ (base : List Bytes) (hs : List (String × Int × Bool)), (∀ y ∈ base, P y) → (∀ y ∈ ds, P y) →
    Asc (base.map key) →
    (specRun { set := base.map key, handles := hs } ops).1
      = { set := (insertAll keyCmp base ds).map key, handles := hs } ∧
    Asc ((insertAll keyCmp base ds).map key) := by
  induction hd with
  | nil => intro base hs _ _ hasc; exact ⟨rfl, hasc⟩
  | cons x lvl _ ih =>
    intro base hs hPb hPd hasc
    rcases deltaInsert_key ka base hPb hasc x (hPd x (by simp)) with ⟨e1, e2, e3, _⟩
    have := ih (deltaInsert keyCmp base x) hs e3 (fun y hy => hPd y (List.mem_cons_of_mem _ hy)) e2
    simp only [insertAll, List.foldl_cons] at this ⊢
    simp only [specRun, specStep]
    by_cases hm : member (key x) (base.map key) = true
    · rw [if_pos hm] at e1 ⊢
      simp only
      rw [← e1]; exact this
    · rw [if_neg hm] at e1 ⊢
      simp only
      rw [← e1]; exact this

end NitroVerif.Backup

namespace NitroVerif.SkipSeq
open NitroVerif NitroVerif.OrdSet

theorem run_append : ∀ (a b : List Op) (st : St),
    run st (a ++ b) = ((run (run st a).1 b).1, (run st a).2 ++ (run (run st a).1 b).2) := by
  intro a
  induction a with
  | nil => intro b st; simp [run]
  | cons op a ih => intro b st; simp only [List.cons_append, run, ih]

theorem specRun_append : ∀ (a b : List Op) (sp : SpecSt),
    specRun sp (a ++ b) = ((specRun (specRun sp a).1 b).1, (specRun sp a).2 ++ (specRun (specRun sp a).1 b).2) := by
  intro a
  induction a with
  | nil => intro b sp; simp [specRun]
  | cons op a ih => intro b sp; simp only [List.cons_append, specRun, ih]

/-- a quiescent well-formed list with content `L` is simulated by the ordered set of its keys -/
theorem sim_of_rep {s : SL} {L : List Nat} (hr : Rep s L) :
    Sim { sl := s, handles := [] } { set := L.map (ikey s.nodes), handles := [] } L :=
  ⟨hr, rfl, by simp [HRel]⟩

/-- what can be observed of a quiescent list that satisfies the representation invariant with content
    `L` carrying the keys `ks`: a full scan leaves it as it is and yields `ks`, it is well-formed, the
    node count is `ks.length`, every later script behaves as the ordered set that starts from `ks` -/
theorem rep_observables {s : SL} {L : List Nat} (hr : Rep s L) {ks : List Int}
    (hk : L.map (ikey s.nodes) = ks) :
    (scanAll s).1 = s ∧ (scanAll s).2.map (keyOf s.nodes) = ks.map Key.item ∧ WF s ∧
    nodeCount s = (ks.length : Int) ∧
    ∀ later : List Op, (run { sl := s, handles := [] } later).2
      = (specRun { set := ks, handles := [] } later).2 := by
  refine ⟨by rw [scanAll_spec hr], ?_, hr.wf, ?_, ?_⟩
  · rw [scanAll_spec hr, keys_map hr, hk]
  · rw [hr.count, ← hk]; simp
  · intro later
    have := (run_sim later _ _ _ (sim_of_rep hr)).1
    rw [hk] at this
    exact this

end NitroVerif.SkipSeq
