import NitroVerif.Model.SkipFree
import NitroVerif.Lemmas.SkipConcLinStep
/-!
  M5F (`Model/SkipFree.lean`): the barrier bookkeeping.  `pool s` = the freed nodes followed by the nodes attached to
  the sessions not yet destructed; the barrier operations leave it alone (`FlushSession(n)` appends `n`).
-/
namespace NitroVerif.SkipFree
open NitroVerif NitroVerif.SkipConc

/-- freed nodes and nodes waiting in a session -/
def pool (s : Sys) : List Nat := s.freed ++ attached (s.sess.drop s.freeSeq)

/-- the current session is open, carries nothing, and is not destructed -/
def Last (s : Sys) : Prop :=
  ∃ ini la, s.sess = ini ++ [la] ∧ la.flushed = false ∧ la.list = [] ∧ s.freeSeq ≤ ini.length

theorem attached_append (a b : List Sess) : attached (a ++ b) = attached a ++ attached b := by
  simp [attached]

theorem attached_drop_modify {f : Sess → Sess} (hf : ∀ x, (f x).list = x.list) :
    ∀ (l : List Sess) (i k : Nat), attached ((l.modify i f).drop k) = attached (l.drop k) := by
  intro l
  induction l with
  | nil => intro i k; simp
  | cons x xs ih =>
    intro i k
    cases i with
    | zero =>
      cases k with
      | zero => simp [attached, hf]
      | succ k => simp
    | succ i =>
      cases k with
      | zero =>
        have := ih i 0
        simp only [List.drop_zero] at this
        simp only [List.modify_succ_cons, List.drop_zero]
        simp only [attached, List.flatMap_cons] at this ⊢
        rw [this]
      | succ k => simpa using ih i k

theorem drop_len_takeWhile (p : Sess → Bool) : ∀ d : List Sess, d.drop (d.takeWhile p).length = d.dropWhile p := by
  intro d
  induction d with
  | nil => rfl
  | cons x xs ih =>
    by_cases hx : p x = true
    · simp [List.takeWhile_cons, List.dropWhile_cons, hx, ih]
    · simp [List.takeWhile_cons, List.dropWhile_cons, hx]

theorem takeWhile_snoc_len (p : Sess → Bool) (x : Sess) (hx : p x = false) :
    ∀ a : List Sess, ((a ++ [x]).takeWhile p).length ≤ a.length := by
  intro a
  induction a with
  | nil => simp [List.takeWhile_cons, hx]
  | cons y ys ih =>
    by_cases hy : p y = true
    · simp only [List.cons_append, List.takeWhile_cons, hy, if_true, List.length_cons]; omega
    · simp [List.takeWhile_cons, hy]

theorem pool_cleanup (s : Sys) : pool (cleanup s) = pool s := by
  simp only [pool, cleanup, readySess]
  rw [← List.drop_drop, drop_len_takeWhile, List.append_assoc, ← attached_append, List.takeWhile_append_dropWhile]

theorem Last_cleanup {s : Sys} (h : Last s) : Last (cleanup s) := by
  obtain ⟨ini, la, hs, hf, hl, hle⟩ := h
  refine ⟨ini, la, hs, hf, hl, ?_⟩
  simp only [cleanup, readySess, hs]
  rw [List.drop_append_of_le_length hle]
  have h1 := takeWhile_snoc_len Sess.terminated la (by simp [Sess.terminated, hf]) (ini.drop s.freeSeq)
  simp only [List.length_drop] at h1
  omega

theorem modify_snoc {f : Sess → Sess} (hf : ∀ x, (f x).list = x.list ∧ (f x).flushed = x.flushed) :
    ∀ (ini : List Sess) (la : Sess) (i : Nat), ∃ ini' la', (ini ++ [la]).modify i f = ini' ++ [la'] ∧
      ini'.length = ini.length ∧ la'.flushed = la.flushed ∧ la'.list = la.list := by
  intro ini
  induction ini with
  | nil =>
    intro la i
    cases i with
    | zero => exact ⟨[], f la, by simp, rfl, (hf la).2, (hf la).1⟩
    | succ i => exact ⟨[], la, by simp, rfl, rfl, rfl⟩
  | cons x xs ih =>
    intro la i
    cases i with
    | zero => exact ⟨f x :: xs, la, by simp, by simp, rfl, rfl⟩
    | succ i =>
      obtain ⟨ini', la', h1, h2, h3, h4⟩ := ih la i
      exact ⟨x :: ini', la', by simp [h1], by simp [h2], h3, h4⟩

theorem modify_at_length (f : Sess → Sess) : ∀ (ini : List Sess) (la : Sess),
    (ini ++ [la]).modify ini.length f = ini ++ [f la] := by
  intro ini
  induction ini with
  | nil => intro la; simp
  | cons x xs ih => intro la; simp [ih]

/-- a barrier step that touches neither the list, the calls nor the pool -/
structure Bar (s s' : Sys) : Prop where
  base : s'.base = s.base
  calls : s'.calls = s.calls
  last : Last s'
  pool : pool s' = pool s

theorem Bar.refl {s : Sys} (h : Last s) : Bar s s := ⟨rfl, rfl, h, rfl⟩

theorem Bar.trans {a b c : Sys} (h1 : Bar a b) (h2 : Bar b c) : Bar a c :=
  ⟨h2.base.trans h1.base, h2.calls.trans h1.calls, h2.last, h2.pool.trans h1.pool⟩

/-- a change of the holders of one session, followed or not by `cleanup` -/
theorem Bar_modify {s : Sys} (h : Last s) (i : Nat) {f : Sess → Sess}
    (hf : ∀ x, (f x).list = x.list ∧ (f x).flushed = x.flushed) :
    Bar s { s with sess := s.sess.modify i f } := by
  obtain ⟨ini, la, hs, hfl, hl, hle⟩ := h
  refine ⟨rfl, rfl, ?_, ?_⟩
  · obtain ⟨ini', la', h1, h2, h3, h4⟩ := modify_snoc hf ini la i
    exact ⟨ini', la', by simp only [hs, h1], by rw [h3, hfl], by rw [h4, hl], by show s.freeSeq ≤ ini'.length; omega⟩
  · simp only [pool]
    rw [attached_drop_modify (fun x => (hf x).1)]

theorem Bar_cleanup {s : Sys} (h : Last s) : Bar s (cleanup s) :=
  ⟨rfl, rfl, Last_cleanup h, pool_cleanup s⟩

theorem Bar_acquire {s : Sys} (h : Last s) (x : Holder) : Bar s (acquire s x) :=
  Bar_modify h _ (fun _ => ⟨rfl, rfl⟩)

theorem Bar_release {s : Sys} (h : Last s) (tok : Nat) (x : Holder) : Bar s (release s tok x) := by
  have h1 : Bar s { s with sess := relSess s.sess tok x } := Bar_modify h _ (fun _ => ⟨rfl, rfl⟩)
  exact h1.trans (Bar_cleanup h1.last)

theorem Bar_setIterTok {s : Sys} (h : Last s) (t i tok : Nat) : Bar s (setIterTok s t i tok) :=
  ⟨rfl, rfl, h, rfl⟩

theorem Bar_dropIterTok {s : Sys} (h : Last s) (t i : Nat) : Bar s (dropIterTok s t i) :=
  ⟨rfl, rfl, h, rfl⟩

/-- `FlushSession(n)`: `n` joins the pool -/
theorem flush_spec {s : Sys} (h : Last s) (n : Nat) :
    (flush s [n]).base = s.base ∧ (flush s [n]).calls = s.calls ∧ Last (flush s [n]) ∧
      pool (flush s [n]) = pool s ++ [n] := by
  obtain ⟨ini, la, hs, hfl, hl, hle⟩ := h
  have hm : flushSess s.sess [n] = (ini ++ [{ la with flushed := true, list := [n] }]) ++ [({} : Sess)] := by
    simp only [flushSess, hs]
    have : (ini ++ [la]).length - 1 = ini.length := by simp
    rw [this, modify_at_length]
  have hL : Last { s with sess := flushSess s.sess [n] } :=
    ⟨ini ++ [{ la with flushed := true, list := [n] }], {}, hm, rfl, rfl, by simp; omega⟩
  have hb := Bar_cleanup hL
  refine ⟨hb.base, hb.calls, hb.last, ?_⟩
  have : flush s [n] = cleanup { s with sess := flushSess s.sess [n] } := rfl
  rw [this, hb.pool]
  simp only [pool]
  rw [hm, hs, List.append_assoc, List.drop_append_of_le_length hle, List.drop_append_of_le_length hle]
  simp [attached, hl]

end NitroVerif.SkipFree
