import NitroVerif.Lemmas.SkipConcQuietResp
/-!
  Quiescence of M5, part 3: the responsible thread's own segments.  A findPath for the item of a deleted node `d`
  that has not finished level `j` and reaches `d` from its position either stays in that situation, or helps `d`
  out of the chain; it cannot finish level `j` while `d` is still linked there (it would have to stop at an
  unmarked node with a key `≥` the item that lies before `d`).
-/
namespace NitroVerif.SkipConc
open NitroVerif

theorem reachL_tail {h : Heap} (H : HInv h) {l d : Nat} (r : ReachL h l 1 d) : d = 1 := by
  cases r with
  | refl => rfl
  | step hw _ => rw [H.tailNoWord] at hw; simp at hw

/-- findPath after a read, for a search that is responsible for `d` at level `j` -/
theorem afterRead_resp {sh : Shared} {th : Thread} (fp : FP) (H : HInv sh.heap) (R : ReachInv sh.heap)
    (L : LvInv sh.heap) {d j : Nat} (hf : FPInv sh.heap th fp) (hcl : CurrLv sh.heap fp)
    (kc : Lk sh.heap fp.curr fp.i) (hk : keyOf sh.heap d = .fin fp.item) (hj : j ≤ fp.i)
    (rp : ReachL sh.heap j fp.prev d) (rc : j = fp.i → ReachL sh.heap j fp.curr d) (hd : OnChain sh.heap j d)
    (hm : markedAt sh.heap j d) :
    RespPC sh.heap d j
      (afterRead sh th fp (getNext sh.heap fp.curr fp.i).1 (getNext sh.heap fp.curr fp.i).2).2.1.pc := by
  -- an unmarked read of `curr` at level `i`
  have hunm : (getNext sh.heap fp.curr fp.i).2 = false → fp.curr ≠ 1 → unmarkedAt sh.heap fp.i fp.curr := by
    intro hdel hc1
    rcases hcl with e | hs
    · exact absurd e hc1
    · obtain ⟨⟨p, m⟩, hw⟩ := Option.isSome_iff_exists.mp hs
      rw [getNext_of_word hw] at hdel
      simp at hdel; subst hdel
      exact ⟨p, hw⟩
  unfold afterRead
  split
  · exact ⟨hk, hj, rp⟩
  · rename_i hdel
    have hdel' : (getNext sh.heap fp.curr fp.i).2 = false := by simpa using hdel
    simp only []
    split
    · rename_i hadv
      have hklt : Key.lt (keyOf sh.heap fp.curr) (.fin fp.item) :=
        (compare_neg_iff _ _).mp ((findAdvance_iff _).mp hadv)
      have hc1 : fp.curr ≠ 1 := by
        intro e; rw [e, H.tailKey] at hklt; simp [Key.lt] at hklt
      have hu := hunm hdel' hc1
      have hcd : fp.curr ≠ d := by
        intro e; rw [e, hk] at hklt; exact Key.lt_irrefl _ hklt
      refine ⟨hk, hj, ?_, fun _ hji => ?_⟩
      · by_cases hji : j = fp.i
        · exact rc hji
        · exact reach_of_chain_lt H L (onChain_of_Lk H R kc hu hj) hd (by rw [hk]; exact hklt)
      · have hji' : j = fp.i := hji
        have := reachL_succ (rc hji') hcd
        rw [hji'] at this ⊢
        exact this
    · rename_i hadv
      have hstop : j = fp.i → False := by
        intro hji
        have r := rc hji
        by_cases hc1 : fp.curr = 1
        · rw [hc1] at r
          have := reachL_tail H r
          rw [this, H.tailKey] at hk; simp at hk
        · have hu := hunm hdel' hc1
          have hcc : OnChain sh.heap j fp.curr := onChain_of_Lk H R kc hu hj
          rcases chain_key H L hcc r with e | l
          · obtain ⟨p, hp⟩ := hu
            obtain ⟨q, hq⟩ := hm
            rw [← e, hji, hp] at hq; simp at hq
          · rw [hk] at l
            exact hadv ((findAdvance_iff _).mpr ((compare_neg_iff _ _).mpr l))
      split
      · rename_i i hi0
        have hi' : fp.i = i + 1 := hi0
        refine ⟨hk, ?_, rp⟩
        show j ≤ i
        have : j ≠ fp.i := fun c => hstop c
        omega
      · rename_i hi0
        exact absurd (by omega : j = fp.i) (fun c => hstop c)

theorem stepFindLevel_resp {sh : Shared} {th : Thread} (fp : FP) {d j : Nat} (hT : TInv sh.heap th)
    (hpc : th.pc = .findLevel fp) (r : RespPC sh.heap d j (.findLevel fp)) :
    RespPC (stepFindLevel sh th fp).1.heap d j (stepFindLevel sh th fp).2.1.pc := by
  have hp := hT.2.2
  rw [hpc] at hp
  obtain ⟨hk, hj, rp⟩ := r
  have hne : fp.prev ≠ d := by
    intro e
    have := hp.2.2.1
    rw [e, hk] at this; exact Key.lt_irrefl _ this
  refine ⟨hk, hj, rp, fun _ hji => ?_⟩
  have hji' : j = fp.i := hji
  have := reachL_succ rp hne
  rw [hji'] at this ⊢
  exact this

theorem stepFindNext_resp {sh : Shared} {th : Thread} (fp : FP) (rr : Bool) {d j : Nat} (H : HInv sh.heap)
    (R : ReachInv sh.heap) (L : LvInv sh.heap) (hT : TInv sh.heap th) (hL : TL sh.heap sh.level th)
    (hpc : th.pc = .findNext fp rr) (r : RespPC sh.heap d j (.findNext fp rr)) (hd : OnChain sh.heap j d)
    (hm : markedAt sh.heap j d) :
    RespPC sh.heap d j (stepFindNext sh th fp rr).2.1.pc := by
  have hp := hT.2.2
  rw [hpc] at hp
  obtain ⟨⟨f1, f2, f3, f4, f5⟩, hcl⟩ := hp
  have bp := hL.2
  rw [hpc] at bp
  obtain ⟨_, kp, kc, _⟩ := bp
  obtain ⟨hk, hj, rp, rc⟩ := r
  have hne : fp.prev ≠ d := by
    intro e; rw [e, hk] at f3; exact Key.lt_irrefl _ f3
  unfold stepFindNext
  generalize hfp1 : (if rr = true then { fp with curr := (getNext sh.heap fp.prev fp.i).1 } else fp) = fp1
  have hF : FPInv sh.heap th fp1 ∧ CurrLv sh.heap fp1 ∧ Lk sh.heap fp1.curr fp1.i ∧ fp1.item = fp.item ∧
      fp1.i = fp.i ∧ fp1.prev = fp.prev ∧ (j = fp.i → ReachL sh.heap j fp1.curr d) := by
    rw [← hfp1]
    split
    · refine ⟨⟨f1, H.getNext_lt _ _, f3, f4, f5⟩, H.getNext_lv _ _ f5, L.getNext_Lk _ _, rfl, rfl, rfl, ?_⟩
      intro hji
      have := reachL_succ rp hne
      rw [hji] at this ⊢
      exact this
    · rename_i hr
      exact ⟨⟨f1, f2, f3, f4, f5⟩, hcl, kc (by simpa using hr), rfl, rfl, rfl, rc (by simpa using hr)⟩
  obtain ⟨g1, g2, g3, e1, e2, e3, g4⟩ := hF
  simp only []
  exact afterRead_resp fp1 H R L g1 g2 g3 (by rw [e1]; exact hk) (by rw [e2]; exact hj) (by rw [e3]; exact rp)
    (by rw [e2]; exact g4) hd hm

theorem stepHelpDelete_resp {sh : Shared} {th : Thread} (fp : FP) (next : Nat) {d j : Nat} (H : HInv sh.heap)
    (R : ReachInv sh.heap) (L : LvInv sh.heap) (hT : TInv sh.heap th) (hL : TL sh.heap sh.level th)
    (hpc : th.pc = .helpDelete fp next) (r : RespPC sh.heap d j (.helpDelete fp next))
    (hd : OnChain (stepHelpDelete sh th fp next).1.heap j d) :
    RespPC (stepHelpDelete sh th fp next).1.heap d j (stepHelpDelete sh th fp next).2.1.pc := by
  have hp := hT.2.2
  rw [hpc] at hp
  have bp := hL.2
  rw [hpc] at bp
  obtain ⟨hil, kp, _⟩ := bp
  obtain ⟨hk, hj, rp⟩ := r
  have e := Ext.dcas sh.heap fp.prev fp.i fp.curr next false
  have hs := dcas_lstep_unlink (prev := fp.prev) hp.2 kp
  have H' := unlink_HInv H (prev := fp.prev) hp.2
  have L' := hs.lvInv H L
  have hk' : keyOf (dcas sh.heap fp.prev fp.i fp.curr next false).1 d = .fin fp.item := by
    rw [e.key _ (lt_of_keyOf_fin hk)]; exact hk
  revert hd
  unfold stepHelpDelete
  simp only []
  split
  · simp only [helpStats_heap]
    intro hd
    exact ⟨hk', hj, rp.keepT H R L H' L' hs (kp.mono hj) hd, fun c => by simp at c⟩
  · simp only [helpStats_heap, helpStats_level, bumpReadConflicts]
    intro hd
    exact ⟨hk', Nat.le_trans hj hil, hd⟩

/-- the responsible thread's own segment: it stays responsible as long as the node stays on the chain -/
theorem RespPC.step {sh : Shared} {th : Thread} {d j : Nat} (H : HInv sh.heap) (R : ReachInv sh.heap)
    (L : LvInv sh.heap) (hT : TInv sh.heap th) (hL : TL sh.heap sh.level th)
    (r : RespPC sh.heap d j th.pc) (hd : OnChain (stepThread sh th).1.heap j d)
    (hm : OnChain sh.heap j d → markedAt sh.heap j d) (hjl : j ≤ sh.level) :
    RespPC (stepThread sh th).1.heap d j (stepThread sh th).2.1.pc := by
  cases hpc : th.pc <;> rw [hpc] at r <;> simp only [RespPC] at r
  · rename_i fp
    have : stepThread sh th = stepFindLevel sh th fp := by unfold stepThread; rw [hpc]
    rw [this]
    exact stepFindLevel_resp fp hT hpc r
  · rename_i fp rr
    have h1 : stepThread sh th = stepFindNext sh th fp rr := by unfold stepThread; rw [hpc]
    have h2 : (stepFindNext sh th fp rr).1.heap = sh.heap := by unfold stepFindNext; exact afterRead_heap ..
    rw [h1] at hd ⊢
    rw [h2] at hd ⊢
    exact stepFindNext_resp fp rr H R L hT hL hpc r hd (hm hd)
  · rename_i fp next
    have h1 : stepThread sh th = stepHelpDelete sh th fp next := by unfold stepThread; rw [hpc]
    rw [h1] at hd ⊢
    exact stepHelpDelete_resp fp next H R L hT hL hpc r hd
  · rename_i item
    have h1 : stepThread sh th = startFind sh th item .delClean := by unfold stepThread; rw [hpc]
    rw [h1] at hd ⊢
    exact ⟨r, hjl, hd⟩

end NitroVerif.SkipConc
