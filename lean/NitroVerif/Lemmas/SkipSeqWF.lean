import NitroVerif.Lemmas.SkipSeqStep
/-!
  The well-formedness predicate of C14, stated on what a walk of the structure measures
  (`walkLevel`, no ghost state), and its derivation from the representation invariant.
-/
namespace NitroVerif.SkipSeq
open NitroVerif

/-- the level-`l` chain as the walk sees it (`[]` if the walk does not reach the tail) -/
def lev (s : SL) (l : Nat) : List Nat := (walkLevel s l).getD []

/-- strict order of two nodes under the comparator the list was built with -/
def nodeLt (h : Heap) (a b : Nat) : Prop := compare (keyOf h a) (keyOf h b) < 0

/-- sum of the per-level distribution = the `node_count` of `GetStats` -/
def nodeCount (s : SL) : Int := s.stats.levelNodesCount.foldl (· + ·) 0

structure WF (s : SL) : Prop where
  /-- no loop of the model ran out of fuel -/
  live : s.stuck = false
  lvl : s.level ≤ Gen.maxLevel
  /-- every level is an acyclic chain from head that reaches tail -/
  reach : ∀ l, l ≤ Gen.maxLevel → (walkLevel s l).isSome = true
  /-- no node on a chain is marked deleted -/
  unmarked : ∀ l, l ≤ Gen.maxLevel → ∀ n ∈ lev s l, markedAt s.nodes l n = false
  /-- strictly increasing on every level -/
  sorted : ∀ l, l ≤ Gen.maxLevel → (lev s l).Pairwise (nodeLt s.nodes)
  /-- level `l+1` is a sub-sequence of level `l` -/
  sub : ∀ l, l < Gen.maxLevel → (lev s (l + 1)).Sublist (lev s l)
  /-- a node of height `h` is linked on exactly the levels `0..h` -/
  height : ∀ n ∈ lev s 0, ∀ l, l ≤ Gen.maxLevel → (n ∈ lev s l ↔ l ≤ levelOf s.nodes n)
  /-- the list level bounds every height -/
  top : ∀ n ∈ lev s 0, levelOf s.nodes n ≤ s.level
  /-- statistics: per-level distribution, node count, soft deletes, frees -/
  distLen : s.stats.levelNodesCount.length = Gen.maxLevel + 1
  dist : ∀ g, g ≤ Gen.maxLevel →
    s.stats.levelNodesCount.getD g 0 = (((lev s 0).filter fun n => levelOf s.nodes n == g).length : Int)
  count : nodeCount s = ((lev s 0).length : Int)
  soft : s.stats.softDeletes = 0
  frees : s.stats.nodeFrees = 0

theorem walkFrom_path {h : Heap} {mk : Nat → Bool} {l : Nat} : ∀ (X : List Nat) (f : Nat),
    Path h mk l (X ++ [tailId]) → (∀ x ∈ X, x ≠ tailId ∧ x ≠ nilId) → X.length < f →
    walkFrom h l f ((X.head?).getD tailId) = some X := by
  intro X
  induction X with
  | nil =>
    intro f _ _ hf
    obtain ⟨f', rfl⟩ : ∃ f', f = f' + 1 := ⟨f - 1, by omega⟩
    simp [walkFrom]
  | cons c R ih =>
    intro f hp hne hf
    obtain ⟨f', rfl⟩ : ∃ f', f = f' + 1 := ⟨f - 1, by omega⟩
    have hc := hne c (by simp)
    have hlink : getNext h c l = ((R.head?).getD tailId, mk c) := path_head_link (by simpa using hp)
    simp only [List.head?_cons, Option.getD_some, walkFrom, hc.1, hc.2, if_false, hlink]
    rw [ih f' (path_tail (by simpa using hp)) (fun x hx => hne x (List.mem_cons_of_mem _ hx))
      (by simp at hf; omega)]
    rfl

theorem Rep.lev_eq {s : SL} {L0 : List Nat} (hr : Rep s L0) {l : Nat} (hl : l ≤ Gen.maxLevel) :
    walkLevel s l = some (LL s.nodes L0 l) := by
  unfold walkLevel
  have hp := hr.paths l hl
  have hlink : getNext s.nodes headId l = (((LL s.nodes L0 l).head?).getD tailId, nomk headId) :=
    path_head_link hp
  rw [hlink]
  apply walkFrom_path (mk := nomk) _ _ (path_tail (by simpa using hp))
  · intro x hx
    have := (hr.nodes x (mem_LL.mp hx).1).lo
    simp [tailId, nilId]; omega
  · have h1 : (LL s.nodes L0 l).length ≤ L0.length := List.length_filter_le _ _
    have := hr.size; omega

/-- sum of a distribution given by its entries -/
theorem foldl_add_eq (l : List Int) (a : Int) : l.foldl (· + ·) a = a + l.foldl (· + ·) 0 := by
  induction l generalizing a with
  | nil => simp
  | cons x r ih => simp only [List.foldl_cons]; rw [ih (a + x), ih (0 + x)]; omega

theorem length_filter_split {α : Type} (p : α → Bool) (L : List α) :
    L.length = (L.filter p).length + (L.filter (fun x => !p x)).length := by
  induction L with
  | nil => simp
  | cons a r ih =>
    by_cases ha : p a = true
    · simp [List.filter_cons, ha]; omega
    · simp [List.filter_cons, ha]; omega

/-- the distribution of `L` over the heights `i, i+1, …, i+n-1` -/
def distFrom (h : Heap) (L : List Nat) : Nat → Nat → List Int
  | 0, _ => []
  | n + 1, i => (cntLevel h L i : Int) :: distFrom h L n (i + 1)

theorem distFrom_sum (h : Heap) : ∀ (L : List Nat) (n i : Nat), (∀ x ∈ L, i ≤ levelOf h x ∧ levelOf h x < i + n) →
    (distFrom h L n i).foldl (· + ·) 0 = (L.length : Int) := by
  intro L n
  induction n generalizing L with
  | zero =>
    intro i hL
    cases L with
    | nil => simp [distFrom]
    | cons a r => have := hL a (by simp); omega
  | succ n ih =>
    intro i hL
    simp only [distFrom, List.foldl_cons]
    rw [foldl_add_eq]
    -- split L into the nodes of height i and the rest
    have hrest : ∀ x ∈ L.filter (fun x => !(levelOf h x == i)), i + 1 ≤ levelOf h x ∧ levelOf h x < i + 1 + n := by
      intro x hx
      have hm := List.mem_filter.mp hx
      have := hL x hm.1
      have hne : levelOf h x ≠ i := by simpa using hm.2
      omega
    have hsame : ∀ n' j, i + 1 ≤ j → distFrom h (L.filter (fun x => !(levelOf h x == i))) n' j = distFrom h L n' j := by
      intro n'
      induction n' with
      | zero => intro j _; rfl
      | succ m ihm =>
        intro j hj
        simp only [distFrom]
        rw [ihm (j + 1) (by omega)]
        congr 2
        unfold cntLevel
        rw [List.filter_filter]
        congr 1
        apply List.filter_congr
        intro x _
        by_cases hx : levelOf h x = j
        · have : ¬ levelOf h x = i := by omega
          simp [hx, this]; omega
        · simp [hx]
    rw [← hsame n (i + 1) (Nat.le_refl _), ih _ (i + 1) hrest]
    have hsplit := length_filter_split (fun x => levelOf h x == i) L
    unfold cntLevel
    omega

theorem dist_eq_distFrom {h : Heap} {L : List Nat} :
    ∀ (n i : Nat) (l : List Int), l.length = n → (∀ g, g < n → l.getD g 0 = (cntLevel h L (i + g) : Int)) →
      l = distFrom h L n i := by
  intro n
  induction n with
  | zero => intro i l hl _; simp [distFrom]; exact List.length_eq_zero_iff.mp hl
  | succ n ih =>
    intro i l hl hg
    cases l with
    | nil => simp at hl
    | cons a r =>
      simp only [distFrom]
      have h0 := hg 0 (by omega)
      simp at h0
      rw [h0, ih (i + 1) r (by simpa using hl) (fun g hg' => by
        have := hg (g + 1) (by omega)
        simp only [List.getD_cons_succ] at this
        rw [this]; congr 2; omega)]

theorem Rep.count {s : SL} {L0 : List Nat} (hr : Rep s L0) : nodeCount s = (L0.length : Int) := by
  unfold nodeCount
  rw [dist_eq_distFrom (h := s.nodes) (L := L0) (Gen.maxLevel + 1) 0
    s.stats.levelNodesCount hr.stats.len
    (fun g hg => by rw [hr.stats.dist g (by omega)]; simp)]
  apply distFrom_sum
  intro x hx
  have := (hr.nodes x hx).lvl
  have := hr.lvl
  omega

theorem Rep.wf {s : SL} {L0 : List Nat} (hr : Rep s L0) : WF s := by
  have hlev : ∀ l, l ≤ Gen.maxLevel → lev s l = LL s.nodes L0 l := fun l hl => by
    unfold lev; rw [hr.lev_eq hl]; rfl
  have hlev0 : lev s 0 = L0 := by rw [hlev 0 (Nat.zero_le _), LL_zero]
  refine ⟨hr.live, hr.lvl, ?_, ?_, ?_, ?_, ?_, ?_, hr.stats.len, ?_, ?_, hr.stats.soft, hr.stats.frees⟩
  · intro l hl; rw [hr.lev_eq hl]; rfl
  · intro l hl n hn
    rw [hlev l hl] at hn
    exact hr.unmarked (mem_LL.mp hn).1 (mem_LL.mp hn).2
  · intro l hl
    rw [hlev l hl]
    apply List.Pairwise.filter
    apply List.Pairwise.imp_of_mem _ hr.sorted
    intro a b ha hb hab
    unfold nodeLt
    rw [(hr.nodes a ha).key, (hr.nodes b hb).key, compare_item_item]; omega
  · intro l hl
    rw [hlev l (by omega), hlev (l + 1) (by omega)]
    have : LL s.nodes L0 (l + 1) = (LL s.nodes L0 l).filter (lvlGe s.nodes (l + 1)) := by
      unfold LL
      rw [List.filter_filter]
      apply List.filter_congr
      intro x _
      simp only [lvlGe]
      by_cases hx : l + 1 ≤ levelOf s.nodes x
      · have : l ≤ levelOf s.nodes x := by omega
        simp [hx, this]
      · simp [hx]
    rw [this]
    exact List.filter_sublist
  · intro n hn l hl
    rw [hlev0] at hn
    rw [hlev l hl, mem_LL]
    exact ⟨fun h => h.2, fun h => ⟨hn, h⟩⟩
  · intro n hn
    rw [hlev0] at hn
    exact (hr.nodes n hn).lvl
  · intro g hg
    rw [hlev0]
    exact hr.stats.dist g hg
  · rw [hlev0]; exact hr.count

end NitroVerif.SkipSeq
