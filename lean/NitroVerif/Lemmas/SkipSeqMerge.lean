import NitroVerif.Lemmas.SkipSeqRun
import NitroVerif.Lemmas.SkipSeqMergeSpec
/-!
  The merge iterator over quiescent skiplists.  `MInv m Ls rem`: list `i` represents the node list
  `Ls[i]`, iterator `i` stands at the head of the suffix `rem[i]` of `Ls[i]`, and the heap holds
  exactly one entry `(i, head of rem[i])` for every iterator that is not exhausted.
-/
namespace NitroVerif.SkipSeq
open NitroVerif NitroVerif.OrdSet

/-- the scan: keys under the cursor while the merge iterator is valid -/
def mergeScan : Nat → MergeIt → List Key
  | 0, _ => []
  | f + 1, m =>
    match m.key with
    | some k => k :: mergeScan f (mergeNext m)
    | none => []

structure MInv (m : MergeIt) (Ls rem : List (List Nat)) : Prop where
  lenI : m.iters.length = m.sls.length
  lenL : Ls.length = m.sls.length
  lenR : rem.length = m.sls.length
  reps : ∀ i, i < m.sls.length → Rep (slAt m i) (Ls.getD i [])
  suf : ∀ i, i < m.sls.length → ∃ P, Ls.getD i [] = P ++ rem.getD i []
  its : ∀ i, i < m.sls.length →
    (itAt m i).curr = ((rem.getD i []).head?).getD tailId ∧ (itAt m i).deleted = false
  hnd : m.h.Nodup
  hmem : ∀ i n, (i, n) ∈ m.h ↔ (i < m.sls.length ∧ (rem.getD i []).head? = some n)

/-- integer key of a heap entry -/
def entryInt (sls : List SL) (e : Nat × Nat) : Int := ikey (sls.getD e.1 SL.init).nodes e.2

theorem minEntry_mem (sls : List SL) : ∀ (r : List (Nat × Nat)) (m : Nat × Nat), minEntry sls m r ∈ m :: r := by
  intro r
  induction r with
  | nil => intro m; simp [minEntry]
  | cons e r ih =>
    intro m
    simp only [minEntry]
    split
    · have := ih e; exact List.mem_cons_of_mem _ this
    · have := ih m
      rcases List.mem_cons.mp this with h | h
      · rw [h]; simp
      · exact List.mem_cons_of_mem _ (List.mem_cons_of_mem _ h)

theorem minEntry_le (sls : List SL) : ∀ (r : List (Nat × Nat)) (m : Nat × Nat),
    (∀ e ∈ m :: r, entryKey sls e = .item (entryInt sls e)) →
    ∀ e ∈ m :: r, entryInt sls (minEntry sls m r) ≤ entryInt sls e := by
  intro r
  induction r with
  | nil => intro m _ e he; simp at he; subst he; simp [minEntry]
  | cons e r ih =>
    intro m hk e' he'
    have hkm := hk m (by simp)
    have hke := hk e (by simp)
    have hless : entryLess sls e m = decide (entryInt sls e < entryInt sls m) := by
      unfold entryLess; rw [hkm, hke, compare_item_item]
      by_cases h : entryInt sls e < entryInt sls m
      · have : entryInt sls e - entryInt sls m < 0 := by omega
        simp [h, this]
      · have : ¬ entryInt sls e - entryInt sls m < 0 := by omega
        simp [h, this]
    simp only [minEntry, hless]
    by_cases h : entryInt sls e < entryInt sls m
    · simp only [h, decide_true, if_true]
      have hih := ih e (fun x hx => hk x (List.mem_cons_of_mem _ hx))
      rcases List.mem_cons.mp he' with h1 | h1
      · subst h1; have := hih e (by simp); omega
      · exact hih e' h1
    · simp only [h, decide_false, Bool.false_eq_true, if_false]
      have hih := ih m (fun x hx => hk x (by
        rcases List.mem_cons.mp hx with h1 | h1
        · rw [h1]; simp
        · exact List.mem_cons_of_mem _ (List.mem_cons_of_mem _ h1)))
      rcases List.mem_cons.mp he' with h1 | h1
      · subst h1; exact hih e' (by simp)
      · rcases List.mem_cons.mp h1 with h2 | h2
        · subst h2; have := hih m (by simp); omega
        · exact hih e' (List.mem_cons_of_mem _ h2)

theorem getD_set_self {α : Type} (l : List α) (i : Nat) (d : α) (hi : i < l.length) :
    l.set i (l.getD i d) = l := by
  rw [List.getD_eq_getElem?_getD, List.getElem?_eq_getElem hi]
  exact List.set_getElem_self hi

/-- the link of a list node to its successor in the level-0 list -/
theorem Rep.next_of_split {s : SL} {P T : List Nat} {n : Nat} (hr : Rep s (P ++ n :: T)) :
    getNext s.nodes n 0 = ((T.head?).getD tailId, false) := by
  have hp := hr.paths 0 (Nat.zero_le _)
  rw [LL_zero] at hp
  have h1 : Path s.nodes nomk 0 ((headId :: P) ++ n :: (T ++ [tailId])) := by simpa using hp
  have h2 := ((path_append_cons _ _ _).mp h1).2
  have := path_head_link (X := T) (z := tailId) (by simpa using h2)
  simpa [nomk] using this

namespace MInv
variable {m : MergeIt} {Ls rem : List (List Nat)} (inv : MInv m Ls rem)
include inv

theorem mem_of_rem {i : Nat} (hi : i < m.sls.length) {n : Nat} (hn : n ∈ rem.getD i []) :
    n ∈ Ls.getD i [] := by
  rcases inv.suf i hi with ⟨P, hP⟩
  rw [hP]; exact List.mem_append_right _ hn

theorem entry_key {i n : Nat} (hi : i < m.sls.length) (hn : n ∈ rem.getD i []) :
    entryKey m.sls (i, n) = .item (entryInt m.sls (i, n)) :=
  ((inv.reps i hi).nodes n (inv.mem_of_rem hi hn)).key

theorem rem_sorted {i : Nat} (hi : i < m.sls.length) :
    (rem.getD i []).Pairwise (fun a b => ikey (slAt m i).nodes a < ikey (slAt m i).nodes b) := by
  rcases inv.suf i hi with ⟨P, hP⟩
  have := (inv.reps i hi).sorted
  rw [hP] at this
  exact (List.pairwise_append.mp this).2.1

end MInv

end NitroVerif.SkipSeq

namespace NitroVerif.SkipSeq
open NitroVerif NitroVerif.OrdSet

theorem getD_set_list {α : Type} (l : List α) (i j : Nat) (v d : α) :
    (l.set i v).getD j d = if i = j ∧ i < l.length then v else l.getD j d := by
  simp only [List.getD_eq_getElem?_getD, List.getElem?_set]
  by_cases h : i = j
  · subst h
    by_cases h2 : i < l.length
    · simp [h2]
    · have : l[i]? = none := List.getElem?_eq_none (by omega)
      simp [h2, this]
  · simp [h]

theorem mergeNext_empty {m : MergeIt} (h : m.h = []) : mergeNext m = { m with curr := none } := by
  unfold mergeNext; rw [h]

/-- popping the entry of iterator `i` and advancing that iterator keeps the invariant -/
theorem minv_pop {m m' : MergeIt} {Ls rem : List (List Nat)} {i n : Nat} {T : List Nat} {it' : Iter}
    (inv : MInv m Ls rem) (hi : i < m.sls.length) (hT : rem.getD i [] = n :: T) (hnT : n ∉ T)
    (hs : m'.sls = m.sls) (hits : m'.iters = m.iters.set i it')
    (hc : it'.curr = (T.head?).getD tailId) (hd : it'.deleted = false)
    (hh : m'.h = match T with
                 | [] => m.h.erase (i, n)
                 | a :: _ => m.h.erase (i, n) ++ [(i, a)]) :
    MInv m' Ls (rem.set i T) := by
  have hslAt : ∀ j, slAt m' j = slAt m j := fun j => by simp [slAt, hs]
  refine ⟨by rw [hits, hs]; simp [inv.lenI], by rw [hs]; exact inv.lenL, by rw [hs]; simp [inv.lenR],
    fun j hj => by rw [hslAt]; exact inv.reps j (hs ▸ hj), ?_, ?_, ?_, ?_⟩
  · intro j hj
    rw [hs] at hj
    rw [getD_set_list]
    by_cases hij : i = j
    · subst hij
      rw [if_pos ⟨rfl, by rw [inv.lenR]; exact hi⟩]
      rcases inv.suf i hi with ⟨P, hP⟩
      rw [hT] at hP
      exact ⟨P ++ [n], by rw [hP]; simp⟩
    · rw [if_neg (fun h => hij h.1)]
      exact inv.suf j hj
  · intro j hj
    rw [hs] at hj
    simp only [itAt, hits]
    rw [getD_set_list, getD_set_list]
    by_cases hij : i = j
    · subst hij
      rw [if_pos ⟨rfl, by rw [inv.lenI]; exact hi⟩, if_pos ⟨rfl, by rw [inv.lenR]; exact hi⟩]
      exact ⟨hc, hd⟩
    · rw [if_neg (fun h => hij h.1), if_neg (fun h => hij h.1)]
      exact inv.its j hj
  · rw [hh]
    cases T with
    | nil => exact inv.hnd.erase _
    | cons a T' =>
      simp only
      rw [List.nodup_append]
      refine ⟨inv.hnd.erase _, by simp, ?_⟩
      intro x hx y hy
      simp at hy; subst hy
      intro e'; subst e'
      have h1 := (inv.hnd.mem_erase_iff.mp hx).2
      have h2 := ((inv.hmem i a).mp h1).2
      rw [hT] at h2
      simp at h2
      exact hnT (h2 ▸ (by simp))
  · intro j n'
    rw [hs, getD_set_list, hh]
    by_cases hij : i = j
    · subst hij
      rw [if_pos ⟨rfl, by rw [inv.lenR]; exact hi⟩]
      cases T with
      | nil =>
        simp only [List.head?_nil]
        rw [inv.hnd.mem_erase_iff]
        constructor
        · rintro ⟨h1, h2⟩
          have h3 := ((inv.hmem i n').mp h2).2
          rw [hT] at h3; simp at h3; subst h3
          exact absurd rfl h1
        · rintro ⟨_, h2⟩; simp at h2
      | cons a T' =>
        simp only [List.head?_cons, List.mem_append, List.mem_singleton, Option.some.injEq]
        rw [inv.hnd.mem_erase_iff]
        constructor
        · rintro (⟨h1, h2⟩ | h2)
          · have h3 := ((inv.hmem i n').mp h2).2
            rw [hT] at h3; simp at h3; subst h3
            exact absurd rfl h1
          · simp at h2; exact ⟨hi, h2.symm⟩
        · rintro ⟨_, h2⟩
          right; rw [h2]
    · rw [if_neg (fun h => hij h.1)]
      have hne' : (j, n') ≠ (i, n) := by intro e'; simp at e'; exact hij e'.1.symm
      cases T with
      | nil =>
        simp only
        rw [inv.hnd.mem_erase_iff]
        exact ⟨fun h => (inv.hmem j n').mp h.2, fun h => ⟨hne', (inv.hmem j n').mpr h⟩⟩
      | cons a T' =>
        simp only [List.mem_append, List.mem_singleton]
        rw [inv.hnd.mem_erase_iff]
        constructor
        · rintro (h | h)
          · exact (inv.hmem j n').mp h.2
          · simp at h; exact absurd h.1.symm hij
        · intro h; exact Or.inl ⟨hne', (inv.hmem j n').mpr h⟩

theorem mergeNext_step {m : MergeIt} {Ls rem : List (List Nat)} (inv : MInv m Ls rem) (hne : m.h ≠ []) :
    ∃ i n T, i < m.sls.length ∧ rem.getD i [] = n :: T ∧ (mergeNext m).curr = some (i, n) ∧
      (mergeNext m).sls = m.sls ∧ MInv (mergeNext m) Ls (rem.set i T) ∧
      ∀ j, j < m.sls.length → ∀ y ∈ rem.getD j [],
        ikey (slAt m i).nodes n ≤ ikey (slAt m j).nodes y := by
  obtain ⟨e, r, her⟩ : ∃ e r, m.h = e :: r := by
    cases hh : m.h with
    | nil => exact absurd hh hne
    | cons e r => exact ⟨e, r, rfl⟩
  -- the popped entry
  have hmemMin : minEntry m.sls e r ∈ m.h := by rw [her]; exact minEntry_mem m.sls r e
  obtain ⟨i, n, hin⟩ : ∃ i n, minEntry m.sls e r = (i, n) := ⟨_, _, rfl⟩
  rw [hin] at hmemMin
  have hi := ((inv.hmem i n).mp hmemMin).1
  have hhead := ((inv.hmem i n).mp hmemMin).2
  obtain ⟨T, hT⟩ : ∃ T, rem.getD i [] = n :: T := by
    cases hr : rem.getD i [] with
    | nil => rw [hr] at hhead; simp at hhead
    | cons a T => rw [hr] at hhead; simp at hhead; subst hhead; exact ⟨T, rfl⟩
  have hkeys : ∀ x ∈ e :: r, entryKey m.sls x = .item (entryInt m.sls x) := by
    intro x hx
    rw [← her] at hx
    have := (inv.hmem x.1 x.2).mp hx
    exact inv.entry_key this.1 (List.mem_of_head? this.2)
  have hmin := minEntry_le m.sls r e hkeys
  rw [hin] at hmin
  -- the iterator under the popped entry
  rcases inv.suf i hi with ⟨P, hP⟩
  rw [hT] at hP
  have hrep := inv.reps i hi
  rw [hP] at hrep
  have hit := inv.its i hi
  rw [hT] at hit
  simp only [List.head?_cons, Option.getD_some] at hit
  have hlink := hrep.next_of_split
  have hun : (getNext (slAt m i).nodes (itAt m i).curr 0).2 = false := by rw [hit.1, hlink]
  have hnext := iterNext_plain (s := slAt m i) hit.2 hun
  rw [hit.1, hlink] at hnext
  simp only at hnext
  have hnd := hrep.nodup
  have hnT : n ∉ T := by
    have := (List.nodup_append.mp hnd).2.1
    exact (List.nodup_cons.mp this).1
  have hTlo : ∀ y ∈ T, y ≠ tailId := by
    intro y hy
    have := (hrep.nodes y (List.mem_append_right _ (List.mem_cons_of_mem _ hy))).lo
    simp [tailId]; omega
  have hsls : m.sls.set i (slAt m i) = m.sls := getD_set_self m.sls i SL.init hi
  have hcurr : (mergeNext m).curr = some (i, n) := by
    unfold mergeNext; rw [her]; simp only [hin]
  have hslsN : (mergeNext m).sls = m.sls := by
    unfold mergeNext; rw [her]; simp only [hin, hnext, hsls]
  refine ⟨i, n, T, hi, hT, hcurr, hslsN, ?_, ?_⟩
  · cases T with
    | nil =>
      refine minv_pop (it' := { itAt m i with valid := false, prev := n, curr := tailId }) inv hi hT hnT hslsN
        ?_ ?_ ?_ ?_
      · unfold mergeNext; rw [her]; simp [hin, hnext, iterValid]
      · rfl
      · exact hit.2
      · unfold mergeNext; rw [her]; simp [hin, hnext, iterValid]
    | cons a T' =>
      have hat := hTlo a (by simp)
      refine minv_pop (it' := { itAt m i with valid := true, prev := n, curr := a }) inv hi hT hnT hslsN
        ?_ ?_ ?_ ?_
      · unfold mergeNext; rw [her]; simp [hin, hnext, iterValid, hat]
      · rfl
      · exact hit.2
      · unfold mergeNext; rw [her]; simp [hin, hnext, iterValid, hat]
  · -- the popped key is minimal among everything that remains
    intro j hj y hy
    cases hr : rem.getD j [] with
    | nil => rw [hr] at hy; simp at hy
    | cons b Tj =>
      have hbm : (j, b) ∈ m.h := (inv.hmem j b).mpr ⟨hj, by rw [hr]; rfl⟩
      have h1 := hmin (j, b) (by rw [← her]; exact hbm)
      simp only [entryInt] at h1
      have hs := inv.rem_sorted hj
      rw [hr] at hs hy
      have h2 : ikey (slAt m j).nodes b ≤ ikey (slAt m j).nodes y := by
        rcases List.mem_cons.mp hy with e' | e'
        · rw [e']; exact Int.le_refl _
        · have := (List.pairwise_cons.mp hs).1 y e'; omega
      simp only [slAt] at h2 ⊢
      omega

end NitroVerif.SkipSeq

namespace NitroVerif.SkipSeq
open NitroVerif NitroVerif.OrdSet

/-- keys of the remaining node lists, list by list -/
def keysOf (sls : List SL) (rem : List (List Nat)) : List (List Int) :=
  List.zipWith (fun s R => R.map (ikey s.nodes)) sls rem

theorem keysOf_pop : ∀ (sls : List SL) (rem : List (List Nat)) (i n : Nat) (T : List Nat),
    i < sls.length → rem.length = sls.length → rem.getD i [] = n :: T →
    (keysOf sls rem).flatten.Perm
      (ikey (sls.getD i SL.init).nodes n :: (keysOf sls (rem.set i T)).flatten) := by
  intro sls
  induction sls with
  | nil => intro rem i n T hi; simp at hi
  | cons s ss ih =>
    intro rem i n T hi hl hT
    cases rem with
    | nil => simp at hl
    | cons R rs =>
      cases i with
      | zero =>
        simp at hT; subst hT
        simp [keysOf]
      | succ i =>
        simp only [List.getD_cons_succ] at hT ⊢
        simp only [List.set_cons_succ, keysOf, List.zipWith_cons_cons, List.flatten_cons]
        have := ih rs i n T (by simpa using hi) (by simpa using hl) hT
        exact (List.Perm.append (List.Perm.refl _) this).trans List.perm_middle

theorem mem_keysOf : ∀ (sls : List SL) (rem : List (List Nat)) (y : Int),
    y ∈ (keysOf sls rem).flatten →
    ∃ j y', j < sls.length ∧ y' ∈ rem.getD j [] ∧ y = ikey (sls.getD j SL.init).nodes y' := by
  intro sls
  induction sls with
  | nil => intro rem y hy; simp [keysOf] at hy
  | cons s ss ih =>
    intro rem y hy
    cases rem with
    | nil => simp [keysOf] at hy
    | cons R rs =>
      simp only [keysOf, List.zipWith_cons_cons, List.flatten_cons, List.mem_append] at hy
      rcases hy with h | h
      · rcases List.mem_map.mp h with ⟨y', hy', rfl⟩
        exact ⟨0, y', by simp, by simpa using hy', rfl⟩
      · rcases ih rs y h with ⟨j, y', hj, hy', he⟩
        exact ⟨j + 1, y', by simpa using hj, by simpa using hy', by simpa using he⟩

theorem keysOf_sorted {m : MergeIt} {Ls rem : List (List Nat)} (inv : MInv m Ls rem) :
    ∀ l ∈ keysOf m.sls rem, AscLe l := by
  intro l hl
  unfold keysOf at hl
  rcases List.mem_iff_getElem.mp hl with ⟨j, hj, he⟩
  simp only [List.length_zipWith] at hj
  have hj1 : j < m.sls.length := by omega
  have hj2 : j < rem.length := by omega
  simp only [List.getElem_zipWith] at he
  have hs := inv.rem_sorted hj1
  have e1 : rem.getD j [] = rem[j] := by simp [List.getD_eq_getElem?_getD, List.getElem?_eq_getElem hj2]
  have e2 : slAt m j = m.sls[j] := by simp [slAt, List.getD_eq_getElem?_getD, List.getElem?_eq_getElem hj1]
  rw [e1, e2] at hs
  rw [← he]
  unfold AscLe
  rw [List.pairwise_map]
  exact List.Pairwise.imp (fun h => by omega) hs

/-- a scan from a consistent state yields an ascending permutation of everything that remains -/
theorem mergeScan_spec {Ls : List (List Nat)} : ∀ (N : Nat) (m : MergeIt) (rem : List (List Nat)),
    MInv m Ls rem → (keysOf m.sls rem).flatten.length ≤ N →
    ∃ O, mergeScan (N + 1) (mergeNext m) = O.map Key.item ∧ AscLe O ∧
      O.Perm (keysOf m.sls rem).flatten := by
  intro N
  induction N with
  | zero =>
    intro m rem inv hN
    have hnil : (keysOf m.sls rem).flatten = [] := List.length_eq_zero_iff.mp (by omega)
    have hh : m.h = [] := by
      cases hh : m.h with
      | nil => rfl
      | cons e r =>
        rcases mergeNext_step inv (by rw [hh]; simp) with ⟨i, n, T, hi, hT, _, _, _, _⟩
        have := (keysOf_pop m.sls rem i n T hi inv.lenR hT).length_eq
        rw [hnil, List.length_cons] at this; simp at this
    refine ⟨[], ?_, by simp [AscLe], by rw [hnil]⟩
    rw [mergeNext_empty hh]
    simp [mergeScan, MergeIt.key]
  | succ N ih =>
    intro m rem inv hN
    by_cases hh : m.h = []
    · have hnil : (keysOf m.sls rem).flatten = [] := by
        apply List.eq_nil_iff_forall_not_mem.mpr
        intro y hy
        rcases mem_keysOf _ _ y hy with ⟨j, y', hj, hy', _⟩
        cases hr : rem.getD j [] with
        | nil => rw [hr] at hy'; simp at hy'
        | cons b Tj =>
          have : (j, b) ∈ m.h := (inv.hmem j b).mpr ⟨hj, by rw [hr]; rfl⟩
          rw [hh] at this; simp at this
      refine ⟨[], ?_, by simp [AscLe], by rw [hnil]⟩
      rw [mergeNext_empty hh]
      simp [mergeScan, MergeIt.key]
    · rcases mergeNext_step inv hh with ⟨i, n, T, hi, hT, hcurr, hsls, inv', hmin⟩
      have hpop := keysOf_pop m.sls rem i n T hi inv.lenR hT
      have hlen' : (keysOf (mergeNext m).sls (rem.set i T)).flatten.length ≤ N := by
        rw [hsls]
        have := hpop.length_eq
        rw [List.length_cons] at this; omega
      rcases ih (mergeNext m) (rem.set i T) inv' hlen' with ⟨O', hO1, hO2, hO3⟩
      rw [hsls] at hO3
      have hk : (mergeNext m).key = some (.item (ikey (slAt m i).nodes n)) := by
        simp only [MergeIt.key, hcurr, Option.map_some, hsls]
        rw [inv.entry_key hi (by rw [hT]; simp)]
        rfl
      refine ⟨ikey (slAt m i).nodes n :: O', ?_, ?_, ?_⟩
      · rw [mergeScan, hk]
        simp only [List.map_cons]
        rw [hO1]
      · unfold AscLe at hO2 ⊢
        rw [List.pairwise_cons]
        refine ⟨?_, hO2⟩
        intro y hy
        have hy1 : y ∈ (keysOf m.sls (rem.set i T)).flatten := hO3.mem_iff.mp hy
        have hy2 : y ∈ (keysOf m.sls rem).flatten := hpop.mem_iff.mpr (List.mem_cons_of_mem _ hy1)
        rcases mem_keysOf _ _ y hy2 with ⟨j, y', hj, hy', rfl⟩
        exact hmin j hj y' hy'
      · exact (List.Perm.cons _ hO3).trans hpop.symm

/-- …that is, the sorted multiset union of what remains -/
theorem mergeScan_eq {Ls : List (List Nat)} {m : MergeIt} {rem : List (List Nat)} (inv : MInv m Ls rem)
    {N : Nat} (hN : (keysOf m.sls rem).flatten.length ≤ N) :
    mergeScan (N + 1) (mergeNext m) = (mergeAll (keysOf m.sls rem)).map Key.item := by
  rcases mergeScan_spec N m rem inv hN with ⟨O, h1, h2, h3⟩
  rw [h1]
  congr 1
  apply sorted_perm_eq _ _ h2 (mergeAll_sorted _ (keysOf_sorted inv))
  exact h3.trans (mergeAll_perm _).symm

end NitroVerif.SkipSeq
