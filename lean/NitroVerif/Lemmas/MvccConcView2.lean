/-
  C01 along concurrent histories (part 2): the collection frontier.  Snapshots are collected strictly in
  the order of their numbers; what a collection job may still unlink died at or below `lastGCSn`; every
  snapshot numbered at or below `lastGCSn` is collected (hence has no reference).
-/
import NitroVerif.Lemmas.MvccConcView

namespace NitroVerif.MvccConc
open NitroVerif
open NitroVerif.Mvcc (Ver Sorted Chains vlt visible)

/-- the part of the frontier invariant that does not mention the threads -/
structure FrontS (lg cur : Nat) (snaps : List Snap) (store : List Node) (gcJobs : List GcJob) : Prop where
  gclt : lg < cur
  coll : ∀ s ∈ snaps, s.sn ≤ lg → s.st = .collected
  sgc : ∀ s ∈ snaps, ∀ n ∈ snapGarb s, ∀ x ∈ store, x.id = n → x.ver.dead ≤ s.sn
  jgc : ∀ n ∈ garbJ gcJobs, ∀ x ∈ store, x.id = n → x.ver.dead ≤ lg

/-- a collector parked at COLLECT_SEND is about to send snapshot `lastGCSn + 1` -/
def SendInv (threads : List Pc) (lg : Nat) : Prop :=
  ∀ (t sn : Nat) (a : Option Nat), threads[t]? = some (Pc.collectSend sn a) → sn = lg + 1

/-- the same for every thread but `t` -/
def SendEx (threads : List Pc) (lg : Nat) (t : Nat) : Prop :=
  ∀ (t' sn : Nat) (a : Option Nat), t' ≠ t → threads[t']? = some (Pc.collectSend sn a) → sn = lg + 1

structure FrontInv (σ : State) : Prop where
  s : FrontS σ.lastGCSn σ.currSn σ.snaps σ.store σ.gcJobs
  send : SendInv σ.threads σ.lastGCSn

theorem SendInv.ex {threads : List Pc} {lg : Nat} (h : SendInv threads lg) (t : Nat) : SendEx threads lg t :=
  fun t' sn a _ hg => h t' sn a hg

theorem SendEx.set {threads : List Pc} {lg t : Nat} {pc' : Pc} (h : SendEx threads lg t)
    (hpc : ∀ sn a, pc' = Pc.collectSend sn a → sn = lg + 1) : SendInv (threads.set t pc') lg := by
  intro t' sn a hg
  rcases get_set_cases hg with ⟨_, he⟩ | ⟨hne, hg'⟩
  · exact hpc sn a he.symm
  · exact h t' sn a (fun e => hne e.symm) hg'

/-- `FrontInv` from the values of the fields, one thread having moved -/
theorem FrontInv.of_fields {σ σ' : State} {t : Nat} {pc' : Pc} (e1 : σ'.lastGCSn = σ.lastGCSn)
    (e2 : σ'.currSn = σ.currSn) (e3 : σ'.snaps = σ.snaps) (e4 : σ'.store = σ.store) (e5 : σ'.gcJobs = σ.gcJobs)
    (e6 : σ'.threads = σ.threads.set t pc') (hs : FrontS σ.lastGCSn σ.currSn σ.snaps σ.store σ.gcJobs)
    (hse : SendEx σ.threads σ.lastGCSn t) (hpc : ∀ sn a, pc' = Pc.collectSend sn a → sn = σ.lastGCSn + 1) :
    FrontInv σ' := by
  refine ⟨by rw [e1, e2, e3, e4, e5]; exact hs, ?_⟩
  rw [e1, e6]; exact hse.set hpc

/-! ### the store -/

theorem garbC_pos_of_snap {writers : List Writer} {snaps : List Snap} {gcJobs : List GcJob} {s : Snap} {n : Nat}
    (hs : s ∈ snaps) (hn : n ∈ snapGarb s) : 0 < garbC writers snaps gcJobs n := by
  have : 0 < (garbS snaps).count n := by
    unfold garbS
    exact count_flatMap_pos.mpr ⟨s, hs, hn⟩
  unfold garbC; omega

theorem garbC_pos_of_job {writers : List Writer} {snaps : List Snap} {gcJobs : List GcJob} {n : Nat}
    (hn : n ∈ garbJ gcJobs) : 0 < garbC writers snaps gcJobs n := by
  have : 0 < (garbJ gcJobs).count n := List.count_pos_iff.mpr hn
  unfold garbC; omega

/-- a store change that touches the death mark only of nodes that carry none -/
theorem FrontS.store {lg cur : Nat} {writers : List Writer} {snaps : List Snap} {store store' : List Node}
    {gcJobs : List GcJob} (h : FrontS lg cur snaps store gcJobs) (hg : GarbInv writers snaps gcJobs store cur)
    (hids : (storeIds store).Nodup)
    (hst : ∀ x' ∈ store', x'.ver.dead = 0 ∨ x' ∈ store ∨ ∃ x ∈ store, x.id = x'.id ∧ x.ver.dead = 0) :
    FrontS lg cur snaps store' gcJobs := by
  have key : ∀ n, 0 < garbC writers snaps gcJobs n → ∀ (B : Nat), (∀ x ∈ store, x.id = n → x.ver.dead ≤ B) →
      ∀ x' ∈ store', x'.id = n → x'.ver.dead ≤ B := by
    intro n hpos B hB x' hx' hid
    rcases hst x' hx' with h0 | hm | ⟨x, hx, hxid, hxd⟩
    · omega
    · exact hB x' hm hid
    · exfalso
      obtain ⟨y, hy, hyid, hyd, _⟩ := hg.linked n hpos
      have : y = x := id_unique hids hy hx (by omega)
      subst this; exact hyd hxd
  refine ⟨h.gclt, h.coll, ?_, ?_⟩
  · intro s hs n hn
    exact key n (garbC_pos_of_snap hs hn) s.sn (h.sgc s hs n hn)
  · intro n hn
    exact key n (garbC_pos_of_job hn) lg (h.jgc n hn)

theorem FrontS.jobs {lg cur : Nat} {snaps : List Snap} {store : List Node} {gcJobs gcJobs' : List GcJob}
    (h : FrontS lg cur snaps store gcJobs) (hsub : ∀ n, n ∈ garbJ gcJobs' → n ∈ garbJ gcJobs) :
    FrontS lg cur snaps store gcJobs' :=
  ⟨h.gclt, h.coll, h.sgc, fun n hn => h.jgc n (hsub n hn)⟩

theorem storeCh_dead {σ σ' : State} (hi : Inv σ) (hs : StoreCh σ σ') :
    ∀ x' ∈ σ'.store, x'.ver.dead = 0 ∨ x' ∈ σ.store ∨ ∃ x ∈ σ.store, x.id = x'.id ∧ x.ver.dead = 0 := by
  intro x' hx'
  rcases hs with h | ⟨n, k, v, h⟩ | ⟨n, x, hf, h, _⟩ | ⟨n, x, hf, hd0, h⟩
  · rw [h] at hx'; exact Or.inr (Or.inl hx')
  · rw [h] at hx'
    rcases mem_insertN.mp hx' with rfl | hm
    · exact Or.inl rfl
    · exact Or.inr (Or.inl hm)
  · rw [h] at hx'
    exact Or.inr (Or.inl (mem_removeNode.mp hx').1)
  · rw [h] at hx'
    obtain ⟨y, hy, hid, _, _, _, hc⟩ := mem_markDeadNode hx'
    rcases hc with ⟨hyn, _⟩ | ⟨_, he⟩
    · have ⟨hxm, hxid⟩ := findNode_some hf
      have : y = x := id_unique hi.store.ids hy hxm (by omega)
      subst this
      exact Or.inr (Or.inr ⟨y, hy, hid.symm, hd0⟩)
    · rw [he]; exact Or.inr (Or.inl hy)

theorem ThrQuiet.send {σ σ' : State} (h : ThrQuiet σ σ') (hs : SendInv σ.threads σ.lastGCSn) :
    SendInv σ'.threads σ.lastGCSn := by
  rcases h with h | ⟨t, pc0, pc', _, h, _, hp⟩
  · rw [h]; exact hs
  · rw [h]
    refine (hs.ex t).set ?_
    intro sn a he; subst he; cases hp

theorem front_qstep {σ σ' : State} (hi : Inv σ) (hv : FrontInv σ) (hq : QStep σ σ') : FrontInv σ' := by
  obtain ⟨⟨e1, e2, e3, _⟩, ht, hg, hs⟩ := hq
  refine ⟨?_, ?_⟩
  · rw [e1, e2, e3]
    exact (hv.s.store hi.garb hi.store.ids (storeCh_dead hi hs)).jobs hg
  · rw [e2]; exact ht.send hv.send

/-! ### the snapshot table -/

theorem snapGarb_sub {x y : Snap} (hg : y.gclist = x.gclist) (hc : x.st = .collected → y.st = .collected) :
    ∀ n, n ∈ snapGarb y → n ∈ snapGarb x := by
  intro n hn
  unfold snapGarb at hn ⊢
  by_cases hx : x.st = .collected
  · simp [hc hx] at hn
  · simp only [hx, if_false]
    split at hn
    · simp at hn
    · rw [← hg]; exact hn

theorem FrontS.updSnap {lg cur : Nat} {snaps : List Snap} {store : List Node} {gcJobs : List GcJob} {s : Nat}
    {f : Snap → Snap} (h : FrontS lg cur snaps store gcJobs) (hsn : ∀ x, (f x).sn = x.sn)
    (hgl : ∀ x, (f x).gclist = x.gclist)
    (hst : ∀ x ∈ snaps, x.sn = s → x.st = .collected → (f x).st = .collected) :
    FrontS lg cur (updSnap s f snaps) store gcJobs := by
  refine ⟨h.gclt, ?_, ?_, h.jgc⟩
  · intro y hy hle
    obtain ⟨x, hx, rfl⟩ := mem_updSnap hy
    by_cases hxs : x.sn = s
    · simp only [hxs, if_true] at hle ⊢
      rw [hsn] at hle
      exact hst x hx hxs (h.coll x hx (by omega))
    · simp only [hxs, if_false] at hle ⊢
      exact h.coll x hx hle
  · intro y hy n hn
    obtain ⟨x, hx, rfl⟩ := mem_updSnap hy
    by_cases hxs : x.sn = s
    · simp only [hxs, if_true] at hn ⊢
      rw [hsn]
      have := h.sgc x hx n (snapGarb_sub (hgl x) (hst x hx hxs) n hn)
      intro x' hx' hid; have := this x' hx' hid; omega
    · simp only [hxs, if_false] at hn ⊢
      exact h.sgc x hx n hn

/-- `NewSnapshot` -/
theorem front_snap {σ : State} (hi : Inv σ) (hv : FrontInv σ) : FrontInv (snap σ).1 := by
  refine ⟨?_, hv.send⟩
  show FrontS σ.lastGCSn (σ.currSn + 1) (σ.snaps ++ [_]) σ.store σ.gcJobs
  refine ⟨by have := hv.s.gclt; omega, ?_, ?_, hv.s.jgc⟩
  · intro s hs hle
    rcases List.mem_append.mp hs with hs | hs
    · exact hv.s.coll s hs hle
    · simp at hs; subst hs
      have := hv.s.gclt
      simp only at hle; omega
  · intro s hs n hn x hx hid
    rcases List.mem_append.mp hs with hs | hs
    · exact hv.s.sgc s hs n hn x hx hid
    · simp at hs; subst hs
      simp only
      have hxv : x.ver ∈ vers σ.store := List.mem_map.mpr ⟨x, hx, rfl⟩
      have := hi.store.chains.1 x.ver hxv
      by_cases hd : x.ver.dead = 0
      · omega
      · exact (this.2 hd).2

/-! ### the end of a Close, the collector -/

theorem front_finishClose {σ : State} {t : Nat} {after : Option Nat}
    (hs : FrontS σ.lastGCSn σ.currSn σ.snaps σ.store σ.gcJobs) (hse : SendEx σ.threads σ.lastGCSn t) :
    FrontInv (finishClose σ t after).1 := by
  have hidle : ∀ sn a, Pc.idle = Pc.collectSend sn a → sn = σ.lastGCSn + 1 := by intro sn a h; cases h
  unfold finishClose
  cases after with
  | none => exact FrontInv.of_fields (σ := σ) (t := t) (pc' := .idle) rfl rfl rfl rfl rfl rfl hs hse hidle
  | some i =>
    simp only
    split
    · exact FrontInv.of_fields (σ := σ) (t := t) (pc' := .idle) rfl rfl rfl rfl rfl rfl hs hse hidle
    · exact FrontInv.of_fields (σ := σ) (t := t) (pc' := .idle) rfl rfl rfl rfl rfl rfl hs hse hidle

theorem collectable_next {σ : State} {s : Snap} (h : collectable σ = some s) : s.sn = σ.lastGCSn + 1 := by
  unfold collectable at h
  cases hr : retiredHead σ.snaps with
  | none => rw [hr] at h; simp at h
  | some x =>
    rw [hr] at h; simp only at h
    split at h
    · simp at h
    · rename_i hstop
      simp at h; subst h
      unfold Gen.gcStop at hstop
      simpa using hstop

theorem front_collectLoop {σ : State} {t : Nat} {after : Option Nat}
    (hs : FrontS σ.lastGCSn σ.currSn σ.snaps σ.store σ.gcJobs) (hse : SendEx σ.threads σ.lastGCSn t) :
    FrontInv (collectLoop σ t after).1 := by
  unfold collectLoop
  cases hc : collectable σ with
  | some s =>
    simp only
    refine FrontInv.of_fields (σ := σ) (t := t) (pc' := .collectSend s.sn after) rfl rfl rfl rfl rfl rfl hs hse ?_
    intro sn a he; injection he with he _; rw [← he]; exact collectable_next hc
  | none =>
    simp only [recheck_false_of_not_collectable hc]
    simp only [Bool.false_eq_true, if_false]
    exact front_finishClose (σ := { σ with gcFlag := false }) hs hse

theorem front_closeRef {σ : State} {t s : Nat} {rc : Int} {after : Option Nat}
    (hs : FrontS σ.lastGCSn σ.currSn σ.snaps σ.store σ.gcJobs) (hse : SendEx σ.threads σ.lastGCSn t)
    (hret : Gen.closeRetire (rc - 1) = true → ∀ x ∈ σ.snaps, x.sn = s → x.st ≠ .collected) :
    FrontInv (closeRef σ t s rc after).1 := by
  unfold closeRef runGC
  split
  · rename_i hr
    have hs' : FrontS σ.lastGCSn σ.currSn (updSnap s (fun y => { y with rc := y.rc - 1, st := .retired }) σ.snaps)
        σ.store σ.gcJobs :=
      hs.updSnap (fun _ => rfl) (fun _ => rfl) (fun x hx hxs hc => absurd hc (hret hr x hx hxs))
    split
    · exact front_finishClose (σ := { σ with snaps := _ }) hs' hse
    · exact front_collectLoop (σ := { σ with snaps := _ }) hs' hse
  · exact front_finishClose (σ := { σ with snaps := _ })
      (hs.updSnap (fun _ => rfl) (fun _ => rfl) (fun x _ _ hc => hc)) hse

/-- a snapshot whose last reference is being dropped is in the live list -/
theorem live_of_last_ref {σ : State} (hi : Inv σ) {s : Nat} {x : Snap} (hf : findSnap s σ.snaps = some x)
    (hr : Gen.closeRetire (x.rc - 1) = true) : ∀ y ∈ σ.snaps, y.sn = s → y.st ≠ .collected := by
  intro y hy hys hc
  have ⟨hxm, hxs⟩ := findSnap_some hf
  have : y = x := snap_unique hi.store.snaps_inc hy hxm (by omega)
  subst this
  have := hi.store.rc_dead y hy (by rw [hc]; simp)
  unfold Gen.closeRetire at hr
  simp at hr; omega

theorem front_startClose {σ : State} {t s : Nat} (hi : Inv σ) (hv : FrontInv σ) :
    FrontInv (startClose σ t s).1 := by
  unfold startClose
  cases hf : findSnap s σ.snaps with
  | none => exact hv
  | some x =>
    simp only
    split
    · refine front_closeRef (σ := { σ with snaps := _ })
        (hv.s.updSnap (fun _ => rfl) (fun _ => rfl) (fun x _ _ hc => hc)) (hv.send.ex t) ?_
      intro hr y hy hys
      obtain ⟨z, hz, rfl⟩ := mem_updSnap hy
      by_cases hzs : z.sn = s
      · simp only [hzs, if_true]
        exact live_of_last_ref hi hf hr z hz hzs
      · simp only [hzs, if_false] at hys
    · exact hv

theorem front_itClose {σ : State} {t i : Nat} (hi : Inv σ) (hv : FrontInv σ) : FrontInv (itClose σ t i).1 := by
  unfold itClose
  split
  · rename_i it _
    cases hf : findSnap it.sn σ.snaps with
    | none => exact hv
    | some x => exact front_closeRef hv.s (hv.send.ex t) (live_of_last_ref hi hf)
  · exact hv

theorem front_itNew {σ : State} {t i s : Nat} (hv : FrontInv σ) : FrontInv (itNew σ t i s).1 := by
  unfold itNew
  split
  · split
    · exact hv
    · refine ⟨?_, hv.send⟩
      exact hv.s.updSnap (fun _ => rfl) (fun _ => rfl) (fun x _ _ hc => hc)
  · exact hv

theorem front_landOn {σ : State} {t i : Nat} {it : Iter} {land : Option Node} (hv : FrontInv σ) :
    FrontInv (landOn σ t i it land).1 := by
  unfold landOn
  cases land with
  | none =>
    exact FrontInv.of_fields (σ := σ) (t := t) (pc' := .idle) rfl rfl rfl rfl rfl rfl hv.s (hv.send.ex t)
      (by intro sn a h; cases h)
  | some y =>
    simp only
    split
    · exact FrontInv.of_fields (σ := σ) (t := t) (pc' := .iterNext i) rfl rfl rfl rfl rfl rfl hv.s (hv.send.ex t)
        (by intro sn a h; cases h)
    · exact FrontInv.of_fields (σ := σ) (t := t) (pc' := .idle) rfl rfl rfl rfl rfl rfl hv.s (hv.send.ex t)
        (by intro sn a h; cases h)

theorem front_itFirst {σ : State} {t i : Nat} (hv : FrontInv σ) : FrontInv (itFirst σ t i).1 := by
  unfold itFirst
  split
  · exact front_landOn hv
  · exact hv

theorem front_stepIter {σ : State} {t i : Nat} (hv : FrontInv σ) : FrontInv (stepIter σ t i).1 := by
  unfold stepIter
  split
  · split
    · split
      · exact hv
      · split
        · exact front_landOn hv
        · split
          · exact hv
          · exact front_landOn hv
    · exact hv
  · exact hv

/-- COLLECT_SEND -/
theorem front_stepCollect {σ : State} {t sn : Nat} {after : Option Nat} (hi : Inv σ) (hv : FrontInv σ)
    (hg : σ.threads[t]? = some (.collectSend sn after)) : FrontInv (stepCollect σ t sn after).1 := by
  unfold stepCollect
  cases hf : findSnap sn σ.snaps with
  | none => exact hv
  | some x =>
    simp only
    have ⟨hxm, hxs⟩ := findSnap_some hf
    have hnext : sn = σ.lastGCSn + 1 := hv.send t sn after hg
    obtain ⟨y, hym, hys, hyst⟩ := (hi.pc.coll t sn after hg).2
    have hyx : y = x := snap_unique hi.store.snaps_inc hym hxm (by omega)
    subst hyx
    have hxg : snapGarb y = y.gclist := by unfold snapGarb; simp [hyst]
    refine front_collectLoop (σ := { σ with lastGCSn := sn, gcJobs := _, snaps := _ }) ?_ ?_
    · show FrontS sn σ.currSn (updSnap sn (fun z => { z with st := .collected }) σ.snaps) σ.store
        (σ.gcJobs ++ [⟨[], y.gclist, .recv⟩])
      refine ⟨by have := hi.store.snaps_lt y hym; omega, ?_, ?_, ?_⟩
      · intro z hz hle
        obtain ⟨w, hw, rfl⟩ := mem_updSnap hz
        by_cases hws : w.sn = sn
        · simp only [hws, if_true]
        · simp only [hws, if_false] at hle ⊢
          exact hv.s.coll w hw (by omega)
      · intro z hz n hn
        obtain ⟨w, hw, rfl⟩ := mem_updSnap hz
        by_cases hws : w.sn = sn
        · simp only [hws, if_true] at hn
          simp [snapGarb] at hn
        · simp only [hws, if_false] at hn ⊢
          exact hv.s.sgc w hw n hn
      · intro n hn x' hx' hid
        unfold garbJ at hn
        rw [List.flatMap_append] at hn
        rcases List.mem_append.mp hn with hn | hn
        · have := hv.s.jgc n hn x' hx' hid; omega
        · simp at hn
          have := hv.s.sgc y hym n (by rw [hxg]; exact hn) x' hx' hid
          omega
    · intro t' sn' a' hne hg'
      exact absurd (hi.pc.excl t' t sn' a' sn after hg' hg) hne

end NitroVerif.MvccConc
