/-
  Characterisation of the generated guards (`Gen/Guards.lean`, regenerated from the Go sources) that
  the small-step M6 model `Model/MvccConc.lean` calls, and the call skeletons of the Go functions it
  transcribes.  A change of a Go condition or of the order of the effectful calls breaks a lemma here
  (or the lemma of `Lemmas/MvccGen.lean` referred to).
    model function           Go function                     guard / skeleton
    startDel                 Writer.Delete2, DeleteNode      Gen.sameEpoch, skeleton_Delete2, skeleton_DeleteNode
    stepPut                  Writer.Put2, Insert4            Gen.findAdvance/findFound, comparators, skeleton_Put2
    closeRef, itNew          Snapshot.Close, Open            Gen.closeRetire, Gen.openRefuse
    collectable, recheck     collectDead, hasCollectable…    Gen.gcStop, Gen.collectableHead
    landOn                   Iterator.skipUnwanted           Gen.skipUnwanted
    iterStoreCmp             NewIterator / Refresh           Gen.iteratorStoreCmp
    stepGc / stepFr / shutdown   collectionWorker, freeWorker, Nitro.Close    skeletons
-/
import NitroVerif.Lemmas.MvccConcStepC2

namespace NitroVerif.MvccConc
open NitroVerif

/-- `DeleteNode`: physical delete iff the item was born in the current epoch -/
theorem sameEpoch_iff (b sn : Nat) : Gen.sameEpoch b sn = true ↔ b = sn := Mvcc.sameEpoch_iff b sn

/-- `Snapshot.Close`: retire iff the decremented count is zero -/
theorem closeRetire_iff (rc : Int) : Gen.closeRetire rc = true ↔ rc = 0 := Mvcc.closeRetire_iff rc

/-- `Snapshot.Open`: refuse iff the observed count is zero -/
theorem openRefuse_iff (rc : Int) : Gen.openRefuse rc = true ↔ rc = 0 := Mvcc.openRefuse_iff rc

/-- `collectDead`: stop unless the head of the retired list is the next in order -/
theorem gcStop_false_iff (sn g : Nat) : Gen.gcStop sn g = false ↔ sn = g + 1 := Mvcc.gcStop_false_iff sn g

/-- `hasCollectableSnapshot`: the re-check after dropping the collector flag -/
theorem collectableHead_iff (sn g : Nat) : Gen.collectableHead sn g = true ↔ sn = g + 1 := by
  unfold Gen.collectableHead; simp

/-- the two tests are complementary, hence `GC()` terminates (`collectLoop_ne_hang`) -/
theorem collectable_tests_complementary (sn g : Nat) : Gen.collectableHead sn g = !Gen.gcStop sn g :=
  collectableHead_eq_not_gcStop sn g

/-- `skipUnwanted`: a version is delivered to snapshot `sn` iff born at or before it and not dead at it -/
theorem skipUnwanted_false_iff (b d sn : Nat) : Gen.skipUnwanted b d sn = false ↔ b ≤ sn ∧ (d = 0 ∨ sn < d) :=
  Mvcc.skipUnwanted_false_iff b d sn

/-- snapshot iterators walk the store with the insert comparator -/
theorem iteratorStoreCmp_ins : Gen.iteratorStoreCmp = Gen.CmpKind.ins := rfl

theorem iterStoreCmp_eq (σ : State) :
    iterStoreCmp σ = if σ.fixedIter then Mvcc.insCmp else Mvcc.iterCmp := by
  unfold iterStoreCmp
  split <;> simp [iteratorStoreCmp_ins, Mvcc.cmpOf]

theorem findAdvance_iff (c : Int) : Gen.findAdvance c = true ↔ c < 0 := Mvcc.findAdvance_iff c
theorem findFound_iff (c : Int) : Gen.findFound c = true ↔ c = 0 := Mvcc.findFound_iff c

/-! ### skeletons: source order of the effectful calls the model mirrors -/

/-- Put2: `Insert2`, then `freeItem` on rejection (`stepPut`) -/
theorem skeleton_Put2_ok : Gen.skeleton_Put2 = ["w.store.Insert2", "w.freeItem"] := rfl

/-- Insert4 frees the node it was given when the item exists already (`stepPut`: node, then item) -/
theorem skeleton_Insert4_frees :
    Gen.skeleton_Insert4.take 3 = ["s.findPath", "s.freeNode", "buf.preds[0].dcasNext"] := rfl

/-- Delete2 holds a barrier token from before the lookup until it returns (`startDel` … `casLose`) -/
theorem skeleton_Delete2_ok : Gen.skeleton_Delete2 = ["barrier.Acquire", "defer", "barrier.Release"] := rfl

/-- DeleteNode: physical delete then flush (same epoch), else the compare-and-swap and the garbage list -/
theorem skeleton_DeleteNode_ok :
    Gen.skeleton_DeleteNode = ["defer", "w.store.DeleteNode", "x.SetLink", "barrier.FlushSession",
      "atomic.CompareAndSwapUint32(gotItem.deadSn)", "x.SetLink", "w.gctail.SetLink"] := rfl

/-- the collection worker: `DeleteNode` per node, then one `FlushSession` of the whole list (`stepGc`) -/
theorem skeleton_collectionWorker_ok :
    Gen.skeleton_collectionWorker = ["defer", "defer", "close", "m.store.DeleteNode", "barrier.FlushSession"] := rfl

/-- the free worker: `freeItem`, then `FreeNode`, per node (`freeNodes`) -/
theorem skeleton_freeWorker_ok : Gen.skeleton_freeWorker = ["m.freeItem", "m.store.FreeNode"] := rfl

/-- `Nitro.Close()`: per linked node `freeItem`, `FreeNode`; then the two sentinels (`shutdown`) -/
theorem skeleton_NitroClose_tail :
    Gen.skeleton_NitroClose.drop 8 =
      ["iter.Close", "iter.SeekFirst", "iter.Next", "m.freeItem", "m.store.FreeNode", "iter.Next",
       "m.store.FreeNode", "m.store.FreeNode"] := rfl

/-- collectDead: `lastGCSn` is stored, the list is sent, the snapshot leaves the retired list — one
    COLLECT_SEND segment (`stepCollect`) -/
theorem skeleton_collectDead_ok :
    Gen.skeleton_collectDead = ["defer", "defer", "defer", "iter.Close", "iter.SeekFirst", "iter.Next",
      "atomic.StoreUint32(m.lastGCSn)", "send(m.gcchan)", "m.gcsnapshots.DeleteNode"] := rfl

/-- GC: try-lock, collect, unlock, re-check (`runGC`, `collectLoop`) -/
theorem skeleton_GC_ok :
    Gen.skeleton_GC = ["atomic.CompareAndSwapInt32(m.isGCRunning)", "m.collectDead",
      "atomic.CompareAndSwapInt32(m.isGCRunning)", "m.hasCollectableSnapshot"] := rfl

/-- Snapshot.Close: decrement, (at zero) move to the retired list, GC (`closeRef`) -/
theorem skeleton_Close_ok :
    Gen.skeleton_Close = ["atomic.AddInt32(s.refCount)", "defer", "s.db.snapshots.Delete",
      "s.db.gcsnapshots.Insert", "s.db.GC"] := rfl

/-- skiplist Iterator.Next: read the successor; on a deleted current node the conflict counter is bumped
    and the path is searched again (`stepIter`) -/
theorem skeleton_SkiplistIteratorNext_ok :
    Gen.skeleton_SkiplistIteratorNext = ["it.curr.getNext", "atomic.AddUint64(it.s.Stats.readConflicts)", "it.Refresh"] :=
  rfl

/-- NewSnapshot: stitch the writers' lists, add their counts, bump `currSn` (`snap`) -/
theorem skeleton_NewSnapshot_ok :
    Gen.skeleton_NewSnapshot = ["defer", "tail.SetLink", "atomic.AddInt64(m.itemsCount)",
      "atomic.AddUint32(m.currSn)"] := rfl

end NitroVerif.MvccConc
