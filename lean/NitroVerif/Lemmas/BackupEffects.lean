import NitroVerif.Model.BackupEffects
import NitroVerif.Lemmas.BackupResidual
/-!
  Lemmas for C12: the image after a prefix of StoreToDisk's effect list, in closed form
  (`stage`), and `load` on such an image.
-/
namespace NitroVerif.Backup
open NitroVerif NitroVerif.Codec NitroVerif.Backup.GenLemmas

/-! ### prefixes -/

theorem prefix_append_cases {α : Type} {p l₁ l₂ : List α} (h : p <+: l₁ ++ l₂) :
    p <+: l₁ ∨ ∃ q, p = l₁ ++ q ∧ q <+: l₂ := by
  induction l₁ generalizing p with
  | nil => exact Or.inr ⟨p, rfl, h⟩
  | cons a r ih =>
    rw [List.cons_append] at h
    rcases List.prefix_cons_iff.1 h with rfl | ⟨t, rfl, ht⟩
    · exact Or.inl List.nil_prefix
    · rcases ih ht with h1 | ⟨q, rfl, hq⟩
      · exact Or.inl (List.cons_prefix_cons.2 ⟨rfl, h1⟩)
      · exact Or.inr ⟨q, rfl, hq⟩

theorem prefix_four {α : Type} {m : List α} {a b c d : α} (h : m <+: [a, b, c, d]) :
    m = [] ∨ m = [a] ∨ m = [a, b] ∨ m = [a, b, c] ∨ m = [a, b, c, d] := by
  rcases List.prefix_cons_iff.1 h with rfl | ⟨t1, rfl, h1⟩
  · simp
  rcases List.prefix_cons_iff.1 h1 with rfl | ⟨t2, rfl, h2⟩
  · simp
  rcases List.prefix_cons_iff.1 h2 with rfl | ⟨t3, rfl, h3⟩
  · simp
  rcases List.prefix_cons_iff.1 h3 with rfl | ⟨t4, rfl, h4⟩
  · simp
  have : t4 = [] := List.prefix_nil.1 h4
  subst this
  simp

/-! ### files -/

theorem filesOf_append (k : Nat) (cs ds : List Bytes) :
    filesOf k (cs ++ ds) = filesOf k cs ++ filesOf (k + cs.length) ds := by
  induction cs generalizing k with
  | nil => simp [filesOf]
  | cons c r ih =>
    simp only [List.cons_append, filesOf, ih, List.length_cons]
    congr 3
    omega

theorem createFile_filesOf (n : Nat) :
    createFile (shardName n) (filesOf 0 (List.replicate n [])) = filesOf 0 (List.replicate (n + 1) []) := by
  unfold createFile
  rw [lookup_filesOf_zero]
  simp only [List.length_replicate, Nat.lt_irrefl, not_false_eq_true, getElem?_neg]
  rw [List.replicate_succ', filesOf_append]
  simp [filesOf]

theorem appendFile_filesOf (k i : Nat) (bs : Bytes) (cs : List Bytes) :
    appendFile (shardName (k + i)) bs (filesOf k cs) = filesOf k (cs.modify i (· ++ bs)) := by
  induction cs generalizing k i with
  | nil => simp [filesOf, appendFile]
  | cons c r ih =>
    cases i with
    | zero => simp [filesOf, appendFile]
    | succ i =>
      simp only [filesOf, appendFile, List.modify_succ_cons]
      rw [if_neg (fun he => by have := shardName_inj he; omega)]
      have : k + (i + 1) = (k + 1) + i := by omega
      rw [this, ih]

/-! ### the image while the store runs -/

/-- the directory image with nitro.json complete, the data shard files holding `cs`, no delta files -/
def stage (ver : Nat) (files : Manifest (List String)) (sums : Manifest (List Nat)) (cs : List Bytes) : Image :=
  { version := .parsed ver, files := files, sums := sums, dfiles := .absent, dsums := .absent,
    data := filesOf 0 cs, delta := [] }

theorem runEffects_append (img : Image) (a b : List Effect) :
    runEffects img (a ++ b) = runEffects (runEffects img a) b := by
  simp [runEffects, List.foldl_append]

theorem runEffects_cons (img : Image) (e : Effect) (r : List Effect) :
    runEffects img (e :: r) = runEffects (applyEffect img e) r := rfl

theorem runEffects_createAll (img : Image) (hd : img.data = []) (n : Nat) :
    runEffects img (createAll n) = { img with data := filesOf 0 (List.replicate n []) } := by
  induction n with
  | zero => simp [createAll, runEffects, filesOf, ← hd]
  | succ n ih =>
    simp only [createAll, runEffects_append, ih]
    simp only [runEffects, List.foldl_cons, List.foldl_nil, applyEffect]
    rw [createFile_filesOf]

/-- the image when the Visitor starts -/
theorem imageAfter_header (n ver : Nat) :
    imageAfter (storeHeader n ver) = stage ver .absent .absent (List.replicate n []) := by
  unfold imageAfter storeHeader
  rw [runEffects_append, runEffects_append]
  have h1 : runEffects emptyImage [.mkdirData] = emptyImage := rfl
  rw [h1, runEffects_createAll emptyImage rfl]
  rfl

/-- writes on the data shards: the manifests stay, every file grows by what is appended to it -/
theorem runEffects_appends (n ver : Nat) (f : Manifest (List String)) (s : Manifest (List Nat))
    (es : List Effect) (hes : ∀ e ∈ es, isDataAppend n e) (cs : List Bytes) (hcs : cs.length = n) :
    ∃ cs' : List Bytes, cs'.length = n ∧ runEffects (stage ver f s cs) es = stage ver f s cs' ∧
      ∀ j (h1 : j < cs.length) (h2 : j < cs'.length), cs'[j] = cs[j] ++ appendedData j es := by
  induction es generalizing cs with
  | nil => exact ⟨cs, hcs, rfl, fun j h1 h2 => by simp [appendedData]⟩
  | cons e r ih =>
    have he := hes e List.mem_cons_self
    have hr : ∀ x ∈ r, isDataAppend n x := fun x hx => hes x (List.mem_cons_of_mem _ hx)
    cases e with
    | appendData i bs =>
      have hstep : applyEffect (stage ver f s cs) (.appendData i bs)
          = stage ver f s (cs.modify i (· ++ bs)) := by
        simp only [applyEffect, stage]
        have := appendFile_filesOf 0 i bs cs
        rw [Nat.zero_add] at this
        rw [this]
      obtain ⟨cs', hl, hrun, hget⟩ := ih hr (cs.modify i (· ++ bs)) (by simp [hcs])
      refine ⟨cs', hl, by rw [runEffects_cons, hstep, hrun], ?_⟩
      intro j h1 h2
      have := hget j (by simp; omega) h2
      rw [this, List.getElem_modify]
      simp only [appendedData]
      by_cases hij : i = j
      · simp [hij]
      · simp [hij]
    | _ => exact absurd he (by simp [isDataAppend])

theorem appendedData_append (i : Nat) (a b : List Effect) :
    appendedData i (a ++ b) = appendedData i a ++ appendedData i b := by
  induction a with
  | nil => simp [appendedData]
  | cons e r ih =>
    cases e <;> simp only [List.cons_append, appendedData, ih]
    split <;> simp

theorem appendedData_prefix (i : Nat) {a b : List Effect} (h : a <+: b) :
    appendedData i a <+: appendedData i b := by
  obtain ⟨t, rfl⟩ := h
  rw [appendedData_append]
  exact List.prefix_append _ _

/-! ### files.json not yet complete -/

def notParsed {α : Type} (m : Manifest α) : Prop := m = .absent ∨ m = .unparsable

def isWriteFiles : Effect → Prop
  | .writeFiles _ => True
  | _ => False

theorem files_notParsed (img : Image) (es : List Effect) (hi : notParsed img.files)
    (hes : ∀ e ∈ es, ¬ isWriteFiles e) : notParsed (runEffects img es).files := by
  induction es generalizing img with
  | nil => exact hi
  | cons e r ih =>
    rw [runEffects_cons]
    apply ih _ _ (fun x hx => hes x (List.mem_cons_of_mem _ hx))
    have he := hes e List.mem_cons_self
    cases e with
    | writeFiles l => exact absurd trivial he
    | manifestBegin m => cases m <;> simp only [applyEffect, setManifest] <;> first | exact hi | exact Or.inr rfl
    | _ => exact hi

theorem load_err_of_notParsed (h : Bytes → Nat) (cmp : Bytes → Bytes → Int) (img : Image)
    (hf : notParsed img.files) (useDelta : Bool) : load h cmp useDelta img = .err := by
  unfold load
  cases versionOf img.version with
  | none => rfl
  | some ver => rcases hf with hf | hf <;> rw [hf]

theorem not_isWriteFiles_of_dataAppend {n : Nat} {e : Effect} (h : isDataAppend n e) : ¬ isWriteFiles e := by
  cases e <;> simp [isDataAppend, isWriteFiles] at h ⊢

theorem header_no_writeFiles (n ver : Nat) : ∀ e ∈ storeHeader n ver, ¬ isWriteFiles e := by
  intro e he
  simp only [storeHeader, List.mem_append, List.mem_cons, List.not_mem_nil, or_false] at he
  rcases he with (rfl | he) | rfl | rfl
  · simp [isWriteFiles]
  · have : ∀ n, ∀ e ∈ createAll n, ¬ isWriteFiles e := by
      intro n
      induction n with
      | zero => simp [createAll]
      | succ n ih =>
        intro e he
        simp only [createAll, List.mem_append, List.mem_singleton] at he
        rcases he with he | rfl
        · exact ih e he
        · simp [isWriteFiles]
    exact this n e he
  · simp [isWriteFiles]
  · simp [isWriteFiles]

/-! ### `load` on a stage image -/

/-- nitro.json and files.json complete, checksums.json absent or complete, every shard file holding a
    prefix of what will be written: an error unless every file is complete, and then the content -/
theorem load_stage (h : Bytes → Nat) (cmp : Bytes → Bytes → Int) (parts : List (List Bytes))
    (hval : ValidItems parts.flatten) {ver : Nat} (hv : ver ≠ 0) (sums : Manifest (List Nat))
    (hsums : sums = .absent ∨ sums = .parsed (parts.map (writerChecksum h)))
    (cs : List Bytes) (hlen : cs.length = parts.length)
    (hpre : ∀ i (h1 : i < cs.length) (h2 : i < parts.length), cs[i] <+: writeFile parts[i]) :
    (load h cmp false (stage ver (.parsed (shardNames parts.length)) sums cs) = .err ∧
      ∃ i, ∃ (h1 : i < cs.length) (h2 : i < parts.length), cs[i] ≠ writeFile parts[i]) ∨
    (load h cmp false (stage ver (.parsed (shardNames parts.length)) sums cs) = .ok parts.flatten ∧
      cs = parts.map writeFile) := by
  by_cases hall : cs = parts.map writeFile
  · right
    refine ⟨?_, hall⟩
    subst hall
    rcases hsums with rfl | rfl
    · simp only [load, stage, versionOf]
      rw [← shardFiles_eq, loadShards_written_unchecked h hv Gen.checksumMismatch
        (fun s a => checksumMismatch_unchecked s a) parts hval]
      simp
    · exact load_storeImage h cmp parts hval hv
  · left
    obtain ⟨i, h1, h2, hd⟩ := exists_getElem_ne (by simpa using hlen) hall
    have hi : i < parts.length := by simpa using h2
    have hne : cs[i] ≠ writeFile parts[i] := by simpa using hd
    refine ⟨?_, i, h1, hi, hne⟩
    exact load_truncated h cmp parts hval hv _ rfl cs hlen rfl
      (fun k _ => lookup_filesOf_zero k _) i hi (hpre i h1 hi) hne false

theorem load_err_of_sums_unparsable (h : Bytes → Nat) (cmp : Bytes → Bytes → Int) (img : Image)
    (hu : img.sums = .unparsable) (useDelta : Bool) : load h cmp useDelta img = .err := by
  unfold load
  cases versionOf img.version with
  | none => rfl
  | some ver =>
    cases img.files with
    | absent => rfl
    | unparsable => rfl
    | parsed files => simp [loadShards, hu, sumsOf]

/-! ### the crash theorem -/

/-- the shard contents after the Visitor's writes `mid` and the Close writes `q` so far -/
theorem stage_after (h : Bytes → Nat) (parts : List (List Bytes)) (ver : Nat) {es : List Effect}
    (tr : StoreTrace h parts ver es) (f : Manifest (List String)) (s : Manifest (List Nat))
    (q : List Effect) (hq : q <+: tr.closes) :
    ∃ cs : List Bytes, cs.length = parts.length ∧
      runEffects (stage ver f s (List.replicate parts.length [])) (tr.mid ++ q) = stage ver f s cs ∧
      (∀ i (h1 : i < cs.length) (_ : i < parts.length), cs[i] = appendedData i (tr.mid ++ q)) ∧
      (∀ i (h1 : i < cs.length) (h2 : i < parts.length), cs[i] <+: writeFile parts[i]) := by
  have hall : ∀ e ∈ tr.mid ++ q, isDataAppend parts.length e := by
    intro e he
    rcases List.mem_append.1 he with he | he
    · exact tr.midData e he
    · exact tr.closesData e (hq.subset he)
  obtain ⟨cs, hl, hrun, hget⟩ := runEffects_appends parts.length ver f s (tr.mid ++ q) hall
    (List.replicate parts.length []) (by simp)
  have hcs : ∀ i (h1 : i < cs.length) (h2 : i < parts.length), cs[i] = appendedData i (tr.mid ++ q) := by
    intro i h1 h2
    rw [hget i (by simpa using h2) h1]
    simp
  refine ⟨cs, hl, hrun, hcs, ?_⟩
  intro i h1 h2
  rw [hcs i h1 h2, ← tr.total i h2]
  exact appendedData_prefix i ((List.prefix_append_right_inj _).2 hq)

/-- image after the header and the Visitor's writes -/
theorem imageAfter_header_mid (n ver : Nat) (es : List Effect) :
    imageAfter (storeHeader n ver ++ es) = runEffects (stage ver .absent .absent (List.replicate n [])) es := by
  have := imageAfter_header n ver
  unfold imageAfter at this ⊢
  rw [runEffects_append, this]

theorem runEffects_stage_manifest (ver : Nat) (f : Manifest (List String)) (s : Manifest (List Nat))
    (n : Nat) (es : List Effect) (hes : ∀ e ∈ es, isDataAppend n e) (cs : List Bytes) (hcs : cs.length = n)
    (f' : Manifest (List String)) (s' : Manifest (List Nat)) (cs' : List Bytes)
    (hr : runEffects (stage ver f s cs) es = stage ver f s cs') :
    runEffects (stage ver f' s' cs) es = stage ver f' s' cs' := by
  obtain ⟨cs'', _, hrun, _⟩ := runEffects_appends n ver f' s' es hes cs hcs
  obtain ⟨cs3, _, hrun3, _⟩ := runEffects_appends n ver f s es hes cs hcs
  rw [hrun3] at hr
  have hd : filesOf 0 cs3 = filesOf 0 cs' := congrArg Image.data hr
  -- both runs compute the same data
  have hdata : ∀ (img1 img2 : Image) (es : List Effect), (∀ e ∈ es, isDataAppend n e) →
      img1.data = img2.data → (runEffects img1 es).data = (runEffects img2 es).data := by
    intro img1 img2 es
    induction es generalizing img1 img2 with
    | nil => intro _ h; exact h
    | cons e r ih =>
      intro hes h
      rw [runEffects_cons, runEffects_cons]
      apply ih _ _ (fun x hx => hes x (List.mem_cons_of_mem _ hx))
      have he := hes e List.mem_cons_self
      cases e <;> simp [isDataAppend] at he <;> simp [applyEffect, h]
  have h2 := hdata (stage ver f' s' cs) (stage ver f s cs) es hes rfl
  rw [hrun, hrun3] at h2
  rw [hrun]
  simp only [stage] at h2 hd ⊢
  rw [h2, hd]

/-- **Crash at any point of StoreToDisk.**  For every prefix `p` of every effect list of a store of
    `parts`: LoadFromDisk of the directory as `p` leaves it returns an error, or it returns the
    content — and this only when every shard file is complete. -/
theorem crash_prefix (h : Bytes → Nat) (cmp : Bytes → Bytes → Int) (parts : List (List Bytes))
    (hval : ValidItems parts.flatten) {ver : Nat} (hv : ver ≠ 0) {es : List Effect}
    (tr : StoreTrace h parts ver es) (p : List Effect) (hp : p <+: es) :
    load h cmp false (imageAfter p) = .err ∨
    (load h cmp false (imageAfter p) = .ok parts.flatten ∧ (imageAfter p).data = shardFiles 0 parts) := by
  have hshape := tr.shape
  rw [hshape] at hp
  have stageCase : ∀ (s : Manifest (List Nat)) (q : List Effect), q <+: tr.closes →
      (s = .absent ∨ s = .parsed (parts.map (writerChecksum h))) →
      ∀ cs, cs.length = parts.length →
      (∀ i (h1 : i < cs.length) (h2 : i < parts.length), cs[i] <+: writeFile parts[i]) →
      load h cmp false (stage ver (.parsed (shardNames parts.length)) s cs) = .err ∨
      (load h cmp false (stage ver (.parsed (shardNames parts.length)) s cs) = .ok parts.flatten ∧
        (stage ver (.parsed (shardNames parts.length)) s cs).data = shardFiles 0 parts) := by
    intro s q _ hs cs hl hpre
    rcases load_stage h cmp parts hval hv s hs cs hl hpre with ⟨he, _⟩ | ⟨hok, hcs⟩
    · exact Or.inl he
    · exact Or.inr ⟨hok, by rw [hcs]; rfl⟩
  rcases prefix_append_cases hp with h1 | ⟨q, rfl, hq⟩
  · rcases prefix_append_cases h1 with h2 | ⟨m, rfl, hm⟩
    · -- the crash is before files.json is complete
      left
      apply load_err_of_notParsed
      apply files_notParsed _ _ (Or.inl rfl)
      intro e he
      rcases List.mem_append.1 (h2.subset he) with hh | hh
      · exact header_no_writeFiles _ _ e hh
      · exact not_isWriteFiles_of_dataAppend (tr.midData e hh)
    · obtain ⟨cs, hl, hrun, _, hpre⟩ := stage_after h parts ver tr .absent .absent [] List.nil_prefix
      rw [List.append_nil] at hrun
      have hmid : ∀ f s, runEffects (stage ver f s (List.replicate parts.length [])) tr.mid = stage ver f s cs :=
        fun f s => runEffects_stage_manifest ver .absent .absent parts.length tr.mid tr.midData _
          (by simp) f s cs hrun
      rw [List.append_assoc, imageAfter_header_mid, runEffects_append, hmid]
      rcases prefix_four hm with rfl | rfl | rfl | rfl | rfl
      · left; exact load_err_of_notParsed h cmp _ (Or.inl rfl) false
      · left; exact load_err_of_notParsed h cmp _ (Or.inr rfl) false
      · exact stageCase .absent [] List.nil_prefix (Or.inl rfl) cs hl hpre
      · left; exact load_err_of_sums_unparsable h cmp _ rfl false
      · exact stageCase _ [] List.nil_prefix (Or.inr rfl) cs hl hpre
  · obtain ⟨cs, hl, hrun, _, hpre⟩ := stage_after h parts ver tr .absent .absent q hq
    have hall : ∀ e ∈ tr.mid ++ q, isDataAppend parts.length e := by
      intro e he
      rcases List.mem_append.1 he with he | he
      · exact tr.midData e he
      · exact tr.closesData e (hq.subset he)
    obtain ⟨cs0, hl0, hrun0, _, _⟩ := stage_after h parts ver tr .absent .absent [] List.nil_prefix
    rw [List.append_nil] at hrun0
    have hmid : ∀ f s, runEffects (stage ver f s (List.replicate parts.length [])) tr.mid = stage ver f s cs0 :=
      fun f s => runEffects_stage_manifest ver .absent .absent parts.length tr.mid tr.midData _
        (by simp) f s cs0 hrun0
    have hq' : ∀ f s, runEffects (stage ver f s cs0) q = stage ver f s cs := by
      intro f s
      apply runEffects_stage_manifest ver .absent .absent parts.length q
        (fun e he => tr.closesData e (hq.subset he)) cs0 hl0 f s cs
      rw [← hrun0, ← runEffects_append, hrun]
    have himg : imageAfter (storeHeader parts.length ver ++ tr.mid ++ storeManifests h parts ++ q)
        = stage ver (.parsed (shardNames parts.length)) (.parsed (parts.map (writerChecksum h))) cs := by
      rw [List.append_assoc, List.append_assoc, imageAfter_header_mid, runEffects_append, hmid,
        runEffects_append]
      have : runEffects (stage ver .absent .absent cs0) (storeManifests h parts)
          = stage ver (.parsed (shardNames parts.length)) (.parsed (parts.map (writerChecksum h))) cs0 := rfl
      rw [this, hq']
    rw [himg]
    exact stageCase _ q hq (Or.inr rfl) cs hl hpre

/-- after the last effect the directory is exactly `storeImage` -/
theorem imageAfter_complete (h : Bytes → Nat) (parts : List (List Bytes)) (ver : Nat) {es : List Effect}
    (tr : StoreTrace h parts ver es) : imageAfter es = storeImage h parts ver := by
  obtain ⟨cs, hl, hrun, hcs, _⟩ := stage_after h parts ver tr .absent .absent tr.closes (List.prefix_refl _)
  obtain ⟨cs0, hl0, hrun0, _, _⟩ := stage_after h parts ver tr .absent .absent [] List.nil_prefix
  rw [List.append_nil] at hrun0
  have hmid : ∀ f s, runEffects (stage ver f s (List.replicate parts.length [])) tr.mid = stage ver f s cs0 :=
    fun f s => runEffects_stage_manifest ver .absent .absent parts.length tr.mid tr.midData _
      (by simp) f s cs0 hrun0
  have hq' : ∀ f s, runEffects (stage ver f s cs0) tr.closes = stage ver f s cs := by
    intro f s
    apply runEffects_stage_manifest ver .absent .absent parts.length tr.closes tr.closesData cs0 hl0 f s cs
    rw [← hrun0, ← runEffects_append, hrun]
  have hfull : cs = parts.map writeFile := by
    apply List.ext_getElem (by simpa using hl)
    intro i h1 h2
    have hi : i < parts.length := by simpa using h2
    rw [hcs i h1 hi, tr.total i hi]
    simp
  rw [tr.shape, List.append_assoc, List.append_assoc, imageAfter_header_mid, runEffects_append, hmid,
    runEffects_append]
  have : runEffects (stage ver .absent .absent cs0) (storeManifests h parts)
      = stage ver (.parsed (shardNames parts.length)) (.parsed (parts.map (writerChecksum h))) cs0 := rfl
  rw [this, hq', hfull]
  rfl

/-- as long as no deferred Close has written anything, no shard file has its terminator: with at
    least one shard every such crash image is rejected -/
theorem crash_before_closes_err (h : Bytes → Nat) (cmp : Bytes → Bytes → Int) (parts : List (List Bytes))
    (hval : ValidItems parts.flatten) {ver : Nat} (hv : ver ≠ 0) (hn : 0 < parts.length)
    {es : List Effect} (tr : StoreTrace h parts ver es) (p : List Effect)
    (hp : p <+: storeHeader parts.length ver ++ tr.mid ++ storeManifests h parts) :
    load h cmp false (imageAfter p) = .err := by
  have hpes : p <+: es := by
    rw [tr.shape]; exact hp.trans (List.prefix_append _ _)
  rcases crash_prefix h cmp parts hval hv tr p hpes with he | ⟨_, hdata⟩
  · exact he
  · exfalso
    -- the image's shard 0 would be complete, but the Visitor never writes a terminator
    obtain ⟨t, ht⟩ := hp
    obtain ⟨cs0, hl0, hrun0, hcs0, _⟩ := stage_after h parts ver tr .absent .absent [] List.nil_prefix
    rw [List.append_nil] at hrun0 hcs0
    -- data of the image after p is a prefix-stage of data after header ++ mid ++ manifests
    have hfullimg : (imageAfter (storeHeader parts.length ver ++ tr.mid ++ storeManifests h parts)).data
        = filesOf 0 cs0 := by
      have hmid : ∀ f s, runEffects (stage ver f s (List.replicate parts.length [])) tr.mid = stage ver f s cs0 :=
        fun f s => runEffects_stage_manifest ver .absent .absent parts.length tr.mid tr.midData _
          (by simp) f s cs0 hrun0
      rw [List.append_assoc, imageAfter_header_mid, runEffects_append, hmid]
      rfl
    -- appending effects never shrinks a file: the complete shard 0 stays complete
    have hmono : ∀ (es : List Effect) (img : Image) (name : String) (c : Bytes),
        lookup name img.data = some c → ∃ c', lookup name (runEffects img es).data = some c' ∧ c <+: c' := by
      intro es
      induction es with
      | nil => intro img name c hc; exact ⟨c, hc, List.prefix_refl _⟩
      | cons e r ih =>
        intro img name c hc
        rw [runEffects_cons]
        have hstep : ∃ c1, lookup name (applyEffect img e).data = some c1 ∧ c <+: c1 := by
          have happ : ∀ (nm : String) (bs : Bytes) (fs : List (String × Bytes)) (c : Bytes),
              lookup name fs = some c →
              ∃ c1, lookup name (appendFile nm bs fs) = some c1 ∧ c <+: c1 := by
            intro nm bs fs
            induction fs with
            | nil => intro c hc; simp [lookup] at hc
            | cons pr rr ihf =>
              intro c hc
              obtain ⟨n1, c1⟩ := pr
              simp only [appendFile]
              by_cases hnm : n1 = nm
              · rw [if_pos hnm]
                simp only [lookup] at hc ⊢
                by_cases hnn : n1 = name
                · rw [if_pos hnn] at hc ⊢
                  simp only [Option.some.injEq] at hc
                  exact ⟨c1 ++ bs, rfl, by rw [← hc]; exact List.prefix_append _ _⟩
                · rw [if_neg hnn] at hc ⊢
                  exact ⟨c, hc, List.prefix_refl _⟩
              · rw [if_neg hnm]
                simp only [lookup] at hc ⊢
                by_cases hnn : n1 = name
                · rw [if_pos hnn] at hc ⊢
                  exact ⟨c, hc, List.prefix_refl _⟩
                · rw [if_neg hnn] at hc ⊢
                  exact ihf c hc
          have hcre : ∀ (nm : String) (fs : List (String × Bytes)),
              lookup name fs = some c → lookup name (createFile nm fs) = some c := by
            intro nm fs hc
            unfold createFile
            cases hl : lookup nm fs with
            | some x => exact hc
            | none =>
              simp only
              have : ∀ (fs : List (String × Bytes)), lookup name fs = some c →
                  lookup name (fs ++ [(nm, [])]) = some c := by
                intro fs
                induction fs with
                | nil => intro hc; simp [lookup] at hc
                | cons pr rr ihf =>
                  intro hc
                  obtain ⟨n1, c1⟩ := pr
                  simp only [List.cons_append, lookup] at hc ⊢
                  by_cases hnn : n1 = name
                  · rw [if_pos hnn] at hc ⊢; exact hc
                  · rw [if_neg hnn] at hc ⊢; exact ihf hc
              exact this fs hc
          cases e with
          | appendData i bs => exact happ _ bs _ c hc
          | createData i => exact ⟨c, hcre _ _ hc, List.prefix_refl _⟩
          | manifestBegin m => cases m <;> exact ⟨c, hc, List.prefix_refl _⟩
          | _ => exact ⟨c, hc, List.prefix_refl _⟩
        obtain ⟨c1, hc1, hpre1⟩ := hstep
        obtain ⟨c2, hc2, hpre2⟩ := ih _ name c1 hc1
        exact ⟨c2, hc2, hpre1.trans hpre2⟩
    have h0 : lookup (shardName 0) (imageAfter p).data = some (writeFile parts[0]) := by
      rw [hdata, shardFiles_eq, lookup_filesOf_zero]
      simp [hn]
    obtain ⟨c', hc', hpre'⟩ := hmono t (imageAfter p) (shardName 0) _ h0
    have : runEffects (imageAfter p) t
        = imageAfter (storeHeader parts.length ver ++ tr.mid ++ storeManifests h parts) := by
      unfold imageAfter; rw [← runEffects_append, ht]
    rw [this, hfullimg, lookup_filesOf_zero] at hc'
    have hc0 : cs0[0]'(by omega) = c' := by
      have := (List.getElem?_eq_some_iff.1 hc').2
      exact this
    have hbody := tr.midItems 0 hn
    rw [← hcs0 0 (by omega) hn, hc0] at hbody
    -- writeFile part <+: c' <+: frames of the items: impossible, the file is 4 bytes longer
    have hlen1 := hpre'.length_le
    have hlen2 := hbody.length_le
    have : (writeFile parts[0]).length = (parts[0].flatMap encodeItem).length + 4 := by
      simp [writeFile, encodeItem, encodeLen_eq]
    omega

/-! ### write failures -/

instance (n : Nat) (e : Effect) : Decidable (isDataAppend n e) := by
  cases e <;> simp only [isDataAppend] <;> infer_instance

theorem applyBudget_ok {b : Budget} {img img' : Image} {e : Effect}
    (h : applyBudget b img e = (img', true)) : img' = applyEffect img e := by
  unfold applyBudget at h
  split at h
  · simp only at h
    split at h
    · simp only [Prod.mk.injEq, and_true] at h; exact h.symm
    · simp at h
  · simp only at h
    split at h
    · simp only [Prod.mk.injEq, and_true] at h; exact h.symm
    · simp at h
  · split at h
    · split at h
      · simp only [Prod.mk.injEq, and_true] at h; exact h.symm
      · simp at h
    · simp only [Prod.mk.injEq, and_true] at h; exact h.symm

theorem runUntilFailure_ok {b : Budget} (es : List Effect) {img img' : Image}
    (h : runUntilFailure b img es = (img', true)) : img' = runEffects img es := by
  induction es generalizing img with
  | nil => simp only [runUntilFailure, Prod.mk.injEq, and_true] at h; exact h.symm
  | cons e r ih =>
    simp only [runUntilFailure] at h
    cases ha : applyBudget b img e with
    | mk i1 ok1 =>
      rw [ha] at h
      cases ok1 with
      | true =>
        simp only at h
        rw [runEffects_cons, ← applyBudget_ok ha]
        exact ih h
      | false => simp at h

theorem runAll_ok {b : Budget} (es : List Effect) {img img' : Image}
    (h : runAll b img es = (img', true)) : img' = runEffects img es := by
  induction es generalizing img with
  | nil => simp only [runAll, Prod.mk.injEq, and_true] at h; exact h.symm
  | cons e r ih =>
    simp only [runAll] at h
    cases ha : applyBudget b img e with
    | mk i1 ok1 =>
      rw [ha] at h
      cases hr : runAll b i1 r with
      | mk i2 ok2 =>
        rw [hr] at h
        simp only [Prod.mk.injEq, Bool.and_eq_true] at h
        obtain ⟨rfl, rfl, rfl⟩ := h
        rw [runEffects_cons, ← applyBudget_ok ha]
        exact ih hr

/-- fixed code: success means every effect was performed in full -/
theorem storeWithBudget_ok {b : Budget} {main deferred : List Effect} {img : Image}
    (h : storeWithBudget true b main deferred = (.ok, img)) : img = imageAfter (main ++ deferred) := by
  unfold storeWithBudget at h
  cases hm : runUntilFailure b emptyImage main with
  | mk i1 ok1 =>
    rw [hm] at h
    simp only at h
    cases hd : runAll b i1 deferred with
    | mk i2 ok2 =>
      rw [hd] at h
      simp only [Bool.not_true, Bool.or_false, Prod.mk.injEq] at h
      obtain ⟨hres, rfl⟩ := h
      cases ok1 <;> cases ok2 <;> simp at hres
      unfold imageAfter
      rw [runEffects_append, ← runUntilFailure_ok main hm]
      exact runAll_ok deferred hd

end NitroVerif.Backup
