/-
  A property of every legal sequential history of `Spec/SetSpec.lean`: for each key the successful Puts and
  the successful Deletes alternate ("exactly one succeeds per state change").
-/
import NitroVerif.Lemmas.MvccConcLinStep5

namespace NitroVerif.MvccConc
open NitroVerif
open NitroVerif.SetSpec (Op Out Entry findKey ins removeKey)

theorem findKey_ins_self {k v e : Nat} : ∀ {l : List Entry}, findKey k l = none → (findKey k (ins ⟨k, v, e⟩ l)).isSome = true
  | [], _ => by simp [ins, findKey]
  | x :: xs, h => by
    have hx : x.key ≠ k := by
      intro he; simp [findKey, List.find?_cons, he] at h
    have hxs : findKey k xs = none := by
      simp only [findKey, List.find?_cons] at h ⊢
      have : (x.key == k) = false := by simp [hx]
      rw [this] at h; exact h
    unfold ins
    split
    · have ih := findKey_ins_self (v := v) (e := e) hxs
      simp only [findKey, List.find?_cons] at ih ⊢
      have : (x.key == k) = false := by simp [hx]
      rw [this]; exact ih
    · simp [findKey, List.find?_cons]

theorem findKey_ins_other {k k' v e : Nat} (hne : k' ≠ k) : ∀ (l : List Entry),
    findKey k' (ins ⟨k, v, e⟩ l) = findKey k' l
  | [] => by
    have : (k == k') = false := by simp; exact fun h => hne h.symm
    simp [ins, findKey, List.find?_cons, this]
  | x :: xs => by
    unfold ins
    split
    · simp only [findKey, List.find?_cons]
      have ih := findKey_ins_other (v := v) (e := e) hne xs
      simp only [findKey] at ih
      rw [ih]
    · have : (k == k') = false := by simp; exact fun h => hne h.symm
      simp only [findKey, List.find?_cons, this]

theorem findKey_removeKey_other {k k' : Nat} (hne : k' ≠ k) (l : List Entry) :
    findKey k' (removeKey k l) = findKey k' l := by
  unfold findKey removeKey
  rw [List.find?_filter]
  apply Mvcc.find?_congr'
  intro a _
  by_cases h : a.key = k'
  · have : a.key ≠ k := by omega
    simp [h, hne]
  · simp [h]

/-- whether key `k` is alive in the specification state -/
def keyAlive (sp : SetSpec.State) (k : Nat) : Bool := (findKey k sp.alive).isSome

/-- the key an event's operation works on, and whether it succeeded -/
def Ev.winOn (k : Nat) : Ev → Option Bool
  | .lin _ (.put _ k' _) (.bool true) => if k' = k then some true else none
  | .lin _ (.del _ k') (.bool true) => if k' = k then some false else none
  | _ => none

/-- the successful operations on key `k` in linearization order: `true` = Put, `false` = Delete -/
def winners (k : Nat) (l : List Ev) : List Bool := l.filterMap (Ev.winOn k)

/-- Puts and Deletes alternate, starting with the one that is possible in a state where the key is alive
    (`a = true`: a Delete) or absent (`a = false`: a Put) -/
def Alternates : Bool → List Bool → Prop
  | _, [] => True
  | a, b :: r => b = !a ∧ Alternates b r

theorem specStep_key {sp sp' : SetSpec.State} {e : Ev} (k : Nat) (h : specStep sp e = some sp') :
    match Ev.winOn k e with
    | some b => b = !keyAlive sp k ∧ keyAlive sp' k = b
    | none => keyAlive sp' k = keyAlive sp k := by
  cases e with
  | call t op => simp [specStep] at h; subst h; simp [Ev.winOn]
  | ret t r => simp [specStep] at h; subst h; simp [Ev.winOn]
  | snap r =>
    simp only [specStep] at h
    split at h
    · injection h with h; subst h; simp [Ev.winOn, keyAlive, SetSpec.step]
    · cases h
  | lin t op res =>
    simp only [specStep] at h
    split at h
    · rename_i hres
      obtain ⟨hop, hres⟩ := hres
      injection h with h; subst h
      cases op with
      | put w k' v =>
        simp only [SetSpec.step] at hres ⊢
        by_cases hw : w < sp.nwriters
        · simp only [hw, if_true] at hres ⊢
          cases hf : findKey k' sp.alive with
          | some e =>
            simp only [hf] at hres ⊢
            subst hres
            simp [Ev.winOn]
          | none =>
            simp only [hf] at hres ⊢
            subst hres
            by_cases hk : k' = k
            · subst hk
              simp only [Ev.winOn, if_true, keyAlive, hf, Option.isSome_none, Bool.not_false, true_and]
              exact findKey_ins_self hf
            · simp only [Ev.winOn, hk, if_false, keyAlive]
              rw [findKey_ins_other (fun h => hk h.symm)]
        · simp only [hw, if_false] at hres ⊢
          subst hres; simp [Ev.winOn]
      | del w k' =>
        simp only [SetSpec.step] at hres ⊢
        by_cases hw : w < sp.nwriters
        · simp only [hw, if_true] at hres ⊢
          cases hf : findKey k' sp.alive with
          | none =>
            simp only [hf] at hres ⊢
            subst hres
            simp [Ev.winOn]
          | some e =>
            simp only [hf] at hres ⊢
            subst hres
            have hek : e.key = k' := by
              unfold findKey at hf
              have := List.find?_some hf
              simpa using this
            by_cases hk : k' = k
            · subst hk
              simp only [Ev.winOn, if_true, keyAlive, hf, Option.isSome_some, Bool.not_true, true_and,
                SetSpec.delEntry, hek]
              rw [findKey_removeKey]; rfl
            · simp only [Ev.winOn, hk, if_false, keyAlive, SetSpec.delEntry, hek]
              rw [findKey_removeKey_other (fun h => hk h.symm)]
        · simp only [hw, if_false] at hres ⊢
          subst hres; simp [Ev.winOn]
      | get w k' =>
        simp only [SetSpec.step, Ev.winOn]
        split <;> rfl
      | _ => simp [linOp] at hop
    · cases h

/-- in every legal sequential history the successful operations on a key alternate -/
theorem alternates_of_replay (k : Nat) : ∀ (l : List Ev) (sp sp' : SetSpec.State), replay sp l = some sp' →
    Alternates (keyAlive sp k) (winners k l)
  | [], _, _, _ => trivial
  | e :: es, sp, sp', h => by
    simp only [replay] at h
    cases hs : specStep sp e with
    | none => rw [hs] at h; cases h
    | some sp1 =>
      rw [hs] at h
      have ih := alternates_of_replay k es sp1 sp' h
      have hk := specStep_key k hs
      unfold winners at ih ⊢
      simp only [List.filterMap_cons]
      cases hw : Ev.winOn k e with
      | none =>
        rw [hw] at hk; simp only at hk ⊢
        rw [← hk]; exact ih
      | some b =>
        rw [hw] at hk; simp only at hk ⊢
        exact ⟨hk.1, by rw [← hk.2]; exact ih⟩

end NitroVerif.MvccConc
