import NitroVerif.Lemmas.TableOps
/-!
  The node table refines the association-list map: simulation relation, one step, whole runs.
-/
namespace NitroVerif.Table
open NitroVerif NitroVerif.Table.GenLemmas

/-- the API contract of the table: the pointer handed to Update points to an object whose key is
    the key handed to Update (`keyEqual(nptr, key)` holds) -/
def contract (keyOf : Ptr → Key) : MapSpec.Op → Prop
  | .update k p => keyOf p = k
  | _ => True

instance (keyOf : Ptr → Key) (op : MapSpec.Op) : Decidable (contract keyOf op) :=
  match op with
  | .update k p => inferInstanceAs (Decidable (keyOf p = k))
  | .get _ => isTrue trivial
  | .remove _ => isTrue trivial
  | .count => isTrue trivial

section
variable (hash : Key → Hash) (keyOf : Ptr → Key)

/-- bucket-level invariant: every pointer sits in the bucket of its key's hash, and the keys of
    one bucket (fast entry + slow list) are pairwise distinct -/
structure BInv (t : Table) : Prop where
  hashOk : ∀ h p, p ∈ bucket t h → hash (keyOf p) = h
  keysNodup : ∀ h, ((bucket t h).map keyOf).Nodup

/-- simulation relation between the table and the spec map -/
structure Rel (t : Table) (m : MapSpec.Map) : Prop where
  sinv : SInv t
  binv : BInv hash keyOf t
  mnodup : (AL.keys m).Nodup
  lookup : ∀ k, AL.get m k = lookupB keyOf k (bucket t (hash k))
  count : m.length = itemsCount t

theorem Rel_empty : Rel hash keyOf {} [] := by
  refine ⟨SInv_empty, ⟨?_, ?_⟩, by simp [AL.keys], ?_, by simp [itemsCount]⟩
  · intro h p hp; simp [bucket, bucketOf, AL.get] at hp
  · intro h; simp [bucket, bucketOf, AL.get]
  · intro k; simp [bucket, bucketOf, AL.get, lookupB]

theorem mem_updateB {key : Key} {np : Ptr} {b : List Ptr} {x : Ptr}
    (h : x ∈ updateB keyOf key np b) : x = np ∨ x ∈ b := by
  unfold updateB at h
  split at h
  · exact mem_replaceFirst keyOf h
  · simp only [List.mem_append, List.mem_singleton] at h
    exact h.symm

theorem nodup_updateB {key : Key} {np : Ptr} (hnp : keyOf np = key) {b : List Ptr}
    (hn : (b.map keyOf).Nodup) : ((updateB keyOf key np b).map keyOf).Nodup := by
  unfold updateB
  split
  · rw [map_replaceFirst keyOf hnp]; exact hn
  · rename_i hnot
    have hnone : lookupB keyOf key b = none := by
      cases hl : lookupB keyOf key b with
      | none => rfl
      | some x => simp [hl] at hnot
    have hnotin := (lookupB_none_iff keyOf).1 hnone
    rw [List.map_append, List.nodup_append]
    refine ⟨hn, by simp, ?_⟩
    intro a ha c hc
    simp only [List.map_cons, List.map_nil, List.mem_singleton] at hc
    subst hc
    intro e; subst e; rw [hnp] at ha; exact hnotin ha

theorem update_rel {t : Table} {m : MapSpec.Map} (hR : Rel hash keyOf t m) (k : Key) (p : Ptr)
    (hc : keyOf p = k) :
    Rel hash keyOf (update hash keyOf t k p).1 (AL.set m k p) ∧
    (update hash keyOf t k p).2.1 = (AL.get m k).isSome ∧
    (update hash keyOf t k p).2.2 = AL.get m k := by
  obtain ⟨hS, hB, hu, ho, hcnt⟩ := update_ok hash keyOf hR.sinv k p
  rw [← hR.lookup k] at hu ho hcnt
  refine ⟨⟨hS, ⟨?_, ?_⟩, AL.nodup_set _ _ _ hR.mnodup, ?_, ?_⟩, hu, ho⟩
  · intro h x hx
    rw [hB] at hx
    by_cases e : h = hash k
    · simp only [e, if_true] at hx
      rcases mem_updateB keyOf hx with rfl | hx
      · rw [hc, e]
      · rw [e]; exact hR.binv.hashOk _ _ hx
    · simp only [e, if_false] at hx
      exact hR.binv.hashOk _ _ hx
  · intro h
    rw [hB]
    by_cases e : h = hash k
    · simp only [e, if_true]
      exact nodup_updateB keyOf hc (hR.binv.keysNodup _)
    · simp only [e, if_false]
      exact hR.binv.keysNodup _
  · intro k'
    rw [AL.get_set, hB]
    by_cases e : hash k' = hash k
    · simp only [e, if_true]
      rw [lookupB_updateB keyOf hc, ← e, ← hR.lookup k']
    · have hne : k' ≠ k := fun h => e (by rw [h])
      simp only [e, hne, if_false]
      exact hR.lookup k'
  · rw [AL.length_set, hcnt, hR.count]
    split <;> simp

theorem remove_rel {t : Table} {m : MapSpec.Map} (hR : Rel hash keyOf t m) (k : Key) :
    Rel hash keyOf (remove hash keyOf t k).1 (AL.del m k) ∧
    (remove hash keyOf t k).2.1 = (AL.get m k).isSome ∧
    (remove hash keyOf t k).2.2 = AL.get m k := by
  obtain ⟨hS, hB, hu, ho, hcnt⟩ := remove_ok hash keyOf hR.sinv k
  rw [← hR.lookup k] at hu ho hcnt
  refine ⟨⟨hS, ⟨?_, ?_⟩, AL.nodup_del _ _ hR.mnodup, ?_, ?_⟩, hu, ho⟩
  · intro h x hx
    rw [hB] at hx
    by_cases e : h = hash k
    · simp only [e, if_true] at hx
      rw [e]; exact hR.binv.hashOk _ _ ((eraseFirst_sublist keyOf k _).subset hx)
    · simp only [e, if_false] at hx
      exact hR.binv.hashOk _ _ hx
  · intro h
    rw [hB]
    by_cases e : h = hash k
    · simp only [e, if_true]
      exact (hR.binv.keysNodup _).sublist ((eraseFirst_sublist keyOf k _).map keyOf)
    · simp only [e, if_false]
      exact hR.binv.keysNodup _
  · intro k'
    rw [AL.get_del _ _ hR.mnodup, hB]
    by_cases e : hash k' = hash k
    · simp only [e, if_true]
      rw [lookupB_eraseFirst keyOf _ (hR.binv.keysNodup _), ← e, ← hR.lookup k']
    · have hne : k' ≠ k := fun h => e (by rw [h])
      simp only [e, hne, if_false]
      exact hR.lookup k'
  · have := AL.length_del m k
    rw [← hR.count] at hcnt
    omega

/-- one API call: same output as the spec, relation preserved -/
theorem step_rel {t : Table} {m : MapSpec.Map} (hR : Rel hash keyOf t m) (op : MapSpec.Op)
    (hc : contract keyOf op) :
    Rel hash keyOf (step hash keyOf t op).1 (MapSpec.step m op).1 ∧
    (step hash keyOf t op).2 = (MapSpec.step m op).2 := by
  cases op with
  | update k p =>
    obtain ⟨h1, h2, h3⟩ := update_rel hash keyOf hR k p hc
    simp only [step, MapSpec.step]
    exact ⟨h1, by rw [h2, h3]⟩
  | get k =>
    simp only [step, MapSpec.step]
    exact ⟨hR, by rw [get_eq_lookup hash keyOf hR.sinv, hR.lookup]⟩
  | remove k =>
    obtain ⟨h1, h2, h3⟩ := remove_rel hash keyOf hR k
    simp only [step, MapSpec.step]
    exact ⟨h1, by rw [h2, h3]⟩
  | count =>
    simp only [step, MapSpec.step]
    exact ⟨hR, by rw [hR.count]⟩

/-- whole runs from related states -/
theorem runFrom_rel {t : Table} {m : MapSpec.Map} (hR : Rel hash keyOf t m) (ops : List MapSpec.Op)
    (hc : ∀ op ∈ ops, contract keyOf op) :
    Rel hash keyOf (runFrom hash keyOf t ops).1 (MapSpec.runFrom m ops).1 ∧
    (runFrom hash keyOf t ops).2 = (MapSpec.runFrom m ops).2 := by
  induction ops generalizing t m with
  | nil => exact ⟨hR, rfl⟩
  | cons op ops ih =>
    obtain ⟨h1, h2⟩ := step_rel hash keyOf hR op (hc op List.mem_cons_self)
    obtain ⟨h3, h4⟩ := ih h1 (fun o ho => hc o (List.mem_cons_of_mem _ ho))
    simp only [runFrom, MapSpec.runFrom]
    exact ⟨h3, by rw [h2, h4]⟩

end
end NitroVerif.Table
