import NitroVerif.Lemmas.SkipConcQuietReach
/-!
  Quiescence of M5, part 2: the RESPONSIBLE thread of a deleted node that is still linked.

  `RespPC h pc d j`: a thread parked at `pc` will unlink node `d` at level `j` (or restart and try again): it is
  inside a findPath for the item of `d` that has not yet finished level `j` and from whose position `prev` (and
  `curr`, on the level it is working on) `d` is reachable along the level-`j` words, or it is about to start the
  cleaning search of `deleteNode` (DEL_SEARCH).

  `RespPC.keep`: stable under the writes of the other threads while `d` stays on the chain.
  `RespPC.step`: the responsible thread's own segment keeps it responsible, or unlinks `d`.
-/
namespace NitroVerif.SkipConc
open NitroVerif

def RespPC (h : Heap) (d j : Nat) : PC → Prop
  | .findLevel fp => keyOf h d = .fin fp.item ∧ j ≤ fp.i ∧ ReachL h j fp.prev d
  | .findNext fp rr => keyOf h d = .fin fp.item ∧ j ≤ fp.i ∧ ReachL h j fp.prev d ∧
      (rr = false → j = fp.i → ReachL h j fp.curr d)
  | .helpDelete fp _ => keyOf h d = .fin fp.item ∧ j ≤ fp.i ∧ ReachL h j fp.prev d
  | .delSearch item => keyOf h d = .fin item
  | _ => False

theorem RespPC.not_idle {h : Heap} {d j : Nat} {pc : PC} (r : RespPC h d j pc) : isIdle pc = false := by
  cases pc <;> simp only [RespPC, isIdle] at * <;> trivial

/-- the writes of the other threads do not take the responsibility away -/
theorem RespPC.keep {h h' : Heap} {ev : LEv} {lv : Nat} {th : Thread} {d j : Nat} (H : HInv h) (R : ReachInv h)
    (L : LvInv h) (H' : HInv h') (L' : LvInv h') (e : Ext h h') (s : LStep h ev h') (hL : TL h lv th)
    (r : RespPC h d j th.pc) (hd : OnChain h' j d) : RespPC h' d j th.pc := by
  have hp := hL.2
  cases hpc : th.pc <;> rw [hpc] at r hp <;> simp only [RespPC, PCL] at * <;> try trivial
  · have hdl := lt_of_keyOf_fin r.1
    exact ⟨by rw [e.key _ hdl]; exact r.1, r.2.1, r.2.2.keepT H R L H' L' s (hp.2.1.mono r.2.1) hd⟩
  · have hdl := lt_of_keyOf_fin r.1
    refine ⟨by rw [e.key _ hdl]; exact r.1, r.2.1, r.2.2.1.keepT H R L H' L' s (hp.2.1.mono r.2.1) hd, ?_⟩
    intro hr hj
    exact (r.2.2.2 hr hj).keepT H R L H' L' s ((hp.2.2.1 hr).mono r.2.1) hd
  · have hdl := lt_of_keyOf_fin r.1
    exact ⟨by rw [e.key _ hdl]; exact r.1, r.2.1, r.2.2.keepT H R L H' L' s (hp.2.1.mono r.2.1) hd⟩
  · have hdl := lt_of_keyOf_fin r
    rw [e.key _ hdl]; exact r

/-- a node (not the head) that is marked at level 0 and is on the chain of level `j` is marked at level `j` -/
theorem markedAt_of_marked0 {h : Heap} (H : HInv h) {d j : Nat} (hd0 : d ≠ 0) (hm : marked0 h d)
    (hc : OnChain h j d) : markedAt h j d := by
  obtain ⟨q, hq⟩ := hm
  obtain ⟨b, m, hb⟩ := hc.pointed hd0
  rcases H.hl _ _ _ _ hb with e | hs
  · subst e; rw [H.tailNoWord] at hq; simp at hq
  · obtain ⟨⟨p, mp⟩, hw⟩ := Option.isSome_iff_exists.mp hs
    have := H.h4 _ _ _ _ _ _ hq (Nat.zero_le j) hw
    subst this
    exact ⟨p, hw⟩

end NitroVerif.SkipConc
