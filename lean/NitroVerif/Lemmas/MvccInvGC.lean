/-
  `GC()` re-establishes the full invariant from the state left by a retiring `Close`;
  `Open`, `Close` and the iterator constructor/destructor preserve the invariant.
-/
import NitroVerif.Lemmas.MvccInvRc

namespace NitroVerif.Mvcc
open NitroVerif SetSpec

theorem removedBy_true {L : List Snap} {g' : Nat} {v : Ver} (h : removedBy L g' v = true) :
    ∃ z ∈ L, z.st = .retired ∧ z.sn ≤ g' ∧ ∃ x ∈ z.gclist, sameId v x = true := by
  unfold removedBy collectedBy at h
  simp only [List.any_eq_true, Bool.and_eq_true, decide_eq_true_eq] at h
  obtain ⟨z, hz, ⟨h1, h2⟩, x, hx, hs⟩ := h
  exact ⟨z, hz, h1, h2, x, hx, hs⟩

theorem removedBy_of {L : List Snap} {g' : Nat} {v : Ver} {z : Snap} (hz : z ∈ L)
    (h1 : z.st = .retired) (h2 : z.sn ≤ g') {x : Ver} (hx : x ∈ z.gclist) (hs : sameId v x = true) :
    removedBy L g' v = true := by
  unfold removedBy collectedBy
  simp only [List.any_eq_true, Bool.and_eq_true, decide_eq_true_eq]
  exact ⟨z, hz, ⟨h1, h2⟩, x, hx, hs⟩

theorem inv_gc {σ : State} (h : PreGC σ) : Inv (gc σ) := by
  have hgt : ∀ s ∈ σ.snaps, s.st ≠ .collected → σ.lastGCSn < s.sn := by
    intro s hs hst
    have := h.coll s hs
    by_cases hle : s.sn ≤ σ.lastGCSn
    · exact absurd (this.mpr hle) hst
    · omega
  have hcol : ∀ s ∈ σ.snaps, s.st = .collected → s.sn ≤ σ.lastGCSn :=
    fun s hs hc => (h.coll s hs).mp hc
  have hq : ∀ s ∈ σ.snaps, ∀ n, σ.lastGCSn < n → n < s.sn → ∃ s' ∈ σ.snaps, s'.sn = n := by
    intro s hs n h1 h2
    exact h.all n (by omega) (by have := (h.lt s hs).2; omega)
  have post := collectDead_post σ.snaps σ.lastGCSn σ.store h.inc hgt
  have front := collectDead_front σ.snaps σ.lastGCSn σ.store h.inc hgt hcol hq
  have hge := post.ge
  have hrange := post.range
  have hgceq : gc σ = { σ with
      snaps := σ.snaps.map (markCollected (collectDead σ.snaps σ.lastGCSn σ.store).2.1),
      lastGCSn := (collectDead σ.snaps σ.lastGCSn σ.store).2.1,
      store := σ.store.filter (fun v => !removedBy σ.snaps (collectDead σ.snaps σ.lastGCSn σ.store).2.1 v) } := by
    unfold gc
    simp only
    rw [← post.snaps, ← post.store]
  rw [hgceq]
  clear hgceq post
  generalize (collectDead σ.snaps σ.lastGCSn σ.store).2.1 = g' at hge hrange front ⊢
  -- a removed version is named by the gclist of a retired snapshot at or below the new frontier
  have hrem : ∀ v ∈ σ.store, removedBy σ.snaps g' v = true →
      ∃ z ∈ σ.snaps, z.st = .retired ∧ z.sn ≤ g' ∧ v.dead = z.sn := by
    intro v hv hr
    obtain ⟨z, hz, h1, h2, x, hx, hs⟩ := removedBy_true hr
    exact ⟨z, hz, h1, h2, (h.garb.ssound z hz (by rw [h1]; decide) x hx).2 v hv hs⟩
  have hsub : ∀ v ∈ σ.store.filter (fun v => !removedBy σ.snaps g' v), v ∈ σ.store :=
    fun v hv => (List.mem_filter.mp hv).1
  have hg'lt : g' < σ.currSn := by
    by_cases he : g' = σ.lastGCSn
    · rw [he]; exact h.gclt
    · obtain ⟨z, hz, _, hzs⟩ := hrange g' (by omega) (Nat.le_refl _)
      have := (h.lt z hz).2; omega
  have hfrom : ∀ y ∈ σ.snaps.map (markCollected g'), ∃ z ∈ σ.snaps, y = markCollected g' z :=
    fun y hy => by obtain ⟨z, hz, rfl⟩ := List.mem_map.mp hy; exact ⟨z, hz, rfl⟩
  have hmk_sn : ∀ z, (markCollected g' z).sn = z.sn := by
    intro z; unfold markCollected; split <;> rfl
  have hmk_rc : ∀ z, (markCollected g' z).rc = z.rc := by
    intro z; unfold markCollected; split <;> rfl
  have hmk_content : ∀ z, (markCollected g' z).content = z.content := by
    intro z; unfold markCollected; split <;> rfl
  have hmk_count : ∀ z, (markCollected g' z).count = z.count := by
    intro z; unfold markCollected; split <;> rfl
  have hmk_gclist : ∀ z, (markCollected g' z).gclist = z.gclist := by
    intro z; unfold markCollected; split <;> rfl
  have hmk_live : ∀ z, (markCollected g' z).st = .live ↔ z.st = .live := by
    intro z; unfold markCollected collectedBy
    by_cases h1 : z.st = .retired
    · by_cases h2 : z.sn ≤ g' <;> simp [h1, h2]
    · simp [h1]
  -- the new status is `collected` exactly up to the new frontier
  have hmk_coll : ∀ z ∈ σ.snaps, ((markCollected g' z).st = .collected ↔ z.sn ≤ g') := by
    intro z hz
    unfold markCollected
    by_cases hc : collectedBy g' z = true
    · simp only [hc, if_true, true_iff]
      unfold collectedBy at hc; simp at hc; exact hc.2
    · have hc' : collectedBy g' z = false := by simpa using hc
      simp only [hc', Bool.false_eq_true, if_false]
      rw [h.coll z hz]
      constructor
      · intro h1; omega
      · intro h1
        by_cases h2 : z.sn ≤ σ.lastGCSn
        · exact h2
        · exfalso
          obtain ⟨z', hz', hr, hzs⟩ := hrange z.sn (by omega) h1
          have e := snap_unique h.inc hz' hz hzs
          rw [e] at hr
          rw [show collectedBy g' z = true by simp [collectedBy, hr, h1]] at hc'; cases hc'
  refine ⟨sorted_filter h.sorted _, chains_filter h.chains _, ?_, ?_, ?_, ?_, ?_, ?_⟩
  all_goals dsimp only
  · have h1 := h.count
    unfold CountInv at h1 ⊢
    rw [filter_filter_of_imp]
    · exact h1
    · intro v hv hq
      obtain ⟨z, hz, _, _, hd⟩ := hrem v hv (by simpa using hq)
      have := (h.lt z hz).1
      simp [isAlive]; omega
  · refine ⟨?_, ?_, ?_, ?_, hg'lt, ?_, ?_, ?_⟩
    · intro y hy; obtain ⟨z, hz, rfl⟩ := hfrom y hy; rw [hmk_sn]; exact h.lt z hz
    · intro n h0 hn
      obtain ⟨z, hz, hzn⟩ := h.all n h0 hn
      exact ⟨markCollected g' z, List.mem_map.mpr ⟨z, hz, rfl⟩, by rw [hmk_sn]; exact hzn⟩
    · apply List.pairwise_map.mpr
      simp only [hmk_sn]; exact h.inc
    · intro y hy; obtain ⟨z, hz, rfl⟩ := hfrom y hy
      rw [hmk_rc, hmk_live]; exact h.rc z hz
    · intro y hy; obtain ⟨z, hz, rfl⟩ := hfrom y hy
      rw [hmk_sn]; exact hmk_coll z hz
    · intro y hy hys; obtain ⟨z, hz, rfl⟩ := hfrom y hy
      rw [hmk_sn] at hys
      rw [hmk_live]; exact front z hz hys
    · intro y hy; obtain ⟨z, hz, rfl⟩ := hfrom y hy
      rw [hmk_count, hmk_content]; exact h.cnt z hz
  · intro y hy hrc
    obtain ⟨z, hz, rfl⟩ := hfrom y hy
    rw [hmk_rc] at hrc
    rw [hmk_sn, hmk_content, view_filter]
    · exact h.view z hz hrc
    · intro v hv hq
      obtain ⟨z', hz', _, hle, hd⟩ := hrem v hv (by simpa using hq)
      -- z is live, hence above the new frontier
      have hzl : ¬ z.sn ≤ g' := by
        intro hle'
        have h1 := (hmk_coll z hz).mpr hle'
        have h2 := (hmk_live z).mpr ((h.rc z hz).2.mpr hrc)
        rw [h2] at h1; cases h1
      cases hvis : visible z.sn v
      · rfl
      · have := (visible_iff z.sn v).mp hvis
        have := (h.lt z' hz').1
        omega
  · have hg := h.garb
    refine ⟨?_, ?_, ?_, ?_, ?_, ?_, ?_⟩
    · intro v hv; exact hg.wgc v (hsub v hv)
    · intro v hv hd hlt
      obtain ⟨z, hz, hzs, x, hx, hs⟩ := hg.sgc v (hsub v hv) hd hlt
      exact ⟨markCollected g' z, List.mem_map.mpr ⟨z, hz, rfl⟩, by rw [hmk_sn]; exact hzs, x,
        by rw [hmk_gclist]; exact hx, hs⟩
    · intro x hx
      have ⟨h1, h2⟩ := hg.wsound x hx
      exact ⟨h1, fun v hv => h2 v (hsub v hv)⟩
    · intro y hy hyst x hx
      obtain ⟨z, hz, rfl⟩ := hfrom y hy
      rw [hmk_gclist] at hx; rw [hmk_sn]
      have hzst : z.st ≠ .collected := by
        intro hc
        apply hyst
        exact (hmk_coll z hz).mpr (Nat.le_trans ((h.coll z hz).mp hc) hge)
      have ⟨h1, h2⟩ := hg.ssound z hz hzst x hx
      exact ⟨h1, fun v hv => h2 v (hsub v hv)⟩
    · intro v hv hd
      have hv' := List.mem_filter.mp hv
      have h0 := hg.exact v hv'.1 hd
      by_cases hle : v.dead ≤ g'
      · exfalso
        obtain ⟨z, hz, hr, hzs⟩ := hrange v.dead h0 hle
        obtain ⟨z', hz', hzs', x, hx, hs⟩ := hg.sgc v hv'.1 hd (by omega)
        have e := snap_unique h.inc hz' hz (by omega)
        rw [e] at hx
        have := removedBy_of (g' := g') hz hr (by omega) hx hs
        simp [this] at hv'
      · omega
    · intro x hx
      obtain ⟨v, hv, hsid⟩ := hg.wpres x hx
      refine ⟨v, List.mem_filter.mpr ⟨hv, ?_⟩, hsid⟩
      cases hr : removedBy σ.snaps g' v
      · rfl
      · exfalso
        obtain ⟨z, hz, _, hle, hd⟩ := hrem v hv hr
        have h1 := (hg.wsound x hx).2 v hv hsid
        have h2 := (h.lt z hz).2
        omega
    · intro y hy hyst x hx
      obtain ⟨z, hz, rfl⟩ := hfrom y hy
      rw [hmk_gclist] at hx
      have hzst : z.st ≠ .collected := by
        intro hc
        apply hyst
        exact (hmk_coll z hz).mpr (Nat.le_trans ((h.coll z hz).mp hc) hge)
      obtain ⟨v, hv, hsid⟩ := hg.spres z hz hzst x hx
      refine ⟨v, List.mem_filter.mpr ⟨hv, ?_⟩, hsid⟩
      cases hr : removedBy σ.snaps g' v
      · rfl
      · exfalso
        obtain ⟨z', hz', hr', hle, hd⟩ := hrem v hv hr
        have h1 := (hg.ssound z hz hzst x hx).2 v hv hsid
        have e := snap_unique h.inc hz' hz (by omega)
        rw [e] at hr'
        exact hyst ((hmk_coll z hz).mpr (by omega))
  · refine ⟨?_, ?_⟩
    · intro p hp
      obtain ⟨z, hz, hzs, hc⟩ := h.iters.snap p hp
      exact ⟨markCollected g' z, List.mem_map.mpr ⟨z, hz, rfl⟩, by rw [hmk_sn]; exact hzs,
        by rw [hmk_content]; exact hc⟩
    · intro y hy; obtain ⟨z, hz, rfl⟩ := hfrom y hy
      rw [hmk_sn, hmk_rc]; exact h.iters.refs z hz
  · intro p hp hgone
    rcases h.handles p hp hgone with h1 | ⟨v, hv, hk⟩
    · exact Or.inl h1
    · by_cases hr : removedBy σ.snaps g' v = true
      · obtain ⟨z, hz, _, _, hd⟩ := hrem v hv hr
        have h1 := h.chains.1 v hv
        have h2 := (h.lt z hz).1
        exact Or.inl (by omega)
      · exact Or.inr ⟨v, List.mem_filter.mpr ⟨hv, by simpa using hr⟩, hk⟩

end NitroVerif.Mvcc
