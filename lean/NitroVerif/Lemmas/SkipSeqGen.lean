import NitroVerif.Gen.Guards
/-!
  Characterisation of the generated guard definitions that M3 (`Model/SkipSeq.lean`) calls.  A change
  of the corresponding Go condition changes `Gen/Guards.lean` and breaks the lemma named here.
-/
namespace NitroVerif.SkipSeq
open NitroVerif

theorem maxLevel_eq : Gen.maxLevel = 32 := rfl

/-- `findPath` advances along the level iff `cmpVal < 0` -/
theorem findAdvance_iff (c : Int) : Gen.findAdvance c = true ↔ c < 0 := by
  simp [Gen.findAdvance]

/-- `findPath` reports a node iff the last `cmpVal` is `0` -/
theorem findFound_iff (c : Int) : Gen.findFound c = true ↔ c = 0 := by
  simp [Gen.findFound]

/-- `helpDelete` accounts the unlink iff the CAS succeeded on level 0 -/
theorem helpAccounts_iff (success : Bool) (level : Nat) :
    Gen.helpAccounts success level = true ↔ success = true ∧ level = 0 := by
  simp [Gen.helpAccounts]

/-- `softDelete` wins iff the mark CAS succeeded on level 0 -/
theorem softDeleteWins_iff (swapped : Bool) (i : Nat) :
    Gen.softDeleteWins swapped i = true ↔ swapped = true ∧ i = 0 := by
  simp [Gen.softDeleteWins]

/-- `NewLevel` clamps the drawn level to `MaxLevel` -/
theorem newLevelClamp_eq (n : Nat) : Gen.newLevelClamp n = min n Gen.maxLevel := by
  unfold Gen.newLevelClamp
  by_cases h : n > Gen.maxLevel
  · simp [h]; omega
  · simp [h]; omega

theorem newLevelClamp_le (n : Nat) : Gen.newLevelClamp n ≤ Gen.maxLevel := by
  rw [newLevelClamp_eq]; omega

/-- `NewLevel` bumps the list level iff the drawn level exceeds it -/
theorem newLevelBump_iff (n level : Nat) : Gen.newLevelBump n level = true ↔ level < n := by
  simp [Gen.newLevelBump]

/-- `MergeIterator.SeekFirst` / `Seek` empty the heap before refilling it (the fixed code) -/
theorem mergeSeekFirstResets_eq : Gen.mergeSeekFirstResets = true := rfl
theorem mergeSeekResets_eq : Gen.mergeSeekResets = true := rfl

/-! call skeletons of the functions the model follows -/
theorem skeleton_findPath_ok : Gen.skeleton_findPath =
    ["atomic.LoadInt32(s.level)", "prev.getNext", "curr.getNext", "s.helpDelete", "prev.getNext", "curr.getNext"] := rfl
theorem skeleton_Insert4_ok :
    Gen.skeleton_Insert4 = ["s.findPath", "s.freeNode", "buf.preds[0].dcasNext", "x.getNext", "x.dcasNext",
      "next.getNext", "s.findPath", "buf.preds[i].dcasNext", "x.getNext", "s.findPath", "s.findPath"] := rfl
theorem skeleton_softDelete_ok : Gen.skeleton_softDelete =
    ["delNode.getNext", "delNode.dcasNext", "delNode.getNext"] := rfl
theorem skeleton_deleteNode_ok : Gen.skeleton_deleteNode = ["s.softDelete", "s.findPath"] := rfl
theorem skeleton_helpDelete_ok : Gen.skeleton_helpDelete = ["prev.dcasNext"] := rfl
theorem skeleton_SkiplistIteratorNext_ok : Gen.skeleton_SkiplistIteratorNext =
    ["it.curr.getNext", "atomic.AddUint64(it.s.Stats.readConflicts)", "it.Refresh"] := rfl

end NitroVerif.SkipSeq
