import NitroVerif.Lemmas.BarrierAbs
/-!
  Abstract barrier states in "tabulated" form (`tab`): the sessions `0 … cur`, session `s` with
  `held s` anonymous holders (`Unit`), flushed iff `s < cur`, object `obj s`.
  Effect of every action of `AbsBarrier` on a tabulated state.  Pure list reasoning; no model imported.
-/
namespace NitroVerif.AbsBarrier
set_option linter.unusedSimpArgs false

/-- the session `s` of a tabulated state -/
def tabSess (cur : Nat) (held obj : Nat → Nat) (s : Nat) : ASess Unit Nat :=
  ⟨List.replicate (held s) (), decide (s < cur), if s < cur then obj s else 0⟩

def tab (cur : Nat) (held obj : Nat → Nat) (fs : Nat) (lg : List Nat) : AbsBarrier Unit Nat :=
  ⟨(List.range (cur + 1)).map (tabSess cur held obj), fs, lg⟩

theorem tab_sess_length (cur : Nat) (held obj : Nat → Nat) (fs : Nat) (lg : List Nat) :
    (tab cur held obj fs lg).sess.length = cur + 1 := by simp [tab]

theorem tab_getElem? (cur : Nat) (held obj : Nat → Nat) (fs : Nat) (lg : List Nat) (s : Nat) :
    (tab cur held obj fs lg).sess[s]? = if s < cur + 1 then some (tabSess cur held obj s) else none := by
  simp only [tab, List.getElem?_map, List.getElem?_range']
  by_cases h : s < cur + 1
  · simp [h, List.getElem?_range h]
  · simp [h, List.getElem?_eq_none]

theorem tab_congr (cur : Nat) (held held' obj obj' : Nat → Nat) (fs : Nat) (lg : List Nat)
    (hh : ∀ s, s ≤ cur → held s = held' s) (ho : ∀ s, s < cur → obj s = obj' s) :
    tab cur held obj fs lg = tab cur held' obj' fs lg := by
  unfold tab
  congr 1
  apply List.map_congr_left
  intro s hs
  simp at hs
  unfold tabSess
  rw [hh s (by omega)]
  by_cases h : s < cur
  · simp [h, ho s h]
  · simp [h]

theorem modify_tab (cur : Nat) (held obj : Nat → Nat) (k : Nat) (f : ASess Unit Nat → ASess Unit Nat) :
    ((List.range (cur + 1)).map (tabSess cur held obj)).modify k f
      = (List.range (cur + 1)).map (fun s => if s = k then f (tabSess cur held obj s) else tabSess cur held obj s) := by
  apply List.ext_getElem?
  intro j
  rw [List.getElem?_modify]
  simp only [List.getElem?_map]
  by_cases hj : j < cur + 1
  · simp [List.getElem?_range hj]
    by_cases e : k = j
    · subst e; simp
    · have e' : ¬ j = k := fun h => e h.symm
      simp [e, e']
  · simp [List.getElem?_eq_none, hj]

theorem acqF_tab (cur : Nat) (held obj : Nat → Nat) (fs : Nat) (lg : List Nat) :
    acqF (tab cur held obj fs lg) () = tab cur (fun s => held s + (if s = cur then 1 else 0)) obj fs lg := by
  unfold acqF
  rw [tab_sess_length]
  simp only [tab, Nat.add_sub_cancel]
  rw [modify_tab]
  congr 1
  apply List.map_congr_left
  intro s _
  by_cases e : s = cur
  · subst e; simp [tabSess, List.replicate_succ']
  · simp [tabSess, e]

theorem relF_tab (cur : Nat) (held obj : Nat → Nat) (fs : Nat) (lg : List Nat) (s0 : Nat) :
    relF (tab cur held obj fs lg) s0 () = tab cur (fun s => held s - (if s = s0 then 1 else 0)) obj fs lg := by
  unfold relF
  simp only [tab]
  rw [modify_tab]
  congr 1
  apply List.map_congr_left
  intro s _
  by_cases e : s = s0
  · subst e
    simp only [tabSess, if_true]
    cases hh : held s with
    | zero => simp
    | succ n => simp [List.replicate_succ]
  · simp [tabSess, e]

theorem holds_tab (cur : Nat) (held obj : Nat → Nat) (fs : Nat) (lg : List Nat) (s0 : Nat)
    (hs : s0 ≤ cur) (hh : 1 ≤ held s0) : holds (tab cur held obj fs lg) s0 () = true := by
  unfold holds
  rw [tab_getElem?, if_pos (by omega)]
  simp only [tabSess]
  cases hc : held s0 with
  | zero => omega
  | succ n => simp [List.replicate_succ]

theorem flushF_tab (cur : Nat) (held obj : Nat → Nat) (fs : Nat) (lg : List Nat) (o : Nat)
    (h0 : held (cur + 1) = 0) :
    flushF (tab cur held obj fs lg) o = tab (cur + 1) held (fun s => if s = cur then o else obj s) fs lg := by
  unfold flushF
  rw [tab_sess_length]
  simp only [tab, Nat.add_sub_cancel]
  rw [modify_tab]
  congr 1
  rw [List.range_succ (n := cur + 1), List.map_append]
  congr 1
  · apply List.map_congr_left
    intro s hs
    simp at hs
    by_cases e : s = cur
    · subst e; simp [tabSess]
    · have h1 : s < cur := by omega
      have h2 : s < cur + 1 := by omega
      simp [tabSess, e, h1, h2]
  · simp [tabSess, h0]

@[simp] theorem tab_freeSeq (cur : Nat) (held obj : Nat → Nat) (fs : Nat) (lg : List Nat) :
    (tab cur held obj fs lg).freeSeq = fs := rfl
@[simp] theorem tab_log (cur : Nat) (held obj : Nat → Nat) (fs : Nat) (lg : List Nat) :
    (tab cur held obj fs lg).log = lg := rfl

theorem ready_tab (cur : Nat) (held obj : Nat → Nat) (fs : Nat) (lg : List Nat) :
    ready (tab cur held obj fs lg) = (decide (fs < cur) && decide (held fs = 0)) := by
  unfold ready
  rw [tab_getElem?, tab_freeSeq]
  by_cases h : fs < cur + 1
  · rw [if_pos h]
    simp only [ASess.terminated, tabSess]
    cases hc : held fs with
    | zero => simp
    | succ n => simp [List.replicate_succ]
  · have : ¬ fs < cur := by omega
    simp [h, this]

theorem destructF_tab (cur : Nat) (held obj : Nat → Nat) (fs : Nat) (lg : List Nat) (h : fs < cur) :
    destructF (tab cur held obj fs lg) = tab cur held obj (fs + 1) (lg ++ [obj fs]) := by
  unfold destructF
  rw [tab_getElem?, tab_freeSeq, if_pos (by omega)]
  simp [tab, tabSess, h]

end NitroVerif.AbsBarrier
