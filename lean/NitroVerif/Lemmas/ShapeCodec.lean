import NitroVerif.Gen.Shapes
/-!
  Pinned control shapes, area Codec: the functions of /repo the models of this area mirror have, today, exactly
  these shapes (tools/gofacts/shapes.go).  `Gen/Shapes.lean` is regenerated from the working tree on every run; a change
  of an operator, bound, call, early return or loop in one of these functions breaks the lemma named after it.
  Expectations are maintained by hand (bootstrap: `go run . -shape-lemmas Codec`).
-/
namespace NitroVerif.ShapeTie.Codec
open NitroVerif.Gen.Shape

/-- item.go `*Nitro.EncodeItem` -/
theorem shape_EncodeItem_ok : Codec_EncodeItem =
    ["if(<)", "return(_,_)", "PutUint32", "if(!= nil)", "Write", "return()", "ChecksumIEEE", "Bytes", "if(!= nil)", "Write", "return()", "ChecksumIEEE", "return()"] := rfl

/-- item.go `*Nitro.DecodeItem` -/
theorem shape_DecodeItem_ok : Codec_DecodeItem =
    ["if-else(== 0)", "if(!= nil)", "ReadFull", "return(nil,_,_)", "Uint16", "ChecksumIEEE", "if(!= nil)", "ReadFull", "return(nil,_,_)", "Uint32", "ChecksumIEEE", "if(> 0)", "allocItem", "Bytes", "ReadFull", "if(== nil)", "ChecksumIEEE", "return(_,_,_)", "return(nil,_,nil)"] := rfl

/-- item.go `*Item.Bytes` -/
theorem shape_ItemBytes_ok : Codec_ItemBytes =
    ["return()"] := rfl

/-- item.go `.ItemSize` -/
theorem shape_ItemSize_ok : Codec_ItemSize =
    ["return(_)"] := rfl

/-- item.go `.KVToBytes` -/
theorem shape_KVToBytes_ok : Codec_KVToBytes =
    ["PutUint16", "return(_)"] := rfl

/-- item.go `.KVFromBytes` -/
theorem shape_KVFromBytes_ok : Codec_KVFromBytes =
    ["Uint16", "return(_,_)"] := rfl

/-- item.go `.CompareKV` -/
theorem shape_CompareKV_ok : Codec_CompareKV =
    ["Uint16", "Uint16", "return(_)", "Compare"] := rfl

/-- file.go `*rawFileWriter.Open` -/
theorem shape_WriterOpen_ok : Codec_WriterOpen =
    ["OpenFile", "if(== nil)", "NewWriterSize", "return(_)"] := rfl

/-- file.go `*rawFileWriter.WriteItem` -/
theorem shape_WriteItem_ok : Codec_WriteItem =
    ["EncodeItem", "return(_)"] := rfl

/-- file.go `*rawFileWriter.Checksum` -/
theorem shape_WriterChecksum_ok : Codec_WriterChecksum =
    ["return(_)"] := rfl

/-- file.go `*rawFileWriter.Close` -/
theorem shape_WriterClose_ok : Codec_WriterClose =
    ["if(!= nil)", "WriteItem", "return(_)", "if(!= nil)", "Flush", "Close", "return(_)", "return(_)", "Close"] := rfl

/-- file.go `*rawFileReader.Open` -/
theorem shape_ReaderOpen_ok : Codec_ReaderOpen =
    ["Open", "if(== nil)", "NewReaderSize", "return(_)"] := rfl

/-- file.go `*rawFileReader.ReadItem` -/
theorem shape_ReadItem_ok : Codec_ReadItem =
    ["DecodeItem", "if(!= nil)", "return(_,_)"] := rfl

/-- file.go `*rawFileReader.Checksum` -/
theorem shape_ReaderChecksum_ok : Codec_ReaderChecksum =
    ["return(_)"] := rfl

/-- file.go `*rawFileReader.Close` -/
theorem shape_ReaderClose_ok : Codec_ReaderClose =
    ["return(_)", "Close"] := rfl

end NitroVerif.ShapeTie.Codec
