import NitroVerif.Lemmas.BackupEffects
/-!
  Crash images of a delta-mode StoreToDisk: the effects on the delta side and the effects on the
  data side act on disjoint parts of the directory, so the image after any effect list is the merge
  of the images of its two sub-lists; the data side is a non-delta store (lemmas of
  `BackupEffects.lean`), the delta side is one too after exchanging the roles (`swapEff`).
-/
namespace NitroVerif.Backup
open NitroVerif NitroVerif.Codec NitroVerif.Backup.GenLemmas

instance (m : Nat) (e : Effect) : Decidable (isDeltaAppend m e) := by
  cases e <;> simp only [isDeltaAppend] <;> infer_instance

/-! ### splitting an effect list -/

def isDeltaB : Effect → Bool
  | .mkdirDelta => true
  | .createDelta _ => true
  | .appendDelta _ _ => true
  | .writeDFiles _ => true
  | .writeDSums _ => true
  | .manifestBegin .dfiles => true
  | .manifestBegin .dsums => true
  | _ => false

def notDeltaB (e : Effect) : Bool := !isDeltaB e

def isVersionB : Effect → Bool
  | .manifestBegin .version => true
  | .writeVersion _ => true
  | _ => false

def notVersionB (e : Effect) : Bool := !isVersionB e

/-- delta part of `a`, everything else of `b` -/
def mergeD (a b : Image) : Image := { b with dfiles := a.dfiles, dsums := a.dsums, delta := a.delta }

/-- version of `a`, everything else of `b` -/
def mergeV (a b : Image) : Image := { b with version := a.version }

theorem runEffects_split (P : Effect → Bool) (mergeF : Image → Image → Image)
    (h1 : ∀ e a b, P e = true → applyEffect (mergeF a b) e = mergeF (applyEffect a e) b)
    (h2 : ∀ e a b, P e = false → applyEffect (mergeF a b) e = mergeF a (applyEffect b e))
    (es : List Effect) (a b : Image) :
    runEffects (mergeF a b) es
      = mergeF (runEffects a (es.filter P)) (runEffects b (es.filter (fun e => !P e))) := by
  induction es generalizing a b with
  | nil => rfl
  | cons e r ih =>
    rw [runEffects_cons]
    cases hp : P e with
    | true =>
      rw [h1 e a b hp, ih]
      simp [hp, runEffects_cons]
    | false =>
      rw [h2 e a b hp, ih]
      simp [hp, runEffects_cons]

theorem imageAfter_splitD (es : List Effect) :
    imageAfter es = mergeD (imageAfter (es.filter isDeltaB)) (imageAfter (es.filter notDeltaB)) := by
  have := runEffects_split isDeltaB mergeD
    (by
      intro e a b h
      cases e with
      | manifestBegin m => cases m <;> first | rfl | simp [isDeltaB] at h
      | _ => first | rfl | simp [isDeltaB] at h)
    (by
      intro e a b h
      cases e with
      | manifestBegin m => cases m <;> first | rfl | simp [isDeltaB] at h
      | _ => first | rfl | simp [isDeltaB] at h)
    es emptyImage emptyImage
  exact this

theorem imageAfter_splitV (es : List Effect) :
    imageAfter es = mergeV (imageAfter (es.filter isVersionB)) (imageAfter (es.filter notVersionB)) := by
  have := runEffects_split isVersionB mergeV
    (by
      intro e a b h
      cases e with
      | manifestBegin m => cases m <;> first | rfl | simp [isVersionB] at h
      | _ => first | rfl | simp [isVersionB] at h)
    (by
      intro e a b h
      cases e with
      | manifestBegin m => cases m <;> first | rfl | simp [isVersionB] at h
      | _ => first | rfl | simp [isVersionB] at h)
    es emptyImage emptyImage
  exact this

/-- a loader without delta files does not see the delta side -/
theorem load_false_mergeD (h : Bytes → Nat) (cmp : Bytes → Bytes → Int) (a b : Image) :
    load h cmp false (mergeD a b) = load h cmp false b := by
  simp [load, mergeD]

/-! ### exchanging the roles of the data and the delta directory -/

def swapEff : Effect → Effect
  | .mkdirData => .mkdirDelta
  | .mkdirDelta => .mkdirData
  | .createData i => .createDelta i
  | .createDelta i => .createData i
  | .appendData i b => .appendDelta i b
  | .appendDelta i b => .appendData i b
  | .manifestBegin .files => .manifestBegin .dfiles
  | .manifestBegin .dfiles => .manifestBegin .files
  | .manifestBegin .sums => .manifestBegin .dsums
  | .manifestBegin .dsums => .manifestBegin .sums
  | .manifestBegin .version => .manifestBegin .version
  | .writeVersion v => .writeVersion v
  | .writeFiles l => .writeDFiles l
  | .writeDFiles l => .writeFiles l
  | .writeSums l => .writeDSums l
  | .writeDSums l => .writeSums l

def swapImg (img : Image) : Image :=
  { version := img.version, files := img.dfiles, sums := img.dsums, dfiles := img.files,
    dsums := img.sums, data := img.delta, delta := img.data }

theorem applyEffect_swap (img : Image) (e : Effect) :
    applyEffect (swapImg img) (swapEff e) = swapImg (applyEffect img e) := by
  cases e <;> first | rfl | (rename_i m; cases m <;> rfl)

theorem runEffects_swap (img : Image) (es : List Effect) :
    runEffects (swapImg img) (es.map swapEff) = swapImg (runEffects img es) := by
  induction es generalizing img with
  | nil => rfl
  | cons e r ih => rw [List.map_cons, runEffects_cons, runEffects_cons, applyEffect_swap, ih]

theorem swapEff_swapEff (e : Effect) : swapEff (swapEff e) = e := by
  cases e <;> first | rfl | (rename_i m; cases m <;> rfl)

theorem swapImg_swapImg (img : Image) : swapImg (swapImg img) = img := rfl

theorem imageAfter_swap (es : List Effect) : imageAfter es = swapImg (imageAfter (es.map swapEff)) := by
  have := runEffects_swap emptyImage (es.map swapEff)
  rw [List.map_map] at this
  have hid : (swapEff ∘ swapEff) = id := funext swapEff_swapEff
  rw [hid, List.map_id] at this
  unfold imageAfter
  have he : swapImg emptyImage = emptyImage := rfl
  rw [he] at this
  exact this

/-! ### filters on the segments of a delta-mode effect list -/

theorem filter_notDelta_createAll (n : Nat) : (createAll n).filter notDeltaB = createAll n := by
  induction n with
  | zero => rfl
  | succ n ih => simp [createAll, List.filter_append, ih, notDeltaB, isDeltaB]

theorem filter_notDelta_createAllDelta (m : Nat) : (createAllDelta m).filter notDeltaB = [] := by
  induction m with
  | zero => rfl
  | succ m ih => simp [createAllDelta, List.filter_append, ih, notDeltaB, isDeltaB]

theorem filter_isDelta_createAll (n : Nat) : (createAll n).filter isDeltaB = [] := by
  induction n with
  | zero => rfl
  | succ n ih => simp [createAll, List.filter_append, ih, isDeltaB]

theorem filter_isDelta_createAllDelta (m : Nat) : (createAllDelta m).filter isDeltaB = createAllDelta m := by
  induction m with
  | zero => rfl
  | succ m ih => simp [createAllDelta, List.filter_append, ih, isDeltaB]

theorem map_swap_createAllDelta (m : Nat) : (createAllDelta m).map swapEff = createAll m := by
  induction m with
  | zero => rfl
  | succ m ih => simp [createAllDelta, createAll, ih, swapEff]

theorem filter_notDelta_header (n m ver : Nat) :
    (storeHeaderDelta n m ver).filter notDeltaB = storeHeader n ver := by
  simp [storeHeaderDelta, storeHeader, List.filter_append, filter_notDelta_createAll,
    filter_notDelta_createAllDelta, notDeltaB, isDeltaB]

theorem filter_isDelta_header (n m ver : Nat) :
    (storeHeaderDelta n m ver).filter isDeltaB = [.mkdirDelta] ++ createAllDelta m := by
  simp [storeHeaderDelta, List.filter_append, List.filter_cons, filter_isDelta_createAll,
    filter_isDelta_createAllDelta, isDeltaB]

theorem isDeltaB_of_deltaAppend {m : Nat} {e : Effect} (h : isDeltaAppend m e) : isDeltaB e = true := by
  cases e <;> simp [isDeltaAppend] at h <;> rfl

theorem isDeltaB_of_dataAppend {n : Nat} {e : Effect} (h : isDataAppend n e) : isDeltaB e = false := by
  cases e <;> simp [isDataAppend] at h <;> rfl

theorem filter_notDelta_of_delta {m : Nat} {l : List Effect} (h : ∀ e ∈ l, isDeltaAppend m e) :
    l.filter notDeltaB = [] := by
  rw [List.filter_eq_nil_iff]
  intro e he
  simp [notDeltaB, isDeltaB_of_deltaAppend (h e he)]

theorem filter_isDelta_of_delta {m : Nat} {l : List Effect} (h : ∀ e ∈ l, isDeltaAppend m e) :
    l.filter isDeltaB = l := by
  rw [List.filter_eq_self]
  intro e he
  exact isDeltaB_of_deltaAppend (h e he)

theorem filter_notDelta_of_data {n : Nat} {l : List Effect} (h : ∀ e ∈ l, isDataAppend n e) :
    l.filter notDeltaB = l := by
  rw [List.filter_eq_self]
  intro e he
  simp [notDeltaB, isDeltaB_of_dataAppend (h e he)]

theorem filter_isDelta_of_data {n : Nat} {l : List Effect} (h : ∀ e ∈ l, isDataAppend n e) :
    l.filter isDeltaB = [] := by
  rw [List.filter_eq_nil_iff]
  intro e he
  simp [isDeltaB_of_dataAppend (h e he)]

theorem appendedData_filter (i : Nat) (l : List Effect) :
    appendedData i (l.filter notDeltaB) = appendedData i l := by
  induction l with
  | nil => rfl
  | cons e r ih =>
    cases e <;> simp [List.filter_cons, notDeltaB, isDeltaB, appendedData, ih]
    all_goals (rename_i m; cases m <;> simp [appendedData, ih])

theorem appendedData_swap (j : Nat) (l : List Effect) :
    appendedData j ((l.filter isDeltaB).map swapEff) = appendedDelta j l := by
  induction l with
  | nil => rfl
  | cons e r ih =>
    cases e <;> simp [List.filter_cons, isDeltaB, appendedData, appendedDelta, swapEff, ih]
    all_goals (rename_i m; cases m <;> simp [appendedData, swapEff, ih])

theorem appendedDelta_append (j : Nat) (a b : List Effect) :
    appendedDelta j (a ++ b) = appendedDelta j a ++ appendedDelta j b := by
  induction a with
  | nil => simp [appendedDelta]
  | cons e r ih =>
    cases e <;> simp only [List.cons_append, appendedDelta, ih]
    split <;> simp

/-! ### the two sides of a delta-mode store -/

/-- the image while the deferred Closes of the data writers run -/
theorem closing_image (h : Bytes → Nat) (parts : List (List Bytes)) (ver : Nat) {es : List Effect}
    (tr : StoreTrace h parts ver es) (q : List Effect) (hq : q <+: tr.closes) :
    ∃ cs : List Bytes, cs.length = parts.length ∧
      imageAfter (storeHeader parts.length ver ++ tr.mid ++ storeManifests h parts ++ q)
        = stage ver (.parsed (shardNames parts.length)) (.parsed (parts.map (writerChecksum h))) cs ∧
      ∀ i (h1 : i < cs.length) (h2 : i < parts.length), cs[i] <+: writeFile parts[i] := by
  obtain ⟨cs, hl, hrun, _, hpre⟩ := stage_after h parts ver tr .absent .absent q hq
  obtain ⟨cs0, hl0, hrun0, _, _⟩ := stage_after h parts ver tr .absent .absent [] List.nil_prefix
  rw [List.append_nil] at hrun0
  have hmid : ∀ f s, runEffects (stage ver f s (List.replicate parts.length [])) tr.mid = stage ver f s cs0 :=
    fun f s => runEffects_stage_manifest ver .absent .absent parts.length tr.mid tr.midData _
      (by simp) f s cs0 hrun0
  have hq' : ∀ f s, runEffects (stage ver f s cs0) q = stage ver f s cs := by
    intro f s
    apply runEffects_stage_manifest ver .absent .absent parts.length q
      (fun e he => tr.closesData e (hq.subset he)) cs0 hl0 f s cs
    rw [← hrun0, ← runEffects_append, hrun]
  refine ⟨cs, hl, ?_, hpre⟩
  rw [List.append_assoc, List.append_assoc, imageAfter_header_mid, runEffects_append, hmid,
    runEffects_append]
  have : runEffects (stage ver .absent .absent cs0) (storeManifests h parts)
      = stage ver (.parsed (shardNames parts.length)) (.parsed (parts.map (writerChecksum h))) cs0 := rfl
  rw [this, hq']

variable {h : Bytes → Nat} {parts dparts : List (List Bytes)} {ver : Nat} {es : List Effect}

/-- everything before the data writers' Closes -/
def StoreTraceDelta.before (tr : StoreTraceDelta h parts dparts ver es) : List Effect :=
  storeHeaderDelta parts.length dparts.length ver ++ tr.mid ++ storeManifests h parts ++ tr.mid2 ++
    deltaManifests h dparts ++ tr.dcloses

theorem StoreTraceDelta.shape' (tr : StoreTraceDelta h parts dparts ver es) :
    es = tr.before ++ tr.closes := tr.shape

theorem StoreTraceDelta.filter_before (tr : StoreTraceDelta h parts dparts ver es) :
    tr.before.filter notDeltaB
      = storeHeader parts.length ver ++ tr.mid.filter notDeltaB ++ storeManifests h parts := by
  have hM : (storeManifests h parts).filter notDeltaB = storeManifests h parts := rfl
  have hDM : (deltaManifests h dparts).filter notDeltaB = [] := rfl
  simp only [StoreTraceDelta.before, List.filter_append, filter_notDelta_header, hM, hDM,
    filter_notDelta_of_delta tr.mid2Ok, filter_notDelta_of_delta tr.dclosesOk, List.append_nil]

/-- the data side of a delta-mode store is a non-delta store -/
def StoreTraceDelta.dataTrace (tr : StoreTraceDelta h parts dparts ver es) :
    StoreTrace h parts ver (es.filter notDeltaB) where
  mid := tr.mid.filter notDeltaB
  closes := tr.closes
  shape :=
    (congrArg (List.filter notDeltaB) tr.shape').trans (by
      rw [List.filter_append, tr.filter_before, filter_notDelta_of_data tr.closesOk])
  midData := by
    intro e he
    obtain ⟨hm, hnd⟩ := List.mem_filter.1 he
    rcases tr.midOk e hm with hd | hd
    · exact hd
    · simp [notDeltaB, isDeltaB_of_deltaAppend hd] at hnd
  closesData := tr.closesOk
  midItems := by
    intro i hi
    rw [appendedData_filter]
    exact tr.midItems i hi
  total := by
    intro i hi
    rw [appendedData_append, appendedData_filter, ← appendedData_append]
    exact tr.total i hi

/-- the delta side, with the roles exchanged, is a non-delta store of `dparts` -/
def StoreTraceDelta.deltaTrace (tr : StoreTraceDelta h parts dparts ver es) :
    StoreTrace h dparts ver
      (storeHeader dparts.length ver ++ ((tr.mid ++ tr.mid2).filter isDeltaB).map swapEff ++
        storeManifests h dparts ++ (tr.dcloses.filter isDeltaB).map swapEff) where
  mid := ((tr.mid ++ tr.mid2).filter isDeltaB).map swapEff
  closes := (tr.dcloses.filter isDeltaB).map swapEff
  shape := rfl
  midData := by
    intro e he
    obtain ⟨e', he', rfl⟩ := List.mem_map.1 he
    obtain ⟨hm, hd⟩ := List.mem_filter.1 he'
    have : isDeltaAppend dparts.length e' := by
      rcases List.mem_append.1 hm with hm | hm
      · rcases tr.midOk e' hm with hx | hx
        · rw [isDeltaB_of_dataAppend hx] at hd; cases hd
        · exact hx
      · exact tr.mid2Ok e' hm
    cases e' <;> simp [isDeltaAppend] at this
    simpa [swapEff, isDataAppend] using this
  closesData := by
    intro e he
    obtain ⟨e', he', rfl⟩ := List.mem_map.1 he
    obtain ⟨hm, _⟩ := List.mem_filter.1 he'
    have := tr.dclosesOk e' hm
    cases e' <;> simp [isDeltaAppend] at this
    simpa [swapEff, isDataAppend] using this
  midItems := by
    intro j hj
    rw [appendedData_swap]
    exact tr.dmidItems j hj
  total := by
    intro j hj
    rw [← List.map_append, ← List.filter_append, appendedData_swap]
    exact tr.dtotal j hj

/-- the delta side of the effects before the data Closes -/
theorem StoreTraceDelta.filter_before_delta (tr : StoreTraceDelta h parts dparts ver es) :
    (tr.before.filter isDeltaB).map swapEff
      = ([.mkdirData] ++ createAll dparts.length ++ ((tr.mid ++ tr.mid2).filter isDeltaB).map swapEff ++
          storeManifests h dparts ++ (tr.dcloses.filter isDeltaB).map swapEff) := by
  have hM : (storeManifests h parts).filter isDeltaB = [] := rfl
  have hDM : ((deltaManifests h dparts).filter isDeltaB).map swapEff = storeManifests h dparts := rfl
  simp only [StoreTraceDelta.before, List.filter_append, filter_isDelta_header, hM, List.map_append,
    hDM, map_swap_createAllDelta, List.append_assoc]
  rfl

/-- … which is the version-free part of the exchanged store -/
theorem StoreTraceDelta.delta_side_image (tr : StoreTraceDelta h parts dparts ver es) :
    imageAfter (tr.before.filter isDeltaB)
      = swapImg { storeImage h dparts ver with version := .absent } := by
  rw [imageAfter_swap, tr.filter_before_delta]
  congr 1
  -- the list is the exchanged store without its two version effects
  have hfull := imageAfter_complete h dparts ver tr.deltaTrace
  rw [imageAfter_splitV] at hfull
  have hA : ∀ l : List Effect, (∀ e ∈ l, isDataAppend dparts.length e) → l.filter notVersionB = l := by
    intro l hl
    rw [List.filter_eq_self]
    intro e he
    have := hl e he
    cases e <;> simp [isDataAppend] at this
    rfl
  have hC : ∀ n, (createAll n).filter notVersionB = createAll n := by
    intro n
    induction n with
    | zero => rfl
    | succ n ih => simp [createAll, List.filter_append, ih, notVersionB, isVersionB]
  have hM : (storeManifests h dparts).filter notVersionB = storeManifests h dparts := rfl
  have hfilter : (storeHeader dparts.length ver ++ ((tr.mid ++ tr.mid2).filter isDeltaB).map swapEff ++
        storeManifests h dparts ++ (tr.dcloses.filter isDeltaB).map swapEff).filter notVersionB
      = [.mkdirData] ++ createAll dparts.length ++ ((tr.mid ++ tr.mid2).filter isDeltaB).map swapEff ++
          storeManifests h dparts ++ (tr.dcloses.filter isDeltaB).map swapEff := by
    have hH : (storeHeader dparts.length ver).filter notVersionB
        = [.mkdirData] ++ createAll dparts.length := by
      simp [storeHeader, List.filter_append, hC, notVersionB, isVersionB]
    rw [List.filter_append, List.filter_append, List.filter_append, hM, hH,
      hA (((tr.mid ++ tr.mid2).filter isDeltaB).map swapEff) tr.deltaTrace.midData,
      hA ((tr.dcloses.filter isDeltaB).map swapEff) tr.deltaTrace.closesData]
  rw [hfilter] at hfull
  -- no version effect in the list: its version is still absent
  have hver : ∀ (l : List Effect) (img : Image), (∀ e ∈ l, isVersionB e = false) →
      (runEffects img l).version = img.version := by
    intro l
    induction l with
    | nil => intro img _; rfl
    | cons e r ih =>
      intro img hl
      rw [runEffects_cons, ih _ (fun x hx => hl x (List.mem_cons_of_mem _ hx))]
      have := hl e List.mem_cons_self
      cases e with
      | manifestBegin m => cases m <;> first | rfl | simp [isVersionB] at this
      | _ => first | rfl | simp [isVersionB] at this
  have hv0 : (imageAfter ([.mkdirData] ++ createAll dparts.length ++
      ((tr.mid ++ tr.mid2).filter isDeltaB).map swapEff ++
      storeManifests h dparts ++ (tr.dcloses.filter isDeltaB).map swapEff)).version = .absent := by
    unfold imageAfter
    rw [hver]
    · rfl
    · intro e he
      rw [← hfilter] at he
      have := (List.mem_filter.1 he).2
      simpa [notVersionB] using this
  generalize imageAfter ([.mkdirData] ++ createAll dparts.length ++
      ((tr.mid ++ tr.mid2).filter isDeltaB).map swapEff ++
      storeManifests h dparts ++ (tr.dcloses.filter isDeltaB).map swapEff) = X at hfull hv0
  have hf := congrArg Image.files hfull
  have hs := congrArg Image.sums hfull
  have hdf := congrArg Image.dfiles hfull
  have hds := congrArg Image.dsums hfull
  have hda := congrArg Image.data hfull
  have hde := congrArg Image.delta hfull
  simp only [mergeV] at hf hs hdf hds hda hde
  cases X
  simp only at hf hs hdf hds hda hde hv0
  subst hf hs hdf hds hda hde hv0
  rfl

/-- **Crash at any point of a delta-mode StoreToDisk**, loader with delta files, at least one data
    shard: LoadFromDisk fails, or the directory is already the complete image. -/
theorem crash_prefix_delta (cmp : Bytes → Bytes → Int)
    (hval : ValidItems parts.flatten) (hv : ver ≠ 0) (hn : 0 < parts.length)
    (tr : StoreTraceDelta h parts dparts ver es) (p : List Effect) (hp : p <+: es) :
    load h cmp true (imageAfter p) = .err ∨ imageAfter p = storeImageDelta h parts dparts ver := by
  have hsplit := imageAfter_splitD p
  have hfalse : load h cmp false (imageAfter p) = load h cmp false (imageAfter (p.filter notDeltaB)) := by
    rw [hsplit, load_false_mergeD]
  have hpre : p.filter notDeltaB <+: es.filter notDeltaB := hp.filter _
  rcases crash_prefix h cmp parts hval hv tr.dataTrace _ hpre with he | ⟨hok, _⟩
  · left
    apply load_err_of_base_err
    rw [hfalse]; exact he
  · rw [tr.shape'] at hp
    rcases prefix_append_cases hp with hX | ⟨q, rfl, hq⟩
    · -- before the data Closes: the data side alone is rejected
      exfalso
      have hpre2 : p.filter notDeltaB <+: storeHeader parts.length ver ++ tr.dataTrace.mid ++
          storeManifests h parts := by
        have := hX.filter notDeltaB
        rw [tr.filter_before] at this
        exact this
      have := crash_before_closes_err h cmp parts hval hv hn tr.dataTrace _ hpre2
      rw [this] at hok
      cases hok
    · right
      -- data side: complete
      have hdata : (tr.before ++ q).filter notDeltaB
          = storeHeader parts.length ver ++ tr.dataTrace.mid ++ storeManifests h parts ++ q := by
        rw [List.filter_append, tr.filter_before,
          filter_notDelta_of_data (fun e he => tr.closesOk e (hq.subset he))]
        rfl
      obtain ⟨cs, hl, himg, hprefix⟩ := closing_image h parts ver tr.dataTrace q hq
      rw [hdata] at hok
      rw [himg] at hok
      have hcs : cs = parts.map writeFile := by
        rcases load_stage h cmp parts hval hv _ (Or.inr rfl) cs hl hprefix with ⟨he, _⟩ | ⟨_, hc⟩
        · rw [he] at hok; cases hok
        · exact hc
      -- delta side: complete
      have hdelta : (tr.before ++ q).filter isDeltaB = tr.before.filter isDeltaB := by
        rw [List.filter_append,
          filter_isDelta_of_data (fun e he => tr.closesOk e (hq.subset he)), List.append_nil]
      rw [hsplit, hdata, himg, hdelta, tr.delta_side_image, hcs]
      rfl

end NitroVerif.Backup
