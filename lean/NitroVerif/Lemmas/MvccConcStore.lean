/-
  The physical store of the small-step model is a list of nodes (version + node id); its projection
  `vers` is the store of the sequential model `Model/Mvcc.lean`.  The node-level operations commute
  with the projection, so every lemma about `Mvcc.lookup / insertAt / removeId / markDead` applies.
-/
import NitroVerif.Model.MvccConc
import NitroVerif.Lemmas.MvccStoreOps

namespace NitroVerif.MvccConc
open NitroVerif
open NitroVerif.Mvcc (Ver insCmp iterCmp existCmp Sorted Chains vlt sameId)

def storeIds (s : List Node) : List Nat := s.map (·.id)

theorem vers_findPathN (cmp : Ver → Ver → Int) (p : Ver) : ∀ (s : List Node),
    vers (findPathN cmp p s).1 = (Mvcc.findPath cmp p (vers s)).1 ∧
    vers (findPathN cmp p s).2 = (Mvcc.findPath cmp p (vers s)).2
  | [] => by simp [findPathN, Mvcc.findPath, vers]
  | x :: xs => by
    have ih := vers_findPathN cmp p xs
    unfold vers at ih ⊢
    unfold findPathN
    simp only [List.map_cons]
    unfold Mvcc.findPath
    by_cases h : Gen.findAdvance (cmp x.ver p) = true
    · simp only [h, if_true, List.map_cons]
      exact ⟨by rw [ih.1], ih.2⟩
    · simp [h]

theorem findPathN_append (cmp : Ver → Ver → Int) (p : Ver) : ∀ (s : List Node),
    (findPathN cmp p s).1 ++ (findPathN cmp p s).2 = s
  | [] => by simp [findPathN]
  | x :: xs => by
    have ih := findPathN_append cmp p xs
    unfold findPathN
    by_cases h : Gen.findAdvance (cmp x.ver p) = true
    · simp [h, ih]
    · simp [h]

theorem foundAtN_map (cmp : Ver → Ver → Int) (p : Ver) (s : List Node) :
    (foundAtN cmp p s).map (·.ver) = Mvcc.foundAt cmp p (vers s) := by
  cases s with
  | nil => rfl
  | cons x xs =>
    simp only [foundAtN, vers, List.map_cons, Mvcc.foundAt]
    split <;> rfl

theorem foundAtN_mem {cmp : Ver → Ver → Int} {p : Ver} {s : List Node} {x : Node}
    (h : foundAtN cmp p s = some x) : x ∈ s := by
  cases s with
  | nil => simp [foundAtN] at h
  | cons y ys =>
    simp only [foundAtN] at h
    split at h
    · simp at h; subst h; simp
    · simp at h

theorem lookupN_map (s : List Node) (p : Ver) :
    (lookupN s p).map (·.ver) = Mvcc.lookup (vers s) p := by
  unfold lookupN Mvcc.lookup
  have hfp := vers_findPathN insCmp p s
  have hfa := foundAtN_map insCmp p (findPathN insCmp p s).2
  rw [hfp.2] at hfa
  cases h1 : foundAtN insCmp p (findPathN insCmp p s).2 with
  | some x =>
    rw [h1] at hfa; simp only [Option.map_some] at hfa
    simp only [← hfa, Option.map_some]
  | none =>
    rw [h1] at hfa; simp only [Option.map_none] at hfa
    simp only [← hfa]
    have hl : (Mvcc.findPath insCmp p (vers s)).1.getLast? =
        ((findPathN insCmp p s).1.getLast?).map (·.ver) := by
      rw [← hfp.1]; unfold vers; rw [List.getLast?_map]
    rw [hl]
    cases h2 : (findPathN insCmp p s).1.getLast? with
    | none => rfl
    | some q =>
      simp only [Option.map_some]
      split <;> rfl

theorem lookupN_mem {s : List Node} {p : Ver} {x : Node} (h : lookupN s p = some x) : x ∈ s := by
  unfold lookupN at h
  have happ := findPathN_append insCmp p s
  cases h1 : foundAtN insCmp p (findPathN insCmp p s).2 with
  | some y =>
    rw [h1] at h; simp at h; subst h
    rw [← happ]; exact List.mem_append_right _ (foundAtN_mem h1)
  | none =>
    rw [h1] at h; simp only at h
    cases h2 : (findPathN insCmp p s).1.getLast? with
    | none => rw [h2] at h; simp at h
    | some q =>
      rw [h2] at h; simp only at h
      split at h
      · simp at h; subst h
        rw [← happ]; exact List.mem_append_left _ (List.mem_of_getLast? h2)
      · simp at h

theorem vers_insertN (s : List Node) (x : Node) : vers (insertN s x) = Mvcc.insertAt (vers s) x.ver := by
  unfold insertN Mvcc.insertAt
  have h := vers_findPathN insCmp x.ver s
  rw [← h.1, ← h.2]
  simp [vers]

theorem mem_insertN {s : List Node} {x y : Node} : y ∈ insertN s x ↔ y = x ∨ y ∈ s := by
  unfold insertN
  have happ := findPathN_append insCmp x.ver s
  constructor
  · intro h
    rcases List.mem_append.mp h with h | h
    · right; rw [← happ]; exact List.mem_append_left _ h
    · rcases List.mem_cons.mp h with h | h
      · exact Or.inl h
      · right; rw [← happ]; exact List.mem_append_right _ h
  · rintro (rfl | h)
    · exact List.mem_append_right _ (List.mem_cons_self)
    · rw [← happ] at h
      rcases List.mem_append.mp h with h | h
      · exact List.mem_append_left _ h
      · exact List.mem_append_right _ (List.mem_cons_of_mem _ h)

theorem count_storeIds_insertN (s : List Node) (x : Node) (n : Nat) :
    (storeIds (insertN s x)).count n = (storeIds s).count n + (if x.id = n then 1 else 0) := by
  unfold insertN storeIds
  have happ := findPathN_append insCmp x.ver s
  conv => rhs; rw [← happ]
  simp only [List.map_append, List.map_cons, List.count_append, List.count_cons]
  split <;> simp_all <;> omega

/-! ### node identity -/

theorem findNode_some {s : List Node} {n : Nat} {x : Node} (h : findNode s n = some x) : x ∈ s ∧ x.id = n := by
  unfold findNode at h
  have h1 := List.find?_some h
  simp at h1
  exact ⟨List.mem_of_find?_eq_some h, h1⟩

theorem findNode_none {s : List Node} {n : Nat} (h : findNode s n = none) : ∀ x ∈ s, x.id ≠ n := by
  intro x hx he
  unfold findNode at h
  have := List.find?_eq_none.mp h x hx
  simp [he] at this

theorem findNode_none_iff {s : List Node} {n : Nat} : findNode s n = none ↔ n ∉ storeIds s := by
  constructor
  · intro h hm
    obtain ⟨x, hx, he⟩ := List.mem_map.mp hm
    exact findNode_none h x hx he
  · intro h
    cases hf : findNode s n with
    | none => rfl
    | some x =>
      have ⟨hx, he⟩ := findNode_some hf
      exact absurd (List.mem_map.mpr ⟨x, hx, he⟩) h

theorem findNode_isSome_of_mem {s : List Node} {x : Node} (hx : x ∈ s) : ∃ y, findNode s x.id = some y := by
  cases hf : findNode s x.id with
  | some y => exact ⟨y, rfl⟩
  | none => exact absurd rfl (findNode_none hf x hx)

/-- node ids name at most one node of the store -/
theorem id_unique {s : List Node} (hn : (storeIds s).Nodup) {a b : Node} (ha : a ∈ s) (hb : b ∈ s)
    (h : a.id = b.id) : a = b := by
  induction s with
  | nil => simp at ha
  | cons x xs ih =>
    simp only [storeIds, List.map_cons, List.nodup_cons] at hn
    rcases List.mem_cons.mp ha with rfl | ha' <;> rcases List.mem_cons.mp hb with rfl | hb'
    · rfl
    · exact absurd (List.mem_map.mpr ⟨b, hb', h.symm⟩) hn.1
    · exact absurd (List.mem_map.mpr ⟨a, ha', h⟩) hn.1
    · exact ih hn.2 ha' hb'

theorem findNode_of_mem {s : List Node} (hn : (storeIds s).Nodup) {x : Node} (hx : x ∈ s) :
    findNode s x.id = some x := by
  obtain ⟨y, hy⟩ := findNode_isSome_of_mem hx
  have ⟨hym, hye⟩ := findNode_some hy
  rw [hy, id_unique hn hym hx hye]

/-- in a sorted store `(key, born)` names at most one node -/
theorem sorted_node_unique {s : List Node} (hs : Sorted (vers s)) {a b : Node} (ha : a ∈ s) (hb : b ∈ s)
    (h : sameId a.ver b.ver = true) : a = b := by
  have hp : s.Pairwise (fun a b => vlt a.ver b.ver) := List.pairwise_map.mp hs
  have hi := (Mvcc.sameId_iff _ _).mp h
  rcases Mvcc.pairwise_mem_trichotomy hp ha hb with h | h | h
  · exact h
  · unfold vlt at h; omega
  · unfold vlt at h; omega

theorem vers_removeNode {s : List Node} (hs : Sorted (vers s)) (hn : (storeIds s).Nodup) {n : Nat} {x : Node}
    (hf : findNode s n = some x) : vers (removeNode s n) = Mvcc.removeId (vers s) x.ver := by
  have ⟨hx, hid⟩ := findNode_some hf
  unfold removeNode Mvcc.removeId vers
  rw [List.filter_map]
  congr 1
  apply List.filter_congr
  intro y hy
  simp only [Function.comp]
  by_cases he : y.id = n
  · have : y = x := id_unique hn hy hx (by omega)
    subst this
    have : sameId y.ver y.ver = true := (Mvcc.sameId_iff _ _).mpr ⟨rfl, rfl⟩
    simp [he, this]
  · have : sameId y.ver x.ver = false := by
      cases hsi : sameId y.ver x.ver
      · rfl
      · have := sorted_node_unique hs hy hx hsi
        subst this; omega
    simp [he, this]

theorem vers_markDeadNode {s : List Node} (hs : Sorted (vers s)) (hn : (storeIds s).Nodup) {n sn : Nat} {x : Node}
    (hf : findNode s n = some x) : vers (markDeadNode s n sn) = Mvcc.markDead (vers s) x.ver sn := by
  have ⟨hx, hid⟩ := findNode_some hf
  unfold markDeadNode Mvcc.markDead vers
  rw [List.map_map, List.map_map]
  apply List.map_congr_left
  intro y hy
  simp only [Function.comp]
  by_cases he : y.id = n
  · have : y = x := id_unique hn hy hx (by omega)
    subst this
    have : sameId y.ver y.ver = true := (Mvcc.sameId_iff _ _).mpr ⟨rfl, rfl⟩
    simp [he, this]
  · have : sameId y.ver x.ver = false := by
      cases hsi : sameId y.ver x.ver
      · rfl
      · have := sorted_node_unique hs hy hx hsi
        subst this; omega
    simp [he, this]

theorem storeIds_markDeadNode (s : List Node) (n sn : Nat) : storeIds (markDeadNode s n sn) = storeIds s := by
  unfold storeIds markDeadNode
  rw [List.map_map]
  apply List.map_congr_left
  intro y _
  simp only [Function.comp]
  split <;> rfl

theorem mem_markDeadNode {s : List Node} {n sn : Nat} {y : Node} (h : y ∈ markDeadNode s n sn) :
    ∃ x ∈ s, y.id = x.id ∧ y.ver.key = x.ver.key ∧ y.ver.val = x.ver.val ∧ y.ver.born = x.ver.born ∧
      ((x.id = n ∧ y.ver.dead = sn) ∨ (x.id ≠ n ∧ y = x)) := by
  unfold markDeadNode at h
  obtain ⟨x, hx, rfl⟩ := List.mem_map.mp h
  refine ⟨x, hx, ?_⟩
  by_cases he : x.id = n
  · simp [he]
  · simp [he]

theorem mem_removeNode {s : List Node} {n : Nat} {y : Node} : y ∈ removeNode s n ↔ y ∈ s ∧ y.id ≠ n := by
  unfold removeNode; simp

theorem count_storeIds_removeNode {s : List Node} (hn : (storeIds s).Nodup) {n : Nat} {x : Node}
    (hf : findNode s n = some x) (m : Nat) :
    (storeIds (removeNode s n)).count m + (if n = m then 1 else 0) = (storeIds s).count m := by
  have ⟨hx, hid⟩ := findNode_some hf
  have hmem : n ∈ storeIds s := List.mem_map.mpr ⟨x, hx, hid⟩
  have hrm : storeIds (removeNode s n) = (storeIds s).filter (fun i => i != n) := by
    unfold storeIds removeNode; rw [List.filter_map]; rfl
  rw [hrm]
  by_cases hnm : n = m
  · subst hnm
    have h1 : ((storeIds s).filter (fun i => i != n)).count n = 0 := by
      apply List.count_eq_zero.mpr
      intro h; simp at h
    have h2 : (storeIds s).count n = 1 := by rw [List.Nodup.count hn]; simp [hmem]
    simp [h1, h2]
  · simp only [hnm, if_false, Nat.add_zero]
    rw [List.count_filter]
    simp [Ne.symm hnm]

theorem removeNode_of_not_mem {s : List Node} {n : Nat} (h : n ∉ storeIds s) : removeNode s n = s := by
  unfold removeNode
  apply List.filter_eq_self.mpr
  intro y hy
  have : y.id ≠ n := fun he => h (List.mem_map.mpr ⟨y, hy, he⟩)
  simp [this]

end NitroVerif.MvccConc
