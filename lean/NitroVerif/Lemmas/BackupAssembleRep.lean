import NitroVerif.Lemmas.BackupAssemble
/-!
  The restore of `LoadFromDisk` on M3 (`restoreWith`: `NewSegment` per file, the loaders' `Add` calls
  in some interleaving, `Assemble` in file order): what the assembled heap is.
-/
namespace NitroVerif.SkipSeq
open NitroVerif

/-- the restore, executable: `n` `NewSegment` calls, the `Segment.Add` calls `adds` of the loaders in
    the order in which they happened, `b.Assemble(segments...)` with the segments in file order -/
def restoreWith (n : Nat) (adds : List BOp) : SL :=
  let st := brun (SL.init, []) (news n ++ adds)
  (assemble st.1 st.2).1

/-- the restore with the loaders running one after the other -/
def restore (shards : List (List (Int × Nat))) : SL := restoreWith shards.length (fillFrom 0 shards)

theorem segAdd_stats (s : SL) (seg : Segment) (k : Key) (req : Nat) : (segAdd s seg k req).1.stats = s.stats := by
  unfold segAdd newNode newLevel
  simp only
  split <;> rfl

theorem gstep_stats (st : SL × List (Segment × List Nat)) (op : BOp) : (gstep st op).1.stats = st.1.stats := by
  cases op with
  | new => rfl
  | add i k l =>
    simp only [gstep]
    cases st.2[i]? with
    | none => rfl
    | some e => exact segAdd_stats _ _ _ _

theorem grun_stats : ∀ (ops : List BOp) (st : SL × List (Segment × List Nat)),
    (grun st ops).1.stats = st.1.stats := by
  intro ops
  induction ops with
  | nil => intro st; rfl
  | cons op r ih => intro st; rw [grun, ih, gstep_stats]

/-- the assembled heap after any interleaving of the loaders: there is a list `L` of heap nodes (the
    segments' nodes in file order) carrying exactly the concatenated keys, every level `l` walks to the
    nodes of `L` of height `≥ l` (no comparison is involved: this holds for unsorted input too), one
    node was allocated per item, and with strictly ascending keys the representation invariant holds -/
theorem restoreWith_spec (shards : List (List (Int × Nat))) (adds : List BOp) (hsh : Shuffle shards adds) :
    let s' := restoreWith shards.length adds
    ∃ L : List Nat,
      L.map (ikey s'.nodes) = shards.flatten.map (·.1) ∧
      (∀ n ∈ L, keyOf s'.nodes n = .item (ikey s'.nodes n)) ∧
      (∀ l, l ≤ Gen.maxLevel → walkLevel s' l = some (LL s'.nodes L l)) ∧
      s'.stats.nodeAllocs = (L.length : Int) ∧
      ((shards.flatten.map (·.1)).Pairwise (· < ·) → Rep s' L) := by
  intro s'
  have hst0 := grun_stats (news shards.length ++ adds) (SL.init, [])
  rcases fill_state shards adds hsh with ⟨hb, herase, _, _, hkeys⟩
  generalize grun (SL.init, []) (news shards.length ++ adds) = g at hb herase hkeys hst0
  have hs' : s' = (assemble g.1 (g.2.map (·.1))).1 := by
    show restoreWith _ _ = _
    unfold restoreWith
    rw [← herase]
  rcases assemble_heap hb with ⟨_, _, hmeta, _⟩
  have hik : ∀ n, ikey s'.nodes n = ikey g.1.nodes n := fun n => by rw [hs']; exact ikey_congr (hmeta n).1
  have hlv : ∀ n, levelOf s'.nodes n = levelOf g.1.nodes n := by rw [hs']; exact fun n => (hmeta n).2.1
  refine ⟨allNodes g.2, ?_, ?_, ?_, ?_, ?_⟩
  · rw [← hkeys]; exact List.map_congr_left (fun n _ => hik n)
  · intro n hn; rw [hik, hs', (hmeta n).1]; exact hb.keys n hn
  · intro l hl; rw [LL_congr l (fun n _ => hlv n), hs']; exact assemble_walk hb hl
  · have hms := mergeStats_spec g.1.nodes g.2 g.1.stats hb.stats hb.rep.stats.len
    rw [hs', (assemble_fields g.1 (g.2.map (·.1))).2.2.2, hms.2.2.2.2, hst0]
    simp [SL.init, Stats.zero]
  · intro hasc
    rw [hs']
    apply assemble_rep hb
    rw [← hkeys] at hasc
    exact List.pairwise_map.mp hasc

/-- `sh` is the list of decoded shards `shards` with, for every item, its integer key and SOME level
    request (the answer of the random source when the item is added) -/
def Annotates {α : Type} (key : α → Int) (shards : List (List α)) (sh : List (List (Int × Nat))) : Prop :=
  sh.map (·.map (·.1)) = shards.map (·.map key)

theorem Annotates.length {α : Type} {key : α → Int} {shards : List (List α)} {sh : List (List (Int × Nat))}
    (h : Annotates key shards sh) : sh.length = shards.length := by
  have := congrArg List.length h
  simpa using this

theorem Annotates.flatten {α : Type} {key : α → Int} {shards : List (List α)} {sh : List (List (Int × Nat))}
    (h : Annotates key shards sh) : sh.flatten.map (·.1) = shards.flatten.map key := by
  rw [List.map_flatten, List.map_flatten]
  exact congrArg List.flatten h

/-- every level request is allowed, e.g. a constant one -/
theorem annotates_const {α : Type} (key : α → Int) (shards : List (List α)) (lvl : Nat) :
    Annotates key shards (shards.map (·.map fun b => (key b, lvl))) := by
  simp [Annotates, List.map_map, Function.comp_def]

end NitroVerif.SkipSeq
