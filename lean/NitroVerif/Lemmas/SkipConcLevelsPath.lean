import NitroVerif.Lemmas.SkipConcLevelsRun
/-!
  Index levels of M5, part 10: the chain of a level as a LIST of nodes (`PathL`), its sortedness, its length, and
  the sub-sequence lemma for lists that are sorted by a strict order.
-/
namespace NitroVerif.SkipConc
open NitroVerif

/-- `PathL h l a ns c`: following the level-`l` words from `a` one visits exactly the nodes `ns` (`a` first) and then
    arrives at `c` -/
inductive PathL (h : Heap) (l : Nat) : Nat → List Nat → Nat → Prop
  | nil (a : Nat) : PathL h l a [] a
  | cons {a b c : Nat} {ns : List Nat} {m : Bool} : word? h a l = some (b, m) → PathL h l b ns c →
      PathL h l a (a :: ns) c

theorem ReachL.toPath {h : Heap} {l a c : Nat} (r : ReachL h l a c) : ∃ ns, PathL h l a ns c := by
  induction r with
  | refl => exact ⟨[], .nil _⟩
  | step hw _ ih => obtain ⟨ns, p⟩ := ih; exact ⟨_ :: ns, .cons hw p⟩

theorem PathL.reach {h : Heap} {l a c : Nat} {ns : List Nat} (p : PathL h l a ns c) : ReachL h l a c := by
  induction p with
  | nil => exact .refl _
  | cons hw _ ih => exact .step hw ih

/-- every node of the list lies between the ends and has a level-`l` word -/
theorem PathL.mem {h : Heap} {l a c : Nat} {ns : List Nat} (p : PathL h l a ns c) {x : Nat} (hx : x ∈ ns) :
    ReachL h l a x ∧ ReachL h l x c ∧ (word? h x l).isSome := by
  induction p with
  | nil => simp at hx
  | @cons a b c ns m hw p ih =>
    simp at hx
    rcases hx with rfl | hx
    · exact ⟨.refl _, .step hw p.reach, by rw [hw]; rfl⟩
    · obtain ⟨r1, r2, r3⟩ := ih hx
      exact ⟨.step hw r1, r2, r3⟩

/-- the path to a node without a word of that level (the tail) is unique -/
theorem PathL.unique {h : Heap} {l a c : Nat} {ns ms : List Nat} (hc : word? h c l = none)
    (p : PathL h l a ns c) (q : PathL h l a ms c) : ns = ms := by
  induction p generalizing ms with
  | nil =>
    cases q with
    | nil => rfl
    | cons hw _ => rw [hc] at hw; simp at hw
  | cons hw p ih =>
    cases q with
    | nil => rw [hc] at hw; simp at hw
    | cons hw' q =>
      rw [hw] at hw'; simp at hw'
      obtain ⟨rfl, _⟩ := hw'
      rw [ih hc q]

/-- on a path that ends at a node without a word, every node reachable from the start is on the path or is the end -/
theorem PathL.mem_of_reach {h : Heap} {l a c : Nat} {ms : List Nat} (hc : word? h c l = none)
    (p : PathL h l a ms c) {x : Nat} (r : ReachL h l a x) : x = c ∨ x ∈ ms := by
  induction p with
  | nil =>
    cases r with
    | refl => exact .inl rfl
    | step hw _ => rw [hc] at hw; simp at hw
  | cons hw p ih =>
    cases r with
    | refl => exact .inr (by simp)
    | step hw' r' =>
      rw [hw] at hw'; simp at hw'
      obtain ⟨rfl, _⟩ := hw'
      rcases ih hc r' with e | e
      · exact .inl e
      · exact .inr (by simp [e])

/-- strict ascent along the list, given strict ascent along the edges of the chain -/
theorem PathL.sorted {h : Heap} {l : Nat}
    (hs : ∀ n p m, ReachL h l 0 n → word? h n l = some (p, m) → Key.lt (keyOf h n) (keyOf h p))
    {a c : Nat} {ns : List Nat} (ha : ReachL h l 0 a) (p : PathL h l a ns c) :
    ns.Pairwise (fun x y => Key.lt (keyOf h x) (keyOf h y)) ∧
    ∀ x ∈ ns, a = x ∨ Key.lt (keyOf h a) (keyOf h x) := by
  induction p with
  | nil => exact ⟨.nil, fun x hx => by simp at hx⟩
  | @cons a b c ns m hw p ih =>
    obtain ⟨ih1, ih2⟩ := ih (ha.snoc hw)
    have hab := hs _ _ _ ha hw
    have hall : ∀ x ∈ ns, Key.lt (keyOf h a) (keyOf h x) := by
      intro x hx
      rcases ih2 x hx with rfl | h2
      · exact hab
      · exact Key.lt_trans hab h2
    refine ⟨List.pairwise_cons.mpr ⟨hall, ih1⟩, fun x hx => ?_⟩
    simp at hx
    rcases hx with rfl | hx
    · exact .inl rfl
    · exact .inr (hall x hx)

/-- a list of distinct numbers below `N` has at most `N` elements -/
theorem length_le_of_nodup_lt {N : Nat} {l : List Nat} (hn : l.Nodup) (hl : ∀ x ∈ l, x < N) : l.length ≤ N := by
  have := hn.length_le_of_subset (l₂ := List.range N) (fun x hx => List.mem_range.mpr (hl x hx))
  simpa using this

/-- two lists sorted by a strict order: if every element of the first occurs in the second, the first is a
    sub-sequence of the second -/
theorem sublist_of_sorted_subset {R : Nat → Nat → Prop} (irr : ∀ a, ¬ R a a)
    (asym : ∀ a b, R a b → ¬ R b a) : ∀ (B A : List Nat), A.Pairwise R → B.Pairwise R → (∀ x ∈ A, x ∈ B) →
    A.Sublist B
  | [], A, _, _, hsub => by
    cases A with
    | nil => exact .slnil
    | cons a A' => exact absurd (hsub a (by simp)) (by simp)
  | b :: B', A, hA, hB, hsub => by
    cases A with
    | nil => exact List.nil_sublist _
    | cons a A' =>
      obtain ⟨hb1, hb2⟩ := List.pairwise_cons.mp hB
      obtain ⟨ha1, ha2⟩ := List.pairwise_cons.mp hA
      by_cases e : a = b
      · subst e
        refine .cons_cons _ (sublist_of_sorted_subset irr asym B' A' ha2 hb2 (fun x hx => ?_))
        have := hsub x (by simp [hx])
        simp at this
        rcases this with rfl | h
        · exact absurd (ha1 x hx) (irr x)
        · exact h
      · refine .cons _ (sublist_of_sorted_subset irr asym B' (a :: A') hA hb2 (fun x hx => ?_))
        have haB : a ∈ B' := by
          have := hsub a (by simp)
          simp at this
          rcases this with h | h
          · exact absurd h e
          · exact h
        have := hsub x hx
        simp at this
        rcases this with rfl | h
        · -- `x = b` is below everything in `B'`, in particular below `a`, which is the least element of `A`
          exfalso
          have h1 := hb1 a haB
          simp at hx
          rcases hx with rfl | hx
          · exact e rfl
          · exact asym _ _ h1 (ha1 x hx)
        · exact h

end NitroVerif.SkipConc
