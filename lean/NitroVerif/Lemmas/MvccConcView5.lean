/-
  C01 along concurrent histories (part 5): one step of a reader's cursor against the view of its snapshot.
  Whatever the node under the cursor has become (still linked, or unlinked by a writer or a collection
  job), `Iterator.Next` lands on a node such that the visible versions at or below the new cursor are
  exactly those at or below the old one plus (if it is visible) the node landed on.
-/
import NitroVerif.Lemmas.MvccConcView4

namespace NitroVerif.MvccConc
open NitroVerif
open NitroVerif.Mvcc (Ver Sorted Chains vlt visible)

/-! ### lists -/

theorem filter_split_at {α : Type} (vis le leY : α → Bool) (A B : List α) (y : α)
    (hA : ∀ a ∈ A, le a = true ∧ leY a = true) (hy : vis y = true → le y = false) (hyy : leY y = true)
    (hB : ∀ b ∈ B, le b = false ∧ leY b = false) :
    (A ++ y :: B).filter (fun x => vis x && leY x) =
      (A ++ y :: B).filter (fun x => vis x && le x) ++ (if vis y then [y] else []) := by
  have hAe : A.filter (fun x => vis x && leY x) = A.filter (fun x => vis x && le x) :=
    List.filter_congr (fun a ha => by rw [(hA a ha).1, (hA a ha).2])
  have hB1 : B.filter (fun x => vis x && leY x) = [] :=
    List.filter_eq_nil_iff.mpr (fun b hb => by simp [(hB b hb).2])
  have hB2 : B.filter (fun x => vis x && le x) = [] :=
    List.filter_eq_nil_iff.mpr (fun b hb => by simp [(hB b hb).1])
  rw [List.filter_append, List.filter_append, List.filter_cons, List.filter_cons, hAe, hB1, hB2]
  cases hv : vis y
  · simp
  · simp [hyy, hy hv]

/-- at or below the cursor, in the physical order `(key, bornSn)` -/
def leCur (c : Cur) (v : Ver) : Bool := decide (v.key < c.key ∨ (v.key = c.key ∧ v.born ≤ c.born))

/-- the cursor standing on node `y` -/
def curAt (y : Node) : Cur := ⟨y.id, y.ver.key, y.ver.born⟩

/-- the part of a view at or below a cursor; all of it when the scan has ended -/
def upTo (V : List Ver) : Option Cur → List Ver
  | none => V
  | some c => V.filter (leCur c)

theorem viewOf_eq (σ : State) (sn : Nat) :
    viewOf σ sn = (σ.store.filter (fun x => visible sn x.ver)).map (fun x => x.ver.norm) := by
  unfold viewOf Mvcc.view vers
  rw [List.filter_map, List.map_map]
  rfl

theorem upTo_viewOf_some (σ : State) (sn : Nat) (c : Cur) :
    upTo (viewOf σ sn) (some c) =
      (σ.store.filter (fun x => visible sn x.ver && leCur c x.ver)).map (fun x => x.ver.norm) := by
  rw [viewOf_eq]
  show List.filter (leCur c) _ = _
  rw [List.filter_map, List.filter_filter]
  congr 1
  apply List.filter_congr
  intro x _
  simp only [Function.comp]
  rw [Bool.and_comm]
  rfl

/-- how a landing relates the visible versions below the old cursor to those below the new one -/
def AdvanceSpec (S : List Node) (sn : Nat) (c : Cur) (land : Option Node) : Prop :=
  match land with
  | none => S.filter (fun x => visible sn x.ver) = S.filter (fun x => visible sn x.ver && leCur c x.ver)
  | some y =>
    S.filter (fun x => visible sn x.ver && leCur (curAt y) x.ver) =
      S.filter (fun x => visible sn x.ver && leCur c x.ver) ++ (if visible sn y.ver then [y] else [])

/-- the same for the first landing of a scan: nothing was below the cursor before -/
def FirstSpec (S : List Node) (sn : Nat) (land : Option Node) : Prop :=
  match land with
  | none => S.filter (fun x => visible sn x.ver) = []
  | some y => S.filter (fun x => visible sn x.ver && leCur (curAt y) x.ver) = (if visible sn y.ver then [y] else [])

theorem pairwise_nodes {S : List Node} (h : Sorted (vers S)) : S.Pairwise (fun a b => vlt a.ver b.ver) := by
  unfold Sorted vers at h
  exact List.pairwise_map.mp h

/-- a search that finds the first node satisfying an upward-closed test -/
theorem advance_of_find {S : List Node} (hs : S.Pairwise (fun a b => vlt a.ver b.ver)) (sn : Nat) (c : Cur)
    (q : Node → Bool)
    (hq0 : ∀ x ∈ S, q x = false → leCur c x.ver = true)
    (hq1 : ∀ x ∈ S, q x = true → visible sn x.ver = true → leCur c x.ver = false)
    (hq2 : ∀ x ∈ S, q x = true → ∀ b : Node, vlt x.ver b.ver → leCur c b.ver = false) :
    AdvanceSpec S sn c (S.find? q) := by
  cases hf : S.find? q with
  | none =>
    show S.filter _ = S.filter _
    apply List.filter_congr
    intro x hx
    have := List.find?_eq_none.mp hf x hx
    rw [hq0 x hx (by simpa using this)]; simp
  | some y =>
    show S.filter _ = S.filter _ ++ _
    obtain ⟨hqy, A, B, hS, hA⟩ := List.find?_eq_some_iff_append.mp hf
    have hym : y ∈ S := by rw [hS]; simp
    rw [hS] at hs ⊢
    have hp := List.pairwise_append.mp hs
    have hyB := (List.pairwise_cons.mp hp.2.1).1
    apply filter_split_at (fun x : Node => visible sn x.ver) (fun x : Node => leCur c x.ver)
      (fun x : Node => leCur (curAt y) x.ver)
    · intro a ha
      refine ⟨hq0 a (by rw [hS]; simp [ha]) (by simpa using hA a ha), ?_⟩
      have := hp.2.2 a ha y (by simp)
      unfold vlt at this
      unfold leCur curAt; simp only [decide_eq_true_eq]; omega
    · exact hq1 y hym hqy
    · unfold leCur curAt; simp
    · intro b hb
      refine ⟨hq2 y hym hqy b (hyB b hb), ?_⟩
      have := hyB b hb
      unfold vlt at this
      unfold leCur curAt; simp only [decide_eq_false_iff_not]; omega

/-- `seekN` is a search for the first node the probe does not pass -/
theorem seekN_eq_find (cmp : Ver → Ver → Int) (k b : Nat) : ∀ (S : List Node),
    seekN cmp S k b = S.find? (fun x => !Gen.findAdvance (cmp x.ver ⟨k, 0, b, 0⟩))
  | [] => rfl
  | x :: xs => by
    have ih := seekN_eq_find cmp k b xs
    unfold seekN at ih ⊢
    unfold findPathN
    by_cases ha : Gen.findAdvance (cmp x.ver ⟨k, 0, b, 0⟩) = true
    · simp only [ha, if_true, List.find?_cons, Bool.not_true]
      exact ih
    · have ha' : Gen.findAdvance (cmp x.ver ⟨k, 0, b, 0⟩) = false := by simpa using ha
      simp [ha', List.find?_cons]

/-! ### one ITER_NEXT step -/

/-- the outcome of ITER_NEXT for iterator `(t, i)` standing on `c`: nothing happens (the step is refused
    or faults), or the cursor lands as `AdvanceSpec` says -/
theorem stepIter_land {σ : State} {t i : Nat} {it : Iter} {c : Cur} (hi : Inv σ) (hk : IterInv σ)
    (hfx : σ.fixedIter = true) (hf : findIter (t, i) σ.iters = some it) (hc : it.cur = some c) :
    stepIter σ t i = (σ, .uaf) ∨
      ∃ land, stepIter σ t i = landOn σ t i it land ∧ AdvanceSpec σ.store it.sn c land := by
  have hm := findIter_some hf
  have hsort := pairwise_nodes hi.store.sorted
  unfold stepIter
  rw [hf]; simp only [hc]
  split
  · exact Or.inl rfl
  · cases hn : findNode σ.store c.id with
    | some x =>
      simp only
      have ⟨hx, hxid⟩ := findNode_some hn
      have hxc := hk.cache (t, i) it c hm hc x (List.mem_append_left _ hx) hxid
      refine Or.inr ⟨succN σ.store x, rfl, ?_⟩
      unfold succN
      apply advance_of_find hsort
      · intro y _ hq
        have : ¬ vlt x.ver y.ver := by
          intro h; rw [(Mvcc.insLt_iff _ _).mpr h] at hq; cases hq
        unfold vlt at this
        unfold leCur; simp only [decide_eq_true_eq]; omega
      · intro y _ hq _
        have := (Mvcc.insLt_iff _ _).mp hq
        unfold vlt at this
        unfold leCur; simp only [decide_eq_false_iff_not]; omega
      · intro y _ hq b hb
        have := (Mvcc.insLt_iff _ _).mp hq
        unfold vlt at this hb
        unfold leCur; simp only [decide_eq_false_iff_not]; omega
    | none =>
      simp only
      split
      · exact Or.inl rfl
      · have hcmp : iterStoreCmp σ = Mvcc.insCmp := by
          unfold iterStoreCmp; simp [hfx, Gen.iteratorStoreCmp, Mvcc.cmpOf]
        refine Or.inr ⟨seekN (iterStoreCmp σ) σ.store c.key c.born, rfl, ?_⟩
        rw [hcmp, seekN_eq_find]
        have hadv : ∀ y : Node, Gen.findAdvance (Mvcc.insCmp y.ver ⟨c.key, 0, c.born, 0⟩) = true ↔
            (y.ver.key < c.key ∨ (y.ver.key = c.key ∧ y.ver.born < c.born)) := by
          intro y
          rw [Mvcc.findAdvance_iff, Mvcc.insCmp_neg]; rfl
        apply advance_of_find hsort
        · intro y _ hq
          have : Gen.findAdvance (Mvcc.insCmp y.ver ⟨c.key, 0, c.born, 0⟩) = true := by simpa using hq
          have := (hadv y).mp this
          unfold leCur; simp only [decide_eq_true_eq]; omega
        · intro y hy hq hvis
          have hna : ¬ (y.ver.key < c.key ∨ (y.ver.key = c.key ∧ y.ver.born < c.born)) := by
            intro h
            have := (hadv y).mpr h
            rw [this] at hq; cases hq
          unfold leCur; simp only [decide_eq_false_iff_not]
          intro hle
          have hk1 : y.ver.key = c.key := by omega
          have hk2 : y.ver.born = c.born := by omega
          -- a linked node with the key and epoch of the unlinked node under the cursor is invisible
          have hnot : c.id ∉ storeIds σ.store := findNode_none_iff.mp hn
          rcases hk.somewhere (t, i) it c hm hc with h1 | ⟨x, hx, hxid⟩
          · exact hnot h1
          · have hxc := hk.cache (t, i) it c hm hc x (List.mem_append_right _ hx) hxid
            have hvv := (Mvcc.visible_iff it.sn y.ver).mp hvis
            have hxd := hk.gone (t, i) it c hm hc (by omega) x hx hxid
            exact hk.uniq x hx hxd y hy ⟨by omega, by omega⟩
        · intro y _ hq b hb
          have hna : ¬ (y.ver.key < c.key ∨ (y.ver.key = c.key ∧ y.ver.born < c.born)) := by
            intro h
            have := (hadv y).mpr h
            rw [this] at hq; cases hq
          unfold vlt at hb
          unfold leCur; simp only [decide_eq_false_iff_not]; omega

/-- `SeekFirst` -/
theorem first_land {S : List Node} (hs : S.Pairwise (fun a b => vlt a.ver b.ver)) (sn : Nat) :
    FirstSpec S sn S.head? := by
  cases S with
  | nil => rfl
  | cons y B =>
    show (y :: B).filter _ = _
    have hyB := (List.pairwise_cons.mp hs).1
    have := filter_split_at (fun x : Node => visible sn x.ver) (fun _ => false)
      (fun x : Node => leCur (curAt y) x.ver) [] B y
      (by intro a ha; cases ha) (fun _ => rfl) (by unfold leCur curAt; simp) (by
        intro b hb
        refine ⟨rfl, ?_⟩
        have := hyB b hb
        unfold vlt at this
        unfold leCur curAt; simp only [decide_eq_false_iff_not]; omega)
    have hnil : B.filter (fun _ => false) = [] := List.filter_eq_nil_iff.mpr (fun _ _ => by simp)
    simpa [hnil] using this

end NitroVerif.MvccConc
