import NitroVerif.Lemmas.SkipConcLevelsFind
/-!
  Index levels of M5, part 6: every segment of findPath / helpDelete / softDelete / the iterator is one of the
  writes of `LStep`, and re-establishes the thread's invariant `TL`.
-/
namespace NitroVerif.SkipConc
open NitroVerif

/-- what the stepping thread is doing when it produces an event, and where it stands afterwards:
    an inserter's write is made by the thread that is inserting that node; a thread that links its node at a level
    at which the node is already marked goes on with a fresh findPath for the node's item (Insert4's re-check of
    the node's own mark); the thread whose level-0 mark wins goes on to DEL_SEARCH with the node's item -/
def EvOK (th0 : Thread) (r : Res) : LEv → Prop
  | .other => True
  | .own x => insNode th0.pc = some x
  | .link x l => insNode th0.pc = some x ∧
      (markedAt r.1.heap l x → ∃ fp, r.2.1.pc = .findLevel fp ∧ fp.prev = 0 ∧ keyOf r.1.heap x = .fin fp.item ∧
        fp.i = r.1.level ∧ l ≤ r.1.level)
  | .mark0 d => ∃ item, r.2.1.pc = .delSearch item ∧ keyOf r.1.heap d = .fin item
  | .markUp d => ∃ item i next m, th0.pc = .softMark item d i next m

theorem EvOK.insNode {th0 : Thread} {r : Res} {ev : LEv} (o : EvOK th0 r ev) {x : Nat}
    (c : ev = .own x ∨ ∃ l, ev = .link x l) : insNode th0.pc = some x := by
  rcases c with rfl | ⟨l, rfl⟩
  · exact o
  · exact o.1

/-- the result of a segment started from heap `h0` by thread `th0`, seen from the index levels -/
def GoodL (h0 : Heap) (th0 : Thread) (r : Res) : Prop :=
  ∃ ev, LStep h0 ev r.1.heap ∧ EvOK th0 r ev ∧ TL r.1.heap r.1.level r.2.1

/-- the unlink CAS of helpDelete -/
theorem dcas_lstep_unlink {h : Heap} {prev i curr next : Nat} (hw : word? h curr i = some (next, true))
    (kp : Lk h prev i) : LStep h .other (dcas h prev i curr next false).1 := by
  by_cases hs : (dcas h prev i curr next false).2 = true
  · rw [dcas_ok_heap _ _ _ _ _ _ hs]
    exact .unlink ((dcas_ok_iff ..).mp hs) hw kp
  · rw [dcas_fail _ _ _ _ _ _ (by simpa using hs)]; exact .none

theorem stepFindLevel_goodL {sh : Shared} {th : Thread} (fp : FP) (L : LvInv sh.heap)
    (hL : TL sh.heap sh.level th) (hpc : th.pc = .findLevel fp) :
    GoodL sh.heap th (stepFindLevel sh th fp) := by
  obtain ⟨bb, bp⟩ := hL
  rw [hpc] at bp
  exact ⟨.other, .none, trivial, bb, bp.1, bp.2.1, fun _ => L.getNext_Lk _ _, bp.2.2⟩

theorem stepFindNext_goodL {sh : Shared} {th : Thread} (fp : FP) (rr : Bool) (L : LvInv sh.heap)
    (hT : TInv sh.heap th) (hL : TL sh.heap sh.level th) (hpc : th.pc = .findNext fp rr) :
    GoodL sh.heap th (stepFindNext sh th fp rr) := by
  have hp := hT.2.2
  rw [hpc] at hp
  obtain ⟨⟨f1, f2, f3, f4, f5⟩, _⟩ := hp
  obtain ⟨bb, bp⟩ := hL
  rw [hpc] at bp
  obtain ⟨hil, kp, kc, c⟩ := bp
  have hh : (stepFindNext sh th fp rr).1.heap = sh.heap := by unfold stepFindNext; exact afterRead_heap ..
  have hl : (stepFindNext sh th fp rr).1.level = sh.level := by unfold stepFindNext; exact afterRead_level ..
  refine ⟨.other, by rw [hh]; exact .none, trivial, ?_⟩
  rw [hh, hl]
  unfold stepFindNext
  generalize hfp1 : (if rr = true then { fp with curr := (getNext sh.heap fp.prev fp.i).1 } else fp) = fp1
  have hF : fp1.i = fp.i ∧ fp1.item = fp.item ∧ fp1.cont = fp.cont ∧ fp1.prev = fp.prev ∧
      Lk sh.heap fp1.curr fp.i := by
    rw [← hfp1]
    split
    · exact ⟨rfl, rfl, rfl, rfl, L.getNext_Lk _ _⟩
    · rename_i hr
      exact ⟨rfl, rfl, rfl, rfl, kc (by simpa using hr)⟩
  obtain ⟨e1, e2, e3, e4, kc1⟩ := hF
  simp only []
  refine afterRead_tl sh th fp1 _ _ bb (by rw [e1]; exact f5) (by rw [e4, e2]; exact f3) (by rw [e4, e1]; exact kp)
    (by rw [e1]; exact kc1) (L.getNext_Lk _ _) (by rw [e1, e2, e3]; exact c) (by rw [e1]; exact hil)

theorem stepHelpDelete_goodL {sh : Shared} {th : Thread} (fp : FP) (next : Nat) (H : HInv sh.heap)
    (hT : TInv sh.heap th) (hL : TL sh.heap sh.level th) (hpc : th.pc = .helpDelete fp next) :
    GoodL sh.heap th (stepHelpDelete sh th fp next) := by
  have hp := hT.2.2
  rw [hpc] at hp
  have hL0 := hL.2
  rw [hpc] at hL0
  have e := Ext.dcas sh.heap fp.prev fp.i fp.curr next false
  have hs := dcas_lstep_unlink (prev := fp.prev) hp.2 hL0.2.1
  have hk := hL.keep H e hs (Nat.le_refl _) hT (fun x c => by rcases c with c | ⟨l, c⟩ <;> cases c)
  obtain ⟨bb, bp⟩ := hk
  rw [hpc] at bp
  unfold stepHelpDelete
  simp only []
  split
  · refine ⟨.other, by simpa [helpStats_heap] using hs, trivial, ?_⟩
    simp only [helpStats_heap, helpStats_level]
    exact ⟨bb, bp.1, bp.2.1, fun c => by simp at c, bp.2.2⟩
  · refine ⟨.other, by simpa [helpStats_heap, bumpReadConflicts] using hs, trivial, ?_⟩
    simp only [helpStats_heap, helpStats_level, bumpReadConflicts]
    exact ⟨bb, Nat.le_refl _, Lk_head _ _, bp.2.2.restart⟩

theorem enterSoft_tl (sh : Shared) (th : Thread) (item n i : Nat) (m : Bool) (b : BufL sh.heap th.preds th.succs)
    (hk : keyOf sh.heap n = .fin item) :
    TL (enterSoft sh th item n i m).1.heap (enterSoft sh th item n i m).1.level (enterSoft sh th item n i m).2.1 := by
  rw [enterSoft_sh]
  exact enterSoft_tl' sh th item n i m b hk

/-- softDelete on a node whose level-0 word is marked, by the thread that marked it: on to DEL_SEARCH -/
theorem enterSoft_marked0 (sh : Shared) (th : Thread) (item n e : Nat) (hw : word? sh.heap n 0 = some (e, true)) :
    (enterSoft sh th item n 0 true).2.1.pc = .delSearch item := by
  simp [enterSoft, softScan, getNext_of_word hw]

theorem stepSoftMark_goodL {sh : Shared} {th : Thread} (item n i next : Nat) (marked : Bool) (H : HInv sh.heap)
    (hT : TInv sh.heap th) (hL : TL sh.heap sh.level th) (hpc : th.pc = .softMark item n i next marked) :
    GoodL sh.heap th (stepSoftMark sh th item n i next marked) := by
  have e := Ext.dcas sh.heap n i next next true
  have hp := hT.2.2
  rw [hpc] at hp
  have hk0 := hL.2
  rw [hpc] at hk0
  have hk' : keyOf (dcas sh.heap n i next next true).1 n = .fin item := by rw [e.key _ hp.1]; exact hk0
  by_cases hwin : (dcas sh.heap n i next next true).2 = true ∧ i = 0
  · obtain ⟨hs, rfl⟩ := hwin
    have hw0 := (dcas_ok_iff ..).mp hs
    have hst : LStep sh.heap (.mark0 n) (dcas sh.heap n 0 next next true).1 := by
      rw [dcas_ok_heap _ _ _ _ _ _ hs]; exact .mark0 hw0
    have hk := hL.keep H e hst (Nat.le_refl _) hT (fun x c => by rcases c with c | ⟨l, c⟩ <;> cases c)
    have hwins : Gen.softDeleteWins (dcas sh.heap n 0 next next true).2 0 = true :=
      (softDeleteWins_iff _ _).mpr ⟨hs, rfl⟩
    have hwm : word? (dcas sh.heap n 0 next next true).1 n 0 = some (next, true) := by
      rw [word?_dcas_ok hs]; simp
    unfold stepSoftMark
    simp only [hwins, if_true, Bool.or_true]
    refine ⟨.mark0 n, by rw [enterSoft_sh]; exact hst, ⟨item, ?_, ?_⟩, ?_⟩
    · exact enterSoft_marked0 _ th item n next hwm
    · rw [enterSoft_sh]; exact hk'
    · exact enterSoft_tl _ _ _ _ _ _ hk.1 hk'
  · by_cases hok : (dcas sh.heap n i next next true).2 = true
    · have hi0 : i ≠ 0 := fun c => hwin ⟨hok, c⟩
      have hs : LStep sh.heap (.markUp n) (dcas sh.heap n i next next true).1 := by
        rw [dcas_ok_heap _ _ _ _ _ _ hok]
        exact .mark (by omega) ((dcas_ok_iff ..).mp hok)
      have hk := hL.keep H e hs (Nat.le_refl _) hT (fun x c => by rcases c with c | ⟨l, c⟩ <;> cases c)
      unfold stepSoftMark
      simp only []
      refine ⟨.markUp n, ?_, ⟨item, i, next, marked, hpc⟩, ?_⟩
      · rw [enterSoft_sh]; split <;> exact hs
      · refine enterSoft_tl _ _ _ _ _ _ ?_ ?_
        · split <;> exact hk.1
        · split <;> exact hk'
    · have hheap := dcas_fail _ _ _ _ _ _ (by simpa using hok)
      unfold stepSoftMark
      simp only []
      refine ⟨.other, ?_, trivial, ?_⟩
      · rw [enterSoft_sh]; split <;> (simp only [hheap]; exact .none)
      · refine enterSoft_tl _ _ _ _ _ _ ?_ ?_
        · split <;> (simp only [hheap]; exact hL.1)
        · split <;> (simp only [hheap]; exact hk0)

theorem stepNewLevel_goodL {sh : Shared} {th : Thread} (item req level : Nat)
    (hL : TL sh.heap sh.level th) (hpc : th.pc = .newLevel item req level) :
    GoodL sh.heap th (stepNewLevel sh th item req level) := by
  obtain ⟨bb, bp⟩ := hL
  rw [hpc] at bp
  unfold stepNewLevel
  split
  · exact ⟨.other, .none, trivial, startFind_tl { sh with level := level + 1 } th item _ bb
      ⟨Nat.le_refl _, KeysOK.vacuous _ _ _ _ (Nat.le_refl _)⟩⟩
  · exact ⟨.other, .none, trivial, startFind_tl sh th item _ bb ⟨bp, KeysOK.vacuous _ _ _ _ bp⟩⟩

theorem stepIterNext_goodL {sh : Shared} {th : Thread} (it : Nat) (hL : TL sh.heap sh.level th) :
    GoodL sh.heap th (stepIterNext sh th it) := by
  unfold stepIterNext
  simp only []
  split
  · exact ⟨.other, .none, trivial, hL.1, trivial⟩
  · refine ⟨.other, by rw [afterNext_sh]; exact .none, trivial, ?_⟩
    rw [afterNext_sh]
    exact TL_of_plain (th := th) hL.1 (afterNext_bufs ..) (plain_afterNext ..)

theorem stepIterHelp_goodL {sh : Shared} {th : Thread} (it next : Nat) (H : HInv sh.heap)
    (hT : TInv sh.heap th) (hL : TL sh.heap sh.level th) (hpc : th.pc = .iterHelp it next) :
    GoodL sh.heap th (stepIterHelp sh th it next) := by
  have e := Ext.dcas sh.heap (th.iter it).prev 0 (th.iter it).curr next false
  have hs : LStep sh.heap .other (dcas sh.heap (th.iter it).prev 0 (th.iter it).curr next false).1 := by
    by_cases hs : (dcas sh.heap (th.iter it).prev 0 (th.iter it).curr next false).2 = true
    · have hp := hT.2.2
      rw [hpc] at hp
      rw [dcas_ok_heap _ _ _ _ _ _ hs]
      exact .unlink ((dcas_ok_iff ..).mp hs) hp.1 (fun l h1 h2 => by omega)
    · rw [dcas_fail _ _ _ _ _ _ (by simpa using hs)]; exact .none
  have hk := hL.keep H e hs (Nat.le_refl _) hT (fun x c => by rcases c with c | ⟨l, c⟩ <;> cases c)
  unfold stepIterHelp
  simp only []
  split
  · refine ⟨.other, by rw [afterNext_sh]; simpa [helpStats_heap] using hs, trivial, ?_⟩
    rw [afterNext_sh]
    simp only [helpStats_heap, helpStats_level]
    exact TL_of_plain (th := th) hk.1 (afterNext_bufs ..) (plain_afterNext ..)
  · refine ⟨.other, by simpa [helpStats_heap, bumpReadConflicts, startFind_sh] using hs, trivial, ?_⟩
    have := startFind_tl (bumpReadConflicts (helpStats sh
      (dcas sh.heap (th.iter it).prev 0 (th.iter it).curr next false).1
      (dcas sh.heap (th.iter it).prev 0 (th.iter it).curr next false).2 0 (th.iter it).curr)) th
      (itemOfKey (keyOf (helpStats sh
      (dcas sh.heap (th.iter it).prev 0 (th.iter it).curr next false).1
      (dcas sh.heap (th.iter it).prev 0 (th.iter it).curr next false).2 0 (th.iter it).curr).heap (th.iter it).curr))
      (.iterNext it) (by simpa [bumpReadConflicts, helpStats_heap] using hk.1) trivial
    exact this

end NitroVerif.SkipConc
