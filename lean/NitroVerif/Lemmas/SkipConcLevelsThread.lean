import NitroVerif.Lemmas.SkipConcLevelsKeep
/-!
  Index levels of M5, part 4: the thread-local invariant `TL` of the index levels and its stability under the
  writes of the other threads.

  * `BufL`: every recorded predecessor / successor of level `j` is `Lk` at level `j`.
  * `KeysOK item lo hi`: the recorded predecessors / successors of the levels in `(lo, hi]` bracket the item.
  * `InsNode x i`: the published node `x` whose inserter is working on level `i` is not pointed to at level `i` or
    above as long as it is unmarked there, and it is on the chain of every lower index level at which it is unmarked.
-/
namespace NitroVerif.SkipConc
open NitroVerif

def KeysOK (h : Heap) (preds succs : List Nat) (item lo hi : Nat) : Prop :=
  ∀ j, lo < j → j ≤ hi →
    Key.lt (keyOf h (preds.getD j 0)) (.fin item) ∧ ¬ Key.lt (keyOf h (succs.getD j 0)) (.fin item)

def BufL (h : Heap) (preds succs : List Nat) : Prop :=
  preds.length = Gen.maxLevel + 1 ∧ succs.length = Gen.maxLevel + 1 ∧
  ∀ j, Lk h (preds.getD j 0) j ∧ Lk h (succs.getD j 0) j

def InsNode (h : Heap) (x i : Nat) : Prop := UnlIf h x i ∧ Lk h x (i - 1)

/-- what the caller of findPath knows, `i` = the level findPath is working on -/
def ContL (h : Heap) (lv : Nat) (preds succs : List Nat) (item i : Nat) : Cont → Prop
  | .insFirst lvl => lvl ≤ lv ∧ KeysOK h preds succs item i lvl
  | .insRetry lvl => lvl ≤ lv ∧ KeysOK h preds succs item i lvl
  | .insRelink x lvl i' => lvl ≤ lv ∧ KeysOK h preds succs item i lvl ∧ InsNode h x i'
  | .insSuccDeleted x lvl i' => lvl ≤ lv ∧ KeysOK h preds succs item i lvl ∧ InsNode h x i'
  | _ => True

def PCL (h : Heap) (lv : Nat) (preds succs : List Nat) : PC → Prop
  | .newLevel _ _ level => level ≤ lv
  | .findLevel fp => fp.i ≤ lv ∧ Lk h fp.prev fp.i ∧ ContL h lv preds succs fp.item fp.i fp.cont
  | .findNext fp rr => fp.i ≤ lv ∧ Lk h fp.prev fp.i ∧ (rr = false → Lk h fp.curr fp.i) ∧
      ContL h lv preds succs fp.item fp.i fp.cont
  | .helpDelete fp _ => fp.i ≤ lv ∧ Lk h fp.prev fp.i ∧ ContL h lv preds succs fp.item fp.i fp.cont
  /- the node a Delete is marking carries the item of the Delete -/
  | .softMark item n _ _ _ => keyOf h n = .fin item
  | .insPublish item lvl => lvl ≤ lv ∧ KeysOK h preds succs item 0 lvl
  | .insUpRead item x lvl i => lvl ≤ lv ∧ KeysOK h preds succs item 0 lvl ∧ InsNode h x i
  | .insUpLink item x lvl i next => lvl ≤ lv ∧ KeysOK h preds succs item 0 lvl ∧ InsNode h x i ∧
      (∃ m, word? h x i = some (next, m)) ∧ Key.lt (.fin item) (keyOf h next)
  | _ => True

/-- the thread-local invariant of the index levels (`lv` = the current `s.level`) -/
def TL (h : Heap) (lv : Nat) (th : Thread) : Prop := BufL h th.preds th.succs ∧ PCL h lv th.preds th.succs th.pc

/-- the published node a thread is still linking into the index levels -/
def contNode : Cont → Option Nat
  | .insRelink x _ _ => some x
  | .insSuccDeleted x _ _ => some x
  | _ => none

def insNode : PC → Option Nat
  | .findLevel fp => contNode fp.cont
  | .findNext fp _ => contNode fp.cont
  | .helpDelete fp _ => contNode fp.cont
  | .insUpRead _ x _ _ => some x
  | .insUpLink _ x _ _ _ => some x
  | _ => none

/-! ### stability -/

theorem BufL.keep {h h' : Heap} {ev : LEv} {ps ss : List Nat} (H : HInv h) (e : Ext h h') (s : LStep h ev h')
    (hb : BufOK h ps ss) (b : BufL h ps ss) : BufL h' ps ss :=
  ⟨b.1, b.2.1, fun j => ⟨(b.2.2 j).1.keep H e s (hb.2.2.1 j), (b.2.2 j).2.keep H e s (hb.2.2.2.1 j)⟩⟩

theorem KeysOK.ext {h h' : Heap} {ps ss : List Nat} {item lo hi : Nat} (e : Ext h h')
    (hb : BufOK h ps ss) (k : KeysOK h ps ss item lo hi) : KeysOK h' ps ss item lo hi := by
  intro j h1 h2
  have := k j h1 h2
  rw [e.key _ (hb.2.2.1 j), e.key _ (hb.2.2.2.1 j)]
  exact this

theorem InsNode.keep {h h' : Heap} {ev : LEv} (H : HInv h) (e : Ext h h') (s : LStep h ev h') {x i : Nat}
    (hx : x < h.length) (hx0 : x ≠ 0) (hi : 1 ≤ i) (hev : ∀ l, ev ≠ .link x l) (b : InsNode h x i) :
    InsNode h' x i :=
  ⟨b.1.keep H e s hx hx0 hi hev, b.2.keep H e s hx⟩

theorem ne_head_of_fin {h : Heap} (H : HInv h) {x k : Nat} (hk : keyOf h x = .fin k) : x ≠ 0 := by
  intro e; rw [e, H.headKey] at hk; simp at hk

theorem ContL.keep {h h' : Heap} {ev : LEv} {lv lv' : Nat} {th : Thread} {item i : Nat} {c : Cont} (H : HInv h)
    (e : Ext h h') (s : LStep h ev h') (hlv : lv ≤ lv') (hb : BufOK h th.preds th.succs)
    (hc : ContInv h th item c) (hev : ∀ x l, ev = .link x l → contNode c ≠ some x)
    (b : ContL h lv th.preds th.succs item i c) : ContL h' lv' th.preds th.succs item i c := by
  cases c <;> simp only [ContL, ContInv, contNode] at * <;> try trivial
  · exact ⟨Nat.le_trans b.1 hlv, b.2.ext e hb⟩
  · exact ⟨Nat.le_trans b.1 hlv, b.2.ext e hb⟩
  · refine ⟨Nat.le_trans b.1 hlv, b.2.1.ext e hb, b.2.2.keep H e s hc.1 (ne_head_of_fin H hc.2.1) hc.2.2.1 ?_⟩
    intro l c; exact hev _ l c rfl
  · refine ⟨Nat.le_trans b.1 hlv, b.2.1.ext e hb, b.2.2.keep H e s hc.1 (ne_head_of_fin H hc.2.1) hc.2.2.1 ?_⟩
    intro l c; exact hev _ l c rfl

/-- the invariant of a thread survives every write that is not an inserter's write for this thread's own node -/
theorem TL.keep {h h' : Heap} {ev : LEv} {lv lv' : Nat} {th : Thread} (H : HInv h) (e : Ext h h')
    (s : LStep h ev h') (hlv : lv ≤ lv') (hT : TInv h th)
    (hev : ∀ x, (ev = .own x ∨ ∃ l, ev = .link x l) → insNode th.pc ≠ some x)
    (b : TL h lv th) : TL h' lv' th := by
  obtain ⟨hb, _, hp⟩ := hT
  obtain ⟨bb, bp⟩ := b
  refine ⟨bb.keep H e s hb, ?_⟩
  cases hpc : th.pc <;> rw [hpc] at hp bp hev <;> simp only [PCL, PCInv, insNode] at * <;> try trivial
  · exact Nat.le_trans bp hlv
  · exact ⟨Nat.le_trans bp.1 hlv, bp.2.1.keep H e s hp.1,
      bp.2.2.keep H e s hlv hb hp.2.2.2.1 (fun x l c => hev x (.inr ⟨l, c⟩))⟩
  · exact ⟨Nat.le_trans bp.1 hlv, bp.2.1.keep H e s hp.1.1, fun hr => (bp.2.2.1 hr).keep H e s hp.1.2.1,
      bp.2.2.2.keep H e s hlv hb hp.1.2.2.2.1 (fun x l c => hev x (.inr ⟨l, c⟩))⟩
  · exact ⟨Nat.le_trans bp.1 hlv, bp.2.1.keep H e s hp.1.1,
      bp.2.2.keep H e s hlv hb hp.1.2.2.2.1 (fun x l c => hev x (.inr ⟨l, c⟩))⟩
  · exact ⟨Nat.le_trans bp.1 hlv, bp.2.ext e hb⟩
  · have hx0 := ne_head_of_fin H hp.2.1
    refine ⟨Nat.le_trans bp.1 hlv, bp.2.1.ext e hb, bp.2.2.keep H e s hp.1 hx0 hp.2.2.1 ?_⟩
    intro l c; exact hev _ (.inr ⟨l, c⟩) rfl
  · have hx0 := ne_head_of_fin H hp.2.1
    have hne : ∀ l, ev ≠ .link _ l := fun l c => hev _ (.inr ⟨l, c⟩) rfl
    have hne' : ev ≠ .own _ := fun c => hev _ (.inl c) rfl
    obtain ⟨m, hw⟩ := bp.2.2.2.1
    refine ⟨Nat.le_trans bp.1 hlv, bp.2.1.ext e hb, bp.2.2.1.keep H e s hp.1 hx0 hp.2.2.1 hne,
      wordX_keep s hx0 hp.2.2.1 hne' bp.2.2.1.1 hw, ?_⟩
    rw [e.key _ hp.2.2.2.1]; exact bp.2.2.2.2
  · rw [e.key _ hp.1]; exact bp

end NitroVerif.SkipConc
