/-
  One step of the machine against the specification (part 4): DEL_NODE_PHYS, DEL_NODE_FLUSH,
  DEL_NODE_CAS and the assembly.
-/
import NitroVerif.Lemmas.MvccConcLinStep3

namespace NitroVerif.MvccConc
open NitroVerif
open NitroVerif.SetSpec (Op Out)
open NitroVerif.Mvcc (Ver Sorted Chains isAlive)

theorem replay_append_some {sp sp1 : SetSpec.State} {l1 l2 : List Ev} (h : replay sp l1 = some sp1) :
    replay sp (l1 ++ l2) = replay sp1 l2 := by
  rw [replay_append, h]; rfl

theorem findKey_removeKey (k : Nat) (l : List SetSpec.Entry) : SetSpec.findKey k (SetSpec.removeKey k l) = none := by
  unfold SetSpec.findKey SetSpec.removeKey
  apply List.find?_eq_none.mpr
  intro e he
  have := (List.mem_filter.mp he).2
  simpa using this

theorem phase_of_phys {σ : State} {t n tok k : Nat} {p : Phase} (hg : σ.threads[t]? = some (.delPhys n tok k))
    (hp : PhaseOK σ t p) :
    (n ∈ storeIds σ.store → p = .called (.del t k)) ∧
    (n ∉ storeIds σ.store → p = .decided (.del t k) (.bool false)) := by
  cases p with
  | idle => exact absurd (hp _ hg) (by simp [Pc.isWop])
  | called op =>
    rcases hp with ⟨_, _, _, _, hg', _⟩ | ⟨_, _, _, hg', ho, hm⟩ | ⟨_, _, _, hg', _⟩
    · rw [hg] at hg'; cases hg'
    · rw [hg] at hg'; injection hg' with h1; injection h1 with h2 _ h4; subst h2; subst h4
      exact ⟨fun _ => by rw [ho], fun h => absurd hm h⟩
    · rw [hg] at hg'; cases hg'
  | decided op res =>
    rcases hp with ⟨_, _, _, hg', ho, hr, hm⟩ | ⟨_, _, _, hg', _⟩ | ⟨_, _, _, hg', _⟩
    · rw [hg] at hg'; injection hg' with h1; injection h1 with h2 _ h4; subst h2; subst h4
      exact ⟨fun h => absurd h hm, fun _ => by rw [ho, hr]⟩
    · rw [hg] at hg'; cases hg'
    · rw [hg] at hg'; cases hg'
  | broken => exact hp.elim

theorem phase_of_cas {σ : State} {t n tok k : Nat} {p : Phase} (hg : σ.threads[t]? = some (.delCas n tok k))
    (hp : PhaseOK σ t p) :
    (AliveIn σ.store n → p = .called (.del t k)) ∧
    (¬ AliveIn σ.store n → p = .decided (.del t k) (.bool false)) := by
  cases p with
  | idle => exact absurd (hp _ hg) (by simp [Pc.isWop])
  | called op =>
    rcases hp with ⟨_, _, _, _, hg', _⟩ | ⟨_, _, _, hg', _⟩ | ⟨_, _, _, hg', ho, hm⟩
    · rw [hg] at hg'; cases hg'
    · rw [hg] at hg'; cases hg'
    · rw [hg] at hg'; injection hg' with h1; injection h1 with h2 _ h4; subst h2; subst h4
      exact ⟨fun _ => by rw [ho], fun h => absurd hm h⟩
  | decided op res =>
    rcases hp with ⟨_, _, _, hg', _⟩ | ⟨_, _, _, hg', _⟩ | ⟨_, _, _, hg', ho, hr, hm⟩
    · rw [hg] at hg'; cases hg'
    · rw [hg] at hg'; cases hg'
    · rw [hg] at hg'; injection hg' with h1; injection h1 with h2 _ h4; subst h2; subst h4
      exact ⟨fun h => absurd h hm, fun _ => by rw [ho, hr]⟩
  | broken => exact hp.elim

theorem phase_of_flush {σ : State} {t n tok k : Nat} {p : Phase} (hg : σ.threads[t]? = some (.delFlush n tok k))
    (hp : PhaseOK σ t p) : p = .decided (.del t k) (.bool true) := by
  cases p with
  | idle => exact absurd (hp _ hg) (by simp [Pc.isWop])
  | called op =>
    rcases hp with ⟨_, _, _, _, hg', _⟩ | ⟨_, _, _, hg', _⟩ | ⟨_, _, _, hg', _⟩ <;> (rw [hg] at hg'; cases hg')
  | decided op res =>
    rcases hp with ⟨_, _, _, hg', _⟩ | ⟨_, _, _, hg', ho, hr⟩ | ⟨_, _, _, hg', _⟩
    · rw [hg] at hg'; cases hg'
    · rw [hg] at hg'; injection hg' with h1; injection h1 with _ _ h4; subst h4; rw [ho, hr]
    · rw [hg] at hg'; cases hg'
  | broken => exact hp.elim

/-- a Delete that only gives its token back and answers `b`: the store, the epoch, the writers and the
    other threads are untouched -/
theorem stepOK_return {σ : State} {sp : SetSpec.State} (habs : Abs σ sp) {t : Nat} {b : Bool} {k : Nat}
    {σ' : State} (hev : events σ (.step t) = [.ret t (.bool b)]) (hst : (step σ (.step t)).1 = σ')
    (hthr : σ'.threads = σ.threads.set t .idle) (hstore : σ'.store = σ.store) (hcur : σ'.currSn = σ.currSn)
    (hwr : σ'.writers = σ.writers) {pc0 : Pc} (hg : σ.threads[t]? = some pc0)
    (hphase : ∀ p, PhaseOK σ t p → p = .decided (.del t k) (.bool b)) : StepOK σ sp (.step t) := by
  refine ⟨⟨sp, by rw [hev]; rfl, ?_⟩, ?_⟩
  · rw [hst]; exact ⟨by rw [hwr]; exact habs.nw, by rw [hstore]; exact habs.alive, by rw [hcur]; exact habs.epoch⟩
  · intro t' p hp
    rw [hev, hst]
    by_cases he : t' = t
    · subst he
      have := hphase p hp
      subst this
      simp only [phaseOf, List.foldl_cons, List.foldl_nil, phaseStep, if_true]
      intro pc hgpc
      rw [hthr, get_set_self hg] at hgpc
      injection hgpc with h1; subst h1; rfl
    · rw [phaseOf_others (by intro e hm; simp at hm; subst hm; simp [Ev.thread]; exact fun h => he h.symm)]
      exact hp.store_change (by rw [hthr, get_set_ne _ (fun h => he h.symm)]) (fun _ _ _ _ => by rw [hstore])
        (fun _ _ _ _ => by unfold AliveIn; rw [hstore])

/-- a winning Delete: thread `t` made the alive node `x` (key `k`) dead or unlinked -/
theorem stepOK_win {σ : State} {sp : SetSpec.State} (hi : Inv σ) (habs : Abs σ sp) {t n k : Nat} {x : Node}
    (hw : t < σ.writers.length) (hx : x ∈ σ.store) (hid : x.id = n) (hxk : x.ver.key = k) (hxd : x.ver.dead = 0)
    {σ' : State} {tail : List Ev}
    (hev : events σ (.step t) = .lin t (.del t k) (.bool true) :: (losers σ t n ++ tail))
    (htail : tail = [] ∨ tail = [.ret t (.bool true)])
    (hst : (step σ (.step t)).1 = σ')
    (hthr : ∀ t', t' ≠ t → σ'.threads[t']? = σ.threads[t']?)
    (hcur : σ'.currSn = σ.currSn) (hwr : σ'.writers.length = σ.writers.length)
    (halive' : Mvcc.absAlive (vers σ'.store) = SetSpec.removeKey k (Mvcc.absAlive (vers σ.store)))
    (hids : ∀ m, m ≠ n → (m ∈ storeIds σ'.store ↔ m ∈ storeIds σ.store))
    (haliveIn : ∀ m, m ≠ n → (AliveIn σ'.store m ↔ AliveIn σ.store m))
    (hA : ¬ AliveIn σ'.store n)
    (hB : ∀ (t' tok k' : Nat), σ.threads[t']? = some (Pc.delPhys n tok k') → n ∉ storeIds σ'.store)
    (hself : ∀ p, PhaseOK σ t p → p = .called (.del t k))
    (hselfOK : PhaseOK σ' t (phaseOf t (.decided (.del t k) (.bool true)) tail)) :
    StepOK σ sp (.step t) := by
  have hspec := spec_del_some hi habs hw hx hxd
  rw [hxk] at hspec
  obtain ⟨hr, hal, hnw, hep⟩ := hspec
  have hwas : n ∈ storeIds σ.store ∧ AliveIn σ.store n :=
    ⟨List.mem_map.mpr ⟨x, hx, hid⟩, x, hx, hid, hxd⟩
  refine ⟨⟨(SetSpec.step sp (.del t k)).1, ?_, ?_⟩, ?_⟩
  · rw [hev]
    simp only [replay, specStep, linOp, hr, and_self, if_true]
    rw [replay_append_some (replay_losers hi hx hid (by rw [hnw]; exact habs.nw)
      (by rw [hxk, hal]; exact findKey_removeKey k _))]
    rcases htail with rfl | rfl
    · rfl
    · simp [replay, specStep]
  · rw [hst]
    exact ⟨by rw [hnw, hwr]; exact habs.nw, by rw [hal, halive', habs.alive], by rw [hep, hcur]; exact habs.epoch⟩
  · intro t' p hp
    rw [hev, hst]
    by_cases he : t' = t
    · subst he
      have := hself p hp
      subst this
      rw [phaseOf_cons]
      simp only [phaseStep, if_true]
      rw [phaseOf_append, phaseOf_others (l := losers σ t' n)]
      · exact hselfOK
      · intro e hm
        unfold losers at hm
        obtain ⟨u, _, hl⟩ := List.mem_filterMap.mp hm
        obtain ⟨hne, _, _, rfl, _⟩ := loserEv_some hl
        simp [Ev.thread]; exact hne
    · rw [phaseOf_cons, phaseStep_other (by simp [Ev.thread]; exact fun h => he h.symm), phaseOf_append,
        phaseOf_others (l := tail) (by
          intro e hm
          rcases htail with rfl | rfl
          · simp at hm
          · simp at hm; subst hm; simp [Ev.thread]; exact fun h => he h.symm)]
      exact phase_kill hthr hids haliveIn hwas hA hB he hp

end NitroVerif.MvccConc
