import NitroVerif.Lemmas.SkipSeqOps2
import NitroVerif.Spec.OrdSet
/-!
  Iterator on a quiescent list: `Seek` lands on the first node `≥` the key, a full scan visits exactly
  the level-0 list.
-/
namespace NitroVerif.SkipSeq
open NitroVerif

theorem iterSeek_spec {s : SL} {L0 : List Nat} (hr : Rep s L0) (k : Int) :
    ∃ s' it, iterSeek s Iter.new (.item k) = (s', it, decide (k ∈ L0.map (ikey s.nodes))) ∧ SameBut s s' ∧
      (if (iterValid it).2 then some (keyOf s'.nodes (iterValid it).1.curr) else none)
        = (OrdSet.seekGE k (L0.map (ikey s.nodes))).map Key.item := by
  rcases hr.split k with ⟨A, B, hAB, hA, hB⟩
  rcases findPath_quiescent hr hAB hA hB with ⟨s3, he, hsb, hbuf⟩
  subst hAB
  have hs0 : s3.buf.succs.getD 0 0 = succAt s.nodes B 0 := (hbuf 0 (Nat.zero_le _)).2
  refine ⟨s3, { Iter.new with valid := true, prev := s3.buf.preds.getD 0 0, curr := s3.buf.succs.getD 0 0 },
    ?_, hsb, ?_⟩
  · unfold iterSeek
    rw [he]
    by_cases hc : compare (keyOf s.nodes (succAt s.nodes B 0)) (.item k) = 0
    · have hk := (hr.hit_iff hA hB).mp hc
      have hne := hr.succ_ne_nil hB hc
      rw [if_pos hc, decide_eq_true hk]
      simp [hne]
    · have hk : k ∉ (A ++ B).map (ikey s.nodes) := fun h => hc ((hr.hit_iff hA hB).mpr h)
      rw [if_neg hc, decide_eq_false hk]
      simp
  · simp only [Iter.new, hs0]
    have hfindA : (A.map (ikey s.nodes)).find? (fun x => decide (k ≤ x)) = none := by
      rw [List.find?_eq_none]
      intro x hx
      rcases List.mem_map.mp hx with ⟨a, ha, rfl⟩
      have := hA a ha
      simp; omega
    unfold OrdSet.seekGE
    rw [List.map_append, List.find?_append, hfindA, Option.none_or, succAt_zero]
    cases B with
    | nil => simp [iterValid]
    | cons b B' =>
      have hb := hr.nodes b (by simp)
      have hbt : b ≠ tailId := by have := hb.lo; simp [tailId]; omega
      have hkb := hB b (by simp)
      simp [iterValid, hbt, hkb, hsb.nodes, hb.key]

/-- one `Next()` on an unmarked node of a quiescent list just follows the level-0 link -/
theorem iterNext_plain {s : SL} {it : Iter} (hd : it.deleted = false)
    (hun : (getNext s.nodes it.curr 0).2 = false) :
    iterNext s it = (s, { it with valid := true, prev := it.curr, curr := (getNext s.nodes it.curr 0).1 }) := by
  unfold iterNext
  rw [hd]
  simp only [Bool.false_eq_true, if_false]
  rw [iterNextLoop]
  simp [hun, hd]

theorem scanLoop_spec {s : SL} : ∀ (X : List Nat) (it : Iter) (acc : List Nat) (f : Nat),
    Path s.nodes nomk 0 (X ++ [tailId]) → (∀ x ∈ X, x ≠ tailId) → it.curr = (X.head?).getD tailId →
    it.deleted = false → it.valid = true → X.length < f →
    scanLoop f s it acc = (s, acc.reverse ++ X) := by
  intro X
  induction X with
  | nil =>
    intro it acc f _ _ hc _ hv hf
    obtain ⟨f', rfl⟩ : ∃ f', f = f' + 1 := ⟨f - 1, by omega⟩
    simp only [List.head?_nil, Option.getD_none] at hc
    rw [scanLoop]
    simp [iterValid, hc, hv]
  | cons c R ih =>
    intro it acc f hp hne hc hd hv hf
    obtain ⟨f', rfl⟩ : ∃ f', f = f' + 1 := ⟨f - 1, by omega⟩
    simp only [List.head?_cons, Option.getD_some] at hc
    have hct : c ≠ tailId := hne c (by simp)
    have hlink : getNext s.nodes c 0 = ((R.head?).getD tailId, nomk c) := path_head_link (by simpa using hp)
    have hun : (getNext s.nodes it.curr 0).2 = false := by rw [hc, hlink]; rfl
    have hval : iterValid it = (it, true) := by
      unfold iterValid
      simp [hc, hct, hv]
    rw [scanLoop, hval]
    simp only [if_true]
    rw [iterNext_plain hd hun]
    simp only
    have := ih { it with valid := true, prev := it.curr, curr := (getNext s.nodes it.curr 0).1 }
      (it.curr :: acc) f' (path_tail (by simpa using hp)) (fun x hx => hne x (List.mem_cons_of_mem _ hx))
      (by simp [hc, hlink]) hd rfl (by simp at hf; omega)
    rw [this]
    simp [hc]

theorem scanAll_spec {s : SL} {L0 : List Nat} (hr : Rep s L0) : scanAll s = (s, L0) := by
  unfold scanAll
  have hp := hr.paths 0 (Nat.zero_le _)
  rw [LL_zero] at hp
  have hlink : getNext s.nodes headId 0 = ((L0.head?).getD tailId, nomk headId) := path_head_link hp
  have := scanLoop_spec (s := s) L0 (iterSeekFirst s Iter.new) [] (s.nodes.length + 1)
    (path_tail (by simpa using hp)) (fun x hx => hr.ne_tail hx) (by simp [iterSeekFirst, hlink])
    (by simp [iterSeekFirst, Iter.new]) (by simp [iterSeekFirst]) (by have := hr.size; omega)
  simpa using this

end NitroVerif.SkipSeq
