import NitroVerif.Lemmas.BarrierStep
import NitroVerif.Lemmas.BarrierAbsMk
/-!
  The abstraction function from the small-step barrier M4 (`Model/Barrier.lean`) to the lazy abstract
  barrier (`Lemmas/BarrierAbs.lean`), and its behaviour under the steps that change it.

  * sessions: `0 … cur` (the last one, `cur`, is current); session `s` is abstractly flushed iff `s < cur`,
    i.e. from the FL_SWAP of the flush that closes it;
  * holders of `s`: one anonymous holder per token — `heldT s` sums, over the threads, the tokens for `s`
    in `toks` plus 1 for a thread parked at `relDec s retRel` (API `Release` called, decrement not yet
    done).  A thread is a holder from its successful ACQ_ADD to its REL_DEC.  Neither the transient unit
    of a backing-off `Acquire` (`relDec s retAcq`) nor the flusher's own unit (`relDec s retFlush`) is a holder;
  * object of a flushed session: the object of the flush (`tagged[s]`, before FL_TAG the object the
    flusher carries in its program counter `flTag s obj`);
  * `freeSeq = freeSeqno`, `log` = the objects of the destructor calls.
-/
namespace NitroVerif.Barrier
open NitroVerif NitroVerif.AbsBarrier
set_option linter.unusedSimpArgs false
set_option linter.unusedVariables false

def contHeld : Cont → Nat
  | .retRel => 1
  | _ => 0

def pcHeld (s : Nat) : PC → Nat
  | .relDec s' k => if s' = s then contHeld k else 0
  | _ => 0

/-- tokens of session `s` held by the thread (a `Release` that has not decremented yet included) -/
def heldT (s : Nat) (t : Th) : Nat := t.toks.count s + pcHeld s t.pc

/-- the object a flusher carries between FL_SWAP and FL_TAG -/
def pcObj : PC → Nat
  | .flTag _ o => o
  | _ => 0

@[simp] theorem pcHeld_idle (s : Nat)  : pcHeld s .idle = 0 := rfl
@[simp] theorem pcObj_idle  : pcObj .idle = 0 := rfl
@[simp] theorem pcHeld_acqLoad (s : Nat)  : pcHeld s .acqLoad = 0 := rfl
@[simp] theorem pcObj_acqLoad  : pcObj .acqLoad = 0 := rfl
@[simp] theorem pcHeld_acqAdd (s : Nat) (a : Nat) : pcHeld s (.acqAdd a) = 0 := rfl
@[simp] theorem pcObj_acqAdd (a : Nat) : pcObj (.acqAdd a) = 0 := rfl
@[simp] theorem pcHeld_relClosed (s : Nat) (a : Nat) (k : Cont) : pcHeld s (.relClosed a k) = 0 := rfl
@[simp] theorem pcObj_relClosed (a : Nat) (k : Cont) : pcObj (.relClosed a k) = 0 := rfl
@[simp] theorem pcHeld_relInsert (s : Nat) (a : Nat) (k : Cont) : pcHeld s (.relInsert a k) = 0 := rfl
@[simp] theorem pcObj_relInsert (a : Nat) (k : Cont) : pcObj (.relInsert a k) = 0 := rfl
@[simp] theorem pcHeld_relTryLock (s : Nat) (k : Cont) : pcHeld s (.relTryLock k) = 0 := rfl
@[simp] theorem pcObj_relTryLock (k : Cont) : pcObj (.relTryLock k) = 0 := rfl
@[simp] theorem pcHeld_clRead (s : Nat) (b : Bool) (k : Cont) : pcHeld s (.clRead b k) = 0 := rfl
@[simp] theorem pcObj_clRead (b : Bool) (k : Cont) : pcObj (.clRead b k) = 0 := rfl
@[simp] theorem pcHeld_clProc (s : Nat) (a : Nat) (k : Cont) : pcHeld s (.clProc a k) = 0 := rfl
@[simp] theorem pcObj_clProc (a : Nat) (k : Cont) : pcObj (.clProc a k) = 0 := rfl
@[simp] theorem pcHeld_relUnlock (s : Nat) (k : Cont) : pcHeld s (.relUnlock k) = 0 := rfl
@[simp] theorem pcObj_relUnlock (k : Cont) : pcObj (.relUnlock k) = 0 := rfl
@[simp] theorem pcHeld_relRecheck (s : Nat) (k : Cont) : pcHeld s (.relRecheck k) = 0 := rfl
@[simp] theorem pcObj_relRecheck (k : Cont) : pcObj (.relRecheck k) = 0 := rfl
@[simp] theorem pcHeld_flLock (s : Nat) (o : Nat) : pcHeld s (.flLock o) = 0 := rfl
@[simp] theorem pcObj_flLock (o : Nat) : pcObj (.flLock o) = 0 := rfl
@[simp] theorem pcHeld_flSwap (s : Nat) (o : Nat) : pcHeld s (.flSwap o) = 0 := rfl
@[simp] theorem pcObj_flSwap (o : Nat) : pcObj (.flSwap o) = 0 := rfl
@[simp] theorem pcHeld_flTag (s : Nat) (a : Nat) (o : Nat) : pcHeld s (.flTag a o) = 0 := rfl
@[simp] theorem pcHeld_flAdd (s : Nat) (a : Nat) : pcHeld s (.flAdd a) = 0 := rfl
@[simp] theorem pcObj_flAdd (a : Nat) : pcObj (.flAdd a) = 0 := rfl
@[simp] theorem pcHeld_flUnlock (s : Nat)  : pcHeld s .flUnlock = 0 := rfl
@[simp] theorem pcObj_flUnlock  : pcObj .flUnlock = 0 := rfl
@[simp] theorem pcHeld_relDec (s a : Nat) (k : Cont) : pcHeld s (.relDec a k) = if a = s then contHeld k else 0 := rfl
@[simp] theorem pcObj_relDec (a : Nat) (k : Cont) : pcObj (.relDec a k) = 0 := rfl
@[simp] theorem pcObj_flTag (a o : Nat) : pcObj (.flTag a o) = o := rfl
@[simp] theorem contHeld_retRel : contHeld .retRel = 1 := rfl
@[simp] theorem contHeld_retAcq : contHeld .retAcq = 0 := rfl
@[simp] theorem contHeld_retFlush : contHeld .retFlush = 0 := rfl
@[simp] theorem pcHeld_after (s : Nat) (k : Cont) : pcHeld s (afterCont k) = 0 := by cases k <;> rfl
@[simp] theorem pcObj_after (k : Cont) : pcObj (afterCont k) = 0 := by cases k <;> rfl

/-- the abstraction function -/
def absOf (st : St) : AbsBarrier Unit Nat :=
  tab st.cur (fun s => cnt (heldT s) st) (fun s => (st.tagged[s]?).getD (cnt (onPc pcObj) st))
    st.freeSeqno (st.log.map Prod.snd)

/-- the ACQ_ADD step on session `s` is enabled and hands out the token -/
def grants (st : St) (s : Nat) : Bool :=
  !(!(getS st s).flushed && decide (Gen.barrierFlushOffset ≤ (getS st s).live + 1)) &&
    !Gen.acquireBackoff ((getS st s).live + 1)

/-- the abstract action an M4 action of a thread with record `t` stands for (`none`: a stutter):
    acquire at the successful increment, release at the decrement of an API `Release`, flush at the swap,
    destruct at the destructor call -/
def absAct (st : St) (t : Th) : Barrier.Act → Option (AbsBarrier.Act Unit Nat)
  | .step =>
    match t.pc with
    | .acqAdd s => if grants st s then some (.acq ()) else none
    | .relDec s .retRel => some (.rel s ())
    | .flSwap obj => some (.flush obj)
    | .clProc _ _ => some .destruct
    | _ => none
  | _ => none

/-- the step is a successful ACQ_ADD on a session that is no longer current (the thread loaded
    `ab.session` before a flusher's FL_SWAP and increments before that flusher's FL_ADD) -/
def lateGrant (st : St) (t : Th) : Barrier.Act → Bool
  | .step =>
    match t.pc with
    | .acqAdd s => grants st s && decide (s ≠ st.cur)
    | _ => false
  | _ => false

/-- what the step from `st` to `st'` is for the abstraction -/
def Sim (st : St) (t : Th) (a : Barrier.Act) (st' : St) : Prop :=
  match absAct st t a with
  | none => absOf st' = absOf st
  | some α => AbsBarrier.step (absOf st) α = some (absOf st')

/-! ### pointwise comparisons of thread sums -/

theorem heldT_le_realT (s : Nat) (u : Th) : heldT s u ≤ realT s u := by
  unfold heldT realT pcHeld pcReal
  cases u.pc <;> simp
  rename_i s' k
  cases k <;> simp [contHeld, contReal]

theorem heldT_le_refT (s : Nat) (u : Th) : heldT s u ≤ refT s u := by
  unfold heldT refT pcHeld pcRef
  cases u.pc <;> simp
  rename_i s' k
  cases k <;> simp [contHeld] <;> split <;> omega

theorem cnt_zero_of_zero (f g : Th → Nat) (st : St) (hfg : ∀ u, f u = 0 → g u = 0)
    (h : cnt f st = 0) : cnt g st = 0 := by
  apply cnt_eq_zero_of
  intro u hu
  obtain ⟨i, hi⟩ := List.getElem?_of_mem hu
  have := cnt_ge_mem f st i u hi
  exact hfg u (by omega)

theorem pcObj_zero_of_pcTag (u : Th) (h : onPc pcTag u = 0) : onPc pcObj u = 0 := by
  unfold onPc at *; cases hp : u.pc <;> simp [hp, barsimp, pcObj] at h ⊢

theorem cnt_held_le_real (st : St) (s : Nat) : cnt (heldT s) st ≤ cnt (realT s) st :=
  cnt_le_cnt _ _ st (heldT_le_realT s)

/-! ### steps that do not change the abstraction -/

theorem absOf_same {st st1 : St} {i : Nat} {t t' : Th} (h1 : st1.ths = st.ths) (ht : st.ths[i]? = some t)
    (hc : st1.cur = st.cur) (hg : st1.tagged = st.tagged) (hf : st1.freeSeqno = st.freeSeqno)
    (hl : st1.log = st.log) (hh : ∀ s, heldT s t' = heldT s t) (ho : pcObj t'.pc = pcObj t.pc) :
    absOf (setT st1 i t') = absOf st := by
  have key := cnt_step' st st1 i t t' h1 ht
  unfold absOf
  simp only [setT_cur, setT_tagged, setT_freeSeqno, setT_log, hc, hg, hf, hl]
  have k1 : ∀ s, cnt (heldT s) (setT st1 i t') = cnt (heldT s) st := by
    intro s; rw [key, hh s]; omega
  have k2 : cnt (onPc pcObj) (setT st1 i t') = cnt (onPc pcObj) st := by
    rw [key]; simp only [onPc, ho]; omega
  simp only [k1, k2]

/-! ### acquire -/

theorem absOf_grant {st : St} {i : Nat} {t : Th} {x : Sess} (ht : st.ths[i]? = some t)
    (hpc : t.pc = .acqAdd st.cur) :
    absOf (setT (setS st st.cur x) i { pc := .idle, toks := t.toks ++ [st.cur] }) = acqF (absOf st) () := by
  have key := cnt_step' st (setS st st.cur x) i t { pc := .idle, toks := t.toks ++ [st.cur] } rfl ht
  unfold absOf
  rw [acqF_tab]
  simp only [setT_cur, setT_tagged, setT_freeSeqno, setT_log, setS_cur, setS_tagged, setS_freeSeqno, setS_log]
  have k2 : cnt (onPc pcObj) (setT (setS st st.cur x) i { pc := .idle, toks := t.toks ++ [st.cur] })
      = cnt (onPc pcObj) st := by
    rw [key]; simp [onPc, hpc, pcObj]
  rw [k2]
  congr 1
  funext s
  rw [key]
  simp only [heldT, hpc, pcHeld, List.count_append]
  by_cases e : s = st.cur
  · subst e; simp; omega
  · have e' : ¬ st.cur = s := fun h => e h.symm
    simp [e, e', List.count_cons]

/-- NOT an action of `AbsBarrier`: a holder more in session `s`, whichever it is -/
def acqAt (b : AbsBarrier Unit Nat) (s : Nat) : AbsBarrier Unit Nat :=
  { b with sess := b.sess.modify s (fun a => { a with holders := a.holders ++ [()] }) }

/-- the late grant: a holder more in the session `s0`, which is NOT the last one -/
theorem absOf_grant_any {st : St} {i : Nat} {t : Th} {x : Sess} {s0 : Nat} (ht : st.ths[i]? = some t)
    (hpc : t.pc = .acqAdd s0) :
    absOf (setT (setS st s0 x) i { pc := .idle, toks := t.toks ++ [s0] })
      = acqAt (absOf st) s0 := by
  unfold acqAt
  have key := cnt_step' st (setS st s0 x) i t { pc := .idle, toks := t.toks ++ [s0] } rfl ht
  unfold absOf
  simp only [setT_cur, setT_tagged, setT_freeSeqno, setT_log, setS_cur, setS_tagged, setS_freeSeqno, setS_log]
  have k2 : cnt (onPc pcObj) (setT (setS st s0 x) i { pc := .idle, toks := t.toks ++ [s0] })
      = cnt (onPc pcObj) st := by
    rw [key]; simp [onPc, hpc, pcObj]
  rw [k2]
  simp only [tab]
  rw [modify_tab]
  congr 1
  apply List.map_congr_left
  intro s _
  have k1 : cnt (heldT s) (setT (setS st s0 x) i { pc := .idle, toks := t.toks ++ [s0] })
      = cnt (heldT s) st + (if s = s0 then 1 else 0) := by
    rw [key]
    simp only [heldT, hpc, pcHeld, List.count_append]
    by_cases e : s = s0
    · subst e; simp; omega
    · have e' : ¬ s0 = s := fun h => e h.symm
      simp [e, e', List.count_cons]
  by_cases e : s = s0
  · subst e; simp [tabSess, k1, List.replicate_succ']
  · simp [tabSess, k1, e]

/-! ### release -/

theorem absOf_rel {st st1 : St} {i : Nat} {t t' : Th} {s0 : Nat} (h : Inv st) (h1 : st1.ths = st.ths)
    (ht : st.ths[i]? = some t) (hpc : t.pc = .relDec s0 .retRel)
    (hc : st1.cur = st.cur) (hg : st1.tagged = st.tagged) (hf : st1.freeSeqno = st.freeSeqno)
    (hl : st1.log = st.log) (htoks : t'.toks = t.toks) (hp : ∀ s, pcHeld s t'.pc = 0)
    (ho : pcObj t'.pc = 0) :
    AbsBarrier.step (absOf st) (.rel s0 ()) = some (absOf (setT st1 i t')) := by
  have key := cnt_step' st st1 i t t' h1 ht
  have mem := fun f => cnt_ge_mem f st i t ht
  have hs0 : s0 < st.sess.length := ref_lt h ht s0 (by simp [barsimp, hpc])
  have hcl := h.curlen
  have m0 := mem (heldT s0)
  simp [heldT, hpc, pcHeld, contHeld] at m0
  have hh : holds (absOf st) s0 () = true := holds_tab _ _ _ _ _ s0 (by omega) (by omega)
  simp only [AbsBarrier.step, hh, if_true]
  congr 1
  unfold absOf
  rw [relF_tab]
  simp only [setT_cur, setT_tagged, setT_freeSeqno, setT_log, hc, hg, hf, hl]
  have k2 : cnt (onPc pcObj) (setT st1 i t') = cnt (onPc pcObj) st := by
    rw [key]; simp only [onPc]; rw [ho, hpc]; simp [pcObj]
  rw [k2]
  congr 1
  funext s
  rw [key]
  have ms := mem (heldT s)
  unfold heldT at ms ⊢
  rw [hp s, htoks]
  rw [hpc] at ms ⊢
  by_cases e : s = s0
  · subst e; simp [pcHeld, contHeld] at ms ⊢; omega
  · have e' : ¬ s0 = s := fun h => e h.symm
    simp [pcHeld, e, e'] at ms ⊢

/-! ### flush -/

/-- nobody is at FL_TAG while another thread is elsewhere in the mutex region -/
theorem no_tag_of_mutex {st : St} {i : Nat} {t : Th} (h : Inv st) (ht : st.ths[i]? = some t)
    (hm : pcMutex t.pc = 1) (hn : pcTag t.pc = 0) : cnt (onPc pcTag) st = 0 := by
  have h1 := cnt_le_except (onPc pcTag) (onPc pcMutex) st i t pcTag_le_pcMutex ht
  have h2 := h.mutex
  have h3 := b2n_le st.mutex
  simp only [onPc, hm, hn] at h1
  omega

theorem absOf_swap {st : St} {i : Nat} {t : Th} {obj : Nat} (h : Inv st) (ht : st.ths[i]? = some t)
    (hpc : t.pc = .flSwap obj) :
    absOf (setT { st with sess := st.sess ++ [{}], cur := st.sess.length } i { t with pc := .flTag st.cur obj })
      = flushF (absOf st) obj := by
  have key := cnt_step' st { st with sess := st.sess ++ [{}], cur := st.sess.length } i t
    { t with pc := .flTag st.cur obj } rfl ht
  have hcl := h.curlen
  have hnt : cnt (onPc pcTag) st = 0 := no_tag_of_mutex h ht (by simp [hpc, barsimp]) (by simp [hpc, barsimp])
  have hno : cnt (onPc pcObj) st = 0 := cnt_zero_of_zero _ _ st pcObj_zero_of_pcTag hnt
  have hact := h.active
  have htg := h.tagged
  have hr := h.range (st.cur + 1) (by omega)
  have h0 : cnt (heldT (st.cur + 1)) st = 0 := by
    have := cnt_le_cnt (heldT (st.cur + 1)) (refT (st.cur + 1)) st (heldT_le_refT _); omega
  have hc : st.sess.length = st.cur + 1 := by omega
  have k2 : cnt (onPc pcObj) (setT { st with sess := st.sess ++ [{}], cur := st.sess.length } i
      { t with pc := .flTag st.cur obj }) = obj := by
    rw [key]; simp [onPc, hpc, pcObj, hno]
  have k1 : ∀ s, cnt (heldT s) (setT { st with sess := st.sess ++ [{}], cur := st.sess.length } i
      { t with pc := .flTag st.cur obj }) = cnt (heldT s) st := by
    intro s; rw [key]; simp [heldT, hpc, pcHeld]
  unfold absOf
  rw [flushF_tab _ _ _ _ _ _ h0]
  simp only [k1, k2, hno]
  simp only [setT_cur, setT_tagged, setT_freeSeqno, setT_log]
  rw [hc]
  apply tab_congr
  · intro s _; rfl
  · intro s hs
    by_cases e : s = st.cur
    · subst e
      have : st.tagged[st.cur]? = none := List.getElem?_eq_none (by omega)
      simp [this]
    · have hlt : s < st.tagged.length := by omega
      simp [e, List.getElem?_eq_getElem hlt]

theorem absOf_tag {st : St} {i : Nat} {t : Th} {s0 obj : Nat} {x : Sess} (h : Inv st)
    (ht : st.ths[i]? = some t) (hpc : t.pc = .flTag s0 obj) :
    absOf (setT (setS (tagGlobals st obj) s0 x) i { t with pc := .flAdd s0 }) = absOf st := by
  have key := cnt_step (onPc pcObj) st (setS (tagGlobals st obj) s0 x) i t { t with pc := .flAdd s0 } rfl ht
  have key' := cnt_step' st (setS (tagGlobals st obj) s0 x) i t { t with pc := .flAdd s0 } rfl ht
  have mem := fun f => cnt_ge_mem f st i t ht
  have m1 := mem (onPc pcTag)
  have hle := cnt_le_cnt (onPc pcTag) (onPc pcMutex) st pcTag_le_pcMutex
  have hmx := h.mutex
  have hb := b2n_le st.mutex
  have hact := h.active
  have htg := h.tagged
  simp [onPc, hpc, barsimp] at m1
  have hnt' : cnt (onPc pcTag) (setT (setS (tagGlobals st obj) s0 x) i { t with pc := .flAdd s0 }) = 0 := by
    rw [key']; simp [onPc, hpc, barsimp]; omega
  have hno' := cnt_zero_of_zero _ _ _ pcObj_zero_of_pcTag hnt'
  have hobj : cnt (onPc pcObj) st = obj := by
    simp [onPc, hpc, pcObj] at key; omega
  unfold absOf
  simp only [setT_cur, setT_tagged, setT_freeSeqno, setT_log, setS_cur, setS_tagged, setS_freeSeqno, setS_log,
    tagGlobals_cur, tagGlobals_tagged, tagGlobals_freeSeqno, tagGlobals_log]
  rw [hno', hobj]
  have k1 : ∀ s, cnt (heldT s) (setT (setS (tagGlobals st obj) s0 x) i { t with pc := .flAdd s0 })
      = cnt (heldT s) st := by
    intro s; rw [key']; simp [heldT, hpc, pcHeld]
  simp only [k1]
  apply tab_congr
  · intro s _; rfl
  · intro s hs
    by_cases e : s < st.tagged.length
    · simp [List.getElem?_append_left e, List.getElem?_eq_getElem e]
    · have e2 : s = st.tagged.length := by omega
      subst e2
      simp

/-! ### destruct -/

theorem absOf_proc {st : St} {i : Nat} {t : Th} {s0 : Nat} {k : Cont} (h : Inv st)
    (ht : st.ths[i]? = some t) (hpc : t.pc = .clProc s0 k) :
    AbsBarrier.step (absOf st) .destruct = some (absOf (setT (destruct st s0) i { t with pc := .clRead false k })) := by
  have key := cnt_step' st (destruct st s0) i t { t with pc := .clRead false k } rfl ht
  have m1 := cnt_ge_mem (onPc (pcProc s0)) st i t ht
  simp [barsimp, hpc] at m1
  obtain ⟨hh, hs⟩ := h.proc s0 m1
  obtain ⟨r, hq⟩ := head_mem hh
  have hc0 := queued_closed h s0 (by simp [hq])
  obtain ⟨_, hlt, _, hobj, _⟩ := closed_facts h s0 hc0
  have hreal := (h.closed s0 (Or.inl hc0)).2
  have hheld : cnt (heldT s0) st = 0 := by have := cnt_held_le_real st s0; omega
  have hact := h.active
  have hcur : s0 < st.cur := by omega
  have hrd : ready (absOf st) = true := by
    unfold absOf; rw [ready_tab]; simp [← hs, hcur, hheld]
  simp only [AbsBarrier.step, hrd, if_true]
  congr 1
  unfold absOf
  rw [destructF_tab _ _ _ _ _ (by omega)]
  simp only [setT_cur, setT_tagged, setT_freeSeqno, setT_log, destruct_cur, destruct_tagged,
    destruct_freeSeqno, destruct_log]
  have k1 : ∀ s, cnt (heldT s) (setT (destruct st s0) i { t with pc := .clRead false k }) = cnt (heldT s) st := by
    intro s; rw [key]; simp [heldT, hpc, pcHeld]
  have k2 : cnt (onPc pcObj) (setT (destruct st s0) i { t with pc := .clRead false k }) = cnt (onPc pcObj) st := by
    rw [key]; simp [onPc, hpc, pcObj]
  simp only [k1, k2]
  rw [← hs, hobj]
  simp

end NitroVerif.Barrier
