/-!
  The LAZY abstract access barrier `AbsBarrier` (stand-alone, no model imported).

  It is the barrier of `Model/MvccConc.lean` (sessions = holders, flushed flag, attached object;
  `acquire` adds a holder to the last session, `release` removes one, `flush` closes the last session
  with an object and opens a new one) with `cleanup` split off: destruction of the session at position
  `freeSeq` is a separate action `destruct`, enabled exactly when that session is terminated
  (flushed, no holder).  `log` records the objects handed to the destructor, in call order.

  `exhaust`/`eager` repeat `destruct` while it is enabled; `eager_eq` computes the result in closed form
  (`takeWhile terminated` of the undestructed sessions), which is MvccConc's `cleanup`.
-/
namespace NitroVerif

/-- a session of the abstract barrier -/
structure ASess (H O : Type) where
  holders : List H
  flushed : Bool
  obj : O
deriving Repr, DecidableEq

/-- the lazy abstract barrier: sessions in creation order (the last one is current), the number of
    destructed sessions, the objects given to the destructor in call order -/
structure AbsBarrier (H O : Type) where
  sess : List (ASess H O)
  freeSeq : Nat
  log : List O
deriving Repr, DecidableEq

namespace AbsBarrier
variable {H O : Type}

/-- flushed and without holder -/
def ASess.terminated (s : ASess H O) : Bool := s.flushed && s.holders.isEmpty

inductive Act (H O : Type) where
  | acq (h : H)
  | rel (tok : Nat) (h : H)
  | flush (o : O)
  | destruct
deriving Repr, DecidableEq

def init [Inhabited O] : AbsBarrier H O := ⟨[⟨[], false, default⟩], 0, []⟩

/-- `Acquire`: a holder more in the current (last) session -/
def acqF (b : AbsBarrier H O) (h : H) : AbsBarrier H O :=
  { b with sess := b.sess.modify (b.sess.length - 1) (fun s => { s with holders := s.holders ++ [h] }) }

/-- `Release` of a token of session `tok` -/
def relF [DecidableEq H] (b : AbsBarrier H O) (tok : Nat) (h : H) : AbsBarrier H O :=
  { b with sess := b.sess.modify tok (fun s => { s with holders := s.holders.erase h }) }

/-- `FlushSession(o)`: close the current session with `o` attached, open a new one -/
def flushF [Inhabited O] (b : AbsBarrier H O) (o : O) : AbsBarrier H O :=
  { b with sess := b.sess.modify (b.sess.length - 1) (fun s => { s with flushed := true, obj := o })
                     ++ [⟨[], false, default⟩] }

/-- the session at position `freeSeq` exists and is terminated -/
def ready (b : AbsBarrier H O) : Bool :=
  match b.sess[b.freeSeq]? with
  | some s => ASess.terminated s
  | none => false

/-- the destructor call for session `freeSeq` -/
def destructF (b : AbsBarrier H O) : AbsBarrier H O :=
  match b.sess[b.freeSeq]? with
  | some s => { b with freeSeq := b.freeSeq + 1, log := b.log ++ [s.obj] }
  | none => b

/-- does `h` hold a token of session `tok` -/
def holds [DecidableEq H] (b : AbsBarrier H O) (tok : Nat) (h : H) : Bool :=
  match b.sess[tok]? with
  | some s => s.holders.contains h
  | none => false

/-- one action of the lazy barrier; `none` = not enabled.  `rel` needs the token, `destruct` is enabled
    exactly when session `freeSeq` is terminated. -/
def step [DecidableEq H] [Inhabited O] (b : AbsBarrier H O) : Act H O → Option (AbsBarrier H O)
  | .acq h => some (acqF b h)
  | .rel tok h => if holds b tok h then some (relF b tok h) else none
  | .flush o => some (flushF b o)
  | .destruct => if ready b then some (destructF b) else none

def run [DecidableEq H] [Inhabited O] (b : AbsBarrier H O) : List (Act H O) → Option (AbsBarrier H O)
  | [] => some b
  | a :: r =>
    match step b a with
    | none => none
    | some b' => run b' r

/-- `destruct` repeated while enabled (at most `n` times) -/
def exhaust : Nat → AbsBarrier H O → AbsBarrier H O
  | 0, b => b
  | n + 1, b => if ready b then exhaust n (destructF b) else b

/-- `destruct` to exhaustion: every undestructed session can be destructed at most once -/
def eager (b : AbsBarrier H O) : AbsBarrier H O := exhaust (b.sess.length - b.freeSeq) b

/-- the `destruct` actions `exhaust` performs -/
def exhaustActs : Nat → AbsBarrier H O → List (Act H O)
  | 0, _ => []
  | n + 1, b => if ready b then .destruct :: exhaustActs n (destructF b) else []

/-- the sessions that can be destructed now, in order (MvccConc's `readySess`) -/
def readyList (b : AbsBarrier H O) : List (ASess H O) :=
  (b.sess.drop b.freeSeq).takeWhile ASess.terminated

theorem destructF_sess (b : AbsBarrier H O) : (destructF b).sess = b.sess := by
  unfold destructF; split <;> rfl

theorem takeWhile_drop_pos {α} (p : α → Bool) (l : List α) (k : Nat) (hl : k < l.length)
    (hp : p l[k] = true) : (l.drop k).takeWhile p = l[k] :: (l.drop (k + 1)).takeWhile p := by
  rw [List.drop_eq_getElem_cons hl, List.takeWhile_cons, if_pos hp]

theorem takeWhile_drop_neg {α} (p : α → Bool) (l : List α) (k : Nat) (hl : k < l.length)
    (hp : ¬ p l[k] = true) : (l.drop k).takeWhile p = [] := by
  rw [List.drop_eq_getElem_cons hl, List.takeWhile_cons, if_neg hp]

/-- the element right after the `takeWhile` prefix fails the test -/
theorem after_takeWhile {α} (p : α → Bool) (l : List α) (s : α)
    (h : l[(l.takeWhile p).length]? = some s) : p s = false := by
  induction l with
  | nil => simp at h
  | cons a r ih =>
    by_cases hp : p a = true
    · rw [List.takeWhile_cons, if_pos hp] at h
      simp at h; exact ih h
    · rw [List.takeWhile_cons, if_neg hp] at h
      simp at h; subst h; simpa using hp

theorem exhaust_eq (n : Nat) (b : AbsBarrier H O) (hn : b.sess.length - b.freeSeq ≤ n) :
    exhaust n b = { b with freeSeq := b.freeSeq + (readyList b).length,
                           log := b.log ++ (readyList b).map (·.obj) } := by
  induction n generalizing b with
  | zero =>
    have : b.sess.drop b.freeSeq = [] := List.drop_eq_nil_of_le (by omega)
    simp [exhaust, readyList, this]
  | succ n ih =>
    obtain ⟨sess, fs, lg⟩ := b
    unfold exhaust
    simp only [] at hn
    by_cases hl : fs < sess.length
    · have hg : sess[fs]? = some sess[fs] := List.getElem?_eq_getElem hl
      by_cases hr : ASess.terminated sess[fs] = true
      · have hrd : ready (⟨sess, fs, lg⟩ : AbsBarrier H O) = true := by simp [ready, hg, hr]
        have hdf : destructF (⟨sess, fs, lg⟩ : AbsBarrier H O) = ⟨sess, fs + 1, lg ++ [sess[fs].obj]⟩ := by
          simp [destructF, hg]
        rw [if_pos hrd, hdf, ih ⟨sess, fs + 1, lg ++ [sess[fs].obj]⟩ (by simp only []; omega)]
        simp only [readyList]
        rw [takeWhile_drop_pos _ sess fs hl hr]
        simp [Nat.add_assoc, Nat.add_comm 1]
      · have hrd : ready (⟨sess, fs, lg⟩ : AbsBarrier H O) = false := by simp [ready, hg, hr]
        simp only [readyList]
        rw [takeWhile_drop_neg _ sess fs hl hr]
        simp [hrd]
    · have : sess.drop fs = [] := List.drop_eq_nil_of_le (by omega)
      have hg : sess[fs]? = none := List.getElem?_eq_none (by omega)
      simp [ready, hg, readyList, this]

/-- closed form of "destruct to exhaustion" -/
theorem eager_eq (b : AbsBarrier H O) :
    eager b = { b with freeSeq := b.freeSeq + (readyList b).length,
                       log := b.log ++ (readyList b).map (·.obj) } :=
  exhaust_eq _ b (Nat.le_refl _)

/-- after `eager` nothing is ready: it is a fixed point -/
theorem ready_eager (b : AbsBarrier H O) : ready (eager b) = false := by
  rw [eager_eq]
  unfold ready
  simp only []
  split
  · rename_i s hs
    have hdrop : (b.sess.drop b.freeSeq)[((b.sess.drop b.freeSeq).takeWhile ASess.terminated).length]?
        = some s := by
      rw [List.getElem?_drop]; exact hs
    exact after_takeWhile _ _ s hdrop
  · rfl

/-- the actions of `exhaust` are enabled one after the other and lead to `exhaust` -/
theorem run_exhaustActs [DecidableEq H] [Inhabited O] (n : Nat) (b : AbsBarrier H O) :
    run b (exhaustActs n b) = some (exhaust n b) := by
  induction n generalizing b with
  | zero => rfl
  | succ n ih =>
    unfold exhaustActs exhaust
    by_cases hr : ready b = true
    · simp [hr, run, step, ih]
    · simp [hr, run]

theorem run_append [DecidableEq H] [Inhabited O] (b : AbsBarrier H O) (l1 l2 : List (Act H O)) :
    run b (l1 ++ l2) = (run b l1).bind (fun b' => run b' l2) := by
  induction l1 generalizing b with
  | nil => simp [run]
  | cons a r ih =>
    simp only [List.cons_append, run]
    split
    · simp
    · exact ih _

end AbsBarrier
end NitroVerif
