import NitroVerif.Lemmas.SkipSeqSoft
/-!
  `deleteNode` after a successful `softDelete`: the search for the key of the marked node `d`
  unlinks it on every level (one `helpDelete` per level) and accounts it once, on level 0.
-/
namespace NitroVerif.SkipSeq
open NitroVerif

def mkd (d : Nat) : Nat → Bool := fun n => n == d

theorem mkd_self (d : Nat) : mkd d d = true := by simp [mkd]
theorem mkd_ne {d n : Nat} (h : n ≠ d) : mkd d n = false := by simp [mkd, h]

/-- flags may be changed along a path as long as the pointers stay -/
theorem path_reflag {h h' : Heap} {mk mk' : Nat → Bool} {l : Nat} (xs : List Nat)
    (hx : ∀ a ∈ xs, getNext h' a l = ((getNext h a l).1, mk' a)) (hp : Path h mk l xs) :
    Path h' mk' l xs := by
  induction xs with
  | nil => simp
  | cons a r ih =>
    cases r with
    | nil => simp
    | cons b r' =>
      have ha := hx a (by simp)
      simp only [path_cons_cons] at hp ⊢
      refine ⟨?_, ih (fun c hc => hx c (List.mem_cons_of_mem _ hc)) hp.2⟩
      rw [ha, hp.1]

/-- the list `A ++ d :: B` with `d` marked on all its levels and still linked everywhere -/
structure DelCtx (s1 : SL) (A B : List Nat) (d : Nat) : Prop where
  base : Base s1.nodes
  lvl : s1.level ≤ Gen.maxLevel
  nodes : ∀ n ∈ A ++ d :: B, NodeOK s1 n
  sorted : (A ++ d :: B).Pairwise (fun a b => ikey s1.nodes a < ikey s1.nodes b)
  paths : ∀ l, l ≤ Gen.maxLevel →
    Path s1.nodes (mkd d) l (headId :: LL s1.nodes (A ++ d :: B) l ++ [tailId])

namespace DelCtx
variable {s1 : SL} {A B : List Nat} {d : Nat} (c : DelCtx s1 A B d)
include c

theorem nodup : (A ++ d :: B).Nodup := pairwise_lt_nodup c.sorted

theorem d_notin_A : d ∉ A := by
  have := List.nodup_append.mp c.nodup
  intro h; exact this.2.2 d h d (by simp) rfl

theorem d_notin_B : d ∉ B := by
  have := (List.nodup_append.mp c.nodup).2.1
  exact (List.nodup_cons.mp this).1

theorem low : ∀ n ∈ A ++ d :: B, 3 ≤ n := fun n hn => (c.nodes n hn).lo

theorem pred_ne_d (l : Nat) : predAt s1.nodes A l ≠ d := by
  intro e
  rcases predAt_mem s1.nodes A l with h1 | ⟨h1, _⟩
  · have := c.low d (by simp); rw [← e, h1] at this; simp [headId] at this
  · exact c.d_notin_A (e ▸ h1)

theorem succ_ne_d (l : Nat) : succAt s1.nodes B l ≠ d := by
  intro e
  rcases succAt_mem s1.nodes B l with h1 | ⟨h1, _⟩
  · have := c.low d (by simp); rw [← e, h1] at this; simp [tailId] at this
  · exact c.d_notin_B (e ▸ h1)

theorem succ_ne_pred (l : Nat) : succAt s1.nodes B l ≠ predAt s1.nodes A l := by
  intro e
  rcases succAt_mem s1.nodes B l with h1 | ⟨h1, _⟩
  · rcases predAt_mem s1.nodes A l with h2 | ⟨h2, _⟩
    · rw [h1, h2] at e; simp [tailId, headId] at e
    · have := c.low _ (List.mem_append_left _ h2); rw [← e, h1] at this; simp [tailId] at this
  · rcases predAt_mem s1.nodes A l with h2 | ⟨h2, _⟩
    · have := c.low _ (List.mem_append_right _ (List.mem_cons_of_mem _ h1)); rw [e, h2] at this
      simp [headId] at this
    · have := List.nodup_append.mp c.nodup
      exact this.2.2 _ h2 _ (List.mem_cons_of_mem _ h1) e.symm

omit c in
/-- the level list on a level that `d` reaches -/
theorem LL_lo {l : Nat} (hl : l ≤ levelOf s1.nodes d) :
    LL s1.nodes (A ++ d :: B) l = LL s1.nodes A l ++ d :: LL s1.nodes B l := by
  rw [LL_append, LL_cons, if_pos hl]

omit c in
/-- …and on a level above `d` -/
theorem LL_hi {l : Nat} (hl : ¬ l ≤ levelOf s1.nodes d) :
    LL s1.nodes (A ++ d :: B) l = LL s1.nodes A l ++ LL s1.nodes B l := by
  rw [LL_append, LL_cons, if_neg hl]

theorem path_lo {l : Nat} (hl : l ≤ Gen.maxLevel) (hd : l ≤ levelOf s1.nodes d) :
    Path s1.nodes (mkd d) l (headId :: LL s1.nodes A l ++ d :: LL s1.nodes B l ++ [tailId]) := by
  have := c.paths l hl
  rw [DelCtx.LL_lo hd] at this
  simpa using this

theorem path_hi {l : Nat} (hl : l ≤ Gen.maxLevel) (hd : ¬ l ≤ levelOf s1.nodes d) :
    Path s1.nodes (mkd d) l (headId :: LL s1.nodes A l ++ LL s1.nodes B l ++ [tailId]) := by
  have := c.paths l hl
  rw [DelCtx.LL_hi hd] at this
  simpa using this

theorem pred_link_lo {l : Nat} (hl : l ≤ Gen.maxLevel) (hd : l ≤ levelOf s1.nodes d) :
    getNext s1.nodes (predAt s1.nodes A l) l = (d, false) := by
  have hp := c.path_lo hl hd
  have h1 : Path s1.nodes (mkd d) l ((headId :: LL s1.nodes A l) ++ d :: (LL s1.nodes B l ++ [tailId])) := by
    simpa using hp
  have : getNext s1.nodes (predAt s1.nodes A l) l = (d, mkd d (predAt s1.nodes A l)) :=
    path_last_link (LL s1.nodes A l) headId (by simpa using ((path_append_cons _ _ _).mp h1).1)
  rw [mkd_ne (c.pred_ne_d l)] at this
  exact this

theorem d_link {l : Nat} (hl : l ≤ Gen.maxLevel) (hd : l ≤ levelOf s1.nodes d) :
    getNext s1.nodes d l = (succAt s1.nodes B l, true) := by
  have hp := c.path_lo hl hd
  have h1 : Path s1.nodes (mkd d) l ((headId :: LL s1.nodes A l) ++ d :: (LL s1.nodes B l ++ [tailId])) := by
    simpa using hp
  have h2 := ((path_append_cons _ _ _).mp h1).2
  have : getNext s1.nodes d l = (succAt s1.nodes B l, mkd d d) :=
    path_head_link (X := LL s1.nodes B l) (z := tailId) (by simpa using h2)
  rw [mkd_self] at this
  exact this

theorem pred_link_hi {l : Nat} (hl : l ≤ Gen.maxLevel) (hd : ¬ l ≤ levelOf s1.nodes d) :
    getNext s1.nodes (predAt s1.nodes A l) l = (succAt s1.nodes B l, false) := by
  have := level_pred_link (c.path_hi hl hd)
  rw [mkd_ne (c.pred_ne_d l)] at this
  exact this

theorem succ_unmarked {l : Nat} (hl : l ≤ Gen.maxLevel) :
    (getNext s1.nodes (succAt s1.nodes B l) l).2 = false := by
  rcases succAt_mem s1.nodes B l with h1 | ⟨h1, h2⟩
  · rw [h1]; exact c.base.tailFlag l
  · have hp := c.paths l hl
    have hm : succAt s1.nodes B l ∈ headId :: LL s1.nodes (A ++ d :: B) l := by
      apply List.mem_cons_of_mem
      exact mem_LL.mpr ⟨List.mem_append_right _ (List.mem_cons_of_mem _ h1), h2⟩
    have := path_mem_flag (headId :: LL s1.nodes (A ++ d :: B) l) (by simpa using hp) _ hm
    rw [this, mkd_ne (c.succ_ne_d l)]

theorem key_lt (a : Nat) (ha : a ∈ A) : ikey s1.nodes a < ikey s1.nodes d :=
  (List.pairwise_append.mp c.sorted).2.2 a ha d (by simp)

theorem key_gt (b : Nat) (hb : b ∈ B) : ikey s1.nodes d < ikey s1.nodes b := by
  have := (List.pairwise_append.mp c.sorted).2.1
  exact (List.pairwise_cons.mp this).1 b hb

theorem succ_ge (l : Nat) :
    ¬ compare (keyOf s1.nodes (succAt s1.nodes B l)) (.item (ikey s1.nodes d)) < 0 := by
  rcases succAt_mem s1.nodes B l with h1 | ⟨h1, _⟩
  · rw [h1, c.base.tailKey, compare_max_item]; omega
  · rw [(c.nodes _ (List.mem_append_right _ (List.mem_cons_of_mem _ h1))).key, compare_item_item]
    have := c.key_gt _ h1; omega

theorem pred_slot {l : Nat} (hl : l ≤ Gen.maxLevel) : l < nextLen s1.nodes (predAt s1.nodes A l) := by
  rcases predAt_mem s1.nodes A l with h1 | ⟨h1, h2⟩
  · rw [h1, c.base.headLen]; omega
  · rw [(c.nodes _ (List.mem_append_left _ h1)).len]; omega

end DelCtx

end NitroVerif.SkipSeq

namespace NitroVerif.SkipSeq
open NitroVerif

/-- heap `h` is `h1` with `d` unlinked on its levels `≥ j` -/
structure UnlinkInv (h1 : Heap) (A B : List Nat) (d j : Nat) (h : Heap) : Prop where
  len : h.length = h1.length
  key : ∀ m, keyOf h m = keyOf h1 m
  lvl : ∀ m, levelOf h m = levelOf h1 m
  nlen : ∀ m, nextLen h m = nextLen h1 m
  links : ∀ m l, getNext h m l
      = if j ≤ l ∧ l ≤ levelOf h1 d ∧ m = predAt h1 A l then (succAt h1 B l, false) else getNext h1 m l

theorem UnlinkInv.start (h1 : Heap) (A B : List Nat) (d j : Nat) (hj : levelOf h1 d < j) :
    UnlinkInv h1 A B d j h1 :=
  ⟨rfl, fun _ => rfl, fun _ => rfl, fun _ => rfl, fun m l => by
    have : ¬ (j ≤ l ∧ l ≤ levelOf h1 d ∧ m = predAt h1 A l) := by omega
    rw [if_neg this]⟩

/-- a level above `d`: nothing to do -/
theorem UnlinkInv.skip {h1 h : Heap} {A B : List Nat} {d i : Nat} (hi : UnlinkInv h1 A B d (i + 1) h)
    (hd : ¬ i ≤ levelOf h1 d) : UnlinkInv h1 A B d i h := by
  refine ⟨hi.len, hi.key, hi.lvl, hi.nlen, ?_⟩
  intro m l
  rw [hi.links m l]
  by_cases h1' : i + 1 ≤ l ∧ l ≤ levelOf h1 d ∧ m = predAt h1 A l
  · rw [if_pos h1', if_pos ⟨by omega, h1'.2⟩]
  · have : ¬ (i ≤ l ∧ l ≤ levelOf h1 d ∧ m = predAt h1 A l) := by
      intro h2; apply h1'; exact ⟨by omega, h2.2⟩
    rw [if_neg h1', if_neg this]

theorem UnlinkInv.step {h1 h : Heap} {A B : List Nat} {d i : Nat} (hi : UnlinkInv h1 A B d (i + 1) h)
    (hd : i ≤ levelOf h1 d) (hslot : i < nextLen h1 (predAt h1 A i)) :
    UnlinkInv h1 A B d i (setNext h (predAt h1 A i) i (succAt h1 B i, false)) := by
  refine ⟨by rw [length_setNext]; exact hi.len, fun m => by rw [keyOf_setNext]; exact hi.key m,
    fun m => by rw [levelOf_setNext]; exact hi.lvl m, fun m => by rw [nextLen_setNext]; exact hi.nlen m, ?_⟩
  intro m l
  rw [getNext_setNext (by rw [hi.nlen]; exact hslot)]
  by_cases hc : predAt h1 A i = m ∧ i = l
  · rcases hc with ⟨rfl, rfl⟩
    rw [if_pos ⟨rfl, rfl⟩, if_pos ⟨Nat.le_refl _, hd, rfl⟩]
  · rw [if_neg hc, hi.links m l]
    by_cases h1' : i + 1 ≤ l ∧ l ≤ levelOf h1 d ∧ m = predAt h1 A l
    · rw [if_pos h1', if_pos ⟨by omega, h1'.2⟩]
    · have : ¬ (i ≤ l ∧ l ≤ levelOf h1 d ∧ m = predAt h1 A l) := by
        intro h2
        by_cases hil : i = l
        · subst hil; exact hc ⟨h2.2.2.symm, rfl⟩
        · exact h1' ⟨by omega, h2.2⟩
      rw [if_neg h1', if_neg this]

/-- on the level being searched the heap still looks like `h1` -/
theorem UnlinkInv.same_level {h1 h : Heap} {A B : List Nat} {d i : Nat} (hi : UnlinkInv h1 A B d (i + 1) h)
    (m : Nat) : getNext h m i = getNext h1 m i := by
  rw [hi.links m i]
  have : ¬ (i + 1 ≤ i ∧ i ≤ levelOf h1 d ∧ m = predAt h1 A i) := by omega
  rw [if_neg this]

/-- `helpDelete` when the CAS goes through -/
theorem helpDelete_ok {s : SL} {l prev curr next : Nat} (hp : getNext s.nodes prev l = (curr, false)) :
    helpDelete s l prev curr next =
      (if l = 0 then
        { s with nodes := setNext s.nodes prev l (next, false),
                 stats := { s.stats with
                   softDeletes := s.stats.softDeletes - 1,
                   levelNodesCount := addAt s.stats.levelNodesCount
                     (levelOf (setNext s.nodes prev l (next, false)) curr) (-1) } }
       else { s with nodes := setNext s.nodes prev l (next, false) }, true) := by
  unfold helpDelete
  rw [dcasNext_ok hp]
  by_cases hl : l = 0
  · subst hl
    have : Gen.helpAccounts true 0 = true := (helpAccounts_iff _ _).mpr ⟨rfl, rfl⟩
    simp [this]
  · have : Gen.helpAccounts true l = false := by
      rw [Bool.eq_false_iff]; intro h; exact hl ((helpAccounts_iff _ _).mp h).2
    simp [this, hl]

/-- the statistics after the level-`i` step of the unlinking search -/
def delStats (st : Stats) (top i : Nat) : Stats :=
  if i = 0 then { st with softDeletes := st.softDeletes - 1,
                          levelNodesCount := addAt st.levelNodesCount top (-1) }
  else st

/-- one level of the unlinking search, up to the point where the level search stops -/
theorem del_level {s1 : SL} {A B : List Nat} {d : Nat} (c : DelCtx s1 A B d) {s : SL} {i f : Nat}
    (hinv : UnlinkInv s1.nodes A B d (i + 1) s.nodes) (hi : i ≤ Gen.maxLevel) (hf : A.length + 2 ≤ f) :
    ∃ s' f', f ≤ f' + A.length + 1 ∧
      findLoop (.item (ikey s1.nodes d)) f s i (predAt s1.nodes A (i + 1))
          (getNext s.nodes (predAt s1.nodes A (i + 1)) i).1
        = findLoop (.item (ikey s1.nodes d)) f' s' i (predAt s1.nodes A i) (succAt s1.nodes B i) ∧
      UnlinkInv s1.nodes A B d i s'.nodes ∧ s'.level = s.level ∧ s'.buf = s.buf ∧ s'.stuck = s.stuck ∧
      s'.stats = (if i ≤ levelOf s1.nodes d then delStats s.stats (levelOf s1.nodes d) i else s.stats) := by
  have hkA : ∀ p ∈ A, compare (keyOf s.nodes p) (.item (ikey s1.nodes d)) < 0 := by
    intro p hp
    rw [hinv.key, (c.nodes p (List.mem_append_left _ hp)).key, compare_item_item]
    have := c.key_lt p hp; omega
  by_cases hd : i ≤ levelOf s1.nodes d
  · -- `d` is on this level: walk to it, unlink it
    have hpath := c.path_lo hi hd
    have hpath' : Path s1.nodes (mkd d) i (headId :: LL s1.nodes A i ++ d :: (LL s1.nodes B i ++ [tailId])) := by
      simpa using hpath
    rcases pred_descend A _ hpath' with ⟨P, hP1, hP2, hP3, hP4⟩
    have hP1s : Path s.nodes (mkd d) i (predAt s1.nodes A (i + 1) :: P ++ [d]) :=
      (path_congr _ (fun a _ => ⟨hinv.same_level a, rfl⟩)).mpr hP1
    have hlink := path_head_link hP1s
    obtain ⟨f2, rfl⟩ : ∃ f2, f = f2 + 1 + P.length := ⟨f - 1 - P.length, by omega⟩
    have hdl : getNext s.nodes d i = (succAt s1.nodes B i, true) := by
      rw [hinv.same_level]; exact c.d_link hi hd
    have hpl : getNext s.nodes (predAt s1.nodes A i) i = (d, false) := by
      rw [hinv.same_level]; exact c.pred_link_lo hi hd
    have hslot : i < nextLen s.nodes (predAt s1.nodes A i) := by rw [hinv.nlen]; exact c.pred_slot hi
    refine ⟨(helpDelete s i (predAt s1.nodes A i) d (succAt s1.nodes B i)).1, f2, by omega, ?_, ?_, ?_, ?_, ?_, ?_⟩
    · rw [hlink]
      simp only
      rw [findLoop_advance P _ _ hP1s (fun p hp =>
        ⟨mkd_ne (fun e => c.d_notin_A (e ▸ (hP2 p hp).1)), hkA p (hP2 p hp).1⟩), hP3]
      rw [findLoop]
      simp only [hdl, if_true]
      rw [helpDelete_ok hpl]
      simp only [if_true]
      congr 1
      by_cases h0 : i = 0
      · simp only [h0, if_true]; rw [← h0, getNext_setNext_same hslot]
      · simp only [h0, if_false]; rw [getNext_setNext_same hslot]
    · rw [helpDelete_ok hpl]
      by_cases h0 : i = 0
      · simp only [h0, if_true]; rw [← h0]; exact hinv.step hd (c.pred_slot hi)
      · simp only [h0, if_false]; exact hinv.step hd (c.pred_slot hi)
    · rw [helpDelete_ok hpl]; by_cases h0 : i = 0 <;> simp [h0]
    · rw [helpDelete_ok hpl]; by_cases h0 : i = 0 <;> simp [h0]
    · rw [helpDelete_ok hpl]; by_cases h0 : i = 0 <;> simp [h0]
    · rw [helpDelete_ok hpl, if_pos hd]
      by_cases h0 : i = 0
      · simp only [h0, if_true, delStats]
        rw [levelOf_setNext, hinv.lvl]
      · simp only [h0, if_false, delStats]
  · -- `d` does not reach this level
    have hpath := c.path_hi hi hd
    rcases succ_split s1.nodes B i with ⟨R, hR⟩
    have hpath' : Path s1.nodes (mkd d) i (headId :: LL s1.nodes A i ++ succAt s1.nodes B i :: R) := by
      rw [← hR]; simpa using hpath
    rcases pred_descend A R hpath' with ⟨P, hP1, hP2, hP3, hP4⟩
    have hP1s : Path s.nodes (mkd d) i (predAt s1.nodes A (i + 1) :: P ++ [succAt s1.nodes B i]) :=
      (path_congr _ (fun a _ => ⟨hinv.same_level a, rfl⟩)).mpr hP1
    have hlink := path_head_link hP1s
    obtain ⟨f2, rfl⟩ : ∃ f2, f = f2 + P.length := ⟨f - P.length, by omega⟩
    refine ⟨s, f2, by omega, ?_, hinv.skip hd, rfl, rfl, rfl, by rw [if_neg hd]⟩
    rw [hlink]
    simp only
    rw [findLoop_advance P _ _ hP1s (fun p hp =>
      ⟨mkd_ne (fun e => c.d_notin_A (e ▸ (hP2 p hp).1)), hkA p (hP2 p hp).1⟩), hP3]

end NitroVerif.SkipSeq

namespace NitroVerif.SkipSeq
open NitroVerif

theorem UnlinkInv.succ_same {s1 : SL} {A B : List Nat} {d : Nat} (c : DelCtx s1 A B d) {h : Heap} {j : Nat}
    (hinv : UnlinkInv s1.nodes A B d j h) (l : Nat) :
    getNext h (succAt s1.nodes B l) l = getNext s1.nodes (succAt s1.nodes B l) l := by
  rw [hinv.links]
  have : ¬ (j ≤ l ∧ l ≤ levelOf s1.nodes d ∧ succAt s1.nodes B l = predAt s1.nodes A l) :=
    fun h => c.succ_ne_pred l h.2.2
  rw [if_neg this]

/-- the whole unlinking search, from level `i` down -/
theorem findLoop_delete {s1 : SL} {A B : List Nat} {d : Nat} (c : DelCtx s1 A B d) :
    ∀ (i : Nat) (s : SL) (f : Nat), UnlinkInv s1.nodes A B d (i + 1) s.nodes → i ≤ Gen.maxLevel →
      (i + 1) * (A.length + 3) ≤ f →
      ∃ s' cv, findLoop (.item (ikey s1.nodes d)) f s i (predAt s1.nodes A (i + 1))
            (getNext s.nodes (predAt s1.nodes A (i + 1)) i).1 = (s', cv) ∧
        UnlinkInv s1.nodes A B d 0 s'.nodes ∧ s'.level = s.level ∧ s'.stuck = s.stuck ∧
        s'.buf.preds.length = s.buf.preds.length ∧ s'.buf.succs.length = s.buf.succs.length ∧
        s'.stats = delStats s.stats (levelOf s1.nodes d) 0 := by
  intro i
  induction i with
  | zero =>
    intro s f hinv hi hf
    rcases del_level (f := f) c hinv hi (by simp at hf; omega) with ⟨s2, f2, hf2, he, hinv2, e1, e2, e3, e4⟩
    obtain ⟨f3, rfl⟩ : ∃ f3, f2 = f3 + 1 := ⟨f2 - 1, by simp at hf; omega⟩
    have hun : (getNext s2.nodes (succAt s1.nodes B 0) 0).2 = false := by
      rw [hinv2.succ_same c]; exact c.succ_unmarked hi
    have hge : ¬ compare (keyOf s2.nodes (succAt s1.nodes B 0)) (.item (ikey s1.nodes d)) < 0 := by
      rw [hinv2.key]; exact c.succ_ge 0
    rw [findLoop_stop_zero hun hge] at he
    refine ⟨_, _, he, hinv2, e1, e3, by simp [SL.setBuf, e2], by simp [SL.setBuf, e2], ?_⟩
    simp only [SL.setBuf]
    rw [e4, if_pos (Nat.zero_le _)]
  | succ i ih =>
    intro s f hinv hi hf
    rw [Nat.succ_mul] at hf
    rcases del_level (f := f) c hinv hi (by omega) with ⟨s2, f2, hf2, he, hinv2, e1, e2, e3, e4⟩
    obtain ⟨f3, rfl⟩ : ∃ f3, f2 = f3 + 1 := ⟨f2 - 1, by omega⟩
    have hun : (getNext s2.nodes (succAt s1.nodes B (i + 1)) (i + 1)).2 = false := by
      rw [hinv2.succ_same c]; exact c.succ_unmarked hi
    have hge : ¬ compare (keyOf s2.nodes (succAt s1.nodes B (i + 1))) (.item (ikey s1.nodes d)) < 0 := by
      rw [hinv2.key]; exact c.succ_ge (i + 1)
    rw [findLoop_stop_succ hun hge] at he
    have hst2 : s2.stats = s.stats := by
      rw [e4]
      by_cases hd : i + 1 ≤ levelOf s1.nodes d
      · rw [if_pos hd]; simp [delStats]
      · rw [if_neg hd]
    rcases ih (s2.setBuf (i + 1) (predAt s1.nodes A (i + 1)) (succAt s1.nodes B (i + 1))) f3
      (by simpa [SL.setBuf] using hinv2) (by omega) (by omega) with ⟨s', cv, he', h1, h2, h3, h4, h5, h6⟩
    refine ⟨s', cv, ?_, h1, ?_, ?_, ?_, ?_, ?_⟩
    · rw [he]; simpa [SL.setBuf] using he'
    · rw [h2]; simpa [SL.setBuf] using e1
    · rw [h3]; simpa [SL.setBuf] using e3
    · rw [h4]; simp [SL.setBuf, e2]
    · rw [h5]; simp [SL.setBuf, e2]
    · rw [h6]; simp only [SL.setBuf]; rw [hst2]

/-- all levels unlinked: the heap represents `A ++ B`, and `d` stays behind fully marked -/
theorem rep_after_unlink {s1 s' : SL} {A B : List Nat} {d : Nat} (c : DelCtx s1 A B d)
    (hinv : UnlinkInv s1.nodes A B d 0 s'.nodes) (hlevel : s'.level = s1.level)
    (hbp : s'.buf.preds.length = Gen.maxLevel + 1) (hbs : s'.buf.succs.length = Gen.maxLevel + 1)
    (hstuck : s'.stuck = false)
    (hlen1 : s1.stats.levelNodesCount.length = Gen.maxLevel + 1)
    (hdist1 : ∀ g, g ≤ Gen.maxLevel →
      s1.stats.levelNodesCount.getD g 0 = (cntLevel s1.nodes (A ++ d :: B) g : Int))
    (hst1 : s'.stats.levelNodesCount = addAt s1.stats.levelNodesCount (levelOf s1.nodes d) (-1))
    (hst2 : s'.stats.softDeletes = 0) (hst3 : s'.stats.nodeFrees = 0)
    (hsize : (A ++ B).length + 3 ≤ s1.nodes.length) :
    Rep s' (A ++ B) := by
  have hikey : ∀ m, ikey s'.nodes m = ikey s1.nodes m := fun m => ikey_congr (hinv.key m)
  have hsub : ∀ n, n ∈ A ++ B → n ∈ A ++ d :: B := by
    intro n hn
    rcases List.mem_append.mp hn with h | h
    · exact List.mem_append_left _ h
    · exact List.mem_append_right _ (List.mem_cons_of_mem _ h)
  have hdtop : levelOf s1.nodes d ≤ Gen.maxLevel := by
    have := (c.nodes d (by simp)).lvl; have := c.lvl; omega
  have hne_d : ∀ a ∈ headId :: (LL s1.nodes A 0 ++ LL s1.nodes B 0) ++ [tailId], True := fun _ _ => trivial
  have hmk : ∀ l, ∀ a ∈ headId :: LL s1.nodes A l ++ LL s1.nodes B l ++ [tailId], mkd d a = nomk a := by
    intro l a ha
    simp only [List.cons_append, List.mem_cons, List.mem_append, List.not_mem_nil, or_false] at ha
    have hd3 := c.low d (by simp)
    have : a ≠ d := by
      rcases ha with e | (e | e) | e
      · rw [e]; simp [headId]; omega
      · intro h; exact c.d_notin_A (h ▸ (mem_LL.mp e).1)
      · intro h; exact c.d_notin_B (h ▸ (mem_LL.mp e).1)
      · rw [e]; simp [tailId]; omega
    simp [mkd, nomk, this]
  refine ⟨⟨?_, ?_, ?_, ?_, ?_⟩, by rw [hlevel]; exact c.lvl, ?_, ?_, ?_, ⟨?_, ?_, hst2, hst3⟩, ?_, hbp, hbs, hstuck⟩
  · rw [hinv.len]; exact c.base.len
  · rw [hinv.key]; exact c.base.headKey
  · rw [hinv.key]; exact c.base.tailKey
  · rw [hinv.nlen]; exact c.base.headLen
  · intro l
    rw [hinv.links]
    have : ¬ (0 ≤ l ∧ l ≤ levelOf s1.nodes d ∧ tailId = predAt s1.nodes A l) := by
      intro h
      rcases predAt_mem s1.nodes A l with h1 | ⟨h1, _⟩
      · rw [h1] at h; simp [tailId, headId] at h
      · have := c.low _ (List.mem_append_left _ h1); rw [← h.2.2] at this; simp [tailId] at this
    rw [if_neg this]; exact c.base.tailFlag l
  · intro n hn
    have ho := c.nodes n (hsub n hn)
    exact ⟨ho.lo, by rw [hinv.len]; exact ho.hi, by rw [hinv.key, hikey]; exact ho.key,
      by rw [hinv.lvl, hlevel]; exact ho.lvl, by rw [hinv.nlen, hinv.lvl]; exact ho.len⟩
  · have hs := c.sorted
    rw [List.pairwise_append] at hs ⊢
    refine ⟨?_, ?_, ?_⟩
    · apply List.Pairwise.imp _ hs.1
      intro a b hab; rw [hikey, hikey]; exact hab
    · apply List.Pairwise.imp _ (List.pairwise_cons.mp hs.2.1).2
      intro a b hab; rw [hikey, hikey]; exact hab
    · intro a ha b hb
      rw [hikey, hikey]
      exact hs.2.2 a ha b (List.mem_cons_of_mem _ hb)
  · intro l hl
    rw [LL_congr l (fun n _ => hinv.lvl n), LL_append]
    by_cases hd : l ≤ levelOf s1.nodes d
    · have hslot := c.pred_slot hl
      rw [path_congr (h := setNext s1.nodes (predAt s1.nodes A l) l (succAt s1.nodes B l, false)) (mk := mkd d)]
      · have hnd : (headId :: LL s1.nodes A l ++ d :: LL s1.nodes B l ++ [tailId]).Nodup := by
          have := level_nodup (h := s1.nodes) c.nodup c.low l
          rw [DelCtx.LL_lo hd] at this
          simpa using this
        have := level_unlink (c.path_lo hl hd) hnd (mkd_ne (c.pred_ne_d l)) hslot
        simpa using this
      · intro a ha
        refine ⟨?_, (hmk l a (by simpa using ha)).symm⟩
        rw [hinv.links, getNext_setNext hslot]
        by_cases hap : a = predAt s1.nodes A l
        · subst hap
          rw [if_pos ⟨Nat.zero_le _, hd, rfl⟩, if_pos ⟨rfl, rfl⟩]
        · rw [if_neg (fun h => hap h.2.2), if_neg (fun h => hap h.1.symm)]
    · rw [path_congr (h := s1.nodes) (mk := mkd d)]
      · simpa using c.path_hi hl hd
      · intro a ha
        refine ⟨?_, (hmk l a (by simpa using ha)).symm⟩
        rw [hinv.links]
        have : ¬ (0 ≤ l ∧ l ≤ levelOf s1.nodes d ∧ a = predAt s1.nodes A l) := fun h => hd h.2.1
        rw [if_neg this]
  · rw [hst1, length_addAt]; exact hlen1
  · intro g hg
    rw [hst1, getD_addAt _ _ _ _ (by rw [hlen1]; omega), hdist1 g hg,
      cntLevel_congr g (fun n _ => hinv.lvl n), cntLevel_append, cntLevel_append, cntLevel_cons]
    by_cases hgh : levelOf s1.nodes d = g
    · simp [hgh]; omega
    · simp [hgh]
  · rw [hinv.len]; exact hsize

end NitroVerif.SkipSeq
