/-
  How the primitive state transformers move nodes between owners (counting form).
-/
import NitroVerif.Lemmas.MvccConcInv
import NitroVerif.Lemmas.MvccConcCount
import NitroVerif.Lemmas.MvccConcFields

namespace NitroVerif.MvccConc
open NitroVerif

/-! ### threads, jobs -/

theorem thrOwned_set {threads : List Pc} {t : Nat} {pc0 : Pc} (h : threads[t]? = some pc0) (pc : Pc) (n : Nat) :
    (thrOwned (threads.set t pc)).count n + (pcOwn pc0).count n = (thrOwned threads).count n + (pcOwn pc).count n :=
  count_flatMap_set pcOwn n threads t pc0 pc h

theorem gcOwned_set {gcJobs : List GcJob} {j : Nat} {job0 : GcJob} (h : gcJobs[j]? = some job0) (job : GcJob)
    (n : Nat) :
    (gcOwned (gcJobs.set j job)).count n + (gcOwn job0).count n = (gcOwned gcJobs).count n + (gcOwn job).count n :=
  count_flatMap_set gcOwn n gcJobs j job0 job h

theorem frOwned_set {frJobs : List FrJob} {j : Nat} {job0 : FrJob} (h : frJobs[j]? = some job0) (job : FrJob)
    (n : Nat) :
    (frOwned (frJobs.set j job)).count n + (frOwn job0).count n = (frOwned frJobs).count n + (frOwn job).count n :=
  count_flatMap_set frOwn n frJobs j job0 job h

theorem garbJ_set {gcJobs : List GcJob} {j : Nat} {job0 : GcJob} (h : gcJobs[j]? = some job0) (job : GcJob)
    (n : Nat) :
    (garbJ (gcJobs.set j job)).count n + job0.todo.count n = (garbJ gcJobs).count n + job.todo.count n :=
  count_flatMap_set (fun (x : GcJob) => x.todo) n gcJobs j job0 job h

theorem gcOwned_append (gcJobs : List GcJob) (job : GcJob) (n : Nat) :
    (gcOwned (gcJobs ++ [job])).count n = (gcOwned gcJobs).count n + (gcOwn job).count n := by
  unfold gcOwned; simp [List.flatMap_append, List.count_append]

theorem garbJ_append (gcJobs : List GcJob) (job : GcJob) (n : Nat) :
    (garbJ (gcJobs ++ [job])).count n = (garbJ gcJobs).count n + job.todo.count n := by
  unfold garbJ; simp [List.flatMap_append, List.count_append]

/-! ### the barrier -/

theorem count_newFrJobs (n : Nat) : ∀ (R : List Sess),
    (frOwned (newFrJobs R)).count n = (R.flatMap (·.list)).count n
  | [] => rfl
  | s :: R => by
    have ih := count_newFrJobs n R
    unfold frOwned newFrJobs at ih ⊢
    by_cases he : s.list.isEmpty = true
    · have : s.list = [] := List.isEmpty_iff.mp he
      simp [List.flatMap_cons, this]
      exact ih
    · simp only [List.filter_cons, he, Bool.not_false, if_true, List.map_cons, List.flatMap_cons,
        List.count_append]
      rw [ih]; rfl

theorem drop_length_takeWhile {α : Type} (p : α → Bool) : ∀ (l : List α),
    l.drop (l.takeWhile p).length = l.dropWhile p
  | [] => rfl
  | x :: xs => by
    by_cases h : p x = true
    · simp [h, drop_length_takeWhile p xs]
    · simp [h]

theorem sessfr_cleanup (sess : List Sess) (fs : Nat) (frJobs : List FrJob) (n : Nat) :
    sessfr sess (fs + (readySess sess fs).length) (frJobs ++ newFrJobs (readySess sess fs)) n =
      sessfr sess fs frJobs n := by
  unfold sessfr sessOwned readySess
  have hsplit := List.takeWhile_append_dropWhile (p := Sess.terminated) (l := sess.drop fs)
  have hdrop : sess.drop (fs + ((sess.drop fs).takeWhile Sess.terminated).length) =
      (sess.drop fs).dropWhile Sess.terminated := by
    rw [← List.drop_drop]
    exact drop_length_takeWhile _ _
  rw [hdrop]
  have hfr : (frOwned (frJobs ++ newFrJobs ((sess.drop fs).takeWhile Sess.terminated))).count n =
      (frOwned frJobs).count n + (((sess.drop fs).takeWhile Sess.terminated).flatMap (·.list)).count n := by
    rw [← count_newFrJobs]
    unfold frOwned; simp [List.flatMap_append, List.count_append]
  rw [hfr]
  conv => rhs; rw [← hsplit, List.flatMap_append, List.count_append]
  omega

theorem sessOwned_relSess (sess : List Sess) (tok : Nat) (h : Holder) (fs : Nat) :
    sessOwned (relSess sess tok h) fs = sessOwned sess fs := by
  unfold sessOwned relSess
  exact drop_modify_same (fun (x : Sess) => x.list) (fun s => { s with holders := s.holders.erase h })
    (fun _ => rfl) fs sess tok

theorem sessOwned_acqSess (sess : List Sess) (h : Holder) (fs : Nat) :
    sessOwned (acqSess sess h) fs = sessOwned sess fs := by
  unfold sessOwned acqSess
  exact drop_modify_same (fun (x : Sess) => x.list) (fun s => { s with holders := s.holders ++ [h] })
    (fun _ => rfl) fs sess _

theorem drop_modify_last {α : Type} (f : α → α) : ∀ (l : List α) (k : Nat) (c : α), k < l.length →
    l.getLast? = some c →
    (l.modify (l.length - 1) f).drop k = (l.drop k).dropLast ++ [f c]
  | [], k, c, hk, _ => by simp at hk
  | [x], 0, c, _, hc => by simp at hc; subst hc; simp
  | [x], k + 1, c, hk, _ => by simp at hk
  | x :: y :: r, 0, c, _, hc => by
    have hc' : (y :: r).getLast? = some c := by simpa [List.getLast?_cons_cons] using hc
    have ih := drop_modify_last f (y :: r) 0 c (by simp) hc'
    simp only [List.drop_zero] at ih ⊢
    simp only [List.length_cons, Nat.add_sub_cancel] at ih ⊢
    rw [show r.length + 1 = (r.length) + 1 from rfl, List.modify_succ_cons, ih]
    simp [List.dropLast]
  | x :: y :: r, k + 1, c, hk, hc => by
    have hc' : (y :: r).getLast? = some c := by simpa [List.getLast?_cons_cons] using hc
    have ih := drop_modify_last f (y :: r) k c (by simpa using hk) hc'
    simp only [List.length_cons, Nat.add_sub_cancel] at ih ⊢
    rw [show r.length + 1 = (r.length) + 1 from rfl, List.modify_succ_cons, List.drop_succ_cons,
      List.drop_succ_cons]
    exact ih

theorem dropLast_append_getLast {α : Type} : ∀ (l : List α) (c : α), l.getLast? = some c → l.dropLast ++ [c] = l
  | [], c, h => by simp at h
  | [x], c, h => by simp at h; subst h; rfl
  | x :: y :: r, c, h => by
    have h' : (y :: r).getLast? = some c := by simpa [List.getLast?_cons_cons] using h
    have := dropLast_append_getLast (y :: r) c h'
    simp only [List.dropLast_cons_cons, List.cons_append, this]

theorem getLast?_drop {α : Type} : ∀ (l : List α) (k : Nat), k < l.length → (l.drop k).getLast? = l.getLast?
  | [], k, h => by simp at h
  | x :: xs, 0, _ => rfl
  | [x], k + 1, h => by simp at h
  | x :: y :: r, k + 1, h => by
    rw [List.drop_succ_cons, getLast?_drop (y :: r) k (by simpa using h), List.getLast?_cons_cons]

/-- `FlushSession(L)` attaches `L` to the current session (which carried nothing) -/
theorem sessOwned_flushSess {sess : List Sess} {fs : Nat} (hlt : fs < sess.length) {c : Sess}
    (hc : sess.getLast? = some c) (hcl : c.list = []) (L : List Nat) (n : Nat) :
    (sessOwned (flushSess sess L) fs).count n = (sessOwned sess fs).count n + L.count n := by
  unfold sessOwned flushSess
  rw [List.drop_append_of_le_length (by simp; omega), drop_modify_last _ sess fs c hlt hc]
  have hl : (sess.drop fs).getLast? = some c := by rw [getLast?_drop _ _ hlt]; exact hc
  have hsplit := dropLast_append_getLast _ c hl
  conv => rhs; rw [← hsplit]
  simp only [List.flatMap_append, List.flatMap_cons, List.flatMap_nil, List.count_append, List.append_nil, hcl]

/-! ### membership / counting glue -/

theorem mem_thrOwned {threads : List Pc} {n : Nat} : n ∈ thrOwned threads ↔ ∃ pc ∈ threads, n ∈ pcOwn pc := by
  unfold thrOwned; exact List.mem_flatMap

theorem reserved_count {threads : List Pc} {n : Nat} (h : reserved threads n) : 0 < (thrOwned threads).count n := by
  obtain ⟨k, v, b, hm⟩ := h
  exact List.count_pos_iff.mpr (mem_thrOwned.mpr ⟨_, hm, by simp [pcOwn]⟩)

theorem store_count {store : List Node} {x : Node} (h : x ∈ store) : 0 < (storeIds store).count x.id :=
  List.count_pos_iff.mpr (List.mem_map.mpr ⟨x, h, rfl⟩)

end NitroVerif.MvccConc
