import NitroVerif.Model.SkipSeq
/-!
  Frame lemmas for the pointer heap of M3: what `setNext`, `dcasNext` and allocation change and what
  they leave alone.  Everything later is phrased through `getNext`, `keyOf`, `levelOf`, `nextLen`.
-/
namespace NitroVerif.SkipSeq

/-- number of link slots of node `n` (0 for a pointer outside the heap) -/
def nextLen (h : Heap) (n : Nat) : Nat :=
  match h[n]? with
  | some nd => nd.next.length
  | none => 0

theorem length_setNext (h : Heap) (n l : Nat) (v : Nat × Bool) : (setNext h n l v).length = h.length := by
  unfold setNext; split <;> simp

theorem getNext_setNext_same {h : Heap} {n l : Nat} {v : Nat × Bool} (hl : l < nextLen h n) :
    getNext (setNext h n l v) n l = v := by
  unfold nextLen at hl
  unfold setNext getNext
  cases hn : h[n]? with
  | none => simp [hn] at hl
  | some nd =>
    simp [hn] at hl
    rcases List.getElem?_eq_some_iff.mp hn with ⟨hlt, hnd⟩
    simp [hlt, List.getD_eq_getElem?_getD, hl]

theorem getNext_setNext_ne {h : Heap} {n l m j : Nat} {v : Nat × Bool} (hne : n ≠ m ∨ l ≠ j) :
    getNext (setNext h n l v) m j = getNext h m j := by
  unfold setNext getNext
  cases hn : h[n]? with
  | none => simp
  | some nd =>
    simp only
    by_cases hnm : n = m
    · subst hnm
      rcases List.getElem?_eq_some_iff.mp hn with ⟨hlt, hnd⟩
      have hlj : l ≠ j := by rcases hne with h1 | h1; exact absurd rfl h1; exact h1
      simp [hlt, hnd, List.getD_eq_getElem?_getD, hlj]
    · simp [hnm]

theorem keyOf_setNext (h : Heap) (n l : Nat) (v : Nat × Bool) (m : Nat) :
    keyOf (setNext h n l v) m = keyOf h m := by
  unfold setNext keyOf
  cases hn : h[n]? with
  | none => simp
  | some nd =>
    simp only
    by_cases hnm : n = m
    · subst hnm
      rcases List.getElem?_eq_some_iff.mp hn with ⟨hlt, hnd⟩
      simp [hlt, hnd]
    · simp [hnm]

theorem levelOf_setNext (h : Heap) (n l : Nat) (v : Nat × Bool) (m : Nat) :
    levelOf (setNext h n l v) m = levelOf h m := by
  unfold setNext levelOf
  cases hn : h[n]? with
  | none => simp
  | some nd =>
    simp only
    by_cases hnm : n = m
    · subst hnm
      rcases List.getElem?_eq_some_iff.mp hn with ⟨hlt, hnd⟩
      simp [hlt, hnd]
    · simp [hnm]

theorem nextLen_setNext (h : Heap) (n l : Nat) (v : Nat × Bool) (m : Nat) :
    nextLen (setNext h n l v) m = nextLen h m := by
  unfold setNext nextLen
  cases hn : h[n]? with
  | none => simp
  | some nd =>
    simp only
    by_cases hnm : n = m
    · subst hnm
      rcases List.getElem?_eq_some_iff.mp hn with ⟨hlt, hnd⟩
      simp [hlt, hnd]
    · simp [hnm]

/-- `getNext` after a store, in one statement -/
theorem getNext_setNext {h : Heap} {n l m j : Nat} {v : Nat × Bool} (hl : l < nextLen h n) :
    getNext (setNext h n l v) m j = if n = m ∧ l = j then v else getNext h m j := by
  by_cases hc : n = m ∧ l = j
  · rcases hc with ⟨rfl, rfl⟩
    simp [getNext_setNext_same hl]
  · rw [if_neg hc]
    apply getNext_setNext_ne
    by_cases h1 : n = m
    · right; intro h2; exact hc ⟨h1, h2⟩
    · left; exact h1

/-! ### allocation -/

theorem getNext_append_old {h : Heap} {nd : Node} {n : Nat} (hn : n < h.length) (l : Nat) :
    getNext (h ++ [nd]) n l = getNext h n l := by
  unfold getNext; simp [List.getElem?_append, hn]

theorem keyOf_append_old {h : Heap} {nd : Node} {n : Nat} (hn : n < h.length) :
    keyOf (h ++ [nd]) n = keyOf h n := by
  unfold keyOf; simp [List.getElem?_append, hn]

theorem levelOf_append_old {h : Heap} {nd : Node} {n : Nat} (hn : n < h.length) :
    levelOf (h ++ [nd]) n = levelOf h n := by
  unfold levelOf; simp [List.getElem?_append, hn]

theorem nextLen_append_old {h : Heap} {nd : Node} {n : Nat} (hn : n < h.length) :
    nextLen (h ++ [nd]) n = nextLen h n := by
  unfold nextLen; simp [List.getElem?_append, hn]

theorem keyOf_append_new (h : Heap) (nd : Node) : keyOf (h ++ [nd]) h.length = nd.key := by
  unfold keyOf; simp

theorem levelOf_append_new (h : Heap) (nd : Node) : levelOf (h ++ [nd]) h.length = nd.level := by
  unfold levelOf; simp

theorem nextLen_append_new (h : Heap) (nd : Node) : nextLen (h ++ [nd]) h.length = nd.next.length := by
  unfold nextLen; simp

theorem getNext_append_new (h : Heap) (nd : Node) (l : Nat) :
    getNext (h ++ [nd]) h.length l = nd.next.getD l (0, false) := by
  unfold getNext; simp

/-! ### compare-and-swap -/

theorem dcasNext_ok {h : Heap} {n l p q : Nat} {d : Bool} (hp : getNext h n l = (p, false)) :
    dcasNext h n l p q d = (setNext h n l (q, d), true) := by
  unfold dcasNext; simp [hp]

theorem dcasNext_fail {h : Heap} {n l p q : Nat} {d : Bool} (hp : getNext h n l ≠ (p, false)) :
    dcasNext h n l p q d = (h, false) := by
  unfold dcasNext; simp [hp]

/-! ### the sentinel comparison and integer keys -/

/-- integer carried by a node (0 for the sentinels) -/
def ikey (h : Heap) (n : Nat) : Int :=
  match keyOf h n with
  | .item k => k
  | _ => 0

theorem compare_item_item (a b : Int) : compare (.item a) (.item b) = a - b := by
  simp [compare, cmpItem]

theorem compare_max_item (b : Int) : compare .max (.item b) = 1 := by
  simp [compare]

theorem compare_min_item (b : Int) : compare .min (.item b) = -1 := by
  simp [compare]

theorem ikey_of_keyOf {h : Heap} {n : Nat} {k : Int} (hk : keyOf h n = .item k) : ikey h n = k := by
  unfold ikey; rw [hk]

end NitroVerif.SkipSeq
