import NitroVerif.Lemmas.SkipSeqInsert
/-!
  `findPath` as a whole on a quiescent list, and what its answer means for the set of keys.
-/
namespace NitroVerif.SkipSeq
open NitroVerif

theorem findPath_quiescent {s : SL} {L0 A B : List Nat} {k : Int} (hr : Rep s L0) (hAB : L0 = A ++ B)
    (hA : ∀ a ∈ A, ikey s.nodes a < k) (hB : ∀ b ∈ B, k ≤ ikey s.nodes b) :
    ∃ s', findPath s (.item k) =
        (s', if compare (keyOf s.nodes (succAt s.nodes B 0)) (.item k) = 0
             then succAt s.nodes B 0 else nilId) ∧
      SameBut s s' ∧ BufOK s' s.nodes A B s.level := by
  have htop : predAt s.nodes A (s.level + 1) = headId := by
    unfold predAt
    rw [LL_eq_nil]
    · rfl
    · intro n hn
      have := (hr.nodes n (by rw [hAB]; exact List.mem_append_left _ hn)).lvl
      omega
  have hfuel : (s.level + 1) * (A.length + 2) ≤ findFuel s := by
    unfold findFuel
    apply Nat.mul_le_mul_left
    have := hr.size
    rw [hAB] at this
    simp at this
    omega
  rcases findLoop_quiescent hAB s.level s (findFuel s) hr hA hB hr.lvl hfuel with ⟨s', he, hsb, hbuf, _⟩
  rw [htop] at he
  refine ⟨s', ?_, hsb, hbuf⟩
  unfold findPath
  rw [he]
  simp only
  have h0 := hbuf 0 (Nat.zero_le _)
  by_cases hc : compare (keyOf s.nodes (succAt s.nodes B 0)) (.item k) = 0
  · rw [if_pos ((findFound_iff _).mpr hc), if_pos hc, h0.2]
  · rw [if_neg (fun h => hc ((findFound_iff _).mp h)), if_neg hc]

theorem succAt_zero (h : Heap) (B : List Nat) : succAt h B 0 = (B.head?).getD tailId := by
  unfold succAt; rw [LL_zero]

/-- a hit: the list is `A ++ d :: B'` with `d` carrying the key -/
theorem Rep.hit_head {s : SL} {A B : List Nat} {k : Int} (hr : Rep s (A ++ B))
    (hB : ∀ b ∈ B, k ≤ ikey s.nodes b)
    (hc : compare (keyOf s.nodes (succAt s.nodes B 0)) (.item k) = 0) :
    ∃ B', B = succAt s.nodes B 0 :: B' ∧ ikey s.nodes (succAt s.nodes B 0) = k ∧
      ∀ b ∈ B', k < ikey s.nodes b := by
  rw [succAt_zero] at hc ⊢
  cases B with
  | nil =>
    simp only [List.head?_nil, Option.getD_none] at hc
    rw [hr.base.tailKey, compare_max_item] at hc
    omega
  | cons d B' =>
    simp only [List.head?_cons, Option.getD_some] at hc ⊢
    have hd : d ∈ A ++ d :: B' := by simp
    rw [(hr.nodes d hd).key, compare_item_item] at hc
    have hk : ikey s.nodes d = k := by omega
    refine ⟨B', rfl, hk, ?_⟩
    intro b hb
    have hs := hr.sorted
    rw [List.pairwise_append] at hs
    have := (List.pairwise_cons.mp hs.2.1).1 b hb
    omega

/-- a miss: everything in `B` is strictly above the key -/
theorem Rep.miss_gt {s : SL} {A B : List Nat} {k : Int} (hr : Rep s (A ++ B))
    (hB : ∀ b ∈ B, k ≤ ikey s.nodes b)
    (hc : ¬ compare (keyOf s.nodes (succAt s.nodes B 0)) (.item k) = 0) :
    ∀ b ∈ B, k < ikey s.nodes b := by
  rw [succAt_zero] at hc
  cases B with
  | nil => simp
  | cons d B' =>
    simp only [List.head?_cons, Option.getD_some] at hc
    have hd : d ∈ A ++ d :: B' := by simp
    rw [(hr.nodes d hd).key, compare_item_item] at hc
    have hdk := hB d (by simp)
    intro b hb
    rcases List.mem_cons.mp hb with rfl | hb'
    · omega
    · have hs := hr.sorted
      rw [List.pairwise_append] at hs
      have := (List.pairwise_cons.mp hs.2.1).1 b hb'
      omega

/-- the answer of the search is membership of the key -/
theorem Rep.hit_iff {s : SL} {A B : List Nat} {k : Int} (hr : Rep s (A ++ B))
    (hA : ∀ a ∈ A, ikey s.nodes a < k) (hB : ∀ b ∈ B, k ≤ ikey s.nodes b) :
    compare (keyOf s.nodes (succAt s.nodes B 0)) (.item k) = 0 ↔ k ∈ (A ++ B).map (ikey s.nodes) := by
  constructor
  · intro hc
    rcases hr.hit_head hB hc with ⟨B', hB', hk, _⟩
    rw [List.mem_map]
    have hm : succAt s.nodes B 0 ∈ succAt s.nodes B 0 :: B' := by simp
    rw [← hB'] at hm
    exact ⟨succAt s.nodes B 0, List.mem_append_right _ hm, hk⟩
  · intro hm
    apply Classical.byContradiction
    intro hc
    have hgt := hr.miss_gt hB hc
    rcases List.mem_map.mp hm with ⟨n, hn, hnk⟩
    rcases List.mem_append.mp hn with h1 | h1
    · have := hA n h1; omega
    · have := hgt n h1; omega

/-- a found node is a real node -/
theorem Rep.succ_ne_nil {s : SL} {A B : List Nat} {k : Int} (hr : Rep s (A ++ B))
    (hB : ∀ b ∈ B, k ≤ ikey s.nodes b)
    (hc : compare (keyOf s.nodes (succAt s.nodes B 0)) (.item k) = 0) :
    succAt s.nodes B 0 ≠ nilId := by
  rcases hr.hit_head hB hc with ⟨B', hB', _, _⟩
  have hm : succAt s.nodes B 0 ∈ succAt s.nodes B 0 :: B' := by simp
  rw [← hB'] at hm
  have := (hr.nodes _ (List.mem_append_right _ hm)).lo
  unfold nilId; omega

end NitroVerif.SkipSeq
