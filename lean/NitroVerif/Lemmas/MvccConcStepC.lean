/-
  The invariant is preserved by `Snapshot.Close` / `Iterator.Close` and the collector:
  `finishClose`, `collectLoop`, `runGC`, `closeRef`.
-/
import NitroVerif.Lemmas.MvccConcStepR

namespace NitroVerif.MvccConc
open NitroVerif

/-! ### the end of a Close -/

theorem inv_release_iter {σ : State} {t i : Nat} {it : Iter} {pc0 : Pc} (h : Inv σ)
    (ht : σ.threads[t]? = some pc0) (hp0 : pc0.plain) (hm : ((t, i), it) ∈ σ.iters) :
    Inv (setPc (release { σ with iters := eraseIter (t, i) σ.iters } it.tok (.it t i)) t .idle) := by
  have hidle : Pc.plain .idle := by simp [Pc.plain]
  refine ⟨h.store.set_not_put t hidle.not_put, h.pc.set_plain t hidle, h.garb, ?_, ?_, ?_⟩
  · -- own
    refine h.own.congr ?_ (reserved_set_iff ht hp0.not_put hidle.not_put)
    intro n
    show ownC σ.store (σ.threads.set t .idle) σ.gcJobs (relSess σ.sess it.tok (.it t i))
        (σ.freeSeq + (readySess (relSess σ.sess it.tok (.it t i)) σ.freeSeq).length)
        (σ.frJobs ++ newFrJobs (readySess (relSess σ.sess it.tok (.it t i)) σ.freeSeq)) n = _
    rw [← ownC_set_same (pc' := .idle) ht (by rw [hidle.own, hp0.own]) n]
    unfold ownC; rw [sessfr_release]
  · -- tok
    show TokInv (σ.threads.set t .idle) (relSess σ.sess it.tok (.it t i)) (eraseIter (t, i) σ.iters)
        (σ.freeSeq + (readySess (relSess σ.sess it.tok (.it t i)) σ.freeSeq).length)
    have hpre : TokPre σ.threads (relSess σ.sess it.tok (.it t i)) (eraseIter (t, i) σ.iters) σ.freeSeq := by
      refine h.tok.toTokPre.release (fun t' pc tk hg _ => ⟨hg, by simp⟩) ?_ (eraseIter_pairwise h.tok.keys) ?_ ?_
      · intro t' j it0 hm0
        have := mem_eraseIter.mp hm0
        refine ⟨this.1, ?_⟩
        intro he; injection he with h1 h2
        exact this.2 (by simp [h1, h2])
      · intro j hd hne hc
        cases hd with
        | thr t' => exact hc
        | it t' j' =>
          obtain ⟨it0, hm0, htk⟩ := hc
          refine ⟨it0, mem_eraseIter.mpr ⟨hm0, ?_⟩, htk⟩
          intro he; simp only at he
          injection he with h1 h2
          exact hne (by rw [h1, h2])
      · rintro j ⟨it0, hm0, htk⟩
        have := iter_unique h.tok.keys hm0 hm
        subst this; exact htk.symm
    exact ⟨hpre.cleanup.toTokPre.set_tok_same ht (by rw [hidle.tok, hp0.tok]), hpre.cleanup.fix⟩
  · -- prot
    show ProtInv (σ.threads.set t .idle) σ.store σ.gcJobs (relSess σ.sess it.tok (.it t i))
        (eraseIter (t, i) σ.iters)
    refine ((h.prot.sess_mono (fun n => relSess_list_mono σ.sess _ _ n)).iters_mono ?_).set_plain ht
      hp0.not_flush hidle.not_phys hidle.not_cas
    intro key it0 c hm0 _
    exact Or.inl (mem_eraseIter.mp hm0).1

theorem inv_finishClose {σ : State} {t : Nat} {after : Option Nat} {pc0 : Pc} (h : Inv σ)
    (ht : σ.threads[t]? = some pc0) (hp0 : pc0.plain) : Inv (finishClose σ t after).1 := by
  unfold finishClose
  cases after with
  | none => exact inv_setPc_plain h ht hp0 (by simp [Pc.plain])
  | some i =>
    simp only
    cases hf : findIter (t, i) σ.iters with
    | none => exact inv_setPc_plain h ht hp0 (by simp [Pc.plain])
    | some it => exact inv_release_iter h ht hp0 (findIter_some hf)

/-! ### the collector -/

theorem retiredHead_some {snaps : List Snap} {s : Snap} (h : retiredHead snaps = some s) :
    s ∈ snaps ∧ s.st = .retired := by
  unfold retiredHead at h
  have h1 := List.find?_some h
  simp at h1
  exact ⟨List.mem_of_find?_eq_some h, h1⟩

theorem collectable_some {σ : State} {s : Snap} (h : collectable σ = some s) : s ∈ σ.snaps ∧ s.st = .retired := by
  unfold collectable at h
  cases hr : retiredHead σ.snaps with
  | none => rw [hr] at h; simp at h
  | some x =>
    rw [hr] at h; simp only at h
    split at h
    · simp at h
    · simp at h; subst h; exact retiredHead_some hr

theorem inv_with_flag {σ : State} (h : Inv σ) (hn : NoCollector σ.threads) (b : Bool) : Inv { σ with gcFlag := b } :=
  ⟨h.store, h.pc.of_no_collector hn, h.garb, h.own, h.tok, h.prot⟩

theorem inv_collectLoop {σ : State} {t : Nat} {after : Option Nat} {pc0 : Pc} (h : Inv σ)
    (hn : NoCollector σ.threads) (ht : σ.threads[t]? = some pc0) (hp0 : pc0.plain) :
    Inv (collectLoop σ t after).1 := by
  unfold collectLoop
  cases hc : collectable σ with
  | some s =>
    simp only
    have ⟨hsm, hst⟩ := collectable_some hc
    have hnp : ∀ n k v b, Pc.collectSend s.sn after ≠ Pc.putInsert n k v b := by intros; simp
    have hnr : ∀ n, reserved (σ.threads.set t (.collectSend s.sn after)) n → reserved σ.threads n :=
      fun n hn' => reserved_set_of_not_put hnp hn'
    refine ⟨h.store.set_not_put t hnp, ?_, h.garb,
      h.own.set_same ht (by rw [hp0.own]; rfl) hp0.not_put hnp,
      h.tok.set_tok_same ht (by rw [hp0.tok]; rfl),
      h.prot.set_plain ht hp0.not_flush (by intros; simp) (by intros; simp)⟩
    -- pc
    have hpc := h.pc
    show PcInv (σ.threads.set t (.collectSend s.sn after)) σ.writers.length σ.currSn σ.store σ.unlinked
      σ.nextId true σ.snaps
    refine ⟨by rw [List.length_set]; exact hpc.len, ?_, ?_, ?_, ?_, ?_, ?_⟩
    · intro t' n k v b hg
      rcases get_set_cases hg with ⟨_, he⟩ | ⟨_, hg'⟩
      · cases he
      · exact hpc.put t' n k v b hg'
    · intro t' n tok k hg
      rcases get_set_cases hg with ⟨_, he⟩ | ⟨_, hg'⟩
      · cases he
      · have := hpc.phys t' n tok k hg'
        exact ⟨this.1, this.2.1, fun hn' => this.2.2.1 (hnr n hn'), this.2.2.2⟩
    · intro t' n tok k hg
      rcases get_set_cases hg with ⟨_, he⟩ | ⟨_, hg'⟩
      · cases he
      · have := hpc.cas t' n tok k hg'
        exact ⟨this.1, this.2.1, fun hn' => this.2.2.1 (hnr n hn'), this.2.2.2⟩
    · intro t' n tok k hg
      rcases get_set_cases hg with ⟨_, he⟩ | ⟨_, hg'⟩
      · cases he
      · exact hpc.fl t' n tok k hg'
    · intro t' sn a hg
      rcases get_set_cases hg with ⟨_, he⟩ | ⟨_, hg'⟩
      · injection he with h1 h2; subst h1
        exact ⟨rfl, s, hsm, rfl, hst⟩
      · exact absurd hg' (hn t' sn a)
    · intro t1 t2 s1 a1 s2 a2 h1 h2
      rcases get_set_cases h1 with ⟨e1, _⟩ | ⟨_, h1'⟩
      · rcases get_set_cases h2 with ⟨e2, _⟩ | ⟨_, h2'⟩
        · omega
        · exact absurd h2' (hn t2 s2 a2)
      · exact absurd h1' (hn t1 s1 a1)
  | none =>
    simp only
    split
    · exact h
    · exact inv_finishClose (inv_with_flag h hn false) ht hp0

theorem inv_runGC {σ : State} {t : Nat} {after : Option Nat} {pc0 : Pc} (h : Inv σ)
    (ht : σ.threads[t]? = some pc0) (hp0 : pc0.plain) : Inv (runGC σ t after).1 := by
  unfold runGC
  split
  · exact inv_finishClose h ht hp0
  · rename_i hf
    have hf' : σ.gcFlag = false := by simpa using hf
    have hpc := h.pc
    rw [hf'] at hpc
    exact inv_collectLoop h hpc.no_collector ht hp0

/-! ### dropping a reference -/

theorem snap_unique {snaps : List Snap} (h : snaps.Pairwise (fun a b => a.sn < b.sn)) {a b : Snap}
    (ha : a ∈ snaps) (hb : b ∈ snaps) (hs : a.sn = b.sn) : a = b := by
  rcases Mvcc.pairwise_mem_trichotomy h ha hb with h | h | h
  · exact h
  · omega
  · omega

theorem garbS_updSnap_same' (s : Nat) (f : Snap → Snap) : ∀ (snaps : List Snap),
    (∀ x ∈ snaps, x.sn = s → snapGarb (f x) = snapGarb x) → garbS (updSnap s f snaps) = garbS snaps
  | [], _ => rfl
  | x :: xs, hf => by
    have ih := garbS_updSnap_same' s f xs (fun y hy => hf y (List.mem_cons_of_mem _ hy))
    unfold garbS updSnap at ih ⊢
    simp only [List.map_cons, List.flatMap_cons, ih]
    split
    · rename_i hx; rw [hf x (List.mem_cons_self) hx]
    · rfl

/-- an update of snapshot `s` that keeps `sn` and `gclist`, and either keeps `st` or moves a live
    snapshot to retired -/
theorem inv_updSnap {σ : State} {s : Nat} {f : Snap → Snap} (h : Inv σ)
    (hsn : ∀ x, (f x).sn = x.sn) (hgl : ∀ x, (f x).gclist = x.gclist)
    (hst : ∀ x ∈ σ.snaps, x.sn = s → (f x).st = x.st ∨ (x.st = .live ∧ (f x).st = .retired))
    (hrc : ∀ x ∈ σ.snaps, x.sn = s → (f x).st ≠ .live → (f x).rc ≤ 0) :
    Inv { σ with snaps := updSnap s f σ.snaps } := by
  have hst0 := h.store
  refine ⟨?_, ?_, ?_, h.own, h.tok, h.prot⟩
  · exact ⟨hst0.sorted, hst0.chains, hst0.cnt, hst0.cur_pos, hst0.ids, hst0.unl, hst0.id_lt,
      updSnap_pairwise hst0.snaps_inc s f hsn, updSnap_sn_lt hst0.snaps_lt s f hsn, by
        intro y hy hne
        obtain ⟨z, hz, rfl⟩ := mem_updSnap hy
        by_cases hzs : z.sn = s
        · simp only [hzs, if_true] at hne ⊢
          exact hrc z hz hzs hne
        · simp only [hzs, if_false] at hne ⊢
          exact hst0.rc_dead z hz hne⟩
  · refine h.pc.snaps_mono ?_
    intro y hy hyst
    refine ⟨_, mem_updSnap_of_mem hy, ?_⟩
    split
    · rename_i hys
      refine ⟨hsn y, ?_⟩
      rcases hst y hy hys with h1 | ⟨h1, _⟩
      · rw [h1]; exact hyst
      · rw [hyst] at h1; cases h1
    · exact ⟨rfl, hyst⟩
  · refine h.garb.congr ?_
    intro n
    show garbC σ.writers (updSnap s f σ.snaps) σ.gcJobs n = _
    unfold garbC
    rw [garbS_updSnap_same' s f σ.snaps]
    intro x hx hxs
    unfold snapGarb
    rw [hgl]
    rcases hst x hx hxs with h1 | ⟨h1, h2⟩
    · rw [h1]
    · rw [h1, h2]; simp

theorem inv_closeRef {σ : State} {t s : Nat} {rc : Int} {after : Option Nat} {pc0 : Pc} (h : Inv σ)
    (ht : σ.threads[t]? = some pc0) (hp0 : pc0.plain)
    (hx : ∀ x ∈ σ.snaps, x.sn = s → x.rc = rc) : Inv (closeRef σ t s rc after).1 := by
  unfold closeRef
  split
  · rename_i hret
    have hrc1 : rc = 1 := by
      simp [Gen.closeRetire] at hret; omega
    refine inv_runGC (inv_updSnap h (fun _ => rfl) (fun _ => rfl) ?_ ?_) ht hp0
    · intro x hxm hxs
      right
      refine ⟨?_, rfl⟩
      have := hx x hxm hxs
      cases hst : x.st with
      | live => rfl
      | retired =>
        have := h.store.rc_dead x hxm (by rw [hst]; simp); omega
      | collected =>
        have := h.store.rc_dead x hxm (by rw [hst]; simp); omega
    · intro x hxm hxs _
      have := hx x hxm hxs
      simp only; omega
  · refine inv_finishClose (inv_updSnap h (fun _ => rfl) (fun _ => rfl) ?_ ?_) ht hp0
    · intro x _ _; exact Or.inl rfl
    · intro x hxm hxs hne
      have := h.store.rc_dead x hxm hne
      simp only; omega

end NitroVerif.MvccConc
