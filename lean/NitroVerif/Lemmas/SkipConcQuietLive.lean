import NitroVerif.Lemmas.SkipConcQuietWalk
/-!
  Quiescence of M5, part 7: a node that is unmarked at an index level and NOT on the chain of that level is still
  being linked: its inserter is in flight and has not passed that level (`Pend`).  At quiescence, therefore, every
  live node is linked at every level up to its height.
-/
namespace NitroVerif.SkipConc
open NitroVerif

/-- the published node an Insert4 is linking, and the level it is working on -/
def contAt : Cont → Option (Nat × Nat)
  | .insRelink x _ i => some (x, i)
  | .insSuccDeleted x _ i => some (x, i)
  | _ => none

def insAt : PC → Option (Nat × Nat)
  | .findLevel fp => contAt fp.cont
  | .findNext fp _ => contAt fp.cont
  | .helpDelete fp _ => contAt fp.cont
  | .insUpRead _ x _ i => some (x, i)
  | .insUpLink _ x _ i _ => some (x, i)
  | _ => none

/-- the thread is linking node `n` and has not passed level `l` -/
def Pend (n l : Nat) (pc : PC) : Prop := ∃ i, insAt pc = some (n, i) ∧ i ≤ l

theorem Pend.not_idle {n l : Nat} {pc : PC} (r : Pend n l pc) : isIdle pc = false := by
  obtain ⟨i, hi, _⟩ := r
  cases pc <;> simp only [insAt, isIdle] at * <;> simp at hi

theorem insAt_finishFind {sh : Shared} {th : Thread} {item : Nat} {found : Bool} {c : Cont} {p : Nat × Nat}
    (h : contAt c = some p) : insAt (finishFind sh th item found c).2.1.pc = some p := by
  cases c <;> simp only [contAt] at h <;> try (simp at h)
  · simp only [finishFind, insAt]; rw [h]
  · simp only [finishFind, insAt]; rw [h]

theorem insAt_afterRead {sh : Shared} {th : Thread} {fp : FP} {next : Nat} {d : Bool} {p : Nat × Nat}
    (h : contAt fp.cont = some p) : insAt (afterRead sh th fp next d).2.1.pc = some p := by
  unfold afterRead
  split
  · exact h
  · simp only []
    split
    · exact h
    · split
      · exact h
      · exact insAt_finishFind h

theorem insAt_insCheckSucc (sh : Shared) (th : Thread) (item x lvl i next : Nat) :
    insAt (insCheckSucc sh th item x lvl i next).2.1.pc = some (x, i) := by
  unfold insCheckSucc; split <;> rfl

/-- a mark at level `i` shows at every level `≥ i` at which the node has a word -/
theorem not_unmarkedAt_of_marked {h : Heap} (H : HInv h) {n i l : Nat} (hm : markedAt h i n) (hil : i ≤ l) :
    ¬ unmarkedAt h l n := by
  intro ⟨p, hp⟩
  obtain ⟨q, hq⟩ := hm
  have := H.h4 _ _ _ _ _ _ hq hil hp
  simp at this

theorem stepInsUpRead_pend {sh : Shared} {th : Thread} (item x lvl i l : Nat) (H : HInv sh.heap)
    (hT : TInv sh.heap th) (hpc : th.pc = .insUpRead item x lvl i) (hle : i ≤ l) :
    HInv (stepInsUpRead sh th item x lvl i).1.heap → Ext sh.heap (stepInsUpRead sh th item x lvl i).1.heap →
    unmarkedAt (stepInsUpRead sh th item x lvl i).1.heap l x →
    Pend x l (stepInsUpRead sh th item x lvl i).2.1.pc := by
  have hp := hT.2.2
  rw [hpc] at hp
  obtain ⟨hx, hkx, h1i, hil, hlvl, hhx⟩ := hp
  have hx1 : x ≠ 1 := by
    intro c; rw [c, H.tailKey] at hkx; simp at hkx
  have hxl : (word? sh.heap x i).isSome := H.full x i hx hx1 (by rw [hhx]; exact hil)
  obtain ⟨⟨q, mq⟩, hwq⟩ := Option.isSome_iff_exists.mp hxl
  have hgn : getNext sh.heap x i = (q, mq) := getNext_of_word hwq
  unfold stepInsUpRead
  simp only [hgn]
  split
  · rename_i hm
    intro H' e hu
    have hm' : mq = true := hm
    subst hm'
    exact absurd hu (not_unmarkedAt_of_marked H' ⟨q, e.marked _ _ _ hwq⟩ hle)
  · rename_i hm
    have hmq : mq = false := by
      cases mq
      · rfl
      · simp at hm
    subst hmq
    split
    · have hok : (dcas sh.heap x i q (th.succ i) false).2 = true := (dcas_ok_iff ..).mpr hwq
      simp only [hok, if_true]
      intro _ _ _
      exact ⟨i, insAt_insCheckSucc .., hle⟩
    · intro _ _ _
      exact ⟨i, insAt_insCheckSucc .., hle⟩

theorem stepInsUpLink_pend {sh : Shared} {th : Thread} (item x lvl i next l : Nat)
    (hT : TInv sh.heap th) (hpc : th.pc = .insUpLink item x lvl i next) (hle : i ≤ l) :
    HInv (stepInsUpLink sh th item x lvl i next).1.heap → LvInv (stepInsUpLink sh th item x lvl i next).1.heap →
    Ext sh.heap (stepInsUpLink sh th item x lvl i next).1.heap →
    unmarkedAt (stepInsUpLink sh th item x lvl i next).1.heap l x →
    ¬ OnChain (stepInsUpLink sh th item x lvl i next).1.heap l x →
    Pend x l (stepInsUpLink sh th item x lvl i next).2.1.pc := by
  have hp := hT.2.2
  rw [hpc] at hp
  obtain ⟨hx, hkx, h1i, hn, hil, hlvl, hhx⟩ := hp
  unfold stepInsUpLink
  simp only []
  split
  · rename_i hok
    have hwp : word? (dcas sh.heap (th.pred i) i next x false).1 (th.pred i) i = some (x, false) := by
      rw [word?_dcas_ok hok]; simp
    split
    · rename_i hmk
      intro H' _ _ hu _
      exact absurd hu (not_unmarkedAt_of_marked H' ⟨_, word?_of_getNext_marked hmk⟩ hle)
    · split
      · intro H' L' _ hu hnc
        refine ⟨i + 1, rfl, ?_⟩
        -- the node is on the chain of level `i` now, so `l ≠ i`
        have hne : l ≠ i := by
          intro c
          subst c
          exact hnc (L'.pointed hwp l h1i (Nat.le_refl _) hu)
        show i + 1 ≤ l
        omega
      · rename_i hlast
        intro H' L' e hu hnc
        exfalso
        have hne : l ≠ i := by
          intro c
          subst c
          exact hnc (L'.pointed hwp l h1i (Nat.le_refl _) hu)
        obtain ⟨p, hp⟩ := hu
        have hwl := H'.wordLevel _ _ _ hp
        have hh := e.height _ hx
        simp only [insFinished] at hwl hh
        rw [hh, hhx] at hwl
        omega
  · intro _ _ _ _ _
    exact ⟨i, rfl, hle⟩

/-- the inserter's own segment: it is still linking the node below or at level `l`, as long as the node is unmarked
    at level `l` and not on that chain -/
theorem Pend.step {sh : Shared} {th : Thread} {n l : Nat} (H : HInv sh.heap) (hT : TInv sh.heap th)
    (H' : HInv (stepThread sh th).1.heap) (L' : LvInv (stepThread sh th).1.heap)
    (e : Ext sh.heap (stepThread sh th).1.heap) (r : Pend n l th.pc)
    (hu : unmarkedAt (stepThread sh th).1.heap l n) (hnc : ¬ OnChain (stepThread sh th).1.heap l n) :
    Pend n l (stepThread sh th).2.1.pc := by
  obtain ⟨i0, hi0, hle⟩ := r
  cases hpc : th.pc <;> rw [hpc] at hi0 <;> simp only [insAt] at hi0 <;> try (simp at hi0)
  · -- FIND_LEVEL
    rename_i fp
    have h1 : stepThread sh th = stepFindLevel sh th fp := by unfold stepThread; rw [hpc]
    rw [h1]; exact ⟨i0, hi0, hle⟩
  · rename_i fp rr
    have h1 : stepThread sh th = stepFindNext sh th fp rr := by unfold stepThread; rw [hpc]
    rw [h1]
    unfold stepFindNext
    refine ⟨i0, insAt_afterRead ?_, hle⟩
    split <;> exact hi0
  · rename_i fp next
    have h1 : stepThread sh th = stepHelpDelete sh th fp next := by unfold stepThread; rw [hpc]
    rw [h1]
    unfold stepHelpDelete
    simp only []
    split
    · exact ⟨i0, hi0, hle⟩
    · exact ⟨i0, hi0, hle⟩
  · -- INS_UP_READ
    rename_i item x lvl i
    obtain ⟨rfl, rfl⟩ := hi0
    have h1 : stepThread sh th = stepInsUpRead sh th item x lvl i := by unfold stepThread; rw [hpc]
    rw [h1] at hu H' e ⊢
    exact stepInsUpRead_pend item x lvl i l H hT hpc hle H' e hu
  · -- INS_UP_LINK
    rename_i item x lvl i next
    obtain ⟨rfl, rfl⟩ := hi0
    have h1 : stepThread sh th = stepInsUpLink sh th item x lvl i next := by unfold stepThread; rw [hpc]
    rw [h1] at hu hnc H' L' e ⊢
    exact stepInsUpLink_pend item x lvl i next l hT hpc hle H' L' e hu hnc

theorem stepInsPublish_newPend (sh : Shared) (th : Thread) (k lvl : Nat) :
    ∀ n l, sh.heap.length ≤ n → 1 ≤ l → (word? (stepInsPublish sh th k lvl).1.heap n l).isSome →
      Pend n l (stepInsPublish sh th k lvl).2.1.pc := by
  intro n l h1 hl1
  unfold stepInsPublish
  simp only []
  split
  · rename_i hok
    have hheap := dcas_ok_heap _ _ _ _ _ _ hok
    have key : (word? ((dcas sh.heap (th.pred 0) 0 (th.succ 0) sh.heap.length false).1 ++ [newNode th k lvl]) n l).isSome →
        n = sh.heap.length ∧ l ≤ lvl := by
      intro h2
      obtain ⟨w, hw⟩ := Option.isSome_iff_exists.mp h2
      have hlt := word?_lt hw
      rw [hheap] at hlt hw
      simp [length_setWord] at hlt
      have hn : n = (setWord sh.heap (th.pred 0) 0 (sh.heap.length, false)).length := by
        rw [length_setWord]; omega
      rw [hn, word?_append_new] at hw
      exact ⟨by rw [hn, length_setWord], (newNode_getElem? _ _ _ _ hw).1⟩
    split
    · intro h2
      obtain ⟨rfl, _⟩ := key h2
      exact ⟨1, rfl, hl1⟩
    · rename_i hl0
      intro h2
      have := (key h2).2
      omega
  · intro h2
    obtain ⟨w, hw⟩ := Option.isSome_iff_exists.mp h2
    have := word?_lt hw
    simp only [startFind] at this
    omega

/-- a node published in this segment: its inserter starts at level 1 -/
theorem stepThread_newPend {sh : Shared} {th : Thread} (hT : TInv sh.heap th) :
    ∀ n l, sh.heap.length ≤ n → 1 ≤ l → (word? (stepThread sh th).1.heap n l).isSome →
      Pend n l (stepThread sh th).2.1.pc := by
  intro n l h1 hl1 h2
  have h2' := word?_lt (Option.isSome_iff_exists.mp h2).choose_spec
  obtain ⟨ev, hs, hpc⟩ := stepThread_hstep hT
  cases ev with
  | none => have := (hs.frame (.inl rfl)).1; omega
  | upper => have := (hs.frame (.inr (.inl rfl))).1; omega
  | unlink c => have := (hs.frame (.inr (.inr ⟨c, rfl⟩))).1; omega
  | mark c => have := hs.mark_spec.1; omega
  | publish x k =>
    obtain ⟨lvl, hpc⟩ := hpc
    have h3 : stepThread sh th = stepInsPublish sh th k lvl := by unfold stepThread; rw [hpc]
    rw [h3] at h2 ⊢
    exact stepInsPublish_newPend sh th k lvl n l h1 hl1 h2

/-- the charging invariants together with "an unmarked, unlinked index level of a node has its inserter in flight" -/
structure InvP (s : Sys) : Prop where
  m : InvM s
  pend : ∀ n l, 1 ≤ l → unmarkedAt s.sh.heap l n → ¬ OnChain s.sh.heap l n →
    ∃ (t : Nat) (th : Thread), s.threads[t]? = some th ∧ Pend n l th.pc

theorem InvP_init (n : Nat) : InvP (Sys.init n) where
  m := InvM_init n
  pend k l _ hu hnc := by
    obtain ⟨p, hp⟩ := hu
    obtain ⟨rfl, _⟩ := word?_init hp
    exact absurd (ReachL.refl _) hnc

theorem start_invP {s : Sys} (hI : InvP s) (t : Nat) (op : Op) : InvP (s.start t op).1 := by
  have hM' := start_invM hI.m t op
  cases hth : s.threads[t]? with
  | none => rw [Sys.start_none hth]; exact hI
  | some th =>
    cases hidle : isIdle th.pc with
    | false => rw [Sys.start_busy hth hidle]; exact hI
    | true =>
      rw [Sys.start_idle hth hidle] at hM' ⊢
      refine ⟨hM', ?_⟩
      intro n l hl hu hnc
      simp only [startOp_heap] at hu hnc ⊢
      obtain ⟨tr, thr, hget, hr⟩ := hI.pend n l hl hu hnc
      have hne : t ≠ tr := by
        intro e
        subst e
        rw [hth] at hget; simp at hget; subst hget
        have := hr.not_idle
        rw [hidle] at this; simp at this
      exact ⟨tr, thr, by rw [List.getElem?_set_ne hne]; exact hget, hr⟩

theorem step_invP {s : Sys} (hI : InvP s) (t : Nat) : InvP (s.step t).1 := by
  have hM' := step_invM hI.m t
  cases hth : s.threads[t]? with
  | none => rw [Sys.step_none hth]; exact hI
  | some th =>
    by_cases hidle : th.pc = .idle
    · rw [Sys.step_idle hth hidle]; exact hI
    · have hInv := hI.m.q.lv.base.1
      have H := hInv.1
      have hT := hInv.2 th (List.mem_of_getElem? hth)
      have hL := hI.m.q.lv.threads t th hth
      have hgood := stepThread_good H hInv.3 hT
      obtain ⟨ev, hst, _, _⟩ := stepThread_goodL H hI.m.q.lv.base.2 hI.m.q.lv.lv hI.m.q.lv.fixed hT hL
      have L' := hst.lvInv H hI.m.q.lv.lv
      have htl : t < s.threads.length := (List.getElem?_eq_some_iff.mp hth).1
      rw [Sys.step_busy hth hidle] at hM' ⊢
      refine ⟨hM', ?_⟩
      intro n l hl hu' hnc'
      simp only [] at hu' hnc' ⊢
      have hnewget : (s.threads.set t (stepThread s.sh th).2.1)[t]? = some (stepThread s.sh th).2.1 := by
        rw [List.getElem?_set_self htl]
      by_cases hn : n < s.sh.heap.length
      · have hu := unmarkedAt_back hgood.2.1 hn hu'
        have hnc : ¬ OnChain s.sh.heap l n := fun c => hnc' (OnChain.keep H hst hl c hu')
        obtain ⟨tr, thr, hget, hr⟩ := hI.pend n l hl hu hnc
        by_cases htr : tr = t
        · subst htr
          rw [hth] at hget; simp at hget; subst hget
          exact ⟨tr, _, hnewget, hr.step H hT hgood.1 L' hgood.2.1 hu' hnc'⟩
        · exact ⟨tr, thr, by rw [List.getElem?_set_ne (fun e => htr e.symm)]; exact hget, hr⟩
      · obtain ⟨p, hp⟩ := hu'
        exact ⟨t, _, hnewget, stepThread_newPend hT n l (by omega) hl (by rw [hp]; rfl)⟩

theorem act_invP {s : Sys} (hI : InvP s) (a : Action) : InvP (s.act a) := by
  cases a with
  | start t op => exact start_invP hI t op
  | step t => exact step_invP hI t

theorem run_invP {s : Sys} (hI : InvP s) (as : List Action) : InvP (s.run as) := by
  induction as generalizing s with
  | nil => exact hI
  | cons a r ih => exact ih (act_invP hI a)

end NitroVerif.SkipConc
