import NitroVerif.Gen.Shapes
/-!
  Pinned control shapes, area SkipConc: the functions of /repo the models of this area mirror have, today, exactly
  these shapes (tools/gofacts/shapes.go).  `Gen/Shapes.lean` is regenerated from the working tree on every run; a change
  of an operator, bound, call, early return or loop in one of these functions breaks the lemma named after it.
  Expectations are maintained by hand (bootstrap: `go run . -shape-lemmas SkipConc`).
-/
namespace NitroVerif.ShapeTie.SkipConc
open NitroVerif.Gen.Shape

/-- skiplist/skiplist.go `*Skiplist.Lookup` -/
theorem shape_Lookup_ok : SkipConc_Lookup =
    ["findPath", "return()"] := rfl

/-- skiplist/skiplist.go `*Skiplist.findPath` -/
theorem shape_findPath_ok : SkipConc_findPath =
    ["label retry", "LoadInt32", "for(>= 0)", "--", "getNext", "label levelSearch", "for()", "getNext", "for()", "if(!)", "helpDelete", "AddUint64", "goto retry", "getNext", "getNext", "compare", "Item", "if-else(< 0)", "break levelSearch", "if(== 0)", "return()"] := rfl

/-- skiplist/skiplist.go `*Skiplist.Insert` -/
theorem shape_Insert_ok : SkipConc_Insert =
    ["Insert2", "return()"] := rfl

/-- skiplist/skiplist.go `*Skiplist.Insert2` -/
theorem shape_Insert2_ok : SkipConc_Insert2 =
    ["NewLevel", "return(_)", "Insert3"] := rfl

/-- skiplist/skiplist.go `*Skiplist.Insert3` -/
theorem shape_Insert3_ok : SkipConc_Insert3 =
    ["Acquire", "defer", "Release", "newNode", "return(_)", "Insert4"] := rfl

/-- skiplist/skiplist.go `*Skiplist.Insert4` -/
theorem shape_Insert4_ok : SkipConc_Insert4 =
    ["Item", "label retry", "if-else()", "if(== nil)", "findPath", "if(!= nil && == 0)", "compare", "Item", "if(!= nil)", "if()", "freeNode", "return(_,false)", "for(<=)", "++", "setNext", "if(! 0 false false)", "dcasNext", "AddUint64", "goto retry", "for(<=)", "++", "label fixThisLevel", "for()", "getNext", "if(|| != && ! false false)", "dcasNext", "goto finished", "if()", "getNext", "findPath", "continue fixThisLevel", "if(false false)", "dcasNext", "if()", "getNext", "findPath", "goto finished", "break fixThisLevel", "findPath", "label finished", "AddInt64", "AddInt64", "AddInt64", "Size", "return(_,true)"] := rfl

/-- skiplist/skiplist.go `*Skiplist.softDelete` -/
theorem shape_softDelete_ok : SkipConc_softDelete =
    ["Level", "for(>= 0)", "--", "getNext", "for(!)", "if(false true && == 0)", "dcasNext", "AddInt64", "getNext", "return(_)"] := rfl

/-- skiplist/skiplist.go `*Skiplist.Delete` -/
theorem shape_Delete_ok : SkipConc_Delete =
    ["Acquire", "defer", "Release", "findPath", "if(!)", "return(false)", "return(_)", "deleteNode"] := rfl

/-- skiplist/skiplist.go `*Skiplist.DeleteNode` -/
theorem shape_DeleteNode_ok : SkipConc_DeleteNode =
    ["Acquire", "defer", "Release", "return(_)", "DeleteNode2"] := rfl

/-- skiplist/skiplist.go `*Skiplist.DeleteNode2` -/
theorem shape_DeleteNode2_ok : SkipConc_DeleteNode2 =
    ["return(_)", "deleteNode"] := rfl

/-- skiplist/skiplist.go `*Skiplist.deleteNode` -/
theorem shape_deleteNodeInner_ok : SkipConc_deleteNodeInner =
    ["Item", "if()", "softDelete", "findPath", "return(true)", "return(false)"] := rfl

/-- skiplist/skiplist.go `*Skiplist.helpDelete` -/
theorem shape_helpDelete_ok : SkipConc_helpDelete =
    ["dcasNext", "if(&& == 0)", "AddInt64", "AddInt64", "Level", "AddInt64", "Size", "return(_)"] := rfl

/-- skiplist/skiplist.go `*Skiplist.NewLevel` -/
theorem shape_NewLevelC_ok : SkipConc_NewLevelC =
    ["for(<)", "randFn", "++", "if(>)", "LoadInt32", "if(>)", "if-else(+ 1)", "CompareAndSwapInt32", "return(_)"] := rfl

/-- skiplist/iterator.go `*Skiplist.NewIterator2` -/
theorem shape_NewIterator2_ok : SkipConc_NewIterator2 =
    ["return(_)"] := rfl

/-- skiplist/iterator.go `*Iterator.SeekFirst` -/
theorem shape_SkipIterSeekFirst_ok : SkipConc_SkipIterSeekFirst =
    ["getNext"] := rfl

/-- skiplist/iterator.go `*Iterator.SeekWithCmp` -/
theorem shape_SkipIterSeekWithCmp_ok : SkipConc_SkipIterSeekWithCmp =
    ["if-else()", "findPath", "if()", "compare", "Item", "return(_)"] := rfl

/-- skiplist/iterator.go `*Iterator.Seek` -/
theorem shape_SkipIterSeek_ok : SkipConc_SkipIterSeek =
    ["findPath", "return(_)"] := rfl

/-- skiplist/iterator.go `*Iterator.Valid` -/
theorem shape_SkipIterValid_ok : SkipConc_SkipIterValid =
    ["if(&& ==)", "return(_)"] := rfl

/-- skiplist/iterator.go `*Iterator.Next` -/
theorem shape_SkipIterNext_ok : SkipConc_SkipIterNext =
    ["if()", "return()", "label retry", "getNext", "if-else()", "if-else(0)", "helpDelete", "AddUint64", "findPath", "Item", "if(&& ==)", "goto retry", "++", "if(% == 0)", "Refresh"] := rfl

/-- skiplist/iterator.go `*Iterator.Refresh` -/
theorem shape_SkipIterRefresh_ok : SkipConc_SkipIterRefresh =
    ["if()", "Valid", "Get", "Acquire", "Seek", "Release"] := rfl

/-- skiplist/iterator.go `*Iterator.Close` -/
theorem shape_SkipIterClose_ok : SkipConc_SkipIterClose =
    ["if(!= nil)", "Release"] := rfl

theorem shape_SkipIterPause_ok : SkipConc_SkipIterPause =
    ["if(!= nil)", "Release"] := rfl

theorem shape_SkipIterResume_ok : SkipConc_SkipIterResume =
    ["Acquire"] := rfl

theorem shape_SkipIterSetRefreshInterval_ok : SkipConc_SkipIterSetRefreshInterval =
    [] := rfl

/-- skiplist/node_amd64.go `*Node.setNext` -/
theorem shape_setNext_ok : SkipConc_setNext =
    ["if(== 0)"] := rfl

/-- skiplist/node_amd64.go `*Node.getNext` -/
theorem shape_getNext_ok : SkipConc_getNext =
    ["LoadUint64", "return(_,_)"] := rfl

/-- skiplist/node_amd64.go `*Node.dcasNext` -/
theorem shape_dcasNext_ok : SkipConc_dcasNext =
    ["if()", "CompareAndSwapUint64", "if()", "CompareAndSwapPointer", "return(_)"] := rfl

/-- skiplist/item.go `.compare` -/
theorem shape_itemCompare_ok : SkipConc_itemCompare =
    ["if(== || ==)", "return(_)", "if(== || ==)", "return(1)", "return(_)", "cmp"] := rfl

/-- skiplist/skiplist.go `.NewWithConfig` -/
theorem shape_SkiplistNewWithConfig_ok : SkipConc_SkiplistNewWithConfig =
    ["if(!= && !=)", "newAccessBarrier", "if-else()", "return(_)", "allocNode", "if()", "debugMarkFree", "Free", "return(_)", "allocNode", "newNode", "newNode", "for(<=)", "++", "setNext", "setNext", "return(_)"] := rfl

/-- skiplist/skiplist.go `*Skiplist.NewNode` -/
theorem shape_NewNode_ok : SkipConc_NewNode =
    ["return(_)", "newNode"] := rfl

/-- skiplist/skiplist.go `*Skiplist.FreeNode` -/
theorem shape_FreeNode_ok : SkipConc_FreeNode =
    ["freeNode", "AddInt64"] := rfl

/-- skiplist/skiplist.go `*Skiplist.MakeBuf` -/
theorem shape_MakeBuf_ok : SkipConc_MakeBuf =
    ["return(_)"] := rfl

/-- skiplist/node_alloc_amd64.go `.allocNode` -/
theorem shape_allocNode_ok : SkipConc_allocNode =
    ["if-else(== nil)", "New", "malloc", "Size", "return(_)"] := rfl

/-- skiplist/node_amd64.go `*Node.SetLink` -/
theorem shape_SetLink_ok : SkipConc_SetLink =
    [] := rfl

/-- skiplist/node_amd64.go `*Node.GetLink` -/
theorem shape_GetLink_ok : SkipConc_GetLink =
    ["return(_)"] := rfl

/-- skiplist/node_amd64.go `*Node.GetNext` -/
theorem shape_NodeGetNext_ok : SkipConc_NodeGetNext =
    ["for()", "getNext", "getNext", "return(_)"] := rfl

/-- skiplist/node_amd64.go `Node.Size` -/
theorem shape_NodeSize_ok : SkipConc_NodeSize =
    ["return(_)"] := rfl

/-- skiplist/node_amd64.go `Node.Level` -/
theorem shape_NodeLevel_ok : SkipConc_NodeLevel =
    ["return(_)"] := rfl

/-- skiplist/stats.go `*Skiplist.GetStats` -/
theorem shape_GetStats_ok : SkipConc_GetStats =
    ["Apply", "return(_)"] := rfl

/-- skiplist/stats.go `*Skiplist.MemoryInUse` -/
theorem shape_SkiplistMemoryInUse_ok : SkipConc_SkiplistMemoryInUse =
    ["return(_)", "LoadInt64"] := rfl

end NitroVerif.ShapeTie.SkipConc
