/-
  Small facts about the bookkeeping functions of the small-step M6 model: thread table, iterator
  table, writers, snapshots.
-/
import NitroVerif.Lemmas.MvccConcOwn

namespace NitroVerif.MvccConc
open NitroVerif

/-! ### the thread table -/

theorem get_set_self {α : Type} {l : List α} {t : Nat} {a b : α} (h : l[t]? = some a) : (l.set t b)[t]? = some b := by
  have : t < l.length := by
    cases hl : l[t]? with
    | none => rw [hl] at h; cases h
    | some _ => exact (List.getElem?_eq_some_iff.mp hl).1
  simp [List.getElem?_set, this]

theorem get_set_ne {α : Type} {l : List α} {t t' : Nat} (b : α) (h : t ≠ t') : (l.set t b)[t']? = l[t']? := by
  simp [List.getElem?_set, h]

theorem get_set_cases {α : Type} {l : List α} {t t' : Nat} {b c : α} (h : (l.set t b)[t']? = some c) :
    (t = t' ∧ c = b) ∨ (t ≠ t' ∧ l[t']? = some c) := by
  by_cases he : t = t'
  · subst he
    rw [List.getElem?_set] at h
    simp at h
    exact Or.inl ⟨rfl, h.2.symm⟩
  · rw [get_set_ne b he] at h
    exact Or.inr ⟨he, h⟩

theorem mem_set_cases {α : Type} {l : List α} {t : Nat} {b c : α} (h : c ∈ l.set t b) : c = b ∨ c ∈ l := by
  rcases List.mem_or_eq_of_mem_set h with h | h
  · exact Or.inr h
  · exact Or.inl h

theorem mem_set_of_ne {α : Type} {l : List α} {t t' : Nat} {b c : α} (h : l[t']? = some c) (hne : t ≠ t') :
    c ∈ l.set t b := by
  have : (l.set t b)[t']? = some c := by rw [get_set_ne b hne]; exact h
  exact List.mem_of_getElem? this

theorem mem_iff_get {α : Type} {l : List α} {c : α} : c ∈ l ↔ ∃ t : Nat, l[t]? = some c := List.mem_iff_getElem?

/-- a thread table update that does not park a Put reserves nothing new -/
theorem reserved_set_of_not_put {threads : List Pc} {t : Nat} {pc : Pc}
    (hpc : ∀ n k v b, pc ≠ Pc.putInsert n k v b) {n : Nat} (h : reserved (threads.set t pc) n) :
    reserved threads n := by
  obtain ⟨k, v, b, hm⟩ := h
  rcases mem_set_cases hm with h | h
  · exact absurd h.symm (hpc n k v b)
  · exact ⟨k, v, b, h⟩

theorem reserved_set_put {threads : List Pc} {t m k0 v0 b0 : Nat} {n : Nat}
    (h : reserved (threads.set t (Pc.putInsert m k0 v0 b0)) n) : reserved threads n ∨ n = m := by
  obtain ⟨k, v, b, hm⟩ := h
  rcases mem_set_cases hm with h | h
  · injection h with h1; exact Or.inr h1
  · exact Or.inl ⟨k, v, b, h⟩

/-- the Put that leaves PUT_INSERT was the only one holding its item -/
theorem not_reserved_after_put {threads : List Pc} {t n k v b : Nat} (ht : threads[t]? = some (Pc.putInsert n k v b))
    (hle : (thrOwned threads).count n ≤ 1) (pc : Pc) (hpc : ∀ n k v b, pc ≠ Pc.putInsert n k v b) :
    ¬ reserved (threads.set t pc) n := by
  rintro ⟨k', v', b', hm⟩
  rcases mem_set_cases hm with h | h
  · exact hpc n k' v' b' h.symm
  · obtain ⟨t', ht'⟩ := mem_iff_get.mp hm
    rcases get_set_cases ht' with ⟨_, he⟩ | ⟨hne, hg⟩
    · exact hpc n k' v' b' he.symm
    · have := count_flatMap_two pcOwn n threads t t' _ _ hne ht hg (by simp [pcOwn]) (by simp [pcOwn])
      unfold thrOwned at hle; omega

theorem length_set' {α : Type} (l : List α) (t : Nat) (a : α) : (l.set t a).length = l.length := List.length_set

/-! ### writers -/

theorem updWriter_length (w : Nat) (f : Writer → Writer) (l : List Writer) : (updWriter w f l).length = l.length := by
  unfold updWriter; split <;> simp

theorem sum_updWriter {w : Nat} {f : Writer → Writer} (d : Int) (hf : ∀ x, (f x).count = x.count + d)
    {l : List Writer} (hw : w < l.length) :
    ((updWriter w f l).map (·.count)).sum = (l.map (·.count)).sum + d := by
  unfold updWriter
  rw [List.getElem?_eq_getElem hw]
  simp only
  have := sum_map_set (fun (x : Writer) => x.count) l w l[w] (f l[w]) (List.getElem?_eq_getElem hw)
  simp only [hf] at this
  omega

theorem garbW_updWriter_same {w : Nat} {f : Writer → Writer} (hf : ∀ x, (f x).gc = x.gc) (l : List Writer) :
    garbW (updWriter w f l) = garbW l := by
  unfold updWriter garbW
  split
  · rename_i x hx
    have h1 := modify_eq_set f l w x hx
    rw [← h1]
    exact flatMap_modify_same (fun (y : Writer) => y.gc) f hf l w
  · rfl

theorem garbW_updWriter_app {w : Nat} {f : Writer → Writer} {g0 : Nat} (hf : ∀ x, (f x).gc = x.gc ++ [g0])
    {l : List Writer} (hw : w < l.length) (n : Nat) :
    (garbW (updWriter w f l)).count n = (garbW l).count n + (if g0 = n then 1 else 0) := by
  unfold updWriter garbW
  rw [List.getElem?_eq_getElem hw]
  simp only
  have := count_flatMap_set (fun (y : Writer) => y.gc) n l w l[w] (f l[w]) (List.getElem?_eq_getElem hw)
  simp only [hf, List.count_append, List.count_cons, List.count_nil] at this
  split <;> simp_all <;> omega

/-! ### snapshots -/

theorem findSnap_some {snaps : List Snap} {s : Nat} {x : Snap} (h : findSnap s snaps = some x) :
    x ∈ snaps ∧ x.sn = s := by
  unfold findSnap at h
  have := List.find?_some h
  simp at this
  exact ⟨List.mem_of_find?_eq_some h, this⟩

theorem mem_updSnap {snaps : List Snap} {s : Nat} {f : Snap → Snap} {y : Snap}
    (h : y ∈ updSnap s f snaps) : ∃ x ∈ snaps, y = if x.sn = s then f x else x := by
  unfold updSnap at h
  obtain ⟨x, hx, rfl⟩ := List.mem_map.mp h
  exact ⟨x, hx, rfl⟩

theorem updSnap_pairwise {snaps : List Snap} (h : snaps.Pairwise (fun a b => a.sn < b.sn)) (s : Nat)
    (f : Snap → Snap) (hf : ∀ x, (f x).sn = x.sn) :
    (updSnap s f snaps).Pairwise (fun a b => a.sn < b.sn) := by
  unfold updSnap
  apply List.Pairwise.map _ _ h
  intro a b hab
  split <;> split <;> simp [hf, hab]

theorem updSnap_sn_lt {snaps : List Snap} {cur : Nat} (h : ∀ s ∈ snaps, s.sn < cur) (s : Nat)
    (f : Snap → Snap) (hf : ∀ x, (f x).sn = x.sn) : ∀ y ∈ updSnap s f snaps, y.sn < cur := by
  intro y hy
  obtain ⟨x, hx, rfl⟩ := mem_updSnap hy
  split
  · rw [hf]; exact h x hx
  · exact h x hx

/-- an update that keeps `sn`, `st` and `gclist` leaves the garbage of the snapshots alone -/
theorem garbS_updSnap_same (s : Nat) (f : Snap → Snap) (hf : ∀ x, snapGarb (f x) = snapGarb x) (snaps : List Snap) :
    garbS (updSnap s f snaps) = garbS snaps := by
  unfold garbS updSnap
  induction snaps with
  | nil => rfl
  | cons x xs ih =>
    simp only [List.map_cons, List.flatMap_cons, ih]
    split
    · rw [hf]
    · rfl

theorem mem_updSnap_of_mem {snaps : List Snap} {s : Nat} {f : Snap → Snap} {x : Snap} (hx : x ∈ snaps) :
    (if x.sn = s then f x else x) ∈ updSnap s f snaps := by
  unfold updSnap
  exact List.mem_map.mpr ⟨x, hx, rfl⟩

/-! ### the iterator table -/

theorem findIter_some {k : Nat × Nat} {l : List ((Nat × Nat) × Iter)} {it : Iter} (h : findIter k l = some it) :
    (k, it) ∈ l := by
  unfold findIter at h
  cases hf : l.find? (fun p => p.1 == k) with
  | none => rw [hf] at h; simp at h
  | some p =>
    rw [hf] at h; simp at h
    have h1 := List.find?_some hf
    have h2 := List.mem_of_find?_eq_some hf
    simp at h1
    cases p with
    | mk a b => simp at h1 h; subst h1; subst h; exact h2

theorem findIter_none {k : Nat × Nat} {l : List ((Nat × Nat) × Iter)} (h : findIter k l = none) :
    ∀ it, (k, it) ∉ l := by
  intro it hm
  unfold findIter at h
  cases hf : l.find? (fun p => p.1 == k) with
  | none =>
    have := List.find?_eq_none.mp hf (k, it) hm
    simp at this
  | some p => rw [hf] at h; simp at h

theorem mem_eraseIter {k : Nat × Nat} {l : List ((Nat × Nat) × Iter)} {p : (Nat × Nat) × Iter} :
    p ∈ eraseIter k l ↔ p ∈ l ∧ p.1 ≠ k := by
  unfold eraseIter; simp

theorem mem_setIter {k : Nat × Nat} {it : Iter} {l : List ((Nat × Nat) × Iter)} {p : (Nat × Nat) × Iter} :
    p ∈ setIter k it l ↔ (p ∈ l ∧ p.1 ≠ k) ∨ p = (k, it) := by
  unfold setIter
  rw [List.mem_append, mem_eraseIter]
  simp

theorem eraseIter_pairwise {k : Nat × Nat} {l : List ((Nat × Nat) × Iter)} (h : l.Pairwise (fun a b => a.1 ≠ b.1)) :
    (eraseIter k l).Pairwise (fun a b => a.1 ≠ b.1) := by
  unfold eraseIter; exact List.Pairwise.filter _ h

theorem setIter_pairwise {k : Nat × Nat} {it : Iter} {l : List ((Nat × Nat) × Iter)}
    (h : l.Pairwise (fun a b => a.1 ≠ b.1)) : (setIter k it l).Pairwise (fun a b => a.1 ≠ b.1) := by
  unfold setIter
  rw [List.pairwise_append]
  refine ⟨eraseIter_pairwise h, by simp, ?_⟩
  intro a ha b hb
  simp at hb; subst hb
  exact (mem_eraseIter.mp ha).2

/-- keys are unique: a key names one iterator -/
theorem iter_unique {l : List ((Nat × Nat) × Iter)} (h : l.Pairwise (fun a b => a.1 ≠ b.1)) {k : Nat × Nat}
    {a b : Iter} (ha : (k, a) ∈ l) (hb : (k, b) ∈ l) : a = b := by
  rcases Mvcc.pairwise_mem_trichotomy h ha hb with h | h | h
  · injection h
  · exact absurd rfl h
  · exact absurd rfl h

end NitroVerif.MvccConc
