import NitroVerif.Lemmas.SkipSeqDelete
/-!
  Operation-level statements, continued: `DeleteNode`, `Delete`, `Lookup`, `Seek`, the full scan.
-/
namespace NitroVerif.SkipSeq
open NitroVerif

theorem Rep.unmarked {s : SL} {L0 : List Nat} (hr : Rep s L0) {n l : Nat} (hn : n ∈ L0)
    (hl : l ≤ levelOf s.nodes n) : (getNext s.nodes n l).2 = false := by
  have hlm : l ≤ Gen.maxLevel := by have := (hr.nodes n hn).lvl; have := hr.lvl; omega
  have hp := hr.paths l hlm
  have hm : n ∈ headId :: LL s.nodes L0 l := List.mem_cons_of_mem _ (mem_LL.mpr ⟨hn, hl⟩)
  have := path_mem_flag (headId :: LL s.nodes L0 l) (by simpa using hp) _ hm
  simpa [nomk] using this

theorem Rep.head_unmarked {s : SL} {L0 : List Nat} (hr : Rep s L0) {l : Nat} (hl : l ≤ Gen.maxLevel) :
    (getNext s.nodes headId l).2 = false := by
  have hp := hr.paths l hl
  have := path_mem_flag (headId :: LL s.nodes L0 l) (by simpa using hp) headId (by simp)
  simpa [nomk] using this

/-- `deleteNode` of a live node -/
theorem deleteNode_live {s : SL} {A B : List Nat} {d : Nat} (hr : Rep s (A ++ d :: B)) :
    ∃ s', deleteNode s d = (s', true) ∧ Rep s' (A ++ B) ∧ Dead s'.nodes d ∧ Ext s s' (A ++ d :: B) ∧
      s'.nodes.length = s.nodes.length ∧ s'.stats.nodeAllocs = s.stats.nodeAllocs := by
  have hdm : d ∈ A ++ d :: B := by simp
  have hd := hr.nodes d hdm
  rcases softDelete_live (s := s) (d := d) (fun l hl => hr.unmarked hdm hl) (by rw [hd.len]; omega)
    with ⟨s1, hs1, hmark, e1, e2, e3, e4⟩
  have hik1 : ∀ m, ikey s1.nodes m = ikey s.nodes m := fun m => ikey_congr (hmark.key m)
  have hd3 : 3 ≤ d := hd.lo
  have hctx : DelCtx s1 A B d := by
    refine ⟨⟨?_, ?_, ?_, ?_, ?_⟩, by rw [e1]; exact hr.lvl, ?_, ?_, ?_⟩
    · rw [hmark.len]; exact hr.base.len
    · rw [hmark.key]; exact hr.base.headKey
    · rw [hmark.key]; exact hr.base.tailKey
    · rw [hmark.nlen]; exact hr.base.headLen
    · intro l
      rw [hmark.links]
      have : ¬ (tailId = d ∧ 0 ≤ l ∧ l ≤ levelOf s.nodes d) := by
        intro h; rw [← h.1] at hd3; simp [tailId] at hd3
      rw [if_neg this]; exact hr.base.tailFlag l
    · intro n hn
      have ho := hr.nodes n hn
      exact ⟨ho.lo, by rw [hmark.len]; exact ho.hi, by rw [hmark.key, hik1]; exact ho.key,
        by rw [hmark.lvl, e1]; exact ho.lvl, by rw [hmark.nlen, hmark.lvl]; exact ho.len⟩
    · apply List.Pairwise.imp _ hr.sorted
      intro a b hab; rw [hik1, hik1]; exact hab
    · intro l hl
      rw [LL_congr l (fun n _ => hmark.lvl n)]
      apply path_reflag _ _ (hr.paths l hl)
      intro a ha
      rw [hmark.links]
      by_cases had : a = d
      · subst had
        have hal : l ≤ levelOf s.nodes a := by
          simp only [List.cons_append, List.mem_cons, List.mem_append, List.not_mem_nil, or_false] at ha
          rcases ha with e | e | e
          · rw [e] at hd3; simp [headId] at hd3
          · exact (mem_LL.mp e).2
          · rw [e] at hd3; simp [tailId] at hd3
        rw [if_pos ⟨rfl, Nat.zero_le _, hal⟩, mkd_self]
      · rw [if_neg (fun h => had h.1), mkd_ne had]
        have : (getNext s.nodes a l).2 = false := by
          simp only [List.cons_append, List.mem_cons, List.mem_append, List.not_mem_nil, or_false] at ha
          rcases ha with e | e | e
          · rw [e]; exact hr.head_unmarked hl
          · exact hr.unmarked (mem_LL.mp e).1 (mem_LL.mp e).2
          · rw [e]; exact hr.base.tailFlag l
        exact Prod.ext rfl this
  -- the search that unlinks
  have htop : predAt s1.nodes A (s1.level + 1) = headId := by
    unfold predAt
    rw [LL_eq_nil]
    · rfl
    · intro n hn
      have := (hctx.nodes n (List.mem_append_left _ hn)).lvl
      omega
  have hdl1 : levelOf s1.nodes d < s1.level + 1 := by
    have := (hctx.nodes d hdm).lvl; omega
  have hfuel : (s1.level + 1) * (A.length + 3) ≤ findFuel s1 := by
    unfold findFuel
    apply Nat.mul_le_mul_left
    have := hr.size
    rw [hmark.len]
    simp at this
    omega
  rcases findLoop_delete hctx s1.level s1 (findFuel s1) (UnlinkInv.start _ _ _ _ _ hdl1) hctx.lvl hfuel
    with ⟨s', cv, he, hinv, f1, f2, f3, f4, f5⟩
  rw [htop] at he
  have hkd : keyOf s.nodes d = .item (ikey s1.nodes d) := by rw [hik1]; exact hd.key
  have hres : deleteNode s d = (s', true) := by
    unfold deleteNode
    rw [hs1]
    simp only [if_true]
    unfold findPath
    rw [hkd, he]
  have hlvd : levelOf s1.nodes d = levelOf s.nodes d := hmark.lvl d
  refine ⟨s', hres, ?_, ?_, ?_, by rw [hinv.len, hmark.len], ?_⟩
  · apply rep_after_unlink hctx hinv f1 (by rw [f3, e2]; exact hr.bufP) (by rw [f4, e2]; exact hr.bufS)
      (by rw [f2, e3]; exact hr.live) (by rw [e4]; exact hr.stats.len)
    · intro g hg
      rw [e4, cntLevel_congr g (fun n _ => hmark.lvl n)]
      exact hr.stats.dist g hg
    · rw [f5]; simp [delStats, e4]
    · rw [f5]; simp [delStats, e4, hr.stats.soft]
    · rw [f5]; simp [delStats, e4, hr.stats.frees]
    · have := hr.size; rw [hmark.len]; simp at this ⊢; omega
  · intro l hl
    rw [hinv.lvl, hlvd] at hl
    rw [hinv.links]
    have : ¬ (0 ≤ l ∧ l ≤ levelOf s1.nodes d ∧ d = predAt s1.nodes A l) :=
      fun h => hctx.pred_ne_d l h.2.2.symm
    rw [if_neg this, hmark.links, if_pos ⟨rfl, Nat.zero_le _, hl⟩]
  · refine ⟨by rw [hinv.len, hmark.len]; exact Nat.le_refl _, fun n _ => by rw [hinv.key, hmark.key],
      fun n _ => by rw [hinv.lvl, hmark.lvl], ?_⟩
    intro n _ hnot hh l
    rw [hinv.links]
    have h1 : ¬ (0 ≤ l ∧ l ≤ levelOf s1.nodes d ∧ n = predAt s1.nodes A l) := by
      intro h
      rcases predAt_mem s1.nodes A l with h2 | ⟨h2, _⟩
      · exact hh (h.2.2.trans h2)
      · exact hnot (by rw [h.2.2]; exact List.mem_append_left _ h2)
    have h2 : ¬ (n = d ∧ 0 ≤ l ∧ l ≤ levelOf s.nodes d) := fun h => hnot (h.1 ▸ hdm)
    rw [if_neg h1, hmark.links, if_neg h2]
  · rw [f5]; simp [delStats, e4]

/-- `deleteNode` of a node that was deleted before -/
theorem deleteNode_dead {s : SL} {d : Nat} (hd : Dead s.nodes d) : deleteNode s d = (s, false) := by
  unfold deleteNode
  rw [softDelete_dead hd]
  simp

theorem Ext.of_nodes_eq {s0 s s' : SL} {L0 : List Nat} (h : s.nodes = s0.nodes) (he : Ext s s' L0) :
    Ext s0 s' L0 := by
  rcases he with ⟨a, b, c, d⟩
  rw [h] at a b c d
  exact ⟨a, b, c, d⟩

theorem delete_spec {s : SL} {L0 : List Nat} (hr : Rep s L0) (k : Int) :
    ∃ s' ok, delete s (.item k) = (s', ok) ∧ Ext s s' L0 ∧ s'.nodes.length = s.nodes.length ∧
      s'.stats.nodeAllocs = s.stats.nodeAllocs ∧
      (k ∈ L0.map (ikey s.nodes) → ok = true ∧ ∃ A d B, L0 = A ++ d :: B ∧ ikey s.nodes d = k ∧
          Rep s' (A ++ B) ∧ Dead s'.nodes d) ∧
      (k ∉ L0.map (ikey s.nodes) → ok = false ∧ Rep s' L0) := by
  rcases hr.split k with ⟨A, B, hAB, hA, hB⟩
  rcases findPath_quiescent hr hAB hA hB with ⟨s3, he, hsb, hbuf⟩
  subst hAB
  by_cases hk : k ∈ (A ++ B).map (ikey s.nodes)
  · have hc := (hr.hit_iff hA hB).mpr hk
    have hne := hr.succ_ne_nil hB hc
    rcases hr.hit_head hB hc with ⟨B', hB', hkd, _⟩
    rw [if_pos hc] at he
    have hs0 : s3.buf.succs.getD 0 0 = succAt s.nodes B 0 := (hbuf 0 (Nat.zero_le _)).2
    have hr3 : Rep s3 (A ++ succAt s.nodes B 0 :: B') := by rw [← hB']; exact hr.of_sameBut hsb
    rcases deleteNode_live hr3 with ⟨s', hd, hrep, hdead, hext, hlen, hal⟩
    refine ⟨s', true, ?_, ?_, by rw [hlen, hsb.nodes], by rw [hal, hsb.stats], fun _ => ?_, fun h => absurd hk h⟩
    · unfold delete
      rw [he]
      simp only [bne_iff_ne, ne_eq, hne, not_false_eq_true, if_true, hs0]
      exact hd
    · have := Ext.of_nodes_eq hsb.nodes hext
      rw [← hB'] at this; exact this
    · refine ⟨rfl, A, succAt s.nodes B 0, B', ?_, hkd, hrep, hdead⟩
      rw [← hB']
  · have hc : ¬ compare (keyOf s.nodes (succAt s.nodes B 0)) (.item k) = 0 := fun h => hk ((hr.hit_iff hA hB).mp h)
    rw [if_neg hc] at he
    refine ⟨s3, false, ?_, Ext.of_sameBut _ hsb, by rw [hsb.nodes], by rw [hsb.stats], fun h => absurd h hk,
      fun _ => ⟨rfl, hr.of_sameBut hsb⟩⟩
    unfold delete
    rw [he]
    simp

theorem lookup_spec {s : SL} {L0 : List Nat} (hr : Rep s L0) (k : Int) :
    ∃ s', lookup s (.item k) = (s', decide (k ∈ L0.map (ikey s.nodes))) ∧ SameBut s s' ∧
      (k ∈ L0.map (ikey s.nodes) → s'.buf.succs.getD 0 0 ∈ L0 ∧ ikey s.nodes (s'.buf.succs.getD 0 0) = k) := by
  rcases hr.split k with ⟨A, B, hAB, hA, hB⟩
  rcases findPath_quiescent hr hAB hA hB with ⟨s3, he, hsb, hbuf⟩
  subst hAB
  have hs0 : s3.buf.succs.getD 0 0 = succAt s.nodes B 0 := (hbuf 0 (Nat.zero_le _)).2
  refine ⟨s3, ?_, hsb, ?_⟩
  · unfold lookup
    rw [he]
    by_cases hc : compare (keyOf s.nodes (succAt s.nodes B 0)) (.item k) = 0
    · have hk := (hr.hit_iff hA hB).mp hc
      have hne := hr.succ_ne_nil hB hc
      rw [if_pos hc, decide_eq_true hk]
      simp [hne]
    · have hk : k ∉ (A ++ B).map (ikey s.nodes) := fun h => hc ((hr.hit_iff hA hB).mpr h)
      rw [if_neg hc, decide_eq_false hk]
      simp
  · intro hk
    have hc := (hr.hit_iff hA hB).mpr hk
    rcases hr.hit_head hB hc with ⟨B', hB', hkd, _⟩
    rw [hs0]
    refine ⟨?_, hkd⟩
    have hm : succAt s.nodes B 0 ∈ succAt s.nodes B 0 :: B' := by simp
    rw [← hB'] at hm
    exact List.mem_append_right _ hm

end NitroVerif.SkipSeq
