import NitroVerif.Lemmas.SkipSeqSim
/-!
  One operation of engine `skipseq` against one step of the specification machine.
-/
namespace NitroVerif.SkipSeq
open NitroVerif NitroVerif.OrdSet

/-- 1 for a successful insert, 0 otherwise -/
def insOk : Op → Out → Nat
  | .ins _ _, .bool true => 1
  | _, _ => 0

theorem keys_ext {s s' : SL} {L0 : List Nat} (hr : Rep s L0) (he : Ext s s' L0) :
    L0.map (ikey s'.nodes) = L0.map (ikey s.nodes) := by
  apply List.map_congr_left
  intro n hn
  exact ikey_congr (he.key n (hr.nodes n hn).hi)

theorem sim_same {st : St} {sp : SpecSt} {L0 : List Nat} {s' : SL} (h : Sim st sp L0) (hsb : SameBut st.sl s') :
    Sim { st with sl := s' } sp L0 := by
  have he := Ext.of_sameBut L0 hsb
  refine ⟨h.rep.of_sameBut hsb, ?_, ?_⟩
  · simp only; rw [hsb.nodes]; exact h.keys
  · exact HRel.imp (fun n k l hok => hok.ext he hok.isLive (fun hl => (hok.isDead hl).1)) h.handles

theorem step_sim {st : St} {sp : SpecSt} {L0 : List Nat} (h : Sim st sp L0) (op : Op) :
    (step st op).2 = (specStep sp op).2 ∧ (∃ L0', Sim (step st op).1 (specStep sp op).1 L0') ∧
    (step st op).1.sl.stats.nodeAllocs = st.sl.stats.nodeAllocs + insOk op (step st op).2 := by
  have hr := h.rep
  cases op with
  | ins k lvl =>
    rcases insert2_spec hr k lvl with ⟨s', d, ok, he, hext, hlen, hhit, hmiss⟩
    have hstep : step st (.ins k lvl) = ({ st with sl := s' }, .bool ok) := by simp [step, he]
    have hmem : member k sp.set = decide (k ∈ L0.map (ikey st.sl.nodes)) := by
      rw [member_eq_decide, h.keys]
    rw [hstep]
    by_cases hk : k ∈ L0.map (ikey st.sl.nodes)
    · rcases hhit hk with ⟨rfl, hrep, hal⟩
      have hspec : specStep sp (.ins k lvl) = (sp, .bool false) := by
        simp [specStep, hmem, hk]
      rw [hspec]
      refine ⟨rfl, ⟨L0, hrep, ?_, ?_⟩, ?_⟩
      · simp only; rw [keys_ext hr hext]; exact h.keys
      · exact HRel.imp (fun n k l hok => hok.ext hext hok.isLive (fun hl => (hok.isDead hl).1)) h.handles
      · simp [insOk, hal]
    · rcases hmiss hk with ⟨rfl, hd, hkey, hal, A, B, hAB, hA, hB, hrep⟩
      have hspec : specStep sp (.ins k lvl) = ({ sp with set := OrdSet.insert k sp.set }, .bool true) := by
        simp [specStep, hmem, hk]
      rw [hspec]
      refine ⟨rfl, ⟨A ++ d :: B, hrep, ?_, ?_⟩, ?_⟩
      · simp only
        rw [h.keys, hAB, List.map_append, insert_split k _ _
          (fun a ha => by rcases List.mem_map.mp ha with ⟨x, hx, rfl⟩; exact hA x hx)
          (fun b hb => by rcases List.mem_map.mp hb with ⟨x, hx, rfl⟩; exact hB x hx)]
        rw [List.map_append, List.map_cons, ikey_of_keyOf hkey]
        have hAm : ∀ a ∈ A, a ∈ L0 := fun a ha => by rw [hAB]; exact List.mem_append_left _ ha
        have hBm : ∀ b ∈ B, b ∈ L0 := fun b hb => by rw [hAB]; exact List.mem_append_right _ hb
        have e1 : A.map (ikey s'.nodes) = A.map (ikey st.sl.nodes) :=
          List.map_congr_left (fun a ha => ikey_congr (hext.key a (hr.nodes a (hAm a ha)).hi))
        have e2 : B.map (ikey s'.nodes) = B.map (ikey st.sl.nodes) :=
          List.map_congr_left (fun b hb => ikey_congr (hext.key b (hr.nodes b (hBm b hb)).hi))
        rw [e1, e2]
      · apply HRel.imp _ h.handles
        intro n k' l hok
        apply hok.ext hext
        · intro hl
          have := hok.isLive hl
          rw [hAB] at this
          simp only [List.mem_append, List.mem_cons] at this ⊢
          rcases this with h1 | h1
          · exact Or.inl h1
          · exact Or.inr (Or.inr h1)
        · intro hl hm
          have hnot := (hok.isDead hl).1
          rw [hAB] at hnot
          simp only [List.mem_append, List.mem_cons] at hm hnot
          rcases hm with h1 | h1 | h1
          · exact hnot (Or.inl h1)
          · have := hok.lt; omega
          · exact hnot (Or.inr h1)
      · simp [insOk, hal]
  | del k =>
    rcases delete_spec hr k with ⟨s', ok, he, hext, hlen, hal, hhit, hmiss⟩
    have hstep : step st (.del k) = ({ st with sl := s' }, .bool ok) := by simp [step, he]
    have hmem : member k sp.set = decide (k ∈ L0.map (ikey st.sl.nodes)) := by
      rw [member_eq_decide, h.keys]
    rw [hstep]
    by_cases hk : k ∈ L0.map (ikey st.sl.nodes)
    · rcases hhit hk with ⟨rfl, A, d, B, hAB, hkd, hrep, hdead⟩
      subst hAB
      have hspec : specStep sp (.del k)
          = ({ set := OrdSet.delete k sp.set, handles := OrdSet.kill k sp.handles }, .bool true) := by
        simp only [specStep]; rw [hmem, decide_eq_true hk]; simp
      rw [hspec]
      refine ⟨rfl, ⟨A ++ B, ?_⟩, by simp [insOk, hal]⟩
      have := sim_after_delete h hrep hdead hext
      rw [hkd] at this
      exact this
    · rcases hmiss hk with ⟨rfl, hrep⟩
      have hspec : specStep sp (.del k) = (sp, .bool false) := by
        simp [specStep, hmem, hk]
      rw [hspec]
      refine ⟨rfl, ⟨L0, hrep, ?_, ?_⟩, by simp [insOk, hal]⟩
      · simp only; rw [keys_ext hr hext]; exact h.keys
      · exact HRel.imp (fun n k l hok => hok.ext hext hok.isLive (fun hl => (hok.isDead hl).1)) h.handles
  | look k =>
    rcases lookup_spec hr k with ⟨s', he, hsb, _⟩
    have hstep : step st (.look k) = ({ st with sl := s' }, .bool (decide (k ∈ L0.map (ikey st.sl.nodes)))) := by
      simp [step, he]
    have hspec : specStep sp (.look k) = (sp, .bool (decide (k ∈ L0.map (ikey st.sl.nodes)))) := by
      simp only [specStep]; rw [member_eq_decide, h.keys]
    rw [hstep, hspec]
    exact ⟨rfl, ⟨L0, sim_same h hsb⟩, by simp [insOk, hsb.stats]⟩
  | getnode k hname =>
    rcases lookup_spec hr k with ⟨s', he, hsb, hfound⟩
    have hmem : member k sp.set = decide (k ∈ L0.map (ikey st.sl.nodes)) := by
      rw [member_eq_decide, h.keys]
    by_cases hk : k ∈ L0.map (ikey st.sl.nodes)
    · have hstep : step st (.getnode k hname)
          = ({ sl := s', handles := (hname, s'.buf.succs.getD 0 0) :: st.handles }, .node true) := by
        simp [step, he, hk]
      have hspec : specStep sp (.getnode k hname)
          = ({ sp with handles := (hname, k, true) :: sp.handles }, .node true) := by
        simp [specStep, hmem, hk]
      rw [hstep, hspec]
      have hs := sim_same h hsb
      refine ⟨rfl, ⟨L0, hs.rep, hs.keys, ?_⟩, by simp [insOk, hsb.stats]⟩
      rcases hfound hk with ⟨hm, hkey⟩
      refine ⟨rfl, ?_, hs.handles⟩
      have hn := hr.nodes _ hm
      refine ⟨by show _ < s'.nodes.length; rw [hsb.nodes]; exact hn.hi, hr.ne_head hm, ?_, fun _ => hm,
        fun hf => by simp at hf⟩
      show ikey s'.nodes _ = k
      rw [hsb.nodes]; exact hkey
    · have hstep : step st (.getnode k hname) = ({ st with sl := s' }, .node false) := by
        simp [step, he, hk]
      have hspec : specStep sp (.getnode k hname) = (sp, .node false) := by
        simp [specStep, hmem, hk]
      rw [hstep, hspec]
      exact ⟨rfl, ⟨L0, sim_same h hsb⟩, by simp [insOk, hsb.stats]⟩
  | delnode hname =>
    rcases HRel.lookup hname h.handles with ⟨h1, h2⟩ | ⟨n, k, live, h1, h2, hok⟩
    · have hstep : step st (.delnode hname) = (st, .bad) := by simp [step, h1]
      have hspec : specStep sp (.delnode hname) = (sp, .bad) := by simp [specStep, h2]
      rw [hstep, hspec]
      exact ⟨rfl, ⟨L0, h⟩, by simp [insOk]⟩
    · cases live with
      | true =>
        have hn := hok.isLive rfl
        rcases List.append_of_mem hn with ⟨A, B, hAB⟩
        subst hAB
        rcases deleteNode_live hr with ⟨s', hd, hrep, hdead, hext, hlen, hal⟩
        have hstep : step st (.delnode hname) = ({ st with sl := s' }, .bool true) := by
          simp [step, h1, hd]
        have hspec : specStep sp (.delnode hname)
            = ({ set := OrdSet.delete k sp.set, handles := OrdSet.kill k sp.handles }, .bool true) := by
          simp [specStep, h2]
        rw [hstep, hspec]
        refine ⟨rfl, ⟨A ++ B, ?_⟩, by simp [insOk, hal]⟩
        have := sim_after_delete h hrep hdead hext
        rw [hok.key] at this
        exact this
      | false =>
        have hdd := (hok.isDead rfl).2
        have hstep : step st (.delnode hname) = (st, .bool false) := by
          simp [step, h1, deleteNode_dead hdd]
        have hspec : specStep sp (.delnode hname) = (sp, .bool false) := by
          simp [specStep, h2]
        rw [hstep, hspec]
        exact ⟨rfl, ⟨L0, h⟩, by simp [insOk]⟩
  | iter =>
    have hsc := scanAll_spec hr
    have hstep : step st .iter = (st, .keys (L0.map (keyOf st.sl.nodes))) := by
      simp [step, hsc]
    have hspec : specStep sp .iter = (sp, .keys (sp.set.map Key.item)) := by simp [specStep]
    rw [hstep, hspec]
    refine ⟨?_, ⟨L0, h⟩, by simp [insOk]⟩
    simp only
    rw [h.keys, keys_map hr]
  | seek k =>
    rcases iterSeek_spec hr k with ⟨s', it, he, hsb, hpos⟩
    have hstep : step st (.seek k) = ({ st with sl := s' },
        .seekAt (decide (k ∈ L0.map (ikey st.sl.nodes)))
          (if (iterValid it).2 then some (keyOf s'.nodes (iterValid it).1.curr) else none)) := by
      simp [step, he]
    have hspec : specStep sp (.seek k) = (sp, .seekAt (decide (k ∈ L0.map (ikey st.sl.nodes)))
        ((seekGE k (L0.map (ikey st.sl.nodes))).map Key.item)) := by
      simp only [specStep]; rw [member_eq_decide, h.keys]
    rw [hstep, hspec, hpos]
    exact ⟨rfl, ⟨L0, sim_same h hsb⟩, by simp [insOk, hsb.stats]⟩

end NitroVerif.SkipSeq
