/-
  C01 along concurrent histories (part 8): iterators that cannot deliver — no record, no cursor, or already
  inside their `Close` — stay that way until the next `it_first`; hence the key order of what is delivered
  holds for every stretch of every schedule without an `it_first` of the iterator, whether or not the iterator
  is closed on the way.
-/
import NitroVerif.Lemmas.MvccConcView7

namespace NitroVerif.MvccConc
open NitroVerif
open NitroVerif.Mvcc (Ver Sorted Chains vlt visible)

/-- iterator `(t, i)` cannot deliver anything before its next `it_first`: it does not exist, has no cursor,
    or its thread is inside its `Close` -/
def Dead (σ : State) (t i : Nat) : Prop :=
  ∀ it, findIter (t, i) σ.iters = some it → (it.cur = none ∨ closingB σ.threads (t, i) = true)

theorem Dead.keep {σ σ' : State} {t i : Nat} (h : Dead σ t i)
    (hf : findIter (t, i) σ'.iters = findIter (t, i) σ.iters)
    (hc : closingB σ'.threads (t, i) = closingB σ.threads (t, i)) : Dead σ' t i := by
  intro it hit
  rw [hf] at hit; rw [hc]; exact h it hit

theorem dead_or_scanning (σ : State) (t i : Nat) :
    Dead σ t i ∨ ∃ sn cur, Scanning σ t i sn cur (viewOf σ sn) := by
  cases hf : findIter (t, i) σ.iters with
  | none => left; intro it hit; rw [hf] at hit; cases hit
  | some it =>
    cases hc : closingB σ.threads (t, i)
    · right; exact ⟨it.sn, it.cur, ⟨it, hf, rfl, rfl⟩, rfl, hc⟩
    · left; intro it' _; exact Or.inr hc

/-- the tail of the `Close` of iterator `(t, i)` itself -/
theorem tail_self {σ σ' : State} {t i : Nat} {pc0 : Pc} (h : TailOrSame σ σ' t (some i))
    (ht : σ.threads[t]? = some pc0) :
    (findIter (t, i) σ'.iters = findIter (t, i) σ.iters ∧ closingB σ'.threads (t, i) = closingB σ.threads (t, i)) ∨
      Dead σ' t i := by
  rcases h with ⟨h1, h2⟩ | ⟨h1, h2⟩ | ⟨s, h1, h2⟩
  · left; rw [h1, h2]; exact ⟨rfl, rfl⟩
  · right
    intro it hit
    rw [h2] at hit
    simp only at hit
    rw [findIter_erase] at hit
    simp at hit
  · right
    intro it _
    right
    rw [h1, closingB_set_self ht (k := (t, i)) rfl]
    simp [Pc.closes]

theorem itNew_threads (σ : State) (t i s : Nat) : (itNew σ t i s).1.threads = σ.threads := by
  unfold itNew
  split
  · split <;> rfl
  · rfl

/-- how an action other than the iterator's `it_first` touches iterator `(t, i)`: not at all, or it leaves it
    unable to deliver, or it is the iterator's own ITER_NEXT step -/
theorem touch_cases {σ : State} (hi : Inv σ) (hd : σ.down = false) (a : Act) (t i : Nat) (h1 : a ≠ .itFirst t i) :
    ((findIter (t, i) (step σ a).1.iters = findIter (t, i) σ.iters ∧
        closingB (step σ a).1.threads (t, i) = closingB σ.threads (t, i)) ∨ Dead (step σ a).1 t i) ∧
      (deliveredVerBy σ a t i = none ∧ endedBy σ a t i = false) ∨
    (a = .step t ∧ σ.threads[t]? = some (.iterNext i) ∧ step σ a = stepIter σ t i) := by
  rcases step_cases hi hd a with ⟨hq, hni⟩ | ⟨ha, _, he⟩ | ⟨t', s, ha, ht, he⟩ | ⟨t', i', s, ha, ht, he⟩ |
      ⟨t', i', ha, ht, he⟩ | ⟨t', i', ha, ht, he⟩ | ⟨t', sn', after, ha, ht, he⟩ | ⟨t', i', ha, ht, he⟩
  · refine Or.inl ⟨Or.inl ⟨by rw [hq.1.2.2.2], ?_⟩, delivered_noitem hni⟩
    rcases hq.2.1 with h | ⟨t', pc0, pc', hg, h, h0, hp⟩
    · rw [h]
    · rw [h]
      exact closingB_set_same hg (by rw [closes_of_not_coll h0, closes_of_not_coll hp]) _
  · exact Or.inl ⟨Or.inl ⟨by rw [he]; rfl, by rw [he]; rfl⟩, delivered_not_mine (by rw [ha]; rfl)⟩
  · have := scan_tail (t := t) (i := i) (tos_startClose σ t' s) ht (Or.inl rfl) (by intro _ h; cases h)
    exact Or.inl ⟨Or.inl ⟨by rw [he]; exact this.1, by rw [he]; exact this.2⟩,
      delivered_not_mine (by rw [ha]; rfl)⟩
  · refine Or.inl ⟨?_, delivered_not_mine (by rw [ha]; rfl)⟩
    rcases curOf_itNew σ t' i' s t i with h | h
    · exact Or.inl ⟨by rw [he]; exact h, by rw [he, itNew_threads]⟩
    · right
      intro it hit
      left
      rw [he] at hit
      unfold curOf at h
      rw [hit] at h
      exact h
  · have hne : (t', i') ≠ (t, i) := by
      intro e; injection e with e1 e2; subst e1; subst e2; exact h1 ha
    refine Or.inl ⟨Or.inl ⟨by rw [he]; exact findIter_itFirst_other σ t' i' t i hne,
      by rw [he]; exact closing_itFirst ht rfl _⟩, delivered_not_mine ?_⟩
    rw [ha]
    show (t' == t && i' == i) = false
    cases e1 : t' == t <;> cases e2 : i' == i <;> simp_all
  · refine Or.inl ⟨?_, delivered_not_mine (by rw [ha]; rfl)⟩
    by_cases hown : (t', i') = (t, i)
    · injection hown with e1 e2; subst e1; subst e2
      rw [he]; exact tail_self (tos_itClose σ t' i') ht
    · have := scan_tail (t := t) (i := i) (tos_itClose σ t' i') ht (Or.inl rfl) (by
        intro e h; injection h with h; exact hown (by rw [e, h]))
      exact Or.inl ⟨by rw [he]; exact this.1, by rw [he]; exact this.2⟩
  · refine Or.inl ⟨?_, delivered_not_mine ?_⟩
    · by_cases hown : t' = t ∧ after = some i
      · obtain ⟨e1, e2⟩ := hown; subst e1; subst e2
        rw [he]; exact tail_self (tos_stepCollect σ t' sn' (some i)) ht
      · have := scan_tail (t := t) (i := i) (tos_stepCollect σ t' sn' after) ht
          (Or.inr (by cases after <;> rfl)) (fun e h => hown ⟨e, h⟩)
        exact Or.inl ⟨by rw [he]; exact this.1, by rw [he]; exact this.2⟩
    · rw [ha]
      show (t' == t && σ.threads[t]? == some (.iterNext i)) = false
      by_cases e : t' = t
      · rw [← e, ht]; simp
      · simp [e]
  · by_cases hown : (t', i') = (t, i)
    · injection hown with e1 e2; subst e1; subst e2
      exact Or.inr ⟨ha, ht, he⟩
    · refine Or.inl ⟨Or.inl ⟨by rw [he]; exact findIter_stepIter_other σ t' i' t i hown,
        by rw [he]; exact closing_stepIter ht rfl _⟩, delivered_not_mine ?_⟩
      rw [ha]
      show (t' == t && σ.threads[t]? == some (.iterNext i)) = false
      by_cases e : t' = t
      · rw [← e, ht]
        have : i' ≠ i := fun e' => hown (by rw [e, e'])
        simp [this]
      · simp [e]

/-- an iterator that cannot deliver stays so and delivers nothing -/
theorem dead_step {fx : Bool} {nw nr : Nat} {σ : State} (hr : ReachableFx fx nw nr σ) {t i : Nat}
    (hdead : Dead σ t i) (a : Act) (h1 : a ≠ .itFirst t i) :
    Dead (step σ a).1 t i ∧ deliveredVerBy σ a t i = none := by
  by_cases hd : σ.down = true
  · have hst := step_down hd a
    exact ⟨by rw [hst]; exact hdead, (delivered_noitem (by rw [hst]; intro c h; cases h)).1⟩
  have hd0 : σ.down = false := by simpa using hd
  have hi := inv_reachable hr hd0
  rcases touch_cases hi hd0 a t i h1 with ⟨h | h, hdel⟩ | ⟨ha, ht, he⟩
  · exact ⟨hdead.keep h.1 h.2, hdel.1⟩
  · exact ⟨h, hdel.1⟩
  · -- the own step of an iterator without cursor is refused
    have hbad : stepIter σ t i = (σ, .bad) := by
      unfold stepIter
      cases hf : findIter (t, i) σ.iters with
      | none => rfl
      | some it =>
        simp only
        rcases hdead it hf with hc | hc
        · rw [hc]
        · rw [closingB_eq (k := (t, i)) ht] at hc
          simp [Pc.closes] at hc
    exact ⟨by rw [he, hbad]; exact hdead, (delivered_noitem (by rw [he, hbad]; intro c h; cases h)).1⟩

theorem dead_run {fx : Bool} {nw nr : Nat} {t i : Nat} : ∀ (sched : List Act) {σ : State},
    ReachableFx fx nw nr σ → Dead σ t i → Act.itFirst t i ∉ sched → deliveredVers t i σ sched = []
  | [], _, _, _, _ => rfl
  | a :: as, σ, hr, hdead, hno => by
    have ha : a ≠ .itFirst t i := fun h => hno (h ▸ List.mem_cons_self)
    obtain ⟨h1, h2⟩ := dead_step hr hdead a ha
    simp only [deliveredVers, h2]
    rw [dead_run as (ReachableFx.step a hr) h1 (fun h => hno (List.mem_cons_of_mem _ h))]
    rfl

/-- one action during a scan, `it_close` of the iterator included -/
theorem scan_or_dead_step {nw nr : Nat} {σ : State} (hr : Reachable nw nr σ) {t i sn : Nat} {cur : Option Cur}
    {V : List Ver} (hs : Scanning σ t i sn cur V) (a : Act) (h1 : a ≠ .itFirst t i) :
    (∃ cur', Scanning (step σ a).1 t i sn cur' V ∧
        upTo V cur' = upTo V cur ++ (deliveredVerBy σ a t i).toList) ∨
      (Dead (step σ a).1 t i ∧ deliveredVerBy σ a t i = none) := by
  by_cases h2 : a = .itClose t i
  · by_cases hd : σ.down = true
    · have hst := step_down hd a
      exact Or.inl ⟨cur, by rw [hst]; exact hs,
        by rw [(delivered_noitem (a := a) (t := t) (i := i) (by rw [hst]; intro c h; cases h)).1]; simp⟩
    have hd0 : σ.down = false := by simpa using hd
    have hi := inv_reachable hr hd0
    have hv := vinv_reachable hr
    obtain ⟨it, hf, hsn, _⟩ := hs.it_ex
    have hopen : openSn σ sn := by rw [← hsn]; exact open_of_iter hv (findIter_some hf) hs.open_
    rcases touch_cases hi hd0 a t i h1 with ⟨h | h, hdel⟩ | ⟨ha, _, _⟩
    · exact Or.inl ⟨cur, hs.keep h.1 h.2 (view_step hr a hopen), by rw [hdel.1]; simp⟩
    · exact Or.inr ⟨h, hdel.1⟩
    · rw [h2] at ha; cases ha
  · obtain ⟨cur', h3, h4, _, _⟩ := scan_step hr hs a h1 h2
    exact Or.inl ⟨cur', h3, h4⟩

/-- whatever is delivered from a scanning state on extends the part of the view below the cursor to the part
    below a later cursor -/
theorem scan_or_dead_run {nw nr : Nat} {t i sn : Nat} {V : List Ver} : ∀ (sched : List Act) {σ : State}
    {cur : Option Cur}, Reachable nw nr σ → Scanning σ t i sn cur V → Act.itFirst t i ∉ sched →
    ∃ cur', upTo V cur' = upTo V cur ++ deliveredVers t i σ sched
  | [], _, cur, _, _, _ => ⟨cur, by simp [deliveredVers]⟩
  | a :: as, σ, cur, hr, hs, hno => by
    have ha : a ≠ .itFirst t i := fun h => hno (h ▸ List.mem_cons_self)
    have hno' : Act.itFirst t i ∉ as := fun h => hno (List.mem_cons_of_mem _ h)
    rcases scan_or_dead_step hr hs a ha with ⟨c1, hs1, hu1⟩ | ⟨hdead, hnone⟩
    · obtain ⟨c2, hu2⟩ := scan_or_dead_run as (ReachableFx.step a hr) hs1 hno'
      exact ⟨c2, by rw [hu2, hu1]; simp [deliveredVers]⟩
    · refine ⟨cur, ?_⟩
      simp only [deliveredVers, hnone]
      rw [dead_run as (ReachableFx.step a hr) hdead hno']
      simp

/-- a refused `it_first` changes nothing -/
theorem itFirst_bad {σ : State} {t i : Nat} (h : (step σ (.itFirst t i)).2 = .bad) :
    (step σ (.itFirst t i)).1 = σ := by
  by_cases hd : σ.down = true
  · rw [step_down hd]
  have hd0 : σ.down = false := by simpa using hd
  have hst := step_eq_of_not_down hd0 (.itFirst t i)
  simp only at hst
  by_cases hok : (isReader σ t && isIdle σ t) = true
  · rw [if_pos hok] at hst
    unfold itFirst at hst
    cases hf : findIter (t, i) σ.iters with
    | none => rw [hf] at hst; rw [hst]
    | some it =>
      rw [hf] at hst; simp only at hst
      rw [hst, landOn_resp] at h
      cases hl : σ.store.head? with
      | none => rw [hl] at h; cases h
      | some y =>
        rw [hl] at h; simp only at h
        split at h <;> cases h
  · rw [if_neg hok] at hst; rw [hst]

end NitroVerif.MvccConc
