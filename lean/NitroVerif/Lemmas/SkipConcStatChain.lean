import NitroVerif.Lemmas.SkipConcStatSeg
/-!
  Statistics of M5, part 3: counting along the level-0 chain.  How the list of nodes of the level-0 chain changes
  under each event of the level-0 core (nothing / an unlink removes the node / a publish adds the node), and the
  counting lemmas over lists without duplicates.
-/
namespace NitroVerif.SkipConc
open NitroVerif

/-! ### lists -/

theorem countP_set_add {α : Type} (p : α → Bool) : ∀ (l : List α) (t : Nat) (a v : α), l[t]? = some a →
    (l.set t v).countP p + (if p a = true then 1 else 0) = l.countP p + (if p v = true then 1 else 0)
  | [], t, a, v, h => by simp at h
  | b :: r, 0, a, v, h => by
    simp at h; subst h
    simp only [List.set_cons_zero, List.countP_cons]
    omega
  | b :: r, t + 1, a, v, h => by
    simp at h
    have := countP_set_add p r t a v h
    simp only [List.set_cons_succ, List.countP_cons]
    omega

/-- flipping the predicate at one member of a list without duplicates -/
theorem countP_flip {q q' : Nat → Bool} {n : Nat} : ∀ (ns : List Nat), ns.Nodup → n ∈ ns →
    (∀ x, x ≠ n → q' x = q x) → q n = false → q' n = true → ns.countP q' = ns.countP q + 1
  | [], _, hm, _, _, _ => by simp at hm
  | b :: r, hn, hm, hq, h0, h1 => by
    obtain ⟨hb, hr⟩ := List.nodup_cons.mp hn
    simp only [List.countP_cons]
    by_cases e : b = n
    · subst e
      have : r.countP q' = r.countP q := by
        refine List.countP_congr (fun x hx => ?_)
        have : x ≠ b := fun c => hb (c ▸ hx)
        rw [hq x this]
      rw [this, h0, h1]; simp
    · have hm' : n ∈ r := by
        simp at hm
        rcases hm with h | h
        · exact absurd h.symm e
        · exact h
      rw [countP_flip r hr hm' hq h0 h1, hq b e]
      omega

/-- a list without duplicates that has one member more -/
theorem countP_extra {ns ms : List Nat} {c : Nat} (hn : ns.Nodup) (hm : ms.Nodup) (hc : c ∉ ms)
    (hmem : ∀ x, x ∈ ns ↔ x = c ∨ x ∈ ms) (q : Nat → Bool) :
    ns.countP q = ms.countP q + (if q c = true then 1 else 0) := by
  have hp : ns.Perm (c :: ms) := by
    refine (List.perm_ext_iff_of_nodup hn (List.nodup_cons.mpr ⟨hc, hm⟩)).mpr (fun x => ?_)
    rw [hmem x]; simp
  rw [hp.countP_eq, List.countP_cons]

theorem length_extra {ns ms : List Nat} {c : Nat} (hn : ns.Nodup) (hm : ms.Nodup) (hc : c ∉ ms)
    (hmem : ∀ x, x ∈ ns ↔ x = c ∨ x ∈ ms) : ns.length = ms.length + 1 := by
  have hp : ns.Perm (c :: ms) := by
    refine (List.perm_ext_iff_of_nodup hn (List.nodup_cons.mpr ⟨hc, hm⟩)).mpr (fun x => ?_)
    rw [hmem x]; simp
  rw [hp.length_eq]; simp

/-! ### `addAt` -/

theorem addAt_length (l : List Int) (i : Nat) (d : Int) : (addAt l i d).length = l.length := by
  simp [addAt]

theorem addAt_getD (l : List Int) {i : Nat} (d : Int) (hi : i < l.length) (k : Nat) :
    (addAt l i d).getD k 0 = l.getD k 0 + (if k = i then d else 0) := by
  unfold addAt
  simp only [List.getD_eq_getElem?_getD, List.getElem?_set]
  by_cases e : i = k
  · subst e; simp [hi]
  · have : ¬ k = i := fun c => e c.symm
    simp [e, this]

/-! ### the level-0 chain as a list -/

/-- paths only depend on the successor part of the words -/
theorem PathL.congr {h h' : Heap} {l : Nat} (he : ∀ a, (word? h' a l).map (·.1) = (word? h a l).map (·.1))
    {a c : Nat} {ns : List Nat} (p : PathL h' l a ns c) : PathL h l a ns c := by
  induction p with
  | nil => exact .nil _
  | @cons a b c ns m hw _ ih =>
    have := he a
    rw [hw] at this
    cases hw' : word? h a l with
    | none => rw [hw'] at this; simp at this
    | some w =>
      obtain ⟨q, m'⟩ := w
      rw [hw'] at this; simp at this
      subst this
      exact .cons hw' ih

/-- the nodes of the chain of a level, the head and the tail excluded -/
theorem mem_chain {h : Heap} (H : HInv h) (L : LvInv h) {l : Nat} {ns : List Nat} (p : PathL h l 0 (0 :: ns) 1)
    (x : Nat) : x ∈ ns ↔ OnChain h l x ∧ x ≠ 0 ∧ x ≠ 1 := by
  have hs := (p.sorted (chain_edges_sorted H L l) (.refl _)).1
  constructor
  · intro hx
    obtain ⟨r, _, hw⟩ := p.mem (x := x) (by simp [hx])
    refine ⟨r, ?_, ?_⟩
    · intro e
      have := (List.pairwise_cons.mp hs).1 x hx
      rw [e] at this; exact Key.lt_irrefl _ this
    · intro e; rw [e, H.tailNoWord] at hw; simp at hw
  · intro ⟨r, h0, h1⟩
    rcases p.mem_of_reach (H.tailNoWord _) r with e | e
    · exact absurd e h1
    · simp at e
      rcases e with e | e
      · exact absurd e h0
      · exact e

theorem chain_nodup {h : Heap} (H : HInv h) (L : LvInv h) {l : Nat} {ns : List Nat} (p : PathL h l 0 (0 :: ns) 1) :
    ns.Nodup := by
  have hs := (p.sorted (chain_edges_sorted H L l) (.refl _)).1
  refine (List.pairwise_cons.mp hs).2.imp (fun hab e => ?_)
  rw [e] at hab; exact Key.lt_irrefl _ hab

/-- the level-0 chain exists, as a list that starts with the head -/
theorem chain0_exists {h : Heap} (R : ReachInv h) : ∃ ns, PathL h 0 0 (0 :: ns) 1 := by
  obtain ⟨L, p⟩ := (reachL_zero_iff.mpr R.1).toPath
  cases p with
  | cons hw p' => exact ⟨_, .cons hw p'⟩

/-- level-0 unlink: the chain loses exactly the unlinked node -/
theorem chain0_unlink {h : Heap} (H : HInv h) (R : ReachInv h) (L : LvInv h) {prev curr next : Nat}
    (hp : word? h prev 0 = some (curr, false)) (hc : word? h curr 0 = some (next, true))
    (H' : HInv (setWord h prev 0 (next, false))) (L' : LvInv (setWord h prev 0 (next, false)))
    {ns ns' : List Nat} (p : PathL h 0 0 (0 :: ns) 1) (p' : PathL (setWord h prev 0 (next, false)) 0 0 (0 :: ns') 1) :
    curr ∉ ns' ∧ ∀ x, x ∈ ns ↔ x = curr ∨ x ∈ ns' := by
  have hpc : OnChain h 0 prev := reachL_zero_iff.mpr (R.2 prev ⟨curr, hp⟩)
  have hoff := unlink_off_chain H L H' L' rfl hp hc hpc
  have hc0 : curr ≠ 0 := by
    intro e
    have := H.h5 _ _ _ hp
    rw [e, H.headKey] at this
    cases hk : keyOf h prev <;> simp [hk, Key.lt] at this
  have hc1 : curr ≠ 1 := by
    intro e; rw [e, H.tailNoWord] at hc; simp at hc
  refine ⟨fun hm => hoff ((mem_chain H' L' p' curr).mp hm).1, fun x => ?_⟩
  rw [mem_chain H L p x, mem_chain H' L' p' x]
  constructor
  · intro ⟨r, h0, h1⟩
    by_cases e : x = curr
    · exact .inl e
    · exact .inr ⟨unlink_reachL hp hc r e, h0, h1⟩
  · rintro (e | ⟨r, h0, h1⟩)
    · subst e; exact ⟨hpc.snoc hp, hc0, hc1⟩
    · exact ⟨unlink_reachL_back hp hc r, h0, h1⟩

/-- publish: the chain gains exactly the new node -/
theorem chain0_publish {h : Heap} (H : HInv h) (R : ReachInv h) (L : LvInv h) {p c : Nat} (nd : Node)
    (hw : word? h p 0 = some (c, false)) (hn0 : nd.next[0]? = some (c, false))
    (H' : HInv (setWord h p 0 (h.length, false) ++ [nd])) (L' : LvInv (setWord h p 0 (h.length, false) ++ [nd]))
    {ns ns' : List Nat} (q : PathL h 0 0 (0 :: ns) 1)
    (q' : PathL (setWord h p 0 (h.length, false) ++ [nd]) 0 0 (0 :: ns') 1) :
    h.length ∉ ns ∧ ∀ x, x ∈ ns' ↔ x = h.length ∨ x ∈ ns := by
  have h2 := H.len
  have hpc : OnChain h 0 p := reachL_zero_iff.mpr (R.2 p ⟨c, hw⟩)
  have hnew : OnChain (setWord h p 0 (h.length, false) ++ [nd]) 0 h.length :=
    ReachL.snoc (m := false) (publish_reach0 nd hw hn0 hpc) (by rw [word0_publish h hw]; simp)
  refine ⟨fun hm => ?_, fun x => ?_⟩
  · have := ((mem_chain H L q _).mp hm).1.lt H
    omega
  · rw [mem_chain H L q x, mem_chain H' L' q' x]
    constructor
    · intro ⟨r, h0, h1⟩
      rcases (publish_reach0_back H nd hw hn0 r).1 (by omega) with e | r1
      · exact .inl e
      · exact .inr ⟨r1, h0, h1⟩
    · rintro (e | ⟨r, h0, h1⟩)
      · subst e; exact ⟨hnew, by omega, by omega⟩
      · exact ⟨publish_reach0 nd hw hn0 r, h0, h1⟩

end NitroVerif.SkipConc
