import NitroVerif.Gen.Guards
/-!
  Characterisation of the generated decision predicates the `RefCount` model calls, and the atomic
  skeletons of `Open`, `Close`, `GC`, `collectDead`.  A change of the Go condition or of the order /
  kind of the shared-memory operations changes `Gen.*` and breaks the lemma named here.
-/
namespace NitroVerif.RefCount

/-- `Snapshot.Open` refuses exactly when the observed count is zero -/
theorem openRefuse_iff (rc : Int) : Gen.openRefuse rc = true ↔ rc = 0 := by
  simp [Gen.openRefuse]

/-- `Snapshot.Close` retires exactly when the decremented count is zero -/
theorem closeRetire_iff (v : Int) : Gen.closeRetire v = true ↔ v = 0 := by
  simp [Gen.closeRetire]

/-- `collectDead` stops at the first snapshot that is not next in order -/
theorem gcStop_iff (sn l : Nat) : Gen.gcStop sn l = true ↔ sn ≠ l + 1 := by
  simp [Gen.gcStop]

theorem gcStop_false_iff (sn l : Nat) : Gen.gcStop sn l = false ↔ sn = l + 1 := by
  simp [Gen.gcStop]

/-- `hasCollectableSnapshot` answers true exactly when the head is next in order -/
theorem collectableHead_iff (sn l : Nat) : Gen.collectableHead sn l = true ↔ sn = l + 1 := by
  simp [Gen.collectableHead]

/-- the re-check and the loop test are complementary -/
theorem collectableHead_eq_not_gcStop (sn l : Nat) : Gen.collectableHead sn l = !Gen.gcStop sn l := by
  simp [Gen.collectableHead, Gen.gcStop]

/-- `CompareSnapshot` orders by snapshot number -/
theorem compareSnapshot_eq_zero (a b : Nat) : Gen.compareSnapshot a b = 0 ↔ a = b := by
  unfold Gen.compareSnapshot; omega

theorem compareSnapshot_neg (a b : Nat) : Gen.compareSnapshot a b < 0 ↔ a < b := by
  unfold Gen.compareSnapshot; omega

theorem compareSnapshot_pos (a b : Nat) : 0 < Gen.compareSnapshot a b ↔ b < a := by
  unfold Gen.compareSnapshot; omega

theorem skeleton_Open_ok : Gen.skeleton_Open =
    ["atomic.LoadInt32(s.refCount)", "atomic.CompareAndSwapInt32(s.refCount)"] := rfl

theorem skeleton_Close_ok : Gen.skeleton_Close =
    ["atomic.AddInt32(s.refCount)", "defer", "s.db.snapshots.Delete", "s.db.gcsnapshots.Insert",
     "s.db.GC"] := rfl

theorem skeleton_GC_ok : Gen.skeleton_GC =
    ["atomic.CompareAndSwapInt32(m.isGCRunning)", "m.collectDead",
     "atomic.CompareAndSwapInt32(m.isGCRunning)", "m.hasCollectableSnapshot"] := rfl

theorem skeleton_collectDead_ok : Gen.skeleton_collectDead =
    ["defer", "defer", "defer", "iter.Close", "iter.SeekFirst", "iter.Next",
     "atomic.StoreUint32(m.lastGCSn)", "send(m.gcchan)", "m.gcsnapshots.DeleteNode"] := rfl

end NitroVerif.RefCount

namespace NitroVerif.RefCountGenExtra
open NitroVerif
/-- iterator.go NewIterator takes its reference (Open) BEFORE anything else and Iterator.Close gives it back first:
    NewIterator = Open and Iterator.Close = Snapshot.Close as far as the reference count protocol is concerned
    (the steered `refcount` engine drives odd threads through these two). -/
theorem skeleton_NitroNewIterator_ok :
    Gen.skeleton_NitroNewIterator = ["snap.Open", "snap.db.store.MakeBuf", "m.store.NewIterator"] := rfl
theorem skeleton_NitroIteratorClose_ok :
    Gen.skeleton_NitroIteratorClose = ["it.snap.Close", "it.snap.db.store.FreeBuf", "it.iter.Close"] := rfl
end NitroVerif.RefCountGenExtra
