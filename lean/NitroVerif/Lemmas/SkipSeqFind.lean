import NitroVerif.Lemmas.SkipSeqRep
/-!
  `findPath` on a quiescent skiplist: it changes nothing but the action buffer, and fills
  `preds[j]` / `succs[j]` with the bracket of the search key on every level `j ≤ level`.
-/
namespace NitroVerif.SkipSeq
open NitroVerif

/-! ### single steps of the loop -/

theorem findLoop_adv {k : Key} {s : SL} {i prev curr f : Nat}
    (hun : (getNext s.nodes curr i).2 = false) (hlt : compare (keyOf s.nodes curr) k < 0) :
    findLoop k (f + 1) s i prev curr = findLoop k f s i curr (getNext s.nodes curr i).1 := by
  rw [findLoop]
  simp [hun, (findAdvance_iff _).mpr hlt]

theorem findLoop_stop_zero {k : Key} {s : SL} {prev curr f : Nat}
    (hun : (getNext s.nodes curr 0).2 = false) (hge : ¬ compare (keyOf s.nodes curr) k < 0) :
    findLoop k (f + 1) s 0 prev curr = (s.setBuf 0 prev curr, compare (keyOf s.nodes curr) k) := by
  rw [findLoop]
  have : Gen.findAdvance (compare (keyOf s.nodes curr) k) = false := by
    rw [Bool.eq_false_iff]; intro h; exact hge ((findAdvance_iff _).mp h)
  simp [hun, this]

theorem findLoop_stop_succ {k : Key} {s : SL} {j prev curr f : Nat}
    (hun : (getNext s.nodes curr (j + 1)).2 = false) (hge : ¬ compare (keyOf s.nodes curr) k < 0) :
    findLoop k (f + 1) s (j + 1) prev curr
      = findLoop k f (s.setBuf (j + 1) prev curr) j prev (getNext s.nodes prev j).1 := by
  rw [findLoop]
  have : Gen.findAdvance (compare (keyOf s.nodes curr) k) = false := by
    rw [Bool.eq_false_iff]; intro h; exact hge ((findAdvance_iff _).mp h)
  simp [hun, this, SL.setBuf]

/-- walking along a stretch `P` of unmarked nodes with keys below the search key -/
theorem findLoop_advance {k : Key} {s : SL} {mk : Nat → Bool} {i c : Nat} :
    ∀ (P : List Nat) (prev f : Nat),
      Path s.nodes mk i (prev :: P ++ [c]) →
      (∀ p ∈ P, mk p = false ∧ compare (keyOf s.nodes p) k < 0) →
      findLoop k (f + P.length) s i prev ((P.head?).getD c)
        = findLoop k f s i ((P.getLast?).getD prev) c := by
  intro P
  induction P with
  | nil => intro prev f _ _; simp
  | cons p P ih =>
    intro prev f hp hP
    have hp' : Path s.nodes mk i (p :: P ++ [c]) := path_tail hp
    have hlink := path_head_link hp'
    have hpp := hP p (by simp)
    have hun : (getNext s.nodes p i).2 = false := by rw [hlink]; exact hpp.1
    have e1 : f + (p :: P).length = (f + P.length) + 1 := by simp; omega
    rw [e1]
    simp only [List.head?_cons, Option.getD_some]
    rw [findLoop_adv hun hpp.2, hlink]
    simp only
    rw [ih p f hp' (fun q hq => hP q (List.mem_cons_of_mem _ hq))]
    cases P with
    | nil => simp
    | cons q P' =>
      rw [List.getLast?_cons_cons]
      cases hq : (q :: P').getLast? with
      | none => simp at hq
      | some z => simp

/-- what `findPath` leaves in the buffer for the levels `≤ i` -/
def BufOK (s' : SL) (h : Heap) (A B : List Nat) (i : Nat) : Prop :=
  ∀ j, j ≤ i → s'.buf.preds.getD j 0 = predAt h A j ∧ s'.buf.succs.getD j 0 = succAt h B j

theorem findLoop_quiescent {L0 A B : List Nat} {k : Int} (hAB : L0 = A ++ B) :
    ∀ (i : Nat) (s : SL) (f : Nat), Rep s L0 →
      (∀ a ∈ A, ikey s.nodes a < k) → (∀ b ∈ B, k ≤ ikey s.nodes b) → i ≤ Gen.maxLevel →
      (i + 1) * (A.length + 2) ≤ f →
      ∃ s', findLoop (.item k) f s i (predAt s.nodes A (i + 1))
                (getNext s.nodes (predAt s.nodes A (i + 1)) i).1
              = (s', compare (keyOf s.nodes (succAt s.nodes B 0)) (.item k)) ∧
            SameBut s s' ∧ BufOK s' s.nodes A B i ∧
            (∀ j, i < j → s'.buf.preds.getD j 0 = s.buf.preds.getD j 0 ∧
                          s'.buf.succs.getD j 0 = s.buf.succs.getD j 0) := by
  intro i
  induction i with
  | zero =>
    intro s f hr hA hB hi hf
    subst hAB
    have hpath := hr.paths 0 hi
    rw [LL_append] at hpath
    rcases succ_split s.nodes B 0 with ⟨R, hR⟩
    have hpath' : Path s.nodes nomk 0 (headId :: LL s.nodes A 0 ++ succAt s.nodes B 0 :: R) := by
      rw [← hR]; simpa using hpath
    rcases pred_descend A R hpath' with ⟨P, hP1, hP2, hP3, hP4⟩
    have hlink := path_head_link hP1
    have hfe : f = (f - P.length - 1) + 1 + P.length := by simp at hf; omega
    rw [hfe, hlink]
    simp only
    rw [findLoop_advance P _ _ hP1 (by
      intro p hp
      refine ⟨rfl, ?_⟩
      rw [(hr.nodes p (List.mem_append_left _ (hP2 p hp).1)).key, compare_item_item]
      have := hA p (hP2 p hp).1; omega)]
    rw [hP3, findLoop_stop_zero (hr.succ_unmarked hi) (hr.succ_ge hB 0)]
    refine ⟨_, rfl, sameBut_setBuf _ _ _ _, ?_, ?_⟩
    · intro j hj
      have hj0 : j = 0 := by omega
      subst hj0
      simp only [SL.setBuf]
      rw [getD_set_same _ _ _ _ (by rw [hr.bufP]; omega), getD_set_same _ _ _ _ (by rw [hr.bufS]; omega)]
      exact ⟨rfl, rfl⟩
    · intro j hj
      simp only [SL.setBuf]
      rw [getD_set_ne _ _ _ _ _ (by omega), getD_set_ne _ _ _ _ _ (by omega)]
      exact ⟨rfl, rfl⟩
  | succ i ih =>
    intro s f hr hA hB hi hf
    have hAB' := hAB
    subst hAB
    have hpath := hr.paths (i + 1) hi
    rw [LL_append] at hpath
    rcases succ_split s.nodes B (i + 1) with ⟨R, hR⟩
    have hpath' : Path s.nodes nomk (i + 1)
        (headId :: LL s.nodes A (i + 1) ++ succAt s.nodes B (i + 1) :: R) := by
      rw [← hR]; simpa using hpath
    rcases pred_descend A R hpath' with ⟨P, hP1, hP2, hP3, hP4⟩
    have hlink := path_head_link hP1
    rw [Nat.succ_mul] at hf
    have hfe : f = (f - P.length - 1) + 1 + P.length := by omega
    rw [hfe, hlink]
    simp only
    rw [findLoop_advance P _ _ hP1 (by
      intro p hp
      refine ⟨rfl, ?_⟩
      rw [(hr.nodes p (List.mem_append_left _ (hP2 p hp).1)).key, compare_item_item]
      have := hA p (hP2 p hp).1; omega)]
    rw [hP3, findLoop_stop_succ (hr.succ_unmarked hi) (hr.succ_ge hB (i + 1))]
    have hs1 := sameBut_setBuf s (i + 1) (predAt s.nodes A (i + 1)) (succAt s.nodes B (i + 1))
    have hr1 : Rep (s.setBuf (i + 1) (predAt s.nodes A (i + 1)) (succAt s.nodes B (i + 1))) (A ++ B) :=
      hr.of_sameBut hs1
    rcases ih _ (f - P.length - 1) hr1 (by simpa [SL.setBuf] using hA) (by simpa [SL.setBuf] using hB)
      (by omega) (by omega) with ⟨s', he, hsb, hbuf, hrest⟩
    refine ⟨s', ?_, hs1.trans hsb, ?_, ?_⟩
    · simpa [SL.setBuf] using he
    · intro j hj
      by_cases hji : j ≤ i
      · simpa [SL.setBuf] using hbuf j hji
      · have hje : j = i + 1 := by omega
        subst hje
        have := hrest (i + 1) (by omega)
        rw [this.1, this.2]
        simp only [SL.setBuf]
        rw [getD_set_same _ _ _ _ (by rw [hr.bufP]; omega), getD_set_same _ _ _ _ (by rw [hr.bufS]; omega)]
        exact ⟨rfl, rfl⟩
    · intro j hj
      have := hrest j (by omega)
      rw [this.1, this.2]
      simp only [SL.setBuf]
      rw [getD_set_ne _ _ _ _ _ (by omega), getD_set_ne _ _ _ _ _ (by omega)]
      exact ⟨rfl, rfl⟩

end NitroVerif.SkipSeq
