/-
  The four store mutations (link a new version, mark a version dead, unlink a same-epoch version,
  unlink a garbage list) preserve V1 (order) and V2 (lifetimes), and do not change what a snapshot
  sees as long as they touch only versions invisible to it.
-/
import NitroVerif.Lemmas.MvccStore

namespace NitroVerif.Mvcc
open NitroVerif

/-! ### link -/

theorem insertAt_eq {s : List Ver} (hs : Sorted s) (p : Ver) :
    insertAt s p = s.filter (fun x => insLt x p) ++ p :: s.filter (fun x => !insLt x p) := by
  unfold insertAt; rw [findPath_ins_fst hs, findPath_ins_snd hs]

theorem mem_insertAt {s : List Ver} (hs : Sorted s) (p x : Ver) :
    x ∈ insertAt s p ↔ x = p ∨ x ∈ s := by
  rw [insertAt_eq hs]
  simp only [List.mem_append, List.mem_cons, List.mem_filter]
  constructor
  · rintro (h | h | h)
    · exact Or.inr h.1
    · exact Or.inl h
    · exact Or.inr h.1
  · rintro (h | h)
    · exact Or.inr (Or.inl h)
    · cases hb : insLt x p
      · exact Or.inr (Or.inr ⟨h, by simp⟩)
      · exact Or.inl ⟨h, rfl⟩

theorem sorted_insertAt {s : List Ver} (hs : Sorted s) (p : Ver)
    (hno : ∀ y ∈ s, ¬ (y.key = p.key ∧ y.born = p.born)) : Sorted (insertAt s p) := by
  rw [insertAt_eq hs]
  apply sorted_append_iff.mpr
  refine ⟨sorted_filter hs _, ?_, ?_⟩
  · apply List.pairwise_cons.mpr
    refine ⟨?_, sorted_filter hs _⟩
    intro b hb
    have hb' := List.mem_filter.mp hb
    have h1 : ¬ vlt b p := by
      intro hv; have := (insLt_iff _ _).mpr hv; simp [this] at hb'
    rcases vlt_total b p with h | h | h
    · exact absurd h h1
    · exact absurd h (hno b hb'.1)
    · exact h
  · intro a ha b hb
    have ha' := List.mem_filter.mp ha
    have hap : vlt a p := (insLt_iff _ _).mp ha'.2
    rcases List.mem_cons.mp hb with rfl | hb
    · exact hap
    · have hb' := List.mem_filter.mp hb
      have h1 : ¬ vlt b p := by
        intro hv; have := (insLt_iff _ _).mpr hv; simp [this] at hb'
      rcases vlt_total b p with h | h | h
      · exact absurd h h1
      · exact absurd h (hno b hb'.1)
      · exact vlt_trans hap h

theorem chains_insertAt {cur : Nat} {s : List Ver} (hs : Sorted s) (hc : Chains cur s) (k v : Nat)
    (hno : ∀ y ∈ s, y.key = k → y.dead ≠ 0) : Chains cur (insertAt s ⟨k, v, cur, 0⟩) := by
  constructor
  · intro x hx
    rcases (mem_insertAt hs _ x).mp hx with rfl | hx
    · simp
    · exact hc.1 x hx
  · intro a ha b hb hk hlt
    rcases (mem_insertAt hs _ a).mp ha with rfl | ha <;> rcases (mem_insertAt hs _ b).mp hb with rfl | hb
    · simp at hlt
    · have := (hc.1 b hb).1; simp at hlt; omega
    · have h1 := hno a ha (by simpa using hk)
      have h2 := hc.1 a ha
      simp; omega
    · exact hc.2 a ha b hb hk hlt

theorem no_same_id_of_no_alive {cur : Nat} {s : List Ver} (hc : Chains cur s) (k v : Nat)
    (hno : ∀ y ∈ s, y.key = k → y.dead ≠ 0) :
    ∀ y ∈ s, ¬ (y.key = (⟨k, v, cur, 0⟩ : Ver).key ∧ y.born = (⟨k, v, cur, 0⟩ : Ver).born) := by
  intro y hy h
  simp at h
  have h1 := hno y hy h.1
  have h2 := hc.1 y hy
  omega

/-! ### mark dead -/

theorem sorted_markDead {s : List Ver} (hs : Sorted s) (x : Ver) (sn : Nat) :
    Sorted (markDead s x sn) := by
  unfold markDead Sorted
  apply List.Pairwise.map _ _ hs
  intro a b hab
  unfold vlt at *
  split <;> split <;> simpa using hab

theorem mem_markDead {s : List Ver} {x : Ver} {sn : Nat} {y : Ver} (h : y ∈ markDead s x sn) :
    ∃ v ∈ s, y = (if sameId v x then { v with dead := sn } else v) := by
  unfold markDead at h
  obtain ⟨v, hv, rfl⟩ := List.mem_map.mp h
  exact ⟨v, hv, rfl⟩

theorem chains_markDead {cur : Nat} {s : List Ver} (hs : Sorted s) (hc : Chains cur s) {x : Ver}
    (hx : x ∈ s) (hd : x.dead = 0) (hb : x.born < cur) : Chains cur (markDead s x cur) := by
  have hid : ∀ v ∈ s, sameId v x = true → v = x := by
    intro v hv h; have := (sameId_iff v x).mp h
    exact sorted_id_unique hs hv hx this.1 this.2
  constructor
  · intro y hy
    obtain ⟨v, hv, rfl⟩ := mem_markDead hy
    split
    · rename_i h; have := hid v hv h; subst this; simp; omega
    · exact hc.1 v hv
  · intro a ha b hb' hk hlt
    obtain ⟨va, hva, rfl⟩ := mem_markDead ha
    obtain ⟨vb, hvb, rfl⟩ := mem_markDead hb'
    have hk' : va.key = vb.key := by
      revert hk; split <;> split <;> simp
    have hlt' : va.born < vb.born := by
      revert hlt; split <;> split <;> simp
    have h0 := hc.2 va hva vb hvb hk' hlt'
    by_cases h1 : sameId va x = true
    · have := hid va hva h1; subst this; omega
    · by_cases h2 : sameId vb x = true
      · simp [h1, h2]; exact h0
      · simp [h1, h2]; exact h0

/-! ### unlink -/

theorem chains_subset {cur : Nat} {s s' : List Ver} (h : ∀ v ∈ s', v ∈ s) (hc : Chains cur s) :
    Chains cur s' :=
  ⟨fun v hv => hc.1 v (h v hv), fun a ha b hb => hc.2 a (h a ha) b (h b hb)⟩

theorem chains_filter {cur : Nat} {s : List Ver} (hc : Chains cur s) (p : Ver → Bool) :
    Chains cur (s.filter p) := chains_subset (fun _ hv => (List.mem_filter.mp hv).1) hc

theorem chains_mono {cur cur' : Nat} {s : List Ver} (h : cur ≤ cur') (hc : Chains cur s) :
    Chains cur' s := by
  refine ⟨fun v hv => ?_, hc.2⟩
  have := hc.1 v hv
  omega

/-! ### what a snapshot sees -/

theorem filter_filter_of_imp {α : Type} (p q : α → Bool) (l : List α)
    (h : ∀ a ∈ l, q a = false → p a = false) : (l.filter q).filter p = l.filter p := by
  rw [List.filter_filter]
  apply List.filter_congr
  intro a ha
  cases hq : q a
  · simp [h a ha hq]
  · simp

theorem view_insertAt {s : List Ver} (_hs : Sorted s) (p : Ver) (sn : Nat) (hp : sn < p.born) :
    view (insertAt s p) sn = view s sn := by
  have happ := findPath_append insCmp p s
  unfold view insertAt
  have hv : visible sn p = false := by
    cases h : visible sn p
    · rfl
    · have := (visible_iff sn p).mp h; omega
  conv => rhs; rw [← happ]
  simp [List.filter_append, hv]

theorem view_markDead {s : List Ver} (hs : Sorted s) {x : Ver} (hx : x ∈ s) (hd : x.dead = 0)
    (sn cur : Nat) (h : sn < cur) : view (markDead s x cur) sn = view s sn := by
  have hid : ∀ v ∈ s, sameId v x = true → v = x := by
    intro v hv h; have := (sameId_iff v x).mp h
    exact sorted_id_unique hs hv hx this.1 this.2
  unfold view markDead
  rw [List.filter_map, List.map_map]
  have h1 : s.filter (visible sn ∘ fun v => if sameId v x = true then { v with dead := cur } else v)
      = s.filter (visible sn) := by
    apply List.filter_congr
    intro v hv
    simp only [Function.comp]
    split
    · rename_i hsame
      have := hid v hv hsame; subst this
      have e1 := visible_iff sn v
      have e2 := visible_iff sn { v with dead := cur }
      simp only at e2
      cases h1 : visible sn v <;> cases h2 : visible sn { v with dead := cur } <;> simp_all <;> omega
    · rfl
  rw [h1]
  apply List.map_congr_left
  intro v _
  simp only [Function.comp]
  split <;> simp [Ver.norm]

theorem view_filter {s : List Ver} (q : Ver → Bool) (sn : Nat)
    (h : ∀ v ∈ s, q v = false → visible sn v = false) : view (s.filter q) sn = view s sn := by
  unfold view; rw [filter_filter_of_imp _ _ _ h]

end NitroVerif.Mvcc
