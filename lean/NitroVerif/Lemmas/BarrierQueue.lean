import NitroVerif.Model.Barrier
/-!
  The free queue: ordered insertion (`qinsert`, the model of `freeq.Insert` with `CompareBS`).
  When the keys (seqnos) of the sessions involved are `id + 1`, inserting a session that is not
  queued succeeds, keeps the queue strictly sorted by id, adds exactly that session, and does not
  displace a smaller head.
-/
namespace NitroVerif.Barrier

theorem mem_of_count_pos {l : List Nat} {x : Nat} (h : 0 < l.count x) : x ∈ l :=
  List.count_pos_iff.mp h

theorem qinsert_spec (key : Nat → Nat) (s : Nat) (q : List Nat)
    (hk : ∀ x, x ∈ s :: q → key x = x + 1)
    (hs : q.Pairwise (· < ·)) (hn : q.count s = 0) :
    ∃ q', qinsert key s q = some q' ∧ q'.Pairwise (· < ·) ∧
      (∀ x, q'.count x = q.count x + (if s = x then 1 else 0)) ∧
      (∀ a, q.head? = some a → a < s → q'.head? = some a) := by
  induction q with
  | nil =>
    refine ⟨[s], rfl, by simp, ?_, by simp⟩
    intro x; simp [List.count_cons]
  | cons y ys ih =>
    have ks : key s = s + 1 := hk s (by simp)
    have ky : key y = y + 1 := hk y (by simp)
    have hsy : s ≠ y := by
      intro e; subst e; simp at hn
    have hn' : ys.count s = 0 := by
      simp [List.count_cons] at hn; exact hn.1
    rw [List.pairwise_cons] at hs
    by_cases h1 : s < y
    · refine ⟨s :: y :: ys, by simp [qinsert, ks, ky, h1], ?_, ?_, ?_⟩
      · rw [List.pairwise_cons]
        refine ⟨?_, List.pairwise_cons.mpr hs⟩
        intro a ha
        rcases List.mem_cons.mp ha with rfl | ha
        · exact h1
        · exact Nat.lt_trans h1 (hs.1 a ha)
      · intro x; simp [List.count_cons]
      · intro a ha hlt; simp at ha; subst ha; omega
    · have h2 : ¬ key s < key y := by omega
      have h3 : ¬ key s = key y := by omega
      obtain ⟨q', hq, hp, hc, _⟩ := ih (fun x hx => hk x (by
        rcases List.mem_cons.mp hx with rfl | hx
        · simp
        · simp [hx])) hs.2 hn'
      refine ⟨y :: q', by simp [qinsert, h2, h3, hq], ?_, ?_, ?_⟩
      · rw [List.pairwise_cons]
        refine ⟨?_, hp⟩
        intro a ha
        have hca := hc a
        have : 0 < q'.count a := List.count_pos_iff.mpr ha
        by_cases e : s = a
        · subst e; omega
        · simp [e] at hca
          exact hs.1 a (mem_of_count_pos (by omega))
      · intro x; have := hc x; simp [List.count_cons]; omega
      · intro a ha _; simpa using ha

/-- removing the head of a strictly sorted queue -/
theorem erase_head (s : Nat) (r : List Nat) : (s :: r).erase s = r := by simp

theorem count_tail (s : Nat) (r : List Nat) (x : Nat) :
    r.count x + (if s = x then 1 else 0) = (s :: r).count x := by
  simp [List.count_cons]

/-- the head of a strictly sorted list is its least element -/
theorem head_le_of_sorted (a : Nat) (r : List Nat) (hs : (a :: r).Pairwise (· < ·)) (x : Nat)
    (hx : x ∈ a :: r) : a ≤ x := by
  rw [List.pairwise_cons] at hs
  rcases List.mem_cons.mp hx with rfl | hx
  · exact Nat.le_refl _
  · exact Nat.le_of_lt (hs.1 x hx)

end NitroVerif.Barrier
