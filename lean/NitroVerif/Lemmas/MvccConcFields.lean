/-
  GENERATED (by the author's script, checked by Lean): how the primitive state transformers of
  `Model/MvccConc.lean` act on each field of the state.  All `simp` lemmas.
-/
import NitroVerif.Model.MvccConc

namespace NitroVerif.MvccConc

@[simp] theorem setPc_store (σ : State) (t : Nat) (pc : Pc) : (setPc σ t pc).store = σ.store := rfl
@[simp] theorem setPc_unlinked (σ : State) (t : Nat) (pc : Pc) : (setPc σ t pc).unlinked = σ.unlinked := rfl
@[simp] theorem setPc_currSn (σ : State) (t : Nat) (pc : Pc) : (setPc σ t pc).currSn = σ.currSn := rfl
@[simp] theorem setPc_lastGCSn (σ : State) (t : Nat) (pc : Pc) : (setPc σ t pc).lastGCSn = σ.lastGCSn := rfl
@[simp] theorem setPc_itemsCount (σ : State) (t : Nat) (pc : Pc) : (setPc σ t pc).itemsCount = σ.itemsCount := rfl
@[simp] theorem setPc_writers (σ : State) (t : Nat) (pc : Pc) : (setPc σ t pc).writers = σ.writers := rfl
@[simp] theorem setPc_snaps (σ : State) (t : Nat) (pc : Pc) : (setPc σ t pc).snaps = σ.snaps := rfl
@[simp] theorem setPc_gcFlag (σ : State) (t : Nat) (pc : Pc) : (setPc σ t pc).gcFlag = σ.gcFlag := rfl
@[simp] theorem setPc_sess (σ : State) (t : Nat) (pc : Pc) : (setPc σ t pc).sess = σ.sess := rfl
@[simp] theorem setPc_freeSeq (σ : State) (t : Nat) (pc : Pc) : (setPc σ t pc).freeSeq = σ.freeSeq := rfl
@[simp] theorem setPc_gcJobs (σ : State) (t : Nat) (pc : Pc) : (setPc σ t pc).gcJobs = σ.gcJobs := rfl
@[simp] theorem setPc_frJobs (σ : State) (t : Nat) (pc : Pc) : (setPc σ t pc).frJobs = σ.frJobs := rfl
@[simp] theorem setPc_iters (σ : State) (t : Nat) (pc : Pc) : (setPc σ t pc).iters = σ.iters := rfl
@[simp] theorem setPc_nextId (σ : State) (t : Nat) (pc : Pc) : (setPc σ t pc).nextId = σ.nextId := rfl
@[simp] theorem setPc_allocd (σ : State) (t : Nat) (pc : Pc) : (setPc σ t pc).allocd = σ.allocd := rfl
@[simp] theorem setPc_freed (σ : State) (t : Nat) (pc : Pc) : (setPc σ t pc).freed = σ.freed := rfl
@[simp] theorem setPc_bad (σ : State) (t : Nat) (pc : Pc) : (setPc σ t pc).bad = σ.bad := rfl
@[simp] theorem setPc_down (σ : State) (t : Nat) (pc : Pc) : (setPc σ t pc).down = σ.down := rfl
@[simp] theorem setPc_fixedIter (σ : State) (t : Nat) (pc : Pc) : (setPc σ t pc).fixedIter = σ.fixedIter := rfl

@[simp] theorem alloc_store (σ : State) (b : Blk) : (alloc σ b).store = σ.store := rfl
@[simp] theorem alloc_unlinked (σ : State) (b : Blk) : (alloc σ b).unlinked = σ.unlinked := rfl
@[simp] theorem alloc_currSn (σ : State) (b : Blk) : (alloc σ b).currSn = σ.currSn := rfl
@[simp] theorem alloc_lastGCSn (σ : State) (b : Blk) : (alloc σ b).lastGCSn = σ.lastGCSn := rfl
@[simp] theorem alloc_itemsCount (σ : State) (b : Blk) : (alloc σ b).itemsCount = σ.itemsCount := rfl
@[simp] theorem alloc_writers (σ : State) (b : Blk) : (alloc σ b).writers = σ.writers := rfl
@[simp] theorem alloc_snaps (σ : State) (b : Blk) : (alloc σ b).snaps = σ.snaps := rfl
@[simp] theorem alloc_gcFlag (σ : State) (b : Blk) : (alloc σ b).gcFlag = σ.gcFlag := rfl
@[simp] theorem alloc_sess (σ : State) (b : Blk) : (alloc σ b).sess = σ.sess := rfl
@[simp] theorem alloc_freeSeq (σ : State) (b : Blk) : (alloc σ b).freeSeq = σ.freeSeq := rfl
@[simp] theorem alloc_gcJobs (σ : State) (b : Blk) : (alloc σ b).gcJobs = σ.gcJobs := rfl
@[simp] theorem alloc_frJobs (σ : State) (b : Blk) : (alloc σ b).frJobs = σ.frJobs := rfl
@[simp] theorem alloc_threads (σ : State) (b : Blk) : (alloc σ b).threads = σ.threads := rfl
@[simp] theorem alloc_iters (σ : State) (b : Blk) : (alloc σ b).iters = σ.iters := rfl
@[simp] theorem alloc_nextId (σ : State) (b : Blk) : (alloc σ b).nextId = σ.nextId := rfl
@[simp] theorem alloc_freed (σ : State) (b : Blk) : (alloc σ b).freed = σ.freed := rfl
@[simp] theorem alloc_bad (σ : State) (b : Blk) : (alloc σ b).bad = σ.bad := rfl
@[simp] theorem alloc_down (σ : State) (b : Blk) : (alloc σ b).down = σ.down := rfl
@[simp] theorem alloc_fixedIter (σ : State) (b : Blk) : (alloc σ b).fixedIter = σ.fixedIter := rfl

@[simp] theorem free_store (σ : State) (b : Blk) : (free σ b).store = σ.store := by unfold free; split <;> rfl
@[simp] theorem free_unlinked (σ : State) (b : Blk) : (free σ b).unlinked = σ.unlinked := by unfold free; split <;> rfl
@[simp] theorem free_currSn (σ : State) (b : Blk) : (free σ b).currSn = σ.currSn := by unfold free; split <;> rfl
@[simp] theorem free_lastGCSn (σ : State) (b : Blk) : (free σ b).lastGCSn = σ.lastGCSn := by unfold free; split <;> rfl
@[simp] theorem free_itemsCount (σ : State) (b : Blk) : (free σ b).itemsCount = σ.itemsCount := by unfold free; split <;> rfl
@[simp] theorem free_writers (σ : State) (b : Blk) : (free σ b).writers = σ.writers := by unfold free; split <;> rfl
@[simp] theorem free_snaps (σ : State) (b : Blk) : (free σ b).snaps = σ.snaps := by unfold free; split <;> rfl
@[simp] theorem free_gcFlag (σ : State) (b : Blk) : (free σ b).gcFlag = σ.gcFlag := by unfold free; split <;> rfl
@[simp] theorem free_sess (σ : State) (b : Blk) : (free σ b).sess = σ.sess := by unfold free; split <;> rfl
@[simp] theorem free_freeSeq (σ : State) (b : Blk) : (free σ b).freeSeq = σ.freeSeq := by unfold free; split <;> rfl
@[simp] theorem free_gcJobs (σ : State) (b : Blk) : (free σ b).gcJobs = σ.gcJobs := by unfold free; split <;> rfl
@[simp] theorem free_frJobs (σ : State) (b : Blk) : (free σ b).frJobs = σ.frJobs := by unfold free; split <;> rfl
@[simp] theorem free_threads (σ : State) (b : Blk) : (free σ b).threads = σ.threads := by unfold free; split <;> rfl
@[simp] theorem free_iters (σ : State) (b : Blk) : (free σ b).iters = σ.iters := by unfold free; split <;> rfl
@[simp] theorem free_nextId (σ : State) (b : Blk) : (free σ b).nextId = σ.nextId := by unfold free; split <;> rfl
@[simp] theorem free_allocd (σ : State) (b : Blk) : (free σ b).allocd = σ.allocd := by unfold free; split <;> rfl
@[simp] theorem free_down (σ : State) (b : Blk) : (free σ b).down = σ.down := by unfold free; split <;> rfl
@[simp] theorem free_fixedIter (σ : State) (b : Blk) : (free σ b).fixedIter = σ.fixedIter := by unfold free; split <;> rfl

@[simp] theorem cleanup_store (σ : State) : (cleanup σ).store = σ.store := rfl
@[simp] theorem cleanup_unlinked (σ : State) : (cleanup σ).unlinked = σ.unlinked := rfl
@[simp] theorem cleanup_currSn (σ : State) : (cleanup σ).currSn = σ.currSn := rfl
@[simp] theorem cleanup_lastGCSn (σ : State) : (cleanup σ).lastGCSn = σ.lastGCSn := rfl
@[simp] theorem cleanup_itemsCount (σ : State) : (cleanup σ).itemsCount = σ.itemsCount := rfl
@[simp] theorem cleanup_writers (σ : State) : (cleanup σ).writers = σ.writers := rfl
@[simp] theorem cleanup_snaps (σ : State) : (cleanup σ).snaps = σ.snaps := rfl
@[simp] theorem cleanup_gcFlag (σ : State) : (cleanup σ).gcFlag = σ.gcFlag := rfl
@[simp] theorem cleanup_sess (σ : State) : (cleanup σ).sess = σ.sess := rfl
@[simp] theorem cleanup_gcJobs (σ : State) : (cleanup σ).gcJobs = σ.gcJobs := rfl
@[simp] theorem cleanup_threads (σ : State) : (cleanup σ).threads = σ.threads := rfl
@[simp] theorem cleanup_iters (σ : State) : (cleanup σ).iters = σ.iters := rfl
@[simp] theorem cleanup_nextId (σ : State) : (cleanup σ).nextId = σ.nextId := rfl
@[simp] theorem cleanup_allocd (σ : State) : (cleanup σ).allocd = σ.allocd := rfl
@[simp] theorem cleanup_freed (σ : State) : (cleanup σ).freed = σ.freed := rfl
@[simp] theorem cleanup_bad (σ : State) : (cleanup σ).bad = σ.bad := rfl
@[simp] theorem cleanup_down (σ : State) : (cleanup σ).down = σ.down := rfl
@[simp] theorem cleanup_fixedIter (σ : State) : (cleanup σ).fixedIter = σ.fixedIter := rfl

@[simp] theorem acquire_store (σ : State) (h : Holder) : (acquire σ h).store = σ.store := rfl
@[simp] theorem acquire_unlinked (σ : State) (h : Holder) : (acquire σ h).unlinked = σ.unlinked := rfl
@[simp] theorem acquire_currSn (σ : State) (h : Holder) : (acquire σ h).currSn = σ.currSn := rfl
@[simp] theorem acquire_lastGCSn (σ : State) (h : Holder) : (acquire σ h).lastGCSn = σ.lastGCSn := rfl
@[simp] theorem acquire_itemsCount (σ : State) (h : Holder) : (acquire σ h).itemsCount = σ.itemsCount := rfl
@[simp] theorem acquire_writers (σ : State) (h : Holder) : (acquire σ h).writers = σ.writers := rfl
@[simp] theorem acquire_snaps (σ : State) (h : Holder) : (acquire σ h).snaps = σ.snaps := rfl
@[simp] theorem acquire_gcFlag (σ : State) (h : Holder) : (acquire σ h).gcFlag = σ.gcFlag := rfl
@[simp] theorem acquire_freeSeq (σ : State) (h : Holder) : (acquire σ h).freeSeq = σ.freeSeq := rfl
@[simp] theorem acquire_gcJobs (σ : State) (h : Holder) : (acquire σ h).gcJobs = σ.gcJobs := rfl
@[simp] theorem acquire_frJobs (σ : State) (h : Holder) : (acquire σ h).frJobs = σ.frJobs := rfl
@[simp] theorem acquire_threads (σ : State) (h : Holder) : (acquire σ h).threads = σ.threads := rfl
@[simp] theorem acquire_iters (σ : State) (h : Holder) : (acquire σ h).iters = σ.iters := rfl
@[simp] theorem acquire_nextId (σ : State) (h : Holder) : (acquire σ h).nextId = σ.nextId := rfl
@[simp] theorem acquire_allocd (σ : State) (h : Holder) : (acquire σ h).allocd = σ.allocd := rfl
@[simp] theorem acquire_freed (σ : State) (h : Holder) : (acquire σ h).freed = σ.freed := rfl
@[simp] theorem acquire_bad (σ : State) (h : Holder) : (acquire σ h).bad = σ.bad := rfl
@[simp] theorem acquire_down (σ : State) (h : Holder) : (acquire σ h).down = σ.down := rfl
@[simp] theorem acquire_fixedIter (σ : State) (h : Holder) : (acquire σ h).fixedIter = σ.fixedIter := rfl

@[simp] theorem release_store (σ : State) (tok : Nat) (h : Holder) : (release σ tok h).store = σ.store := rfl
@[simp] theorem release_unlinked (σ : State) (tok : Nat) (h : Holder) : (release σ tok h).unlinked = σ.unlinked := rfl
@[simp] theorem release_currSn (σ : State) (tok : Nat) (h : Holder) : (release σ tok h).currSn = σ.currSn := rfl
@[simp] theorem release_lastGCSn (σ : State) (tok : Nat) (h : Holder) : (release σ tok h).lastGCSn = σ.lastGCSn := rfl
@[simp] theorem release_itemsCount (σ : State) (tok : Nat) (h : Holder) : (release σ tok h).itemsCount = σ.itemsCount := rfl
@[simp] theorem release_writers (σ : State) (tok : Nat) (h : Holder) : (release σ tok h).writers = σ.writers := rfl
@[simp] theorem release_snaps (σ : State) (tok : Nat) (h : Holder) : (release σ tok h).snaps = σ.snaps := rfl
@[simp] theorem release_gcFlag (σ : State) (tok : Nat) (h : Holder) : (release σ tok h).gcFlag = σ.gcFlag := rfl
@[simp] theorem release_gcJobs (σ : State) (tok : Nat) (h : Holder) : (release σ tok h).gcJobs = σ.gcJobs := rfl
@[simp] theorem release_threads (σ : State) (tok : Nat) (h : Holder) : (release σ tok h).threads = σ.threads := rfl
@[simp] theorem release_iters (σ : State) (tok : Nat) (h : Holder) : (release σ tok h).iters = σ.iters := rfl
@[simp] theorem release_nextId (σ : State) (tok : Nat) (h : Holder) : (release σ tok h).nextId = σ.nextId := rfl
@[simp] theorem release_allocd (σ : State) (tok : Nat) (h : Holder) : (release σ tok h).allocd = σ.allocd := rfl
@[simp] theorem release_freed (σ : State) (tok : Nat) (h : Holder) : (release σ tok h).freed = σ.freed := rfl
@[simp] theorem release_bad (σ : State) (tok : Nat) (h : Holder) : (release σ tok h).bad = σ.bad := rfl
@[simp] theorem release_down (σ : State) (tok : Nat) (h : Holder) : (release σ tok h).down = σ.down := rfl
@[simp] theorem release_fixedIter (σ : State) (tok : Nat) (h : Holder) : (release σ tok h).fixedIter = σ.fixedIter := rfl

@[simp] theorem flush_store (σ : State) (l : List Nat) : (flush σ l).store = σ.store := rfl
@[simp] theorem flush_unlinked (σ : State) (l : List Nat) : (flush σ l).unlinked = σ.unlinked := rfl
@[simp] theorem flush_currSn (σ : State) (l : List Nat) : (flush σ l).currSn = σ.currSn := rfl
@[simp] theorem flush_lastGCSn (σ : State) (l : List Nat) : (flush σ l).lastGCSn = σ.lastGCSn := rfl
@[simp] theorem flush_itemsCount (σ : State) (l : List Nat) : (flush σ l).itemsCount = σ.itemsCount := rfl
@[simp] theorem flush_writers (σ : State) (l : List Nat) : (flush σ l).writers = σ.writers := rfl
@[simp] theorem flush_snaps (σ : State) (l : List Nat) : (flush σ l).snaps = σ.snaps := rfl
@[simp] theorem flush_gcFlag (σ : State) (l : List Nat) : (flush σ l).gcFlag = σ.gcFlag := rfl
@[simp] theorem flush_gcJobs (σ : State) (l : List Nat) : (flush σ l).gcJobs = σ.gcJobs := rfl
@[simp] theorem flush_threads (σ : State) (l : List Nat) : (flush σ l).threads = σ.threads := rfl
@[simp] theorem flush_iters (σ : State) (l : List Nat) : (flush σ l).iters = σ.iters := rfl
@[simp] theorem flush_nextId (σ : State) (l : List Nat) : (flush σ l).nextId = σ.nextId := rfl
@[simp] theorem flush_allocd (σ : State) (l : List Nat) : (flush σ l).allocd = σ.allocd := rfl
@[simp] theorem flush_freed (σ : State) (l : List Nat) : (flush σ l).freed = σ.freed := rfl
@[simp] theorem flush_bad (σ : State) (l : List Nat) : (flush σ l).bad = σ.bad := rfl
@[simp] theorem flush_down (σ : State) (l : List Nat) : (flush σ l).down = σ.down := rfl
@[simp] theorem flush_fixedIter (σ : State) (l : List Nat) : (flush σ l).fixedIter = σ.fixedIter := rfl

@[simp] theorem setGc_store (σ : State) (j : Nat) (job : GcJob) : (setGc σ j job).store = σ.store := rfl
@[simp] theorem setGc_unlinked (σ : State) (j : Nat) (job : GcJob) : (setGc σ j job).unlinked = σ.unlinked := rfl
@[simp] theorem setGc_currSn (σ : State) (j : Nat) (job : GcJob) : (setGc σ j job).currSn = σ.currSn := rfl
@[simp] theorem setGc_lastGCSn (σ : State) (j : Nat) (job : GcJob) : (setGc σ j job).lastGCSn = σ.lastGCSn := rfl
@[simp] theorem setGc_itemsCount (σ : State) (j : Nat) (job : GcJob) : (setGc σ j job).itemsCount = σ.itemsCount := rfl
@[simp] theorem setGc_writers (σ : State) (j : Nat) (job : GcJob) : (setGc σ j job).writers = σ.writers := rfl
@[simp] theorem setGc_snaps (σ : State) (j : Nat) (job : GcJob) : (setGc σ j job).snaps = σ.snaps := rfl
@[simp] theorem setGc_gcFlag (σ : State) (j : Nat) (job : GcJob) : (setGc σ j job).gcFlag = σ.gcFlag := rfl
@[simp] theorem setGc_sess (σ : State) (j : Nat) (job : GcJob) : (setGc σ j job).sess = σ.sess := rfl
@[simp] theorem setGc_freeSeq (σ : State) (j : Nat) (job : GcJob) : (setGc σ j job).freeSeq = σ.freeSeq := rfl
@[simp] theorem setGc_frJobs (σ : State) (j : Nat) (job : GcJob) : (setGc σ j job).frJobs = σ.frJobs := rfl
@[simp] theorem setGc_threads (σ : State) (j : Nat) (job : GcJob) : (setGc σ j job).threads = σ.threads := rfl
@[simp] theorem setGc_iters (σ : State) (j : Nat) (job : GcJob) : (setGc σ j job).iters = σ.iters := rfl
@[simp] theorem setGc_nextId (σ : State) (j : Nat) (job : GcJob) : (setGc σ j job).nextId = σ.nextId := rfl
@[simp] theorem setGc_allocd (σ : State) (j : Nat) (job : GcJob) : (setGc σ j job).allocd = σ.allocd := rfl
@[simp] theorem setGc_freed (σ : State) (j : Nat) (job : GcJob) : (setGc σ j job).freed = σ.freed := rfl
@[simp] theorem setGc_bad (σ : State) (j : Nat) (job : GcJob) : (setGc σ j job).bad = σ.bad := rfl
@[simp] theorem setGc_down (σ : State) (j : Nat) (job : GcJob) : (setGc σ j job).down = σ.down := rfl
@[simp] theorem setGc_fixedIter (σ : State) (j : Nat) (job : GcJob) : (setGc σ j job).fixedIter = σ.fixedIter := rfl

@[simp] theorem setFr_store (σ : State) (j : Nat) (job : FrJob) : (setFr σ j job).store = σ.store := rfl
@[simp] theorem setFr_unlinked (σ : State) (j : Nat) (job : FrJob) : (setFr σ j job).unlinked = σ.unlinked := rfl
@[simp] theorem setFr_currSn (σ : State) (j : Nat) (job : FrJob) : (setFr σ j job).currSn = σ.currSn := rfl
@[simp] theorem setFr_lastGCSn (σ : State) (j : Nat) (job : FrJob) : (setFr σ j job).lastGCSn = σ.lastGCSn := rfl
@[simp] theorem setFr_itemsCount (σ : State) (j : Nat) (job : FrJob) : (setFr σ j job).itemsCount = σ.itemsCount := rfl
@[simp] theorem setFr_writers (σ : State) (j : Nat) (job : FrJob) : (setFr σ j job).writers = σ.writers := rfl
@[simp] theorem setFr_snaps (σ : State) (j : Nat) (job : FrJob) : (setFr σ j job).snaps = σ.snaps := rfl
@[simp] theorem setFr_gcFlag (σ : State) (j : Nat) (job : FrJob) : (setFr σ j job).gcFlag = σ.gcFlag := rfl
@[simp] theorem setFr_sess (σ : State) (j : Nat) (job : FrJob) : (setFr σ j job).sess = σ.sess := rfl
@[simp] theorem setFr_freeSeq (σ : State) (j : Nat) (job : FrJob) : (setFr σ j job).freeSeq = σ.freeSeq := rfl
@[simp] theorem setFr_gcJobs (σ : State) (j : Nat) (job : FrJob) : (setFr σ j job).gcJobs = σ.gcJobs := rfl
@[simp] theorem setFr_threads (σ : State) (j : Nat) (job : FrJob) : (setFr σ j job).threads = σ.threads := rfl
@[simp] theorem setFr_iters (σ : State) (j : Nat) (job : FrJob) : (setFr σ j job).iters = σ.iters := rfl
@[simp] theorem setFr_nextId (σ : State) (j : Nat) (job : FrJob) : (setFr σ j job).nextId = σ.nextId := rfl
@[simp] theorem setFr_allocd (σ : State) (j : Nat) (job : FrJob) : (setFr σ j job).allocd = σ.allocd := rfl
@[simp] theorem setFr_freed (σ : State) (j : Nat) (job : FrJob) : (setFr σ j job).freed = σ.freed := rfl
@[simp] theorem setFr_bad (σ : State) (j : Nat) (job : FrJob) : (setFr σ j job).bad = σ.bad := rfl
@[simp] theorem setFr_down (σ : State) (j : Nat) (job : FrJob) : (setFr σ j job).down = σ.down := rfl
@[simp] theorem setFr_fixedIter (σ : State) (j : Nat) (job : FrJob) : (setFr σ j job).fixedIter = σ.fixedIter := rfl

@[simp] theorem freeNodes_store : ∀ (l : List Nat) (σ : State), (freeNodes σ l).store = σ.store
  | [], _ => rfl
  | n :: r, σ => by unfold freeNodes; rw [freeNodes_store r]; simp
@[simp] theorem freeNodes_unlinked : ∀ (l : List Nat) (σ : State), (freeNodes σ l).unlinked = σ.unlinked
  | [], _ => rfl
  | n :: r, σ => by unfold freeNodes; rw [freeNodes_unlinked r]; simp
@[simp] theorem freeNodes_currSn : ∀ (l : List Nat) (σ : State), (freeNodes σ l).currSn = σ.currSn
  | [], _ => rfl
  | n :: r, σ => by unfold freeNodes; rw [freeNodes_currSn r]; simp
@[simp] theorem freeNodes_lastGCSn : ∀ (l : List Nat) (σ : State), (freeNodes σ l).lastGCSn = σ.lastGCSn
  | [], _ => rfl
  | n :: r, σ => by unfold freeNodes; rw [freeNodes_lastGCSn r]; simp
@[simp] theorem freeNodes_itemsCount : ∀ (l : List Nat) (σ : State), (freeNodes σ l).itemsCount = σ.itemsCount
  | [], _ => rfl
  | n :: r, σ => by unfold freeNodes; rw [freeNodes_itemsCount r]; simp
@[simp] theorem freeNodes_writers : ∀ (l : List Nat) (σ : State), (freeNodes σ l).writers = σ.writers
  | [], _ => rfl
  | n :: r, σ => by unfold freeNodes; rw [freeNodes_writers r]; simp
@[simp] theorem freeNodes_snaps : ∀ (l : List Nat) (σ : State), (freeNodes σ l).snaps = σ.snaps
  | [], _ => rfl
  | n :: r, σ => by unfold freeNodes; rw [freeNodes_snaps r]; simp
@[simp] theorem freeNodes_gcFlag : ∀ (l : List Nat) (σ : State), (freeNodes σ l).gcFlag = σ.gcFlag
  | [], _ => rfl
  | n :: r, σ => by unfold freeNodes; rw [freeNodes_gcFlag r]; simp
@[simp] theorem freeNodes_sess : ∀ (l : List Nat) (σ : State), (freeNodes σ l).sess = σ.sess
  | [], _ => rfl
  | n :: r, σ => by unfold freeNodes; rw [freeNodes_sess r]; simp
@[simp] theorem freeNodes_freeSeq : ∀ (l : List Nat) (σ : State), (freeNodes σ l).freeSeq = σ.freeSeq
  | [], _ => rfl
  | n :: r, σ => by unfold freeNodes; rw [freeNodes_freeSeq r]; simp
@[simp] theorem freeNodes_gcJobs : ∀ (l : List Nat) (σ : State), (freeNodes σ l).gcJobs = σ.gcJobs
  | [], _ => rfl
  | n :: r, σ => by unfold freeNodes; rw [freeNodes_gcJobs r]; simp
@[simp] theorem freeNodes_frJobs : ∀ (l : List Nat) (σ : State), (freeNodes σ l).frJobs = σ.frJobs
  | [], _ => rfl
  | n :: r, σ => by unfold freeNodes; rw [freeNodes_frJobs r]; simp
@[simp] theorem freeNodes_threads : ∀ (l : List Nat) (σ : State), (freeNodes σ l).threads = σ.threads
  | [], _ => rfl
  | n :: r, σ => by unfold freeNodes; rw [freeNodes_threads r]; simp
@[simp] theorem freeNodes_iters : ∀ (l : List Nat) (σ : State), (freeNodes σ l).iters = σ.iters
  | [], _ => rfl
  | n :: r, σ => by unfold freeNodes; rw [freeNodes_iters r]; simp
@[simp] theorem freeNodes_nextId : ∀ (l : List Nat) (σ : State), (freeNodes σ l).nextId = σ.nextId
  | [], _ => rfl
  | n :: r, σ => by unfold freeNodes; rw [freeNodes_nextId r]; simp
@[simp] theorem freeNodes_allocd : ∀ (l : List Nat) (σ : State), (freeNodes σ l).allocd = σ.allocd
  | [], _ => rfl
  | n :: r, σ => by unfold freeNodes; rw [freeNodes_allocd r]; simp
@[simp] theorem freeNodes_down : ∀ (l : List Nat) (σ : State), (freeNodes σ l).down = σ.down
  | [], _ => rfl
  | n :: r, σ => by unfold freeNodes; rw [freeNodes_down r]; simp
@[simp] theorem freeNodes_fixedIter : ∀ (l : List Nat) (σ : State), (freeNodes σ l).fixedIter = σ.fixedIter
  | [], _ => rfl
  | n :: r, σ => by unfold freeNodes; rw [freeNodes_fixedIter r]; simp

@[simp] theorem setPc_threads' (σ : State) (t : Nat) (pc : Pc) : (setPc σ t pc).threads = σ.threads.set t pc := rfl
@[simp] theorem alloc_allocd' (σ : State) (b : Blk) : (alloc σ b).allocd = σ.allocd ++ [b] := rfl
@[simp] theorem setGc_gcJobs' (σ : State) (j : Nat) (job : GcJob) : (setGc σ j job).gcJobs = σ.gcJobs.set j job := rfl
@[simp] theorem setFr_frJobs' (σ : State) (j : Nat) (job : FrJob) : (setFr σ j job).frJobs = σ.frJobs.set j job := rfl
@[simp] theorem acquire_sess' (σ : State) (h : Holder) : (acquire σ h).sess = acqSess σ.sess h := rfl
@[simp] theorem cleanup_freeSeq' (σ : State) :
    (cleanup σ).freeSeq = σ.freeSeq + (readySess σ.sess σ.freeSeq).length := rfl
@[simp] theorem cleanup_frJobs' (σ : State) :
    (cleanup σ).frJobs = σ.frJobs ++ newFrJobs (readySess σ.sess σ.freeSeq) := rfl
@[simp] theorem release_sess' (σ : State) (tok : Nat) (h : Holder) : (release σ tok h).sess = relSess σ.sess tok h := rfl
@[simp] theorem release_freeSeq' (σ : State) (tok : Nat) (h : Holder) :
    (release σ tok h).freeSeq = σ.freeSeq + (readySess (relSess σ.sess tok h) σ.freeSeq).length := rfl
@[simp] theorem release_frJobs' (σ : State) (tok : Nat) (h : Holder) :
    (release σ tok h).frJobs = σ.frJobs ++ newFrJobs (readySess (relSess σ.sess tok h) σ.freeSeq) := rfl
@[simp] theorem flush_sess' (σ : State) (l : List Nat) : (flush σ l).sess = flushSess σ.sess l := rfl
@[simp] theorem flush_freeSeq' (σ : State) (l : List Nat) :
    (flush σ l).freeSeq = σ.freeSeq + (readySess (flushSess σ.sess l) σ.freeSeq).length := rfl
@[simp] theorem flush_frJobs' (σ : State) (l : List Nat) :
    (flush σ l).frJobs = σ.frJobs ++ newFrJobs (readySess (flushSess σ.sess l) σ.freeSeq) := rfl

end NitroVerif.MvccConc
