import NitroVerif.Lemmas.SkipConcScanMono
/-!
  Whole-scan reasoning, part 4: every position a call of the scan returns is on the level-0 chain from the head in
  the state of the return (`actG_return_reach`, behind `C15_present_partial`).
-/
namespace NitroVerif.SkipConc
open NitroVerif

/-! ### every returned position is on the chain in the state of the return -/

theorem ghostAct_start_none {t it : Nat} {s : Sys} {g : Ghost} {t' : Nat} {op : Op} (h : s.threads[t']? = none) :
    ghostAct t it s g (.start t' op) = g := by
  simp [ghostAct, h]

theorem ghostAct_start_some {t it : Nat} {s : Sys} {g : Ghost} {t' : Nat} {op : Op} {th : Thread}
    (h : s.threads[t']? = some th) :
    ghostAct t it s g (.start t' op) = if t' = t ∧ isIdle th.pc = true then g.onStart it s.sh th op else g := by
  simp [ghostAct, h]

theorem ghostAct_step_none {t it : Nat} {s : Sys} {g : Ghost} {t' : Nat} (h : s.threads[t']? = none) :
    ghostAct t it s g (.step t') = g := by
  simp [ghostAct, h]

theorem ghostAct_step_some {t it : Nat} {s : Sys} {g : Ghost} {t' : Nat} {th : Thread}
    (h : s.threads[t']? = some th) :
    ghostAct t it s g (.step t') = if t' = t then g.onStep it th (stepThread s.sh th) else g := by
  simp [ghostAct, h]

/-- an action that makes a call of the scan return a position (`returns` grows): the position recorded is a
    published node that is ON THE LEVEL-0 CHAIN FROM THE HEAD in the state of the return; if the returning segment
    was the end of a findPath (Seek, the re-search of Next, the Seek of the automatic or of an explicit Refresh) it is
    the tail or unmarked.  (An explicit refresh that lands on the last position again also counts as a return: the
    position "recorded" is then that last position, `positions` itself is unchanged.) -/
theorem actG_return_reach {t it : Nat} {s : Sys} {g : Ghost} (hI : InvS s) (a : Action)
    (hr : (ghostAct t it s g a).returns = g.returns + 1) :
    ∃ c ps0, (ghostAct t it s g a).positions = ps0 ++ [c] ∧ c < (s.act a).sh.heap.length ∧
      Reach (s.act a).sh.heap 0 c ∧
      (∀ th, s.threads[t]? = some th → (searchOf th.pc).isSome → c = 1 ∨ unmarked0 (s.act a).sh.heap c) := by
  have hI' := act_invS hI a
  cases a with
  | start t' op =>
    simp only [Sys.act] at hI' ⊢
    cases hth : s.threads[t']? with
    | none => rw [ghostAct_start_none hth] at hr; omega
    | some th =>
      rw [ghostAct_start_some hth] at hr ⊢
      by_cases hc : t' = t ∧ isIdle th.pc = true
      · rw [if_pos hc] at hr ⊢
        obtain ⟨htt, hidle⟩ := hc
        subst htt
        have hidle' := (isIdle_iff _).mp hidle
        rw [Sys.start_idle hth hidle] at hI' ⊢
        have hT' : TInv s.sh.heap (startOp s.sh th op).2.1 := by
          have := hI'.1.1.2 _ (List.mem_of_getElem? (getElem?_set_self' (x := (startOp s.sh th op).2.1) hth))
          simp only [] at this
          rw [startOp_heap] at this
          exact this
        simp only []
        rw [startOp_heap]
        have H := hI.1.1.1
        cases op with
        | itFirst it' =>
          by_cases hi : it' = it
          · subst hi
            simp only [Ghost.onStart, if_true]
            have hcur : ((startOp s.sh th (.itFirst it')).2.1.iter it').curr = (getNext s.sh.heap headId 0).1 := by
              simp only [startOp]
              rw [moveIter_iter]
            refine ⟨_, [], rfl, (hT'.2.1.iter H.len it').2, ?_, ?_⟩
            · rw [hcur]
              obtain ⟨⟨p, m⟩, hw⟩ := Option.isSome_iff_exists.mp (H.word0 0 (by have := H.len; omega) (by omega))
              show Reach s.sh.heap 0 (getNext s.sh.heap 0 0).1
              rw [getNext_of_word hw]
              exact .single hw
            · intro th0 h0 hsr
              rw [hth] at h0
              simp at h0
              rw [← h0, hidle'] at hsr
              simp [searchOf] at hsr
          · simp only [Ghost.onStart, if_neg hi] at hr
            omega
        | itSeek it' x =>
          simp only [Ghost.onStart] at hr
          split at hr <;> simp at hr
        | itClose it' =>
          simp only [Ghost.onStart] at hr
          split at hr <;> simp at hr
        | ins k l => simp [Ghost.onStart] at hr
        | del k => simp [Ghost.onStart] at hr
        | look k => simp [Ghost.onStart] at hr
        | itNext it' => simp [Ghost.onStart] at hr
        | itInterval it' n => simp [Ghost.onStart] at hr
        | itRefresh it' =>
          simp only [Ghost.onStart] at hr
          split at hr <;> simp at hr
      · rw [if_neg hc] at hr; omega
  | step t' =>
    simp only [Sys.act] at hI' ⊢
    cases hth : s.threads[t']? with
    | none => rw [ghostAct_step_none hth] at hr; omega
    | some th =>
      rw [ghostAct_step_some hth] at hr ⊢
      by_cases htt : t' = t
      · rw [if_pos htt] at hr ⊢
        subst htt
        by_cases hc : pcIter th.pc = some it ∧ isIdle (stepThread s.sh th).2.1.pc = true
        · obtain ⟨hown, hidle⟩ := hc
          obtain ⟨_, _, _, _, hpos⟩ := g.onStep_ret it th (stepThread s.sh th) hown hidle
          have hne : th.pc ≠ .idle := by
            intro e; rw [e] at hown; simp [pcIter] at hown
          rw [Sys.step_busy hth hne] at hI' ⊢
          have hT := hI.1.1.2 th (List.mem_of_getElem? hth)
          have hT' : TInv (stepThread s.sh th).1.heap (stepThread s.sh th).2.1 :=
            hI'.1.1.2 _ (List.mem_of_getElem? (getElem?_set_self' (x := (stepThread s.sh th).2.1) hth))
          obtain ⟨h1, h2⟩ := arrive_reach hI.1.1.1 hI.1.2 hT hI'.1.2 hown (.inl ((isIdle_iff _).mp hidle))
          have hps : ∃ ps0, (g.onStep it th (stepThread s.sh th)).positions =
              ps0 ++ [((stepThread s.sh th).2.1.iter it).curr] := by
            rcases hpos with ⟨e1, _, _, hl⟩ | ⟨e1, _⟩
            · rw [e1]; exact List.getLast?_eq_some_iff.mp hl
            · exact ⟨g.positions, e1⟩
          obtain ⟨ps0, hps⟩ := hps
          refine ⟨_, ps0, hps, (hT'.2.1.iter hI'.1.1.1.len it).2, h1, ?_⟩
          intro th0 h0 hsr
          rw [hth] at h0
          simp at h0
          rw [← h0] at hsr
          exact h2 hsr
        · unfold Ghost.onStep at hr
          rw [if_neg hc] at hr; omega
      · rw [if_neg htt] at hr; omega

/-- THE RECORDING RULE OF AN EXPLICIT REFRESH.  A segment `step t'` that makes a call return a position while an
    explicit refresh is in progress (`refreshing`): it is a segment of the scanning thread, the flag is cleared, and
    with `c` the cursor of the iterator in the resulting state either `c` is already the last position and
    `positions` is unchanged, or `c` is not the last position and is appended. -/
theorem actG_refresh_return {t it : Nat} {s : Sys} {g : Ghost} (t' : Nat) (hrf : g.refreshing = true)
    (hr : (ghostAct t it s g (.step t')).returns = g.returns + 1) :
    t' = t ∧ (ghostAct t it s g (.step t')).refreshing = false ∧
    ∃ th' c, (s.act (.step t')).threads[t]? = some th' ∧ (th'.iter it).curr = c ∧
      (((ghostAct t it s g (.step t')).positions = g.positions ∧ g.positions.getLast? = some c) ∨
       ((ghostAct t it s g (.step t')).positions = g.positions ++ [c] ∧ g.positions.getLast? ≠ some c)) := by
  cases hth : s.threads[t']? with
  | none => rw [ghostAct_step_none hth] at hr; omega
  | some th =>
    rw [ghostAct_step_some hth] at hr ⊢
    by_cases htt : t' = t
    · rw [if_pos htt] at hr ⊢
      subst htt
      by_cases hc : pcIter th.pc = some it ∧ isIdle (stepThread s.sh th).2.1.pc = true
      · obtain ⟨hown, hidle⟩ := hc
        have hne : th.pc ≠ .idle := by
          intro e; rw [e] at hown; simp [pcIter] at hown
        obtain ⟨_, _, _, _, hpos⟩ := g.onStep_ret it th (stepThread s.sh th) hown hidle
        refine ⟨rfl, ?_, (stepThread s.sh th).2.1, _, ?_, rfl, ?_⟩
        · unfold Ghost.onStep
          rw [if_pos ⟨hown, hidle⟩]
          split <;> rfl
        · simp only [Sys.act]
          rw [Sys.step_busy hth hne]
          exact getElem?_set_self' hth
        · rcases hpos with ⟨e1, _, _, hl⟩ | ⟨e1, _, hn⟩
          · exact .inl ⟨e1, hl⟩
          · exact .inr ⟨e1, fun hl => hn ⟨hrf, hl⟩⟩
      · unfold Ghost.onStep at hr
        rw [if_neg hc] at hr; omega
    · rw [if_neg htt] at hr; omega

end NitroVerif.SkipConc
