import NitroVerif.Lemmas.SkipSeqRun
/-!
  Specification-level facts used by C13: scripts compose, and a handle whose node was deleted stays
  dead until the script re-binds the handle name.
-/
namespace NitroVerif.OrdSet
open NitroVerif.SkipSeq

theorem specRun_append (sp : SpecSt) (a b : List Op) :
    specRun sp (a ++ b) = ((specRun (specRun sp a).1 b).1, (specRun sp a).2 ++ (specRun (specRun sp a).1 b).2) := by
  induction a generalizing sp with
  | nil => simp [specRun]
  | cons op r ih => simp [specRun, ih]

theorem specRun_outs_length (sp : SpecSt) (a : List Op) : (specRun sp a).2.length = a.length := by
  induction a generalizing sp with
  | nil => simp [specRun]
  | cons op r ih => simp [specRun, ih]

theorem findHandle_cons (e : String × Int × Bool) (r : List (String × Int × Bool)) (h : String) :
    findHandle (e :: r) h = if e.1 = h then some e.2 else findHandle r h := by
  by_cases hn : e.1 = h <;> simp [findHandle, List.find?_cons, hn]

theorem kill_cons (k' : Int) (e : String × Int × Bool) (r : List (String × Int × Bool)) :
    kill k' (e :: r) = (if e.2.1 = k' then (e.1, e.2.1, false) else e) :: kill k' r := by
  simp [kill]

theorem findHandle_kill (k' : Int) (h : String) (hs : List (String × Int × Bool)) :
    findHandle (kill k' hs) h
      = (findHandle hs h).map fun e => if e.1 = k' then (e.1, false) else e := by
  induction hs with
  | nil => simp [findHandle, kill]
  | cons e r ih =>
    rw [kill_cons, findHandle_cons, findHandle_cons]
    by_cases hk : e.2.1 = k'
    · by_cases hn : e.1 = h
      · simp [hk, hn]
      · simp only [hk, if_true, hn, if_false]; exact ih
    · by_cases hn : e.1 = h
      · simp [hk, hn]
      · simp only [hk, if_false, hn]; exact ih

/-- the handle `h` is bound to a node that has been deleted -/
def DeadHandle (sp : SpecSt) (h : String) : Prop := ∃ k, findHandle sp.handles h = some (k, false)

theorem deadHandle_kill {sp : SpecSt} {h : String} (hd : DeadHandle sp h) (k' : Int) (set' : List Int) :
    DeadHandle { set := set', handles := kill k' sp.handles } h := by
  rcases hd with ⟨k, hk⟩
  refine ⟨k, ?_⟩
  simp only
  rw [findHandle_kill, hk]
  by_cases h1 : k = k' <;> simp [h1]

theorem deadHandle_step {sp : SpecSt} {h : String} (hd : DeadHandle sp h) (op : Op)
    (hop : ∀ k, op ≠ .getnode k h) : DeadHandle (specStep sp op).1 h := by
  cases op with
  | ins k lvl =>
    simp only [specStep]
    split
    · exact hd
    · exact hd
  | del k =>
    simp only [specStep]
    split
    · exact deadHandle_kill hd _ _
    · exact hd
  | look k => exact hd
  | getnode k h' =>
    have hne : h' ≠ h := fun e => hop k (by rw [e])
    simp only [specStep]
    split
    · rcases hd with ⟨k0, hk0⟩
      refine ⟨k0, ?_⟩
      simp only
      rw [findHandle_cons, if_neg hne]; exact hk0
    · exact hd
  | delnode h' =>
    simp only [specStep]
    split
    · split
      · exact deadHandle_kill hd _ _
      · exact hd
    · exact hd
  | iter => exact hd
  | seek k => exact hd

theorem deadHandle_run {h : String} : ∀ (ops : List Op) (sp : SpecSt), DeadHandle sp h →
    (∀ op ∈ ops, ∀ k, op ≠ .getnode k h) → DeadHandle (specRun sp ops).1 h := by
  intro ops
  induction ops with
  | nil => intro sp hd _; exact hd
  | cons op r ih =>
    intro sp hd hops
    simp only [specRun]
    exact ih _ (deadHandle_step hd op (hops op (by simp))) (fun o ho => hops o (List.mem_cons_of_mem _ ho))

/-- a successful `delnode h` leaves the handle dead -/
theorem delnode_true_dead {sp : SpecSt} {h : String} (ht : (specStep sp (.delnode h)).2 = .bool true) :
    DeadHandle (specStep sp (.delnode h)).1 h := by
  simp only [specStep] at ht ⊢
  cases hf : findHandle sp.handles h with
  | none => simp [hf] at ht
  | some e =>
    rcases e with ⟨k, live⟩
    cases live with
    | false => simp [hf] at ht
    | true =>
      simp only [hf, if_true]
      refine ⟨k, ?_⟩
      simp only
      rw [findHandle_kill, hf]
      simp

/-- `delnode` on a dead handle fails -/
theorem delnode_dead_false {sp : SpecSt} {h : String} (hd : DeadHandle sp h) :
    (specStep sp (.delnode h)).2 = .bool false := by
  rcases hd with ⟨k, hk⟩
  simp [specStep, hk]

end NitroVerif.OrdSet
