/-
  One step of the machine against the specification (part 2): NewSnapshot, the collection jobs, and the
  bystanders of a winning Delete.
-/
import NitroVerif.Lemmas.MvccConcLinStep1

namespace NitroVerif.MvccConc
open NitroVerif
open NitroVerif.SetSpec (Op Out)
open NitroVerif.Mvcc (Ver Sorted Chains isAlive)

/-! ### NewSnapshot -/

theorem stepOK_snap {σ : State} {sp : SetSpec.State} (hi : Inv σ) (hd : σ.down = false) (habs : Abs σ sp) :
    StepOK σ sp .snap := by
  by_cases hg : writersIdle σ = true
  · have hst : step σ .snap = snap σ := by rw [step_eq_of_not_down hd]; simp only [hg, if_true]
    have hev : events σ .snap = [.snap (.snap σ.currSn (σ.itemsCount + (σ.writers.map (·.count)).sum))] := by
      simp [events, calls, lins, rets, hd, hg]
    have hcount : ((sp.alive.map (fun e => (e.key, e.val))).length : Int) =
        σ.itemsCount + (σ.writers.map (·.count)).sum := by
      rw [List.length_map, habs.alive, absAlive_length]
      exact hi.store.cnt.symm
    refine ⟨⟨(SetSpec.step sp .snap).1, ?_, ?_⟩, ?_⟩
    · rw [hev]
      have : (SetSpec.step sp .snap).2 = .snap σ.currSn (σ.itemsCount + (σ.writers.map (·.count)).sum) := by
        simp only [SetSpec.step, habs.epoch]
        rw [← hcount]
      simp only [replay, specStep, this, if_true]
    · rw [hst]
      refine ⟨?_, ?_, ?_⟩
      · show (SetSpec.step sp .snap).1.nwriters = (σ.writers.map (fun _ => (⟨0, []⟩ : Writer))).length
        rw [List.length_map]; exact habs.nw
      · exact habs.alive
      · show (SetSpec.step sp .snap).1.epoch = σ.currSn + 1
        simp only [SetSpec.step]; rw [habs.epoch]
    · intro t' p hp
      rw [hev, hst, phaseOf_others (by intro e hm; simp at hm; subst hm; simp [Ev.thread])]
      exact hp.store_change rfl (fun _ _ _ _ => Iff.rfl) (fun _ _ _ _ => Iff.rfl)
  · have hev : events σ .snap = [] := by simp [events, calls, lins, rets, hg]
    exact stepOK_same hev (by rw [step_eq_of_not_down hd]; simp only [hg]; rfl) habs

/-! ### collection jobs -/

/-- unlinking a dead version does not change the alive set -/
theorem absAlive_removeNode_dead {s : List Node} (hs : Sorted (vers s)) (hn : (storeIds s).Nodup) {n : Nat}
    {x : Node} (hf : findNode s n = some x) (hd : x.ver.dead ≠ 0) :
    Mvcc.absAlive (vers (removeNode s n)) = Mvcc.absAlive (vers s) := by
  have ⟨hx, hid⟩ := findNode_some hf
  rw [vers_removeNode hs hn hf]
  unfold Mvcc.absAlive Mvcc.removeId
  rw [List.filter_filter]
  congr 1
  apply List.filter_congr
  intro v hv
  by_cases ha : isAlive v = true
  · have hne : Mvcc.sameId v x.ver = false := by
      cases hsi : Mvcc.sameId v x.ver
      · rfl
      · exfalso
        have := (Mvcc.sameId_iff _ _).mp hsi
        have hxv : x.ver ∈ vers s := List.mem_map.mpr ⟨x, hx, rfl⟩
        have := Mvcc.sorted_id_unique hs hv hxv this.1 this.2
        subst this
        simp [isAlive] at ha; exact hd ha
    simp [ha, hne]
  · simp [ha]

theorem aliveIn_removeNode_dead {s : List Node} (hn : (storeIds s).Nodup) {n : Nat} {x : Node}
    (hf : findNode s n = some x) (hd : x.ver.dead ≠ 0) (m : Nat) :
    AliveIn (removeNode s n) m ↔ AliveIn s m := by
  have ⟨hx, hid⟩ := findNode_some hf
  constructor
  · rintro ⟨y, hy, h1, h2⟩; exact ⟨y, (mem_removeNode.mp hy).1, h1, h2⟩
  · rintro ⟨y, hy, h1, h2⟩
    refine ⟨y, mem_removeNode.mpr ⟨hy, ?_⟩, h1, h2⟩
    intro he
    have := id_unique hn hy hx (by omega)
    subst this; exact hd h2

theorem stepOK_gc {σ : State} {sp : SetSpec.State} (hi : Inv σ) (hd : σ.down = false) (habs : Abs σ sp) (j : Nat) :
    StepOK σ sp (.gc j) := by
  have hev : events σ (.gc j) = [] := by simp [events, calls, lins, rets]
  have hst : step σ (.gc j) = stepGc σ j := by rw [step_eq_of_not_down hd]
  -- the shape of the successor state
  have key : ((stepGc σ j).1.threads = σ.threads ∧ (stepGc σ j).1.currSn = σ.currSn ∧
      (stepGc σ j).1.writers = σ.writers) ∧
      ((stepGc σ j).1.store = σ.store ∨
        ∃ n x job, σ.gcJobs[j]? = some job ∧ n ∈ job.todo ∧ findNode σ.store n = some x ∧
          (stepGc σ j).1.store = removeNode σ.store n) := by
    unfold stepGc
    cases hj : σ.gcJobs[j]? with
    | none => exact ⟨⟨rfl, rfl, rfl⟩, Or.inl rfl⟩
    | some job =>
      simp only
      split
      · split <;> exact ⟨⟨rfl, rfl, rfl⟩, Or.inl rfl⟩
      · split
        · rename_i n r htd
          split
          · exact ⟨⟨rfl, rfl, rfl⟩, Or.inl rfl⟩
          · cases hf : findNode σ.store n with
            | none => simp only; split <;> exact ⟨⟨rfl, rfl, rfl⟩, Or.inl rfl⟩
            | some x =>
              simp only
              split <;> exact ⟨⟨rfl, rfl, rfl⟩, Or.inr ⟨n, x, job, rfl, by rw [htd]; simp, hf, rfl⟩⟩
        · exact ⟨⟨rfl, rfl, rfl⟩, Or.inl rfl⟩
      · exact ⟨⟨by simp, by simp, by simp⟩, Or.inl (by simp)⟩
      · exact ⟨⟨rfl, rfl, rfl⟩, Or.inl rfl⟩
      · exact ⟨⟨rfl, rfl, rfl⟩, Or.inl rfl⟩
  obtain ⟨⟨hthr, hcur, hwr⟩, hstore⟩ := key
  rcases hstore with hstore | ⟨n, x, job, hj, hn, hf, hstore⟩
  · refine ⟨⟨sp, by rw [hev]; rfl, ?_⟩, ?_⟩
    · rw [hst]; exact ⟨by rw [hwr]; exact habs.nw, by rw [hstore]; exact habs.alive, by rw [hcur]; exact habs.epoch⟩
    · intro t' p hp
      rw [hev, hst]
      exact hp.store_change (by rw [hthr]) (fun _ _ _ _ => by rw [hstore])
        (fun _ _ _ _ => by unfold AliveIn; rw [hstore])
  · -- a dead garbage node leaves the store
    have ⟨hx, hid⟩ := findNode_some hf
    have hgpos : 0 < garbC σ.writers σ.snaps σ.gcJobs n := by
      have : 0 < (garbJ σ.gcJobs).count n := by
        unfold garbJ
        exact count_flatMap_pos.mpr ⟨job, List.mem_of_getElem? hj, hn⟩
      unfold garbC; omega
    obtain ⟨x', hx', hid', hdead, hborn⟩ := hi.garb.linked n hgpos
    have hxx : x' = x := id_unique hi.store.ids hx' hx (by omega)
    rw [hxx] at hdead hborn
    refine ⟨⟨sp, by rw [hev]; rfl, ?_⟩, ?_⟩
    · rw [hst]
      refine ⟨by rw [hwr]; exact habs.nw, ?_, by rw [hcur]; exact habs.epoch⟩
      rw [hstore, absAlive_removeNode_dead hi.store.sorted hi.store.ids hf hdead]; exact habs.alive
    · intro t' p hp
      rw [hev, hst]
      refine hp.store_change (by rw [hthr]) ?_ ?_
      · intro m tok k hg
        rw [hstore]
        have hm := (hi.pc.phys t' m tok k hg).2.2.2
        constructor
        · exact storeIds_removeNode_sub
        · intro hmem
          refine mem_storeIds_removeNode hmem ?_
          intro he; subst he
          have := (hm x hx hid).2; omega
      · intro m tok k _
        rw [hstore]
        exact aliveIn_removeNode_dead hi.store.ids hf hdead m

/-! ### the bystanders of a winning Delete -/

theorem loserEv_some {σ : State} {t n t' : Nat} {e : Ev} (h : loserEv σ t n t' = some e) :
    t' ≠ t ∧ ∃ tok k', e = .lin t' (.del t' k') (.bool false) ∧
      (σ.threads[t']? = some (.delPhys n tok k') ∨ σ.threads[t']? = some (.delCas n tok k')) := by
  unfold loserEv at h
  split at h
  · cases h
  · rename_i hne
    refine ⟨hne, ?_⟩
    split at h
    · rename_i n' tok k' hg
      split at h
      · rename_i hn; subst hn; injection h with h; exact ⟨tok, k', h.symm, Or.inl hg⟩
      · cases h
    · rename_i n' tok k' hg
      split at h
      · rename_i hn; subst hn; injection h with h; exact ⟨tok, k', h.symm, Or.inr hg⟩
      · cases h
    · cases h

theorem loserEv_none {σ : State} {t n t' : Nat} (h : loserEv σ t n t' = none) (hne : t' ≠ t) :
    (∀ tok k, σ.threads[t']? ≠ some (.delPhys n tok k)) ∧ (∀ tok k, σ.threads[t']? ≠ some (.delCas n tok k)) := by
  unfold loserEv at h
  simp only [hne, if_false] at h
  constructor
  · intro tok k hg; rw [hg] at h; simp at h
  · intro tok k hg; rw [hg] at h; simp at h

/-- thread `t` has just made node `n` (linked and alive before) dead or unlinked; every other thread
    keeps a consistent phase once the losers have been linearized -/
theorem phase_kill {σ σ' : State} {t n : Nat}
    (hthr : ∀ t', t' ≠ t → σ'.threads[t']? = σ.threads[t']?)
    (hids : ∀ m, m ≠ n → (m ∈ storeIds σ'.store ↔ m ∈ storeIds σ.store))
    (halive : ∀ m, m ≠ n → (AliveIn σ'.store m ↔ AliveIn σ.store m))
    (hwas : n ∈ storeIds σ.store ∧ AliveIn σ.store n)
    (hA : ¬ AliveIn σ'.store n)
    (hB : ∀ (t' tok k : Nat), σ.threads[t']? = some (Pc.delPhys n tok k) → n ∉ storeIds σ'.store)
    {t' : Nat} (hne : t' ≠ t) {p : Phase} (hp : PhaseOK σ t' p) :
    PhaseOK σ' t' (phaseOf t' p (losers σ t n)) := by
  rw [phaseOf_losers]
  cases hl : loserEv σ t n t' with
  | some e =>
    simp only
    obtain ⟨_, tok, k', rfl, hg⟩ := loserEv_some hl
    rcases hg with hg | hg
    · -- parked at DEL_NODE_PHYS on `n`
      have hpcase : p = .called (.del t' k') := by
        cases p with
        | idle => exact absurd (hp _ hg) (by simp [Pc.isWop])
        | called op =>
          rcases hp with ⟨_, _, _, _, hg', _⟩ | ⟨_, _, _, hg', ho, _⟩ | ⟨_, _, _, hg', _⟩
          · rw [hg] at hg'; cases hg'
          · rw [hg] at hg'; injection hg' with h1; injection h1 with _ _ h4; subst h4; rw [ho]
          · rw [hg] at hg'; cases hg'
        | decided op res =>
          rcases hp with ⟨_, _, _, hg', _, _, hm⟩ | ⟨_, _, _, hg', _⟩ | ⟨_, _, _, hg', _⟩
          · rw [hg] at hg'; injection hg' with h1; injection h1 with h2 _ _; subst h2
            exact absurd hwas.1 hm
          · rw [hg] at hg'; cases hg'
          · rw [hg] at hg'; cases hg'
        | broken => exact hp.elim
      subst hpcase
      simp only [phaseStep, if_true]
      exact Or.inl ⟨n, tok, k', by rw [hthr t' hne]; exact hg, rfl, rfl, hB t' tok k' hg⟩
    · have hpcase : p = .called (.del t' k') := by
        cases p with
        | idle => exact absurd (hp _ hg) (by simp [Pc.isWop])
        | called op =>
          rcases hp with ⟨_, _, _, _, hg', _⟩ | ⟨_, _, _, hg', _⟩ | ⟨_, _, _, hg', ho, _⟩
          · rw [hg] at hg'; cases hg'
          · rw [hg] at hg'; cases hg'
          · rw [hg] at hg'; injection hg' with h1; injection h1 with _ _ h4; subst h4; rw [ho]
        | decided op res =>
          rcases hp with ⟨_, _, _, hg', _⟩ | ⟨_, _, _, hg', _⟩ | ⟨_, _, _, hg', _, _, hm⟩
          · rw [hg] at hg'; cases hg'
          · rw [hg] at hg'; cases hg'
          · rw [hg] at hg'; injection hg' with h1; injection h1 with h2 _ _; subst h2
            exact absurd hwas.2 hm
        | broken => exact hp.elim
      subst hpcase
      simp only [phaseStep, if_true]
      exact Or.inr (Or.inr ⟨n, tok, k', by rw [hthr t' hne]; exact hg, rfl, rfl, hA⟩)
  | none =>
    simp only
    have ⟨h1, h2⟩ := loserEv_none hl hne
    refine hp.store_change (hthr t' hne) ?_ ?_
    · intro m tok k hg
      exact hids m (by intro he; subst he; exact h1 tok k hg)
    · intro m tok k hg
      exact halive m (by intro he; subst he; exact h2 tok k hg)

/-- the losers' linearization points replay on the specification without effect -/
theorem replay_losers {σ : State} {sp' : SetSpec.State} (hi : Inv σ) {t n : Nat} {x : Node} (hx : x ∈ σ.store)
    (hid : x.id = n) (hnw : sp'.nwriters = σ.writers.length)
    (hk : SetSpec.findKey x.ver.key sp'.alive = none) : replay sp' (losers σ t n) = some sp' := by
  apply replay_failed_dels x.ver.key _ _ _ hk
  intro e he
  unfold losers at he
  obtain ⟨t', _, hl⟩ := List.mem_filterMap.mp he
  obtain ⟨_, tok, k', rfl, hg⟩ := loserEv_some hl
  rcases hg with hg | hg
  · have := hi.pc.phys t' n tok k' hg
    have hk' := (this.2.2.2 x hx hid).1
    exact ⟨t', by rw [hk'], by rw [hnw]; exact this.1⟩
  · have := hi.pc.cas t' n tok k' hg
    have hk' := (this.2.2.2.1 x hx hid).1
    exact ⟨t', by rw [hk'], by rw [hnw]; exact this.1⟩

end NitroVerif.MvccConc
