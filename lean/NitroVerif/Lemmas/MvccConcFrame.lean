/-
  Frame facts for the linearization proof: which actions leave alone everything a writer operation
  can see (the store, the epoch, the writers, the program counters of writer operations in progress).
-/
import NitroVerif.Lemmas.MvccConcLin

namespace NitroVerif.MvccConc
open NitroVerif

/-- `σ'` differs from `σ` in nothing a writer operation sees, except that thread `t` may have moved to
    a program counter that belongs to no writer operation -/
def Mild (t : Nat) (σ σ' : State) : Prop :=
  σ'.store = σ.store ∧ σ'.currSn = σ.currSn ∧ σ'.writers = σ.writers ∧ σ'.itemsCount = σ.itemsCount ∧
    σ'.down = σ.down ∧ σ'.unlinked = σ.unlinked ∧ σ'.fixedIter = σ.fixedIter ∧
    ∃ pc' : Pc, pc'.isWop = false ∧ (σ'.threads = σ.threads.set t pc' ∨ σ'.threads = σ.threads)

theorem Mild.refl (t : Nat) (σ : State) : Mild t σ σ :=
  ⟨rfl, rfl, rfl, rfl, rfl, rfl, rfl, .idle, rfl, Or.inr rfl⟩

theorem Mild.trans {t : Nat} {σ σ1 σ2 : State} (h1 : Mild t σ σ1) (h2 : Mild t σ1 σ2) : Mild t σ σ2 := by
  obtain ⟨a1, a2, a3, a4, a5, a6, a7, pc1, hp1, ht1⟩ := h1
  obtain ⟨b1, b2, b3, b4, b5, b6, b7, pc2, hp2, ht2⟩ := h2
  refine ⟨by rw [b1, a1], by rw [b2, a2], by rw [b3, a3], by rw [b4, a4], by rw [b5, a5], by rw [b6, a6],
    by rw [b7, a7], ?_⟩
  rcases ht2 with ht2 | ht2
  · rcases ht1 with ht1 | ht1
    · exact ⟨pc2, hp2, Or.inl (by rw [ht2, ht1, List.set_set])⟩
    · exact ⟨pc2, hp2, Or.inl (by rw [ht2, ht1])⟩
  · rcases ht1 with ht1 | ht1
    · exact ⟨pc1, hp1, Or.inl (by rw [ht2, ht1])⟩
    · exact ⟨pc1, hp1, Or.inr (by rw [ht2, ht1])⟩

theorem mild_setPc (σ : State) (t : Nat) {pc' : Pc} (hp : pc'.isWop = false) : Mild t σ (setPc σ t pc') :=
  ⟨rfl, rfl, rfl, rfl, rfl, rfl, rfl, pc', hp, Or.inl rfl⟩

theorem mild_landOn (σ : State) (t i : Nat) (it : Iter) (land : Option Node) : Mild t σ (landOn σ t i it land).1 := by
  unfold landOn
  cases land with
  | none => exact ⟨rfl, rfl, rfl, rfl, rfl, rfl, rfl, .idle, rfl, Or.inl rfl⟩
  | some y =>
    simp only
    split
    · exact ⟨rfl, rfl, rfl, rfl, rfl, rfl, rfl, .iterNext i, rfl, Or.inl rfl⟩
    · exact ⟨rfl, rfl, rfl, rfl, rfl, rfl, rfl, .idle, rfl, Or.inl rfl⟩

theorem mild_finishClose (σ : State) (t : Nat) (after : Option Nat) : Mild t σ (finishClose σ t after).1 := by
  unfold finishClose
  cases after with
  | none => exact mild_setPc σ t rfl
  | some i =>
    simp only
    split
    · exact ⟨rfl, rfl, rfl, rfl, rfl, rfl, rfl, .idle, rfl, Or.inl rfl⟩
    · exact mild_setPc σ t rfl

theorem mild_collectLoop (σ : State) (t : Nat) (after : Option Nat) : Mild t σ (collectLoop σ t after).1 := by
  unfold collectLoop
  split
  · rename_i s _
    exact ⟨rfl, rfl, rfl, rfl, rfl, rfl, rfl, .collectSend s.sn after, rfl, Or.inl rfl⟩
  · split
    · exact Mild.refl t σ
    · exact Mild.trans (σ1 := { σ with gcFlag := false }) ⟨rfl, rfl, rfl, rfl, rfl, rfl, rfl, .idle, rfl, Or.inr rfl⟩
        (mild_finishClose _ t after)

theorem mild_closeRef (σ : State) (t s : Nat) (rc : Int) (after : Option Nat) :
    Mild t σ (closeRef σ t s rc after).1 := by
  unfold closeRef runGC
  split
  · split
    · exact Mild.trans (σ1 := { σ with snaps := _ }) ⟨rfl, rfl, rfl, rfl, rfl, rfl, rfl, .idle, rfl, Or.inr rfl⟩
        (mild_finishClose _ t after)
    · exact Mild.trans (σ1 := { σ with snaps := _ }) ⟨rfl, rfl, rfl, rfl, rfl, rfl, rfl, .idle, rfl, Or.inr rfl⟩
        (mild_collectLoop _ t after)
  · exact Mild.trans (σ1 := { σ with snaps := _ }) ⟨rfl, rfl, rfl, rfl, rfl, rfl, rfl, .idle, rfl, Or.inr rfl⟩
      (mild_finishClose _ t after)

theorem mild_startClose (σ : State) (t s : Nat) : Mild t σ (startClose σ t s).1 := by
  unfold startClose
  split
  · split
    · exact Mild.trans (σ1 := { σ with snaps := _ }) ⟨rfl, rfl, rfl, rfl, rfl, rfl, rfl, .idle, rfl, Or.inr rfl⟩
        (mild_closeRef _ t s _ none)
    · exact Mild.refl t σ
  · exact Mild.refl t σ

theorem mild_itClose (σ : State) (t i : Nat) : Mild t σ (itClose σ t i).1 := by
  unfold itClose
  split
  · split
    · exact mild_closeRef _ _ _ _ _
    · exact Mild.refl t σ
  · exact Mild.refl t σ

theorem mild_itNew (σ : State) (t i s : Nat) : Mild t σ (itNew σ t i s).1 := by
  unfold itNew
  split
  · split
    · exact Mild.refl t σ
    · exact ⟨rfl, rfl, rfl, rfl, rfl, rfl, rfl, .idle, rfl, Or.inr rfl⟩
  · exact Mild.refl t σ

theorem mild_itFirst (σ : State) (t i : Nat) : Mild t σ (itFirst σ t i).1 := by
  unfold itFirst
  split
  · exact mild_landOn _ _ _ _ _
  · exact Mild.refl t σ

theorem mild_itNext (σ : State) (t i : Nat) : Mild t σ (itNext σ t i).1 := by
  unfold itNext
  split
  · split
    · exact mild_setPc σ t rfl
    · exact Mild.refl t σ
  · exact Mild.refl t σ

theorem mild_stepIter (σ : State) (t i : Nat) : Mild t σ (stepIter σ t i).1 := by
  unfold stepIter
  split
  · split
    · split
      · exact Mild.refl t σ
      · split
        · exact mild_landOn _ _ _ _ _
        · split
          · exact Mild.refl t σ
          · exact mild_landOn _ _ _ _ _
    · exact Mild.refl t σ
  · exact Mild.refl t σ

theorem mild_stepCollect (σ : State) (t sn : Nat) (after : Option Nat) : Mild t σ (stepCollect σ t sn after).1 := by
  unfold stepCollect
  split
  · exact Mild.trans (σ1 := { σ with lastGCSn := _, gcJobs := _, snaps := _ })
      ⟨rfl, rfl, rfl, rfl, rfl, rfl, rfl, .idle, rfl, Or.inr rfl⟩ (mild_collectLoop _ t after)
  · exact Mild.refl t σ

theorem mild_stepFr (σ : State) (j t : Nat) : Mild t σ (stepFr σ j).1 := by
  unfold stepFr
  split
  · split
    · exact ⟨by simp, by simp, by simp, by simp, by simp, by simp, by simp, .idle, rfl, Or.inr (by simp)⟩
    · exact ⟨rfl, rfl, rfl, rfl, rfl, rfl, rfl, .idle, rfl, Or.inr rfl⟩
    · exact Mild.refl t σ
  · exact Mild.refl t σ

theorem mild_shutdown (σ : State) (t : Nat) :
    (shutdown σ).1.store = σ.store ∧ (shutdown σ).1.currSn = σ.currSn ∧ (shutdown σ).1.writers = σ.writers ∧
      (shutdown σ).1.threads = σ.threads := by
  unfold shutdown
  split <;> simp

/-! ### what a frame preserves -/

theorem PhaseOK.mild {σ σ' : State} {t t' : Nat} {p : Phase} (hm : Mild t σ σ')
    (h0 : ∀ pc, σ.threads[t]? = some pc → pc.isWop = false) (h : PhaseOK σ t' p) : PhaseOK σ' t' p := by
  obtain ⟨hs, _, _, _, _, _, _, pc', hp', hthr⟩ := hm
  -- the program counters of writer operations are the same
  have hsame : ∀ (u : Nat) (pc : Pc), pc.isWop = true → (σ'.threads[u]? = some pc ↔ σ.threads[u]? = some pc) := by
    intro u pc hw
    rcases hthr with hthr | hthr
    · rw [hthr]
      by_cases he : t = u
      · subst he
        constructor
        · intro hg
          rcases get_set_cases hg with ⟨_, he⟩ | ⟨hne, _⟩
          · subst he; rw [hp'] at hw; cases hw
          · exact absurd rfl hne
        · intro hg; have := h0 pc hg; rw [this] at hw; cases hw
      · rw [get_set_ne _ he]
    · rw [hthr]
  cases p with
  | idle =>
    intro pc hg
    cases hw : pc.isWop with
    | false => rfl
    | true => exact absurd (h pc ((hsame t' pc hw).mp hg)) (by rw [hw]; simp)
  | called op =>
    rcases h with ⟨n, k, v, b, hg, ho⟩ | ⟨n, tok, k, hg, ho, hm⟩ | ⟨n, tok, k, hg, ho, hm⟩
    · exact Or.inl ⟨n, k, v, b, (hsame _ _ rfl).mpr hg, ho⟩
    · exact Or.inr (Or.inl ⟨n, tok, k, (hsame _ _ rfl).mpr hg, ho, by rw [hs]; exact hm⟩)
    · exact Or.inr (Or.inr ⟨n, tok, k, (hsame _ _ rfl).mpr hg, ho, by unfold AliveIn; rw [hs]; exact hm⟩)
  | decided op res =>
    rcases h with ⟨n, tok, k, hg, ho, hr, hm⟩ | ⟨n, tok, k, hg, ho, hr⟩ | ⟨n, tok, k, hg, ho, hr, hm⟩
    · exact Or.inl ⟨n, tok, k, (hsame _ _ rfl).mpr hg, ho, hr, by rw [hs]; exact hm⟩
    · exact Or.inr (Or.inl ⟨n, tok, k, (hsame _ _ rfl).mpr hg, ho, hr⟩)
    · exact Or.inr (Or.inr ⟨n, tok, k, (hsame _ _ rfl).mpr hg, ho, hr, by unfold AliveIn; rw [hs]; exact hm⟩)
  | broken => exact h

theorem Abs.mild {σ σ' : State} {t : Nat} {sp : SetSpec.State} (hm : Mild t σ σ') (h : Abs σ sp) : Abs σ' sp := by
  obtain ⟨hs, hc, hw, _⟩ := hm
  exact ⟨by rw [hw]; exact h.nw, by rw [hs]; exact h.alive, by rw [hc]; exact h.epoch⟩

end NitroVerif.MvccConc
