import NitroVerif.Spec.MapSpec
/-!
  Association-list lemmas (`AL.get/set/del`): lookups after updates, key lists, lengths.
-/
namespace NitroVerif.AL

variable {β : Type}

theorem get_set (m : List (Nat × β)) (k : Nat) (v : β) (k' : Nat) :
    get (set m k v) k' = if k' = k then some v else get m k' := by
  induction m with
  | nil =>
    simp only [set, get]
    by_cases h : k = k' <;> simp [h, eq_comm]
  | cons e r ih =>
    obtain ⟨k0, v0⟩ := e
    simp only [set]
    by_cases h0 : k0 = k
    · subst h0
      simp only [if_true, get]
      by_cases h : k0 = k' <;> simp [h, eq_comm]
      intro h'; exact absurd h'.symm h
    · simp only [h0, if_false, get, ih]
      by_cases h : k0 = k'
      · subst h; simp [h0]
      · simp [h]

theorem get_set_self (m : List (Nat × β)) (k : Nat) (v : β) : get (set m k v) k = some v := by
  simp [get_set]

theorem get_set_ne (m : List (Nat × β)) (k : Nat) (v : β) {k' : Nat} (h : k' ≠ k) :
    get (set m k v) k' = get m k' := by
  simp [get_set, h]

theorem get_eq_none_iff (m : List (Nat × β)) (k : Nat) : get m k = none ↔ k ∉ keys m := by
  induction m with
  | nil => simp [get, keys]
  | cons e r ih =>
    obtain ⟨k0, v0⟩ := e
    simp only [get, keys, List.map_cons, List.mem_cons, not_or] at ih ⊢
    by_cases h : k0 = k
    · subst h; simp
    · simp only [h, if_false, ih]
      constructor
      · intro h1; exact ⟨fun e => h e.symm, h1⟩
      · intro h1; exact h1.2

theorem get_del_ne (m : List (Nat × β)) (k : Nat) {k' : Nat} (h : k' ≠ k) :
    get (del m k) k' = get m k' := by
  induction m with
  | nil => simp [del]
  | cons e r ih =>
    obtain ⟨k0, v0⟩ := e
    simp only [del]
    by_cases h0 : k0 = k
    · subst h0
      have : ¬ k0 = k' := fun e => h e.symm
      simp [get, this]
    · simp only [h0, if_false, get, ih]

theorem get_del_self (m : List (Nat × β)) (k : Nat) (hn : (keys m).Nodup) :
    get (del m k) k = none := by
  induction m with
  | nil => simp [del, get]
  | cons e r ih =>
    obtain ⟨k0, v0⟩ := e
    simp only [keys, List.map_cons, List.nodup_cons] at hn
    simp only [del]
    by_cases h0 : k0 = k
    · subst h0
      simp only [if_true]
      exact (get_eq_none_iff r k0).2 hn.1
    · simp only [h0, if_false, get]
      exact ih hn.2

theorem get_del (m : List (Nat × β)) (k : Nat) (hn : (keys m).Nodup) (k' : Nat) :
    get (del m k) k' = if k' = k then none else get m k' := by
  by_cases h : k' = k
  · subst h; simp [get_del_self m k' hn]
  · simp [h, get_del_ne m k h]

theorem keys_set (m : List (Nat × β)) (k : Nat) (v : β) :
    keys (set m k v) = if (get m k).isSome then keys m else keys m ++ [k] := by
  induction m with
  | nil => simp [set, get, keys]
  | cons e r ih =>
    obtain ⟨k0, v0⟩ := e
    simp only [set, get]
    by_cases h0 : k0 = k
    · subst h0; simp [keys]
    · simp only [h0, if_false]
      simp only [keys, List.map_cons] at ih ⊢
      rw [ih]
      split <;> simp

theorem nodup_set (m : List (Nat × β)) (k : Nat) (v : β) (hn : (keys m).Nodup) :
    (keys (set m k v)).Nodup := by
  rw [keys_set]
  split
  · exact hn
  · rename_i h
    have hnone : get m k = none := by
      cases hg : get m k with
      | none => rfl
      | some x => simp [hg] at h
    have := (get_eq_none_iff m k).1 hnone
    rw [List.nodup_append]
    refine ⟨hn, by simp, ?_⟩
    intro a ha b hb
    simp at hb; subst hb
    intro e; subst e; exact this ha

theorem keys_del_sublist (m : List (Nat × β)) (k : Nat) : (keys (del m k)).Sublist (keys m) := by
  induction m with
  | nil => simp [del, keys]
  | cons e r ih =>
    obtain ⟨k0, v0⟩ := e
    simp only [del]
    by_cases h0 : k0 = k
    · simp [h0, keys]
    · simp only [h0, if_false, keys, List.map_cons]
      exact List.Sublist.cons_cons _ ih

theorem nodup_del (m : List (Nat × β)) (k : Nat) (hn : (keys m).Nodup) : (keys (del m k)).Nodup :=
  hn.sublist (keys_del_sublist m k)

theorem length_set (m : List (Nat × β)) (k : Nat) (v : β) :
    (set m k v).length = if (get m k).isSome then m.length else m.length + 1 := by
  have := congrArg List.length (keys_set m k v)
  simp only [keys, List.length_map] at this
  rw [this]
  split <;> simp

theorem length_del (m : List (Nat × β)) (k : Nat) :
    (del m k).length + (if (get m k).isSome then 1 else 0) = m.length := by
  induction m with
  | nil => simp [del, get]
  | cons e r ih =>
    obtain ⟨k0, v0⟩ := e
    simp only [del, get]
    by_cases h0 : k0 = k
    · simp [h0]
    · simp only [h0, if_false, List.length_cons]
      omega

/-- total number of pointers held in the slow lists -/
def total (m : List (Nat × List Nat)) : Nat := (m.map (·.2.length)).sum

theorem total_set (m : List (Nat × List Nat)) (k : Nat) (v : List Nat) :
    total (set m k v) + ((get m k).map List.length).getD 0 = total m + v.length := by
  induction m with
  | nil => simp [set, get, total]
  | cons e r ih =>
    obtain ⟨k0, v0⟩ := e
    simp only [set, get]
    by_cases h0 : k0 = k
    · simp [h0, total]; omega
    · simp only [h0, if_false]
      simp only [total, List.map_cons, List.sum_cons] at ih ⊢
      omega

theorem total_del (m : List (Nat × List Nat)) (k : Nat) :
    total (del m k) + ((get m k).map List.length).getD 0 = total m := by
  induction m with
  | nil => simp [del, get, total]
  | cons e r ih =>
    obtain ⟨k0, v0⟩ := e
    simp only [del, get]
    by_cases h0 : k0 = k
    · simp [h0, total]; omega
    · simp only [h0, if_false]
      simp only [total, List.map_cons, List.sum_cons] at ih ⊢
      omega

end NitroVerif.AL
